"""C18 — decomposition results do not depend on how the problem is presented (DESIGN §C18).

Correspondence half: metamorphic PAIRS of real pyttb runs.  Every case holds two complete run descriptions
(`base`, `trans`) that differ only in presentation; `run_impl` executes both on pyttb; `coq_check` emits a Gallina
bool that compares the two observed models IN COQ by denotation over all subscripts (Model/C18Cmp.v, exact
rationals, tolerance tol8 = 1e-8 relative to the largest base entry), plus fit / iteration count.

ops:  <pair>.<alg>   pair in {repr, print, seed, scale, relabel};
      alg in {cp_als, cp_apr_mu, cp_apr_pdnr, cp_apr_pqnr, hosvd, tucker_als, gcp}  (gcp = gcp_opt + LBFGSB);
      print.static = one source scan of the drivers (tools/props/c18_static.py): what is evaluated / assigned only when printing must be
      the pinned table - the trusted base of the print theorems over the generated skeletons (Props/C18W5.v, Props/C18W5b.v)."""
import math
from fractions import Fraction

import tgen
from vcheck import Case, gnlist, gq
from props import c18_util as U
from props import c18_static as S

PROP = "C18"
LEVEL = "proof"
GEN_UNITS = ["GenCpAls", "GenTuckerAls", "GenHosvd", "GenCpAprMu", "GenSolver", "GenHosvdFull", "GenCpAprPdnr", "GenCpAprPqnr"]     # wave 5: Props/C18W5.v states print-independence over the generated control-flow skeletons (tools/pyx2v_skel.py, owned by w5-skel, read-only)
COQ_TARGETS = ["Props/C18.vo", "Props/C18Perm.vo", "Props/C18Rows.vo", "Props/C18W4.vo", "Props/C18W4H.vo", "Props/C18W4O.vo", "Props/C18W4S.vo", "Props/C18W5.vo", "Props/C18W5b.vo", "Props/C18W5c.vo", "Props/C18W8.vo", "Proofs/C18GenPrintExamples.vo", "Proofs/C18W8Examples.vo", "Model/C18Cmp.vo", "Model/Harness.vo"]
THEOREM_FILES = ["Props/C18.v", "Props/C18Perm.v", "Props/C18Rows.v", "Props/C18W4.v", "Props/C18W4H.v", "Props/C18W4O.v", "Props/C18W4S.v", "Props/C18W5.v", "Props/C18W5b.v", "Props/C18W5c.v", "Props/C18W8.v"]
COQ_IMPORTS = ("From Coq Require Import List ZArith Bool QArith Qcanon.\n"
               "From PV Require Import Base.Index Np.Array Model.Sparse Model.Repr Model.Harness Model.C18Cmp.\n")
SHARD = 16          # quick tier (247 evaluated pairs): 16 shards = one round on 16 cores; ~1.3 s of library loading per shard
TOL = Fraction(1, 10 ** 8)
# per-sweep KKT violations (cp_apr) are a derived diagnostic max|min(m, 1 - sum x / (m . pi))|: entries of size 1e-8 (the value
# PDNR / PQNR patch all-zero rows of the start with) turn the 1e-16 rounding of the model into 1e-8 in the diagnostic (wave 3b, seed 8:
# models agree to 2e-11, KKT of sweep 1 differs by 1.4e-8). The property pins the MODEL (1e-8); the KKT trace is compared at 1e-6.
TOL_KKT = Fraction(1, 10 ** 6)

PAIRS = {
    "repr": ("cp_als", "cp_apr_mu", "cp_apr_pdnr", "cp_apr_pqnr", "tucker_als", "hosvd", "gcp"),
    "print": ("cp_als", "cp_apr_mu", "cp_apr_pdnr", "cp_apr_pqnr", "hosvd", "tucker_als", "gcp"),
    "seed": ("cp_als", "cp_apr_mu", "cp_apr_pdnr", "cp_apr_pqnr", "tucker_als", "gcp"),
    "scale": ("cp_als", "hosvd", "tucker_als"),
    "relabel": ("cp_als", "hosvd", "tucker_als"),
}
# everything except what Props/C18*.v prove: cp_als repr / print / scale / relabel (sweep + loop model); hosvd / tucker_als scale
# (rank rule + abstract projector model); wave 3: print for hosvd / tucker_als / cp_apr_mu (transliterated drivers, Proofs/C18Print.v),
# repr for tucker_als (Gram matrix handed to the eigen solver identical for dense / sparse holders + abstract loop), relabel for
# hosvd / tucker_als (abstract projector model under an equivariant oracle); wave 3b: the equivariance contract of the projector step
# is DISCHARGED on dense holders (Props/C18Perm.v: Gram-permutation identity, mode products commute with relabelling, hosvd's whole
# mode loop for any function from the Gram matrix to the applied matrix), print for cp_apr_pdnr / cp_apr_pqnr / gcp (transliterated
# drivers, Proofs/C18PrintRows.v; pdnr / pqnr under the contract that the in-place normalisation of the printed log-likelihood is
# invisible to redistribute(0) / the final normalize on normalised states). The eigen-solvers stay oracles.
# wave 4 (Props/C18W4.v, Props/C18W4H.v): repr for cp_apr_mu on the C11 numerical model (sparse Pi / Phi branch = dense branch through
# the whole loop) + the print driver bridged to that model; Tucker-ALS's upd_perm / A_perm contracts discharged on dense holders;
# relabel for the transliterated hosvd driver (rank rule, IndexError path, sequential or not) on dense holders.
# wave 5 (Props/C18W5.v): the printing clause over the translator-GENERATED skeletons of cp_als / tucker_als / tt_cp_apr_mu /
# StochasticSolver.solve (the generated function returns the same result for any two printing settings, all kernels arbitrary; cp_als: the
# final fit recomputation characterised exactly) and bridges of the hand print drivers of hosvd / tucker_als to the generated loops for
# every verbosity. Trusted there: the arguments of dropped print calls (pinned + scanned on every run: op print.static, c18_static.py).
# Still correspondence-only: repr for cp_apr_pdnr / cp_apr_pqnr (row solvers' numerics are oracles in the C11 rows model), repr.hosvd and
# repr.gcp (memory-layout pairs only: both reject sparse data; layout is not part of any model), every seed.* (numpy's generator and the
# absence of further draws inside the algorithms are not modelled).
PROVED = {("cp_als", "repr"), ("cp_als", "print"), ("cp_als", "scale"), ("cp_als", "relabel"), ("hosvd", "scale"), ("tucker_als", "scale"),
          ("hosvd", "print"), ("tucker_als", "print"), ("cp_apr_mu", "print"), ("tucker_als", "repr"),
          ("hosvd", "relabel"), ("tucker_als", "relabel"),
          ("cp_apr_pdnr", "print"), ("cp_apr_pqnr", "print"), ("gcp", "print"),
          ("cp_apr_mu", "repr")}        # wave 4: Props/C18W4.v, sparse Pi / Phi branch = dense branch through the whole MU loop (C11 model)
CORRESPONDENCE_ONLY = [f"{p}.{a}" for p, algs in PAIRS.items() for a in algs if (a, p) not in PROVED]

RULE = ("metamorphic pairs of real runs, maxiters <= 5, <= 36 cells, ranks 1-2: repr = dense vs sparse holder of the same integer "
        "data (stored order sorted|reversed|random) for cp_als, cp_apr mu/pdnr/pqnr, tucker_als (hosvd and gcp_opt+LBFGSB reject "
        "sparse data), plus MEMORY LAYOUT pairs for all seven (data / subs / vals / start matrices handed over C-ordered, F-ordered or "
        "as non-contiguous strided views; gcp start also as a plain list); print = printitn/verbosity 0 vs {1,2,5} for all seven, plus "
        "ALL PAIRS of printing intervals from "
        "{0,1,2,5} on runs of 4-6 outer iterations whose cp_apr starts have structural zeros in the first factor (mu: the inadmissible-"
        "zero repair fires in mode 0 right after a printed / a silent iteration), likewise pdnr / pqnr / cp_als / tucker_als and hosvd "
        "verbosity pairs (1,3,6), plus odd intervals (0,3),(3,7),(1,100) on runs with maxiters 0/1/3/5 and hosvd verbosity on its "
        "thresholds (0,2),(2,5),(0,10), also with the string start 'nvecs'; seed = same np.random.seed twice "
        "(all with a random start; hosvd has none), plus STRING vs OBJECT start: the start run 1 drew ('random', seeded) or computed "
        "('nvecs') and returned is handed to run 2 as a ktensor / list (tucker_als: unused first-mode slot filled arbitrarily); "
        "scale = X vs cX, c in {2, 8, 1/4} and FAR scales c in {2^-24, 2^-17, 2^24, 2^-20, 2^-30, 2^30} for cp_als, hosvd, tucker_als only "
        "(cp_apr and gcp losses are not scale-equivariant: skipped), the far ones half on dyadic data with a graded multilinear "
        "spectrum 1, 2^-g, 2^-2g (g 4..7) and, for hosvd, automatic ranks with a tight tolerance (1e-3..1e-6): chosen ranks (core "
        "shape) compared explicitly, model compared at 1e-8 of the larger-magnitude side; relabel = X vs X.permute(p) with guess/ranks "
        "permuted and "
        "dimorder' = [p.index(m) for m in dimorder] for cp_als, hosvd, tucker_als only (cp_apr and gcp have no mode-order "
        "parameter and sweep modes 0..N-1, so a relabelled run is a different algorithm: skipped); option corners for repr / relabel / "
        "scale pairs: maxiters 1/0/2/5 with printing switched on identically on both sides (3, 7, 100); wave 4: relabel.cp_als "
        "(+ a print / a holder pair) with optdims a STRICT SUBSET of the modes (>= 2 optimised modes, N >= 3), an explicit dimorder "
        "whose restriction to optdims is descending or shuffled, >= 2 sweeps, under a relabelling that reverses the relative position "
        "of two optimised modes (a filter of dimorder that sorts it shows up on one side only); cp_apr's second verbosity setting "
        "printinneritn (mu / pdnr / pqnr): pairs of (printitn, printinneritn) from (0,0),(0,1),(1,1),(1,0),(1,3),(2,1),(0,2),(5,2). wave 5: EXTREME scales 2^-60 .. 2^60 (cp_als / tucker_als / hosvd: "
        "Frobenius norms far below / above every absolute default tolerance, >= 3 sweeps allowed, dense and sparse holders); the holder's "
        "VALUE DTYPE: dense float64 vs a sparse holder storing int64 / int32 / bool values and vs a dense holder of that dtype (cp_als, "
        "tucker_als, cp_apr mu / pdnr / pqnr; bool: 0/1 data); the regression input of the repaired finding C18-PQNR-PRINT; one static "
        "case print.static (source scan of the nine drivers: calls / assignments that happen only when printing must be the pinned ones). "
        "Data: integer "
        "low-rank-plus-noise (counts for cp_apr), with zero entries, and for cp_apr an optional all-zero slice; every mode-n "
        "unfolding has exact rank >= the requested rank (checked with Fractions in the generator), Tucker ranks satisfy "
        "r_n <= prod of the others, start columns are not nearly parallel (exact Gram-determinant test) - so the sub-problems are "
        "well posed and rounding is not amplified; wave 3b: Tucker-ALS data additionally have a relative eigen-gap >= 1e-2 at the rank "
        "cut of every mode-n Gram matrix and 'nvecs' starts are generated only for rank <= every mode size with separated leading "
        "Gram eigenvalues (a repeated eigenvalue makes eigsh / ARPACK, whose start vector numpy's seed does not drive, return a "
        "different subspace on every call: two IDENTICAL calls then disagree). Quick tier: every class once or twice (about 200 "
        "pairs); thorough: 10 x the full count tables (about 3.4k pairs). cp_apr PQNR cases where pyttb raises its own L-BFGS assertion identically under "
        "both presentations are skipped; 'nvecs' starts are not generated on sparse data (open findings A-38 / C09-NVECS-SPARSE: "
        "sptensor.nvecs returns complex vectors). non-trivial = data not all-equal and, for relabel, a non-identity permutation; "
        "distinct = distinct (op, both run descriptions)")
EXPLANATION = ("Each case is two real pyttb runs differing only in presentation; both observed models (raw weights/factors/core as "
               "exact rationals) are expanded by den_k / den_t in Coq over all subscripts and compared entrywise with "
               "|trans(pick p i) - c*base(i)| <= 1e-8*max(1,max|c*base|); fit/objective with |a-b| <= 1e-8*max(1,|b|); iteration "
               "counts and (Tucker) core shapes equal; for a scale factor below 1 the two sides swap roles (factor 1/c) so that the floor 1 of "
               "the tolerance never hides a tiny model; for the seed pair raw parameters, returned start and fit must be identical (tolerance 0), except "
               "tucker_als whose eigsh/ARPACK start vector is not driven by numpy's seed: returned start identical, model and fit at "
               "tolerance. cp_als / tucker_als fits are compared through q = (1-fit)^2 (the quantity under the code's square root; "
               "near an exact fit the root turns 1e-16 into 1e-8). cp_als final fit under printing is recomputed from innerprod "
               "(A-43): rounding-level, compared at tolerance. cp_apr additionally: per-sweep KKT violations at 1e-6 (a derived diagnostic that amplifies model rounding by the reciprocal of the smallest model entry, 1e-8 after PDNR / PQNR's zero-row patch).")
ASSUMPTIONS = ["'up to rounding' is read as 1e-8 relative to the largest model entry on runs of <= 5 outer iterations over "
               "well-conditioned small integer data; long runs where rounding differences amplify are out of range"]


# ------------------------------------------------------------------------------------------ generators
def _lowrank(rng, shape, R, lo, hi, noise, zero_prob):
    """F-order integer list: sum of R rank-one integer terms + noise, some entries zeroed"""
    fac = [[[rng.randint(lo, hi) for _ in range(R)] for _ in range(d)] for d in shape]
    out = []
    for i in tgen.all_subs(shape):
        v = 0
        for r in range(R):
            t = 1
            for n, x in enumerate(i):
                t *= fac[n][x][r]
            v += t
        if noise and rng.random() < 0.4:
            v += rng.choice(noise)
        if rng.random() < zero_prob:
            v = 0
        out.append(v)
    return out


def unfold_rank(shape, data, n):
    """exact rank of the mode-n unfolding (Fractions, Gaussian elimination)"""
    rows = [[] for _ in range(shape[n])]
    for i, v in zip(tgen.all_subs(shape), data):
        rows[i[n]].append(Fraction(v))
    rk = 0
    ncol = len(rows[0]) if rows else 0
    for col in range(ncol):
        piv = next((r for r in range(rk, len(rows)) if rows[r][col] != 0), None)
        if piv is None:
            continue
        rows[rk], rows[piv] = rows[piv], rows[rk]
        for r in range(rk + 1, len(rows)):
            if rows[r][col] != 0:
                f = rows[r][col] / rows[rk][col]
                rows[r] = [a - f * b for a, b in zip(rows[r], rows[rk])]
        rk += 1
        if rk == len(rows):
            break
    return rk


def gen_data(rng, shape, signed, R=2, zero_prob=0.2, zero_slice=False, need=None):
    """`need`: per-mode lower bounds on the exact rank of the unfoldings (keeps the subspace problems well posed)"""
    for _ in range(200):
        if signed:
            data = _lowrank(rng, shape, R, -2, 3, [-1, 1], zero_prob)
        else:
            data = [max(0, v) for v in _lowrank(rng, shape, R, 0, 3, [1, 1, 2], zero_prob)]
        if zero_slice:
            n = rng.randrange(len(shape))
            j = rng.randrange(shape[n])
            data = [0 if i[n] == j else v for i, v in zip(tgen.all_subs(shape), data)]
        if len(set(data)) > 2 and sum(1 for v in data if v) >= max(3, len(data) // 3):
            if need is None or all(unfold_rank(shape, data, n) >= min(need[n], shape[n], len(data) // shape[n])
                                   for n in range(len(shape))):
                return data
    return data


def gen_graded(rng, shape, g, terms=3):
    """F-order list of DYADIC floats with a graded multilinear spectrum: sum_r 2^(-g r) a_r o b_r o ... with integer vectors in
    -2..3 (every vector nonzero, the leading ones of each mode pairwise non-parallel) - exactly representable, so X * 2^k is exact;
    relative multilinear singular values about 1, 2^-g, 2^-2g: with a tight tolerance the automatic HOSVD rank rule keeps the
    small components at EVERY magnitude of the data"""
    for _ in range(200):
        vecs = [[[rng.randint(-2, 3) for _ in range(d)] for d in shape] for _ in range(terms)]
        if any(not any(v) for t in vecs for v in t):
            continue
        ok = True
        for n, d in enumerate(shape):
            if d >= 2 and terms >= 2:
                a, b = vecs[0][n], vecs[1][n]
                if all(a[i] * b[j] == a[j] * b[i] for i in range(d) for j in range(d)):
                    ok = False
        if ok:
            break
    out = []
    for i in tgen.all_subs(shape):
        v = 0.0
        for r in range(terms):
            t = 1
            for n, x in enumerate(i):
                t *= vecs[r][n][x]
            v += t * 2.0 ** (-g * r)
        out.append(v)
    return out


def _wellcond(F, R):
    """exact test on integer numerators: columns not nearly parallel (Gram determinant >= 0.2 * product of diagonal)"""
    if R == 1:
        return any(r[0] for r in F)
    g = [[sum(r[a] * r[b] for r in F) for b in range(R)] for a in range(R)]
    if R == 2:
        return g[0][0] > 0 and g[1][1] > 0 and 5 * (g[0][0] * g[1][1] - g[0][1] ** 2) >= g[0][0] * g[1][1]
    return True


def gen_init(rng, shape, ranks, lo=1, zeros=False):
    """factor numerators over 8 (entries lo/8..8/8); ranks: int or per-mode list.
    zeros=True: STRUCTURAL zeros in the start - about 40% of the entries of the first factor and 15% of the others are exactly 0,
    every row and every column keeps a nonzero (cp_apr: the inadmissible-zero repair / active-set logic has work to do in mode 0)"""
    rl = ranks if isinstance(ranks, list) else [ranks] * len(shape)
    fs = []
    for n, (d, R) in enumerate(zip(shape, rl)):
        for _ in range(200):
            F = [[rng.randint(lo, 8) for _ in range(R)] for _ in range(d)]
            if zeros:
                pz = 0.4 if n == 0 else 0.15
                F = [[0 if rng.random() < pz else x for x in row] for row in F]
                if any(not any(row) for row in F) or any(not any(row[r] for row in F) for r in range(R)):
                    continue
                if n == 0 and d * R > 1 and not any(x == 0 for row in F for x in row):
                    continue
            if d < R or _wellcond(F, R):
                break
        fs.append(F)
    return {"den": 8, "factors": fs}


SHAPES3 = [(4, 3, 2), (3, 4, 2), (2, 3, 4), (3, 2, 4), (3, 3, 2), (2, 3, 3), (4, 2, 2), (3, 3, 3), (4, 3, 3), (2, 2, 3), (3, 1, 4)]
SHAPES2 = [(4, 3), (3, 5), (6, 4), (5, 2)]
SHAPES4 = [(2, 3, 2, 2), (2, 2, 2, 3), (3, 2, 2, 2)]


def pick_shape(rng, alg=None):
    u = rng.random()
    if u < 0.7:
        return list(rng.choice(SHAPES3))
    if u < 0.85:
        return list(rng.choice(SHAPES2))
    return list(rng.choice(SHAPES4))


def tucker_ranks(rng, shape):
    """multilinear ranks in {1,2} with ranks[n] <= prod of the others (otherwise trailing columns are arbitrary: ill-posed)"""
    for _ in range(100):
        r = [rng.randint(1, min(2, d)) for d in shape]
        if all(r[n] <= math.prod(r) // r[n] for n in range(len(r))):
            return r
    return [1] * len(shape)


def base_run(rng, alg, shape=None, seeded=False, zero_slice=False, zero_init=False, graded=None, rank=None):
    """a complete dense run description with an explicit start (or a seed when `seeded`);
    graded = g: dyadic data with multilinear singular values 1, 2^-g, 2^-2g and (hosvd) a tight tolerance with automatic ranks"""
    shape = shape or pick_shape(rng, alg)
    N = len(shape)
    signed = alg in ("cp_als", "hosvd", "tucker_als") or (alg == "gcp" and rng.random() < 0.5)
    rd = {"alg": alg, "shape": list(shape), "sparse": False, "printitn": 0, "seed": None, "init": None}
    R = rng.choice([1, 2, 2])
    if rank is not None:
        R = rank
    tr = tucker_ranks(rng, shape)
    need = tr if alg == "tucker_als" else [2] * N if alg == "hosvd" else [R] * N
    for _ in range(50):
        rd["data"] = gen_data(rng, shape, signed, R=rng.choice([1, 2, 2]), zero_prob=rng.choice([0.0, 0.2, 0.4]), zero_slice=zero_slice,
                              need=None if zero_slice else need)
        if alg != "tucker_als" or _gap_ok(shape, rd["data"], tr):
            break
    if graded is not None:
        rd["data"] = gen_graded(rng, shape, graded)
        rd["graded"] = graded
    dimorder = rng.choice([None, None] + U.perms(N))
    if alg == "cp_als":
        rd["rank"] = R
        rd["opts"] = {"maxiters": rng.randint(1, 5), "stoptol": rng.choice([1e-4, 1e-4, 1e-2, 0.0]), "dimorder": dimorder,
                      "optdims": None, "fixsigns": rng.random() < 0.8}
        if N >= 3 and rng.random() < 0.15:
            od = sorted(rng.sample(range(N), N - 1))
            rd["opts"]["optdims"] = od
    elif alg.startswith("cp_apr_"):
        rd["rank"] = R
        rd["opts"] = {"maxiters": rng.randint(1, 4), "stoptol": rng.choice([1e-4, 1e-2]), "maxinneriters": rng.choice([2, 5, 10])}
        if alg == "cp_apr_pqnr":
            rd["opts"]["maxiters"] = rng.choice([1, 1, 2, 3])          # >= 2 sweeps or >= 2 inner its: finding C18-PQNR-TIE
            rd["opts"]["maxinneriters"] = rng.choice([1, 1, 2, 3])     # larger values mostly die in pyttb's own L-BFGS assertion (not C18)
        if alg != "cp_apr_mu":
            rd["opts"]["precompinds"] = rng.random() < 0.5
        if alg == "cp_apr_pdnr":
            rd["opts"]["inexact"] = rng.random() < 0.7
    elif alg == "hosvd":
        rd["rank"] = None
        rd["opts"] = {"tol": rng.choice([0.1, 0.3, 0.5, 0.7]), "dimorder": dimorder, "sequential": rng.random() < 0.7, "ranks": None}
        if graded is not None:
            rd["opts"]["tol"] = rng.choice([1e-3, 1e-4, 1e-5, 1e-6, 2.0 ** -9])       # tight: keeps the 2^-g, 2^-2g components
        elif rng.random() < 0.3:
            rd["opts"]["ranks"] = [rng.randint(1, max(1, d - 1)) for d in shape]     # A-32: yields ranks+1 columns; irrelevant here
    elif alg == "tucker_als":
        rd["rank"] = tr
        rd["opts"] = {"maxiters": rng.randint(1, 4), "stoptol": rng.choice([1e-4, 1e-2, 0.0]), "dimorder": dimorder}
    elif alg == "gcp":
        rd["rank"] = R
        rd["opts"] = {"maxiters": rng.randint(1, 5), "objective": "gaussian" if signed else "poisson"}
    if seeded:
        rd["seed"] = rng.randrange(1, 10 ** 6)
    elif alg != "hosvd":
        rd["init"] = gen_init(rng, shape, rd["rank"], lo=(0 if alg.startswith("cp_apr_") and rng.random() < 0.3 else 1),
                              zeros=zero_init)
    return rd


def to_sparse(rng, rd, order):
    t = dict(rd)
    subs, vals = tgen.dense_to_sparse(rd["shape"], rd["data"], rng, order)
    t.pop("data")
    t.update({"sparse": True, "subs": subs, "vals": vals})
    return t


def relabel(rd, p):
    """the same problem with modes relabelled: Y = X.permute(p) (Y mode k = X mode p[k])"""
    t = dict(rd)
    shape = rd["shape"]
    nshape = [shape[k] for k in p]
    val = dict(zip(map(tuple, tgen.all_subs(shape)), rd["data"]))
    q = [p.index(m) for m in range(len(p))]              # q[m] = position of original mode m in the permuted tensor
    t["shape"] = nshape
    t["data"] = [val[tuple(j[q[m]] for m in range(len(p)))] for j in tgen.all_subs(nshape)]
    if rd.get("init"):
        t["init"] = {"den": rd["init"]["den"], "factors": [rd["init"]["factors"][k] for k in p]}
    if isinstance(rd.get("rank"), list):
        t["rank"] = [rd["rank"][k] for k in p]
    o = dict(rd["opts"])
    d = o.get("dimorder")
    d = list(range(len(p))) if d is None else d
    o["dimorder"] = [q[m] for m in d]                    # update, in the same sequence, the modes that hold the same original modes
    if o.get("optdims") is not None:
        o["optdims"] = sorted(q[m] for m in o["optdims"])
    if o.get("ranks") is not None:
        o["ranks"] = [o["ranks"][k] for k in p]
    t["opts"] = o
    return t


def _nontrivial(rd, pair, p=None):
    data = rd.get("data") or rd.get("vals") or []
    if len(set(data)) <= 1:
        return False
    if pair == "relabel":
        return p != sorted(p)
    return True


def _mk(pair, alg, base, trans, c=1, perm=None, extra=None):
    perm = perm if perm is not None else list(range(len(base["shape"])))
    args = {"pair": pair, "alg": alg, "base": base, "trans": trans, "c": c, "perm": perm}
    if extra:
        args.update(extra)
    return Case(f"{pair}.{alg}", args, _nontrivial(base, pair, perm))


def _gap_ok(shape, data, ranks, rel=1e-2):
    """Tucker-ALS keeps the r_n leading eigenvectors of mode-n Gram matrices: when the r_n-th and the (r_n+1)-th eigenvalue coincide
    the kept subspace is arbitrary and eigsh / ARPACK (unseeded start vector) returns a different one on every call - two IDENTICAL
    tucker_als calls then return different models of the same fit (wave 3b, seed 20: Gram spectrum 4, 2, 2, 0 with rank 2). Such data
    are ill posed for every relation of C18; the generator asks for a relative gap at the cut of the data's own Gram matrices."""
    import numpy as np
    X = np.array(data, dtype=float).reshape(tuple(shape), order="F")
    for n, d in enumerate(shape):
        if ranks[n] >= d:
            continue
        Xn = np.moveaxis(X, n, 0).reshape((d, -1))
        ev = sorted(np.linalg.eigvalsh(Xn @ Xn.T), reverse=True)
        if (ev[ranks[n] - 1] - ev[ranks[n]]) / max(ev[0], 1e-300) < rel:
            return False
    return True


def _nvecs_ok(b):
    """init='nvecs' asks every mode for `rank` leading eigenvectors of an I_n x I_n Gram matrix: admissible only for rank <= I_n
    (cp_als(shape (3,1,4), rank 2, init='nvecs') gets a 1-column factor for the singleton mode and dies in the ktensor constructor),
    and well posed only when the `rank` leading eigenvalues are separated from each other and from the next one: eigenvectors of a
    repeated eigenvalue are arbitrary in their eigenspace and eigsh / ARPACK picks them with its own unseeded start vector (wave 3b,
    seed 11: a 4 x 3 matrix with Gram spectrum 25, 1, 1 gave a different 'nvecs' start on every call) - relative gap >= 1e-2"""
    import numpy as np
    r = b["rank"]
    shape = b["shape"]
    if not all(d >= (r[n] if isinstance(r, list) else r) for n, d in enumerate(shape)):
        return False
    if b.get("sparse"):
        return False
    X = np.array(b["data"], dtype=float).reshape(tuple(shape), order="F")
    for n, d in enumerate(shape):
        rn = r[n] if isinstance(r, list) else r
        Xn = np.moveaxis(X, n, 0).reshape((d, -1))
        ev = sorted(np.linalg.eigvalsh(Xn @ Xn.T), reverse=True) + [0.0]
        top = max(ev[0], 1e-300)
        if any((ev[k] - ev[k + 1]) / top < 1e-2 for k in range(min(rn, d))):
            return False
    return True


FAR_SCALES = [2.0 ** -24, 2.0 ** -17, 2.0 ** 24, 2.0 ** -20, 2.0 ** -30, 2.0 ** 30]      # wave 4: + 2^30 (hosvd quick: each once)


XSCALES = [2.0 ** -45, 2.0 ** 60, 2.0 ** -60, 2.0 ** 45, 2.0 ** -36, 2.0 ** -52, 2.0 ** 52, 2.0 ** -33]   # wave 5: far below / above every absolute default tolerance


def gen_binary(rng, shape, rank, ok=None):
    """0 / 1 data (F-order) whose mode-n unfoldings have exact rank >= the requested rank (per mode for Tucker ranks), not all equal"""
    need = rank if isinstance(rank, list) else [rank] * len(shape)
    n = math.prod(shape)
    for _ in range(300):
        data = [1 if rng.random() < 0.6 else 0 for _ in range(n)]
        if len(set(data)) == 2 and all(unfold_rank(shape, data, m) >= min(need[m], shape[m], n // shape[m]) for m in range(len(shape))) \
                and (ok is None or ok(data)):
            return data
    return data


def _scaled(b, c):
    t = dict(b)
    key = "vals" if b["sparse"] else "data"
    t[key] = [v * c for v in b[key]]
    return _mk("scale", b["alg"], b, t, c=c)


def gen_cases(rng, tier):
    big = tier == "thorough"
    k = 10 if big else 1
    cases = []
    # quick tier: every class of pair once or twice (whole check ~30 s unloaded, ~75 s of CPU); the volume is in the thorough tier
    # (k = 10 and the full count tables: ~4 min unloaded)
    def cnt(q, t):
        return t * k if big else q
    # 1. repr: dense vs sparse holder (various stored orders)
    for alg, nq, n in (("cp_als", 7, 10), ("cp_apr_mu", 5, 7), ("cp_apr_pdnr", 8, 8), ("cp_apr_pqnr", 6, 8), ("tucker_als", 5, 7)):
        for j in range(cnt(nq, n)):
            zs = alg in ("cp_apr_pdnr", "cp_apr_pqnr", "cp_apr_mu") and j % 4 == 3
            b = base_run(rng, alg, zero_slice=zs)
            order = ("sorted", "reversed", "random")[j % 3]
            cases.append(_mk("repr", alg, b, to_sparse(rng, b, order), extra={"order": order, "zero_slice": zs}))
    # 2. print: printitn 0 vs 1, 2, 5 (hosvd: verbosity 0 vs 1, 3, 6 — its thresholds are >0, >2, >5)
    for alg, n in (("cp_als", 3), ("cp_apr_mu", 2), ("cp_apr_pdnr", 2), ("cp_apr_pqnr", 2), ("hosvd", 2), ("tucker_als", 2), ("gcp", 1)):
        for j in range(n * k):
            b = base_run(rng, alg)
            if alg not in ("hosvd", "gcp") and j % 2 == 1:
                b = to_sparse(rng, b, "random")
            if "maxiters" in b["opts"] and j % 3 == 0:
                b["opts"]["maxiters"] = 5
            prs = (1, 3, 6) if alg == "hosvd" else (1, 2, 5)
            for pr in (prs if big else (prs[j % 3], prs[(j + 1) % 3])):
                t = dict(b)
                t["printitn"] = pr
                cases.append(_mk("print", alg, b, t))
    # 2b. print, all PAIRS of printing intervals {0,1,2,5} on runs of several outer iterations. cp_apr: the start has structural
    #     zeros in the first factor, so whatever runs at the top of an outer iteration on the raw stored factors (MU's
    #     inadmissible-zero repair, PDNR/PQNR's zero handling) runs right after a printed iteration in one run and after a silent
    #     one in the other - a print branch that leaves the running model in a different state shows up here
    ppairs = [(0, 1), (0, 2), (0, 5), (1, 2), (1, 5), (2, 5)]
    #     (measured on seeded change C18-B: about 2 of 3 rank-2 MU bases expose it, always through a pair (0, p); rank 1 never does -
    #     so the quick tier takes 5 rank-2 MU bases with 3 pairs each rather than 2 bases with all 6 pairs)
    for alg, nq, n in (("cp_apr_mu", 5, 3), ("cp_apr_pdnr", 2, 2), ("cp_apr_pqnr", 1, 2), ("cp_als", 1, 1), ("tucker_als", 1, 1)):
        for j in range(cnt(nq, n)):
            b = base_run(rng, alg, zero_init=alg.startswith("cp_apr_"), rank=(2 if alg == "cp_apr_mu" and not big else None))
            if j % 2 == 1:
                b = to_sparse(rng, b, "random")
            b["opts"]["maxiters"] = {"cp_apr_mu": rng.choice([4, 5, 6]), "cp_apr_pdnr": rng.choice([3, 4, 5]),
                                     "cp_apr_pqnr": rng.choice([2, 3])}.get(alg, 5)
            if alg.startswith("cp_apr_"):
                b["opts"]["stoptol"] = 1e-6                      # keep iterating: several outer iterations actually run
            for p1, p2 in (ppairs if big else [ppairs[j % 3], ppairs[(j + 2) % 3], ppairs[3 + j % 3]]):
                b1 = dict(b)
                b1["printitn"] = p1
                t = dict(b)
                t["printitn"] = p2
                cases.append(_mk("print", alg, b1, t, extra={"zero_init": alg.startswith("cp_apr_")}))
    for j in range(1 * k):                                       # hosvd: verbosity thresholds are > 0, > 2, > 5
        b = base_run(rng, "hosvd")
        for p1, p2 in ((1, 3), (1, 6), (3, 6)):
            b1 = dict(b)
            b1["printitn"] = p1
            t = dict(b)
            t["printitn"] = p2
            cases.append(_mk("print", "hosvd", b1, t))
    # 3. seed: the same global seed twice, random start drawn by pyttb
    for alg, nq, n in (("cp_als", 3, 4), ("cp_apr_mu", 2, 2), ("cp_apr_pdnr", 1, 2), ("cp_apr_pqnr", 1, 2), ("tucker_als", 2, 3), ("gcp", 2, 3)):
        for j in range(cnt(nq, n)):
            b = base_run(rng, alg, seeded=True)
            if alg not in ("gcp",) and j % 2 == 1:
                b = to_sparse(rng, b, "sorted")
            cases.append(_mk("seed", alg, b, dict(b)))
    # 4. scale: X vs cX with the same start (powers of two: exact in floats)
    for alg, nq, n in (("cp_als", 5, 7), ("hosvd", 3, 5), ("tucker_als", 3, 5)):
        for j in range(cnt(nq, n)):
            b = base_run(rng, alg)
            if alg != "hosvd" and j % 3 == 2:
                b = to_sparse(rng, b, "random")
            cases.append(_scaled(b, (2, 8, 0.25)[j % 3]))
    # 4b. FAR scales: X vs 2^-17 X ... 2^-30 X and 2^+24 X (still exact in floats), half of them on dyadic data with a graded
    #     multilinear spectrum (1, 2^-g, 2^-2g) and - hosvd - a tight tolerance with automatic ranks: an absolute threshold anywhere
    #     (rank rule, "norm is zero" tests, stopping rules, eps floors) acts on one side of the pair only. Compared: chosen ranks
    #     (core shape), the model divided by c at 1e-8 of ITS largest entry (the reference side is the one of larger magnitude),
    #     fit, iteration count
    for alg, n in (("hosvd", 6 if not big else 8), ("tucker_als", 4), ("cp_als", 4)):
        for j in range(n * k):
            g = None if (alg != "hosvd" and j % 2 == 1) or (alg == "hosvd" and j % 4 == 3) else rng.choice([4, 5, 6, 7])
            b = base_run(rng, alg, graded=g)
            if alg != "hosvd" and j % 4 == 2:
                b = to_sparse(rng, b, "random")
            cases.append(_scaled(b, FAR_SCALES[j % len(FAR_SCALES)]))
    # 5. relabel: X vs X.permute(p), guess / ranks / dimorder permuted consistently
    for alg, nq, n in (("cp_als", 7, 9), ("hosvd", 4, 7), ("tucker_als", 4, 7)):
        for j in range(cnt(nq, n)):
            b = base_run(rng, alg)
            N = len(b["shape"])
            ps = [p for p in U.perms(N) if p != list(range(N))]
            p = ps[j % len(ps)] if j % 7 != 6 else list(range(N))
            cases.append(_mk("relabel", alg, b, relabel(b, p), perm=p))
    # 6. option corners for every pair kind: maxiters 1 (and 0), printing switched on identically on BOTH sides with odd intervals
    #    (3, 7, 100), string starts ("nvecs" for cp_als / tucker_als), hosvd verbosity on the thresholds (2, 5) and beyond (10)
    def corner(b, j):
        if "maxiters" in b["opts"]:
            b["opts"]["maxiters"] = (1, 1, 2, 0, 5, 1)[j % 6]
        b["printitn"] = (3, 1, 7, 100, 0, 2)[j % 6]
        return b
    for alg, n in (("cp_als", 2), ("cp_apr_mu", 1), ("cp_apr_pdnr", 1), ("tucker_als", 2)):
        for j in range(n * k):
            b = corner(base_run(rng, alg), j)
            cases.append(_mk("repr", alg, b, to_sparse(rng, b, ("random", "reversed")[j % 2]), extra={"order": "corner", "zero_slice": False}))
    for alg, n in (("cp_als", 2), ("hosvd", 2), ("tucker_als", 2)):
        for j in range(n * k):
            b = corner(base_run(rng, alg), j + 1)
            N = len(b["shape"])
            ps = [p for p in U.perms(N) if p != list(range(N))]
            p = ps[rng.randrange(len(ps))]
            cases.append(_mk("relabel", alg, b, relabel(b, p), perm=p))
            b = corner(base_run(rng, alg), j)
            if b["opts"].get("maxiters") == 0:
                b["opts"]["maxiters"] = 1                        # no sweep = the guess itself is returned: nothing to scale
            cases.append(_scaled(b, (2.0 ** -20, 4)[j % 2]))
    for alg, n in (("cp_als", 3), ("cp_apr_mu", 1), ("cp_apr_pdnr", 1), ("cp_apr_pqnr", 1), ("hosvd", 2), ("tucker_als", 3), ("gcp", 2)):
        for j in range(n * k):                                   # print pairs with odd intervals on short and long runs
            b = base_run(rng, alg, seeded=(alg in ("cp_als", "tucker_als") and j % 3 == 2))
            if b.get("seed") is not None and _nvecs_ok(b):
                b["init_str"] = "nvecs"                          # string start computed inside (deterministic; the seed is unused)
            if "maxiters" in b["opts"]:
                b["opts"]["maxiters"] = (1, 3, 5, 0)[j % 4] if alg != "cp_apr_pqnr" else (1, 2)[j % 2]
            pp = ((0, 2), (2, 5), (0, 10)) if alg == "hosvd" else ((0, 3), (3, 7), (1, 100))
            for p1, p2 in (pp if big else (pp[j % 3], pp[(j + 1) % 3]) if alg in ("cp_als", "hosvd") else (pp[j % 3],)):
                b1 = dict(b)
                b1["printitn"] = p1
                t = dict(b)
                t["printitn"] = p2
                cases.append(_mk("print", alg, b1, t))
    # 6b. degenerate operands for the print pairs: rank 1 and a singleton mode updated LAST in the sweep (the saved mttkrp / the
    #     right-hand side of the solve is then a 1 x I or R x 1 array, contiguous in both orders), at least two sweeps, silent vs printing
    for j in range(4 * k):
        if j % 2 == 0:
            b = base_run(rng, "cp_als", rank=1)
        else:
            shape = list(rng.choice([(3, 1, 4), (4, 3, 1), (1, 4, 3), (3, 1)]))
            b = base_run(rng, "cp_als", shape=shape)
            one = shape.index(1)
            b["opts"]["dimorder"] = [m for m in range(len(shape)) if m != one] + [one]
            b["opts"]["optdims"] = None
        b["opts"]["maxiters"] = (3, 5, 2, 4)[j % 4]
        b["opts"]["stoptol"] = 0.0
        if j % 4 == 3:
            b = to_sparse(rng, b, "random")
        for p1, p2 in (((0, 1), (0, 3)) if big or j < 2 else (((0, 1), (0, 3))[j % 2],)):
            b1 = dict(b)
            b1["printitn"] = p1
            t = dict(b)
            t["printitn"] = p2
            cases.append(_mk("print", "cp_als", b1, t))
    # 7. the same start as a STRING and as an OBJECT: run 1 draws ("random", seeded) or computes ("nvecs") its start and returns it;
    #    run 2 is handed exactly that object (cp_*: ktensor; gcp: ktensor or plain list; tucker_als: list of matrices, the unused
    #    first-mode slot filled with arbitrary numbers) - op seed.<alg>, flag reinit
    for alg, n in (("cp_als", 3), ("cp_apr_mu", 1), ("cp_apr_pdnr", 1), ("tucker_als", 3), ("gcp", 2)):
        for j in range(n * k):
            b = base_run(rng, alg, seeded=True)
            if alg in ("cp_als", "tucker_als") and j % 3 == 1 and _nvecs_ok(b):
                b["init_str"] = "nvecs"           # dense data only: sptensor.nvecs is broken (open findings A-38, C09-NVECS-SPARSE)
            elif alg not in ("gcp",) and j % 2 == 1:
                b = to_sparse(rng, b, "sorted")
            b["printitn"] = (0, 1, 3)[j % 3]
            t = dict(b)
            if alg == "gcp" and j % 2 == 1:
                t["init_as"] = "list"
            cases.append(_mk("seed", alg, b, t, extra={"reinit": True}))
    # 7b. history of the optimizer OBJECT (op seed.gcp / print.gcp, flag reuse_opt): run 2 uses an LBFGSB object built with the same
    #     constructor options that has already solved another problem of a different size
    for j in range(3 * k):
        b = base_run(rng, "gcp", seeded=(j % 3 != 2))
        b["opts"]["maxiters"] = (20, 50, 10)[j % 3]
        t = dict(b)
        t["reuse_opt"] = True
        cases.append(_mk("seed" if b.get("seed") is not None else "print", "gcp", b, t, extra={"reuse_opt": True}))
    # 8. memory layout (op repr.<alg>, flag layout): the same dense / sparse data and the same start handed over as C-ordered,
    #    F-ordered or non-contiguous strided arrays (as built: data F-ordered, start matrices C-ordered)
    for alg, n in (("cp_als", 3), ("cp_apr_mu", 1), ("cp_apr_pdnr", 1), ("cp_apr_pqnr", 1), ("hosvd", 2), ("tucker_als", 3), ("gcp", 1)):
        for j in range(n * k):
            b = base_run(rng, alg)
            if alg not in ("hosvd", "gcp") and j % 3 == 2:
                b = to_sparse(rng, b, "random")
            t = dict(b)
            t["layout"] = ("C", "view", "F")[j % 3]
            if alg == "gcp" and j % 2 == 1:
                t["init_as"] = "list"
            cases.append(_mk("repr", alg, b, t, extra={"order": "layout", "zero_slice": False, "layout": t["layout"]}))
    # 9. (wave 4; generated LAST so that the streams of sections 1-8 are unchanged) relabel with a STRICT SUBSET of the modes
    #     optimised (optdims) and an explicit sweep order: the order in which the optimised
    #     modes are swept is the restriction of dimorder to optdims - whatever filters dimorder must keep the user's sequence (a set
    #     routine that sorts it is invisible while optdims is complete or the restriction happens to be ascending). N >= 3, >= 2
    #     optimised modes, >= 2 sweeps, restriction descending in the base run for two of three cases, and a relabelling that reverses
    #     the relative position of two optimised modes (so at most one side of the pair can be ascending)
    for j in range(cnt(4, 3)):
        shape = list(rng.choice(SHAPES4 if j % 2 == 1 else SHAPES3[:-1]))     # every second case 4-way
        b = base_run(rng, "cp_als", shape=shape)
        N = len(shape)
        od = sorted(rng.sample(range(N), rng.randint(2, N - 1)))
        rest = [m for m in range(N) if m not in od]
        seq_od = list(od)
        if j % 3 != 2:
            seq_od.reverse()
        else:
            rng.shuffle(seq_od)
        dm = list(seq_od)
        for m in rest:                                           # the fixed modes anywhere in the list (they are filtered out)
            dm.insert(rng.randrange(len(dm) + 1), m)
        b["opts"].update({"optdims": od, "dimorder": dm, "maxiters": rng.choice([2, 3, 4]), "stoptol": 0.0})
        ps = [p for p in U.perms(N) if any((p.index(x) < p.index(y)) != (x < y) for x in od for y in od if x < y)]
        cyc = [p for p in ps if [p[k] for k in p] != list(range(N))]           # non-involutive relabellings (p o p <> id) preferred:
        if cyc and j % 4 != 0:                                                # p and its inverse differ, so a p / p^-1 mix-up shows too
            ps = cyc
        p = ps[rng.randrange(len(ps))]
        cases.append(_mk("relabel", "cp_als", b, relabel(b, p), perm=p, extra={"optdims_strict": True}))
        if j % 2 == 0:                                           # the same option corner for a print / a holder pair
            t = dict(b)
            t["printitn"] = 1
            cases.append(_mk("print", "cp_als", b, t, extra={"optdims_strict": True}))
        else:
            cases.append(_mk("repr", "cp_als", b, to_sparse(rng, b, "random"), extra={"order": "random", "zero_slice": False,
                                                                                      "optdims_strict": True}))
    # 10. (wave 4, generated after section 9) cp_apr's SECOND verbosity setting, printinneritn (inner status lines; in PDNR / PQNR it also
    #     switches the line-search warnings on: dispLineWarn = printinneritn > 0): pairs of (printitn, printinneritn) incl. inner printing
    #     with the outer one off, on runs of several outer / inner iterations with structural zeros in the start
    ipairs = [((0, 0), (0, 1)), ((0, 0), (1, 1)), ((1, 0), (1, 3)), ((2, 1), (0, 2)), ((0, 0), (5, 2))]
    for alg, nq, n in (("cp_apr_mu", 2, 1), ("cp_apr_pdnr", 2, 1), ("cp_apr_pqnr", 1, 1)):     # thorough: 10 bases x 5 pairs each
        for j in range(cnt(nq, n)):
            b = base_run(rng, alg, zero_init=True, rank=2)
            if j % 2 == 1:
                b = to_sparse(rng, b, "random")
            b["opts"]["maxiters"] = {"cp_apr_mu": 4, "cp_apr_pdnr": 3, "cp_apr_pqnr": 2}[alg]
            b["opts"]["stoptol"] = 1e-6
            if alg == "cp_apr_mu":
                b["opts"]["maxinneriters"] = 5
            for (p1, q1), (p2, q2) in (ipairs if big else [ipairs[(2 * j) % 5], ipairs[(2 * j + 1) % 5]]):
                b1 = dict(b)
                b1.update({"printitn": p1, "printinner": q1})
                t = dict(b)
                t.update({"printitn": p2, "printinner": q2})
                cases.append(_mk("print", alg, b1, t, extra={"zero_init": True, "printinner": True}))
    # 11. (wave 5, generated after section 10) regression input of the repaired finding C18-PQNR-PRINT (/repo c01a61b): the exact
    #     witness run, silent vs printed every 1 / 2 iterations - an ordinary pair at 1e-8 now
    for pr in (1, 2):
        t = dict(REGRESSION_PQNR_PRINT)
        t["printitn"] = pr
        cases.append(_mk("print", "cp_apr_pqnr", dict(REGRESSION_PQNR_PRINT), t, extra={"regression": "C18-PQNR-PRINT"}))
    # 12. (wave 5) EXTREME scales 2^-60 .. 2^60 (exact in floats; squared norms down to 1e-35 / up to 1e+39 are far inside the double
    #     range): data whose Frobenius norm is far below every absolute tolerance numpy offers by default (np.isclose / allclose atol
    #     1e-8, eps-sized floors) or far above 1 - an "is the norm zero" / "did the fit change" test written with an absolute
    #     tolerance acts on one side of the pair only. >= 3 sweeps allowed and a stopping tolerance that does not fire at once on
    #     most of them, so that the sweep count is part of what is compared; dense and sparse holders
    for alg, nq, n in (("cp_als", 4, 2), ("tucker_als", 2, 1), ("hosvd", 2, 1)):
        for j in range(cnt(nq, n)):
            b = base_run(rng, alg, graded=(rng.choice([4, 5]) if alg == "hosvd" and j % 2 == 0 else None))
            if "maxiters" in b["opts"]:
                b["opts"]["maxiters"] = (5, 3, 4, 1)[j % 4]
                b["opts"]["stoptol"] = (1e-4, 1e-6, 0.0, 1e-4)[j % 4]
            b["printitn"] = (0, 0, 1)[j % 3]
            if alg != "hosvd" and j % 3 == 1:
                b = to_sparse(rng, b, "random")
            cases.append(_scaled(b, XSCALES[(j + (0 if alg == "cp_als" else 2 if alg == "tucker_als" else 4)) % len(XSCALES)]))
    # 13. (wave 5) the holder's VALUE DTYPE (op repr.<alg>, flag dtype): the same integer (count) data in a dense float64 tensor and in
    #     a SPARSE tensor whose stored values are int64 / int32 / bool (sptensor keeps the dtype it is given: counts built from integer
    #     arrays, indicator data), and - dense twin - in a dense tensor of that dtype. Anything allocated "in the dtype of the values"
    #     (accumulators, right-hand sides) truncates on one side of the pair only. bool: the data are 0 / 1
    DT = ("int64", "int32", "bool")
    for alg, nq, n in (("cp_als", 4, 2), ("tucker_als", 2, 1), ("cp_apr_mu", 1, 1), ("cp_apr_pdnr", 1, 1), ("cp_apr_pqnr", 1, 1)):
        for j in range(cnt(nq, n)):
            dt = DT[j % 3] if alg in ("cp_als", "tucker_als") else DT[(j + len(alg)) % 2]
            b = base_run(rng, alg)
            if dt == "bool":
                b["data"] = gen_binary(rng, b["shape"], b["rank"],
                                       ok=(lambda d, b=b: _gap_ok(b["shape"], d, b["rank"])) if alg == "tucker_als" else None)
            if "maxiters" in b["opts"] and alg in ("cp_als", "tucker_als"):
                b["opts"]["maxiters"] = (3, 5, 2, 4)[j % 4]
            if alg == "cp_apr_pqnr":
                b["opts"].update({"maxiters": 1, "maxinneriters": 1})        # outside the regime of the open finding C18-PQNR-TIE
            t = to_sparse(rng, b, ("random", "sorted", "reversed")[j % 3])
            t["dtype"] = dt
            cases.append(_mk("repr", alg, b, t, extra={"order": "dtype", "zero_slice": False, "dtype": dt}))
            if j % 2 == 1 or alg.startswith("cp_apr_"):
                t = dict(b)                                                   # dense twin: a dense tensor of that dtype
                t["dtype"] = dt
                cases.append(_mk("repr", alg, b, t, extra={"order": "dtype", "zero_slice": False, "dtype": dt, "dense_twin": True}))
    # 14. (wave 5) STATIC scan of the drivers' source (op print.static, tools/props/c18_static.py): the calls evaluated only because of
    #     printing (arguments of print / logging / warnings calls, statements under a verbosity test) and the variables assigned under a
    #     verbosity test must be the pinned ones - the part of the printing clause that the skeleton translator's drop rule takes on
    #     trust (Proofs/C18GenPrint.v header): a new call inside a status line or a new assignment in a printing branch is reported
    cases.append(Case("print.static", {"pair": "static", "alg": "static", "drivers": [q for _, q in S.DRIVERS]}, True))
    return cases


# ------------------------------------------------------------------------------------------ pyttb side
def run_impl(c):
    import numpy as np
    import pyttb as ttb
    a = c.args
    out = {}
    if a["pair"] == "static":
        import os
        sc = S.scan(os.path.dirname(os.path.dirname(os.path.abspath(ttb.__file__))))
        bad = S.unexpected(sc)
        return {"scan": sc, "unexpected": [list(b) for b in bad],
                "note": ("evaluated / assigned only when printing and NOT in the pinned table of tools/props/c18_static.py (trusted base of the "
                         "print-independence theorems over the generated loops): " + "; ".join(f"{d}: {k} {n}" for d, k, n in bad)) if bad else ""}
    for side in ("base", "trans"):
        try:
            rd = a[side]
            if side == "trans" and a.get("reinit") and "exc" in out["base"]:
                out[side] = dict(out["base"])       # no start was returned: nothing to hand back (pair skipped as same failure)
                continue
            if side == "trans" and a.get("reinit"):
                # the start the base run drew / computed itself (init = a string) is handed back as an explicit object
                import random
                rd = dict(rd)
                rd["init"] = U.exact_init(out["base"]["init"], random.Random(len(str(a["base"]))), rd["shape"],
                                          rd["rank"] if isinstance(rd["rank"], list) else None)
                rd["seed"] = None
            out[side] = U.run(ttb, np, rd)
        except Exception as ex:
            out[side] = {"exc": type(ex).__name__, "msg": str(ex)[:200]}
    return out


def _parts(c, o):
    """what is compared for this pair: list of (name, kind, a, b)"""
    a = c.args
    b, t = o["base"], o["trans"]
    pair = a["pair"]
    parts = []
    if b["model"]["kind"] == "t":
        # chosen multilinear ranks (hosvd: by the automatic rule): the core shape, relabelled like the modes
        parts.append(("ranks", "inteq", [b["model"]["core_shape"][k] for k in a["perm"]], list(t["model"]["core_shape"])))
    if pair == "seed" and a.get("reinit"):
        # same start given as a string (drawn / computed inside) and as the explicit object the first run returned: the object path
        # may normalise / copy differently, so the model is compared by denotation; the returned start must be the given one
        bi, ti = b["init"], t["init"]
        if bi["kind"] == "l":
            keep = [k for k, f in enumerate(bi["factors"]) if f is not None]
            bi = {"kind": "l", "factors": [bi["factors"][k] for k in keep]}
            ti = {"kind": "l", "factors": [ti["factors"][k] for k in keep]}
        parts.append(("init", "raw" if bi["kind"] == "l" else "den", bi, ti))
        parts.append(("model", "den", b["model"], t["model"]))
        parts.append(("fit", "fitq" if a["alg"] in ("cp_als", "tucker_als") else "close", b["fit"], t["fit"]))
    elif pair == "seed" and a["alg"] == "tucker_als":
        # tucker_als calls scipy eigsh (ARPACK) without v0: ARPACK's own start-vector generator keeps state between calls and is
        # not driven by numpy's seed, so two equally seeded runs agree only up to rounding (measured 1e-15). The start drawn
        # from numpy's stream must still be identical.
        parts.append(("init", "raw", b["init"], t["init"]))
        parts.append(("model", "den", b["model"], t["model"]))
        parts.append(("fit", "fitq", b["fit"], t["fit"]))
    elif pair == "seed":
        parts.append(("model", "raw", b["model"], t["model"]))
        if "init" in b:
            parts.append(("init", "raw", b["init"], t["init"]))
        if "fit" in b:
            parts.append(("fit", "eq", b["fit"], t["fit"]))
    else:
        parts.append(("model", "den", b["model"], t["model"]))
        if "fit" in b:
            # cp_als / tucker_als report fit = 1 - sqrt(|normX^2 + normM^2 - 2<X,M>|)/normX: near an exact fit the square root
            # turns the 1e-16 rounding of its argument into 1e-8 in the fit, so the quantity compared is the squared residual
            # fraction q = (1 - fit)^2 (what the code actually computes before the root); cp_apr / gcp objectives are compared directly
            parts.append(("fit", "fitq" if a["alg"] in ("cp_als", "tucker_als") else "close", b["fit"], t["fit"]))
        if "kkt" in b:
            parts.append(("kkt", "closelist", b["kkt"], t["kkt"]))
    parts.append(("iters", "inteq", b["iters"], t["iters"]))
    if "funcalls" in b:
        parts.append(("funcalls", "inteq", b["funcalls"], t["funcalls"]))
    return parts


def _flat(m):
    if m["kind"] == "l":
        return [[-1] if f is None else [x for r in f for x in r] for f in m["factors"]]
    return [U.model_values(m)]


def _same_failure(o):
    return "exc" in o["base"] and "exc" in o["trans"] and o["base"]["exc"] == o["trans"]["exc"]


def _orient(a, x, y):
    """the comparer measures |y - c x| against 1e-8 * max(1, max|c x|): for a scale factor below 1 the roles are swapped
    (reference = the run on the data of larger magnitude, factor 1/c), so that the floor 1 never hides a tiny model"""
    c = Fraction(a["c"])
    if a["pair"] == "scale" and 0 < c < 1:
        return 1 / c, y, x
    return c, x, y


def coq_check(c, o):
    a = c.args
    if a["pair"] == "static":
        return "false" if S.unexpected(o["scan"]) else "true"
    if _same_failure(o):
        return None                 # pyttb fails identically under both presentations (e.g. cp_apr PQNR's own L-BFGS assertion):
                                    # nothing presentation-dependent to compare, case not counted
    if "exc" in o["base"] or "exc" in o["trans"]:
        return "false"              # one presentation fails, the other does not
    exprs = []
    for name, kind, x, y in _parts(c, o):
        if kind == "inteq":
            exprs.append("true" if x == y else "false")
        elif kind == "den":
            if not (U.finite(U.model_values(x)) and U.finite(U.model_values(y))):
                return "false"
            f = "kk_close" if x["kind"] == "k" else "tt_close"
            cc, x, y = _orient(a, x, y)
            exprs.append(f"{f} tol8 {gnlist(a['base']['shape'])} {gq(cc)} {gnlist(a['perm'])} {U.gmodel(x)} {U.gmodel(y)}")
        elif kind == "raw":
            if x["kind"] == "l":
                same = [(p is None) == (q is None) for p, q in zip(x["factors"], y["factors"])]
                if not all(same) or len(x["factors"]) != len(y["factors"]):
                    return "false"
                for p, q in zip(x["factors"], y["factors"]):
                    if p is not None:
                        if not (U.finite(sum(p, [])) and U.finite(sum(q, []))):
                            return "false"
                        exprs.append(f"qmat_eqb {U.gqmat(p)} {U.gqmat(q)}")
            else:
                if not (U.finite(U.model_values(x)) and U.finite(U.model_values(y))):
                    return "false"
                exprs.append(f"{'k_raw_eqb' if x['kind'] == 'k' else 't_raw_eqb'} {U.gmodel(x)} {U.gmodel(y)}")
        elif kind in ("close", "eq", "fitq"):
            if isinstance(x, str) or isinstance(y, str):
                exprs.append("true" if x == y else "false")      # both nan / both inf: same presentation-independent answer
            elif kind == "fitq":
                exprs.append(f"qs_close tol8 {gq((1 - Fraction(y)) ** 2)} {gq((1 - Fraction(x)) ** 2)}")
            elif kind == "eq":
                exprs.append(f"Qc_eq_bool {gq(x)} {gq(y)}")
            else:
                exprs.append(f"qs_close tol8 {gq(y)} {gq(x)}")
        elif kind == "closelist":
            if not (U.finite(x) and U.finite(y)):
                exprs.append("true" if x == y else "false")
            else:
                exprs.append(f"qs_list_close tol6 {U.gqvec(y)} {U.gqvec(x)}")
    return "(" + " && ".join(exprs) + ")"


# ------------------------------------------------------------------------------------------ brute force
def oracle(c, o):
    """pure-Python evaluation of the metamorphic relation on the two observations"""
    a = c.args
    if a["pair"] == "static":
        # a call / an assignment that happens only when printing and is not in the pinned table does not by itself refute the property
        # (the call may be a pure read): it is a change of the TRUSTED BASE of the gen_*_print theorems - reported by the harness as a
        # violation of the tie without a failing input; the print.* pairs of real runs decide whether results actually differ
        return None
    if _same_failure(o):
        return None
    for side in ("base", "trans"):
        if "exc" in o[side]:
            return f"only the {side} run of an admissible request raised {o[side]['exc']}: {o[side].get('msg')}"
    for name, kind, x, y in _parts(c, o):
        if kind == "inteq" and x != y:
            return f"{name} differ: {x} vs {y}"
        if kind == "den":
            try:
                cc, x, y = _orient(a, x, y)
                why = U.rel_mismatch(a["base"]["shape"], cc, a["perm"], x, y, TOL)
            except ValueError as ex:
                return f"model holds a non-finite value ({ex})"
            if why:
                return why
        if kind == "raw" and _flat(x) != _flat(y):
            return f"{name}: raw parameters of the two equally seeded runs are not identical"
        if kind == "eq" and x != y:
            return f"{name}: {x!r} vs {y!r} not identical"
        if kind in ("close", "fitq"):
            if isinstance(x, str) or isinstance(y, str):
                if x != y:
                    return f"{name}: {x} vs {y}"
            elif kind == "fitq":
                why = U.scalar_mismatch((1 - Fraction(y)) ** 2, (1 - Fraction(x)) ** 2, TOL)
                if why:
                    return f"squared residual fraction (1-fit)^2 differs beyond 1e-8: {why} (fits {float(x)!r}, {float(y)!r})"
            else:
                why = U.scalar_mismatch(y, x, TOL)
                if why:
                    return f"{name} differ beyond 1e-8: {why}"
        if kind == "closelist":
            if len(x) != len(y):
                return f"{name}: lengths {len(x)} vs {len(y)}"
            if U.finite(x) and U.finite(y):
                for u, v in zip(x, y):
                    why = U.scalar_mismatch(v, u, TOL_KKT)
                    if why:
                        return f"{name} differ beyond 1e-6: {why}"
            elif x != y:
                return f"{name}: {x} vs {y}"
    return None


# ------------------------------------------------------------------------------------------ known findings
def _trig_pqnr_tie(c):
    """dense-vs-sparse PQNR runs long enough to take a quasi-Newton step at a (nearly) converged row: >= 2 sweeps, or >= 2 inner
    iterations (wave 3b: a row can land exactly on its stationary point with its first step; seen with maxiters=1, maxinneriters=2:
    direction [0.0] for the dense holder, [1.5e-17] for the sorted sparse one, which then takes the multiplicative fallback)"""
    a = c.args
    if a["pair"] != "repr" or a["alg"] != "cp_apr_pqnr":
        return False
    o = a["base"]["opts"]
    return o["maxiters"] >= 2 or o["maxinneriters"] >= 2


# wave 5: C18-PQNR-PRINT was repaired by /repo c01a61b (tt_loglikelihood works on a copy): its trigger pqnr_print_regime and its witness
# attribution are gone - PQNR print pairs are ordinary again at 1e-8; the witness input stays as the regression case REGRESSION_PQNR_PRINT
TRIGGERS = {"pqnr_tie_regime": _trig_pqnr_tie}


def _replay(base, order):
    import random
    c = _mk("repr", base["alg"], base, to_sparse(random.Random(0), base, order))
    return oracle(c, run_impl(c))


def _wit_tie():
    base = {"alg": "cp_apr_pqnr", "shape": [2, 3, 4], "sparse": False, "printitn": 0, "seed": None,
            "data": [0, 0, 1, 0, 2, 0, 11, 5, 1, 1, 3, 1, 18, 6, 0, 2, 6, 0, 0, 1, 1, 1, 0, 0], "rank": 2,
            "init": {"den": 8, "factors": [[[8, 1], [2, 8]], [[7, 8], [8, 2], [7, 7]], [[4, 2], [5, 2], [4, 5], [3, 4]]]},
            "opts": {"maxiters": 2, "stoptol": 1e-4, "maxinneriters": 2, "precompinds": True}}
    return _replay(base, "reversed")


REGRESSION_PQNR_PRINT = {"alg": "cp_apr_pqnr", "shape": [4, 3, 3], "sparse": False, "printitn": 0, "seed": None,
                         "init": {"den": 8, "factors": [[[1, 0], [5, 4], [0, 6], [5, 4]], [[8, 1], [7, 5], [1, 1]], [[0, 2], [5, 0], [1, 3]]]},
                         "data": [6, 6, 13, 15, 9, 3, 6, 10, 10, 12, 33, 0, 20, 0, 18, 0, 27, 10, 19, 27, 27, 0, 0, 45, 18, 9, 0, 21, 27, 10, 0, 28,
                                  27, 12, 29, 36], "rank": 2, "opts": {"maxiters": 2, "stoptol": 1e-06, "maxinneriters": 2, "precompinds": True}}


WITNESSES = {"C18-PQNR-TIE": _wit_tie}
