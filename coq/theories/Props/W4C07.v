(* Props/W4C07.v — sptensor.ones / sptensor.permute as GENERATED from /repo/pyttb/sptensor.py on every run
   (Gen/GenSptensor4.v; `self` is a record parameter, the constructor's checks are the guard spt_make_ok): bridges to the
   hand references of Model/W4Sptensor.v; permute is tied to the hand model permute_sp of Model/C07Ops.v and to C07's
   denotation theorem.  Only statements, `exact`, Print Assumptions. *)
From Coq Require Import List ZArith Arith Bool.
From PV Require Import Base.Index Base.Perm Np.NpZ Np.NpZ2 Np.NpZ3 Np.NpZ3c Np.NpZ3d Np.NpZ3e Np.NpZ4 Np.NpZ4b Model.Sparse
  Model.C07Ops Model.W4Ktensor Model.W4Sptensor Proofs.W4Sptensor Gen.GenSptensor4.
Import ListNotations.
Local Open Scope Z_scope.

(* ---- ones ---- *)
Theorem C07_gen_sp_ones_bridge : forall self : sptz, sptensor_ones self = H_sp_ones self.
Proof. exact sp_ones_bridge. Qed.
Print Assumptions C07_gen_sp_ones_bridge.

Theorem C07_gen_sp_ones_wf : forall self : sptz, spt_make_ok (spt_subs self) (spt_vals self) (spt_shape self) = true ->
  sptensor_ones self = Ok (mkspt (spt_subs self) (map (fun _ => 1) (spt_vals self)) (spt_shape self)).
Proof. exact gen_sp_ones_wf. Qed.
Print Assumptions C07_gen_sp_ones_wf.

Theorem C07_gen_sp_ones_idem : forall self t : sptz, sptensor_ones self = Ok t -> sptensor_ones t = Ok t.
Proof. exact gen_sp_ones_idem. Qed.
Print Assumptions C07_gen_sp_ones_idem.

Example C07_gen_sp_ones_example :
  sptensor_ones (mkspt [[0; 1]; [2; 0]] [5; -7] [3; 2]) = Ok (mkspt [[0; 1]; [2; 0]] [1; 1] [3; 2]) /\
  sptensor_ones (mkspt [[0; 2]] [5] [3; 2]) = Err.
Proof. split; reflexivity. Qed.

(* ---- permute ---- *)
Theorem C07_gen_sp_permute_bridge : forall (self : sptz) (order : vec) (isbool : bool),
  sptensor_permute self order isbool = if isbool then Err else H_sp_permute self order.
Proof. exact sp_permute_bridge. Qed.
Print Assumptions C07_gen_sp_permute_bridge.

(* /repo 9c8fdd5 (N-C07-5): an order of dtype bool is rejected whatever it holds *)
Theorem C07_gen_sp_permute_bool_rejected : forall (self : sptz) (order : vec), sptensor_permute self order true = Err.
Proof. exact gen_sp_permute_bool_rejected. Qed.
Print Assumptions C07_gen_sp_permute_bool_rejected.

Theorem C07_gen_sp_permute_rejects : forall (self : sptz) (order : vec),
  np_sort order <> np_arange 0 (zlen (spt_shape self)) -> sptensor_permute self order false = Err.
Proof. exact gen_sp_permute_rejects. Qed.
Print Assumptions C07_gen_sp_permute_rejects.

Theorem C07_gen_sp_permute_model : forall (self t : sptz) (order : vec),
  (forall row, In row (spt_subs self) -> forall s, In s row -> 0 <= s) -> (forall d, In d (spt_shape self) -> 0 <= d) ->
  np_size2 (spt_subs self) <> 0 ->
  sptensor_permute self order false = Ok t ->
  is_perm (nats order) (length (spt_shape self)) /\ permute_sp (to_Sp self) (nats order) = Some (to_Sp t).
Proof. exact gen_sp_permute_model. Qed.
Print Assumptions C07_gen_sp_permute_model.

Theorem C07_gen_sp_permute_den : forall (self t : sptz) (order : vec),
  (forall row, In row (spt_subs self) -> forall s, In s row -> 0 <= s) -> (forall d, In d (spt_shape self) -> 0 <= d) ->
  np_size2 (spt_subs self) <> 0 -> (forall row, In row (spt_subs self) -> length row = length (spt_shape self)) ->
  sptensor_permute self order false = Ok t ->
  forall i, length i = length (spt_shape self) ->
            den_sp 0 (to_Sp t) i = den_sp 0 (to_Sp self) (pick 0%nat (invperm (nats order)) i).
Proof. exact gen_sp_permute_den. Qed.
Print Assumptions C07_gen_sp_permute_den.

Theorem C07_gen_sp_permute_empty : forall (self t : sptz) (order : vec), np_size2 (spt_subs self) = 0 ->
  sptensor_permute self order false = Ok t -> t = mkspt (spt_subs self) (spt_vals self) (np_take 0 (spt_shape self) order).
Proof. exact gen_sp_permute_empty. Qed.
Print Assumptions C07_gen_sp_permute_empty.

Example C07_gen_sp_permute_example :
  sptensor_permute (mkspt [[0; 1; 3]; [2; 0; 1]] [5; -7] [3; 2; 4]) [2; 0; 1] false = Ok (mkspt [[3; 0; 1]; [1; 2; 0]] [5; -7] [4; 3; 2]) /\
  sptensor_permute (mkspt [[0; 1; 3]; [2; 0; 1]] [5; -7] [3; 2; 4]) [2; 0; 0] false = Err /\
  sptensor_permute (mkspt [[0; 1; 3]; [2; 0; 1]] [5; -7] [3; 2; 4]) [1; 0] false = Err /\
  sptensor_permute (mkspt [[]] [] [3; 2; 4]) [1; 2; 0] false = Ok (mkspt [[]] [] [2; 4; 3]) /\
  sptensor_permute (mkspt [[0; 1]; [2; 0]] [5; -7] [3; 2]) [1; 0] true = Err.
Proof. repeat split; reflexivity. Qed.
