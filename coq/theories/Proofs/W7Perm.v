(* Wave 7: the mode split stored by an accepted GENERATED tenmat / sptenmat constructor is a permutation of the modes in the
   sense of Base/Perm.v (is_perm, the notion C01's guard models use), with non-negative entries, and the sizes of the two sides
   are picks of tshape. *)
From Coq Require Import List ZArith Arith Bool Lia Permutation.
From PV Require Import Base.Index Base.Perm Np.NpZ Np.NpZ2 Np.NpZ3 Np.NpZ3b Np.NpZ7 Np.NpZ7b Model.C02Modes Proofs.W4Loops Proofs.W4KtensorLaws
  Gen.GenTenmat7 Gen.GenSptenmat7 Model.W7Tenmat Model.W7Sptenmat Proofs.W7Tenmat Proofs.W7Sptenmat.
Import ListNotations.
Local Open Scope Z_scope.

Lemma w7_sorted_perm (l ts : vec) :
  np_sort l = np_arange 0 (zlen ts) -> is_perm (nats l) (length ts) /\ (forall x, In x l -> 0 <= x < zlen ts).
Proof.
  intro E. split.
  - apply sorted_range_is_perm. exact E.
  - apply sorted_is_range_in. exact E.
Qed.

Theorem gen_tenmat_init_accept_perm mo d isnum rdims cdims tshape copy M :
  nd7_size d <> 0 ->
  tenmat_init mo (Some d) isnum rdims cdims tshape copy = Ok M ->
  is_perm (nats (tm7_rindices M ++ tm7_cindices M)) (length (tm7_tshape M)) /\
  (forall x, In x (tm7_rindices M ++ tm7_cindices M) -> 0 <= x < zlen (tm7_tshape M)) /\
  np_take 0 (tm7_tshape M) (tm7_rindices M) = pick 0 (nats (tm7_rindices M)) (tm7_tshape M) /\
  np_take 0 (tm7_tshape M) (tm7_cindices M) = pick 0 (nats (tm7_cindices M)) (tm7_tshape M).
Proof.
  intros Hs H. destruct (gen_tenmat_init_accept _ _ _ _ _ _ _ _ Hs H) as [_ [_ [_ [_ [_ [_ E]]]]]].
  destruct (w7_sorted_perm _ _ E) as [P B]. repeat split; try apply B; auto.
  - apply np_take_pick. intros x Hx. apply (B x). apply in_or_app. auto.
  - apply np_take_pick. intros x Hx. apply (B x). apply in_or_app. auto.
Qed.

Theorem gen_sptenmat_init_accept_perm subs vals rdims cdims tshape copy M :
  is_some rdims || is_some cdims = true ->
  sptenmat_init subs vals rdims cdims tshape copy = Ok M ->
  is_perm (nats (stm7_rdims M ++ stm7_cdims M)) (length tshape) /\
  (forall x, In x (stm7_rdims M ++ stm7_cdims M) -> 0 <= x < zlen tshape) /\
  np_take 0 tshape (stm7_rdims M) = pick 0 (nats (stm7_rdims M)) tshape /\
  np_take 0 tshape (stm7_cdims M) = pick 0 (nats (stm7_cdims M)) tshape.
Proof.
  intros Hd H. destruct (gen_sptenmat_init_accept _ _ _ _ _ _ _ Hd H) as [_ [E _]].
  destruct (w7_sorted_perm _ _ E) as [P B]. repeat split; try apply B; auto.
  - apply np_take_pick. intros x Hx. apply (B x). apply in_or_app. auto.
  - apply np_take_pick. intros x Hx. apply (B x). apply in_or_app. auto.
Qed.
