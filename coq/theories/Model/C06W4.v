(* Model/C06W4.v — wave 4: boolean checkers of the C06 correspondence cases that tie pyttb to the AS-IS models inside the triggers of
   the two open findings (so that a mismatch attributed to a finding cannot hide anything else), and the aggregating sptenmat
   constructors to C01's transliteration (stored order included).  Definitions only. *)
From Coq Require Import List ZArith Bool Arith QArith Qcanon.
From PV Require Import Base.Index Np.NpZ Np.Array Gen.GenUtils Model.Sparse Model.Repr Model.Harness Model.C03Ops Model.C03Gen Model.C03Gen2
                       Model.C03Chk Model.C03Chk2 Model.C06Ops Model.C07Ops Model.C01Conv Model.C01Unique Model.C01Coo.
Import ListNotations.
Local Open Scope nat_scope.

(* sparse / sparse inside the trigger of C03-N7 (the divisor stores a position the dividend does not): every run is EXACTLY what the
   transliteration over the generated row helpers returns on the operands as stored in that run (stored order of the quotient
   included), every run is structurally well-formed (one value per subscript, in bounds, pairwise distinct — explicit zeros are the
   finding), and all runs denote the same array *)
Definition all_same_xsparse_struct (l : list (sparse xval)) : bool :=
  match l with
  | [] => true
  | X :: r => forallb (@wf_structb xval) l && forallb (xsp_canon_eqb X) r
  end.
Definition div_asis_ok (runs : list (sparse xval * (sparse Z * sparse Z))) : bool :=
  forallb (fun t => div_model_ok (fst t) (fst (snd t)) (snd (snd t))) runs && all_same_xsparse_struct (map fst runs).

(* squash inside the trigger of A-27: every run is what squash_asis returns on the operand as stored in that run, all well-formed
   and equal up to stored order *)
Definition squash_asis_ok (runs : list (sparse Z * sparse Z)) : bool :=
  forallb (fun t => sp_raw_eqb (fst t) (squash_asis (snd t))) runs && all_same_sparse_e (map fst runs).

(* the sptenmat pyttb returns holds the triples the constructor model returns (Model/C01Unique.v stm_ctor, Model/C01Coo.v from_array_coo / from_array_dense):
   as many, each with its value — up to the stored order, which the property does not pin (C01 compares it literally) *)
Definition stm_obs_is (m : option (sptenmat Z)) (subs : list idx) (vals : list Z) : bool :=
  match m with
  | Some M => sp_perm_eqb (stm_sp M) (mkSp (stm_shape M) subs vals)
  | None => false
  end.

(* ---- huge operands (more than 2^22 candidate row pairs inside pyttb's row helpers): the quadratic checkers above (nodupb, canon,
        sp_perm_eqb) are too slow on two thousand rows of unary naturals.  The observation of every run is handed over with its
        (subscript, value) pairs SORTED by subscript (a joint permutation: well-formedness and equality up to stored order do not
        depend on it); Coq checks in linear time that the rows ascend STRICTLY (hence are pairwise distinct), are in bounds, carry one
        nonzero value each, and that all runs are literally equal ---- *)
Fixpoint adj_ltb (l : list idx) : bool :=
  match l with
  | i :: r => match r with j :: _ => idx_ltb i j | [] => true end && adj_ltb r
  | [] => true
  end.
Definition sorted_wfb (X : sparse Z) : bool :=
  Nat.eqb (length (ssubs X)) (length (svals X)) && adj_ltb (ssubs X) && forallb (inb (sshape X)) (ssubs X) &&
  forallb (fun v => negb (zisz v)) (svals X).
Definition all_same_sorted (l : list (sparse Z)) : bool :=
  match l with
  | [] => true
  | X :: r => forallb sorted_wfb l && forallb (sp_raw_eqb X) r
  end.
Definition assoc_raw_eqb (X Y : list (idx * Z)) : bool :=
  list_eqb (fun e e' => idx_eqb (fst e) (fst e') && (snd e =? snd e')%Z) X Y.
Definition all_same_assoc_sorted (l : list (list (idx * Z))) : bool :=
  match l with
  | [] => true
  | X :: r => forallb (fun Y => adj_ltb (map fst Y)) l && forallb (assoc_raw_eqb X) r
  end.

(* ---- sptensor.innerprod(ktensor) = ktensor.innerprod(sptensor) (pyttb/ktensor.py): for every component r the sparse tensor is
        contracted with the r-th columns of all factor matrices (sptensor.ttv over all modes, a number) and the results are
        accumulated with the weights ---- *)
From PV Require Import Base.Perm Base.Sum Model.C02Spec Model.C02SpMore.
Section KInner.
Context {V : Type} (v0 v1 : V) (vadd vmul : V -> V -> V).
Definition kcols (As : list (@matrix V)) (r : nat) : list (list V) :=
  map (fun A => map (fun x => mget v0 A x r) (seq 0 (length A))) As.
Definition impl_innerprod_sp_k (S : sparse V) (K : ktensor V) : V :=
  fold_left (fun acc r => vadd acc (vmul (nth r (kweights K) v0)
                                         (impl_ttv_sp v0 v1 vadd vmul S (seq 0 (length (kfactors K))) (kcols (kfactors K) r) [])))
            (seq 0 (krank K)) v0.
End KInner.
