(* Proofs/C12WScale.v — fg.evaluate is LINEAR in the weight array (ring-generic): scaling every weight by c scales the objective
   and every gradient matrix entry by c.  Used by the correspondence stream for fractional weight arrays (weights k / 2^e are
   handed to pyttb, the observed objective and gradients times 2^e are compared with the model on the integer numerators k):
   the rescaling is this theorem, not an assumption of the harness. *)
From Coq Require Import List Arith Lia Bool Ring.
From PV Require Import Base.Index Base.Sum Np.Array Model.Sparse Model.Repr Model.C12Gcp.
Import ListNotations.

Section WScale.
Variable V : Type.
Variables (v0 v1 : V) (vadd vmul vsub : V -> V -> V) (vopp : V -> V).
Hypothesis Vring : ring_theory v0 v1 vadd vmul vsub vopp (@eq V).
Add Ring Vrws : Vring.
Variables f g : V -> V -> V.

Notation "x + y" := (vadd x y).
Notation "x * y" := (vmul x y).
Notation mat := (list (list V)).
Notation msum := (sum_over v0 vadd).
Notation SO_ext := (sum_over_ext V v0 vadd).
Notation SO_scale_l := (sum_over_scale_l V v0 v1 vadd vmul vsub vopp Vring).

(* every stored weight times c (the shape is kept) *)
Definition wscale (c : V) (W : dense V) : dense V := mkDense (dshape W) (map (vmul c) (ddata W)).

Lemma den_wscale c W i : den_dense v0 (wscale c W) i = c * den_dense v0 W i.
Proof.
  unfold den_dense, wscale. cbn [dshape ddata].
  destruct (inb (dshape W) i); [|ring].
  replace v0 with (c * v0) at 1 by ring. now rewrite map_nth.
Qed.

Lemma wget_wscale c W i : wget v0 v1 (Some (wscale c W)) i = c * wget v0 v1 (Some W) i.
Proof. cbn [wget]. apply den_wscale. Qed.

Theorem eval_F_wscale (K : ktensor V) (X W : dense V) (c : V) :
  eval_F v0 v1 vadd vmul f K X (Some (wscale c W)) = c * eval_F v0 v1 vadd vmul f K X (Some W).
Proof.
  unfold eval_F. rewrite <- SO_scale_l. apply SO_ext. intros i _. rewrite wget_wscale. ring.
Qed.

Lemma eval_Y_wscale (K : ktensor V) (X W : dense V) (c : V) i :
  eval_Y v0 v1 vadd vmul g K X (Some (wscale c W)) i = c * eval_Y v0 v1 vadd vmul g K X (Some W) i.
Proof. unfold eval_Y. rewrite wget_wscale. ring. Qed.

(* the gradient matrices: every entry times c *)
Theorem eval_G_wscale (K : ktensor V) (X W : dense V) (c : V) :
  eval_G v0 v1 vadd vmul g K X (Some (wscale c W))
  = map (map (map (vmul c))) (eval_G v0 v1 vadd vmul g K X (Some W)).
Proof.
  unfold eval_G. rewrite map_map. apply map_ext. intros k.
  unfold mttkrp_den. rewrite map_map. apply map_ext. intros j.
  rewrite map_map. apply map_ext. intros r.
  rewrite <- SO_scale_l. apply SO_ext. intros i _. rewrite eval_Y_wscale. ring.
Qed.

End WScale.

(* non-vacuity: a 2 x 2 rank-1 model over Z, weights (1, 2, 3, 4) scaled by 3 *)
From Coq Require Import ZArith.
Example wscale_ex :
  let K := mkK [1%Z] [[[1%Z]; [2%Z]]; [[1%Z]; [(-1)%Z]]] in
  let X := mkDense [2; 2] [1%Z; 0%Z; 2%Z; 5%Z] in
  let W := mkDense [2; 2] [1%Z; 2%Z; 3%Z; 4%Z] in
  let ff := fun x m => ((m - x) * (m - x))%Z in
  (eval_F 0%Z 1%Z Z.add Z.mul ff K X (Some (wscale Z Z.mul 3%Z W)) = 3 * eval_F 0%Z 1%Z Z.add Z.mul ff K X (Some W))%Z
  /\ eval_F 0%Z 1%Z Z.add Z.mul ff K X (Some W) <> eval_F 0%Z 1%Z Z.add Z.mul ff K X None.
Proof. cbv. split; [reflexivity|discriminate]. Qed.
