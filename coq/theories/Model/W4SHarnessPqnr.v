(* Model/W4SHarnessPqnr.v — REPLAY instantiation of the generated control-flow skeleton Gen/GenCpAprPqnr.v (wave 7), built like
   Model/W4SHarnessPdnr.v: the model token is the number of M.normalize(mode=n) calls so far, a row token its position (that number, row,
   inner iteration).  Recorded by position (tools/props/w4s_c11b.py wraps calc_grad / tt_linesearch_prowsubprob / get_search_dir_pqnr):
   the KKT violation the test of that inner iteration sees (i = 0: after the priming line search), the function evaluations of the priming
   and of the quasi-Newton line search, and the SIGN of tmp_delm_dot (0 = the L-BFGS update is skipped; rho holds the signs, so the test
   `rho[lbfgsMem - 1] > 0` and with it the assertion 'L-BFGS first iterate is bad' replay exactly).  The clock stands still. *)
From Coq Require Import String List Arith Bool ZArith.
From PV Require Import Model.W4SPrelude Gen.GenCpAprPqnr Model.W4SHarnessBase Model.W4SHarnessPdnr.
Import ListNotations.
Local Open Scope nat_scope.

Definition pq_entry := (Z * nat * nat * Z)%type.        (* KKT, evaluations of the priming search, of the QN search, sign of tmp_delm_dot *)
Definition pq_kkt (e : pq_entry) : Z := fst (fst (fst e)).
Definition pq_ne1 (e : pq_entry) : nat := snd (fst (fst e)).
Definition pq_ne2 (e : pq_entry) : nat := snd (fst e).
Definition pq_dot (e : pq_entry) : Z := snd e.

Fixpoint pqnr_look (tab : list ((nat * nat * nat) * pq_entry)) (k : nat * nat * nat) : pq_entry :=
  match tab with
  | [] => (0%Z, 0, 0, 1%Z)
  | (k', v) :: tab' =>
      let '(a, b, c) := k in let '(a', b', c') := k' in
      if (a =? a') && (b =? b') && (c =? c') then v else pqnr_look tab' k
  end.

Definition zsk_pqnr_gen (stoptime : Z) (tab : list ((nat * nat * nat) * pq_entry)) (empt : list (nat * nat)) (shape : list nat) (sparse : bool)
    (N maxiters maxinner : nat) (stoptol : Z) (lbfgsMem : nat) (precomp : bool) (printitn : nat) :=
  GenCpAprPqnr.cp_apr_pqnr
    nat
    Z
    nat
    bool
    unit
    nat
    (nat * nat)%type
    (nat * nat * nat)%type
    unit
    Z.leb
    0%Z
    (-1)%Z
    Z.sub
    (fun m _ => m)
    (fun x : bool => x)
    (fun w : nat => (w, 0%Z))
    (fun _ n => nth n shape 0)
    (fun _ n jj => (n, jj))
    (fun m _ => m)
    (fun _ _ _ _ _ _ => tt)
    (fun _ n => n)
    (fun ix => pdnr_mem ix empt)
    (fun m _ _ => m)
    (fun _ ix => (fst ix, snd ix, 0))
    (fun _ _ _ _ _ _ _ => tt)
    (fun m _ jj => (m, jj, 0))
    (fun _ _ => tt)
    (fun m => m)
    (fun _ _ _ _ m => (m, m))
    (fun _ m _ _ _ _ _ => (m, pq_ne1 (pqnr_look tab m)))
    (fun m _ => pq_kkt (pqnr_look tab m))
    (fun a _ => a)
    (fun a _ => pq_dot (pqnr_look tab a))
    (fun z => (z =? 0)%Z)
    (fun z => z)
    (fun m _ _ => m)
    (fun m _ _ _ _ _ _ _ _ => m)
    (fun _ _ m _ _ _ _ _ => (let '(p, jj, i) := m in (p, jj, S i), pq_ne2 (pqnr_look tab m)))
    (fun rho mem => (0 <? nth (Nat.pred mem) rho 0)%Z)
    (fun m _ _ _ => m)
    (fun xm jj => (xm, jj, 0))
    (fun r => negb (pdnr_mem (fst (fst r), snd (fst r)) empt))
    (fun m _ _ => S m)
    (fun _ _ => 0)
    (fun l => fold_right Z.max 0%Z l)
    (fun it p => (it mod p =? 0))
    (fun _ _ => 0%Z)
    (fun m _ _ => m)
    (fun _ _ => 0%Z)
    0 sparse 1 0 stoptol stoptime maxiters maxinner 0%Z printitn 0 0%Z lbfgsMem precomp N.

Definition zsk_pqnr := zsk_pqnr_gen 1%Z.

Definition zsk_pqnr_ok tab empt shape sparse N maxiters maxinner stoptol lbfgsMem precomp printitn
    (kkt_obs : list Z) (ninner_obs fnev_obs : list nat) : bool :=
  match zsk_pqnr tab empt shape sparse N maxiters maxinner stoptol lbfgsMem precomp printitn with
  | None => false
  | Some (_, (kkt, _, fnev, fnv, ninner, nz, times, _), _) =>
      list_eqb Z.eqb kkt kkt_obs && list_eqb Nat.eqb ninner ninner_obs && list_eqb Nat.eqb fnev fnev_obs &&
      (length fnv =? length kkt_obs) && (length nz =? length kkt_obs) && (length times =? length kkt_obs)
  end.

(* the source raises (NameError: `iteration` / `i`; AssertionError 'L-BFGS first iterate is bad') *)
Definition zsk_pqnr_raises tab empt shape sparse N maxiters maxinner stoptol lbfgsMem precomp printitn : bool :=
  match zsk_pqnr tab empt shape sparse N maxiters maxinner stoptol lbfgsMem precomp printitn with None => true | Some _ => false end.

(* non-vacuity + boundary decisions, pinned over the regenerated text on every run *)
Example zsk_pqnr_example :      (* row (0,0): priming search (3 evaluations), KKT 5, L-BFGS update, QN search (2), then converged at i = 1; row (1,1) empty *)
  zsk_pqnr [((0, 0, 0), (5%Z, 3, 2, 1%Z)); ((0, 0, 1), (0%Z, 0, 0, 1%Z))] [(1, 1)] [2; 2] false 2 5 3 1%Z 3 true 0
  = Some (4, ([5; 0]%Z, 0%Z, [5; 0], [0; 0]%Z, [1; 0], [0; 0], [0; 0]%Z, 0%Z), 0).
Proof. vm_compute. reflexivity. Qed.

Example zsk_pqnr_first_iterate_bad :      (* tmp_delm_dot = 0 at the first update and rho[lbfgsMem - 1] = 0: assert False *)
  zsk_pqnr [((0, 0, 0), (5%Z, 1, 1, 0%Z))] [] [1; 1] false 2 2 3 1%Z 3 false 0 = None.
Proof. vm_compute. reflexivity. Qed.

Example zsk_pqnr_kkt_boundary :           (* a row KKT violation EQUAL to stoptol is not converged: the QN line search runs *)
  zsk_pqnr [((0, 0, 0), (1%Z, 1, 2, 1%Z))] [] [1; 1] false 2 1 1 1%Z 3 false 0
  = Some (2, ([1]%Z, 0%Z, [3], [0]%Z, [0], [0], [0]%Z, 0%Z), 0).
Proof. vm_compute. reflexivity. Qed.

Example zsk_pqnr_time_boundary :          (* a time stamp EQUAL to stoptime does not end the run ... *)
  zsk_pqnr_gen 0%Z [((0, 0, 0), (5%Z, 1, 1, 1%Z)); ((2, 0, 0), (5%Z, 1, 1, 1%Z))] [] [1; 1] false 2 2 1 1%Z 3 false 0
  = Some (4, ([5; 5]%Z, 0%Z, [2; 2], [0; 0]%Z, [0; 0], [0; 0], [0; 0]%Z, 0%Z), 0).
Proof. vm_compute. reflexivity. Qed.

Example zsk_pqnr_time_limit :             (* ... a later one does, although the sweep has not converged *)
  zsk_pqnr_gen (-1)%Z [((0, 0, 0), (5%Z, 1, 1, 1%Z)); ((2, 0, 0), (5%Z, 1, 1, 1%Z))] [] [1; 1] false 2 2 1 1%Z 3 false 0
  = Some (2, ([5]%Z, 0%Z, [2], [0]%Z, [0], [0], [0]%Z, 0%Z), 0).
Proof. vm_compute. reflexivity. Qed.

Example zsk_pqnr_no_iteration : zsk_pqnr [] [] [1; 1] false 2 0 3 1%Z 3 false 0 = None.      (* NameError: iteration *)
Proof. vm_compute. reflexivity. Qed.

Example zsk_pqnr_converged_at_once :      (* every row converges at i = 0 of iteration 0: one outer iteration, whatever maxiters says *)
  zsk_pqnr [] [] [1; 1] false 2 3 3 1%Z 3 false 0 = Some (2, ([0]%Z, 0%Z, [0], [0]%Z, [0], [0], [0]%Z, 0%Z), 0).
Proof. vm_compute. reflexivity. Qed.
