"""W4S slice for C11, second part (wave 7): the row-subproblem drivers of cp_apr — to be INCLUDEd by tools/props/c11.py
(`INCLUDE = ["w4s_c11", "w4s_c11b"]`): generated unit(s) GenCpAprPdnr (pyttb/cp_apr.py::tt_cp_apr_pdnr, region `M = init.copy()` ..
`return M, output`: index-set precomputation, outer / mode / row / inner loops, `continue` for empty rows, KKT break, damping update,
convergence / inexact / time-limit exits, per-iteration arrays), theorem file Props/W4SC11b.v (bookkeeping + non-negativity over the
generated loops), differential ops sk_pdnr, sk_pqnr (GenCpAprPqnr: tt_cp_apr_pqnr, same region; calc_grad, both line searches and the
L-BFGS skip decision recorded by position; Model/W4SHarnessPqnr.v zsk_pqnr).

Replay: pyttb/cp_apr.py is NOT edited; while a run is recorded the module attributes `calc_partials` and `tt_linesearch_prowsubprob` of
pyttb.cp_apr are replaced by wrappers that call the original and note, with the position (iteration, n, jj, i) read from the calling
frame of tt_cp_apr_pdnr (as tools/props/c11_trace.py does), the KKT violation of that inner iteration (recomputed with the source's own
float operations from the row and phi_row) and the number of function evaluations the line search reports.  Empty data rows are computed
from the data.  The recorded answers are replayed through the GENERATED skeleton (Model/W4SHarnessPdnr.v zsk_pdnr) and kktViolations,
nInnerIters, fnEvals and the lengths of fnVals / nZeros / times are compared exactly; NameError runs (maxiters = 0, maxinneriters = 0)
must be `None` of the skeleton."""
import math
from fractions import Fraction

from vcheck import Case, gz, gzlist, gnat, gnlist, gbool
from props import w4s as _w

PROP = "W4S"
LEVEL = _w.LEVEL
GEN_UNITS = ['GenCpAprPdnr', 'GenCpAprPqnr']
COQ_TARGETS = ['Props/W4SC11b.vo'] + ['Model/W4SHarnessPdnr.vo', 'Model/W4SHarnessPqnr.vo']
THEOREM_FILES = ['Props/W4SC11b.v']
COQ_IMPORTS = ("From Coq Require Import List ZArith Bool.\n"
               "From PV Require Import Model.W4SHarnessPdnr Model.W4SHarnessPqnr.\n")
RULE = ("cp_apr PDNR and PQNR (lbfgsMem 1..3): dense and sparse count data on 2x2 .. 3x2x2 (incl. empty rows in every mode), rank 1..2, maxiters 0..4, "
        "maxinneriters 0..10, stoptol 1e-6..0.5, precompinds / inexact on and off, printitn 0..2; every calc_partials / line-search call "
        "recorded by position and replayed. non-trivial = at least one outer iteration is executed")
EXPLANATION = _w.EXPLANATION
CORRESPONDENCE_ONLY = []
TRUSTED_EXTRA = _w.TRUSTED_EXTRA + ["wave 7 (GenCpAprPdnr): `continue` = next round of the innermost loop (the statements after an `if` that contains it are "
                                    "duplicated into both branches, so the inner loop appears twice: sparse / dense copy); np.zeros((n, 1)) / "
                                    "-np.ones((n, 1)) are length-n lists; `isSparse is False` = negb isSparse; f_new (only printed) is dropped from the "
                                    "line-search result; GenCpAprPqnr: `lbfgsPos -= 1` = Nat.pred (reached only when lbfgsPos != 0), `lbfgsMem - 1` = Nat.pred and "
                                    "np.mod(lbfgsPos, lbfgsMem) = mod (lbfgsMem >= 1), the unused line-search results `_`, `_`, f_new are dropped"]
SHARD = _w.SHARD
_OPS = ('sk_pdnr', 'sk_pqnr')
_fr = _w._fr
_scale = _w._scale


def gen_cases(rng, tier):
    big = tier == "thorough"
    cases = []
    for k in range(120 if big else 40):
        shp = rng.choice([(2, 2), (2, 3), (3, 2), (3, 2, 2), (3, 3)])
        n = math.prod(shp)
        R = rng.randint(1, 2)
        data = [rng.choice([0, 0, 0, 1, 2, 5]) for _ in range(n)]
        data[rng.randrange(n)] = 3
        init = [[[rng.randint(1, 8) / 4.0 for _ in range(R)] for _ in range(s)] for s in shp]
        a = {"shape": list(shp), "data": data, "R": R, "init": init, "sparse": rng.random() < 0.5,
             "maxiters": rng.choice([0, 1, 2, 3, 3, 4]), "maxinner": rng.choice([0, 1, 2, 3, 10, 10]),
             "stoptol": rng.choice([1e-6, 1e-3, 0.01, 0.1, 0.5]), "printitn": rng.choice([0, 0, 1, 2]),
             "precomp": rng.random() < 0.5, "inexact": rng.random() < 0.5}
        cases.append(Case("sk_pdnr", a, a["maxiters"] > 0))
    for k in range(120 if big else 40):
        shp = rng.choice([(2, 2), (2, 3), (3, 2), (3, 2, 2), (3, 3)])
        n = math.prod(shp)
        R = rng.randint(1, 2)
        data = [rng.choice([0, 0, 0, 1, 2, 5]) for _ in range(n)]
        data[rng.randrange(n)] = 3
        init = [[[rng.randint(1, 8) / 4.0 for _ in range(R)] for _ in range(s)] for s in shp]
        a = {"shape": list(shp), "data": data, "R": R, "init": init, "sparse": rng.random() < 0.5,
             "maxiters": rng.choice([0, 1, 2, 3, 3, 4]), "maxinner": rng.choice([0, 1, 2, 3, 10, 10]),
             "stoptol": rng.choice([1e-6, 1e-3, 0.01, 0.1, 0.5]), "printitn": rng.choice([0, 0, 1, 2]),
             "precomp": rng.random() < 0.5, "mem": rng.choice([1, 2, 3, 3])}
        cases.append(Case("sk_pqnr", a, a["maxiters"] > 0))
    return cases


def _run_pdnr(a):
    import contextlib
    import io
    import sys
    import numpy as np
    import pyttb as ttb
    mod = sys.modules["pyttb.cp_apr"]
    shp = tuple(a["shape"])
    N = len(shp)
    arr = np.array(a["data"], dtype=float).reshape(shp, order="F")
    X = ttb.tensor(arr.copy(order="F"))
    if a["sparse"]:
        X = X.to_sptensor()
    init = ttb.ktensor([np.array(f, dtype=float) for f in a["init"]])
    ev = []
    orig = {k: getattr(mod, k) for k in ("calc_partials", "tt_linesearch_prowsubprob")}

    def ctx():
        f = sys._getframe(2)
        if f.f_code.co_name != "tt_cp_apr_pdnr":
            return None, None
        L = f.f_locals
        return (int(L["iteration"]), int(L["n"]), int(L["jj"]), int(L["i"])), L

    def calc_partials(isSparse, Pi, epsilon, data_row, model_row):
        phi_row, ups_row = orig["calc_partials"](isSparse, Pi, epsilon, data_row, model_row)
        c, L = ctx()
        if c is not None:
            gradM = (L["e_vec"] - phi_row).transpose()
            ev.append(("g", c, float(np.max(np.abs(np.minimum(model_row, gradM.transpose()[0]))))))
        return phi_row, ups_row

    def tt_linesearch_prowsubprob(*args):
        res = orig["tt_linesearch_prowsubprob"](*args)
        c, _ = ctx()
        if c is not None:
            ev.append(("s", c, int(res[4])))
        return res

    mod.calc_partials = calc_partials
    mod.tt_linesearch_prowsubprob = tt_linesearch_prowsubprob
    exc = None
    out = None
    try:
        with contextlib.redirect_stdout(io.StringIO()):
            M, out = mod.tt_cp_apr_pdnr(X, a["R"], init, a["stoptol"], 1e6, a["maxiters"], a["maxinner"], 1e-10, a["printitn"], 0, 1e-8, 1e-5,
                                        a["precomp"], a["inexact"])
    except Exception as ex:
        exc = (type(ex).__name__, str(ex)[:200])
    finally:
        for k, f in orig.items():
            setattr(mod, k, f)
    tab = {}
    for e in ev:
        it, n, jj, i = e[1]
        key = (it * N + n, jj, i)
        cur = tab.setdefault(key, [None, 0])
        if e[0] == "g":
            if cur[0] is not None:
                return {"bad": f"two KKT evaluations at position {e[1]}"}
            cur[0] = str(_fr(e[2]))
        else:
            cur[1] += e[2]
    if any(v[0] is None for v in tab.values()):
        return {"bad": "line search without a preceding calc_partials at the same position"}
    empt = []
    for n in range(N):
        for jj in range(shp[n]):
            if not np.any(np.take(arr, jj, axis=n)):
                empt.append([n, jj])
    r = {"tab": [[list(k), v[0], v[1]] for k, v in sorted(tab.items())], "empt": empt}
    if exc is not None:
        r["exc"], r["msg"] = exc
        return r
    kk = [float(np.asarray(v).ravel()[0]) for v in out["kktViolations"]]
    r.update({"kkt_obs": [str(_fr(v)) for v in kk],
              "tols": [str(_fr(float(np.asarray(np.maximum(a["stoptol"], v) / 100.0).ravel()[0]))) for v in out["kktViolations"]],
              "ninner": [int(np.asarray(v).ravel()[0]) for v in out["nInnerIters"]], "fnev": [int(np.asarray(v).ravel()[0]) for v in out["fnEvals"]],
              "lens": [len(out[k]) for k in ("fnVals", "nZeros", "times")], "keys": sorted(out.keys()),
              "nonneg": bool(all(np.min(f) >= 0 for f in M.factor_matrices) and np.min(M.weights) >= 0)})
    return r


def _run_pqnr(a):
    import contextlib
    import io
    import sys
    import numpy as np
    import pyttb as ttb
    mod = sys.modules["pyttb.cp_apr"]
    shp = tuple(a["shape"])
    N = len(shp)
    arr = np.array(a["data"], dtype=float).reshape(shp, order="F")
    X = ttb.tensor(arr.copy(order="F"))
    if a["sparse"]:
        X = X.to_sptensor()
    init = ttb.ktensor([np.array(f, dtype=float) for f in a["init"]])
    ev = []
    orig = {k: getattr(mod, k) for k in ("calc_grad", "tt_linesearch_prowsubprob", "get_search_dir_pqnr")}

    def ctx():
        f = sys._getframe(2)
        if f.f_code.co_name != "tt_cp_apr_pqnr":
            return None, None
        L = f.f_locals
        return (int(L["iteration"]), int(L["n"]), int(L["jj"]), int(L["i"])), L

    def calc_grad(isSparse, Pi, eps_div_zero, data_row, model_row):
        g, phi_row = orig["calc_grad"](isSparse, Pi, eps_div_zero, data_row, model_row)
        c, _ = ctx()
        if c is not None:
            ev.append(("g", c, float(np.max(np.abs(np.minimum(model_row, g))))))          # the later call at i = 0 wins
        return g, phi_row

    def tt_linesearch_prowsubprob(*args):
        res = orig["tt_linesearch_prowsubprob"](*args)
        c, _ = ctx()
        if c is not None:
            ev.append(("s", c, int(res[4])))
        return res

    def get_search_dir_pqnr(*args):
        c, L = ctx()
        if c is not None:
            d = np.asarray(L["tmp_delm_dot"], dtype=float).ravel()
            ev.append(("d", c, 0 if np.any(L["tmp_delm_dot"] == 0) else (1 if d[0] > 0 else -1), int(d.size)))
        return orig["get_search_dir_pqnr"](*args)

    for k_ in orig:
        setattr(mod, k_, locals()[k_])
    exc = None
    out = None
    try:
        with contextlib.redirect_stdout(io.StringIO()):
            M, out = mod.tt_cp_apr_pqnr(X, a["R"], init, a["stoptol"], 1e6, a["maxiters"], a["maxinner"], 1e-10, a["printitn"], 0, 1e-8, a["mem"],
                                        a["precomp"])
    except Exception as ex:
        exc = (type(ex).__name__, str(ex)[:200])
    finally:
        for k_, f in orig.items():
            setattr(mod, k_, f)
    tab = {}
    for e in ev:
        it, n, jj, i = e[1]
        key = (it * N + n, jj, i)
        cur = tab.setdefault(key, {"kkt": None, "ne": [], "dot": 1})
        if e[0] == "g":
            cur["kkt"] = str(_fr(e[2]))
        elif e[0] == "s":
            cur["ne"].append(e[2])
        else:
            if e[3] != 1:
                return {"bad": f"tmp_delm_dot has {e[3]} entries at position {e[1]}"}
            cur["dot"] = e[2]
    rows = []
    for key, v in sorted(tab.items()):
        ne = v["ne"]
        if v["kkt"] is None or len(ne) > (2 if key[2] == 0 else 1):
            return {"bad": f"unexpected sequence of kernel calls at position {key}"}
        if key[2] == 0:
            ne1, ne2 = (ne + [0, 0])[:2]
        else:
            ne1, ne2 = 0, (ne + [0])[0]
        rows.append([list(key), v["kkt"], ne1, ne2, v["dot"]])
    # an assertion 'L-BFGS first iterate is bad' is raised BEFORE get_search_dir_pqnr is called: the skipped update is the last position
    if exc is not None and exc[0] == "AssertionError" and rows:
        pos = (ev[-1][1][0] * N + ev[-1][1][1], ev[-1][1][2], ev[-1][1][3])
        last = [r_ for r_ in rows if tuple(r_[0]) == pos][0]
        last[4] = 0
    empt = []
    for n in range(N):
        for jj in range(shp[n]):
            if not np.any(np.take(arr, jj, axis=n)):
                empt.append([n, jj])
    r = {"tab": rows, "empt": empt}
    if exc is not None:
        r["exc"], r["msg"] = exc
        return r
    r.update({"kkt_obs": [str(_fr(float(np.asarray(v).ravel()[0]))) for v in out["kktViolations"]],
              "ninner": [int(np.asarray(v).ravel()[0]) for v in out["nInnerIters"]], "fnev": [int(np.asarray(v).ravel()[0]) for v in out["fnEvals"]],
              "lens": [len(out[k]) for k in ("fnVals", "nZeros", "times")], "keys": sorted(out.keys()),
              "nonneg": bool(all(np.min(f) >= 0 for f in M.factor_matrices) and np.min(M.weights) >= 0)})
    return r


def run_impl(c):
    if c.op == "sk_pqnr":
        try:
            return _run_pqnr(c.args)
        except Exception as ex:
            return {"exc": type(ex).__name__, "msg": str(ex)[:200], "harness": True}
    if c.op == "sk_pdnr":
        try:
            return _run_pdnr(c.args)
        except Exception as ex:
            return {"exc": type(ex).__name__, "msg": str(ex)[:200], "harness": True}
    raise ValueError(c.op)


def _args(a, o, z, tols):
    tab = "(@nil ((nat * nat * nat) * (Z * nat)))" if not o["tab"] else \
        "[" + "; ".join(f"(({k[0]}, {k[1]}, {k[2]})%nat, ({gz(z(Fraction(v)))}, {int(ne)}%nat))" for k, v, ne in o["tab"]) + "]"
    empt = "(@nil (nat * nat))" if not o["empt"] else "[" + "; ".join(f"({n}, {jj})%nat" for n, jj in o["empt"]) + "]"
    return (f"{tab} {empt} {gnlist(a['shape'])} {gzlist([z(Fraction(x)) for x in tols])} {gbool(a['sparse'])} {gnat(len(a['shape']))} "
            f"{gnat(a['maxiters'])} {gnat(a['maxinner'])} {gz(z(_fr(a['stoptol'])))} {gbool(a['precomp'])} {gbool(a['inexact'])} {gnat(a['printitn'])}")


def _args_pq(a, o, z):
    tab = "(@nil ((nat * nat * nat) * pq_entry))" if not o["tab"] else \
        "[" + "; ".join(f"(({k[0]}, {k[1]}, {k[2]})%nat, ({gz(z(Fraction(v)))}, {int(n1)}%nat, {int(n2)}%nat, {gz(d)}))" for k, v, n1, n2, d in o["tab"]) + "]"
    empt = "(@nil (nat * nat))" if not o["empt"] else "[" + "; ".join(f"({n}, {jj})%nat" for n, jj in o["empt"]) + "]"
    return (f"{tab} {empt} {gnlist(a['shape'])} {gbool(a['sparse'])} {gnat(len(a['shape']))} "
            f"{gnat(a['maxiters'])} {gnat(a['maxinner'])} {gz(z(_fr(a['stoptol'])))} {gnat(a['mem'])} {gbool(a['precomp'])} {gnat(a['printitn'])}")


def _coq_check_pq(c, o):
    a = c.args
    if o.get("harness") or "bad" in o:
        return "false"
    fr = [Fraction(r_[1]) for r_ in o["tab"]] + [_fr(a["stoptol"])]
    if "exc" in o:
        if o["exc"] not in ("UnboundLocalError", "NameError", "AssertionError"):
            return "false"
        return f"zsk_pqnr_raises {_args_pq(a, o, _scale(fr))}"
    if o["keys"] != ["fnEvals", "fnVals", "kktViolations", "nInnerIters", "nZeros", "obj", "params", "times", "totalTime"]:
        return "false"
    if o["lens"] != [len(o["kkt_obs"])] * 3:
        return "false"
    fr += [Fraction(x) for x in o["kkt_obs"]]
    z = _scale(fr)
    return (f"zsk_pqnr_ok {_args_pq(a, o, z)} {gzlist([z(Fraction(x)) for x in o['kkt_obs']])} {gnlist(o['ninner'])} {gnlist(o['fnev'])}")


def coq_check(c, o):
    a = c.args
    if c.op == "sk_pqnr":
        return _coq_check_pq(c, o)
    if c.op != "sk_pdnr":
        raise ValueError(c.op)
    if o.get("harness") or "bad" in o:
        return "false"
    fr = [Fraction(v) for _, v, _ in o["tab"]] + [_fr(a["stoptol"])]
    if "exc" in o:
        if o["exc"] not in ("UnboundLocalError", "NameError"):
            return "false"
        return f"zsk_pdnr_raises {_args(a, o, _scale(fr), [])}"
    if o["keys"] != ["fnEvals", "fnVals", "kktViolations", "nInnerIters", "nZeros", "obj", "params", "times", "totalTime"]:
        return "false"
    if o["lens"] != [len(o["kkt_obs"])] * 3:
        return "false"
    fr += [Fraction(x) for x in o["kkt_obs"] + o["tols"]]
    z = _scale(fr)
    return (f"zsk_pdnr_ok {_args(a, o, z, o['tols'])} {gzlist([z(Fraction(x)) for x in o['kkt_obs']])} {gnlist(o['ninner'])} {gnlist(o['fnev'])}")


def oracle(c, o):
    a = c.args
    if "bad" in o:
        return o["bad"]
    if o.get("harness"):
        return f"harness failure {o['exc']}: {o['msg']}"
    if "exc" in o:
        if o["exc"] in ("UnboundLocalError", "NameError") and (a["maxiters"] == 0 or a["maxinner"] == 0):
            return None          # the source reads `iteration` / `i` after a loop that did not run (recorded behaviour, C11-owned)
        if c.op == "sk_pqnr" and o["exc"] == "AssertionError" and "L-BFGS first iterate is bad" in o["msg"]:
            return None          # finding C11-F1 (C11-owned); the skeleton must answer None on the same recorded answers
        return f"unexpected {o['exc']}: {o['msg']}"
    n = len(o["kkt_obs"])
    if not (1 <= n <= a["maxiters"]) or len(o["ninner"]) != n or len(o["fnev"]) != n or o["lens"] != [n] * 3:
        return "reported arrays do not have one entry per outer iteration performed / iteration limit exceeded"
    if any(Fraction(x) < 0 for x in o["kkt_obs"]):
        return "negative KKT violation reported"
    if not o["nonneg"]:
        return "negative entry in the returned model"
    return None
