(* Proofs/C01Ttm.v — pyttb's own tensor.ttm route inside ttensor.full (dense core) computes the subscript-level
   mode-by-mode product that C01_tucker is stated over; uses C02's theorem about the single-mode ttm algorithm. *)
From Coq Require Import List Arith Lia Bool Permutation Ring.
From PV Require Import Base.Index Base.Perm Base.Sum Np.Array Model.Sparse Model.Repr Model.C07Ops Model.C01Conv
  Model.C02Spec Model.C02Dense Model.C01Ttm Proofs.C02DenseProofs Proofs.C01Proofs Proofs.C01Tucker.
Import ListNotations.

Lemma set_nth_upd (i : idx) n x : set_nth i n x = upd i n x.
Proof. revert n; induction i as [|y i IH]; intros [|n]; cbn; auto. now rewrite IH. Qed.

Lemma set_nth_length (i : idx) n x : length (set_nth i n x) = length i.
Proof. now rewrite set_nth_upd, upd_length. Qed.

Section TtmProofs.
Variable V : Type.
Variables (v0 v1 : V) (vadd vmul vsub : V -> V -> V) (vopp : V -> V).
Hypothesis Vring : ring_theory v0 v1 vadd vmul vsub vopp (@eq V).

(* one mode: the permute / reshape / matmul algorithm yields exactly the tabulated mode-n product *)
Lemma impl_ttm_is_ttm_mode (X : dense V) (U : matrix (V:=V)) n : wf_dense X -> n < length (dshape X) ->
  impl_ttm_dense v0 vadd vmul X n U (nrows U) false = ttm_mode v0 vadd vmul X U n.
Proof.
  intros W Hn.
  destruct (impl_ttm_dense_correct V v0 vadd vmul X n U (nrows U) false W Hn) as (Hs & WY & Hd).
  apply (dense_ext v0); [exact WY|apply wf_tabulate| |].
  - rewrite Hs. unfold ttm_mode. now rewrite dshape_tabulate, set_nth_upd.
  - intros i Hi. rewrite Hs in Hi. rewrite Hd by exact Hi. unfold ttm_mode. rewrite den_tabulate by (now rewrite set_nth_upd).
    unfold spec_ttm. apply (sum_n_ext V v0 vadd). intros k _. now rewrite set_nth_upd.
Qed.

Lemma ttm_all_impl_eq (Us : list (matrix (V:=V))) : forall (X : dense V) n, wf_dense X -> n + length Us <= length (dshape X) ->
  ttm_all_impl v0 vadd vmul X Us n = ttm_all v0 vadd vmul X Us n.
Proof.
  induction Us as [|U Us IH]; intros X n W Hn; cbn [ttm_all_impl ttm_all]; auto. cbn [length] in Hn.
  rewrite impl_ttm_is_ttm_mode by (auto; lia). apply IH; [apply wf_tabulate|].
  unfold ttm_mode. rewrite dshape_tabulate, set_nth_length. lia.
Qed.

Theorem ttensor_full_impl_correct (T : ttensor V) : wf_dense (tcore T) -> length (dshape (tcore T)) = length (tfactors T) ->
  ttensor_full_impl v0 vadd vmul T = ttensor_full v0 vadd vmul T /\
  wf_dense (ttensor_full_impl v0 vadd vmul T) /\ dshape (ttensor_full_impl v0 vadd vmul T) = tshape T /\
  forall i, den_dense v0 (ttensor_full_impl v0 vadd vmul T) i = den_t v0 v1 vadd vmul T i.
Proof.
  intros W HN.
  assert (E : ttensor_full_impl v0 vadd vmul T = ttensor_full v0 vadd vmul T).
  { unfold ttensor_full_impl, ttensor_full. apply ttm_all_impl_eq; auto. lia. }
  split; [exact E|]. rewrite E. exact (ttensor_full_correct V v0 v1 vadd vmul vsub vopp Vring T W HN).
Qed.

End TtmProofs.
