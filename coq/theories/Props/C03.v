(* Props/C03.v — sparse element-wise arithmetic, logic and comparison match dense semantics.
   Only statements, `exact`, Print Assumptions.  V is any value type with a decidable zero. *)
From Coq Require Import List Arith Bool ZArith.
From PV Require Import Base.Index Np.Array Model.Sparse Model.Harness Model.C03Ops Proofs.C03Lemmas Proofs.C03Proofs.
Import ListNotations.

Section C03.
Context {V : Type} (v0 : V) (isz : V -> bool).
Hypothesis isz_spec : forall v, isz v = true <-> v = v0.

(* -S : same shape, well-formed, value at every position = opposite of the operand's value *)
Theorem C03_neg : forall (vopp : V -> V), (forall v, v <> v0 -> vopp v <> v0) -> vopp v0 = v0 ->
  forall A : sparse V, wf_sp isz A ->
  wf_sp isz (impl_neg vopp A) /\ sshape (impl_neg vopp A) = sshape A /\
  forall i, den_sp v0 (impl_neg vopp A) i = vopp (den_sp v0 A i).
Proof. exact (impl_neg_correct v0 isz isz_spec). Qed.

(* S.ones() : 1 exactly at the nonzero positions *)
Theorem C03_ones : forall (one : V) (A : sparse V), one <> v0 -> wf_sp isz A ->
  wf_sp isz (impl_ones one A) /\ sshape (impl_ones one A) = sshape A /\
  forall i, den_sp v0 (impl_ones one A) i = bval v0 one (negb (isz (den_sp v0 A i))).
Proof. exact (impl_ones_correct v0 isz isz_spec). Qed.

(* S.logical_not() : 1 exactly at the implicit-zero positions of the shape *)
Theorem C03_not : forall (one : V) (A : sparse V), one <> v0 -> wf_sp isz A ->
  wf_sp isz (impl_not one A) /\ sshape (impl_not one A) = sshape A /\
  forall i, inb (sshape A) i = true -> den_sp v0 (impl_not one A) i = bval v0 one (isz (den_sp v0 A i)).
Proof. exact (impl_not_correct v0 isz isz_spec). Qed.
End C03.

Print Assumptions C03_neg.
Print Assumptions C03_ones.
Print Assumptions C03_not.

(* non-vacuity: a 2x3 operand stored out of order *)
Example C03_example_unary :
  let A := mkSp [2; 3] [[1; 2]; [0; 1]; [1; 0]] [9; -7; 5]%Z in
  wf_spb zisz A = true /\
  full 0%Z (impl_neg Z.opp A) = mkDense [2; 3] [0; -5; 7; 0; 0; -9]%Z /\
  full 0%Z (impl_not 1%Z A) = mkDense [2; 3] [1; 0; 0; 1; 1; 0]%Z.
Proof. repeat split; reflexivity. Qed.
