(* Proofs/C12GenTie.v — tie A for two hand models of C12, over the files the translator regenerates on every run:
   (1) Gen/GenFgSetup.v (pyttb/gcp/fg_setup.py::setup): whatever triple (loss, gradient, lower bound) the GENERATED setup
       returns, the gradient is the derivative of the loss at every model value not below the returned bound — for every
       data value, nine objectives (negative binomial: finding A-34); and the hand table of Proofs/C12Setup.v is that table;
   (2) Gen/GenKernels.v (pyttb/tensor.py::min_split): the split index of Proofs/C12Mttkrps.v (nat model) is the one the
       generated min_split returns (through the bridge Proofs/GenKernelsProofs.v::min_split_bridge). *)
From Coq Require Import Reals Lra List ZArith Bool Arith Lia.
Set Warnings "-ambiguous-paths".
From Coquelicot Require Import Coquelicot.
From PV Require Import Np.NpR Gen.GenHandles Proofs.C12Handles Proofs.C12Setup.
From PV Require Gen.GenFgSetup.
From PV Require Import Base.Index Np.NpZ.
From PV Require Gen.GenKernels Proofs.GenKernelsProofs Proofs.C12Mttkrps.
Import List ListNotations.

(* ------------------------------------------------------------------------------------------------ *)
(* 1. fg_setup.setup as generated                                                                    *)
(* ------------------------------------------------------------------------------------------------ *)
Module G := GenFgSetup.
Local Open Scope R_scope.

Definition lb_ok (lb : G.lbound) (m : R) : Prop := match lb with G.NegInf => True | G.Finite b => b <= m end.
(* what the extra parameter has to satisfy (setup only requires it to be given) *)
Definition gparam_ok (o : G.Objectives) (p : option R) : Prop :=
  match o, p with
  | G.HUBER, Some t => 0 < t
  | G.BETA, Some b => b <> 0 /\ b <> 1
  | _, _ => True
  end.

Theorem gen_setup_sound : forall o data p fh gh lb,
  o <> G.NEGATIVE_BINOMIAL -> gparam_ok o p -> G.setup o data p = Some (fh, gh, lb) ->
  forall x m, lb_ok lb m -> is_derive (fun m => fh x m) m (gh x m).
Proof.
  intros o data p fh gh lb Hnb Hp H x m Hm.
  destruct o; cbn [G.setup] in H;
    repeat match type of H with
           | (if ?c then _ else _) = _ => destruct c; [discriminate|]
           | match ?q with Some _ => _ | None => _ end = _ => destruct q; [|discriminate]
           end;
    try (injection H as <- <- <-); cbn [lb_ok gparam_ok] in *.
  - apply gaussian_deriv.
  - now apply bernoulli_odds_deriv.
  - apply bernoulli_logit_deriv.
  - now apply poisson_deriv.
  - apply poisson_log_deriv.
  - now apply rayleigh_deriv.
  - now apply gamma_deriv.
  - now apply huber_deriv.
  - congruence.
  - destruct Hp. now apply beta_deriv.
Qed.

(* the hand table of C12Setup.v IS the generated table: same handles, same bound, same parameter requirement *)
Definition to_gen (o : objective) : G.Objectives :=
  match o with
  | Gaussian => G.GAUSSIAN | BernoulliOdds => G.BERNOULLI_ODDS | BernoulliLogit => G.BERNOULLI_LOGIT
  | Poisson => G.POISSON | PoissonLog => G.POISSON_LOG | Rayleigh => G.RAYLEIGH | Gamma => G.GAMMA
  | Huber => G.HUBER | NegativeBinomial => G.NEGATIVE_BINOMIAL | Beta => G.BETA
  end.

Theorem hand_table_is_generated : forall o p,
  match G.setup (to_gen o) None (Some p) with
  | Some (fh, gh, lb) =>
      (forall x m, fh x m = loss o p x m) /\ (forall x m, gh x m = grad o p x m) /\
      lb = (if bounded_below o then G.Finite 0 else G.NegInf)
  | None => False
  end /\
  (G.setup (to_gen o) None None = None <-> needs_param o = true).
Proof.
  intros o p. destruct o; cbn; (split; [repeat split; reflexivity | split; intros H; (discriminate || reflexivity)]).
Qed.

(* the data checks: which valid_* flag each objective consults is the hand table's data_check column *)
Theorem hand_data_check_is_generated : forall o p (d : G.datachk),
  let flag := match data_check o with
              | AnyData => true | Binary => G.valid_binary d | Natural => G.valid_natural d | Positive => G.valid_nonneg d
              end in
  (G.setup (to_gen o) (Some d) (Some p) = None <-> flag = false).
Proof.
  intros o p d. destruct o; cbn; destruct d as [b n z]; cbn;
    try (destruct b; cbn; split; intros H; (discriminate || reflexivity));
    try (destruct n; cbn; split; intros H; (discriminate || reflexivity));
    try (destruct z; cbn; split; intros H; (discriminate || reflexivity));
    split; intros H; discriminate.
Qed.

(* ------------------------------------------------------------------------------------------------ *)
(* 2. min_split as generated                                                                         *)
(* ------------------------------------------------------------------------------------------------ *)
Local Close Scope R_scope.
Module K := GenKernels.
Module KP := GenKernelsProofs.
Module M := C12Mttkrps.

Lemma zprod_of_nat (l : list nat) : zprod (map Z.of_nat l) = Z.of_nat (size l).
Proof.
  induction l as [|d l IH]; [reflexivity|].
  cbn [map]. rewrite KP.zprod_cons, IH, size_cons. lia.
Qed.

Lemma min_split_loop_greedy : forall rest idx ml, Forall (fun d => 1 <= d) rest ->
  M.min_split_loop rest (S idx) ml (size rest) idx = idx + KP.greedy (Z.of_nat ml) (map Z.of_nat rest).
Proof.
  induction rest as [|d rest IH]; intros idx ml Hp; cbn [M.min_split_loop map KP.greedy]; [lia|].
  inversion Hp as [|? ? Hd Hp']; subst.
  rewrite size_cons, (Nat.mul_comm d (size rest)), Nat.div_mul by lia.
  rewrite zprod_of_nat.
  destruct (Nat.ltb_spec ml (size rest)) as [Hlt|Hge].
  - replace (Z.of_nat ml <? Z.of_nat (size rest))%Z with true by (symmetry; apply Z.ltb_lt; lia).
    rewrite (IH (S idx) (ml * d) Hp'). rewrite Nat2Z.inj_mul. lia.
  - replace (Z.of_nat ml <? Z.of_nat (size rest))%Z with false by (symmetry; apply Z.ltb_ge; lia).
    lia.
Qed.

(* for every shape with at least one mode and no empty mode, the GENERATED min_split returns the split index used by
   mttkrps_py (Proofs/C12Mttkrps.v), so C12_mttkrps_py_eq speaks about the split the source computes *)
Theorem min_split_is_generated : forall s, s <> [] -> Forall (fun d => 1 <= d) s ->
  K.min_split (map Z.of_nat s) = NpZ.Ok (Z.of_nat (M.min_split s)).
Proof.
  intros [|d0 t] Hne Hp; [congruence|]. inversion Hp as [|? ? Hd Hp']; subst.
  cbn [map]. rewrite KP.min_split_bridge.
  - f_equal. f_equal. unfold M.min_split. now rewrite (min_split_loop_greedy t 0 d0 Hp').
  - intros d Hin. apply in_map_iff in Hin as (n & <- & Hn). rewrite Forall_forall in Hp'. specialize (Hp' n Hn). lia.
Qed.

Example min_split_generated_example :
  K.min_split [6; 2; 2; 3]%Z = NpZ.Ok 0%Z /\ K.min_split [2; 2; 3; 8]%Z = NpZ.Ok 2%Z /\ M.min_split [2; 2; 3; 8] = 2.
Proof. repeat split; reflexivity. Qed.
