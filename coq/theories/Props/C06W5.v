(* Props/C06W5.v — wave 5 additions to property C06 (sparse results are well-formed and independent of the stored order).
   Only statements, `exact`, Print Assumptions.  Values: any commutative ring with decidable zero unless said otherwise. *)
From Coq Require Import List Arith Bool ZArith Permutation Ring QArith Qcanon.
From PV Require Import Base.Index Base.Perm Base.Sum Np.Array Model.Sparse Model.Repr Model.Harness Model.C03Ops Model.C06Ops
                       Model.C02Spec Model.C02Sparse Model.C06Cont Model.C06Stm Model.C01Conv Model.C01Unique Model.C01Coo Model.C06W4 Model.C06W5 Model.C06SetSubs
                       Proofs.C03Lemmas Proofs.C03Proofs Proofs.C03More Proofs.C06Proofs Proofs.C06Other Proofs.C01Unique Proofs.C06Kernels Proofs.C06Cont Proofs.C06W4 Proofs.C01Converse Proofs.C01Coo Proofs.C06W5 Proofs.C06KInner2 Proofs.C06Diag Proofs.C06SetSubs.
Import ListNotations.

(* ---- sptensor.from_aggregator with ANY reducer that does not look at the order of the group it is handed (function_handle = np.max,
        np.min, np.prod, len, sum ...), arbitrary input rows (repeated rows, zero values, any order; C03_from_aggregator gives the
        well-formedness and the denotation for every reducer): two inputs that list the same (subscript, value) pairs in different orders
        give the same result — both well-formed, same canonical form, same entries up to stored order ---- *)
Theorem C06_from_aggregator_any_reducer_indep : forall (V : Type) (v0 : V) (isz : V -> bool), (forall v, isz v = true <-> v = v0) ->
  forall func : list V -> V, perm_inv func ->
  forall (s : shape) (es es' : list (idx * V)), Permutation es es' -> (forall e, In e es -> inb s (fst e) = true) ->
  same_result v0 isz (from_aggregator isz func s (map fst es) (map snd es)) (from_aggregator isz func s (map fst es') (map snd es')).
Proof. exact from_aggregator_indep_any. Qed.

(* the reducers of the correspondence cases are of that kind; "the first value of the group" is not (the group is handed over in input order) *)
Theorem C06_reducers_perm_inv : perm_inv red_max /\ perm_inv red_min /\ perm_inv red_prod /\ perm_inv red_len /\ ~ perm_inv red_first.
Proof. exact (conj red_max_perm_inv (conj red_min_perm_inv (conj red_prod_perm_inv (conj red_len_perm_inv red_first_not_perm_inv)))). Qed.

Theorem C06_from_aggregator_reducers_indep : forall func : list Z -> Z, func = red_max \/ func = red_min \/ func = red_prod \/ func = red_len ->
  forall (s : shape) (es es' : list (idx * Z)), Permutation es es' -> (forall e, In e es -> inb s (fst e) = true) ->
  same_result 0%Z zisz (from_aggregator zisz func s (map fst es) (map snd es)) (from_aggregator zisz func s (map fst es') (map snd es')).
Proof. exact from_aggregator_reducers_indep. Qed.

(* ---- sptensor.collapse(dims, fun) with such a reducer (the reducer sees the stored values only; Model/C06W5.v cont_collapse_f: number /
        numpy vector with 0 for groups without a stored value / from_aggregator(..., fun)): the same KIND of container and the same
        result for every stored order; a sparse result is well-formed with the collapsed shape ---- *)
Theorem C06_cont_collapse_reducer_indep : forall (V : Type) (v0 : V) (isz : V -> bool), (forall v, isz v = true <-> v = v0) ->
  forall func : list V -> V, perm_inv func -> forall (S S' : sparse V) (dims : list nat), reordered V isz S S' ->
  ksame V v0 isz (cont_collapse_f v0 isz func S dims) (cont_collapse_f v0 isz func S' dims).
Proof. exact cont_collapse_f_indep. Qed.

Theorem C06_cont_collapse_reducer_wf : forall (V : Type) (v0 : V) (isz : V -> bool), (forall v, isz v = true <-> v = v0) ->
  forall (func : list V -> V) (S : sparse V) (dims : list nat) (R : sparse V), wf_sp isz S -> cont_collapse_f v0 isz func S dims = KSp R ->
  wf_sp isz R /\ sshape R = ttv_shape (sshape S) dims.
Proof. exact cont_collapse_f_wf. Qed.

(* ---- the generator sptendiag(elements, shape) (Model/C06W5.v impl_sptendiag: constructed shape, N rows [k; ...; k], from_aggregator):
        whenever pyttb accepts the request (the constructed shape has a mode, or there is no element) the result is well-formed — no
        explicit zero for a zero element —, has the constructed shape and denotes the super-diagonal of the elements ---- *)
Theorem C06_sptendiag : forall (V : Type) (v0 : V) (vadd : V -> V -> V), (forall x, vadd x v0 = x) ->
  forall isz : V -> bool, (forall v, isz v = true <-> v = v0) ->
  forall (els : list V) (req : option shape), diag_cshape (length els) req <> [] \/ els = [] ->
  wf_sp isz (impl_sptendiag v0 vadd isz els req) /\ sshape (impl_sptendiag v0 vadd isz els req) = diag_cshape (length els) req /\
  forall i, inb (diag_cshape (length els) req) i = true -> den_sp v0 (impl_sptendiag v0 vadd isz els req) i = gdiag v0 els i.
Proof. exact impl_sptendiag_correct. Qed.

(* ---- `S[subs] = vals` as sptensor._set_subscripts computes it, BY POSITION (Model/C06SetSubs.v set_subs_AB: the positions of the targets
        inside the coordinate list are looked up once; stored targets with a nonzero value are overwritten in place, stored targets
        assigned zero are deleted by position, absent nonzero targets are appended), for pairwise distinct in-bounds targets and any
        values: the result is well-formed — no duplicate, no explicit zero —, keeps the shape, denotes the receiver's array with the
        target cells replaced, and is the same result for every stored order of the receiver.  With the groups in the other order
        (delete first, then write at the stale positions: set_subs_BA) the last statement is FALSE ---- *)
Theorem C06_set_subscripts : forall (V : Type) (v0 : V) (isz : V -> bool), (forall v, isz v = true <-> v = v0) ->
  forall (S : sparse V) (t : list (idx * V)), wf_sp isz S -> NoDup (map fst t) -> (forall e, In e t -> inb (sshape S) (fst e) = true) ->
  (wf_sp isz (set_subs_AB v0 isz S t) /\ sshape (set_subs_AB v0 isz S t) = sshape S) /\
  forall i, den_sp v0 (set_subs_AB v0 isz S t) i = assign_den (den_sp v0 S) t i.
Proof. exact set_subs_AB_correct. Qed.

Theorem C06_set_subscripts_indep : forall (V : Type) (v0 : V) (isz : V -> bool), (forall v, isz v = true <-> v = v0) ->
  forall (S S' : sparse V) (t : list (idx * V)), wf_sp isz S -> wf_sp isz S' -> sshape S' = sshape S ->
  Permutation (entries S) (entries S') -> NoDup (map fst t) -> (forall e, In e t -> inb (sshape S) (fst e) = true) ->
  same_result v0 isz (set_subs_AB v0 isz S t) (set_subs_AB v0 isz S' t).
Proof. exact set_subs_AB_indep. Qed.

(* with the de-duplication step in front (np.unique on the reversed targets: the LAST assignment to a subscript is kept): ANY in-bounds targets *)
Theorem C06_set_subscripts_total : forall (V : Type) (v0 : V) (isz : V -> bool), (forall v, isz v = true <-> v = v0) ->
  forall (S : sparse V) (t : list (idx * V)), wf_sp isz S -> (forall e, In e t -> inb (sshape S) (fst e) = true) ->
  (wf_sp isz (set_subscripts v0 isz S t) /\ sshape (set_subscripts v0 isz S t) = sshape S) /\
  forall i, den_sp v0 (set_subscripts v0 isz S t) i = assign_den (den_sp v0 S) t i.
Proof. exact set_subscripts_correct. Qed.

Theorem C06_set_subscripts_total_indep : forall (V : Type) (v0 : V) (isz : V -> bool), (forall v, isz v = true <-> v = v0) ->
  forall (S S' : sparse V) (t : list (idx * V)), wf_sp isz S -> wf_sp isz S' -> sshape S' = sshape S ->
  Permutation (entries S) (entries S') -> (forall e, In e t -> inb (sshape S) (fst e) = true) ->
  same_result v0 isz (set_subscripts v0 isz S t) (set_subscripts v0 isz S' t).
Proof. exact set_subscripts_indep. Qed.

Theorem C06_set_subscripts_delete_first_refuted :
  ~ (forall (S S' : sparse Z) (t : list (idx * Z)), wf_sp zisz S -> wf_sp zisz S' -> sshape S' = sshape S ->
       Permutation (entries S) (entries S') -> NoDup (map fst t) -> (forall e, In e t -> inb (sshape S) (fst e) = true) ->
       same_result 0%Z zisz (set_subs_BA 0%Z zisz S t) (set_subs_BA 0%Z zisz S' t)).
Proof. exact set_subs_BA_order_dependent. Qed.

Section C06W5ring.
Variable V : Type.
Variables (v0 v1 : V) (vadd vmul vsub : V -> V -> V) (vopp : V -> V).
Hypothesis Vring : ring_theory v0 v1 vadd vmul vsub vopp (@eq V).
Variable isz : V -> bool.
Hypothesis isz_spec : forall v, isz v = true <-> v = v0.
Notation den := (den_sp v0).
Notation wf := (wf_sp isz).

(* ---- the linear-time evaluators of the huge correspondence cases (one simultaneous walk over two coordinate lists whose subscripts
        ascend strictly): the walk's inner product IS the sum over all subscripts of the shape and what the transliteration of
        sptensor.innerprod(sptensor) computes; the walk's product list is a well-formed ascending sparse tensor denoting the product of
        the two arrays, the same result as C03's transliteration of sparse * sparse ---- *)
Theorem C06_walk_innerprod : forall A B : sparse V, wf A -> wf B -> ssorted (ssubs A) -> ssorted (ssubs B) -> sshape A = sshape B ->
  minner v0 vadd vmul (entries A) (entries B) = spec_innerprod v0 vadd vmul (den A) (den B) (sshape A) /\
  minner v0 vadd vmul (entries A) (entries B) = impl_innerprod_sp_sp v0 vadd vmul A B.
Proof. exact (minner_innerprod V v0 v1 vadd vmul vsub vopp Vring isz). Qed.

Theorem C06_walk_mul : forall A B : sparse V, wf A -> wf B -> ssorted (ssubs A) -> ssorted (ssubs B) -> sshape A = sshape B ->
  wf (mmul_sp V vmul isz A B) /\ ssorted (ssubs (mmul_sp V vmul isz A B)) /\
  (forall i, den (mmul_sp V vmul isz A B) i = vmul (den A i) (den B i)) /\
  same_result v0 isz (mmul_sp V vmul isz A B) (impl_mul v0 isz vmul A B).
Proof. exact (mmul_sp_all V v0 v1 vadd vmul vsub vopp Vring isz isz_spec). Qed.

(* ---- sptensor.innerprod with a Kruskal operand (per component a ttv over all modes with the factor columns, accumulated with the
        weights): the returned number IS the sum over all subscripts of S(i) * K(i) (wave 4 proved its independence of the stored order) ---- *)
Theorem C06_innerprod_kruskal_value : forall (S : sparse V) (K : ktensor V), wf S -> sshape S = kshape K ->
  impl_innerprod_sp_k v0 v1 vadd vmul S K = spec_innerprod v0 vadd vmul (den S) (den_k v0 v1 vadd vmul K) (sshape S).
Proof. exact (innerprod_sp_k_correct V v0 v1 vadd vmul vsub vopp Vring isz). Qed.

(* ---- sptenmat.from_array of a DENSE matrix (C01's transliteration from_array_dense, the model the generator cases are tied to; C01's
        theorem re-exported like C06_stm_from_coo): the sptenmat denotes the matrix and is a well-formed, strictly sorted triple list
        whose to_sptensor() is well-formed (stm_converse_concl) ---- *)
Theorem C06_stm_from_dense : forall (A : dense V) R C rd cd ts M, wf_dense A -> dshape A = [R; C] ->
  from_array_dense v0 vadd isz A rd cd ts = Some M -> rd <> None \/ cd <> None ->
  (forall rc, den (stm_sp M) rc = den_dense v0 A rc) /\
  exists subs vals, stm_converse_concl V v0 vadd isz subs vals ts M.
Proof. exact (from_array_dense_correct V v0 v1 vadd vmul vsub vopp isz Vring isz_spec). Qed.
End C06W5ring.

(* the boolean checkers evaluated on pyttb's huge observations are sound: a passing innerprod observation is the defining sum, a passing
   sparse * sparse observation is well-formed, denotes the product and is the transliteration's result up to stored order *)
Theorem C06_huge_inner_sound : forall (A B : sparse Z) (q : list Qc), huge_inner_ok A B q = true ->
  wf_sp zisz A /\ wf_sp zisz B /\
  scalar_is q (spec_innerprod 0%Z Z.add Z.mul (zden_sp A) (zden_sp B) (sshape A)) = true /\
  scalar_is q (impl_innerprod_sp_sp 0%Z Z.add Z.mul A B) = true.
Proof. exact huge_inner_sound. Qed.

Theorem C06_huge_mul_sound : forall A B X : sparse Z, huge_mul_ok A B X = true ->
  wf_sp zisz A /\ wf_sp zisz B /\ wf_sp zisz X /\ sshape X = sshape A /\
  (forall i, zden_sp X i = (zden_sp A i * zden_sp B i)%Z) /\ same_result 0%Z zisz X (impl_mul 0%Z zisz Z.mul A B).
Proof. exact huge_mul_sound. Qed.

Print Assumptions C06_from_aggregator_any_reducer_indep.
Print Assumptions C06_reducers_perm_inv.
Print Assumptions C06_from_aggregator_reducers_indep.
Print Assumptions C06_cont_collapse_reducer_indep.
Print Assumptions C06_cont_collapse_reducer_wf.
Print Assumptions C06_sptendiag.
Print Assumptions C06_set_subscripts.
Print Assumptions C06_set_subscripts_indep.
Print Assumptions C06_set_subscripts_total.
Print Assumptions C06_set_subscripts_total_indep.
Print Assumptions C06_set_subscripts_delete_first_refuted.
Print Assumptions C06_walk_innerprod.
Print Assumptions C06_walk_mul.
Print Assumptions C06_innerprod_kruskal_value.
Print Assumptions C06_stm_from_dense.
Print Assumptions C06_huge_inner_sound.
Print Assumptions C06_huge_mul_sound.

(* non-vacuity *)
Local Open Scope Z_scope.
(* from_aggregator with max / min / prod / len / first on rows that repeat (0,0) and (1,1): the same rows in another order give the same
   result for the first four, a different one for `first` *)
Example C06_reducers_example :
  let s := [2; 2]%nat in
  let r1 := [[0; 0]; [1; 1]; [0; 0]; [1; 1]; [0; 1]]%nat in let v1 := [3; -2; 5; -7; 4] in
  let r2 := [[1; 1]; [0; 1]; [0; 0]; [1; 1]; [0; 0]]%nat in let v2 := [-7; 4; 5; -2; 3] in
  from_aggregator zisz red_max s r1 v1 = mkSp s [[0; 0]; [0; 1]; [1; 1]]%nat [5; 4; -2] /\
  from_aggregator zisz red_max s r2 v2 = mkSp s [[0; 0]; [0; 1]; [1; 1]]%nat [5; 4; -2] /\
  from_aggregator zisz red_min s r1 v1 = mkSp s [[0; 0]; [0; 1]; [1; 1]]%nat [3; 4; -7] /\
  from_aggregator zisz red_prod s r2 v2 = mkSp s [[0; 0]; [0; 1]; [1; 1]]%nat [15; 4; 14] /\
  from_aggregator zisz red_len s r1 v1 = mkSp s [[0; 0]; [0; 1]; [1; 1]]%nat [2; 1; 2] /\
  from_aggregator zisz red_first s r1 v1 = mkSp s [[0; 0]; [0; 1]; [1; 1]]%nat [3; 4; -2] /\
  from_aggregator zisz red_first s r2 v2 = mkSp s [[0; 0]; [0; 1]; [1; 1]]%nat [5; 4; -7].
Proof. vm_compute. repeat split; reflexivity. Qed.

(* collapse with max on a 2x3x2 tensor holding negative values: over all modes, onto mode 1 (0 where nothing is stored), over mode 1 *)
Example C06_collapse_reducer_example :
  let S := mkSp [2; 3; 2]%nat [[0; 0; 0]; [1; 0; 1]; [1; 2; 1]; [0; 2; 0]]%nat [-3; -2; 5; 4] in
  cont_collapse_f 0 zisz red_max S [0; 1; 2]%nat = KNum 5 /\
  cont_collapse_f 0 zisz red_max S [0; 2]%nat = KDen (mkDense [3]%nat [-2; 0; 5]) /\
  cont_collapse_f 0 zisz red_min S [1]%nat = KSp (mkSp [2; 2]%nat [[0; 0]; [1; 1]]%nat [-3; -2]).
Proof. vm_compute. repeat split; reflexivity. Qed.

(* one call that overwrites [1], deletes [0] (and creates [3] / assigns zero to the absent [4]) on two stored orders of one 5-vector: the
   positional model agrees up to stored order; deleting first writes -5 onto the wrong entry for the first order only *)
Example C06_set_subscripts_example :
  let S1 := mkSp [5]%nat [[0]; [1]; [2]]%nat [1; 5; -2] in
  let S2 := mkSp [5]%nat [[2]; [0]; [1]]%nat [-2; 1; 5] in
  let t := [([1]%nat, -5); ([0]%nat, 0); ([3]%nat, 7); ([4]%nat, 0)] in
  set_subs_AB 0 zisz S1 t = mkSp [5]%nat [[1]; [2]; [3]]%nat [-5; -2; 7] /\
  set_subs_AB 0 zisz S2 t = mkSp [5]%nat [[2]; [1]; [3]]%nat [-2; -5; 7] /\
  set_subs_BA 0 zisz S1 t = mkSp [5]%nat [[1]; [2]; [3]]%nat [5; -5; 7] /\
  set_subs_BA 0 zisz S2 t = mkSp [5]%nat [[2]; [1]; [3]]%nat [-2; 5; 7] /\
  set_subscripts 0 zisz S2 (([1]%nat, 9) :: t ++ [([3]%nat, 0)]) = mkSp [5]%nat [[2]; [1]]%nat [-2; -5].
Proof. vm_compute. repeat split; reflexivity. Qed.

(* sptendiag([4; 0; 7]) without a shape and with the requested shape (2, 5): the zero element is not stored *)
Example C06_sptendiag_example :
  impl_sptendiag 0 Z.add zisz [4; 0; 7] None = mkSp [3; 3; 3]%nat [[0; 0; 0]; [2; 2; 2]]%nat [4; 7] /\
  impl_sptendiag 0 Z.add zisz [4; 0; 7] (Some [2; 5]%nat) = mkSp [3; 5]%nat [[0; 0]; [2; 2]]%nat [4; 7].
Proof. vm_compute. repeat split; reflexivity. Qed.

(* the walk on two ascending 2x3 operands: common subscripts (0,1) and (1,2); a zero product cannot arise in Z, a cancelling one is dropped
   in Z/6 — here plain Z *)
Example C06_walk_example :
  let A := mkSp [2; 3]%nat [[0; 1]; [1; 0]; [1; 2]]%nat [2; 5; -3] in
  let B := mkSp [2; 3]%nat [[0; 0]; [0; 1]; [1; 2]]%nat [7; 4; 6] in
  minner 0 Z.add Z.mul (entries A) (entries B) = -10 /\
  mmul Z.mul zisz (entries A) (entries B) = [([0; 1]%nat, 8); ([1; 2]%nat, -18)] /\
  huge_mul_ok A B (mkSp [2; 3]%nat [[0; 1]; [1; 2]]%nat [8; -18]) = true /\
  huge_mul_ok A B (mkSp [2; 3]%nat [[1; 2]; [0; 1]]%nat [-18; 8]) = false.
Proof. vm_compute. repeat split; reflexivity. Qed.
