(* Proofs/C01Kruskal.v — ktensor.full: the Khatri-Rao based algorithm computes den_k, for every split point. *)
From Coq Require Import List Arith Lia Bool Permutation Ring.
From PV Require Import Base.Index Base.Perm Base.Sum Np.Array Model.Sparse Model.Repr Model.C07Ops Model.C01Conv
  Proofs.C07Index Proofs.C07Proofs.
Import ListNotations.

Lemma nth_flat_map_uniform {A B} (f : A -> list B) m (l : list A) a b d dl :
  (forall x, length (f x) = m) -> a < m -> b < length l ->
  nth (a + m * b) (flat_map f l) d = nth a (f (nth b l dl)) d.
Proof.
  intros Hf Ha. revert b; induction l as [|x l IH]; intros b Hb; cbn in Hb; [lia|]. cbn [flat_map].
  destruct b as [|b].
  - rewrite Nat.mul_0_r, Nat.add_0_r. rewrite app_nth1 by (rewrite Hf; lia). reflexivity.
  - rewrite app_nth2 by (rewrite Hf; nia). rewrite Hf.
    replace (a + m * S b - m) with (a + m * b) by nia. cbn [nth]. apply IH. lia.
Qed.

Lemma length_flat_map_uniform {A B} (f : A -> list B) m (l : list A) :
  (forall x, length (f x) = m) -> length (flat_map f l) = m * length l.
Proof. intros Hf. induction l as [|x l IH]; cbn; [lia|]. rewrite app_length, Hf, IH. lia. Qed.

Section Kr.
Variable V : Type.
Variables (v0 v1 : V) (vadd vmul vsub : V -> V -> V) (vopp : V -> V).
Hypothesis Vring : ring_theory v0 v1 vadd vmul vsub vopp (@eq V).
Add Ring Vr01k : Vring.
Notation mat := (matrix (V:=V)).

Lemma nth_map_seq (g : nat -> V) R r : r < R -> nth r (map g (seq 0 R)) v0 = g r.
Proof.
  intros H. rewrite (nth_indep _ v0 (g 0)) by (now rewrite map_length, seq_length).
  rewrite (map_nth g). now rewrite seq_nth.
Qed.

Lemma vmul2_nth (x y : list V) k : k < length x -> k < length y ->
  nth k (vmul2 vmul x y) v0 = vmul (nth k x v0) (nth k y v0).
Proof. revert y k; induction x as [|a x IH]; intros [|b y] [|k] Hx Hy; cbn in *; try lia; auto. apply IH; lia. Qed.

Lemma vmul2_length (x y : list V) : length (vmul2 vmul x y) = Nat.min (length x) (length y).
Proof. unfold vmul2. now rewrite map_length, combine_length. Qed.

Lemma vmul2_as_map (x y : list V) R : length x = R -> length y = R ->
  vmul2 vmul x y = map (fun r => vmul (nth r x v0) (nth r y v0)) (seq 0 R).
Proof.
  intros Hx Hy. apply (nth_ext _ _ v0 v0).
  - rewrite vmul2_length, map_length, seq_length. lia.
  - intros k Hk. rewrite vmul2_length in Hk. rewrite vmul2_nth by lia. rewrite nth_map_seq by lia. reflexivity.
Qed.

Lemma kr2_length (P M : mat) : length (kr2 vmul P M) = length M * length P.
Proof. unfold kr2. apply length_flat_map_uniform. intros x. now rewrite map_length. Qed.

Lemma kr2_row (P M : mat) a b : a < length M -> b < length P ->
  nth (a + length M * b) (kr2 vmul P M) [] = vmul2 vmul (nth a M []) (nth b P []).
Proof.
  intros Ha Hb. unfold kr2.
  rewrite (nth_flat_map_uniform _ (length M) P a b [] []) by (auto; intros; now rewrite map_length).
  rewrite (nth_indep _ [] ((fun mrow => vmul2 vmul mrow (nth b P [])) [])) by (now rewrite map_length).
  now rewrite (map_nth (fun mrow => vmul2 vmul mrow (nth b P []))).
Qed.

(* the product with the FIRST matrix varying fastest (what reverse=True computes) *)
Fixpoint kr_struct (As : list mat) : mat :=
  match As with
  | [] => []
  | A :: rest => match rest with [] => A | _ => kr2 vmul (kr_struct rest) A end
  end.

Lemma khatrirao_rev_struct (As : list mat) : As <> [] -> khatrirao_rev vmul As = Some (kr_struct As).
Proof.
  induction As as [|A rest IH]; [congruence|]. intros _. unfold khatrirao_rev in *.
  destruct rest as [|B rest']; [reflexivity|].
  specialize (IH ltac:(discriminate)). cbn [rev] in *.
  destruct (rev rest' ++ [B]) as [|M tl] eqn:E; [destruct (rev rest'); discriminate|].
  cbn [app khatrirao] in *. rewrite fold_left_app. cbn [fold_left]. inversion IH as [IH']. rewrite IH'. reflexivity.
Qed.

Definition rows_ok (R : nat) (As : list mat) : Prop := Forall (fun A => Forall (fun row => length row = R) A) As.

Lemma kr_struct_spec R (As : list mat) : As <> [] -> rows_ok R As ->
  length (kr_struct As) = size (map (nrows (V:=V)) As) /\
  forall i, inb (map (nrows (V:=V)) As) i = true ->
    nth (sub2ind (map (nrows (V:=V)) As) i) (kr_struct As) [] = map (fun r => kprod v0 v1 vmul As i r) (seq 0 R).
Proof.
  induction As as [|A rest IH]; [congruence|]. intros _ Hok. inversion Hok as [|? ? HA Hrest]; subst.
  destruct rest as [|B rest'].
  - cbn [kr_struct map]. split; [rewrite size_cons; cbn; unfold nrows; lia|].
    intros [|x [|y i]] Hi; cbn [inb] in Hi; try discriminate; try (rewrite andb_false_r in Hi; discriminate).
    rewrite andb_true_r in Hi. apply Nat.ltb_lt in Hi. unfold nrows in Hi.
    cbn [sub2ind]. rewrite Nat.mul_0_r, Nat.add_0_r.
    assert (HL : length (nth x A []) = R). { rewrite Forall_forall in HA. apply HA. now apply nth_In. }
    apply (nth_ext _ _ v0 v0); [now rewrite map_length, seq_length|].
    intros r Hr. rewrite HL in Hr. rewrite nth_map_seq by auto. cbn [kprod]. unfold mget. ring.
  - destruct (IH ltac:(discriminate) Hrest) as [IHl IHr]. clear IH.
    set (rest := B :: rest') in *. change (kr_struct (A :: rest)) with (kr2 vmul (kr_struct rest) A).
    cbn [map]. split; [rewrite kr2_length, size_cons, IHl; unfold nrows; lia|].
    intros [|x i] Hi; cbn [inb] in Hi; try discriminate.
    apply andb_true_iff in Hi as [Hx Hi]. apply Nat.ltb_lt in Hx. unfold nrows in Hx at 1.
    cbn [sub2ind]. unfold nrows at 1.
    pose proof (sub2ind_lt _ _ Hi) as Hlt. rewrite <- IHl in Hlt.
    rewrite kr2_row by auto. rewrite IHr by auto.
    assert (HL : length (nth x A []) = R). { rewrite Forall_forall in HA. apply HA. now apply nth_In. }
    rewrite (vmul2_as_map _ _ R) by (auto; now rewrite map_length, seq_length).
    apply map_ext_in. intros r Hr. apply in_seq in Hr. rewrite nth_map_seq by lia. reflexivity.
Qed.

Lemma kprod_app (A1 A2 : list mat) i1 i2 r : length i1 = length A1 ->
  kprod v0 v1 vmul (A1 ++ A2) (i1 ++ i2) r = vmul (kprod v0 v1 vmul A1 i1 r) (kprod v0 v1 vmul A2 i2 r).
Proof.
  revert i1; induction A1 as [|A A1 IH]; intros [|x i1] H; cbn in H; try discriminate.
  - cbn. ring.
  - cbn [app kprod]. rewrite IH by lia. ring.
Qed.

Lemma dotv_as_sum (x y : list V) R : length x = R -> length y = R ->
  dotv v0 vadd vmul x y = sum_n v0 vadd R (fun r => vmul (nth r x v0) (nth r y v0)).
Proof. intros Hx Hy. unfold dotv. rewrite (vmul2_as_map x y R) by auto. reflexivity. Qed.

Lemma firstn_skipn_inb (s : shape) i k : inb s i = true ->
  inb (firstn k s) (firstn k i) = true /\ inb (skipn k s) (skipn k i) = true.
Proof.
  revert i k; induction s as [|d s IH]; intros [|x i] [|k] H; cbn [inb] in H; try discriminate; cbn [firstn skipn inb]; auto.
  apply andb_true_iff in H as [Hx Hi]. destruct (IH i k Hi) as [H1 H2]. rewrite Hx, H1. auto.
Qed.

Theorem ktensor_full_at_correct (K : ktensor V) isplit :
  rows_ok (krank K) (kfactors K) -> 0 < isplit < length (kfactors K) ->
  exists D, ktensor_full_at v0 vadd vmul K isplit = Some D /\ wf_dense D /\ dshape D = kshape K /\
    forall i, den_dense v0 D i = den_k v0 v1 vadd vmul K i.
Proof.
  intros Hok Hsp. set (As := kfactors K) in *. set (R := krank K) in *.
  set (A1 := firstn isplit As). set (A2 := skipn isplit As).
  assert (HA : As = A1 ++ A2) by (symmetry; apply firstn_skipn).
  assert (L1 : length A1 = isplit) by (unfold A1; rewrite firstn_length; lia).
  assert (N1 : A1 <> []) by (intro E; rewrite E in L1; cbn in L1; lia).
  assert (N2 : A2 <> []). { intro E. assert (length As = length A1 + length A2) by (rewrite HA at 1; apply app_length). rewrite E in H. cbn in H. lia. }
  assert (Hok1 : rows_ok R A1). { unfold rows_ok in *. rewrite HA in Hok. now apply Forall_app in Hok. }
  assert (Hok2 : rows_ok R A2). { unfold rows_ok in *. rewrite HA in Hok. now apply Forall_app in Hok. }
  destruct (kr_struct_spec R A1 N1 Hok1) as [Ll Lr]. destruct (kr_struct_spec R A2 N2 Hok2) as [Rl Rr].
  unfold ktensor_full_at. fold As A1 A2. rewrite (khatrirao_rev_struct A1 N1), (khatrirao_rev_struct A2 N2).
  set (L := kr_struct A1) in *. set (Rm := kr_struct A2) in *.
  set (M := matmul_t v0 vadd vmul (scale_cols vmul L (kweights K)) Rm).
  set (s1 := map (nrows (V:=V)) A1) in *. set (s2 := map (nrows (V:=V)) A2) in *.
  assert (Hs : kshape K = s1 ++ s2). { unfold kshape. fold As. rewrite HA. apply map_app. }
  eexists; split; [reflexivity|]. split; [apply wf_tabulate|]. split; [reflexivity|].
  intros i. unfold den_k. fold As R.
  destruct (inb (kshape K) i) eqn:Hi; [|now apply den_tabulate_out].
  set (Dm := matrix_to_dense v0 M (length L) (length Rm)).
  assert (Hsz : size (kshape K) = size (dshape Dm)).
  { unfold Dm, matrix_to_dense. rewrite dshape_tabulate, Hs, size_app, !size_cons, Ll, Rl. change (size []) with 1. lia. }
  rewrite den_reshapeF by (auto; apply wf_tabulate).
  (* split the subscript *)
  set (i1 := firstn isplit i). set (i2 := skipn isplit i).
  assert (Hi12 : i = i1 ++ i2) by (symmetry; apply firstn_skipn).
  assert (Ls1 : length s1 = isplit) by (unfold s1; now rewrite map_length).
  assert (Hs1 : s1 = firstn isplit (kshape K)).
  { rewrite Hs, <- Ls1. rewrite firstn_app, Nat.sub_diag, firstn_all. cbn [firstn]. now rewrite app_nil_r. }
  assert (Hs2 : s2 = skipn isplit (kshape K)).
  { rewrite Hs, <- Ls1. rewrite skipn_app, Nat.sub_diag, skipn_all. reflexivity. }
  destruct (firstn_skipn_inb _ _ isplit Hi) as [Hb1 Hb2]. rewrite <- Hs1 in Hb1. rewrite <- Hs2 in Hb2. fold i1 in Hb1. fold i2 in Hb2.
  pose proof (sub2ind_lt _ _ Hb1) as Lt1. pose proof (sub2ind_lt _ _ Hb2) as Lt2. rewrite <- Ll in Lt1. rewrite <- Rl in Lt2.
  set (a := sub2ind s1 i1) in *. set (b := sub2ind s2 i2) in *.
  assert (Hlin : sub2ind (kshape K) i = sub2ind [length L; length Rm] [a; b]).
  { rewrite Hs, Hi12 at 1. rewrite sub2ind_app by (apply inb_length in Hb1; auto). cbn [sub2ind]. fold a b. rewrite Ll. lia. }
  assert (Hab : inb [length L; length Rm] [a; b] = true).
  { cbn [inb]. apply Nat.ltb_lt in Lt1, Lt2. now rewrite Lt1, Lt2. }
  change (dshape Dm) with [length L; length Rm]. rewrite Hlin, ind2sub_sub2ind by auto.
  unfold Dm, matrix_to_dense. rewrite den_tabulate by auto. cbn [nth].
  (* the matrix entry *)
  unfold mget, M, matmul_t, scale_cols.
  rewrite (nth_indep _ [] ((fun ra => map (fun rb => dotv v0 vadd vmul ra rb) Rm) [])) by (rewrite !map_length; auto).
  rewrite (map_nth (fun ra => map (fun rb => dotv v0 vadd vmul ra rb) Rm)).
  rewrite (nth_indep _ v0 ((fun rb => dotv v0 vadd vmul (nth a (map (fun row => vmul2 vmul row (kweights K)) L) []) rb) [])) by (rewrite map_length; auto).
  rewrite (map_nth (fun rb => dotv v0 vadd vmul (nth a (map (fun row => vmul2 vmul row (kweights K)) L) []) rb)).
  rewrite (nth_indep _ [] ((fun row => vmul2 vmul row (kweights K)) [])) by (rewrite map_length; auto).
  rewrite (map_nth (fun row => vmul2 vmul row (kweights K))).
  unfold a, b. rewrite Lr, Rr by auto.
  rewrite (vmul2_as_map _ _ R) by (try reflexivity; now rewrite map_length, seq_length).
  rewrite (dotv_as_sum _ _ R) by (now rewrite map_length, seq_length).
  apply sum_n_ext. intros r Hr. rewrite !nth_map_seq by auto.
  rewrite HA, Hi12. rewrite kprod_app by (apply inb_length in Hb1; unfold s1 in Hb1; rewrite map_length in Hb1; auto). ring.
Qed.

(* min_split_dims returns an admissible split point whenever there are at least two modes *)
Lemma argmin_from_bound l k best bestk : bestk < k -> argmin_from l k best bestk < k + length l.
Proof.
  revert k best bestk; induction l as [|x l IH]; intros k best bestk H; cbn [argmin_from length]; [lia|].
  destruct (x <? best).
  - specialize (IH (S k) x k). lia.
  - specialize (IH (S k) best bestk). lia.
Qed.

Lemma min_split_dims_range s i : min_split_dims s = Some i -> 0 < i < length s.
Proof.
  unfold min_split_dims. destruct (length s - 1) as [|n] eqn:E; cbn [seq map]; [discriminate|].
  intros H. inversion H as [H']. clear H H'. assert (H01 : 0 < 1) by lia.
  match goal with |- context [argmin_from ?l 1 ?x 0] =>
    pose proof (argmin_from_bound l 1 x 0 H01) as B; assert (HL : length l = n) by (now rewrite map_length, seq_length) end.
  lia.
Qed.

Lemma min_split_dims_some s : 2 <= length s -> exists i, min_split_dims s = Some i.
Proof.
  intros H. unfold min_split_dims. destruct (length s - 1) as [|n] eqn:E; [lia|]. cbn [seq map]. eauto.
Qed.

(* the single-mode branch: factor_matrices[0] @ weights *)
Lemma ktensor_full_1way_correct (K : ktensor V) A : kfactors K = [A] -> rows_ok (krank K) (kfactors K) ->
  wf_dense (ktensor_full_1way v0 vadd vmul K A) /\ dshape (ktensor_full_1way v0 vadd vmul K A) = kshape K /\
  forall i, den_dense v0 (ktensor_full_1way v0 vadd vmul K A) i = den_k v0 v1 vadd vmul K i.
Proof.
  intros HA Hok. rewrite HA in Hok. inversion Hok as [|? ? HAr _]; subst.
  assert (Hs : kshape K = [length A]) by (unfold kshape; rewrite HA; reflexivity).
  split; [|split; [reflexivity|]].
  - unfold wf_dense, ktensor_full_1way. cbn [ddata dshape]. rewrite map_length, Hs, size_cons. change (size []) with 1. lia.
  - intros i. unfold den_k, den_dense, ktensor_full_1way. cbn [dshape ddata]. rewrite Hs.
    destruct (inb [length A] i) eqn:Hi; [|reflexivity].
    destruct i as [|x [|y i]]; cbn [inb] in Hi; try discriminate; try (rewrite andb_false_r in Hi; discriminate).
    rewrite andb_true_r in Hi. apply Nat.ltb_lt in Hi.
    cbn [sub2ind]. rewrite Nat.mul_0_r, Nat.add_0_r.
    rewrite (nth_indep _ v0 ((fun row => dotv v0 vadd vmul row (kweights K)) [])) by (now rewrite map_length).
    rewrite (map_nth (fun row => dotv v0 vadd vmul row (kweights K))).
    assert (HL : length (nth x A []) = krank K). { rewrite Forall_forall in HAr. apply HAr. now apply nth_In. }
    rewrite (dotv_as_sum _ _ (krank K)) by (auto; reflexivity).
    apply sum_n_ext. intros r Hr. rewrite HA. cbn [kprod]. unfold mget. ring.
Qed.

Theorem ktensor_full_correct (K : ktensor V) :
  rows_ok (krank K) (kfactors K) -> 1 <= length (kfactors K) ->
  exists D, ktensor_full_impl v0 vadd vmul K = Some D /\ wf_dense D /\ dshape D = kshape K /\
    (forall i, den_dense v0 D i = den_k v0 v1 vadd vmul K i) /\
    D = ktensor_full_spec v0 v1 vadd vmul K.
Proof.
  intros Hok HN.
  assert (G : exists D, ktensor_full_impl v0 vadd vmul K = Some D /\ wf_dense D /\ dshape D = kshape K /\
            (forall i, den_dense v0 D i = den_k v0 v1 vadd vmul K i)).
  { unfold ktensor_full_impl. destruct (kfactors K) as [|A [|B rest]] eqn:EA; [cbn in HN; lia| |].
    - rewrite <- EA in Hok. destruct (ktensor_full_1way_correct K A EA Hok) as (W & Hs & Hd). eexists; split; [reflexivity|]. auto.
    - rewrite <- EA in Hok. assert (HL : length (kshape K) = length (kfactors K)) by (unfold kshape; apply map_length).
      assert (H2 : 2 <= length (kshape K)) by (rewrite HL, EA; cbn; lia).
      destruct (min_split_dims_some _ H2) as [isp E]. rewrite E.
      apply min_split_dims_range in E. rewrite HL in E.
      destruct (ktensor_full_at_correct K isp Hok E) as (D & E1 & W & Hs & Hd). exists D. auto. }
  destruct G as (D & E1 & W & Hs & Hd). exists D. repeat (split; auto).
  apply (dense_ext v0); [exact W|apply wf_tabulate|exact Hs|]. intros i Hi. rewrite Hd. unfold ktensor_full_spec.
  rewrite Hs in Hi. now rewrite den_tabulate.
Qed.

End Kr.
