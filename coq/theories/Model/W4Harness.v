(* Model/W4Harness.v — boolean comparers used by the generated correspondence cases of tools/props/w4gen.py
   (results of the functions of Gen/GenKtensor4.v and of the Np/NpZ4.v primitives). *)
From Coq Require Import List ZArith Bool.
From PV Require Import Np.NpZ Np.NpZ2 Np.NpZ3 Np.NpZ4 Model.Harness Model.W4Sptensor.
Import ListNotations.
Local Open Scope Z_scope.

Definition w4_matlist_eqb : list mat -> list mat -> bool := list_eqb mat_eqb.
Definition w4_kt_eqb (a b : ktz) : bool := vec_eqb (kt_weights a) (kt_weights b) && w4_matlist_eqb (kt_factors a) (kt_factors b).
Definition w4_is_err {A} (r : res A) : bool := match r with Err => true | Ok _ => false end.

(* sparse records: equal shape and values; the subscript arrays are equal or both hold nothing (an sptensor without
   stored entries keeps a 1 x 0 / 0 x N placeholder) *)
Definition w4_spt_eqb (a b : sptz) : bool :=
  vec_eqb (spt_shape a) (spt_shape b) && vec_eqb (spt_vals a) (spt_vals b) &&
  (((np_size2 (spt_subs a) =? 0) && (np_size2 (spt_subs b) =? 0)) || mat_eqb (spt_subs a) (spt_subs b)).
