(* Model/C02SpReq.v — sptensor.collapse / sptensor.scale / sptensor.contract / tensor.contract AS CALLED (wave 5): the argument checks in
   front of the kernels of Model/C02SpMore.v / Model/C02Tenmat.v, line by line.

     sptensor.collapse (sptensor.py:505):   dims, _ = tt_dimscheck(self.ndims, dims=dims)            (dims may be None: all modes)
     sptensor.scale    (sptensor.py:1773):  dims, _ = tt_dimscheck(self.ndims, dims=dims)
                                            if self.nnz == 0:            (repairs d89c921 + 98f7017: the shape test comes first for EVERY factor class)
                                                if isinstance(factor, (tensor, sptensor)) and not array_equal(factor.shape, shape[dims]): reject
                                                if isinstance(factor, np.ndarray) and factor.shape != tuple(shape[dims]): reject
                                                return self.copy()
                                            tensor / sptensor factor: if not array_equal(factor.shape, shape[dims]): reject
                                            ndarray factor:           if factor.shape[0] != shape[dims]: reject
     sptensor.contract (sptensor.py:575) and tensor.contract (tensor.py:460):
                                            if not (0 <= i_0 < ndims and 0 <= i_1 < ndims): reject   (sparse: repair db95721)
                                            if shape[i_0] != shape[i_1]: reject
                                            if i_0 == i_1: reject
   tt_dimscheck is the GENERATED function of Gen/GenUtils.v.  Definitions only; proofs in Proofs/C02SpReqProofs.v. *)
From Coq Require Import List ZArith Arith Bool Lia.
From PV Require Import Base.Index Base.Perm Base.Sum Np.NpZ Np.Array Model.Sparse Model.Repr Model.C02Spec Model.C02Dense
                       Model.C02Modes Model.C02Tenmat Model.C02SpMore Gen.GenUtils.
Import ListNotations.

Section Req.
Context {V : Type} (v0 v1 : V) (vadd vmul : V -> V -> V) (isz : V -> bool).

(* the result of sptensor.collapse / contract is given by its value at each output subscript (Model/C02SpMore.v) *)
Definition impl_collapse_sp_req (S : sparse V) (dims : option vec) : res (idx -> V) :=
  match tt_dimscheck (Z.of_nat (length (sshape S))) None dims None with
  | Ok (sd, _) => Ok (impl_collapse_sp v0 vadd S (nats sd))
  | Err => Err
  end.

(* nd = the factor is a 1-d numpy array (fshape = [its length]); otherwise a tensor / sptensor of shape fshape; g = the array it denotes *)
Definition impl_scale_sp_req (S : sparse V) (dims : vec) (nd : bool) (fshape : shape) (g : idx -> V) : res (sparse V) :=
  match tt_dimscheck (Z.of_nat (length (sshape S))) None (Some dims) None with
  | Ok (sd, _) =>
      let want := pick 0 (nats sd) (sshape S) in
      if Nat.eqb (length (ssubs S)) 0
      then (if negb (idx_eqb fshape want) then Err else Ok S)
      else (if idx_eqb fshape want then Ok (impl_scale_sp vmul isz S (nats sd) g) else Err)
  | Err => Err
  end.

Definition contract_args_ok (s : shape) (i0 i1 : Z) : bool :=
  let N := Z.of_nat (length s) in
  ((0 <=? i0)%Z && (i0 <? N)%Z && (0 <=? i1)%Z && (i1 <? N)%Z) &&
  Nat.eqb (nth (Z.to_nat i0) s 0) (nth (Z.to_nat i1) s 0) &&
  negb (i0 =? i1)%Z.

Definition impl_contract_sp_req (S : sparse V) (i0 i1 : Z) : res (idx -> V) :=
  if contract_args_ok (sshape S) i0 i1 then Ok (impl_contract_sp v0 vadd S (Z.to_nat i0) (Z.to_nat i1)) else Err.

Definition impl_contract_dense_req (X : dense V) (i1 i2 : Z) : res (dense V) :=
  if contract_args_ok (dshape X) i1 i2 then Ok (impl_contract_dense v0 vadd X (Z.to_nat i1) (Z.to_nat i2)) else Err.
End Req.
