"""c18_static — the TRUSTED part of the skeleton translator's drop rule, made explicit and checked on every run (C18, printing clause).

tools/pyx2v_skel.py drops print / logging / warnings calls WITHOUT translating their arguments, and assignments to declared
print-only variables without translating their right-hand sides.  Theorems gen_*_print_indep (Proofs/C18GenPrint*.v) therefore say
nothing about an argument expression that has a side effect on the algorithm's state (the in-place normalisation by tt_loglikelihood of
findings C05-N11 / C18-PQNR-PRINT was of that kind).  `scan(src_root)` parses the drivers' source with `ast` and lists, per driver,

  * every CALL that is evaluated only because of printing: calls inside the arguments of print(...) / logging.*(...) / warnings.warn(...)
    anywhere in the driver, and every call inside a statement guarded by an `if` whose test reads a verbosity variable;
  * every assignment TARGET (base variable) inside such a guarded statement.

The observation is compared with the table EXPECTED below: a call or an assigned variable that is not in the table is reported.  The
table IS the trusted base: the calls listed are assumed not to mutate their operands (they are pure reads: norms, inner products,
the log-likelihood since /repo c01a61b), the targets listed are either print-only locals or (cp_als: normresidual, fit) covered by
theorem gen_cp_als_print_factor."""
import ast
import os

VERBOSITY = {"printitn", "printinneritn", "verbosity", "self._printitn", "dispLineWarn", "print_msg"}
PRINTERS = ("print", "logging.info", "logging.debug", "logging.warning", "warnings.warn")
# calls that cannot touch the algorithm's state whatever they are applied to
BUILTIN_PURE = {"len", "sum", "str", "int", "float", "round", "abs", "min", "max", "divmod", "range", "tuple", "list", "sorted",
                "np.max", "np.abs", "np.sqrt", "np.sum", "np.linalg.norm", "np.prod", "np.arange", "time.time", "time.perf_counter"}

NP_WRITING = {"np.put", "np.copyto", "np.place", "np.putmask", "np.fill_diagonal", "np.put_along_axis", "np.seterr", "np.random.seed"}

DRIVERS = [("pyttb/cp_als.py", "cp_als"), ("pyttb/tucker_als.py", "tucker_als"), ("pyttb/hosvd.py", "hosvd"),
           ("pyttb/cp_apr.py", "tt_cp_apr_mu"), ("pyttb/cp_apr.py", "tt_cp_apr_pdnr"), ("pyttb/cp_apr.py", "tt_cp_apr_pqnr"),
           ("pyttb/gcp_opt.py", "gcp_opt"), ("pyttb/gcp/optimizers.py", "StochasticSolver.solve"), ("pyttb/gcp/optimizers.py", "LBFGSB.solve")]


def dotted(node):
    if isinstance(node, ast.Name):
        return node.id
    if isinstance(node, ast.Attribute):
        b = dotted(node.value)
        return None if b is None else b + "." + node.attr
    return None


def _find(tree, qual):
    parts = qual.split(".")
    body = tree.body
    node = None
    for p in parts:
        node = next((n for n in body if isinstance(n, (ast.FunctionDef, ast.ClassDef)) and n.name == p), None)
        if node is None:
            return None
        body = node.body
    return node


def _reads_verbosity(test):
    for n in ast.walk(test):
        d = dotted(n)
        if d in VERBOSITY:
            return True
    return False


def _calls(node, skip_printers=True):
    out = []
    for n in ast.walk(node):
        if isinstance(n, ast.Call):
            d = dotted(n.func) or ("<expr>." + n.func.attr if isinstance(n.func, ast.Attribute) else "<expr>")
            if skip_printers and d in PRINTERS:
                continue
            if d in BUILTIN_PURE:
                continue
            # numpy's module-level functions return new arrays: pure unless they write through an argument (`out=`, the put family) or
            # draw from the global random stream
            if d.startswith("np.") and not d.startswith("np.random.") and d not in NP_WRITING and not any(k.arg == "out" for k in n.keywords):
                continue
            out.append(d)
    return out


def _base(t):
    while isinstance(t, (ast.Subscript, ast.Attribute)) and dotted(t) is None:
        t = t.value
    if isinstance(t, ast.Subscript):
        return _base(t.value)
    return dotted(t)


def _targets(stmt):
    out = []
    for n in ast.walk(stmt):
        tg = []
        if isinstance(n, ast.Assign):
            tg = n.targets
        elif isinstance(n, (ast.AugAssign, ast.AnnAssign)):
            tg = [n.target]
        for t in tg:
            for e in (t.elts if isinstance(t, (ast.Tuple, ast.List)) else [t]):
                b = _base(e)
                if b:
                    out.append(b)
    return out


def scan_function(fn):
    calls, targets = set(), set()
    for n in ast.walk(fn):
        if isinstance(n, ast.Call) and dotted(n.func) in PRINTERS:
            for a in list(n.args) + [k.value for k in n.keywords]:
                calls.update(_calls(a))
        if isinstance(n, ast.If) and _reads_verbosity(n.test):
            # statements of the guarded branch; an `else` branch of a verbosity test is guarded by it as well
            for s in n.body + n.orelse:
                calls.update(_calls(s))
                targets.update(_targets(s))
            calls.update(_calls(n.test))
    return {"calls": sorted(calls), "targets": sorted(targets)}


def scan(src_root):
    out = {}
    for rel, qual in DRIVERS:
        path = os.path.join(src_root, rel)
        try:
            tree = ast.parse(open(path).read())
        except (OSError, SyntaxError) as ex:
            out[qual] = {"error": type(ex).__name__}
            continue
        fn = _find(tree, qual)
        out[qual] = {"error": "function not found"} if fn is None else scan_function(fn)
    return out


# ------------------------------------------------------------------------------------------ the pinned table (= trusted base)
# calls: evaluated only because of printing; assumed free of side effects on their operands.
# targets: variables assigned under a verbosity guard.
EXPECTED = {
    # final `if printitn > 0:` block recomputes normresidual / fit from innerprod on the returned model (finding A-43): the one
    # printing branch that assigns to output - theorem gen_cp_als_print_factor says exactly what it does to the result
    "cp_als": {"calls": ["M.norm", "input_tensor.innerprod"], "targets": ["fit", "normresidual"]},
    # `if not isinstance(printitn, Real): raise ValueError(...)`: argument validation, not a printing branch
    "tucker_als": {"calls": ["ValueError", "isinstance"], "targets": []},
    # `if verbosity > 0:` epilogue: diffnormsqr = ((X - ttensor(G, factors).full()) ** 2).collapse(); relnorm; print_msg (locals of the block)
    "hosvd": {"calls": ["<expr>.collapse", "enumerate", "result.full"], "targets": ["diffnormsqr", "print_msg", "relnorm"]},
    # final `if printitn > 0:` block: least-squares fit for the summary (locals of the block, not in output)
    "tt_cp_apr_mu": {"calls": ["M.norm", "input_tensor.innerprod", "input_tensor.norm"], "targets": ["fit", "normTensor", "normresidual"]},
    # outer status print: fnVals[iteration] = -tt_loglikelihood(X, M) - output["fnVals"] is filled on printed iterations only (not
    # part of the MODEL; Proofs/C18PrintRows.v); tt_loglikelihood works on a copy since /repo c01a61b (findings C05-N11, C18-PQNR-PRINT)
    "tt_cp_apr_pdnr": {"calls": ["M.norm", "input_tensor.innerprod", "input_tensor.norm", "tt_loglikelihood"],
                       "targets": ["fit", "fnVals", "normTensor", "normresidual"]},
    "tt_cp_apr_pqnr": {"calls": ["M.norm", "input_tensor.innerprod", "input_tensor.norm", "tt_loglikelihood"],
                       "targets": ["fit", "fnVals", "normTensor", "normresidual"]},
    # welcome message: names of the objective / optimizer classes
    "gcp_opt": {"calls": ["isinstance", "type"], "targets": ["objective_name", "optimizer_name", "welcome_msg"]},
    "StochasticSolver.solve": {"calls": [], "targets": ["msg"]},
    "LBFGSB.solve": {"calls": [], "targets": []},
}


def unexpected(obs):
    """entries of a scan that the pinned table does not list: [(driver, 'call' | 'target' | 'error', name)]"""
    out = []
    for drv, exp in EXPECTED.items():
        o = obs.get(drv)
        if o is None or "error" in o:
            out.append((drv, "error", (o or {}).get("error", "driver not scanned")))
            continue
        out += [(drv, "call", c) for c in o["calls"] if c not in exp["calls"]]
        out += [(drv, "target", t) for t in o["targets"] if t not in exp["targets"]]
    return out
