#!/bin/sh
# MANIFEST.setup_cmd: build the Coq development from files on disk (offline)
cd "$(dirname "$0")/.." || exit 2
python3 tools/pyx2v.py "${PYTTB_SRC:-/repo}" coq/theories/Gen >/dev/null 2>&1 || cp coq/gen_baseline/*.v coq/theories/Gen/
if [ -f tools/pyx2v_skel.py ]; then python3 tools/pyx2v_skel.py "${PYTTB_SRC:-/repo}" coq/theories/Gen >/dev/null 2>&1 || cp coq/gen_baseline/*.v coq/theories/Gen/; fi
/venv/bin/python -c 'import sys; sys.path.insert(0, "tools"); import vcheck; vcheck.ensure_makefile()' || exit 2
cd coq || exit 2
timeout 3000 make -k -j16 2>&1 | grep -v '^Closed under the global context' | tail -40
test -f theories/Props/C17.vo
