(* Props/C02w5.v — property C02, wave 5: sptensor.collapse / sptensor.scale / sptensor.contract / tensor.contract AS CALLED — the argument
   checks in front of the kernels (collapse / scale: the GENERATED tt_dimscheck of Gen/GenUtils.v; scale: the shape test of the factor, which
   since d89c921 precedes the "nothing stored" early return; contract: the range test of db95721 / d384651, equal sizes, distinct modes).
   An admissible request is accepted and returns the defining sum; a request outside the domain is rejected.
   Only statements, `exact`, Print Assumptions (and closed Examples).  Proofs: Proofs/C02SpReqProofs.v. *)
From Coq Require Import List Arith Bool ZArith Ring.
From PV Require Import Base.Index Base.Perm Base.Sum Np.Array Model.Sparse Model.Repr Model.C02Spec Model.C02Dense
                       Np.NpZ Gen.GenUtils Model.C02Modes Model.C02SpMore Model.C02Tenmat Model.C02SpReq Proofs.UtilsProofs Proofs.C02SpReqProofs.
Import ListNotations.

Section C02w5.
Variable V : Type.
Variables (v0 v1 : V) (vadd vmul vsub : V -> V -> V) (vopp : V -> V).
Hypothesis Vring : ring_theory v0 v1 vadd vmul vsub vopp (@eq V).
Variable isz : V -> bool.

(* sptensor.collapse(dims) as called (default reducer): accepted, and the value at every output subscript is the sum over the modes exactly as
   the caller listed them (any order) *)
Theorem C02_collapse_sparse_req_caller : forall (S : sparse V) (d : vec), wf_sp isz S ->
  dims_ok (Z.of_nat (length (sshape S))) None d ->
  exists k, impl_collapse_sp_req v0 vadd S (Some d) = Ok k /\
    forall i', inb (ttv_shape (sshape S) (nats d)) i' = true ->
      k i' = spec_collapse v0 vadd (den_sp v0 S) (sshape S) (nats d) i'.
Proof. exact (collapse_sparse_req_caller V v0 v1 vadd vmul vsub vopp Vring isz). Qed.

(* sptensor.collapse() (dims=None): tt_dimscheck's default = all modes *)
Theorem C02_collapse_sparse_req_all : forall (S : sparse V), wf_sp isz S ->
  exists k, impl_collapse_sp_req v0 vadd S None = Ok k /\
    forall i', inb (ttv_shape (sshape S) (seq 0 (length (sshape S)))) i' = true ->
      k i' = spec_collapse v0 vadd (den_sp v0 S) (sshape S) (seq 0 (length (sshape S))) i'.
Proof. exact (collapse_sparse_req_all V v0 v1 vadd vmul vsub vopp Vring isz). Qed.

Theorem C02_collapse_sparse_req_rejects : forall (S : sparse V) (d : vec),
  ~ NoDup d \/ (exists x, In x d /\ ~ (0 <= x < Z.of_nat (length (sshape S)))%Z) ->
  impl_collapse_sp_req v0 vadd S (Some d) = Err.
Proof. exact (collapse_sparse_req_rejects V v0 vadd). Qed.

(* sptensor.scale(factor, dims) as called: a factor of shape shape[sorted dims] is accepted (1-d ndarray or tensor / sptensor, receiver with or
   without stored entries); the result is well formed and denotes the scaled array *)
Theorem C02_scale_sparse_req : (forall v, isz v = true <-> v = v0) ->
  forall (S : sparse V) (d : vec) (nd : bool) (fshape : shape) (g : idx -> V), wf_sp isz S ->
  dims_ok (Z.of_nat (length (sshape S))) None d ->
  fshape = pick 0 (nats (np_sort d)) (sshape S) ->
  exists R, impl_scale_sp_req vmul isz S d nd fshape g = Ok R /\
    sshape R = sshape S /\ wf_sp isz R /\
    forall i, den_sp v0 R i = spec_scale vmul (den_sp v0 S) (nats (np_sort d)) g i.
Proof. exact (scale_sparse_req V v0 v1 vadd vmul vsub vopp Vring isz). Qed.

(* d89c921 + 98f7017: an ill-shaped factor of EVERY class (nd = 1-d numpy array, otherwise tensor / sptensor) is rejected by EVERY receiver — also by
   one that stores no entry *)
Theorem C02_scale_sparse_req_rejects_shape : forall (S : sparse V) (d : vec) (nd : bool) (fshape : shape) (g : idx -> V),
  dims_ok (Z.of_nat (length (sshape S))) None d ->
  fshape <> pick 0 (nats (np_sort d)) (sshape S) ->
  impl_scale_sp_req vmul isz S d nd fshape g = Err.
Proof. exact (scale_sparse_req_rejects_shape V vmul isz). Qed.

Theorem C02_scale_sparse_req_rejects_dims : forall (S : sparse V) (d : vec) nd (fshape : shape) (g : idx -> V),
  ~ NoDup d \/ (exists x, In x d /\ ~ (0 <= x < Z.of_nat (length (sshape S)))%Z) ->
  impl_scale_sp_req vmul isz S d nd fshape g = Err.
Proof. exact (scale_sparse_req_rejects_dims V vmul isz). Qed.

(* sptensor.contract(i0, i1) / tensor.contract(i1, i2) as called (integer arguments): in-range, distinct, equally sized modes are accepted
   and give the trace over the two modes; everything else — negative modes included (db95721) — is rejected *)
Theorem C02_contract_sparse_req : forall (S : sparse V) (i0 i1 : Z), wf_sp isz S ->
  (0 <= i0 < Z.of_nat (length (sshape S)))%Z -> (0 <= i1 < Z.of_nat (length (sshape S)))%Z -> i0 <> i1 ->
  nth (Z.to_nat i0) (sshape S) 0 = nth (Z.to_nat i1) (sshape S) 0 ->
  exists k, impl_contract_sp_req v0 vadd S i0 i1 = Ok k /\
    forall i', inb (ttv_shape (sshape S) [Z.to_nat i0; Z.to_nat i1]) i' = true ->
      k i' = spec_contract v0 vadd (den_sp v0 S) (sshape S) (Z.to_nat i0) (Z.to_nat i1) i'.
Proof. exact (contract_sparse_req V v0 v1 vadd vmul vsub vopp Vring isz). Qed.

Theorem C02_contract_sparse_req_rejects : forall (S : sparse V) (i0 i1 : Z),
  ~ ((0 <= i0 < Z.of_nat (length (sshape S)))%Z /\ (0 <= i1 < Z.of_nat (length (sshape S)))%Z /\
     nth (Z.to_nat i0) (sshape S) 0 = nth (Z.to_nat i1) (sshape S) 0 /\ i0 <> i1) ->
  impl_contract_sp_req v0 vadd S i0 i1 = Err.
Proof. exact (contract_sparse_req_rejects V v0 vadd). Qed.

Theorem C02_contract_dense_req : forall (X : dense V) (i1 i2 : Z), wf_dense X ->
  (0 <= i1 < Z.of_nat (length (dshape X)))%Z -> (0 <= i2 < Z.of_nat (length (dshape X)))%Z -> i1 <> i2 ->
  nth (Z.to_nat i1) (dshape X) 0 = nth (Z.to_nat i2) (dshape X) 0 ->
  exists Y, impl_contract_dense_req v0 vadd X i1 i2 = Ok Y /\
    dshape Y = ttv_shape (dshape X) [Z.to_nat i1; Z.to_nat i2] /\ wf_dense Y /\
    forall i', inb (ttv_shape (dshape X) [Z.to_nat i1; Z.to_nat i2]) i' = true ->
      den_dense v0 Y i' = spec_contract v0 vadd (den_dense v0 X) (dshape X) (Z.to_nat i1) (Z.to_nat i2) i'.
Proof. exact (contract_dense_req V v0 vadd). Qed.

Theorem C02_contract_dense_req_rejects : forall (X : dense V) (i1 i2 : Z),
  ~ ((0 <= i1 < Z.of_nat (length (dshape X)))%Z /\ (0 <= i2 < Z.of_nat (length (dshape X)))%Z /\
     nth (Z.to_nat i1) (dshape X) 0 = nth (Z.to_nat i2) (dshape X) 0 /\ i1 <> i2) ->
  impl_contract_dense_req v0 vadd X i1 i2 = Err.
Proof. exact (contract_dense_req_rejects V v0 vadd). Qed.
End C02w5.
Print Assumptions C02_collapse_sparse_req_caller.
Print Assumptions C02_collapse_sparse_req_all.
Print Assumptions C02_collapse_sparse_req_rejects.
Print Assumptions C02_scale_sparse_req.
Print Assumptions C02_scale_sparse_req_rejects_shape.
Print Assumptions C02_scale_sparse_req_rejects_dims.
Print Assumptions C02_contract_sparse_req.
Print Assumptions C02_contract_sparse_req_rejects.
Print Assumptions C02_contract_dense_req.
Print Assumptions C02_contract_dense_req_rejects.

Local Open Scope Z_scope.
(* S (2 x 3 x 2) stores (1,2,1) -> 5, (0,1,0) -> 7, (1,0,0) -> 2.  collapse over the modes listed as [2; 0]: result[j] = sum over i, k *)
Example C02_ex_collapse_sp_req :
  match impl_collapse_sp_req 0 Z.add (mkSp [2; 3; 2]%nat [[1; 2; 1]; [0; 1; 0]; [1; 0; 0]]%nat [5; 7; 2]) (Some [2; 0]) with
  | Ok k => map k [[0%nat]; [1%nat]; [2%nat]] = [2; 7; 5] | Err => False end.
Proof. reflexivity. Qed.
Example C02_ex_collapse_sp_req_all :
  match impl_collapse_sp_req 0 Z.add (mkSp [2; 3; 2]%nat [[1; 2; 1]; [0; 1; 0]; [1; 0; 0]]%nat [5; 7; 2]) None with
  | Ok k => k [] = 14 | Err => False end.
Proof. reflexivity. Qed.
(* scale along modes listed as [2; 0] by a 2 x 2 factor F[i,k] = [[1, 0], [3, -1]] (F order [1; 3; 0; -1]): (1,2,1) -> 5 * F[1,1] = -5,
   (0,1,0) -> 7 * F[0,0] = 7, (1,0,0) -> 2 * F[1,0] = 6; an ill-shaped factor is rejected, also by a receiver without stored entry *)
Example C02_ex_scale_sp_req :
  impl_scale_sp_req Z.mul (fun v => v =? 0) (mkSp [2; 3; 2]%nat [[1; 2; 1]; [0; 1; 0]; [1; 0; 0]]%nat [5; 7; 2]) [2; 0] false [2; 2]%nat
                    (den_dense 0 (mkDense [2; 2]%nat [1; 3; 0; -1]))
    = Ok (mkSp [2; 3; 2]%nat [[1; 2; 1]; [0; 1; 0]; [1; 0; 0]]%nat [-5; 7; 6]) /\
  impl_scale_sp_req Z.mul (fun v => v =? 0) (mkSp [2; 3; 2]%nat [] []) [2; 0] false [2; 3]%nat (fun _ => 1) = Err /\
  impl_scale_sp_req Z.mul (fun v => v =? 0) (mkSp [2; 3; 2]%nat [] []) [2; 0] false [2; 2]%nat (fun _ => 1) = Ok (mkSp [2; 3; 2]%nat [] []).
Proof. repeat split; reflexivity. Qed.
(* contract(2, 0) of the same S: result[j] = S[0,j,0] + S[1,j,1] = [0; 7; 5]; contract(-1, 0) / contract(0, 1) (sizes 2, 3) / contract(1, 1) rejected *)
Example C02_ex_contract_sp_req :
  match impl_contract_sp_req 0 Z.add (mkSp [2; 3; 2]%nat [[1; 2; 1]; [0; 1; 0]; [1; 0; 0]]%nat [5; 7; 2]) 2 0 with
  | Ok k => map k [[0%nat]; [1%nat]; [2%nat]] = [0; 7; 5] | Err => False end /\
  impl_contract_sp_req 0 Z.add (mkSp [2; 3; 2]%nat [[1; 2; 1]; [0; 1; 0]; [1; 0; 0]]%nat [5; 7; 2]) (-1) 0 = Err /\
  impl_contract_sp_req 0 Z.add (mkSp [2; 3; 2]%nat [[1; 2; 1]; [0; 1; 0]; [1; 0; 0]]%nat [5; 7; 2]) 0 1 = Err /\
  impl_contract_sp_req 0 Z.add (mkSp [2; 3; 2]%nat [[1; 2; 1]; [0; 1; 0]; [1; 0; 0]]%nat [5; 7; 2]) 1 1 = Err.
Proof. repeat split; reflexivity. Qed.
Example C02_ex_contract_dense_req :
  impl_contract_dense_req 0 Z.add (mkDense [2; 3; 2]%nat [1; 2; 3; 4; 5; 6; 7; 8; 9; 10; 11; 12]) 2 0 = Ok (mkDense [3%nat] [9; 13; 17]) /\
  impl_contract_dense_req 0 Z.add (mkDense [2; 3; 2]%nat [1; 2; 3; 4; 5; 6; 7; 8; 9; 10; 11; 12]) 0 3 = Err /\
  impl_contract_dense_req 0 Z.add (mkDense [2; 3; 2]%nat [1; 2; 3; 4; 5; 6; 7; 8; 9; 10; 11; 12]) (-3) 2 = Err.
Proof. repeat split; reflexivity. Qed.
(* ttt with EVERY mode of two equally shaped (square) tensors contracted under a permuted pairing: A.ttt(B, [0; 1], [1; 0]) = trace(A B) = 1*1 + 3*0
   + 2*2 + 4*5 = 25, not the inner product <A, B> = 1*1 + 2*0 + 3*2 + 4*5 = 27 (A = [[1 3]; [2 4]], B = [[1 2]; [0 5]], F order) *)
Example C02_ex_ttt_full_permuted :
  impl_ttt_dense 0 Z.add Z.mul (mkDense [2; 2]%nat [1; 2; 3; 4]) (mkDense [2; 2]%nat [1; 0; 2; 5]) [0; 1]%nat [1; 0]%nat = mkDense [] [25] /\
  impl_ttt_dense 0 Z.add Z.mul (mkDense [2; 2]%nat [1; 2; 3; 4]) (mkDense [2; 2]%nat [1; 0; 2; 5]) [0; 1]%nat [0; 1]%nat = mkDense [] [27].
Proof. split; reflexivity. Qed.
