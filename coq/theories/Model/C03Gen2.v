(* Model/C03Gen2.v — wave 3b: the own code paths of == and != of pyttb.sptensor, transliterated over the helpers GENERATED from
   pyttb_utils.py (Gen/GenUtils.v tt_intersect_rows / tt_setdiff_rows / tt_ismember_rows, Gen/GenUtils2.v tt_union_rows):
     sptensor.extract (through tt_ismember_rows and a boolean-mask assignment),
     __ne__ (sparse operand): tt_intersect_rows twice + boolean scatter selfIdx[idx] = False, subs_pad[subs2] = extract != extract,
     __eq__ (dense operand):  (other == 0).find() (F order), self[otherzerosubs] = extract,
     __ne__ (dense operand):  tt_union_rows(self.subs, np.where(other.data == 0)) then tt_setdiff_rows(allsubs, unionSubs).
   Fancy indexing is np_take, boolean-mask indexing np_mask, a[idx] = v np_scatter / np_scatter_const, a[mask] = vals mask_assign.
   Definitions only; proofs in Proofs/C03Gen2.v. *)
From Coq Require Import List ZArith Bool Arith.
From PV Require Import Base.Index Np.NpZ Np.NpZ2 Np.Array Gen.GenUtils Gen.GenUtils2 Model.Sparse Model.C03Ops Model.C03Gen.
Import ListNotations.

(* a[mask] = vals: the k-th True position of the mask receives the k-th value *)
Fixpoint mask_assign {X} (a : list X) (m : bvec) (vals : list X) : list X :=
  match a, m with
  | x :: a', true :: m' => match vals with v :: vals' => v :: mask_assign a' m' vals' | [] => x :: a' end
  | x :: a', false :: m' => x :: mask_assign a' m' vals
  | _, _ => a
  end.

(* rows of an integer matrix back to subscript rows (the rows handled here are subscripts: non-negative) *)
Definition nrow (r : vec) : idx := map Z.to_nat r.

Section Gen2.
Context {V : Type} (v0 : V) (isz : V -> bool).
Variables (one : V) (veqb : V -> V -> bool).

(* sptensor.extract(searchsubs), in-range rows:
     a = zeros(p); valid, loc = tt_ismember_rows(searchsubs, self.subs); non_zeros = self.vals[loc[valid]]
     if sum(valid) > 0: a[valid] = non_zeros *)
Definition extract_gen (A : sparse V) (rows : list idx) : res (list V) :=
  bind (tt_ismember_rows (zrows rows) (zrows (ssubs A))) (fun vl =>
  let valid := fst vl in let loc := snd vl in
  let non_zeros := np_take v0 (svals A) (np_mask loc valid) in
  let a := repeat v0 (length rows) in
  Ok (if existsb (fun b : bool => b) valid then mask_assign a valid non_zeros else a)).

(* __ne__ (sparse operand) *)
Definition impl_ne_sparse_gen (A B : sparse V) : res (sparse V) :=
  let sA := ssubs A in let sB := ssubs B in
  bind (tt_intersect_rows (zrows sA) (zrows sB)) (fun nonUniqueSelf =>
  let selfIdx := np_scatter_const (np_full (zlen sA) true) nonUniqueSelf false in
  bind (tt_intersect_rows (zrows sB) (zrows sA)) (fun nonUniqueOther =>
  let otherIdx := np_scatter_const (np_full (zlen sB) true) nonUniqueOther false in
  let self_subs := if nonempty selfIdx && nonempty sA then np_mask sA selfIdx else [] in
  let other_subs := if nonempty otherIdx && nonempty sB then np_mask sB otherIdx else [] in
  bind (if nonempty sA && nonempty sB then
          bind (tt_intersect_rows (zrows sA) (zrows sB)) (fun subs2 =>
          bind (extract_gen A (np_take [] sA subs2)) (fun xa =>
          bind (extract_gen B (np_take [] sA subs2)) (fun xb =>
          let subs_pad := np_scatter (np_full (zlen sA) false) subs2 (zipw (fun a b => negb (veqb a b)) xa xb) in
          Ok (np_mask sA subs_pad))))
        else Ok []) (fun subs2 =>
  Ok (sp_const (sshape A) ((self_subs ++ other_subs) ++ subs2) one)))).

(* __eq__ (dense operand): (other == 0).find() lists the zero positions of T in F order (tensor.find ravels with order F) *)
Definition impl_eq_dense_gen (A : sparse V) (T : dense V) : res (sparse V) :=
  let otherzerosubs := filter (fun i => isz (den_dense v0 T i)) (allsubs (sshape A)) in
  bind (extract_gen A otherzerosubs) (fun xs =>
  let zzerosubs := np_mask otherzerosubs (map isz xs) in
  let znzsubs := if nonempty (ssubs A) then map fst (filter (fun e => veqb (den_dense v0 T (fst e)) (snd e)) (entries A)) else [] in
  Ok (sp_const (sshape A) (zzerosubs ++ znzsubs) one)).

(* __ne__ (dense operand): `alls` = self.allsubs() = the order in which np.where lists positions (first mode slowest, i.e.
   lexicographic row order) *)
Definition impl_ne_dense_gen (alls : list idx) (A : sparse V) (T : dense V) : res (sparse V) :=
  let tzeros := filter (fun i => isz (den_dense v0 T i)) alls in
  bind (tt_union_rows (zrows (ssubs A)) (zrows tzeros)) (fun unionSubs =>
  bind (if negb (Nat.eqb (length unionSubs) (size (sshape A))) then
          bind (tt_setdiff_rows (zrows alls) unionSubs) (fun subs1Idx => Ok (np_take [] alls subs1Idx))
        else Ok []) (fun subs1 =>
  let subs2 := if nonempty (ssubs A) then map fst (filter (fun e => negb (veqb (snd e) (den_dense v0 T (fst e)))) (entries A)) else [] in
  Ok (sp_const (sshape A) (subs1 ++ subs2) one))).
End Gen2.
