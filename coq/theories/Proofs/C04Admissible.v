(* Proofs/C04Admissible.v — the decidable side conditions inside the sparse model (sp_set) never fail for
   subscript-array writes: whenever the specification accepts `S[rows] = rhs`, so does step_sparse. *)
From Coq Require Import List Arith ZArith Lia Bool.
From PV Require Import Base.Index Np.Array Model.Sparse Model.C04Model Proofs.C04Dense Proofs.C04Sparse.
Import ListNotations.

Section A.
Context {V : Type} (v0 : V) (isz : V -> bool).

Lemma nodupb_complete l : NoDup l -> nodupb l = true.
Proof.
  induction 1 as [|i r Hi Hn IH]; cbn; auto. rewrite IH, andb_true_r. apply negb_true_iff.
  now apply memb_false.
Qed.

Lemma inb_zeros need : Forall (fun x => 1 <= x) need -> inb need (repeat 0 (length need)) = true.
Proof.
  induction 1 as [|x r Hx Hr IH]; cbn [length repeat inb]; auto. rewrite IH, andb_true_r. apply Nat.ltb_lt. lia.
Qed.

(* growth of extent and order keeps every old subscript (padded with zeros) inside the new shape *)
Lemma grow_inb_pad s : forall need i, inb s i = true -> Forall (fun x => 1 <= x) (skipn (length s) need) ->
  inb (grow s need) (sp_pad (length (grow s need)) i) = true.
Proof.
  induction s as [|d s IH]; intros need [|x i] Hi Hn; cbn [inb] in Hi; try discriminate.
  - destruct need as [|y need]; [reflexivity|]. cbn [grow]. unfold sp_pad. cbn [length app]. rewrite Nat.sub_0_r.
    now apply inb_zeros.
  - apply andb_true_iff in Hi as [Hx Hi]. apply Nat.ltb_lt in Hx.
    destruct need as [|y need].
    + cbn [grow]. unfold sp_pad. cbn [length]. rewrite (inb_length _ _ Hi), Nat.sub_diag. cbn [repeat].
      rewrite app_nil_r. cbn [inb]. rewrite Hi, andb_true_r. now apply Nat.ltb_lt.
    + cbn [grow length skipn] in *. unfold sp_pad. cbn [length app Nat.sub inb].
      specialize (IH need i Hi Hn). unfold sp_pad in IH. rewrite IH, andb_true_r. apply Nat.ltb_lt. lia.
Qed.

Lemma opt_all_length {A} (l : list (option A)) r : opt_all l = Some r -> length r = length l.
Proof.
  revert r; induction l as [|[x|] l IH]; intros r H; cbn in H; try discriminate.
  - inversion H. reflexivity.
  - destruct (opt_all l) as [r'|]; [|discriminate]. inversion H. cbn. f_equal. now apply IH.
Qed.

Lemma col_need_pos ps m : ps <> [] -> Forall (fun x => 1 <= x) (col_need ps m).
Proof.
  revert ps; induction m as [|m IH]; intros ps Hne; cbn [col_need]; constructor.
  - destruct ps as [|r ps]; [contradiction|]. cbn [map fold_right].
    apply Nat.le_trans with (S (hd 0 r)); [lia|apply Nat.le_max_l].
  - apply IH. destruct ps; [contradiction|]. discriminate.
Qed.

Lemma Forall_skipn {A} (P : A -> Prop) n l : Forall P l -> Forall P (skipn n l).
Proof. revert l; induction n as [|n IH]; intros [|x l] H; cbn; auto. inversion H; auto. Qed.

Theorem sparse_subs_admissible (S : sparse V) rows (r : rhs V) s' asg :
  wf_sp isz S -> resolve_set cartF (sshape S) (KSubs rows) r = Some (s', asg) ->
  exists S', step_sparse v0 isz S (OSet (KSubs rows) r) = Some (S', ([], [])).
Proof.
  intros W E. cbn [step_sparse]. rewrite E. unfold sp_set.
  rewrite nodupb_complete by apply sort_dedupe_nodup.
  assert (Hs : exists ps, ps <> [] /\ s' = grow (sshape S) (col_need ps (length (hd [] rows)))).
  { unfold resolve_set in E. destruct (subs_ok (sshape S) rows) eqn:Ok; [|discriminate].
    destruct (opt_all _) as [ps|] eqn:Eo; [|discriminate]. apply finish_set_inb in E as (-> & _).
    exists ps. split; auto. apply opt_all_length in Eo. rewrite map_length in Eo.
    destruct rows; [discriminate|]. destruct ps; [discriminate|]. discriminate. }
  destruct Hs as (ps & Hne & ->).
  match goal with |- context [forallb ?f ?l] => assert (Hb : forallb f l = true) end.
  { apply forallb_forall. intros i Hi. rewrite map_map in Hi. cbn [fst] in Hi.
    apply in_map_iff in Hi as (e & <- & He).
    apply grow_inb_pad.
    - destruct (wf_es_entries isz S W) as [_ H0]. now apply H0.
    - apply Forall_skipn. now apply col_need_pos. }
  rewrite Hb. eauto.
Qed.

End A.
