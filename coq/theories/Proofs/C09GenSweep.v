(* Proofs/C09GenSweep.v — wave 4: the INNER loop of cp_als (`for n in dimorder:` — mttkrp, Hadamard product of the Gram matrices of
   the OTHER modes, the `(Y == 0).all()` guard, LAPACK solve, 2-norm in iteration 0 / max-norm later, the `(weights == 0).all()` guard,
   column scaling, U[n] = Unew, UtU[:, :, n] = U[n].T @ U[n]) as GENERATED from /repo/pyttb/cp_als.py by tools/pyx2v_skel.py
   (Gen/GenCpAls.v cp_als_main_loop3) IS the sweep of the hand model Model/C09Als.v (als_sweep = fold of als_update) that every
   C09 theorem and the executable replay speak about — for every value type, factor list, mode list and iteration number.
   Instantiation of the opaque kernels of the generated file:
     T_Mat = matrix V, T_Wt = list V, T_UtU = list (matrix V)  (the factor whose Gram matrix the slab UtU[:, :, n] holds; the generated
     code maintains  UtU == U  — that IS the loop invariant "UtU[:, :, n] = U[n].T @ U[n]" — and Y is computed from it),
     k_mttkrp X = the holder's mttkrp (mk), k_hadamard_others UtU n N = ymat n UtU R, k_set_gram UtU n U = upd UtU n (nth n U []),
     the guard predicates, LAPACK's solve, the two norms and the column division stay arbitrary functions.
   The model's `solve` / `scale` oracles are thereby DEFINED from the code's kernels and guards (code_solve, code_scale). *)
From Coq Require Import List Arith Lia Bool.
From PV Require Import Base.Index Base.Sum Np.Array Model.Sparse Model.Repr Model.C09Als Model.W4SPrelude Gen.GenCpAls.
Import ListNotations.

Section GenSweep.
Variable V : Type.
Variables (v0 v1 : V) (vadd vmul : V -> V -> V).
Local Notation mx := (@matrix V).
Variable T_X : Type.
Variable R : nat.
(* the kernels that stay opaque *)
Variable mk : T_X -> list mx -> nat -> mx.              (* input_tensor.mttkrp(U, n) *)
Variable all_zero_mat : mx -> bool.                      (* (Y == 0).all() *)
Variable zeros_like : mx -> mx.                          (* np.zeros(Unew.shape) *)
Variable lapack : mx -> mx -> mx.                        (* np.linalg.solve(Y.T, Unew.T).T *)
Variable norm2_cols normmax_cols : mx -> list V.         (* np.sqrt(sum(Unew**2, 0)) ;  np.maximum(np.max(np.abs(Unew), 0), 1) *)
Variable all_zero_wt : list V -> bool.                   (* (weights == 0).all() *)
Variable scale_cols : mx -> list V -> mx.                (* Unew / weights *)

Definition g_set_gram (UtU : list mx) (n : nat) (U : list mx) : list mx := upd UtU n (nth n U []).
Definition g_hadamard_others (UtU : list mx) (n N : nat) : mx := ymat v0 v1 vadd vmul n UtU R.

Local Notation gloop3 := (GenCpAls.cp_als_main_loop3 mx (list mx) (list V) T_X g_set_gram mk g_hadamard_others all_zero_mat zeros_like lapack
  norm2_cols normmax_cols all_zero_wt scale_cols).
Local Notation gloop1 := (GenCpAls.cp_als_main_loop1 mx (list mx) g_set_gram).

(* the model's oracles as the code composes them *)
Definition code_solve (Y P : mx) : mx := if all_zero_mat Y then zeros_like P else lapack Y P.
Definition code_scale (it : nat) (A : mx) : list V * mx :=
  let w := if it =? 0 then norm2_cols A else normmax_cols A in
  (w, if negb (all_zero_wt w) then scale_cols A w else A).

Lemma sk_set_upd {A} (l : list A) n v : n < length l -> sk_set l n v = Some (upd l n v).
Proof.
  intros H. unfold sk_set. apply Nat.ltb_lt in H as E. rewrite E. f_equal.
  revert n H E. induction l as [|x l IH]; intros [|n] H E; cbn in *; try lia; auto.
  f_equal. apply IH; [lia|]. apply Nat.ltb_lt. lia.
Qed.

Lemma upd_nth_upd (U : list mx) n A : n < length U -> upd U n (nth n (upd U n A) []) = upd U n A.
Proof. intros H. rewrite nth_upd by exact H. now rewrite Nat.eqb_refl. Qed.

(* BRIDGE (one sweep): from any state in which the Gram slabs belong to the current factors (UtU = U), the generated loop over the
   modes xs returns — without raising — exactly the factor list of the model's sweep, again with UtU = U, and the weights of the
   model's sweep (the weights of the LAST update; untouched when xs is empty) *)
Theorem gen_sweep_bridge (X : T_X) (N : nat) (dimorder : list nat) (it : nat) : dimorder <> [] ->
  forall (xs : list nat) (U : list mx) (Um : mx) (n0 : option nat) (w0 : option (list V)) (w : list V) (P : mx),
  (forall x, In x xs -> x < length U) ->
  let st' := als_sweep v0 v1 vadd vmul (mk X) code_solve code_scale R it xs (mkAls w U P) in
  exists Um' n',
    gloop3 N dimorder X it xs (U, Um, U, n0, w0)
    = Some (st_U st', Um', st_U st', n', match xs with [] => w0 | _ :: _ => Some (st_w st') end).
Proof.
  intros Hne.
  assert (HL : exists t, sk_last dimorder = Some t).
  { unfold sk_last. destruct (rev dimorder) as [|t r] eqn:E; [|now exists t].
    exfalso. apply Hne. apply (f_equal (@rev nat)) in E. now rewrite rev_involutive in E. }
  destruct HL as [t HL].
  induction xs as [|x xs IH]; intros U Um n0 w0 w P Hin st'.
  - exists Um, n0. reflexivity.
  - assert (Hx : x < length U) by (apply Hin; now left).
    cbn [GenCpAls.cp_als_main_loop3]. rewrite HL.
    set (Pn := mk X U x).
    set (A := if all_zero_mat (g_hadamard_others U x N) then zeros_like Pn else lapack (g_hadamard_others U x N) Pn).
    set (wn := if it =? 0 then norm2_cols A else normmax_cols A).
    set (An := if negb (all_zero_wt wn) then scale_cols A wn else A).
    rewrite (sk_set_upd U x An Hx).
    change (g_set_gram U x (upd U x An)) with (upd U x (nth x (upd U x An) [])). rewrite (upd_nth_upd U x An Hx).
    assert (E1 : als_update v0 v1 vadd vmul (mk X) code_solve code_scale R it (mkAls w U P) x = mkAls wn (upd U x An) Pn).
    { unfold als_update, code_solve, code_scale. cbn [st_U fst snd]. reflexivity. }
    subst st'. cbn [als_sweep fold_left]. rewrite E1.
    destruct (IH (upd U x An) (if x =? t then Pn else Um) (Some x) (Some wn) wn Pn) as (Um' & n' & EQ).
    { intros y Hy. rewrite upd_length. apply Hin. now right. }
    exists Um', n'. unfold als_sweep in EQ. rewrite EQ.
    destruct xs as [|y ys]; reflexivity.
Qed.

(* the prologue `for n in range(N): UtU[:, :, n] = U[n].T @ U[n]` establishes the invariant: started on any slab list of the right
   length it ends with UtU = U *)
Lemma loop1_invariant (U : list mx) : forall fuel i (UtU : list mx) n0, length UtU = length U -> i + fuel = length U ->
  firstn i UtU = firstn i U ->
  exists n', gloop1 U fuel i (UtU, n0) = Some (U, n').
Proof.
  induction fuel as [|fuel IH]; intros i UtU n0 HLen Hi Hpre.
  - exists n0. cbn. replace i with (length U) in Hpre by lia.
    rewrite firstn_all in Hpre. rewrite <- HLen in Hpre at 1. rewrite firstn_all in Hpre. now rewrite Hpre.
  - cbn [GenCpAls.cp_als_main_loop1]. apply IH.
    + unfold g_set_gram. now rewrite upd_length.
    + lia.
    + unfold g_set_gram. assert (Hi' : i < length UtU) by lia.
      clear IH. revert i UtU HLen Hi Hpre Hi'. induction U as [|a U IHU]; intros i UtU HLen Hi Hpre Hi'.
      * cbn in HLen. lia.
      * destruct UtU as [|b UtU]; [cbn in Hi'; lia|]. destruct i as [|i].
        -- cbn. reflexivity.
        -- cbn [firstn upd nth] in *. injection Hpre as -> Hpre. f_equal.
           apply IHU; cbn in *; try lia. exact Hpre.
Qed.

Theorem gen_prologue_bridge (U : list mx) (UtU0 : list mx) : length UtU0 = length U ->
  exists n', gloop1 U (length U) 0 (UtU0, None) = Some (U, n').
Proof. intros H. apply loop1_invariant; auto. Qed.

End GenSweep.
