(* Proofs/C18Tucker.v — C18, clause "scaling the data by a positive constant scales the Tucker model by that
   constant and leaves the fit unchanged", for pyttb.hosvd (hosvd.py main loop) and pyttb.tucker_als (tucker_als.py
   main loop).  Builds on Model/C10Tucker.v (executable rank rule, mode-n product, Gram) and Proofs/C10Proofs.v
   (abstract inner-product setting).
   A. the rank rule of hosvd (np.cumsum / np.where / [-1] + 1) is invariant when the eigenvalues and the threshold
      are multiplied by the same k > 0 (k = c^2 for data scaled by c)
   B. ring-generic linearity of the mode-n product, the Gram matrix and the Tucker reconstruction (den_t)
   C. algorithm-level equivariance over an abstract real inner-product space with scalar multiplication:
      C1 hosvd (sequential and non-sequential), C2 tucker_als (sweeps, early stop, reported fit) *)
From Coq Require Import List Arith Lia Bool Reals Lra Ring.
From PV Require Import Base.Index Base.Sum Np.Array Np.NpR Model.Sparse Model.Repr Model.C10Tucker
  Proofs.C10Proofs Proofs.C10Ttm.
Import ListNotations.
Local Open Scope R_scope.

(* ======================================================================================== *)
(* A. rank rule of hosvd                                                                      *)
(* ======================================================================================== *)
Lemma sumR_scale k l : sumR (map (Rmult k) l) = k * sumR l.
Proof. induction l as [|x l IH]; cbn [map sumR]; [lra|]. rewrite IH. lra. Qed.

Lemma suffix_sums_scale k l : suffix_sums (map (Rmult k) l) = map (Rmult k) (suffix_sums l).
Proof.
  induction l as [|x l IH]; [reflexivity|].
  cbn [map suffix_sums]. f_equal; [|exact IH].
  change (sumR (map (Rmult k) (x :: l)) = k * sumR (x :: l)). apply sumR_scale.
Qed.

Lemma Rltb_scale k a b : 0 < k -> Rltb (k * a) (k * b) = Rltb a b.
Proof.
  intros Hk. unfold Rltb. destruct (Rlt_dec (k * a) (k * b)) as [H1|H1], (Rlt_dec a b) as [H2|H2]; auto; exfalso.
  - apply H2. nra.
  - apply H1. nra.
Qed.

Lemma nth_map_scale k l i : nth i (map (Rmult k) l) 0 = k * nth i l 0.
Proof. rewrite <- (map_nth (Rmult k)). f_equal. ring. Qed.

Lemma where_gt_scale k l t : 0 < k -> where_gt 0 Rltb (map (Rmult k) l) (k * t) = where_gt 0 Rltb l t.
Proof.
  intros Hk. unfold where_gt. rewrite map_length. apply filter_ext. intros i.
  rewrite nth_map_scale. now apply Rltb_scale.
Qed.

Lemma eigsum_scale k eig : eigsum 0 Rplus (map (Rmult k) eig) = map (Rmult k) (eigsum 0 Rplus eig).
Proof. rewrite !eigsum_suffix. apply suffix_sums_scale. Qed.

(* the index np.where(eigsum > eigsumthresh)[0][-1] is the same for (k * eig, k * t) and (eig, t), also when it
   does not exist (IndexError on both sides) *)
Theorem hosvd_last_above_scale : forall (eig : list R) (t k : R), 0 < k ->
  last_above 0 Rplus Rltb (map (Rmult k) eig) (k * t) = last_above 0 Rplus Rltb eig t.
Proof. intros eig t k Hk. unfold last_above. rewrite eigsum_scale, where_gt_scale by exact Hk. reflexivity. Qed.

Theorem hosvd_rank_scale : forall (eig : list R) (t k : R), 0 < k ->
  auto_rank 0 Rplus Rltb (map (Rmult k) eig) (k * t) = auto_rank 0 Rplus Rltb eig t.
Proof. intros eig t k Hk. unfold auto_rank. rewrite hosvd_last_above_scale by exact Hk. reflexivity. Qed.

(* number of columns of the factor as coded, for a user rank (0 = automatic) *)
Theorem hosvd_ncols_scale : forall (user_rank : nat) (eig : list R) (t k : R), 0 < k ->
  ncols_impl 0 Rplus Rltb user_rank (map (Rmult k) eig) (k * t) = ncols_impl 0 Rplus Rltb user_rank eig t.
Proof.
  intros u eig t k Hk. unfold ncols_impl, keep_cols. rewrite hosvd_rank_scale by exact Hk.
  destruct u as [|u].
  - destruct (auto_rank 0 Rplus Rltb eig t) as [r|]; [|reflexivity].
    now rewrite !firstn_length, map_length.
  - now rewrite !firstn_length, map_length.
Qed.

(* the kept permutation entries pi[0:ranks[k]] are the same list when the rank is the same *)
Corollary hosvd_keep_cols_scale : forall (A : Type) (pi : list A) (eig : list R) (t k : R), 0 < k ->
  option_map (fun r => keep_cols r pi) (auto_rank 0 Rplus Rltb (map (Rmult k) eig) (k * t)) =
  option_map (fun r => keep_cols r pi) (auto_rank 0 Rplus Rltb eig t).
Proof. intros A pi eig t k Hk. now rewrite hosvd_rank_scale. Qed.

(* in the terms of hosvd.py: data scaled by c > 0 => Gram eigenvalues scaled by c^2 (gram_den_scale below), normxsqr scaled
   by c^2 (sumsq_scale below), eigsumthresh = tol^2 * normxsqr / d scaled by c^2: same automatic rank *)
Corollary hosvd_rank_scale_data : forall (eig : list R) (tol normxsqr d c : R), 0 < c ->
  auto_rank 0 Rplus Rltb (map (Rmult (c * c)) eig) (tol * tol * (c * c * normxsqr) / d) =
  auto_rank 0 Rplus Rltb eig (tol * tol * normxsqr / d).
Proof.
  intros eig tol nx d c Hc.
  replace (tol * tol * (c * c * nx) / d) with ((c * c) * (tol * tol * nx / d)) by (unfold Rdiv; ring).
  apply hosvd_rank_scale. nra.
Qed.

(* data scaled by c = 3: eigenvalues and threshold scale by k = 9; rank 2 both times (cf. rank_choice_example) *)
Example hosvd_rank_scale_example :
  auto_rank 0 Rplus Rltb (map (Rmult 9) [9; 4; 1; 0]) (9 * 2) = Some 2%nat /\
  auto_rank 0 Rplus Rltb [9; 4; 1; 0] 2 = Some 2%nat /\
  ncols_impl 0 Rplus Rltb 0 (map (Rmult 9) [9; 4; 1; 0]) (9 * 2) = Some 2%nat /\
  ncols_impl 0 Rplus Rltb 3 (map (Rmult 9) [9; 4; 1; 0]) (9 * 2) = Some 3%nat.
Proof.
  destruct rank_choice_example as [H _].
  assert (H9 : 0 < 9) by lra.
  split; [|split; [|split]].
  - rewrite hosvd_rank_scale by exact H9. exact H.
  - exact H.
  - rewrite hosvd_ncols_scale by exact H9. unfold ncols_impl. rewrite H. reflexivity.
  - reflexivity.
Qed.

(* ======================================================================================== *)
(* B. ring-generic linearity: mode-n product, Gram matrix, Tucker reconstruction              *)
(* ======================================================================================== *)
Section Linear.
Variable V : Type.
Variables (v0 v1 : V) (vadd vmul vsub : V -> V -> V) (vopp : V -> V).
Hypothesis Vring : ring_theory v0 v1 vadd vmul vsub vopp (@eq V).
Add Ring Vr18t : Vring.

(* (c X) x_n M = c (X x_n M) *)
Theorem ttm_den_scale : forall (c : V) (X : idx -> V) (In n : nat) (M : list (list V)) (i : idx),
  ttm_den v0 vadd vmul (fun i => vmul c (X i)) In n M i = vmul c (ttm_den v0 vadd vmul X In n M i).
Proof.
  intros c X In n M i. unfold ttm_den, sum_n.
  rewrite <- (sum_over_scale_l V v0 v1 vadd vmul vsub vopp Vring).
  apply sum_over_ext. intros a _. ring.
Qed.

(* Gram matrix of the mode-n unfolding of c X = c^2 times that of X *)
Theorem gram_den_scale : forall (c : V) (s : shape) (X : idx -> V) (n a b : nat),
  gram_den v0 vadd vmul s (fun i => vmul c (X i)) n a b = vmul (vmul c c) (gram_den v0 vadd vmul s X n a b).
Proof.
  intros c s X n a b. unfold gram_den.
  rewrite <- (sum_over_scale_l V v0 v1 vadd vmul vsub vopp Vring).
  apply sum_over_ext. intros i _. ring.
Qed.

(* ||c X||^2 = c^2 ||X||^2 on the data list (normxsqr of hosvd.py, normX^2 of tucker_als.py) *)
Theorem sumsq_scale : forall (c : V) (l : list V),
  sumsq v0 vadd vmul (map (vmul c) l) = vmul (vmul c c) (sumsq v0 vadd vmul l).
Proof.
  intros c l. unfold sumsq. rewrite (sum_over_map V v0 vadd).
  rewrite <- (sum_over_scale_l V v0 v1 vadd vmul vsub vopp Vring).
  apply sum_over_ext. intros x _. ring.
Qed.

(* Tucker model: scaling the core by c scales the full tensor by c (same factors) *)
Theorem den_t_scale_core : forall (c : V) (core core' : dense V) (Us : list (list (list V))),
  dshape core' = dshape core ->
  (forall j, den_dense v0 core' j = vmul c (den_dense v0 core j)) ->
  forall i, den_t v0 v1 vadd vmul (mkT core' Us) i = vmul c (den_t v0 v1 vadd vmul (mkT core Us) i).
Proof.
  intros c core core' Us Hs Hd i. unfold den_t, tshape. cbn [tcore tfactors].
  destruct (inb (map nrows Us) i); [|ring].
  rewrite Hs. rewrite <- (sum_over_scale_l V v0 v1 vadd vmul vsub vopp Vring).
  apply sum_over_ext. intros j _. rewrite Hd. ring.
Qed.

(* the executable ttm on dense arrays: scaling the data scales every entry of the product *)
Corollary ttm_scale : forall (c : V) (X X' : dense V) (n : nat) (M : list (list V)),
  dshape X' = dshape X ->
  (forall j, den_dense v0 X' j = vmul c (den_dense v0 X j)) ->
  forall i, den_dense v0 (ttm v0 vadd vmul X' n M) i = vmul c (den_dense v0 (ttm v0 vadd vmul X n M) i).
Proof.
  intros c X X' n M Hs Hd i. unfold ttm. rewrite Hs.
  destruct (inb (set_nth n (nrows M) (dshape X)) i) eqn:Hin.
  - rewrite !den_tabulate by exact Hin.
    rewrite <- ttm_den_scale. unfold ttm_den, sum_n. apply sum_over_ext. intros a _. now rewrite Hd.
  - rewrite !den_tabulate_out by exact Hin. ring.
Qed.
End Linear.

(* non-vacuity over Z: X(i) = 1 + i0 + 2 i1 on a 2 x 2 array, M = [[1;2];[3;4]], c = 3, entry (1,0) *)
Example ttm_gram_scale_example :
  let X := (fun i : idx => 1 + Z.of_nat (nth 0 i 0%nat) + 2 * Z.of_nat (nth 1 i 0%nat))%Z in
  let M := [[1; 2]; [3; 4]]%Z in
  (ttm_den 0%Z Z.add Z.mul X 2 0 M [1; 0]%nat = 11 /\
   ttm_den 0%Z Z.add Z.mul (fun i => 3 * X i) 2 0 M [1; 0]%nat = 3 * 11 /\
   gram_den 0%Z Z.add Z.mul [2; 2]%nat X 0 0 1 = 14 /\
   gram_den 0%Z Z.add Z.mul [2; 2]%nat (fun i => 3 * X i) 0 0 1 = 3 * 3 * 14)%Z.
Proof. vm_compute. repeat split. Qed.

(* non-vacuity of den_t_scale_core over Z: 2 x 1 core [5;7] vs [15;21], U1 = [[1;2];[3;4]], U2 = [[1];[1]], entry (1,0) *)
Example den_t_scale_core_example :
  let Us := [[[1; 2]; [3; 4]]; [[1]; [1]]]%Z in
  (den_t 0 1 Z.add Z.mul (mkT (mkDense [2; 1]%nat [5; 7]) Us) [1; 0]%nat = 43 /\
   den_t 0 1 Z.add Z.mul (mkT (mkDense [2; 1]%nat [15; 21]) Us) [1; 0]%nat = 3 * 43)%Z.
Proof. vm_compute. split; reflexivity. Qed.

(* ======================================================================================== *)
(* C. algorithm-level equivariance                                                            *)
(* ======================================================================================== *)

(* the fit formula of tucker_als.py: fit = 1 - sqrt(|normX^2 - ||core||^2|) / normX, with nx = normX^2, nc = ||core||^2 *)
Theorem tucker_fit_scale : forall (c nx nc nx' nc' : R), 0 < c -> 0 < nx ->
  nx' = c * c * nx -> nc' = c * c * nc ->
  1 - sqrt (Rabs (nx' - nc')) / sqrt nx' = 1 - sqrt (Rabs (nx - nc)) / sqrt nx.
Proof.
  intros c nx nc nx' nc' Hc Hnx -> ->.
  replace (c * c * nx - c * c * nc) with ((c * c) * (nx - nc)) by ring.
  assert (Hcc : 0 <= c * c) by nra.
  rewrite Rabs_mult, (Rabs_pos_eq (c * c)) by exact Hcc.
  rewrite (sqrt_mult (c * c) (Rabs (nx - nc))) by (auto using Rabs_pos).
  rewrite (sqrt_mult (c * c) nx) by lra.
  rewrite sqrt_square by lra.
  assert (Hs : 0 < sqrt nx) by (apply sqrt_lt_R0; lra).
  field. split; lra.
Qed.

Example tucker_fit_scale_example :
  1 - sqrt (Rabs (2 * 2 * 14 - 2 * 2 * 5)) / sqrt (2 * 2 * 14) = 1 - sqrt (Rabs (14 - 5)) / sqrt 14.
Proof. apply (tucker_fit_scale 2 14 5); lra. Qed.

Section Equivariance.
Variable E : Type.
Variables (sub : E -> E -> E) (inner : E -> E -> R) (smul : R -> E -> E).
Hypothesis inner_sym : forall a b, inner a b = inner b a.
Hypothesis inner_sub : forall a b c, inner (sub a b) c = inner a c - inner b c.
Hypothesis inner_pos : forall a, 0 <= inner a a.
Hypothesis inner_smul : forall c a b, inner (smul c a) b = c * inner a b.
Hypothesis sub_smul : forall c a b, sub (smul c a) (smul c b) = smul c (sub a b).

Notation nrm := (nrm2 E inner).

Lemma nrm2_smul c a : nrm (smul c a) = c * c * nrm a.
Proof. unfold nrm2. rewrite inner_smul, (inner_sym a (smul c a)), inner_smul. ring. Qed.

(* relative error ||x - r||^2 / ||x||^2, cross-multiplied *)
Lemma relerr_scale c x r :
  nrm (sub (smul c x) (smul c r)) = c * c * nrm (sub x r) /\
  nrm (sub (smul c x) (smul c r)) * nrm x = nrm (sub x r) * nrm (smul c x).
Proof. rewrite sub_smul, !nrm2_smul. split; ring. Qed.

(* ---------------------------------------------------------------------------------------- *)
(* C1. hosvd                                                                                  *)
(* ---------------------------------------------------------------------------------------- *)
(* choose k y = the projector U_k U_k^T in mode k computed from the current tensor y (Gram matrix of the mode-k
   unfolding, eigh, argsort, rank rule / user rank, leading eigenvectors).  Contract: the choice does not change
   when y is scaled by c > 0 (Gram scales by c^2: gram_den_scale; same eigenvectors; same rank: hosvd_rank_scale
   with k = c^2), and every chosen projector is positively homogeneous *)
Variable choose : nat -> E -> (E -> E).
Hypothesis choose_scale : forall n c x, 0 < c -> choose n (smul c x) = choose n x.
Hypothesis choose_homog : forall n y c x, 0 < c -> choose n y (smul c x) = smul c (choose n y x).

(* sequential: the next projector is chosen from the already shrunk tensor *)
Fixpoint hosvd_seq (modes : list nat) (x : E) : list (E -> E) * E :=
  match modes with
  | [] => ([], x)
  | n :: ms => let P := choose n x in let r := hosvd_seq ms (P x) in (P :: fst r, snd r)
  end.
(* non-sequential: every projector is chosen from the original tensor x0; y = running product *)
Fixpoint hosvd_nonseq_from (x0 : E) (modes : list nat) (y : E) : list (E -> E) * E :=
  match modes with
  | [] => ([], y)
  | n :: ms => let P := choose n x0 in let r := hosvd_nonseq_from x0 ms (P y) in (P :: fst r, snd r)
  end.
Definition hosvd_nonseq (modes : list nat) (x : E) : list (E -> E) * E := hosvd_nonseq_from x modes x.
(* hosvd(..., sequential=...) *)
Definition hosvd (sequential : bool) (modes : list nat) (x : E) : list (E -> E) * E :=
  if sequential then hosvd_seq modes x else hosvd_nonseq modes x.

(* the final vector is the product of the chosen projectors applied to x (ties in with projector_bound) *)
Lemma hosvd_seq_applyPs modes : forall x, snd (hosvd_seq modes x) = applyPs E (fst (hosvd_seq modes x)) x.
Proof. induction modes as [|n ms IH]; intros x; cbn [hosvd_seq fst snd applyPs]; [reflexivity|apply IH]. Qed.
Lemma hosvd_nonseq_from_applyPs x0 modes : forall y,
  snd (hosvd_nonseq_from x0 modes y) = applyPs E (fst (hosvd_nonseq_from x0 modes y)) y.
Proof. induction modes as [|n ms IH]; intros y; cbn [hosvd_nonseq_from fst snd applyPs]; [reflexivity|apply IH]. Qed.
Lemma hosvd_nonseq_from_fst x0 modes : forall y, fst (hosvd_nonseq_from x0 modes y) = map (fun n => choose n x0) modes.
Proof. induction modes as [|n ms IH]; intros y; cbn [hosvd_nonseq_from fst map]; [reflexivity|f_equal; apply IH]. Qed.
Theorem hosvd_applyPs : forall sequential modes x,
  snd (hosvd sequential modes x) = applyPs E (fst (hosvd sequential modes x)) x.
Proof. intros [|] modes x; [apply hosvd_seq_applyPs|apply hosvd_nonseq_from_applyPs]. Qed.

Lemma hosvd_seq_scale modes : forall c x, 0 < c ->
  hosvd_seq modes (smul c x) = (fst (hosvd_seq modes x), smul c (snd (hosvd_seq modes x))).
Proof.
  induction modes as [|n ms IH]; intros c x Hc; cbn [hosvd_seq fst snd]; [reflexivity|].
  rewrite choose_scale, choose_homog, IH by exact Hc. reflexivity.
Qed.

Lemma hosvd_nonseq_from_scale modes : forall c x0 y, 0 < c ->
  hosvd_nonseq_from (smul c x0) modes (smul c y) =
  (fst (hosvd_nonseq_from x0 modes y), smul c (snd (hosvd_nonseq_from x0 modes y))).
Proof.
  induction modes as [|n ms IH]; intros c x0 y Hc; cbn [hosvd_nonseq_from fst snd]; [reflexivity|].
  rewrite choose_scale, choose_homog, IH by exact Hc. reflexivity.
Qed.

(* scaling the data by c > 0: the same projectors (factor matrices) are chosen in every mode, and the resulting
   approximation is c times the approximation of the unscaled data — for both values of [sequential] *)
Theorem hosvd_scale : forall (sequential : bool) (modes : list nat) (c : R) (x : E), 0 < c ->
  fst (hosvd sequential modes (smul c x)) = fst (hosvd sequential modes x) /\
  snd (hosvd sequential modes (smul c x)) = smul c (snd (hosvd sequential modes x)).
Proof.
  intros [|] modes c x Hc; unfold hosvd, hosvd_nonseq.
  - rewrite hosvd_seq_scale by exact Hc. split; reflexivity.
  - rewrite hosvd_nonseq_from_scale by exact Hc. split; reflexivity.
Qed.

(* ||cX - T'||^2 = c^2 ||X - T||^2, so the relative error ||X - T||^2 / ||X||^2 is unchanged (cross-multiplied) *)
Theorem hosvd_relerr_scale : forall (sequential : bool) (modes : list nat) (c : R) (x : E), 0 < c ->
  let r := snd (hosvd sequential modes x) in
  let r' := snd (hosvd sequential modes (smul c x)) in
  nrm (sub (smul c x) r') = c * c * nrm (sub x r) /\
  nrm (sub (smul c x) r') * nrm x = nrm (sub x r) * nrm (smul c x).
Proof.
  intros sq modes c x Hc r r'. unfold r'. destruct (hosvd_scale sq modes c x Hc) as [_ ->]. apply relerr_scale.
Qed.

(* ---------------------------------------------------------------------------------------- *)
(* C2. tucker_als                                                                             *)
(* ---------------------------------------------------------------------------------------- *)
(* Fs = the list U of factor matrices; A U x = x x_1 U_1^T ... x_d U_d^T (the core for factors U);
   upd n U x = U with U[n] := nvecs_n(x x_{m<>n} U_m^T, rank[n]).  Contract: the leading eigenvectors do not
   change when x is scaled by c > 0; A U is linear *)
Variables (Fs F : Type) (A : Fs -> E -> F) (smulF : R -> F -> F) (innerF : F -> F -> R).
Variable upd : nat -> Fs -> E -> Fs.
Hypothesis upd_scale : forall n U c x, 0 < c -> upd n U (smul c x) = upd n U x.
Hypothesis A_lin : forall U c x, 0 < c -> A U (smul c x) = smulF c (A U x).
Hypothesis innerF_smul : forall c a, innerF (smulF c a) (smulF c a) = c * c * innerF a a.

(* for n in dimorder: U[n] = ... *)
Definition sweep (dimorder : list nat) (U : Fs) (x : E) : Fs := fold_left (fun U n => upd n U x) dimorder U.
Fixpoint sweeps (dimorder : list nat) (k : nat) (U : Fs) (x : E) : Fs :=
  match k with O => U | S k' => sweeps dimorder k' (sweep dimorder U x) x end.
Definition als_core (dimorder : list nat) (k : nat) (U : Fs) (x : E) : F := A (sweeps dimorder k U x) x.
(* normX**2 - core.norm()**2 *)
Definition resid2 (x : E) (g : F) : R := nrm x - innerF g g.
(* fit = 1 - sqrt(abs(normX**2 - core.norm()**2)) / normX *)
Definition fit_of (x : E) (g : F) : R := 1 - sqrt (Rabs (resid2 x g)) / sqrt (nrm x).

Lemma sweep_scale dimorder : forall U c x, 0 < c -> sweep dimorder U (smul c x) = sweep dimorder U x.
Proof.
  unfold sweep. induction dimorder as [|n ms IH]; intros U c x Hc; cbn [fold_left]; [reflexivity|].
  rewrite upd_scale by exact Hc. now apply IH.
Qed.

Lemma sweeps_scale dimorder k : forall U c x, 0 < c -> sweeps dimorder k U (smul c x) = sweeps dimorder k U x.
Proof.
  induction k as [|k IH]; intros U c x Hc; cbn [sweeps]; [reflexivity|].
  rewrite sweep_scale by exact Hc. now apply IH.
Qed.

Lemma resid2_scale c x g : resid2 (smul c x) (smulF c g) = c * c * resid2 x g.
Proof. unfold resid2. rewrite nrm2_smul, innerF_smul. ring. Qed.

Lemma fit_of_scale c x g : 0 < c -> 0 < nrm x -> fit_of (smul c x) (smulF c g) = fit_of x g.
Proof.
  intros Hc Hx. unfold fit_of, resid2.
  apply (tucker_fit_scale c (nrm x) (innerF g g)); auto using nrm2_smul, innerF_smul.
Qed.

(* after any number of sweeps from the same start: identical factors, core scaled by c, normX^2 - ||core||^2 scaled
   by c^2 (relative residual unchanged, cross-multiplied), reported fit unchanged *)
Theorem tucker_als_scale : forall (dimorder : list nat) (k : nat) (U0 : Fs) (c : R) (x : E), 0 < c ->
  let g := als_core dimorder k U0 x in
  let g' := als_core dimorder k U0 (smul c x) in
  sweeps dimorder k U0 (smul c x) = sweeps dimorder k U0 x /\
  g' = smulF c g /\
  resid2 (smul c x) g' = c * c * resid2 x g /\
  resid2 (smul c x) g' * nrm x = resid2 x g * nrm (smul c x) /\
  (0 < nrm x -> fit_of (smul c x) g' = fit_of x g).
Proof.
  intros dimorder k U0 c x Hc g g'.
  assert (Hg : g' = smulF c g).
  { unfold g', g, als_core. rewrite sweeps_scale, A_lin by exact Hc. reflexivity. }
  split; [now apply sweeps_scale|]. split; [exact Hg|]. rewrite Hg, resid2_scale, nrm2_smul.
  split; [reflexivity|]. split; [ring|]. intros Hx. now apply fit_of_scale.
Qed.

(* the full Tucker model Syn U g (= core x_1 U_1 ... x_d U_d, linear in the core: den_t_scale_core) for the scaled data is
   c times the model for the original data *)
Variable Syn : Fs -> F -> E.
Hypothesis Syn_lin : forall U c g, 0 < c -> Syn U (smulF c g) = smul c (Syn U g).
Theorem tucker_als_model_scale : forall (dimorder : list nat) (k : nat) (U0 : Fs) (c : R) (x : E), 0 < c ->
  let T := Syn (sweeps dimorder k U0 x) (als_core dimorder k U0 x) in
  let T' := Syn (sweeps dimorder k U0 (smul c x)) (als_core dimorder k U0 (smul c x)) in
  T' = smul c T /\
  nrm (sub (smul c x) T') = c * c * nrm (sub x T) /\
  nrm (sub (smul c x) T') * nrm x = nrm (sub x T) * nrm (smul c x).
Proof.
  intros dimorder k U0 c x Hc T T'.
  assert (HT : T' = smul c T).
  { unfold T', T. destruct (tucker_als_scale dimorder k U0 c x Hc) as (-> & -> & _). now apply Syn_lin. }
  split; [exact HT|]. rewrite HT. apply relerr_scale.
Qed.

(* the whole main loop including the convergence test (fitchange < stoptol: break): state = (U, fit, iterations done) *)
Variable stoptol : R.
Fixpoint als_loop (dimorder : list nat) (maxiters : nat) (U : Fs) (fitold : R) (x : E) : Fs * R * nat :=
  match maxiters with
  | O => (U, fitold, O)
  | S k =>
      let U' := sweep dimorder U x in
      let fit := fit_of x (A U' x) in
      if Rltb (Rabs (fitold - fit)) stoptol then (U', fit, 1%nat)
      else let r := als_loop dimorder k U' fit x in (fst (fst r), snd (fst r), S (snd r))
  end.

Theorem tucker_als_loop_scale : forall (dimorder : list nat) (maxiters : nat) (U : Fs) (fit0 c : R) (x : E),
  0 < c -> 0 < nrm x ->
  als_loop dimorder maxiters U fit0 (smul c x) = als_loop dimorder maxiters U fit0 x /\
  A (fst (fst (als_loop dimorder maxiters U fit0 (smul c x)))) (smul c x) =
    smulF c (A (fst (fst (als_loop dimorder maxiters U fit0 x))) x).
Proof.
  intros dimorder maxiters U fit0 c x Hc Hx.
  assert (H : als_loop dimorder maxiters U fit0 (smul c x) = als_loop dimorder maxiters U fit0 x).
  { revert U fit0. induction maxiters as [|k IH]; intros U fit0; cbn [als_loop]; [reflexivity|].
    rewrite sweep_scale, A_lin, fit_of_scale by assumption.
    destruct (Rltb _ stoptol); [reflexivity|]. now rewrite IH. }
  split; [exact H|]. rewrite H. now apply A_lin.
Qed.

End Equivariance.

(* ---------------------------------------------------------------------------------------- *)
(* non-vacuity of C1 / C2: R^3, coordinate projectors, data-dependent (scale-invariant) choices *)
(* ---------------------------------------------------------------------------------------- *)
Definition smul3 (c : R) (a : v3) : v3 := let '(a1, a2, a3) := a in (c * a1, c * a2, c * a3).

Lemma inner3_smul c a b : inner3 (smul3 c a) b = c * inner3 a b.
Proof. destruct a as [[a1 a2] a3], b as [[b1 b2] b3]. cbn. ring. Qed.
Lemma sub3_smul c a b : sub3 (smul3 c a) (smul3 c b) = smul3 c (sub3 a b).
Proof. destruct a as [[a1 a2] a3], b as [[b1 b2] b3]. cbn. f_equal; [f_equal|]; ring. Qed.
Lemma inner3_smul2 c a : inner3 (smul3 c a) (smul3 c a) = c * c * inner3 a a.
Proof. destruct a as [[a1 a2] a3]. cbn. ring. Qed.

(* "which coordinate carries less energy" — a choice that depends on the data but not on its scale *)
Definition weak3 (y : v3) : bool := let '(_, y2, y3) := y in Rltb (y3 * y3) (y2 * y2).
Lemma weak3_scale c y : 0 < c -> weak3 (smul3 c y) = weak3 y.
Proof.
  intros Hc. destruct y as [[y1 y2] y3]. cbn [weak3 smul3].
  replace (c * y3 * (c * y3)) with ((c * c) * (y3 * y3)) by ring.
  replace (c * y2 * (c * y2)) with ((c * c) * (y2 * y2)) by ring.
  apply Rltb_scale. nra.
Qed.

(* mode 0: drop the weaker of coordinates 2, 3 of the CURRENT vector; other modes: drop coordinate 2 *)
Definition choose3 (n : nat) (y : v3) : v3 -> v3 :=
  match n with O => if weak3 y then drop3 else drop2 | S _ => drop2 end.
Lemma choose3_scale n c x : 0 < c -> choose3 n (smul3 c x) = choose3 n x.
Proof. intros Hc. destruct n; [|reflexivity]. cbn [choose3]. now rewrite weak3_scale. Qed.
Lemma drop3_homog c x : drop3 (smul3 c x) = smul3 c (drop3 x).
Proof. destruct x as [[x1 x2] x3]. cbn. f_equal. ring. Qed.
Lemma drop2_homog c x : drop2 (smul3 c x) = smul3 c (drop2 x).
Proof. destruct x as [[x1 x2] x3]. cbn. f_equal. f_equal. ring. Qed.
Lemma choose3_homog n y c x : 0 < c -> choose3 n y (smul3 c x) = smul3 c (choose3 n y x).
Proof.
  intros _. destruct n; cbn [choose3]; [destruct (weak3 y)|]; auto using drop3_homog, drop2_homog.
Qed.

Lemma weak3_132 : weak3 (1, 3, 2) = true.
Proof. cbn [weak3]. apply Rltb_true. lra. Qed.

Lemma hosvd3_base : forall sequential,
  hosvd v3 choose3 sequential [0; 1]%nat (1, 3, 2) = ([drop3; drop2], (1, 0, 0)).
Proof.
  intros [|]; cbv [hosvd hosvd_nonseq hosvd_seq hosvd_nonseq_from choose3 fst snd]; rewrite !weak3_132; reflexivity.
Qed.

(* data (1,3,2) scaled by 2: same projectors [drop3; drop2], approximation 2 * (1,0,0), squared error 4 * 13,
   relative error unchanged — for sequential = True and False *)
Example hosvd_scale_example : forall sequential,
  let x := (1, 3, 2) in
  let r' := hosvd v3 choose3 sequential [0; 1]%nat (smul3 2 x) in
  fst r' = [drop3; drop2] /\ snd r' = smul3 2 (1, 0, 0) /\
  nrm2 v3 inner3 (sub3 (smul3 2 x) (snd r')) = 2 * 2 * 13 /\
  nrm2 v3 inner3 (sub3 (smul3 2 x) (snd r')) * nrm2 v3 inner3 x = 13 * nrm2 v3 inner3 (smul3 2 x).
Proof.
  intros sq x r'. assert (H2 : 0 < 2) by lra.
  destruct (hosvd_scale v3 smul3 choose3 choose3_scale choose3_homog sq [0; 1]%nat 2 x H2) as [Hf Hs].
  pose proof (hosvd_relerr_scale v3 sub3 inner3 smul3 inner3_sym inner3_smul sub3_smul choose3 choose3_scale
                choose3_homog sq [0; 1]%nat 2 x H2) as [He Hr].
  fold r' in Hf, Hs, He, Hr. unfold x in *. rewrite hosvd3_base in *. cbn [fst snd] in *.
  assert (H13 : nrm2 v3 inner3 (sub3 (1, 3, 2) (1, 0, 0)) = 13) by (unfold nrm2; cbn; lra).
  rewrite H13 in *. auto.
Qed.

(* C2 on R^3: factor state = which coordinate projector (0: drop3, 1: drop2); mode 0 re-chooses it from the data *)
Definition A3 (U : nat) (x : v3) : v3 := match U with O => drop3 x | S _ => drop2 x end.
Definition upd3 (n U : nat) (x : v3) : nat := match n with O => if weak3 x then 0%nat else 1%nat | S _ => U end.
Lemma upd3_scale n U c x : 0 < c -> upd3 n U (smul3 c x) = upd3 n U x.
Proof. intros Hc. destruct n; [|reflexivity]. cbn [upd3]. now rewrite weak3_scale. Qed.
Lemma A3_lin U c x : 0 < c -> A3 U (smul3 c x) = smul3 c (A3 U x).
Proof. intros _. destruct U; cbn [A3]; auto using drop3_homog, drop2_homog. Qed.

Lemma sweeps3_base : sweeps v3 nat upd3 [0; 1]%nat 2 1%nat (1, 3, 2) = 0%nat.
Proof. cbv [sweeps sweep fold_left upd3]. rewrite !weak3_132. reflexivity. Qed.

(* start U0 = 1 (drop2); two sweeps over dimorder [0;1] on (1,3,2) and on 2*(1,3,2): same state 0 (drop3), core
   2*(1,3,0), normX^2 - ||core||^2 = 4 * 4, same fit *)
Example tucker_als_scale_example :
  let x := (1, 3, 2) in
  let g' := als_core v3 nat v3 A3 upd3 [0; 1]%nat 2 1%nat (smul3 2 x) in
  sweeps v3 nat upd3 [0; 1]%nat 2 1%nat (smul3 2 x) = 0%nat /\
  g' = smul3 2 (1, 3, 0) /\
  resid2 v3 inner3 v3 inner3 (smul3 2 x) g' = 2 * 2 * 4 /\
  fit_of v3 inner3 v3 inner3 (smul3 2 x) g' = 1 - sqrt (Rabs 4) / sqrt 14.
Proof.
  intros x g'. assert (H2 : 0 < 2) by lra.
  pose proof (tucker_als_scale v3 inner3 smul3 inner3_sym inner3_smul nat v3 A3 smul3 inner3 upd3 upd3_scale A3_lin
                inner3_smul2 [0; 1]%nat 2 1%nat 2 x H2) as (Hs & Hg & Hr & _ & Hf).
  fold g' in Hg, Hr, Hf. unfold als_core, x in *. rewrite sweeps3_base in *. cbn [A3 drop3] in *.
  assert (Hres : resid2 v3 inner3 v3 inner3 (1, 3, 2) (1, 3, 0) = 4) by (unfold resid2, nrm2; cbn; lra).
  assert (Hn : nrm2 v3 inner3 (1, 3, 2) = 14) by (unfold nrm2; cbn; lra).
  rewrite Hres in *. split; [exact Hs|]. split; [exact Hg|]. split; [exact Hr|].
  rewrite Hf by (rewrite Hn; lra). unfold fit_of. now rewrite Hres, Hn.
Qed.

(* the loop with the convergence test, stoptol = 1/10, start fit 0, at most 5 iterations *)
Example tucker_als_loop_scale_example :
  als_loop v3 inner3 nat v3 A3 inner3 upd3 (1 / 10) [0; 1]%nat 5 1%nat 0 (smul3 2 (1, 3, 2)) =
  als_loop v3 inner3 nat v3 A3 inner3 upd3 (1 / 10) [0; 1]%nat 5 1%nat 0 (1, 3, 2).
Proof.
  apply (tucker_als_loop_scale v3 inner3 smul3 inner3_sym inner3_smul nat v3 A3 smul3 inner3 upd3 upd3_scale A3_lin
           inner3_smul2); [lra|]. unfold nrm2. cbn. lra.
Qed.

(* the full-model statement with synthesis = identity embedding of the core space v3 into v3 *)
Example tucker_als_model_scale_example :
  let Syn := (fun (_ : nat) (g : v3) => g) in
  Syn (sweeps v3 nat upd3 [0; 1]%nat 2 1%nat (smul3 2 (1, 3, 2))) (als_core v3 nat v3 A3 upd3 [0; 1]%nat 2 1%nat (smul3 2 (1, 3, 2)))
  = smul3 2 (1, 3, 0).
Proof.
  intros Syn. assert (H2 : 0 < 2) by lra.
  destruct (tucker_als_model_scale v3 sub3 inner3 smul3 inner3_sym inner3_smul sub3_smul nat v3 A3 smul3 inner3 upd3
              upd3_scale A3_lin inner3_smul2 Syn (fun _ _ _ _ => eq_refl) [0; 1]%nat 2 1%nat 2 (1, 3, 2) H2) as [H _].
  rewrite H. unfold als_core. rewrite sweeps3_base. reflexivity.
Qed.

Print Assumptions hosvd_rank_scale.
Print Assumptions hosvd_last_above_scale.
Print Assumptions hosvd_ncols_scale.
Print Assumptions hosvd_keep_cols_scale.
Print Assumptions hosvd_rank_scale_data.
Print Assumptions ttm_den_scale.
Print Assumptions gram_den_scale.
Print Assumptions den_t_scale_core.
Print Assumptions sumsq_scale.
Print Assumptions ttm_scale.
Print Assumptions tucker_fit_scale.
Print Assumptions hosvd_applyPs.
Print Assumptions hosvd_scale.
Print Assumptions hosvd_relerr_scale.
Print Assumptions tucker_als_scale.
Print Assumptions tucker_als_model_scale.
Print Assumptions tucker_als_loop_scale.
