(* Model/W4SPreludeZ.v — vocabulary of the skeleton translator tools/pyx2v_skel.py for units with integer (Z) arithmetic and
   dynamically typed arguments (Gen/GenSampler.v).  A Python argument annotated Optional[Union[int, C]] (C a dataclass) is a value
   of `sk_dyn C`: None, an int, a C object, or anything else; the tests `x is None`, `isinstance(x, int)`, `isinstance(x, C)` are
   the three recognisers, using the value as a number / reading an attribute of it goes through `sk_int` / `sk_obj`
   (TypeError / AttributeError = None).  `a / b` and `ceil(a / b)` on ints raise ZeroDivisionError for b = 0; the float quotient
   and its ceiling are opaque kernels of the generated Section. *)
From Coq Require Import ZArith Bool.
Local Open Scope Z_scope.

Inductive sk_dyn (C : Type) : Type := SkNone | SkInt (n : Z) | SkObj (c : C) | SkOther.
Arguments SkNone {C}.
Arguments SkInt {C} n.
Arguments SkObj {C} c.
Arguments SkOther {C}.

Definition sk_is_none {C} (x : sk_dyn C) : bool := match x with SkNone => true | _ => false end.
Definition sk_is_int {C} (x : sk_dyn C) : bool := match x with SkInt _ => true | _ => false end.
Definition sk_is_obj {C} (x : sk_dyn C) : bool := match x with SkObj _ => true | _ => false end.
Definition sk_int {C} (x : sk_dyn C) : option Z := match x with SkInt n => Some n | _ => None end.
Definition sk_obj {C} (x : sk_dyn C) : option C := match x with SkObj c => Some c | _ => None end.

(* ceil(a / b): ZeroDivisionError = None, otherwise the kernel's answer *)
Definition sk_ceildiv (cd : Z -> Z -> Z) (a b : Z) : option Z := if b =? 0 then None else Some (cd a b).
(* a / b (float quotient of two ints): ZeroDivisionError = None *)
Definition sk_fdiv {F} (fd : Z -> Z -> F) (a b : Z) : option F := if b =? 0 then None else Some (fd a b).
