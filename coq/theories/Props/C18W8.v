(* Props/C18W8.v — C18 wave 8, clause "whatever the printing / verbosity settings", over the GENERATED PDNR / PQNR drivers of cp_apr
   (Gen/GenCpAprPdnr.v, Gen/GenCpAprPqnr.v: pyttb/cp_apr.py::tt_cp_apr_pdnr / tt_cp_apr_pqnr, region `M = init.copy()` ..
   `return (M, output)`, regenerated from /repo by tools/pyx2v_skel.py on every run; all numeric kernels, the clock and all inputs
   arbitrary).  This moves print.cp_apr_pdnr / print.cp_apr_pqnr from the hand drivers (Proofs/C18PrintRows.v) to generated code.

   The generated text reads printinneritn only as `dispLineWarn = printinneritn > 0`, the last argument of the line-search kernels
   (in the source it gates warnings.warn): hypothesis = those kernels' answers do not depend on that flag.  It reads printitn in
   `if printitn > 0 and iteration % printitn == 0: fnVals[iteration] = -tt_loglikelihood(X, M)` (PDNR: under `if inexact:`), so
   output["fnVals"] is a print-only field.  c18w8_drop_fnvals replaces it by its length:
     (M, (kktViolations, obj, fnEvals, fnVals, nInnerIters, nZeros, times, totalTime), world)
       |-> (M, (kktViolations, obj, fnEvals, len fnVals, nInnerIters, nZeros, times, totalTime), world);   None = the driver raised.
   Non-vacuity: Proofs/C18W8Examples.v (C18W8PdnrExample, C18W8PqnrExample: the drivers return, fnVals differs, the rest agrees).
   Only statements, `exact`, Print Assumptions. *)
From Coq Require Import String List Arith Bool.
From PV Require Import Model.W4SPrelude Gen.GenCpAprPdnr Gen.GenCpAprPqnr Proofs.C18W8Util Proofs.C18W8Pdnr Proofs.C18W8PdnrMain Proofs.C18W8Pqnr
  Proofs.C18W8PqnrMain.
Import ListNotations.
Local Open Scope nat_scope.

Section C18W8_pdnr.
Variables T_W T_F T_K T_X T_Pi T_Xmat T_Idx T_Row : Type.
Variable c_leF : T_F -> T_F -> bool.
Variable c_zeroF : T_F.
Variable c_m1F : T_F.
Variable c_subF : T_F -> T_F -> T_F.
Variable k_normalize : T_K -> nat -> T_K.
Variable k_is_sptensor : T_X -> bool.
Variable k_time : T_W -> T_W * T_F.
Variable k_num_rows : T_K -> nat -> nat.
Variable k_row_indices : T_X -> nat -> nat -> T_Idx.
Variable k_ones_row : nat -> T_Row.
Variable k_redistribute : T_K -> nat -> T_K.
Variable k_is_tensor : T_X -> bool.
Variable k_calcpi_dense : T_X -> T_K -> nat -> nat -> nat -> bool -> T_Pi.
Variable k_unfold : T_X -> nat -> T_Xmat.
Variable k_idx_empty : T_Idx -> bool.
Variable k_zero_row : T_K -> nat -> nat -> T_K.
Variable k_vals_at : T_X -> T_Idx -> T_Row.
Variable k_calcpi_sparse : T_X -> T_K -> nat -> nat -> nat -> bool -> T_Idx -> T_Pi.
Variable k_get_row : T_K -> nat -> nat -> T_Row.
Variable k_calc_partials : bool -> T_Pi -> T_F -> T_Row -> T_Row -> T_Row * T_Row.
Variable k_grad : T_Row -> T_Row -> T_Row.
Variable k_kkt_row : T_Row -> T_Row -> T_F.
Variable k_search_dir_pdnr : T_Pi -> T_Row -> nat -> T_Row -> T_Row -> T_F -> T_F -> T_Row * T_F.
Variable k_linesearch : T_Row -> T_Row -> T_Row -> bool -> T_Row -> T_Pi -> T_Row -> bool -> T_Row * T_F * T_F * nat.
Variable k_rho : T_F -> T_F -> T_F.
Variable k_is_zeroF : T_F -> bool.
Variable k_mu_times_10 : T_F -> T_F.
Variable k_lt_quarter : T_F -> bool.
Variable k_mu_times_7_2 : T_F -> T_F.
Variable k_gt_three_quarters : T_F -> bool.
Variable k_mu_times_2_7 : T_F -> T_F.
Variable k_set_row : T_K -> nat -> nat -> T_Row -> T_K.
Variable k_xmat_row : T_Xmat -> nat -> T_Row.
Variable k_any_row : T_Row -> bool.
Variable k_normalize_mode : T_K -> nat -> nat -> T_K.
Variable k_count_zero : T_K -> nat -> nat.
Variable k_max : list T_F -> T_F.
Variable k_inexact_tol : T_F -> list T_F -> nat -> T_F.
Variable k_print_now : nat -> nat -> bool.
Variable k_neg_loglikelihood : T_X -> T_K -> T_F.
Variable k_normalize_sort : T_K -> nat -> bool -> T_K.
Variable k_loglikelihood : T_X -> T_K -> T_F.
Notation gpdnr := (GenCpAprPdnr.cp_apr_pdnr T_W T_F T_K T_X T_Pi T_Xmat T_Idx T_Row c_leF c_zeroF c_m1F c_subF k_normalize k_is_sptensor k_time k_num_rows k_row_indices k_ones_row k_redistribute k_is_tensor k_calcpi_dense k_unfold k_idx_empty k_zero_row k_vals_at k_calcpi_sparse k_get_row k_calc_partials k_grad k_kkt_row k_search_dir_pdnr k_linesearch k_rho k_is_zeroF k_mu_times_10 k_lt_quarter k_mu_times_7_2 k_gt_three_quarters k_mu_times_2_7 k_set_row k_xmat_row k_any_row k_normalize_mode k_count_zero k_max k_inexact_tol k_print_now k_neg_loglikelihood k_normalize_sort k_loglikelihood).

(* two PDNR runs that differ only in (printitn, printinneritn): both raise, or both return the same model, world and output
   except that fnVals (same length) is filled on the printed iterations only *)
Theorem C18_gen_print_cp_apr_pdnr :
  (forall d g m sp x Pi ph (b : bool), k_linesearch d g m sp x Pi ph b = k_linesearch d g m sp x Pi ph false) ->
  forall w X rank init stoptol stoptime maxiters maxinner eps epsActive mu0 precomp inexact N (p1 q1 p2 q2 : nat),
  option_map c18w8_drop_fnvals (gpdnr w X rank init stoptol stoptime maxiters maxinner eps p1 q1 epsActive mu0 precomp inexact N) =
  option_map c18w8_drop_fnvals (gpdnr w X rank init stoptol stoptime maxiters maxinner eps p2 q2 epsActive mu0 precomp inexact N).
Proof. exact (gen_cp_apr_pdnr_print_indep T_W T_F T_K T_X T_Pi T_Xmat T_Idx T_Row c_leF c_zeroF c_m1F c_subF k_normalize k_is_sptensor k_time k_num_rows k_row_indices k_ones_row k_redistribute k_is_tensor k_calcpi_dense k_unfold k_idx_empty k_zero_row k_vals_at k_calcpi_sparse k_get_row k_calc_partials k_grad k_kkt_row k_search_dir_pdnr k_linesearch k_rho k_is_zeroF k_mu_times_10 k_lt_quarter k_mu_times_7_2 k_gt_three_quarters k_mu_times_2_7 k_set_row k_xmat_row k_any_row k_normalize_mode k_count_zero k_max k_inexact_tol k_print_now k_neg_loglikelihood k_normalize_sort k_loglikelihood). Qed.

(* the two printitn values print at the same iterations (both 0, both above maxiters, equal, ...): the whole result is the same *)
Theorem C18_gen_print_cp_apr_pdnr_same_gate :
  (forall d g m sp x Pi ph (b : bool), k_linesearch d g m sp x Pi ph b = k_linesearch d g m sp x Pi ph false) ->
  forall w X rank init stoptol stoptime maxiters maxinner eps epsActive mu0 precomp inexact N (p1 q1 p2 q2 : nat),
  (forall i, (0 <? p1) && k_print_now i p1 = (0 <? p2) && k_print_now i p2) ->
  gpdnr w X rank init stoptol stoptime maxiters maxinner eps p1 q1 epsActive mu0 precomp inexact N =
  gpdnr w X rank init stoptol stoptime maxiters maxinner eps p2 q2 epsActive mu0 precomp inexact N.
Proof. exact (gen_cp_apr_pdnr_print_same_gate T_W T_F T_K T_X T_Pi T_Xmat T_Idx T_Row c_leF c_zeroF c_m1F c_subF k_normalize k_is_sptensor k_time k_num_rows k_row_indices k_ones_row k_redistribute k_is_tensor k_calcpi_dense k_unfold k_idx_empty k_zero_row k_vals_at k_calcpi_sparse k_get_row k_calc_partials k_grad k_kkt_row k_search_dir_pdnr k_linesearch k_rho k_is_zeroF k_mu_times_10 k_lt_quarter k_mu_times_7_2 k_gt_three_quarters k_mu_times_2_7 k_set_row k_xmat_row k_any_row k_normalize_mode k_count_zero k_max k_inexact_tol k_print_now k_neg_loglikelihood k_normalize_sort k_loglikelihood). Qed.

(* inexact = False: the whole result, fnVals included, is the same for any two (printitn, printinneritn) *)
Theorem C18_gen_print_cp_apr_pdnr_exact :
  (forall d g m sp x Pi ph (b : bool), k_linesearch d g m sp x Pi ph b = k_linesearch d g m sp x Pi ph false) ->
  forall w X rank init stoptol stoptime maxiters maxinner eps epsActive mu0 precomp N (p1 q1 p2 q2 : nat),
  gpdnr w X rank init stoptol stoptime maxiters maxinner eps p1 q1 epsActive mu0 precomp false N =
  gpdnr w X rank init stoptol stoptime maxiters maxinner eps p2 q2 epsActive mu0 precomp false N.
Proof. exact (gen_cp_apr_pdnr_print_exact T_W T_F T_K T_X T_Pi T_Xmat T_Idx T_Row c_leF c_zeroF c_m1F c_subF k_normalize k_is_sptensor k_time k_num_rows k_row_indices k_ones_row k_redistribute k_is_tensor k_calcpi_dense k_unfold k_idx_empty k_zero_row k_vals_at k_calcpi_sparse k_get_row k_calc_partials k_grad k_kkt_row k_search_dir_pdnr k_linesearch k_rho k_is_zeroF k_mu_times_10 k_lt_quarter k_mu_times_7_2 k_gt_three_quarters k_mu_times_2_7 k_set_row k_xmat_row k_any_row k_normalize_mode k_count_zero k_max k_inexact_tol k_print_now k_neg_loglikelihood k_normalize_sort k_loglikelihood). Qed.
End C18W8_pdnr.

Print Assumptions C18_gen_print_cp_apr_pdnr.
Print Assumptions C18_gen_print_cp_apr_pdnr_same_gate.
Print Assumptions C18_gen_print_cp_apr_pdnr_exact.

Section C18W8_pqnr.
Variables T_W T_F T_K T_X T_Pi T_Xmat T_Idx T_Row T_Mem : Type.
Variable c_leF : T_F -> T_F -> bool.
Variable c_zeroF : T_F.
Variable c_m1F : T_F.
Variable c_subF : T_F -> T_F -> T_F.
Variable k_normalize : T_K -> nat -> T_K.
Variable k_is_sptensor : T_X -> bool.
Variable k_time : T_W -> T_W * T_F.
Variable k_num_rows : T_K -> nat -> nat.
Variable k_row_indices : T_X -> nat -> nat -> T_Idx.
Variable k_redistribute : T_K -> nat -> T_K.
Variable k_calcpi_dense : T_X -> T_K -> nat -> nat -> nat -> bool -> T_Pi.
Variable k_unfold : T_X -> nat -> T_Xmat.
Variable k_idx_empty : T_Idx -> bool.
Variable k_zero_row : T_K -> nat -> nat -> T_K.
Variable k_vals_at : T_X -> T_Idx -> T_Row.
Variable k_calcpi_sparse : T_X -> T_K -> nat -> nat -> nat -> bool -> T_Idx -> T_Pi.
Variable k_get_row : T_K -> nat -> nat -> T_Row.
Variable k_zeros_mem : nat -> nat -> T_Mem.
Variable k_empty_row : T_Row -> T_Row.
Variable k_calc_grad : bool -> T_Pi -> T_F -> T_Row -> T_Row -> T_Row * T_Row.
Variable k_linesearch_first : T_Row -> T_Row -> bool -> T_Row -> T_Pi -> T_Row -> bool -> T_Row * nat.
Variable k_kkt_row : T_Row -> T_Row -> T_F.
Variable k_row_sub : T_Row -> T_Row -> T_Row.
Variable k_row_dot : T_Row -> T_Row -> T_F.
Variable k_is_zeroF : T_F -> bool.
Variable k_recip : T_F -> T_F.
Variable k_set_col : T_Mem -> nat -> T_Row -> T_Mem.
Variable k_search_dir_pqnr : T_Row -> T_Row -> T_F -> T_Mem -> T_Mem -> list T_F -> nat -> nat -> bool -> T_Row.
Variable k_linesearch : T_Row -> T_Row -> T_Row -> bool -> T_Row -> T_Pi -> T_Row -> bool -> T_Row * nat.
Variable k_last_rho_positive : list T_F -> nat -> bool.
Variable k_set_row : T_K -> nat -> nat -> T_Row -> T_K.
Variable k_xmat_row : T_Xmat -> nat -> T_Row.
Variable k_any_row : T_Row -> bool.
Variable k_normalize_mode : T_K -> nat -> nat -> T_K.
Variable k_count_zero : T_K -> nat -> nat.
Variable k_max : list T_F -> T_F.
Variable k_print_now : nat -> nat -> bool.
Variable k_neg_loglikelihood : T_X -> T_K -> T_F.
Variable k_normalize_sort : T_K -> nat -> bool -> T_K.
Variable k_loglikelihood : T_X -> T_K -> T_F.
Notation gpqnr := (GenCpAprPqnr.cp_apr_pqnr T_W T_F T_K T_X T_Pi T_Xmat T_Idx T_Row T_Mem c_leF c_zeroF c_m1F c_subF k_normalize k_is_sptensor k_time k_num_rows k_row_indices k_redistribute k_calcpi_dense k_unfold k_idx_empty k_zero_row k_vals_at k_calcpi_sparse k_get_row k_zeros_mem k_empty_row k_calc_grad k_linesearch_first k_kkt_row k_row_sub k_row_dot k_is_zeroF k_recip k_set_col k_search_dir_pqnr k_linesearch k_last_rho_positive k_set_row k_xmat_row k_any_row k_normalize_mode k_count_zero k_max k_print_now k_neg_loglikelihood k_normalize_sort k_loglikelihood).

(* two PQNR runs that differ only in (printitn, printinneritn): both raise (the 'L-BFGS first iterate is bad' assertion included), or
   both return the same model, world and output except that fnVals (same length) is filled on the printed iterations only *)
Theorem C18_gen_print_cp_apr_pqnr :
  (forall g m sp x Pi ph (b : bool), k_linesearch_first g m sp x Pi ph b = k_linesearch_first g m sp x Pi ph false) ->
  (forall m g e dm dg rho pos i (b : bool), k_search_dir_pqnr m g e dm dg rho pos i b = k_search_dir_pqnr m g e dm dg rho pos i false) ->
  (forall d g m sp x Pi ph (b : bool), k_linesearch d g m sp x Pi ph b = k_linesearch d g m sp x Pi ph false) ->
  forall w X rank init stoptol stoptime maxiters maxinner eps epsActive lbfgsMem precomp N (p1 q1 p2 q2 : nat),
  option_map c18w8_drop_fnvals (gpqnr w X rank init stoptol stoptime maxiters maxinner eps p1 q1 epsActive lbfgsMem precomp N) =
  option_map c18w8_drop_fnvals (gpqnr w X rank init stoptol stoptime maxiters maxinner eps p2 q2 epsActive lbfgsMem precomp N).
Proof. exact (gen_cp_apr_pqnr_print_indep T_W T_F T_K T_X T_Pi T_Xmat T_Idx T_Row T_Mem c_leF c_zeroF c_m1F c_subF k_normalize k_is_sptensor k_time k_num_rows k_row_indices k_redistribute k_calcpi_dense k_unfold k_idx_empty k_zero_row k_vals_at k_calcpi_sparse k_get_row k_zeros_mem k_empty_row k_calc_grad k_linesearch_first k_kkt_row k_row_sub k_row_dot k_is_zeroF k_recip k_set_col k_search_dir_pqnr k_linesearch k_last_rho_positive k_set_row k_xmat_row k_any_row k_normalize_mode k_count_zero k_max k_print_now k_neg_loglikelihood k_normalize_sort k_loglikelihood). Qed.

(* the two printitn values print at the same iterations: the whole result is the same *)
Theorem C18_gen_print_cp_apr_pqnr_same_gate :
  (forall g m sp x Pi ph (b : bool), k_linesearch_first g m sp x Pi ph b = k_linesearch_first g m sp x Pi ph false) ->
  (forall m g e dm dg rho pos i (b : bool), k_search_dir_pqnr m g e dm dg rho pos i b = k_search_dir_pqnr m g e dm dg rho pos i false) ->
  (forall d g m sp x Pi ph (b : bool), k_linesearch d g m sp x Pi ph b = k_linesearch d g m sp x Pi ph false) ->
  forall w X rank init stoptol stoptime maxiters maxinner eps epsActive lbfgsMem precomp N (p1 q1 p2 q2 : nat),
  (forall i, (0 <? p1) && k_print_now i p1 = (0 <? p2) && k_print_now i p2) ->
  gpqnr w X rank init stoptol stoptime maxiters maxinner eps p1 q1 epsActive lbfgsMem precomp N =
  gpqnr w X rank init stoptol stoptime maxiters maxinner eps p2 q2 epsActive lbfgsMem precomp N.
Proof. exact (gen_cp_apr_pqnr_print_same_gate T_W T_F T_K T_X T_Pi T_Xmat T_Idx T_Row T_Mem c_leF c_zeroF c_m1F c_subF k_normalize k_is_sptensor k_time k_num_rows k_row_indices k_redistribute k_calcpi_dense k_unfold k_idx_empty k_zero_row k_vals_at k_calcpi_sparse k_get_row k_zeros_mem k_empty_row k_calc_grad k_linesearch_first k_kkt_row k_row_sub k_row_dot k_is_zeroF k_recip k_set_col k_search_dir_pqnr k_linesearch k_last_rho_positive k_set_row k_xmat_row k_any_row k_normalize_mode k_count_zero k_max k_print_now k_neg_loglikelihood k_normalize_sort k_loglikelihood). Qed.
End C18W8_pqnr.

Print Assumptions C18_gen_print_cp_apr_pqnr.
Print Assumptions C18_gen_print_cp_apr_pqnr_same_gate.
