(* Model/C04Extra.v — C04, wave 2 (definitions only, executable):
   (a) numpy ADVANCED indexing for region keys that contain at least one index list (the A-16 key class on the dense side):
       integer and list elements are "advanced" indices, broadcast against each other (lists of one common length L, lists of
       length 1 and integers are repeated) and ZIPPED; slices are basic indices.  The advanced dimension (extent L) stands
       where the advanced block stood if all advanced elements are adjacent, otherwise it moves FIRST.
       This is what pyttb's tensor.__getitem__/__setitem__ do (they hand the key to ndarray); the property demands the
       outer product (resolve_get), which is what sptensor does — see Proofs/C04NpAdv.v for the refutation.
   (b) tenmat.__getitem__/__setitem__ and sptenmat.__setitem__: a (sp)tenmat under entry access is a 2-way array of FIXED
       shape (rows, cols): the executable specification is the dense / sparse step of C04Model restricted to keys that do
       not resize. *)
From Coq Require Import List Arith ZArith Bool.
From PV Require Import Base.Index Np.Array Model.Sparse Model.Harness Model.C04Model Model.C04Harness Model.C04Mat.
Import ListNotations.

(* ------------------------------------------------------------------------------------------------ *)
(* (a) numpy advanced indexing                                                                        *)
(* ------------------------------------------------------------------------------------------------ *)
Definition is_adv (e : kelem) : bool := match e with KSlice _ _ _ => false | _ => true end.

Fixpoint lead_len {A} (f : A -> bool) (l : list A) : nat :=      (* length of the longest prefix satisfying f *)
  match l with x :: r => if f x then S (lead_len f r) else 0 | [] => 0 end.

(* the subscript selected by advanced counter j and the slice values sv *)
Fixpoint adv_build (fl : list (bool * list nat)) (j : nat) (sv : list nat) : idx :=
  match fl with
  | [] => []
  | (true, l) :: r => nth (if Nat.eqb (length l) 1 then 0 else j) l 0 :: adv_build r j sv
  | (false, _) :: r => match sv with x :: sv' => x :: adv_build r j sv' | [] => [] end
  end.

Definition np_adv_positions (s : shape) (es : list kelem) : option (shape * list idx) :=
  match s with [] => None | _ =>
  match region_lists s es with
  | None => None
  | Some ls =>
      let fl := combine (map is_adv es) (map snd ls) in
      let advl := map snd (filter (fun x => fst x) fl) in
      let L := fold_right Nat.max 0 (map (@length nat) advl) in
      if forallb (fun l => Nat.eqb (length l) L || Nat.eqb (length l) 1) advl then
        let npre := lead_len (fun x : bool * list nat => negb (fst x)) fl in
        let rest := skipn npre fl in
        let post := skipn (lead_len (fun x : bool * list nat => fst x) rest) rest in
        let adjacent := forallb (fun x : bool * list nat => negb (fst x)) post in
        let sl := map snd (filter (fun x => negb (fst x)) fl) in
        let pos := if adjacent then npre else 0 in
        let lists := firstn pos sl ++ [seq 0 L] ++ skipn pos sl in
        Some (map (@length nat) lists,
              map (fun t => adv_build fl (nth pos t 0) (firstn pos t ++ skipn (S pos) t)) (cartF lists))
      else None
  end end.

Definition has_list (es : list kelem) : bool := existsb (fun e => match e with KList _ => true | _ => false end) es.

(* T[key] as numpy computes it (key with at least one index list) *)
Definition np_adv_get {V} (v0 : V) (T : dense V) (es : list kelem) : option (shape * list V) :=
  if has_list es then
    match np_adv_positions (dshape T) es with
    | Some (os, ps) => Some (os, map (den_dense v0 T) ps) | None => None end
  else None.

(* T[key] = scalar as pyttb computes it: grow exactly as for every region key, then numpy assigns the zipped positions *)
Definition np_adv_set_scalar {V} (v0 : V) (T : dense V) (es : list kelem) (v : V) : option (dense V) :=
  if has_list es && region_ok (dshape T) es then
    let s' := grow (dshape T) (map elem_need es) in
    match np_adv_positions s' es with
    | Some (_, ps) => if forallb (inb s') ps then Some (dense_assign v0 T s' (combine ps (repeat v (length ps)))) else None
    | None => None end
  else None.

(* comparers: pyttb must show EITHER the numpy behaviour (the known finding A-16 is still there) OR the outer product the
   property demands (repaired); anything else is a violation *)
Definition out_ok_opt (o : option (outv (V:=Z))) (x : xout) : bool :=
  match o with Some o' => out_ok o' x | None => false end.

Definition check_np_adv_get (T : dense Z) (es : list kelem) (x : xout) : bool :=
  out_ok_opt (np_adv_get 0%Z T es) x
  || out_ok_opt (match zstep_dense T (OGet (KRegion es)) with Some (_, o) => Some o | None => None end) x.

Definition check_np_adv_set (T : dense Z) (es : list kelem) (v : Z) (T2 : dense Z) : bool :=
  match np_adv_set_scalar 0%Z T es v with Some T1 => dense_eqb T1 T2 | None => false end
  || match zstep_dense T (OSet (KRegion es) (RScalar v)) with Some (T1, _) => dense_eqb T1 T2 | None => false end.

(* is the key in the class where numpy and the outer product differ?  (used to keep the stream non-trivial) *)
Definition np_adv_differs (T : dense Z) (es : list kelem) : bool :=
  match np_adv_get 0%Z T es, zstep_dense T (OGet (KRegion es)) with
  | Some (s1, v1), Some (_, (s2, v2)) => negb (nvec_eqb s1 s2 && vec_eqb v1 v2)
  | _, _ => true end.

(* ------------------------------------------------------------------------------------------------ *)
(* (b) tenmat / sptenmat entry access: 2-way arrays of fixed shape                                    *)
(* ------------------------------------------------------------------------------------------------ *)
(* the Z instances of the generic fixed-shape steps of Model/C04Mat.v (theorems: Proofs/C04Mat.v) *)
Definition fixed_step_dense (T : dense Z) (o : zop) : option (dense Z * outv (V:=Z)) := fixed_step_dense_g 0%Z T o.
Definition fixed_step_sparse (S : sparse Z) (o : zop) : option (sparse Z * outv (V:=Z)) := fixed_step_sparse_g 0%Z zisz S o.

(* tenmat: raw matrix after every step and the returned value; a request the specification rejects (out of range) must raise
   and leave the matrix unchanged *)
Fixpoint check_tenmat (T : dense Z) (ops : list zop) (obs : list (dense Z * option xout)) : bool :=
  match ops, obs with
  | [], [] => true
  | o :: ops', (T2, xo) :: obs' =>
      match fixed_step_dense T o, xo with
      | Some (T1, out), Some x => dense_eqb T1 T2 && out_ok out x && check_tenmat T1 ops' obs'
      | None, None => dense_eqb T T2 && check_tenmat T ops' obs'
      | _, _ => false
      end
  | _, _ => false
  end.

(* sptenmat: denotation + well-formedness (in range, no duplicate, no stored zero, |subs| = |vals|) after every step;
   the stored order (existing entries in place, new ones merged by a (row, col) sort) is not pinned *)
Fixpoint check_sptenmat (S : sparse Z) (ops : list zop) (obs : list (sparse Z * bool)) : bool :=
  match ops, obs with
  | [], [] => true
  | o :: ops', (S2, accepted) :: obs' =>
      match fixed_step_sparse S o, accepted with
      | Some (S1, _), true => nvec_eqb (sshape S1) (sshape S2) && wf_spb zisz S2 && sp_denotes S2 (full 0%Z S1)
                              && check_sptenmat S1 ops' obs'
      | None, false => nvec_eqb (sshape S) (sshape S2) && wf_spb zisz S2 && sp_denotes S2 (full 0%Z S)
                       && check_sptenmat S ops' obs'      (* rejected: nothing changes *)
      | _, _ => false
      end
  | _, _ => false
  end.

(* ------------------------------------------------------------------------------------------------ *)
(* (c) wave 3: histories whose sparse stored order is not the faithful model's (start states that are results of earlier
   computations, sptensor right-hand sides in arbitrary stored order / returned by earlier reads): the model is stepped from
   the OBSERVED previous state (the refinement theorems hold for every stored order) and the observed next state must be
   well-formed and denote the model's next state; a sptensor returned by a read must be well-formed as well *)
(* ------------------------------------------------------------------------------------------------ *)
Definition xout_wf (x : xout) : bool := match x with XSparse R => wf_spb zisz R | _ => true end.

Fixpoint check_sparse_den (S : sparse Z) (ops : list zop) (obs : list (sparse Z * option xout)) : bool :=
  match ops, obs with
  | [], [] => true
  | o :: ops', (S2, xo) :: obs' =>
      match zstep_sparse S o, xo with
      | Some (S1, out), Some x => sp_denotes S2 (full 0%Z S1) && out_ok out x && xout_wf x && check_sparse_den S2 ops' obs'
      | None, None => sp_raw_eqb S S2 && check_sparse_den S2 ops' obs'
      | _, _ => false
      end
  | _, _ => false
  end.

(* the start state pyttb built (from C-ordered / non-contiguous data, by a computation, by a read) is the intended array *)
Definition start_dense_ok (T0 T : dense Z) : bool := dense_eqb T0 T.
Definition start_sparse_ok (S0 : sparse Z) (T : dense Z) : bool := sp_denotes S0 T.
