(* Proofs/C08Gen3.v — wave 4: the translator-GENERATED ktensor.update (Gen/GenKtensor4.v, regenerated from /repo/pyttb/ktensor.py
   on every run) computes C08's hand model k_update (Model/C08Kruskal.v: firstn / skipn recursion over the listed modes).
   Route: update_bridge (w4-translator, Proofs/W4KtensorVec.v): ktensor_update = H_update (a fold with a read position into the
   data vector, chunks taken by Python slices, np.reshape(order="F"));  here: H_update_loop = k_update_loop on the shared record.
   Hence C08_update_all_modes / C08_update_frame speak about the generated code. *)
From Coq Require Import List ZArith Arith Bool Lia.
From PV Require Import Base.Index Base.Perm Base.Sum Np.NpZ Np.NpZ2 Np.NpZ3 Np.NpZ3c Np.NpZ3d Np.NpZ3e Np.NpZ4 Proofs.NpZProofs
  Proofs.W3Bridge Model.Repr Model.C08Kruskal Model.W4Ktensor Model.W4KtensorVec Proofs.W4Slices Proofs.W4KtensorVec Gen.GenKtensor4
  Proofs.C08Gen Proofs.C08Vec.
Import ListNotations.
Local Open Scope Z_scope.

(* a Python mode of update(): -1 = the weights, k >= 0 = factor k *)
Definition mopt (k : Z) : option nat := if k =? -1 then None else Some (Z.to_nat k).

Lemma chunk_firstn (data : vec) (loc n : Z) : 0 <= loc -> 0 <= n -> loc + n <= zlen data ->
  H_chunk data loc (loc + n) = firstn (Z.to_nat n) (skipn (Z.to_nat loc) data).
Proof. intros H1 H2 H3. unfold H_chunk. rewrite py_slice_in by lia. do 2 f_equal. lia. Qed.

Lemma skipn_add {A} (l : list A) (a b : Z) : 0 <= a -> 0 <= b -> skipn (Z.to_nat (a + b)) l = skipn (Z.to_nat b) (skipn (Z.to_nat a) l).
Proof.
  intros Ha Hb. rewrite Z2Nat.inj_add by lia. generalize (Z.to_nat a) (Z.to_nat b). clear. intros a b. revert l.
  induction a as [|a IH]; intros l; [reflexivity|]. destruct l as [|x l]; cbn [Nat.add skipn]; [now destruct b|apply IH].
Qed.

Lemma reshapeF_unvec (chunk : vec) (m R : nat) :
  np_reshape2 OrdF chunk (Z.of_nat m) (Z.of_nat R) = unvec_factor 0 m R chunk.
Proof.
  unfold np_reshape2, unvec_factor. rewrite !np_arange_0, map_map. apply map_ext. intros i. rewrite map_map. apply map_ext. intros j.
  rewrite <- Nat2Z.inj_mul, <- Nat2Z.inj_add. apply znth_nat.
Qed.

Lemma nrows_nth (fs : list (list (list Z))) (k : nat) : nth k (map (@nrows Z) fs) 0%nat = length (nth k fs []).
Proof. revert k. induction fs as [|f fs IH]; intros [|k]; cbn; auto. Qed.

Lemma update_loop_model (data : vec) : forall (ms : vec) (s : ktz) (loc : Z) (st' : ktz * Z),
  (forall k, In k ms -> -1 <= k) -> 0 <= loc <= zlen data ->
  H_update_loop data ms (s, loc) = Ok st' ->
  to_K (fst st') = k_update_loop 0 (map mopt ms) (skipn (Z.to_nat loc) data) (to_K s).
Proof.
  induction ms as [|k ms IH]; intros s loc st' Hms Hloc E; cbn [H_update_loop map k_update_loop] in *.
  - injection E as <-. reflexivity.
  - assert (Hk : -1 <= k) by (apply Hms; now left).
    assert (Hms' : forall k, In k ms -> -1 <= k) by (intros; apply Hms; now right).
    unfold H_update_step in E. cbn [fst snd] in E. unfold mopt at 1.
    set (R := length (kt_weights s)) in *.
    assert (HR : zlen (kt_weights s) = Z.of_nat R) by reflexivity. rewrite HR in E.
    destruct (Z.eqb_spec k (-1)) as [E1|E1].
    + (* the weights *)
      destruct (Z.ltb_spec (zlen data) (loc + Z.of_nat R)) as [|Hle]; [discriminate|]. cbn [bind] in E.
      rewrite chunk_firstn in E by lia. rewrite Nat2Z.id in E.
      assert (Hloc' : 0 <= loc + Z.of_nat R <= zlen data) by lia.
      rewrite (IH _ _ _ Hms' Hloc' E). unfold to_K at 1. cbn [kt_set_weights kt_weights kt_factors].
      unfold krank, to_K. cbn [kweights kfactors]. fold R. f_equal. rewrite (skipn_add data loc (Z.of_nat R)) by lia. now rewrite Nat2Z.id.
    + (* factor k >= 0 *)
      assert (Hk0 : 0 <= k) by lia.
      destruct (Z.ltb_spec k (zlen (kt_factors s))) as [Hlt|]; [|discriminate].
      destruct (idx_ok (kt_factors s) k); [|discriminate].
      set (kn := Z.to_nat k). assert (Hkn : (kn < length (kt_factors s))%nat) by (unfold zlen in Hlt; lia).
      assert (Ek : k = Z.of_nat kn) by (unfold kn; lia).
      set (mn := length (nth kn (kt_factors s) [])).
      assert (Hm : np_nrows (znth [] (kt_factors s) k) = Z.of_nat mn) by (rewrite Ek, znth_nat; reflexivity).
      rewrite Hm in E. rewrite <- Nat2Z.inj_mul in E.
      destruct (Z.ltb_spec (zlen data) (loc + Z.of_nat (mn * R))) as [|Hle]; [discriminate|].
      rewrite chunk_firstn in E by lia. rewrite Nat2Z.id in E.
      destruct (np_reshape2_ok _ _ _); [|discriminate]. cbn [bind] in E.
      rewrite reshapeF_unvec in E.
      assert (Hloc' : 0 <= loc + Z.of_nat (mn * R) <= zlen data) by lia.
      rewrite (IH _ _ _ Hms' Hloc' E). unfold to_K at 1. cbn [kt_set_factor kt_weights kt_factors].
      unfold krank, kshape, to_K. cbn [kweights kfactors]. fold R. rewrite nrows_nth. fold kn mn.
      rewrite (skipn_add data loc (Z.of_nat (mn * R))) by lia. rewrite Nat2Z.id.
      f_equal. f_equal. unfold np_set. replace (k <? 0) with false by (symmetry; apply Z.ltb_ge; lia).
      exact (upd_is_upd_nth (fun _ => unvec_factor 0 mn R (firstn (mn * R) (skipn (Z.to_nat loc) data))) [] (kt_factors s) kn Hkn).
Qed.

(* THE GENERATED update IS THE HAND MODEL *)
Theorem gen_update_model (self k' : ktz) (modes data : vec) : (forall k, In k modes -> -1 <= k) ->
  ktensor_update self modes data = Ok k' ->
  to_K k' = k_update 0 (map mopt modes) data (to_K self).
Proof.
  intros Hms E. rewrite update_bridge in E. unfold H_update in E. destruct (asc modes); [|discriminate].
  destruct (H_update_loop data modes (self, 0)) as [st'|] eqn:EL; [|discriminate]. cbn [bind] in E. injection E as <-.
  apply (update_loop_model data modes self 0 st' Hms); [pose proof (zlen_nonneg data); lia|exact EL].
Qed.

(* update with ALL modes, weights first (modes = [-1, 0, ..., ndims-1]), as generated = from_vector of the data *)
Lemma mopt_all (N : nat) : map mopt (-1 :: np_arange 0 (Z.of_nat N)) = None :: map Some (seq 0 N).
Proof.
  cbn [map]. f_equal. rewrite np_arange_0, map_map. apply map_ext. intros j. unfold mopt.
  destruct (Z.eqb_spec (Z.of_nat j) (-1)); [lia|]. now rewrite Nat2Z.id.
Qed.

Theorem gen_update_all_modes (self k' : ktz) (data : vec) :
  ktensor_update self (-1 :: np_arange 0 (zlen (kt_factors self))) data = Ok k' ->
  length data = (krank (to_K self) * (sum_nat (kshape (to_K self)) + 1))%nat ->
  to_K k' = k_from_vector 0 1 data (kshape (to_K self)) true.
Proof.
  intros E Hlen.
  assert (Hms : forall k, In k (-1 :: np_arange 0 (zlen (kt_factors self))) -> -1 <= k).
  { intros k Hk. destruct Hk as [<-|Hk]; [lia|]. unfold np_arange in Hk. apply in_map_iff in Hk as (j & <- & _). lia. }
  rewrite (gen_update_model self k' _ data Hms E).
  unfold zlen. rewrite mopt_all. exact (update_all_modes Z 0 1 (to_K self) data Hlen).
Qed.

(* the modes that are not named keep their weights / factors (frame), for the generated update *)
Theorem gen_update_frame (self k' : ktz) (modes data : vec) : (forall k, In k modes -> -1 <= k) ->
  ktensor_update self modes data = Ok k' ->
  (~ In (-1) modes -> kt_weights k' = kt_weights self) /\
  (forall j : nat, ~ In (Z.of_nat j) modes -> nth j (kt_factors k') [] = nth j (kt_factors self) []).
Proof.
  intros Hms E. pose proof (gen_update_model self k' modes data Hms E) as HK.
  destruct (update_frame Z 0 (map mopt modes) data (to_K self)) as [F1 F2]. split.
  - intros Hn. change (kt_weights k') with (kweights (to_K k')). rewrite HK. apply F1.
    intros HIn. apply in_map_iff in HIn as (k & Hk & HkIn). unfold mopt in Hk. destruct (Z.eqb_spec k (-1)); [subst; contradiction|discriminate].
  - intros j Hn. change (kt_factors k') with (kfactors (to_K k')). rewrite HK. apply F2.
    intros HIn. apply in_map_iff in HIn as (k & Hk & HkIn). unfold mopt in Hk. destruct (Z.eqb_spec k (-1)); [discriminate|].
    injection Hk as Hk. apply Hn. replace (Z.of_nat j) with k; [exact HkIn|]. specialize (Hms k HkIn). lia.
Qed.
