(* Proofs/C12EstLine.v — LINE-BY-LINE transliteration of pyttb/gcp/fg_est.py::estimate_helper and ::estimate on whole arrays
   (2-D arrays = lists of rows; the statements of the Python source are quoted next to each definition) and the theorems that it
   computes the subscript-level hand models est_m / est_F / est_G of Model/C12Gcp.v (about which C12_leave_one_out,
   C12_estimate_exact, C12_estimate_gradient, C12_lambda_* are proved).  Ring-generic, axiom-free. *)
From Coq Require Import List Arith Lia Bool Ring.
From PV Require Import Base.Index Base.Sum Np.Array Model.Sparse Model.Repr Model.C12Gcp Proofs.C12Tensor.
Import ListNotations.

Section EstLine.
Variable V : Type.
Variables (v0 v1 : V) (vadd vmul vsub : V -> V -> V) (vopp : V -> V).
Hypothesis Vring : ring_theory v0 v1 vadd vmul vsub vopp (@eq V).
Add Ring Vrel : Vring.

Notation "x + y" := (vadd x y).
Notation "x * y" := (vmul x y).
Notation mat := (list (list V)).
Notation msum := (sum_over v0 vadd).
Notation pv := (prodv v1 vmul).
Notation mg := (mget v0).
Notation SO_ext := (sum_over_ext V v0 vadd).

(* ------------------------------------------------------------------------------------------------------------------ *)
(* numpy primitives on 2-D arrays held as lists of rows                                                                  *)
(* ------------------------------------------------------------------------------------------------------------------ *)
Definition take_rows (A : mat) (rows : list nat) : mat := map (fun j => nth j A []) rows.      (* A[rows, :] *)
Definition colk (subs : list idx) (k : nat) : list nat := map (fun i => nth k i 0) subs.          (* subs[:, k] *)
Definition had (A B : mat) : mat := map2 (map2 vmul) A B.                                         (* A * B *)
Definition rowsum (A : mat) : list V := map (sumv v0 vadd) A.                                     (* np.sum(A, axis=1) *)
Definition take (l : list V) (ix : list nat) : list V := map (fun j => nth j l v0) ix.            (* l[ix] *)

(* canonical ns x R array with entry F s r *)
Definition tabm (ns R : nat) (F : nat -> nat -> V) : mat := map (fun s => map (fun r => F s r) (seq 0 R)) (seq 0 ns).

Lemma map2_map_same {A B C D} (h : B -> C -> D) (a : A -> B) (b : A -> C) l :
  map2 h (map a l) (map b l) = map (fun x => h (a x) (b x)) l.
Proof. induction l as [|x l IH]; cbn; [reflexivity|]. now rewrite IH. Qed.

Lemma had_tab ns R F G : had (tabm ns R F) (tabm ns R G) = tabm ns R (fun s r => F s r * G s r).
Proof.
  unfold had, tabm. rewrite map2_map_same. apply map_ext. intros s. now rewrite map2_map_same.
Qed.

Lemma tabm_ext ns R F G : (forall s r, s < ns -> r < R -> F s r = G s r) -> tabm ns R F = tabm ns R G.
Proof.
  intros H. unfold tabm. apply map_ext_in. intros s Hs. apply in_seq in Hs.
  apply map_ext_in. intros r Hr. apply in_seq in Hr. apply H; lia.
Qed.

Lemma mget_tabm ns R F s r : s < ns -> r < R -> mg (tabm ns R F) s r = F s r.
Proof.
  intros Hs Hr. unfold mget, tabm. rewrite (nth_map_seq _ ns s []) by lia. now rewrite (nth_map_seq _ R r v0).
Qed.

Lemma list_eta (l : list V) R : length l = R -> l = map (fun r => nth r l v0) (seq 0 R).
Proof.
  intros H. apply (nth_ext _ _ v0 v0). { now rewrite map_length, seq_length. }
  intros n Hn. rewrite (nth_map_seq _ R n v0) by lia. reflexivity.
Qed.

Lemma map_as_seq {A B} (F : A -> B) (l : list A) (d : A) : map F l = map (fun s => F (nth s l d)) (seq 0 (length l)).
Proof.
  induction l as [|a l IH]; [reflexivity|]. cbn [length seq map nth]. f_equal.
  rewrite IH, <- seq_shift, map_map. reflexivity.
Qed.

Lemma upd_map_seq {B} (F : nat -> B) n k v : k < n ->
  upd (map F (seq 0 n)) k v = map (fun j => if Nat.eqb j k then v else F j) (seq 0 n).
Proof.
  intros H. apply (nth_ext _ _ v v). { now rewrite upd_length, !map_length. }
  intros j Hj. rewrite upd_length, map_length, seq_length in Hj.
  rewrite nth_upd by (now rewrite map_length, seq_length).
  rewrite (nth_map_seq (fun j => if Nat.eqb j k then v else F j) n j v) by lia.
  destruct (Nat.eqb j k); [reflexivity|]. now rewrite (nth_map_seq F n j v).
Qed.

Lemma pv_firstn_S (u : list V) k : k < length u -> pv (firstn (S k) u) = pv (firstn k u) * nth k u v0.
Proof.
  revert k. induction u as [|x u IH]; intros k H; cbn [length] in H; [lia|].
  destruct k as [|k]; [cbn; ring|]. cbn [firstn prodv nth]. cbn [firstn] in IH. rewrite IH by lia. cbn [prodv]. ring.
Qed.

Lemma pv_skipn (u : list V) k : k < length u -> pv (skipn k u) = nth k u v0 * pv (skipn (S k) u).
Proof.
  revert k. induction u as [|x u IH]; intros k H; cbn [length] in H; [lia|].
  destruct k as [|k]; [reflexivity|]. cbn [skipn nth]. now rewrite IH by lia.
Qed.

Lemma pv_skipn_all (u : list V) k : length u <= k -> pv (skipn k u) = v1.
Proof. intros H. now rewrite skipn_all2. Qed.

(* ------------------------------------------------------------------------------------------------------------------ *)
(* estimate_helper(factors, subs)                                                                                        *)
(* ------------------------------------------------------------------------------------------------------------------ *)
(* for k in range(ndim): Uexp[k] = factors[k][subs[:, k], :] *)
Definition uexp (As : list mat) (subs : list idx) (ndim : nat) : list mat :=
  map (fun k => take_rows (nth k As []) (colk subs k)) (seq 0 ndim).

(* Zexp = [np.empty(())] * ndim;  Zexp[1] = Uexp[0].copy();  for k in range(2, ndim): Zexp[k] = Zexp[k - 1] * Uexp[k - 1] *)
Definition fwd_step (U : list mat) (Z : list mat) (k : nat) : list mat := upd Z k (had (nth (k - 1) Z []) (nth (k - 1) U [])).
Definition zexp_fwd (U : list mat) (ndim : nat) : list mat :=
  fold_left (fwd_step U) (seq 2 (ndim - 2)) (upd (repeat [] ndim) 1 (nth 0 U [])).

(* Zexp[0] = Uexp[ndim - 1].copy();  for k in range(ndim - 2, 0, -1): Zexp[k] *= Zexp[0]; Zexp[0] *= Uexp[k] *)
Definition bwd_step (U : list mat) (Z : list mat) (k : nat) : list mat :=
  let Z' := upd Z k (had (nth k Z []) (nth 0 Z [])) in
  upd Z' 0 (had (nth 0 Z' []) (nth k U [])).
Definition zexp_bwd (U : list mat) (ndim : nat) (Z : list mat) : list mat :=
  fold_left (bwd_step U) (rev (seq 1 (ndim - 2))) (upd Z 0 (nth (ndim - 1) U [])).

(* if subs.size == 0: return np.array([]), [];  ndim = subs.shape[1]; ...;
   mvals = np.sum(Zexp[ndim - 1] * Uexp[ndim - 1], axis=1);  return mvals, Zexp *)
Definition helper_line (As : list mat) (subs : list idx) : list V * list mat :=
  match subs with
  | [] => ([], [])
  | i0 :: _ =>
      let ndim := length i0 in
      let U := uexp As subs ndim in
      let Z := zexp_bwd U ndim (zexp_fwd U ndim) in
      (rowsum (had (nth (ndim - 1) Z []) (nth (ndim - 1) U [])), Z)
  end.

Section Helper.
Variables (As : list mat) (R : nat) (subs : list idx).
Let n := length As.
Let ns := length subs.
Hypothesis Hn : 2 <= n.
Hypothesis Hsubs : forall s, s < ns -> length (nth s subs []) = n.
(* every addressed factor row exists and has R entries (factor k has R columns, subscripts are in range) *)
Hypothesis Hrow : forall k s, k < n -> s < ns -> length (nth (nth k (nth s subs []) 0) (nth k As []) []) = R.

Let u (s r : nat) : list V := urow v0 As (nth s subs []) r.
Let uk (k s r : nat) : V := mg (nth k As []) (nth k (nth s subs []) 0) r.
Let P (k s r : nat) : V := pv (firstn k (u s r)).
Let S (k s r : nat) : V := pv (skipn k (u s r)).
Let L (k s r : nat) : V := P k s r * S (Datatypes.S k) s r.
Let U := uexp As subs n.

Lemma u_length s r : s < ns -> length (u s r) = n.
Proof. intros H. unfold u. apply urow_length. now apply Hsubs. Qed.

Lemma nth_u k s r : k < n -> s < ns -> nth k (u s r) v0 = uk k s r.
Proof.
  intros Hk Hs. unfold u, urow, uk.
  assert (H1 : k < length As) by (fold n; lia).
  assert (H2 : k < length (nth s subs [])) by (rewrite Hsubs by auto; lia).
  exact (nth_map2 (fun (A : list (list V)) (x : nat) => mg A x r) As (nth s subs []) k v0 [] 0 H1 H2).
Qed.

Lemma nth_U k : k < n -> nth k U [] = tabm ns R (uk k).
Proof.
  intros Hk. unfold U, uexp. rewrite (nth_map_seq _ n k []) by auto.
  unfold take_rows, colk. rewrite map_map. rewrite (map_as_seq _ subs []). fold ns.
  unfold tabm. apply map_ext_in. intros s Hs. apply in_seq in Hs.
  apply list_eta. apply Hrow; lia.
Qed.

(* state after the forward loop has assigned Zexp[1 .. j] *)
Definition Zf (j : nat) : list mat :=
  map (fun k => if (1 <=? k) && (k <=? j) then tabm ns R (P k) else []) (seq 0 n).
(* state after the backward loop has processed k = n-2 .. j *)
Definition Zb (j : nat) : list mat :=
  map (fun k => if k =? 0 then tabm ns R (S j) else if k <? j then tabm ns R (P k) else tabm ns R (L k)) (seq 0 n).

Lemma P_S k s r : k < n -> s < ns -> P (Datatypes.S k) s r = P k s r * uk k s r.
Proof. intros Hk Hs. unfold P. rewrite pv_firstn_S by (rewrite u_length; auto). now rewrite nth_u. Qed.

Lemma S_S k s r : k < n -> s < ns -> S k s r = uk k s r * S (Datatypes.S k) s r.
Proof. intros Hk Hs. unfold S. rewrite pv_skipn by (rewrite u_length; auto). now rewrite nth_u. Qed.

Lemma S_n s r : s < ns -> S n s r = v1.
Proof. intros Hs. unfold S. apply pv_skipn_all. rewrite u_length; auto. Qed.

Lemma fwd_init : upd (repeat [] n) 1 (nth 0 U []) = Zf 1.
Proof.
  replace (repeat (@nil (list V)) n) with (map (fun _ : nat => @nil (list V)) (seq 0 n)).
  2:{ apply (nth_ext _ _ [] []). { now rewrite map_length, seq_length, repeat_length. }
      intros j Hj. rewrite map_length, seq_length in Hj. rewrite (nth_map_seq _ n j []) by lia.
      symmetry. apply nth_repeat_lt. lia. }
  rewrite upd_map_seq by lia. unfold Zf. apply map_ext_in. intros k Hk. apply in_seq in Hk.
  destruct (Nat.eqb_spec k 1) as [->|N].
  - cbn [Nat.leb andb]. rewrite nth_U by lia. apply tabm_ext. intros s r Hs Hr.
    change 1 with (Datatypes.S 0). rewrite P_S by lia. unfold P. cbn [firstn prodv]. ring.
  - destruct k as [|[|k]]; [reflexivity|congruence|reflexivity].
Qed.

Lemma fwd_inv m : m + 2 <= n -> fold_left (fwd_step U) (seq 2 m) (Zf 1) = Zf (1 + m).
Proof.
  induction m as [|m IH]; intros Hm; [reflexivity|].
  rewrite seq_S, fold_left_app, IH by lia. cbn [fold_left]. unfold fwd_step.
  replace (2 + m - 1)%nat with (1 + m)%nat by lia.
  assert (E : nth (1 + m) (Zf (1 + m)) [] = tabm ns R (P (1 + m))).
  { unfold Zf. rewrite (nth_map_seq _ n (1 + m) []) by lia.
    replace ((1 <=? (1 + m)%nat) && ((1 + m)%nat <=? (1 + m)%nat)) with true; [reflexivity|].
    symmetry. apply andb_true_intro. split; apply Nat.leb_le; lia. }
  rewrite E, nth_U, had_tab by lia.
  unfold Zf at 1. rewrite upd_map_seq by lia. unfold Zf. apply map_ext_in. intros k Hk. apply in_seq in Hk.
  destruct (Nat.eqb_spec k (2 + m)) as [->|N].
  - replace ((1 <=? (2 + m)%nat) && ((2 + m)%nat <=? (1 + Datatypes.S m)%nat)) with true
      by (symmetry; apply andb_true_intro; split; apply Nat.leb_le; lia).
    apply tabm_ext. intros s r Hs Hr. change (2 + m)%nat with (Datatypes.S (1 + m)%nat). rewrite (P_S (1 + m)) by lia. reflexivity.
  - destruct (1 <=? k) eqn:E1; [|reflexivity]. cbn [andb].
    destruct (k <=? (1 + m)%nat) eqn:E2.
    + apply Nat.leb_le in E2. replace (k <=? (1 + Datatypes.S m)%nat) with true by (symmetry; apply Nat.leb_le; lia). reflexivity.
    + apply Nat.leb_gt in E2. replace (k <=? (1 + Datatypes.S m)%nat) with false by (symmetry; apply Nat.leb_gt; lia). reflexivity.
Qed.

Lemma zexp_fwd_spec : zexp_fwd U n = Zf (n - 1).
Proof.
  unfold zexp_fwd. rewrite fwd_init, fwd_inv by lia. f_equal. lia.
Qed.

Lemma bwd_init : upd (Zf (n - 1)) 0 (nth (n - 1) U []) = Zb (n - 1).
Proof.
  unfold Zf. rewrite upd_map_seq by lia. unfold Zb. apply map_ext_in. intros k Hk. apply in_seq in Hk.
  destruct (Nat.eqb_spec k 0) as [->|N].
  - rewrite nth_U by lia. apply tabm_ext. intros s r Hs Hr.
    rewrite (S_S (n - 1)) by lia. replace (Datatypes.S (n - 1)%nat) with n by lia. rewrite S_n by lia. ring.
  - replace ((1 <=? k) && (k <=? n - 1)) with true by (symmetry; apply andb_true_intro; split; apply Nat.leb_le; lia).
    destruct (k <? n - 1) eqn:E; [reflexivity|]. apply Nat.ltb_ge in E.
    apply tabm_ext. intros s r Hs Hr. unfold L. assert (k = n - 1) as -> by lia.
    replace (Datatypes.S (n - 1)%nat) with n by lia. rewrite S_n by lia. ring.
Qed.

Lemma bwd_one a : 1 <= a -> a + 2 <= n -> bwd_step U (Zb (Datatypes.S a)) a = Zb a.
Proof.
  intros H1 H2. unfold bwd_step.
  assert (Ea : nth a (Zb (Datatypes.S a)) [] = tabm ns R (P a)).
  { unfold Zb. rewrite (nth_map_seq _ n a []) by lia.
    destruct (Nat.eqb_spec a 0); [lia|]. replace (a <? Datatypes.S a) with true by (symmetry; apply Nat.ltb_lt; lia). reflexivity. }
  assert (E0 : nth 0 (Zb (Datatypes.S a)) [] = tabm ns R (S (Datatypes.S a))).
  { unfold Zb. rewrite (nth_map_seq _ n 0 []) by lia. reflexivity. }
  rewrite Ea, E0, had_tab.
  assert (Ln : length (Zb (Datatypes.S a)) = n) by (unfold Zb; now rewrite map_length, seq_length).
  rewrite (nth_upd _ a _ 0 []) by lia. destruct (Nat.eqb_spec 0 a); [lia|]. rewrite E0.
  rewrite nth_U, had_tab by lia.
  unfold Zb at 1. rewrite upd_map_seq by lia. rewrite upd_map_seq by lia.
  unfold Zb. apply map_ext_in. intros k Hk. apply in_seq in Hk.
  destruct (Nat.eqb_spec k 0) as [->|N0].
  - apply tabm_ext. intros s r Hs Hr. rewrite (S_S a) by lia. ring.
  - destruct (Nat.eqb_spec k a) as [->|Na].
    + rewrite Nat.ltb_irrefl. reflexivity.
    + destruct (k <? Datatypes.S a) eqn:E1.
      * apply Nat.ltb_lt in E1. replace (k <? a) with true by (symmetry; apply Nat.ltb_lt; lia). reflexivity.
      * apply Nat.ltb_ge in E1. replace (k <? a) with false by (symmetry; apply Nat.ltb_ge; lia). reflexivity.
Qed.

Lemma bwd_inv m : forall a, 1 <= a -> (a + m = n - 1)%nat ->
  fold_left (bwd_step U) (rev (seq a m)) (Zb (a + m)%nat) = Zb a.
Proof.
  induction m as [|m IH]; intros a H1 H2. { cbn [seq rev fold_left]. f_equal. lia. }
  cbn [seq rev]. rewrite fold_left_app. replace (a + Datatypes.S m)%nat with (Datatypes.S a + m)%nat by lia.
  rewrite IH by lia. cbn [fold_left]. apply bwd_one; lia.
Qed.

(* the arrays estimate_helper returns: Zexp[k][s, r] = product over l <> k of factors[l][subs[s, l], r] *)
Theorem zexp_line_spec :
  zexp_bwd U n (zexp_fwd U n) = map (fun k => tabm ns R (fun s r => kprod_skip v0 v1 vmul As (nth s subs []) r k)) (seq 0 n).
Proof.
  unfold zexp_bwd. rewrite zexp_fwd_spec, bwd_init.
  replace (n - 1)%nat with (1 + (n - 2))%nat at 1 by lia. rewrite bwd_inv by lia.
  unfold Zb. apply map_ext_in. intros k Hk. apply in_seq in Hk.
  assert (X : forall s r, s < ns -> r < R -> L k s r = kprod_skip v0 v1 vmul As (nth s subs []) r k).
  { intros s r Hs Hr. unfold L, P, S, u.
    rewrite (kprod_skip_spec V v0 v1 vadd vmul vsub vopp Vring) by (rewrite ?Hsubs; fold n; lia). reflexivity. }
  destruct (Nat.eqb_spec k 0) as [->|N].
  - apply tabm_ext. intros s r Hs Hr. rewrite <- X by auto. unfold L, P. cbn [firstn prodv]. ring.
  - replace (k <? 1) with false by (symmetry; apply Nat.ltb_ge; lia). apply tabm_ext. exact X.
Qed.

(* the model values estimate_helper returns: mvals[s] = sum_r prod_l factors[l][subs[s, l], r] *)
Theorem mvals_line_spec :
  rowsum (had (nth (n - 1) (zexp_bwd U n (zexp_fwd U n)) []) (nth (n - 1) U []))
  = map (fun s => fac_val v0 v1 vadd vmul As R (nth s subs [])) (seq 0 ns).
Proof.
  rewrite zexp_line_spec, (nth_map_seq _ n (n - 1) []), nth_U, had_tab by lia.
  unfold rowsum, tabm. rewrite map_map. apply map_ext_in. intros s Hs. apply in_seq in Hs.
  unfold fac_val, sum_n, sum_over. f_equal. apply map_ext_in. intros r Hr.
  rewrite (kprod_split V v0 v1 vadd vmul vsub vopp Vring As (nth s subs []) r (n - 1)) by (rewrite ?Hsubs; fold n; lia).
  unfold uk. ring.
Qed.

End Helper.

(* ------------------------------------------------------------------------------------------------------------------ *)
(* estimate(model, data_subs, data_vals, weights, function_handle, gradient_handle, lambda_check=False, crng)            *)
(* ------------------------------------------------------------------------------------------------------------------ *)
Variables f g : V -> V -> V.

(* Y[crng] -= D   (numpy: Y[crng] = Y[crng] - D — the right-hand side reads the ORIGINAL Y, a repeated index keeps one write) *)
Definition fancy_sub (Y : list V) (crng : list nat) (D : list V) : list V :=
  fold_left (fun Y' cd => upd Y' (fst cd) (vsub (nth (fst cd) Y v0) (snd cd))) (combine crng D) Y.
Definition zeros_like (c : list nat) : list V := map (fun _ => v0) c.

(* Y = function_handle(data_vals, model_vals)
   if crng is not None: Y[crng] -= function_handle(np.zeros_like(crng), model_vals[crng])
   F = np.sum(weights * Y) *)
Definition estimate_F_line (As : list mat) (subs : list idx) (xs ws : list V) (crng : option (list nat)) : V :=
  let mv := fst (helper_line As subs) in
  let Y := map2 f xs mv in
  let Y := match crng with None => Y | Some c => fancy_sub Y c (map2 f (zeros_like c) (take mv c)) end in
  sumv v0 vadd (map2 vmul ws Y).

(* Y = weights * gradient_handle(data_vals, model_vals)
   if crng is not None: Y[crng] -= weights[crng] * gradient_handle(np.zeros_like(crng), model_vals[crng]) *)
Definition estimate_Y_line (As : list mat) (subs : list idx) (xs ws : list V) (crng : option (list nat)) : list V :=
  let mv := fst (helper_line As subs) in
  let Y := map2 vmul ws (map2 g xs mv) in
  match crng with None => Y | Some c => fancy_sub Y c (map2 vmul (take ws c) (map2 g (zeros_like c) (take mv c))) end.

(* S = csr_array((Y, (data_subs[:, k], np.arange(nsamples))), shape=(model.shape[k], nsamples)) as a dense I x nsamples array *)
Definition csr_dense (Y : list V) (rows : list nat) (I ns : nat) : mat :=
  map (fun j => map (fun q => if Nat.eqb (nth q rows 0) j then nth q Y v0 else v0) (seq 0 ns)) (seq 0 I).
(* S.dot(Z) *)
Definition matmul (S Z : mat) (R : nat) : mat :=
  map (fun srow => map (fun r => msum (seq 0 (length srow)) (fun q => nth q srow v0 * mg Z q r)) (seq 0 R)) S.
Definition zeros (I R : nat) : mat := map (fun _ => map (fun _ => v0) (seq 0 R)) (seq 0 I).

(* for k in range(model.ndims):
       if nsamples == 0: G[k] = np.zeros((model.shape[k], model.ncomponents)); continue
       S = csr_array(...);  G[k] = S.dot(Zexp[k]) *)
Definition estimate_G_line (As : list mat) (R : nat) (shp : shape) (subs : list idx) (xs ws : list V)
           (crng : option (list nat)) : list mat :=
  let Z := snd (helper_line As subs) in
  let Y := estimate_Y_line As subs xs ws crng in
  let ns := length subs in
  map (fun k => if Nat.eqb ns 0 then zeros (nth k shp 0) R
                else matmul (csr_dense Y (colk subs k) (nth k shp 0) ns) (nth k Z []) R) (seq 0 (length shp)).

Definition crng_list (crng : option (list nat)) : list nat := match crng with None => [] | Some c => c end.

Lemma map2_as_seq {A B C} (h : A -> B -> C) l1 l2 d1 d2 : length l1 = length l2 ->
  map2 h l1 l2 = map (fun s => h (nth s l1 d1) (nth s l2 d2)) (seq 0 (length l1)).
Proof.
  intros H. apply (nth_ext _ _ (h d1 d2) (h d1 d2)).
  { rewrite map2_length, map_length, seq_length, <- H. apply Nat.min_id. }
  intros j Hj. rewrite map2_length, <- H, Nat.min_id in Hj.
  rewrite (nth_map2 h l1 l2 j (h d1 d2) d1 d2) by lia.
  now rewrite (nth_map_seq (fun s => h (nth s l1 d1) (nth s l2 d2)) (length l1) j (h d1 d2)).
Qed.

Lemma fold_fancy (Y : list V) (h : nat -> V) (c : list nat) : forall Y' s,
  length Y' = length Y -> Forall (fun j => j < length Y) c ->
  nth s (fold_left (fun Y' cd => upd Y' (fst cd) (vsub (nth (fst cd) Y v0) (snd cd))) (combine c (map h c)) Y') v0
  = if inl s c then vsub (nth s Y v0) (h s) else nth s Y' v0.
Proof.
  induction c as [|j c IH]; intros Y' s HL HF; [reflexivity|].
  inversion HF as [|? ? Hj HF']; subst. cbn [map combine fold_left fst snd].
  rewrite IH by (rewrite ?upd_length; auto).
  unfold inl. cbn [existsb]. fold (inl s c).
  destruct (inl s c); [now rewrite orb_true_r|]. rewrite orb_false_r.
  rewrite nth_upd by lia. destruct (Nat.eqb_spec s j) as [->|]; reflexivity.
Qed.

Lemma fancy_sub_nth (Y : list V) (h : nat -> V) (c : list nat) s : Forall (fun j => j < length Y) c ->
  nth s (fancy_sub Y c (map h c)) v0 = if inl s c then vsub (nth s Y v0) (h s) else nth s Y v0.
Proof. intros H. unfold fancy_sub. now apply fold_fancy. Qed.

Lemma fancy_sub_length (Y : list V) c D : length (fancy_sub Y c D) = length Y.
Proof.
  unfold fancy_sub. generalize (combine c D). intros l.
  assert (G : forall Y', length (fold_left (fun Y' cd => upd Y' (fst cd) (vsub (nth (fst cd) Y v0) (snd cd))) l Y') = length Y').
  { induction l as [|a l IH]; intros Y'; [reflexivity|]. cbn [fold_left]. now rewrite IH, upd_length. }
  apply G.
Qed.

Lemma helper_line_nonempty (As : list mat) (subs : list idx) : subs <> [] ->
  helper_line As subs =
  (let ndim := length (hd [] subs) in
   let U := uexp As subs ndim in
   let Z := zexp_bwd U ndim (zexp_fwd U ndim) in
   (rowsum (had (nth (ndim - 1) Z []) (nth (ndim - 1) U [])), Z)).
Proof. destruct subs; [congruence|reflexivity]. Qed.

Lemma nth_map_lt {A B} (F : A -> B) (l : list A) (q : nat) (dA : A) (dB : B) :
  q < length l -> nth q (map F l) dB = F (nth q l dA).
Proof.
  revert q. induction l as [|a l IH]; intros [|q] H; cbn in *; try lia; [reflexivity|]. apply IH. lia.
Qed.

Lemma hd_nth0 {A} (l : list A) d : hd d l = nth 0 l d.
Proof. destruct l; reflexivity. Qed.

Section Estimate.
Variables (As : list mat) (R : nat) (shp : shape) (subs : list idx) (xs ws : list V) (crng : option (list nat)).
Let n := length As.
Let ns := length subs.
Hypothesis Hn : 2 <= n.
Hypothesis Hshp : length shp = n.
Hypothesis Hsubs : forall s, s < ns -> length (nth s subs []) = n.
Hypothesis Hrow : forall k s, k < n -> s < ns -> length (nth (nth k (nth s subs []) 0) (nth k As []) []) = R.
Hypothesis Hxs : length xs = ns.
Hypothesis Hws : length ws = ns.
Hypothesis Hcr : Forall (fun j => j < ns) (crng_list crng).

Let em (s : nat) : V := est_m v0 v1 vadd vmul As R subs s.

Lemma helper_line_spec :
  helper_line As subs = (map em (seq 0 ns),
    if Nat.eqb ns 0 then [] else map (fun k => tabm ns R (fun s r => kprod_skip v0 v1 vmul As (nth s subs []) r k)) (seq 0 n)).
Proof.
  destruct (Nat.eqb_spec ns 0) as [E0|N0].
  - unfold ns in E0. apply length_zero_iff_nil in E0. unfold em, ns. rewrite E0. reflexivity.
  - assert (HD : length (hd [] subs) = n).
    { rewrite hd_nth0. apply Hsubs. lia. }
    rewrite helper_line_nonempty by (intros E; apply N0; unfold ns; rewrite E; reflexivity).
    rewrite HD. cbv zeta. f_equal.
    + apply (mvals_line_spec As R subs Hn Hsubs Hrow).
    + apply (zexp_line_spec As R subs Hn Hsubs Hrow).
Qed.

Lemma nth_mv s : s < ns -> nth s (fst (helper_line As subs)) v0 = em s.
Proof. intros H. rewrite helper_line_spec. cbn [fst]. now rewrite (nth_map_seq em ns s v0). Qed.

Lemma mv_length : length (fst (helper_line As subs)) = ns.
Proof. rewrite helper_line_spec. cbn [fst]. now rewrite map_length, seq_length. Qed.

Lemma sumv_map2_seq (a b : list V) : length a = ns -> length b = ns ->
  sumv v0 vadd (map2 vmul a b) = msum (seq 0 ns) (fun s => nth s a v0 * nth s b v0).
Proof.
  intros Ha Hb. rewrite (map2_as_seq vmul a b v0 v0) by congruence. rewrite Ha. reflexivity.
Qed.

(* F = np.sum(weights * Y) is the hand model est_F *)
Theorem estimate_F_line_spec :
  estimate_F_line As subs xs ws crng = est_F v0 v1 vadd vmul vsub f As R subs xs ws (crng_list crng).
Proof.
  unfold estimate_F_line, est_F. fold ns.
  set (mv := fst (helper_line As subs)).
  assert (LY : length (map2 f xs mv) = ns) by (rewrite map2_length, Hxs; unfold mv; rewrite mv_length; apply Nat.min_id).
  assert (NY : forall s, s < ns -> nth s (map2 f xs mv) v0 = f (nth s xs v0) (em s)).
  { intros s Hs. rewrite (nth_map2 f xs mv s v0 v0 v0) by (unfold mv; rewrite ?mv_length; lia).
    unfold mv. now rewrite nth_mv. }
  destruct crng as [c|]; cbn [crng_list] in *.
  - rewrite sumv_map2_seq by (rewrite ?fancy_sub_length; auto).
    apply SO_ext. intros s Hs. apply in_seq in Hs. f_equal.
    unfold zeros_like, take. rewrite map2_map_same.
    rewrite (fancy_sub_nth _ (fun j => f v0 (nth j mv v0))) by (now rewrite LY).
    destruct (inl s c); rewrite NY by lia; [|reflexivity]. unfold mv. rewrite nth_mv by lia. reflexivity.
  - rewrite sumv_map2_seq by auto. apply SO_ext. intros s Hs. apply in_seq in Hs. f_equal.
    cbn [inl existsb]. apply NY. lia.
Qed.

Lemma estimate_Y_line_length : length (estimate_Y_line As subs xs ws crng) = ns.
Proof.
  unfold estimate_Y_line. destruct crng; rewrite ?fancy_sub_length, !map2_length, Hws, Hxs, mv_length, !Nat.min_id; reflexivity.
Qed.

Lemma estimate_Y_line_nth s : s < ns ->
  nth s (estimate_Y_line As subs xs ws crng) v0 = est_Y v0 v1 vadd vmul vsub g As R subs xs ws (crng_list crng) s.
Proof.
  intros Hs. unfold estimate_Y_line, est_Y. set (mv := fst (helper_line As subs)).
  assert (LG : length (map2 g xs mv) = ns) by (rewrite map2_length, Hxs; unfold mv; rewrite mv_length; apply Nat.min_id).
  assert (NY : nth s (map2 vmul ws (map2 g xs mv)) v0 = nth s ws v0 * g (nth s xs v0) (em s)).
  { rewrite (nth_map2 vmul ws _ s v0 v0 v0) by lia.
    rewrite (nth_map2 g xs mv s v0 v0 v0) by (unfold mv; rewrite ?mv_length; lia).
    unfold mv. now rewrite nth_mv. }
  destruct crng as [c|]; cbn [crng_list] in *.
  - unfold zeros_like, take. rewrite map2_map_same, map2_map_same.
    rewrite (fancy_sub_nth _ (fun j => nth j ws v0 * g v0 (nth j mv v0)))
      by (now rewrite map2_length, Hws, LG, Nat.min_id).
    destruct (inl s c); rewrite NY; [|reflexivity]. unfold mv. rewrite nth_mv by lia. reflexivity.
  - cbn [inl existsb]. exact NY.
Qed.

(* G[k] = S.dot(Zexp[k]) are the hand model's matrices est_G *)
Theorem estimate_G_line_spec :
  estimate_G_line As R shp subs xs ws crng = est_G v0 v1 vadd vmul vsub g As R subs xs ws (crng_list crng) shp.
Proof.
  unfold estimate_G_line, est_G. fold ns. apply map_ext_in. intros k Hk. apply in_seq in Hk.
  unfold est_Gk. fold ns.
  destruct (Nat.eqb_spec ns 0) as [E0|N0].
  - rewrite E0. unfold zeros. apply map_ext. intros j. apply map_ext. intros r. reflexivity.
  - rewrite helper_line_spec. cbn [snd]. replace (ns =? 0) with false by (symmetry; now apply Nat.eqb_neq).
    rewrite (nth_map_seq _ n k []) by lia.
    unfold matmul, csr_dense. rewrite map_map. apply map_ext_in. intros j Hj.
    apply map_ext_in. intros r Hr. apply in_seq in Hr.
    rewrite map_length, seq_length.
    rewrite (sum_over_filter V v0 v1 vadd vmul vsub vopp Vring).
    apply SO_ext. intros q Hq. apply in_seq in Hq.
    rewrite (nth_map_seq _ ns q v0) by lia.
    rewrite mget_tabm by lia.
    unfold colk. rewrite (@nth_map_lt (list nat) nat (fun i : list nat => nth k i 0) subs q [] 0) by (exact (proj2 Hq)).
    rewrite (loo_is_kprod_skip V v0 v1 vadd vmul vsub vopp Vring) by (rewrite ?Hsubs; fold n; lia).
    rewrite estimate_Y_line_nth by lia.
    match goal with |- (if ?b1 then _ else _) * _ = (if ?b2 then _ else _) => change b1 with b2; destruct b2 end; [reflexivity|ring].
Qed.

End Estimate.

(* the row hypothesis of the theorems above follows from the usual well-formedness: every factor row has R entries, subscripts in range *)
Lemma hrow_of_wf (As : list mat) (R : nat) (subs : list idx) :
  Forall (fun A : mat => Forall (fun row => length row = R) A) As ->
  (forall k s, k < length As -> s < length subs -> nth k (nth s subs []) 0 < length (nth k As [])) ->
  forall k s, k < length As -> s < length subs -> length (nth (nth k (nth s subs []) 0) (nth k As []) []) = R.
Proof.
  intros HF HR k s Hk Hs. rewrite Forall_forall in HF. pose proof (HF (nth k As []) (nth_In _ _ Hk)) as H1.
  rewrite Forall_forall in H1. apply H1. apply nth_In. now apply HR.
Qed.

End EstLine.

(* ---- Z instances evaluated by the correspondence stream next to the hand models (ops estimate / estimate_full) -------------- *)
From Coq Require Import ZArith.
From PV Require Import Model.Harness Model.C12Harness.
Definition zest_F_line (id : nat) := estimate_F_line Z 0%Z Z.add Z.mul Z.sub (zf id).
Definition zest_G_line (id : nat) := estimate_G_line Z 0%Z Z.add Z.mul Z.sub (zg id).

(* non-vacuity: 3-way 2 x 2 x 3 rank-2 model, four samples (one subscript twice), correction range with a repeated index *)
Example est_line_example :
  let As := [[[1; 2]; [0; -1]]; [[1; 0]; [2; 1]]; [[-1; 3]; [1; 1]; [2; -1]]]%Z in
  let subs := [[0; 1; 2]; [1; 0; 0]; [0; 1; 2]; [1; 1; 1]] in
  let xs := [3; -1; 0; 2]%Z in
  let ws := [1; 2; 2; 3]%Z in
  zest_F_line 1 As subs xs ws (Some [2; 0; 2]) = zest_F 1 As 2 subs xs ws [2; 0; 2] /\
  zest_G_line 1 As 2 [2; 2; 3] subs xs ws (Some [2; 0; 2]) = zest_G 1 As 2 subs xs ws [2; 0; 2] [2; 2; 3] /\
  zest_F_line 1 As subs xs ws (Some [2; 0; 2]) <> zest_F_line 1 As subs xs ws None /\
  snd (helper_line Z 0%Z Z.add Z.mul As subs) =
    [[[4; -1]; [-1; 0]; [4; -1]; [2; 1]]; [[2; -2]; [0; -3]; [2; -2]; [0; -1]]; [[2; 2]; [0; 0]; [2; 2]; [0; -1]]]%Z.
Proof. vm_compute. repeat split; try reflexivity. discriminate. Qed.
