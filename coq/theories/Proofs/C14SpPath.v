(* Proofs/C14SpPath.v — the bridge between sptensor.nvecs' re-keying as the code runs it (Model/C14SpPath.v: reshape over the GENERATED
   tt_sub2ind / tt_ind2sub, squeeze, spmatrix, transpose) and the triples sp_triples of C14_gram_sparse:
     sp_nvecs_tnt S n = Some C  with  coo_triples C = sp_triples S n,   hence  gram_sp_code_path S n = Some (gram_sp_impl S n),
   and with C14_coo_product the matrix product tnt^T tnt of the denoted arrays is gram_spec of den_sp.
   The path is the one of /repo f3d6beb (second reshape instead of squeeze; finding C14-F2 repaired): it accepts every tensor with at
   least two modes unless mode n AND the product of the other modes are both 1 (ValueError, pinned by tests/test_sptensor.py).
   The path before the repair (sp_nvecs_tnt_old, squeeze) refused whenever mode n or that product was <= 1: kept as a lemma. *)
From Coq Require Import List Arith Lia Bool ZArith Ring.
From PV Require Import Base.Index Base.Perm Base.Sum Np.Array Np.NpZ Proofs.NpZProofs Model.Sparse Model.Repr Model.C01Conv Model.C01Unique
  Model.C01Coo Gen.GenUtils Proofs.UtilsProofs Model.C14Nvecs Model.C14Gram Model.C14Unfold Model.C14SpPath
  Proofs.C14Sums Proofs.C14Split Proofs.C14GramSp Proofs.C14Unfold Proofs.C14Coo.
Import ListNotations.

(* ---------------------------------------------------------------- list / index facts *)
Lemma filter_none {A} (f : A -> bool) l : (forall x, In x l -> f x = false) -> filter f l = [].
Proof.
  induction l as [|x l IH]; intros H; [reflexivity|]. cbn [filter]. rewrite (H x) by (left; reflexivity).
  apply IH. intros y Hy. apply H. now right.
Qed.

Lemma existsb_rest N n k : n < N -> existsb (Nat.eqb k) (rest_modes N n) = (k <? N) && negb (k =? n).
Proof.
  intros HnN. unfold rest_modes. rewrite existsb_app.
  destruct (Nat.ltb_spec k N) as [HkN|HkN]; cbn [andb].
  - destruct (Nat.eqb_spec k n) as [->|Hkn]; cbn [negb].
    + apply orb_false_iff. split.
      * destruct (existsb (Nat.eqb n) (seq 0 n)) eqn:E; [|reflexivity].
        apply existsb_exists in E as (x & Hx & Hk). apply in_seq in Hx. apply Nat.eqb_eq in Hk. lia.
      * destruct (existsb (Nat.eqb n) (seq (S n) (N - S n))) eqn:E; [|reflexivity].
        apply existsb_exists in E as (x & Hx & Hk). apply in_seq in Hx. apply Nat.eqb_eq in Hk. lia.
    + apply orb_true_iff. destruct (Nat.lt_ge_cases k n) as [Hlt|Hge].
      * left. apply existsb_exists. exists k. split; [apply in_seq; lia|apply Nat.eqb_refl].
      * right. apply existsb_exists. exists k. split; [apply in_seq; lia|apply Nat.eqb_refl].
  - apply orb_false_iff. split.
    + destruct (existsb (Nat.eqb k) (seq 0 n)) eqn:E; [|reflexivity].
      apply existsb_exists in E as (x & Hx & Hk). apply in_seq in Hx. apply Nat.eqb_eq in Hk. lia.
    + destruct (existsb (Nat.eqb k) (seq (S n) (N - S n))) eqn:E; [|reflexivity].
      apply existsb_exists in E as (x & Hx & Hk). apply in_seq in Hx. apply Nat.eqb_eq in Hk. lia.
Qed.

(* keep_modes of reshape(…, old) when old are the modes other than n *)
Lemma setdiff_rest N n : n < N -> setdiff_modes N (rest_modes N n) = [n].
Proof.
  intros H. unfold setdiff_modes.
  assert (E : seq 0 N = seq 0 n ++ n :: seq (S n) (N - S n)).
  { replace N with (n + S (N - S n)) at 1 by lia. rewrite seq_app. reflexivity. }
  rewrite E, filter_app. cbn [filter]. rewrite (existsb_rest N n n H), Nat.eqb_refl, andb_false_r. cbn [negb].
  rewrite !filter_none; [reflexivity| |].
  - intros x Hx. apply in_seq in Hx. rewrite (existsb_rest N n x H).
    rewrite (proj2 (Nat.ltb_lt x N)) by lia. rewrite (proj2 (Nat.eqb_neq x n)) by lia. reflexivity.
  - intros x Hx. apply in_seq in Hx. rewrite (existsb_rest N n x H).
    rewrite (proj2 (Nat.ltb_lt x N)) by lia. rewrite (proj2 (Nat.eqb_neq x n)) by lia. reflexivity.
Qed.

Lemma ind2sub_col K k : k < K -> ind2sub [K; 1] k = [k; 0].
Proof. intros H. cbn [ind2sub]. rewrite Nat.mod_small by exact H. now rewrite Nat.mod_1_r. Qed.

Lemma size_col K : size [K; 1] = K.
Proof. cbn [size fold_right]. lia. Qed.

Lemma combine_map_r {A B} (h : A -> B) l : combine l (map h l) = map (fun x => (x, h x)) l.
Proof. induction l as [|x l IH]; [reflexivity|]. cbn [map combine]. now rewrite IH. Qed.

Lemma combine_map_l {A B C} (g : A -> C) (l : list A) (vs : list B) :
  combine (map g l) vs = map (fun e => (g (fst e), snd e)) (combine l vs).
Proof. revert vs; induction l as [|x l IH]; intros [|v vs]; cbn [map combine fst snd]; [reflexivity..|]. now rewrite IH. Qed.

Lemma size_nil_not_gt1 (s : shape) : 1 < size s -> s <> [].
Proof. intros H E. subst s. cbn in H. lia. Qed.

Section SpPathProofs.
Variable V : Type.
Variables (v0 v1 : V) (vadd vmul vsub : V -> V -> V) (vopp : V -> V).
Hypothesis Vring : ring_theory v0 v1 vadd vmul vsub vopp (@eq V).
Variable isz : V -> bool.

(* ---- reshape((K, 1), old) *)
Lemma sp_reshape_nvecs (S : sparse V) (n : nat) :
  let s := sshape S in
  let rs := remove_nth n s in
  n < length s -> length (ssubs S) = length (svals S) -> Forall (fun i => inb s i = true) (ssubs S) -> 2 <= length s ->
  sp_reshape_gen S [size rs; 1] (rest_modes (length s) n) =
  Some (mkSp [nth n s 0; size rs; 1] (map (fun j => [nth n j 0; sub2ind rs (remove_nth n j); 0]) (ssubs S)) (svals S)).
Proof.
  intros s rs Hn HL Hin HK. unfold sp_reshape_gen. fold s.
  rewrite (setdiff_rest (length s) n Hn). rewrite (pick_rest 0 s (length s) n eq_refl Hn). fold rs.
  rewrite size_col, Nat.eqb_refl. cbn [negb pick map app].
  destruct (ssubs S) as [|j0 l] eqn:E.
  - destruct (svals S); [reflexivity|discriminate HL].
  - rewrite <- E in *.
    assert (Hlen : forall j, In j (ssubs S) -> length j = length s).
    { intros j Hj. rewrite Forall_forall in Hin. apply inb_length. now apply Hin. }
    rewrite (map_ext_in (pick 0 (rest_modes (length s) n)) (remove_nth n)).
    2:{ intros j Hj. apply pick_rest; [now apply Hlen|exact Hn]. }
    rewrite (tt_sub2ind_spec rs (map (remove_nth n) (ssubs S))).
    2:{ intros Er. apply (f_equal (@length nat)) in Er. unfold rs in Er. rewrite remove_nth_length in Er by exact Hn. cbn in Er. lia. }
    2:{ intros i Hi. apply in_map_iff in Hi as (j & <- & Hj). apply inb_remove; [exact Hn|]. rewrite Forall_forall in Hin. now apply Hin. }
    rewrite map_map. rewrite <- (map_map (fun j => sub2ind rs (remove_nth n j)) Z.of_nat).
    fold (zs (map (fun j => sub2ind rs (remove_nth n j)) (ssubs S))).
    rewrite (tt_ind2sub_spec [size rs; 1]).
    2:{ intros k Hk. apply in_map_iff in Hk as (j & <- & Hj). rewrite size_col. apply sub2ind_lt.
        apply inb_remove; [exact Hn|]. rewrite Forall_forall in Hin. now apply Hin. }
    rewrite map_map, combine_map_r, map_map. cbn [fst snd].
    f_equal. f_equal. apply map_ext_in. intros j Hj.
    rewrite ind2sub_col.
    2:{ apply sub2ind_lt. apply inb_remove; [exact Hn|]. rewrite Forall_forall in Hin. now apply Hin. }
    unfold zs. cbn [map app]. now rewrite !Nat2Z.id.
Qed.

(* ---- reshape((I, 1, 1)) of a 1-way tensor, all modes reshaped (the `old.size == 0` branch of /repo c11bcb2; finding C14-F3 repaired) *)
Lemma sp_reshape_oneway (S : sparse V) (I : nat) :
  sshape S = [I] -> length (ssubs S) = length (svals S) -> Forall (fun i => inb [I] i = true) (ssubs S) ->
  sp_reshape_gen S [I; 1; 1] [0] = Some (mkSp [I; 1; 1] (map (fun j => [nth 0 j 0; 0; 0]) (ssubs S)) (svals S)).
Proof.
  intros Hs HL Hin. unfold sp_reshape_gen. rewrite Hs. cbn [length].
  change (setdiff_modes 1 [0]) with (@nil nat). cbn [pick map nth app].
  replace (size [I; 1; 1] =? size [I]) with true by (symmetry; apply Nat.eqb_eq; cbn [size fold_right]; lia).
  cbn [negb]. rewrite Forall_forall in Hin.
  assert (Hone : forall j, In j (ssubs S) -> j = [nth 0 j 0] /\ nth 0 j 0 < I).
  { intros j Hj. specialize (Hin j Hj). destruct j as [|a [|b j]]; cbn [inb] in Hin; try discriminate.
    - apply andb_true_iff in Hin as [Ha _]. apply Nat.ltb_lt in Ha. now split.
    - rewrite andb_false_r in Hin. discriminate. }
  destruct (ssubs S) as [|j0 l] eqn:E.
  - destruct (svals S); [reflexivity|discriminate HL].
  - rewrite <- E in *.
    rewrite (map_ext_in (pick 0 [0]) (fun j => j)).
    2:{ intros j Hj. destruct (Hone j Hj) as [Ej _]. rewrite Ej at 2. reflexivity. }
    rewrite map_id.
    rewrite (tt_sub2ind_spec [I] (ssubs S)); [|discriminate|exact Hin].
    rewrite <- (map_map (sub2ind [I]) Z.of_nat). fold (zs (map (sub2ind [I]) (ssubs S))).
    assert (Hk : forall j, In j (ssubs S) -> sub2ind [I] j = nth 0 j 0).
    { intros j Hj. destruct (Hone j Hj) as [Ej _]. rewrite Ej at 1. cbn [sub2ind]. lia. }
    rewrite (tt_ind2sub_spec [I; 1; 1]).
    2:{ intros k Hk'. apply in_map_iff in Hk' as (j & <- & Hj). rewrite (Hk j Hj). destruct (Hone j Hj) as [_ Hlt].
        cbn [size fold_right]. lia. }
    rewrite map_map, combine_map_r, map_map. cbn [fst snd].
    f_equal. f_equal. apply map_ext_in. intros j Hj. rewrite (Hk j Hj). destruct (Hone j Hj) as [_ Hlt].
    cbn [ind2sub]. rewrite Nat.mod_small by exact Hlt. rewrite !Nat.mod_1_r.
    unfold zs. cbn [map app]. now rewrite !Nat2Z.id.
Qed.

Lemma rest_modes_length N n : n < N -> length (rest_modes N n) = N - 1.
Proof. intros H. unfold rest_modes. rewrite app_length, !seq_length. lia. Qed.

(* ---- the first reshape of sptensor.nvecs, both branches of `if old.size == 0`: an (I_n, K, 1) tensor with K = 1 for a 1-way tensor *)
Lemma sp_reshape_first (S : sparse V) (n : nat) :
  let s := sshape S in
  let rs := remove_nth n s in
  n < length s -> length (ssubs S) = length (svals S) -> Forall (fun i => inb s i = true) (ssubs S) ->
  match setdiff_modes (length s) [n] with
  | [] => sp_reshape_gen S [nth n s 0; 1; 1] (seq 0 (length s))
  | _ :: _ => sp_reshape_gen S [size (pick 0 (setdiff_modes (length s) [n]) s); 1] (setdiff_modes (length s) [n])
  end = Some (mkSp [nth n s 0; size rs; 1] (map (fun j => [nth n j 0; sub2ind rs (remove_nth n j); 0]) (ssubs S)) (svals S)).
Proof.
  intros s rs Hn HL Hin. rewrite (setdiff_single _ n Hn).
  destruct (Nat.eq_dec (length s) 1) as [E1|E1].
  - (* 1-way *)
    assert (n = 0) by lia. subst n. destruct s as [|I [|? ?]] eqn:Es; try discriminate E1. clear E1.
    change (rest_modes (length [I]) 0) with (@nil nat). cbn [length seq nth].
    assert (Hs : sshape S = [I]) by exact Es.
    rewrite (sp_reshape_oneway S I Hs HL Hin). unfold rs. cbn [remove_nth firstn skipn app size fold_right].
    reflexivity.
  - pose proof (rest_modes_length (length s) n Hn) as HLr.
    destruct (rest_modes (length s) n) as [|m0 ms] eqn:Er; [cbn [length] in HLr; lia|]. rewrite <- Er.
    rewrite (pick_rest 0 s (length s) n eq_refl Hn). fold rs.
    apply (sp_reshape_nvecs S n Hn HL Hin). unfold s in *. lia.
Qed.

(* ---- squeeze of an (I, K, 1) tensor with I, K > 1 *)
Lemma sp_squeeze_nvecs (I K : nat) (subs : list idx) (vals : list V) : 1 < I -> 1 < K -> length subs = length vals ->
  sp_squeeze v0 (mkSp [I; K; 1] subs vals) = SqTensor (mkSp [I; K] (map (fun j => [nth 0 j 0; nth 1 j 0]) subs) vals).
Proof.
  intros HI HK HL. unfold sp_squeeze. cbn [sshape ssubs svals forallb length seq filter nth].
  rewrite (proj2 (Nat.ltb_lt 1 I) HI), (proj2 (Nat.ltb_lt 1 K) HK). cbn [andb Nat.ltb Nat.leb filter pick map nth].
  destruct vals as [|x vals].
  - destruct subs; [reflexivity|discriminate HL].
  - reflexivity.
Qed.

(* ---- the second reshape: reshape((I, K)) of an (I, K, 1) tensor, all modes reshaped (old_modes = None) *)
Lemma sub2ind_drop1 (I K : nat) (j : idx) : inb [I; K; 1] j = true ->
  sub2ind [I; K; 1] j = sub2ind [I; K] [nth 0 j 0; nth 1 j 0] /\ inb [I; K] [nth 0 j 0; nth 1 j 0] = true /\ pick 0 [0; 1; 2] j = j.
Proof.
  destruct j as [|a [|b [|c [|x j]]]]; cbn [inb]; try discriminate; try (rewrite !andb_false_r; discriminate).
  intros H. apply andb_true_iff in H as [Ha H]. apply andb_true_iff in H as [Hb H]. apply andb_true_iff in H as [Hc _].
  apply Nat.ltb_lt in Hc. assert (c = 0) by lia. subst c. cbn [nth sub2ind inb pick map]. rewrite Ha, Hb.
  repeat split; try reflexivity.
Qed.

Lemma sp_reshape_second (I K : nat) (subs : list idx) (vals : list V) :
  length subs = length vals -> Forall (fun j => inb [I; K; 1] j = true) subs ->
  sp_reshape_gen (mkSp [I; K; 1] subs vals) [I; K] [0; 1; 2] =
  Some (mkSp [I; K] (map (fun j => [nth 0 j 0; nth 1 j 0]) subs) vals).
Proof.
  intros HL Hin. unfold sp_reshape_gen. cbn [sshape ssubs svals length].
  change (setdiff_modes 3 [0; 1; 2]) with (@nil nat). cbn [pick map nth app].
  replace (size [I; K] =? size [I; K; 1]) with true by (symmetry; apply Nat.eqb_eq; cbn [size fold_right]; lia).
  cbn [negb]. rewrite Forall_forall in Hin.
  destruct subs as [|j0 l] eqn:E.
  - destruct vals; [reflexivity|discriminate HL].
  - rewrite <- E in *.
    rewrite (map_ext_in (pick 0 [0; 1; 2]) (fun j => j)).
    2:{ intros j Hj. apply (sub2ind_drop1 I K j). now apply Hin. }
    rewrite map_id.
    rewrite (tt_sub2ind_spec [I; K; 1] subs); [|discriminate|exact Hin].
    rewrite <- (map_map (sub2ind [I; K; 1]) Z.of_nat). fold (zs (map (sub2ind [I; K; 1]) subs)).
    rewrite (tt_ind2sub_spec [I; K]).
    2:{ intros k Hk. apply in_map_iff in Hk as (j & <- & Hj). destruct (sub2ind_drop1 I K j (Hin j Hj)) as (-> & Hb & _).
        now apply sub2ind_lt. }
    rewrite map_map, combine_map_r, map_map. cbn [fst snd].
    f_equal. f_equal. apply map_ext_in. intros j Hj.
    destruct (sub2ind_drop1 I K j (Hin j Hj)) as (-> & Hb & _).
    rewrite (ind2sub_sub2ind [I; K] _ Hb). unfold zs. cbn [map pick app]. now rewrite !Nat2Z.id.
Qed.

(* ---- the bridge: tnt as the code builds it holds exactly the triples of C14_gram_sparse — for EVERY tensor with at least two modes
   unless mode n and the product of the other modes are both 1 (singleton mode n, singleton product of the others: accepted) *)
Theorem sp_nvecs_tnt_eq (S : sparse V) (n : nat) :
  let s := sshape S in
  let rs := remove_nth n s in
  n < length s -> length (ssubs S) = length (svals S) -> Forall (fun i => inb s i = true) (ssubs S) ->
  ~ (nth n s 0 = 1 /\ size rs = 1) ->
  sp_nvecs_tnt S n =
  Some (mkCoo [size rs; nth n s 0] (map (fun j => [sub2ind rs (remove_nth n j); nth n j 0]) (ssubs S)) (svals S)).
Proof.
  intros s rs Hn HL Hin Hns. subst rs s. unfold sp_nvecs_tnt.
  rewrite (proj2 (Nat.ltb_lt _ _) Hn). cbn [negb].
  rewrite (sp_reshape_first S n Hn HL Hin). cbn [sshape forallb length seq firstn].
  replace (_ && _) with false.
  2:{ symmetry. destruct (Nat.eqb_spec 1 (nth n (sshape S) 0)) as [E1|_]; [|reflexivity].
      destruct (Nat.eqb_spec 1 (size (remove_nth n (sshape S)))) as [E2|_]; [|reflexivity]. exfalso. apply Hns. now split. }
  rewrite sp_reshape_second.
  2:{ now rewrite map_length. }
  2:{ apply Forall_forall. intros j3 Hj3. apply in_map_iff in Hj3 as (j & <- & Hj). rewrite Forall_forall in Hin.
      specialize (Hin j Hj). cbn [inb].
      rewrite (proj2 (Nat.ltb_lt _ _) (inb_nth n _ j Hn Hin)).
      rewrite (proj2 (Nat.ltb_lt _ _) (sub2ind_lt _ _ (inb_remove n _ j Hn Hin))). reflexivity. }
  unfold spmatrix. cbn [sshape ssubs svals length Nat.eqb option_map coo_transpose coo_shape coo_subs coo_data rev app].
  rewrite !map_map. unfold coo_transpose. cbn [coo_shape coo_subs coo_data nth rev app]. rewrite map_map. cbn [rev app]. reflexivity.
Qed.

Theorem sp_triples_bridge (S : sparse V) (n : nat) :
  let s := sshape S in
  n < length s -> length (ssubs S) = length (svals S) -> Forall (fun i => inb s i = true) (ssubs S) ->
  ~ (nth n s 0 = 1 /\ size (remove_nth n s) = 1) ->
  exists C, sp_nvecs_tnt S n = Some C /\ coo_shape C = [size (remove_nth n s); nth n s 0] /\
            Forall (fun rc => inb (coo_shape C) rc = true) (coo_subs C) /\
            coo_triples C = sp_triples S n.
Proof.
  intros s Hn HL Hin Hns. eexists. split; [apply (sp_nvecs_tnt_eq S n Hn HL Hin Hns)|]. fold s.
  cbn [coo_shape coo_subs]. split; [reflexivity|]. split.
  - apply Forall_forall. intros rc Hrc. apply in_map_iff in Hrc as (j & <- & Hj).
    rewrite Forall_forall in Hin. specialize (Hin j Hj). cbn [inb].
    rewrite (proj2 (Nat.ltb_lt _ _) (sub2ind_lt _ _ (inb_remove n s j Hn Hin))).
    pose proof (inb_nth n s j Hn Hin) as Hj2.
    rewrite (proj2 (Nat.ltb_lt _ _) Hj2). reflexivity.
  - unfold coo_triples, coo_entries, sp_triples, entries. cbn [coo_subs coo_data]. fold s.
    rewrite combine_map_l, map_map. apply map_ext. intros [j v]. reflexivity.
Qed.

(* y = tnt^T tnt as the code path forms it IS gram_sp_impl *)
Theorem gram_sp_code_path_eq (S : sparse V) (n : nat) :
  let s := sshape S in
  n < length s -> length (ssubs S) = length (svals S) -> Forall (fun i => inb s i = true) (ssubs S) ->
  ~ (nth n s 0 = 1 /\ size (remove_nth n s) = 1) ->
  gram_sp_code_path v0 vadd vmul S n = Some (gram_sp_impl v0 vadd vmul S n).
Proof.
  intros s Hn HL Hin Hns. unfold gram_sp_code_path.
  destruct (sp_triples_bridge S n Hn HL Hin Hns) as (C & -> & Hs & _ & Ht).
  rewrite Hs, Ht. reflexivity.
Qed.

(* … and, read through the arrays the COO matrices denote (C14_coo_product), the matrix product is gram_spec of den_sp *)
Theorem gram_sp_code_path_spec (S : sparse V) (n a b : nat) :
  let s := sshape S in
  wf_sp isz S -> n < length s -> ~ (nth n s 0 = 1 /\ size (remove_nth n s) = 1) -> a < nth n s 0 -> b < nth n s 0 ->
  exists C Y, sp_nvecs_tnt S n = Some C /\ coo_shape C = [size (remove_nth n s); nth n s 0] /\
    gram_sp_code_path v0 vadd vmul S n = Some Y /\
    mget v0 Y a b = sum_n v0 vadd (size (remove_nth n s)) (fun k => vmul (den_coo v0 vadd C [k; a]) (den_coo v0 vadd C [k; b])) /\
    mget v0 Y a b = gram_spec v0 vadd vmul s (den_sp v0 S) n a b.
Proof.
  intros s W Hn Hns Ha Hb. pose proof W as (HL & _ & Hin & _).
  destruct (sp_triples_bridge S n Hn HL Hin Hns) as (C & HC & Hs & Hb' & Ht).
  exists C, (gram_sp_impl v0 vadd vmul S n). split; [exact HC|]. split; [exact Hs|]. split.
  - now apply gram_sp_code_path_eq.
  - split.
    + unfold gram_sp_impl. fold s. rewrite (mget_mtab V v0) by assumption. rewrite <- Ht.
      apply (coo_gram_den V v0 v1 vadd vmul vsub vopp Vring C _ _ a b Hs Ha Hb). now rewrite <- Hs.
    + now apply (gram_sparse V v0 v1 vadd vmul vsub vopp Vring isz).
Qed.

(* ---- refusal: when mode n or the product of the other modes is <= 1 the code path does not reach the product
   (squeeze leaves fewer than two modes: AssertionError of spmatrix, or a scalar: ValueError) — finding C14-F2 *)
Lemma sp_reshape_shape (S R : sparse V) new old : sp_reshape_gen S new old = Some R ->
  sshape R = pick 0 (setdiff_modes (length (sshape S)) old) (sshape S) ++ new.
Proof.
  unfold sp_reshape_gen. destruct (negb _); [discriminate|]. destruct (ssubs S).
  - intros E. injection E as <-. reflexivity.
  - destruct (tt_sub2ind _ _ _); [|discriminate]. destruct (tt_ind2sub _ _ _); [|discriminate].
    intros E. injection E as <-. reflexivity.
Qed.

Lemma sp_squeeze_few (R : sparse V) (I K : nat) : sshape R = [I; K; 1] -> I <= 1 \/ K <= 1 ->
  match sp_squeeze v0 R with SqScalar _ => True | SqTensor Q => length (sshape Q) <> 2 end.
Proof.
  intros Hs H. unfold sp_squeeze. rewrite Hs. cbn [forallb length seq filter nth].
  replace (1 <? 1) with false by reflexivity. rewrite !andb_false_r.
  destruct (1 <? I) eqn:EI, (1 <? K) eqn:EK; cbn [filter].
  - apply Nat.ltb_lt in EI, EK. lia.
  - destruct (svals R); cbn; discriminate.
  - destruct (svals R); cbn; discriminate.
  - constructor.
Qed.

Theorem sp_nvecs_tnt_old_refused (S : sparse V) (n : nat) :
  let s := sshape S in
  n < length s -> nth n s 0 <= 1 \/ size (remove_nth n s) <= 1 -> sp_nvecs_tnt_old v0 S n = None.
Proof.
  intros s Hn H. unfold sp_nvecs_tnt_old. fold s.
  rewrite (setdiff_single (length s) n Hn). rewrite (pick_rest 0 s (length s) n eq_refl Hn).
  destruct (sp_reshape_gen S _ _) as [R|] eqn:ER; [|reflexivity].
  apply sp_reshape_shape in ER. fold s in ER. rewrite (setdiff_rest (length s) n Hn) in ER. cbn [pick map app] in ER.
  pose proof (sp_squeeze_few R _ _ ER H) as Hq.
  destruct (sp_squeeze v0 R) as [x|Q]; [reflexivity|].
  unfold spmatrix. destruct (Nat.eqb_spec (length (sshape Q)) 2) as [E|_]; [contradiction|reflexivity].
Qed.

(* the repaired path still refuses — ValueError("Cannot call nvecs on sptensor with only singleton dimensions"), pinned by
   tests/test_sptensor.py::test_sptensor_nvecs — exactly when mode n AND the product of the other modes are 1 *)
Theorem sp_nvecs_tnt_all_singleton (S : sparse V) (n : nat) :
  let s := sshape S in
  n < length s -> nth n s 0 = 1 -> size (remove_nth n s) = 1 -> sp_nvecs_tnt S n = None.
Proof.
  intros s Hn H1 HK. unfold sp_nvecs_tnt. fold s. rewrite (proj2 (Nat.ltb_lt _ _) Hn). cbn [negb].
  rewrite (setdiff_single (length s) n Hn).
  destruct (rest_modes (length s) n) as [|m0 ms] eqn:Er.
  - (* 1-way: reshape((1, 1, 1)) *)
    pose proof (rest_modes_length (length s) n Hn) as HLr. rewrite Er in HLr. cbn [length] in HLr.
    destruct (sp_reshape_gen S _ _) as [R|] eqn:ER; [|reflexivity].
    apply sp_reshape_shape in ER. fold s in ER.
    replace (length s) with 1 in ER by lia. change (setdiff_modes 1 (seq 0 1)) with (@nil nat) in ER. cbn [pick map app] in ER.
    rewrite ER, H1. reflexivity.
  - rewrite <- Er. rewrite (pick_rest 0 s (length s) n eq_refl Hn).
    destruct (sp_reshape_gen S _ _) as [R|] eqn:ER; [|reflexivity].
    apply sp_reshape_shape in ER. fold s in ER. rewrite (setdiff_rest (length s) n Hn) in ER. cbn [pick map app] in ER.
    rewrite ER, H1, HK. reflexivity.
Qed.

(* the mode range test of /repo 453f75b (finding C19-N23 repaired): a mode that does not exist is refused before anything is built
   (before the repair np.setdiff1d ignored it and the 1 x 1 Gram matrix of the fully vectorised tensor was answered) *)
Theorem sp_nvecs_tnt_mode_refused (S : sparse V) (n : nat) : length (sshape S) <= n -> sp_nvecs_tnt S n = None.
Proof. intros H. unfold sp_nvecs_tnt. rewrite (proj2 (Nat.ltb_ge _ _) H). reflexivity. Qed.

Theorem sp_nvecs_tnt_z_refused (S : sparse V) (n : Z) :
  (n < 0 \/ Z.of_nat (length (sshape S)) <= n)%Z -> sp_nvecs_tnt_z S n = None.
Proof.
  intros H. unfold sp_nvecs_tnt_z. destruct (Z.leb_spec 0 n) as [H0|H0]; [|reflexivity].
  apply sp_nvecs_tnt_mode_refused. lia.
Qed.

Theorem sp_nvecs_tnt_z_nat (S : sparse V) (n : nat) : sp_nvecs_tnt_z S (Z.of_nat n) = sp_nvecs_tnt S n.
Proof. unfold sp_nvecs_tnt_z. rewrite (proj2 (Z.leb_le _ _) (Nat2Z.is_nonneg n)), Nat2Z.id. reflexivity. Qed.

(* finding C14-F3 (repaired in /repo c11bcb2) as the positive statement: a 1-way tensor with at least two entries is ANSWERED; tnt is
   the 1 x I row of the stored values and the matrix handed to the solver is the outer product x x^T = gram_spec of the denotation *)
Theorem sp_oneway_answered (S : sparse V) (I : nat) :
  wf_sp isz S -> sshape S = [I] -> 1 < I ->
  exists Y, sp_nvecs_tnt S 0 = Some (mkCoo [1; I] (map (fun j => [0; nth 0 j 0]) (ssubs S)) (svals S)) /\
    gram_sp_code_path v0 vadd vmul S 0 = Some Y /\ Y = gram_sp_impl v0 vadd vmul S 0 /\
    forall a b, a < I -> b < I -> mget v0 Y a b = gram_spec v0 vadd vmul [I] (den_sp v0 S) 0 a b.
Proof.
  intros W Hs HI. pose proof W as (HL & _ & Hin & _).
  assert (Hn : 0 < length (sshape S)) by (rewrite Hs; cbn; lia).
  assert (Hns : ~ (nth 0 (sshape S) 0 = 1 /\ size (remove_nth 0 (sshape S)) = 1)) by (rewrite Hs; cbn [nth]; intros [E _]; lia).
  exists (gram_sp_impl v0 vadd vmul S 0). split.
  - rewrite (sp_nvecs_tnt_eq S 0 Hn HL Hin Hns). rewrite Hs. reflexivity.
  - split; [now apply gram_sp_code_path_eq|]. split; [reflexivity|]. intros a b Ha Hb.
    pose proof (gram_sparse V v0 v1 vadd vmul vsub vopp Vring isz S 0 a b W Hn) as G. rewrite Hs in G. cbn [nth] in G.
    exact (G Ha Hb).
Qed.

(* the positive statement that replaces the refusal theorem of finding C14-F2: a singleton mode n (other modes not all singleton), or
   all other modes singleton (mode n not), is ANSWERED, and the matrix handed to the solver is gram_spec of the denotation *)
Theorem sp_singleton_answered (S : sparse V) (n : nat) :
  let s := sshape S in
  wf_sp isz S -> n < length s ->
  (nth n s 0 = 1 /\ 1 < size (remove_nth n s)) \/ (1 < nth n s 0 /\ size (remove_nth n s) = 1) ->
  exists C Y, sp_nvecs_tnt S n = Some C /\ coo_shape C = [size (remove_nth n s); nth n s 0] /\
    gram_sp_code_path v0 vadd vmul S n = Some Y /\ Y = gram_sp_impl v0 vadd vmul S n /\
    forall a b, a < nth n s 0 -> b < nth n s 0 -> mget v0 Y a b = gram_spec v0 vadd vmul s (den_sp v0 S) n a b.
Proof.
  intros s W Hn Hcase. pose proof W as (HL & _ & Hin & _).
  assert (Hns : ~ (nth n s 0 = 1 /\ size (remove_nth n s) = 1)) by (intros [E1 E2]; destruct Hcase as [[_ H]|[H _]]; lia).
  destruct (sp_triples_bridge S n Hn HL Hin Hns) as (C & HC & Hs & _ & _).
  exists C, (gram_sp_impl v0 vadd vmul S n). split; [exact HC|]. split; [exact Hs|]. split; [now apply gram_sp_code_path_eq|].
  split; [reflexivity|]. intros a b Ha Hb. now apply (gram_sparse V v0 v1 vadd vmul vsub vopp Vring isz).
Qed.

End SpPathProofs.

Example sp_path_example :
  let S := mkSp [2; 3; 2] [[1; 2; 0]; [0; 0; 1]; [1; 0; 0]; [0; 2; 0]] [5; 2; 3; 4] in
  sp_nvecs_tnt S 1 = Some (mkCoo [4; 3] [[1; 2]; [2; 0]; [1; 0]; [0; 2]] [5; 2; 3; 4]) /\
  sp_nvecs_tnt S 0 = Some (mkCoo [6; 2] [[2; 1]; [3; 0]; [0; 1]; [2; 0]] [5; 2; 3; 4]) /\
  gram_sp_code_path 0 Nat.add Nat.mul S 1 = Some [[13; 0; 15]; [0; 0; 0]; [15; 0; 41]] /\
  gram_sp_code_path 0 Nat.add Nat.mul S 0 = Some [[20; 20]; [20; 34]] /\
  sp_nvecs_tnt (mkSp [1; 4; 3] [[0; 1; 2]; [0; 3; 0]] [2; 1]) 0 = Some (mkCoo [12; 1] [[9; 0]; [3; 0]] [2; 1]) /\
  gram_sp_code_path 0 Nat.add Nat.mul (mkSp [1; 4; 3] [[0; 1; 2]; [0; 3; 0]] [2; 1]) 0 = Some [[5]] /\
  sp_nvecs_tnt (mkSp [3; 1] [[0; 0]; [2; 0]] [2; 3]) 0 = Some (mkCoo [1; 3] [[0; 0]; [0; 2]] [2; 3]) /\
  gram_sp_code_path 0 Nat.add Nat.mul (mkSp [3; 1] [[0; 0]; [2; 0]] [2; 3]) 0 = Some [[4; 0; 6]; [0; 0; 0]; [6; 0; 9]] /\
  sp_nvecs_tnt (mkSp [1; 1; 1] [[0; 0; 0]] [7]) 2 = None /\
  sp_nvecs_tnt (mkSp [5] [[0]; [2]; [3]] [2; 1; 3]) 0 = Some (mkCoo [1; 5] [[0; 0]; [0; 2]; [0; 3]] [2; 1; 3]) /\
  gram_sp_code_path 0 Nat.add Nat.mul (mkSp [3] [[2]; [0]] [2; 3]) 0 = Some [[9; 0; 6]; [0; 0; 0]; [6; 0; 4]] /\
  sp_nvecs_tnt (mkSp [1] [[0]] [7]) 0 = None /\
  sp_nvecs_tnt (mkSp [2; 3] [[1; 2]] [7]) 2 = None /\ sp_nvecs_tnt_z (mkSp [2; 3] [[1; 2]] [7]) (-1) = None /\
  sp_nvecs_tnt_z (mkSp [2; 3] [[1; 2]] [7]) 1 = Some (mkCoo [2; 3] [[1; 2]] [7]) /\
  sp_nvecs_tnt_old 0 (mkSp [1; 4; 3] [[0; 1; 2]; [0; 3; 0]] [2; 1]) 0 = None /\
  sp_nvecs_tnt_old 0 (mkSp [3; 1] [[0; 0]; [2; 0]] [2; 3]) 0 = None.
Proof. vm_compute. repeat split. Qed.
