(* Props/W4C08.v — ktensor.permute / extract / arrange as GENERATED from /repo/pyttb/ktensor.py on every run
   (Gen/GenKtensor4.v; `self` is a record parameter, `self.normalize()` inside arrange is an opaque parameter):
   bridge to the hand references (Model/W4Ktensor.v) and, through them, to the hand models k_permute / k_extract /
   k_arrange_perm / k_gather of Model/C08Kruskal.v with C08's denotation theorems.  Only statements, `exact`,
   Print Assumptions. *)
From Coq Require Import List ZArith Arith Bool Permutation.
From PV Require Import Base.Index Base.Perm Base.Sum Np.NpZ Np.NpZ2 Np.NpZ3 Np.NpZ3c Np.NpZ3d Np.NpZ3e Np.NpZ4 Model.Repr
  Model.C08Kruskal Proofs.C08Proofs Model.W4Ktensor Proofs.W4Ktensor Proofs.W4KtensorLaws Gen.GenKtensor4.
Import ListNotations.
Local Open Scope Z_scope.

(* ---- permute ---- *)
Theorem C08_gen_permute_bridge : forall (self : ktz) (order : vec), ktensor_permute self order = H_permute self order.
Proof. exact permute_bridge. Qed.
Print Assumptions C08_gen_permute_bridge.

(* accepted exactly on permutations of range(ndims); the result is the hand model k_permute *)
Theorem C08_gen_permute_model : forall (self : ktz) (order : vec),
  match ktensor_permute self order with
  | Ok k' => is_perm (nats order) (length (kt_factors self)) /\ to_K k' = k_permute (nats order) (to_K self)
  | Err => np_sort order <> np_arange 0 (zlen (kt_factors self)) \/
           kt_make_ok (np_take [] (kt_factors self) order) (kt_weights self) = false
  end.
Proof. exact gen_permute_model. Qed.
Print Assumptions C08_gen_permute_model.

(* weights kept; entry i of the result is entry (i o order^-1) of self *)
Theorem C08_gen_permute_den : forall (self k' : ktz) (order : vec), ktensor_permute self order = Ok k' ->
  kt_weights k' = kt_weights self /\
  forall i, length i = length (kt_factors self) ->
            den_k 0 1 Z.add Z.mul (to_K k') i = den_k 0 1 Z.add Z.mul (to_K self) (pick 0%nat (invperm (nats order)) i).
Proof. exact gen_permute_den. Qed.
Print Assumptions C08_gen_permute_den.

Theorem C08_gen_permute_rejects : forall (self : ktz) (order : vec),
  np_sort order <> np_arange 0 (zlen (kt_factors self)) -> ktensor_permute self order = Err.
Proof. exact gen_permute_rejects. Qed.
Print Assumptions C08_gen_permute_rejects.

Example C08_gen_permute_example :
  ktensor_permute (mkkt [2; 3] [[[1; 1]; [2; 0]]; [[1; 2]]; [[5; 6]; [7; 8]; [9; 10]]]) [2; 0; 1]
    = Ok (mkkt [2; 3] [[[5; 6]; [7; 8]; [9; 10]]; [[1; 1]; [2; 0]]; [[1; 2]]]) /\
  ktensor_permute (mkkt [2; 3] [[[1; 1]; [2; 0]]; [[1; 2]]]) [0; 0] = Err /\
  ktensor_permute (mkkt [2; 3] [[[1; 1]; [2; 0]]; [[1; 2]]]) [1; -1] = Err.
Proof. repeat split; reflexivity. Qed.

(* ---- extract ---- *)
Theorem C08_gen_extract_bridge : forall (self : ktz) (idx : pyidx), ktensor_extract self idx = H_extract self idx.
Proof. exact extract_bridge. Qed.
Print Assumptions C08_gen_extract_bridge.

Theorem C08_gen_extract_none : forall self : ktz, ktensor_extract self IxNone = Ok self.
Proof. exact gen_extract_none. Qed.
Print Assumptions C08_gen_extract_none.

(* an accepted request names between 1 and R components, all in range(R); the result is the hand model k_extract *)
Theorem C08_gen_extract_model : forall (self k' : ktz) (idx : pyidx) (c : vec),
  H_components idx = Some c -> ktensor_extract self idx = Ok k' ->
  (0 < zlen c <= zlen (kt_weights self)) /\ (forall x, In x c -> 0 <= x < zlen (kt_weights self)) /\
  to_K k' = k_extract 0 (nats c) (to_K self).
Proof. exact gen_extract_model. Qed.
Print Assumptions C08_gen_extract_model.

(* ... and denotes the sum of the selected components *)
Theorem C08_gen_extract_den : forall (self k' : ktz) (idx : pyidx) (c : vec),
  H_components idx = Some c -> ktensor_extract self idx = Ok k' ->
  forall i, den_k 0 1 Z.add Z.mul (to_K k') i =
            if inb (kshape (to_K self)) i then sum_over 0 Z.add (nats c) (comp Z 0 1 Z.mul (to_K self) i) else 0.
Proof. exact gen_extract_den. Qed.
Print Assumptions C08_gen_extract_den.

(* a component index outside range(R) (negative ones included: no wrap) is rejected *)
Theorem C08_gen_extract_rejects : forall (self : ktz) (idx : pyidx) (c : vec), H_components idx = Some c ->
  (exists x, In x c /\ ~ (0 <= x < zlen (kt_weights self))) -> ktensor_extract self idx = Err.
Proof. exact gen_extract_rejects. Qed.
Print Assumptions C08_gen_extract_rejects.

Example C08_gen_extract_example :
  ktensor_extract (mkkt [2; 3; 5] [[[1; 4; 7]; [2; 5; 8]]; [[3; 6; 9]]]) (IxSeq [2; 0])
    = Ok (mkkt [5; 2] [[[7; 1]; [8; 2]]; [[9; 3]]]) /\
  ktensor_extract (mkkt [2; 3; 5] [[[1; 4; 7]; [2; 5; 8]]; [[3; 6; 9]]]) (IxInt 1) = Ok (mkkt [3] [[[4]; [5]]; [[6]]]) /\
  ktensor_extract (mkkt [2; 3; 5] [[[1; 4; 7]; [2; 5; 8]]; [[3; 6; 9]]]) (IxInt (-1)) = Err /\
  ktensor_extract (mkkt [2; 3; 5] [[[1; 4; 7]; [2; 5; 8]]; [[3; 6; 9]]]) (IxArr []) = Err /\
  ktensor_extract (mkkt [2; 3; 5] [[[1; 4; 7]; [2; 5; 8]]; [[3; 6; 9]]]) (IxSlice (mkslice None None None)) = Err.
Proof. repeat split; reflexivity. Qed.

(* ---- arrange ---- *)
Theorem C08_gen_arrange_bridge : forall (nz : ktz -> res ktz) (self : ktz) (wf : option Z) (perm : pyidx),
  ktensor_arrange nz self wf perm = H_arrange nz self wf perm.
Proof. exact arrange_bridge. Qed.
Print Assumptions C08_gen_arrange_bridge.

(* arrange(permutation=p): accepted only for permutations of the components; the hand model k_arrange_perm; the
   normalize oracle is not consulted *)
Theorem C08_gen_arrange_perm_model : forall (nz : ktz -> res ktz) (self k' : ktz) (perm : pyidx) (p : vec),
  perm = IxSeq p \/ perm = IxArr p -> ktensor_arrange nz self None perm = Ok k' ->
  is_perm (nats p) (length (kt_weights self)) /\ to_K k' = k_arrange_perm 0 (nats p) (to_K self).
Proof. exact gen_arrange_perm_model. Qed.
Print Assumptions C08_gen_arrange_perm_model.

Theorem C08_gen_arrange_perm_den : forall (nz : ktz -> res ktz) (self k' : ktz) (perm : pyidx) (p : vec),
  perm = IxSeq p \/ perm = IxArr p -> ktensor_arrange nz self None perm = Ok k' ->
  forall i, den_k 0 1 Z.add Z.mul (to_K k') i = den_k 0 1 Z.add Z.mul (to_K self) i.
Proof. exact gen_arrange_perm_den. Qed.
Print Assumptions C08_gen_arrange_perm_den.

(* arrange(): whatever normalize returns is re-ordered so that the weights descend; same denoted array as normalize's result *)
Theorem C08_gen_arrange_sort : forall (nz : ktz -> res ktz) (self k' : ktz) (perm : pyidx),
  ix_is_list perm = false -> ix_is_arr perm = false -> ktensor_arrange nz self None perm = Ok k' ->
  exists k1, nz self = Ok k1 /\ kt_weights k' = rev (np_sort (kt_weights k1)) /\
             forall i, den_k 0 1 Z.add Z.mul (to_K k') i = den_k 0 1 Z.add Z.mul (to_K k1) i.
Proof. exact gen_arrange_sort. Qed.
Print Assumptions C08_gen_arrange_sort.

Theorem C08_gen_arrange_rejects_both : forall (nz : ktz -> res ktz) (self : ktz) (n : Z) (perm : pyidx),
  perm <> IxNone -> ktensor_arrange nz self (Some n) perm = Err.
Proof. exact gen_arrange_rejects_both. Qed.
Print Assumptions C08_gen_arrange_rejects_both.

Example C08_gen_arrange_example :
  ktensor_arrange (fun k => Ok k) (mkkt [2; 7; 5] [[[1; 4; 7]; [2; 5; 8]]; [[3; 6; 9]]]) None IxNone
    = Ok (mkkt [7; 5; 2] [[[4; 7; 1]; [5; 8; 2]]; [[6; 9; 3]]]) /\
  ktensor_arrange (fun k => Ok k) (mkkt [2; 7; 5] [[[1; 4; 7]; [2; 5; 8]]; [[3; 6; 9]]]) (Some 1) IxNone
    = Ok (mkkt [1; 1; 1] [[[4; 7; 1]; [5; 8; 2]]; [[42; 45; 6]]]) /\
  ktensor_arrange (fun _ => Err) (mkkt [2; 7; 5] [[[1; 4; 7]; [2; 5; 8]]; [[3; 6; 9]]]) None (IxSeq [1; 2; 0])
    = Ok (mkkt [7; 5; 2] [[[4; 7; 1]; [5; 8; 2]]; [[6; 9; 3]]]) /\
  ktensor_arrange (fun k => Ok k) (mkkt [2; 7; 5] [[[1; 4; 7]; [2; 5; 8]]; [[3; 6; 9]]]) None (IxSeq [1; 1; 0]) = Err.
Proof. repeat split; reflexivity. Qed.
