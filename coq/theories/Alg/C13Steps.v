(* Alg/C13Steps.v — the projected update steps of SGD / Adam / Adagrad (DESIGN §C13).
   Source anchors: pyttb/gcp/optimizers.py::SGD.update_step, Adam.update_step, Adagrad.update_step.
   Every step ends in np.maximum(lower_bound, .) component-wise; whatever the raw update is (square roots and
   divisions are abstract operations here), every entry of the new factor matrices is >= lower_bound.
   A model is the list of all factor entries; lower_bound = -inf is None. *)
From Coq Require Import List Arith Lia Bool.
Import ListNotations.

Section Steps.
Variable V : Type.
Variable vle : V -> V -> Prop.
Variable vmax : V -> V -> V.
Hypothesis vmax_l : forall a b, vle a (vmax a b).
Variables (vadd vsub vmul vdiv : V -> V -> V) (vsqrt : V -> V) (vpow : V -> nat -> V) (v0 v1 : V).

Fixpoint zipw {A B C} (h : A -> B -> C) (l1 : list A) (l2 : list B) : list C :=
  match l1, l2 with a :: l1', b :: l2' => h a b :: zipw h l1' l2' | _, _ => [] end.

Definition above (lb : option V) (x : V) : Prop := match lb with None => True | Some b => vle b x end.
Definition clamp (lb : option V) (x : V) : V := match lb with None => x | Some b => vmax b x end.
Definition project (lb : option V) (raw : list V) : list V := map (clamp lb) raw.

Lemma project_above lb raw : Forall (above lb) (project lb raw).
Proof.
  unfold project. apply Forall_map. apply Forall_forall. intros x _. destruct lb; cbn; auto.
Qed.

(* SGD: step = decay^nfails * rate; factor - step * grad *)
Definition sgd_step (rate decay : V) (nfails : nat) (lb : option V) (xs gs : list V) : list V :=
  let step := vmul (vpow decay nfails) rate in
  project lb (zipw (fun x g => vsub x (vmul step g)) xs gs).

(* Adam: the object's private state; note _total_iterations advances by epoch_iters on EVERY step *)
Record adam_state := mkAdam { am : list V; av : list V; am_prev : list V; av_prev : list V; atot : nat }.
Definition adam_step (rate decay beta1 beta2 eps : V) (epoch_iters nfails : nat) (lb : option V)
           (o : adam_state) (xs gs : list V) : list V * adam_state :=
  let m0 := if Nat.eqb (atot o) 0 then am o ++ map (fun _ => v0) xs else am o in
  let w0 := if Nat.eqb (atot o) 0 then av o ++ map (fun _ => v0) xs else av o in
  let tot := atot o + epoch_iters in
  let step := vmul (vpow decay nfails) rate in
  let m' := zipw (fun mk gk => vadd (vmul beta1 mk) (vmul (vsub v1 beta1) gk)) m0 gs in
  let w' := zipw (fun vk gk => vadd (vmul beta2 vk) (vmul (vsub v1 beta2) (vmul gk gk))) w0 gs in
  let mhat := map (fun mk => vdiv mk (vsub v1 (vpow beta1 tot))) m' in
  let vhat := map (fun vk => vdiv vk (vsub v1 (vpow beta2 tot))) w' in
  let upd := zipw (fun mh vh => vdiv (vmul step mh) (vadd (vsqrt vh) eps)) mhat vhat in
  (project lb (zipw vsub xs upd), mkAdam m' w' m0 w0 tot).
Definition adam_failed (epoch_iters : nat) (o : adam_state) : adam_state :=
  mkAdam (am_prev o) (av_prev o) (am_prev o) (av_prev o) (atot o - epoch_iters).

(* Adagrad: _gnormsum accumulates; step = 1 / sqrt(_gnormsum) if _gnormsum > 0 else 0 (the guard of /repo 2496788, finding C13-G1:
   while every gradient sampled since the last reset is exactly zero the accumulator is 0 and the model stays where it is; the
   square root is not even computed then); vpos = the test `_gnormsum > 0` *)
Variable vpos : V -> bool.
Definition adagrad_step (lb : option V) (gsum : V) (xs gs : list V) : list V * V :=
  let gsum' := vadd gsum (fold_right vadd v0 (map (fun g => vmul g g) gs)) in
  let step := if vpos gsum' then vdiv v1 (vsqrt gsum') else v0 in
  (project lb (zipw (fun x g => vsub x (vmul step g)) xs gs), gsum').

(* reset_state(): Adam forgets moments and step counter, Adagrad its accumulated gradient norm; SGD has nothing to forget.
   The result never depends on the state being reset. *)
Definition adam_reset (o : adam_state) : adam_state := mkAdam [] [] [] [] 0.
Definition adagrad_reset (gsum : V) : V := v0.
Lemma adam_reset_const o1 o2 : adam_reset o1 = adam_reset o2.
Proof. reflexivity. Qed.
Lemma adagrad_reset_const g1 g2 : adagrad_reset g1 = adagrad_reset g2.
Proof. reflexivity. Qed.
(* after the reset the first Adam step allocates zero moments of the model's size (the branch _total_iterations == 0) *)
Lemma adam_first_step_after_reset rate decay b1 b2 eps ei nf lb o xs gs :
  am_prev (snd (adam_step rate decay b1 b2 eps ei nf lb (adam_reset o) xs gs)) = map (fun _ => v0) xs /\
  atot (snd (adam_step rate decay b1 b2 eps ei nf lb (adam_reset o) xs gs)) = ei.
Proof. split; reflexivity. Qed.

Theorem sgd_step_above rate decay nfails lb xs gs : Forall (above lb) (sgd_step rate decay nfails lb xs gs).
Proof. apply project_above. Qed.
Theorem adam_step_above rate decay b1 b2 eps ei nf lb o xs gs :
  Forall (above lb) (fst (adam_step rate decay b1 b2 eps ei nf lb o xs gs)).
Proof. apply project_above. Qed.
Theorem adagrad_step_above lb gsum xs gs : Forall (above lb) (fst (adagrad_step lb gsum xs gs)).
Proof. apply project_above. Qed.

(* any number of steps (an epoch): the last step decides *)
Definition iterate_steps {S} (stepf : S -> list V -> list V * S) : nat -> S -> list V -> list V * S :=
  fix it k s x := match k with 0 => (x, s) | S k' => let (x', s') := stepf s x in it k' s' x' end.

Theorem epoch_above {S} (stepf : S -> list V -> list V * S) lb :
  (forall s x, Forall (above lb) (fst (stepf s x))) ->
  forall k s x, Forall (above lb) x \/ 1 <= k -> Forall (above lb) (fst (iterate_steps stepf k s x)).
Proof.
  intros H. induction k as [|k IH]; intros s x Hx; cbn.
  - destruct Hx as [Hx|Hx]; [exact Hx|lia].
  - specialize (H s x). destruct (stepf s x) as [x' s']. apply IH. left. exact H.
Qed.

End Steps.
