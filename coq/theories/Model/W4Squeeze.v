(* Model/W4Squeeze.v — hand reference for sptensor.squeeze() as generated into Gen/GenSptensor4b.v. *)
From Coq Require Import List ZArith Arith Bool Lia.
From PV Require Import Np.NpZ Np.NpZ2 Np.NpZ3 Np.NpZ3c Np.NpZ3d Np.NpZ3e Np.NpZ4 Np.NpZ4b Np.NpZ4d.
Import ListNotations.
Local Open Scope Z_scope.

(* positions of the modes of size > 1 *)
Definition H_keep (shape : vec) : vec := np_where1 (np_gt_s shape 1).
(* no singleton mode: a copy (through the constructor); every mode a singleton: the single stored value, 0 when nothing
   is stored (more than one stored value: .item() raises); otherwise the singleton modes are dropped from the shape and
   from every subscript row *)
Definition H_squeeze (self : sptz) : res sq_result :=
  let sh := spt_shape self in
  if forallb (fun d => d >? 1) sh then
    (if spt_make_ok (spt_subs self) (spt_vals self) sh then Ok (SqTensor self) else Err)
  else if zlen (H_keep sh) =? 0 then
    match spt_vals self with
    | [] => Ok (SqScalar 0)
    | [v] => Ok (SqScalar v)
    | _ => Err
    end
  else
    let siz := filter (fun d => d >? 1) sh in
    if zlen (spt_vals self) =? 0 then (if spt_make_ok [] [] siz then Ok (SqTensor (mkspt [] [] siz)) else Err)
    else if np_cols_ok (spt_subs self) (H_keep sh) && spt_make_ok (np_cols (spt_subs self) (H_keep sh)) (spt_vals self) siz
         then Ok (SqTensor (mkspt (np_cols (spt_subs self) (H_keep sh)) (spt_vals self) siz)) else Err.
