(* Props/W7C01d.v — the GENERATED sptenmat constructor (Gen/GenSptenmat7.v) with copy=True stores no zero value; the gather at
   np.nonzero is a filter.  Only statements, `exact`, Print Assumptions. *)
From Coq Require Import List ZArith Bool.
From PV Require Import Np.NpZ Np.NpZ2 Np.NpZ3 Np.NpZ7 Np.NpZ7b Gen.GenSptenmat7 Proofs.W7SptenmatNZ.
Import ListNotations.
Local Open Scope Z_scope.

Theorem C01_gen_sptenmat_init_copy_no_zero : forall (subs : option mat) (vals rdims cdims : option vec) (tshape : vec) (M : stmz),
  is_some rdims || is_some cdims = true ->
  sptenmat_init subs vals rdims cdims tshape true = Ok M ->
  forallb (fun x => negb (x =? 0)) (stm7_vals M) = true.
Proof. exact gen_sptenmat_init_copy_no_zero. Qed.
Print Assumptions C01_gen_sptenmat_init_copy_no_zero.

Theorem C01_np7_take_nonzero_is_filter : forall v : vec,
  np_take 0 v (np7_nonzero v) = filter (fun x => negb (x =? 0)) v.
Proof. exact w7_take_nonzero. Qed.
Print Assumptions C01_np7_take_nonzero_is_filter.
