(* Model/C16Text.v — from the CHARACTERS of a file to the token stream of Model/C16Lines.v.
   A file is cut into atoms: the white-space characters blank, CR, LF one by one, and the maximal pieces free of white space
   (each classified as word / integer text / number text by the harness; tabs, VT, FF are outside the model).
   import_data opens the file in text mode (universal newlines: CR LF is read as LF) and reads
     header and sparse-entry lines with   fp.readline().strip().split(" ")
       strip():     blanks (and the line break) at both ends of the line are dropped
       split(" "):  the pieces between SINGLE blanks; k adjacent blanks inside the line give k-1 empty pieces, and int("") /
                    float("") / np.int64("") raise — the GAP marker [Word ""]: unreadable where an integer, a subscript or a
                    value is expected on such a line, not a type word, ignored where the rest of a line is ignored
     values with    np.fromfile(fp, count, sep=" "), for which any run of white space (gaps and line breaks) is a separator.
   [lex] is that tokenisation as one pass over the atoms; a lone CR (old Mac line ends) is a line break for readline but
   makes numpy's file-position bookkeeping fail (OverflowError observed): files with lone CRs are outside the claims.
   Definitions only. *)
From Coq Require Import String.
From Coq Require Import List Arith ZArith Lia Bool.
From PV Require Import Base.Index Np.Array Model.Sparse Model.Repr Model.C16IO Model.C16Lines.
Import ListNotations.

Section X.
Variables (D T : Type) (d0 : D) (parse : T -> D) (ofZ : Z -> D).
Notation token := (token T).
Notation line := (list token).

Inductive atom := ABlank | ACR | ALF | ATok (t : token).
Definition gap : option token := Some (Word EmptyString).

(* started: a piece has been seen on the current line; pend: blanks seen since that piece *)
Fixpoint lex_aux (started : bool) (pend : nat) (a : list atom) : stream T :=
  match a with
  | [] => []
  | ABlank :: r => lex_aux started (if started then S pend else 0) r
  | ATok t :: r => (if started then repeat gap (pred pend) else []) ++ Some t :: lex_aux true 0 r
  | ALF :: r => None :: lex_aux false 0 r
  | ACR :: r => match r with ALF :: _ => lex_aux started pend r | _ => None :: lex_aux false 0 r end
  end.
Definition lex (a : list atom) : stream T := lex_aux false 0 a.

(* import_data(filename, index_base = b) on the characters of the file *)
Definition import_text (b : Z) (a : list atom) : option (obj D) := import_stream D T d0 parse ofZ b (lex a).

(* ---- how a file may be WRITTEN: every line with its own leading / trailing blanks and its own line end ---- *)
Inductive eol := LF | CRLF.
Record style := mkStyle { lead : nat; trail : nat; brk : eol }.
Definition eol_atoms (e : eol) : list atom := match e with LF => [ALF] | CRLF => [ACR; ALF] end.
Fixpoint join_toks (l : line) : list atom :=
  match l with
  | [] => []
  | [t] => [ATok t]
  | t :: r => ATok t :: ABlank :: join_toks r
  end.
Definition render_line (ls : line * style) : list atom :=
  repeat ABlank (lead (snd ls)) ++ join_toks (fst ls) ++ repeat ABlank (trail (snd ls)) ++ eol_atoms (brk (snd ls)).
Definition render (f : list (line * style)) : list atom := flat_map render_line f.
(* what export_data writes: no extra blanks, LF *)
Definition plain : style := mkStyle 0 0 LF.
Definition render_plain (f : list line) : list atom := render (map (fun l => (l, plain)) f).
End X.

Arguments ABlank {T}.
Arguments ACR {T}.
Arguments ALF {T}.
Arguments ATok {T} t.
