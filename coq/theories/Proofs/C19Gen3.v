(* Proofs/C19Gen3.v — wave 3b: the mttkrp guard tied to the GENERATED get_mttkrp_factors (Gen/GenUtils3.v, regenerated from
   pyttb_utils.py on every run): on a list of matrices the generated helper refuses exactly when guard_mttkrp_factors does. *)
From Coq Require Import List ZArith Bool Lia Sorted.
From PV Require Import Np.NpZ Np.NpZ2 Np.NpZ3 Gen.GenUtils Gen.GenUtils3 Proofs.NpZProofs Proofs.UtilsProofs
  Model.C19Guards Proofs.C19Proofs Proofs.C19Ttv Proofs.C19More Proofs.C19W3.
Import ListNotations.
Local Open Scope Z_scope.

(* the descriptor of a matrix: (rows, columns) *)
Definition mshp (m : mat) : shp2 := (zlen m, np_ncols m).

(* np.unique(l) has more than one element iff l does not consist of copies of one of its elements *)
Lemma unique_gt1 l v : In v l -> (zlen (np_unique l) >? 1) = negb (forallb (fun x => x =? v) l).
Proof.
  intros Hv. pose proof (np_unique_strict l) as Hs. pose proof (fun x => np_unique_in x l) as Hin.
  destruct (forallb (fun x => x =? v) l) eqn:F; cbn [negb].
  - rewrite forallb_forall in F.
    assert (Hall : forall x, In x (np_unique l) -> x = v) by (intros x Hx; apply Z.eqb_eq, F, Hin, Hx).
    destruct (np_unique l) as [|a [|b r]]; try reflexivity.
    exfalso. inversion Hs as [|? ? _ Hfa]; subst. rewrite Forall_forall in Hfa.
    assert (a = v) by (apply Hall; now left). assert (b = v) by (apply Hall; right; now left).
    specialize (Hfa b (or_introl eq_refl)). lia.
  - apply forallb_false_ex in F as (x & Hx & Fx). apply Z.eqb_neq in Fx.
    apply Hin in Hv. apply Hin in Hx.
    destruct (np_unique l) as [|a [|b r]].
    + contradiction.
    + destruct Hv as [<-|[]]. destruct Hx as [->|[]]. contradiction.
    + unfold zlen. cbn [length]. apply Z.gtb_lt. lia.
Qed.

Lemma idx_ok_in_range {A} (l : list A) i : 0 <= i < zlen l -> idx_ok l i = true.
Proof. intros H. unfold idx_ok. apply andb_true_iff. split; [apply Z.leb_le|apply Z.ltb_lt]; lia. Qed.

Theorem get_mttkrp_factors_guard U n N :
  is_ok (get_mttkrp_factors (USeq U) n N) = is_ok (guard_mttkrp_factors N (map mshp U) n).
Proof.
  unfold get_mttkrp_factors, guard_mttkrp_factors. cbn [bind]. okb.
  assert (Hz : zlen (map mshp U) = zlen U) by (unfold zlen; now rewrite map_length). rewrite Hz.
  destruct (Z.eqb_spec (zlen U) N) as [El|El]; [|reflexivity]. cbn [andb]. unfold in_range.
  destruct ((0 <=? n) && (n <? N)) eqn:En; [|reflexivity]. cbn [andb].
  assert (Hn : 0 <= n < N) by (apply andb_true_iff in En as [A B]; apply Z.leb_le in A; apply Z.ltb_lt in B; lia).
  set (sel := filter (fun i => negb (i =? n)) (np_arange 0 N)).
  assert (Hsel : forall i, In i sel -> 0 <= i < N /\ i <> n).
  { intros i Hi. apply filter_In in Hi as [Hi Hne]. apply in_np_arange in Hi. apply negb_true_iff, Z.eqb_neq in Hne. auto. }
  replace (forallb (fun i => idx_ok U i) sel) with true
    by (symmetry; apply forallb_forall; intros i Hi; apply idx_ok_in_range; rewrite El; apply Hsel, Hi).
  set (L := map (fun i => np_ncols (znth [] U i)) sel).
  enough (HL : (zlen (np_unique L) >? 1) = negb (mttkrp_cols_ok N (map mshp U) n)).
  { rewrite HL. destruct (mttkrp_cols_ok N (map mshp U) n); reflexivity. }
  (* the column requirement as a statement about the modes other than n *)
  assert (Hcols : mttkrp_cols_ok N (map mshp U) n = forallb (fun x => x =? mttkrp_R (map mshp U) n) L).
  { unfold mttkrp_cols_ok, L, sel. rewrite forallb_map, forallb_filter_imp.
    rewrite <- El at 1. rewrite <- Hz at 1. rewrite (combine_arange_map ((0, 0) : shp2) (map mshp U)), forallb_map. rewrite Hz, El.
    apply forallb_ext_in. intros m Hm. apply in_np_arange in Hm. cbn [fst snd]. rewrite negb_involutive.
    destruct (m =? n); [reflexivity|]. cbn [orb]. f_equal.
    rewrite (znth_map_in mshp []) by lia. reflexivity. }
  rewrite Hcols.
  destruct (Z.leb_spec 2 N) as [H2|H2].
  - apply unique_gt1. unfold mttkrp_R, shp2_d, L.
    set (j := if n =? 0 then 1 else 0).
    assert (Hj : 0 <= j < N /\ j <> n) by (unfold j; destruct (Z.eqb_spec n 0); lia).
    rewrite (znth_map_in mshp []) by lia. cbn [cols mshp snd].
    apply in_map_iff. exists j. split; [reflexivity|]. apply filter_In. split; [apply in_np_arange; lia|].
    apply negb_true_iff, Z.eqb_neq. lia.
  - assert (HN : N = 1) by lia. assert (Hn0 : n = 0) by lia. unfold L, sel. rewrite HN, Hn0. reflexivity.
Qed.

(* consequence: the generated helper refuses a list of matrices whose other-than-n column counts differ (C19-N09), a list
   of the wrong length and a mode outside [0, N) *)
Corollary get_mttkrp_factors_rejects U n N :
  mttkrp_cols_ok N (map mshp U) n = false \/ zlen U <> N \/ ~ (0 <= n < N) -> get_mttkrp_factors (USeq U) n N = Err.
Proof.
  intros H. pose proof (get_mttkrp_factors_guard U n N) as G.
  assert (E : is_ok (guard_mttkrp_factors N (map mshp U) n) = false).
  { unfold guard_mttkrp_factors. okb. unfold zlen in *. rewrite map_length. destruct H as [H|[H|H]].
    - rewrite H. now rewrite !andb_false_r.
    - destruct (Z.eqb_spec (Z.of_nat (length U)) N); [contradiction|reflexivity].
    - unfold in_range. destruct (Z.leb_spec 0 n), (Z.ltb_spec n N); cbn; rewrite ?andb_false_r; try reflexivity. lia. }
  rewrite E in G. destruct (get_mttkrp_factors (USeq U) n N); [discriminate|reflexivity].
Qed.

Example get_mttkrp_factors_ex :
  get_mttkrp_factors (USeq [[[1; 2]; [3; 4]]; [[1; 2; 3]; [4; 5; 6]]; [[1; 2]; [3; 4]]]) 2 3 = Err /\
  is_ok (get_mttkrp_factors (USeq [[[1; 2]; [3; 4]]; [[1; 2; 3]; [4; 5; 6]]; [[1; 2]; [3; 4]]]) 1 3) = true.
Proof. split; reflexivity. Qed.
