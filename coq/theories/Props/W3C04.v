(* Props/W3C04.v — sparse subscript renumbering and key classification (property C04: indexing of sparse tensors), stated
   over the functions of Gen/GenUtils3.v as regenerated from /repo/pyttb/pyttb_utils.py at run time.
   Only statements, `exact`, Print Assumptions. *)
From Coq Require Import List ZArith Bool.
From PV Require Import Np.NpZ Np.NpZ2 Np.NpZ3 Gen.GenUtils3 Model.W3Utils Proofs.W3Bridge Proofs.W3Laws.
Import ListNotations.
Local Open Scope Z_scope.

(* bridge lemmas: the generated text computes the hand references *)
Theorem C04_gen_renumberdim_bridge : forall idx shape nr, tt_renumberdim idx shape nr = H_renumberdim idx shape nr.
Proof. exact tt_renumberdim_bridge. Qed.
Print Assumptions C04_gen_renumberdim_bridge.

(* `g` = which key entries the loop admits: the current source compares every entry with slice(None, None, None), which raises
   for ndarray entries with more than one element (g = ix_eq_ok; finding W3-N01); the repaired source admits every entry *)
Theorem C04_gen_renumber_bridge : exists g : pyidx -> bool, (forall r, ix_eq_ok r = true -> g r = true) /\
  forall subs shape nrs, tt_renumber subs shape nrs = H_renumber g subs shape nrs.
Proof. exact tt_renumber_bridge. Qed.
Print Assumptions C04_gen_renumber_bridge.

Theorem C04_gen_irenumber_bridge : forall t shape nrs, tt_irenumber t shape nrs = H_irenumber t shape nrs.
Proof. exact tt_irenumber_bridge. Qed.
Print Assumptions C04_gen_irenumber_bridge.

(* renumbering one mode: for a selection `sel` of distinct in-range source indices (a slice, a list or an array key) that
   contains every stored subscript, the new subscript of an entry is its position inside the selection
   (sel[new] = old, 0 <= new < len(sel)) and the mode gets size len(sel) *)
Theorem C04_gen_renumberdim_positions : forall (idx : vec) (shape : Z) (nr : pyidx) (sel : vec),
  H_selection shape nr = Ok (sel, zlen sel) -> 0 <= shape ->
  NoDup sel -> (forall x, In x sel -> 0 <= x < shape) -> (forall x, In x idx -> In x sel) ->
  exists newidx, tt_renumberdim idx shape nr = Ok (newidx, zlen sel) /\ length newidx = length idx /\
    forall j, (j < length idx)%nat ->
      0 <= nth j newidx 0 < zlen sel /\ znth 0 sel (nth j newidx 0) = nth j idx 0.
Proof. exact renumberdim_positions. Qed.
Print Assumptions C04_gen_renumberdim_positions.

Example C04_gen_renumberdim_example :
  tt_renumberdim [3; 1; 3; 0] 5 (IxSeq [3; 0; 1]) = Ok ([0; 2; 0; 1], 3) /\
  tt_renumberdim [3; 1] 5 (IxSlice (mkslice (Some 1) None (Some 2))) = Ok ([1; 0], 2) /\
  tt_renumberdim [4; 0] 5 (IxSlice (mkslice None None (Some (-1)))) = Ok ([0; 4], 5).
Proof. repeat split; reflexivity. Qed.

(* an integer key renumbers every subscript to 0 and reports size 0 (the caller drops the mode) *)
Theorem C04_gen_renumberdim_int : forall (idx : vec) (shape k : Z),
  0 <= shape -> (forall x, In x idx -> - shape <= x < shape) ->
  tt_renumberdim idx shape (IxInt k) = Ok (map (fun _ => 0) idx, 0).
Proof. exact renumberdim_int. Qed.
Print Assumptions C04_gen_renumberdim_int.

Theorem C04_gen_renumberdim_rejects_none : forall idx shape, tt_renumberdim idx shape IxNone = Err.
Proof. exact renumberdim_rejects_none. Qed.
Print Assumptions C04_gen_renumberdim_rejects_none.

Theorem C04_gen_renumberdim_rejects_zero_step : forall idx shape a b,
  tt_renumberdim idx shape (IxSlice (mkslice a b (Some 0))) = Err.
Proof. exact renumberdim_rejects_zero_step. Qed.
Print Assumptions C04_gen_renumberdim_rejects_zero_step.

(* the key (:, ..., :) changes nothing *)
Theorem C04_gen_renumber_all_full : forall (subs : mat) (shape : vec) (nrs : list pyidx),
  length nrs = length shape -> Forall (fun r => r = full_slice) nrs ->
  tt_renumber subs shape nrs = Ok (subs, shape).
Proof. exact renumber_all_full. Qed.
Print Assumptions C04_gen_renumber_all_full.

Example C04_gen_renumber_example :
  tt_renumber [[0; 2]; [3; 1]] [4; 3] [IxSeq [3; 0]; IxSlice (mkslice (Some 1) None None)] = Ok ([[1; 1]; [0; 0]], [2; 2]) /\
  tt_renumber [] [4; 3] [IxInt 2; IxSlice (mkslice (Some 0) (Some 3) (Some 2))] = Ok ([], [2; 2]).
Proof. split; reflexivity. Qed.

(* assignment from a sparse right-hand side: nothing stored -> no subscripts *)
Theorem C04_gen_irenumber_empty : forall t shape nrs, spt_nnz t = 0 -> tt_irenumber t shape nrs = Ok [].
Proof. exact irenumber_empty. Qed.
Print Assumptions C04_gen_irenumber_empty.

(* as the code is (known finding C04-N04): the step of a slice entry is never read ... *)
Theorem C04_gen_irenumber_step_ignored : forall t shape nrs,
  tt_irenumber t shape (map ix_forget_step nrs) = tt_irenumber t shape nrs.
Proof. exact irenumber_step_ignored. Qed.
Print Assumptions C04_gen_irenumber_step_ignored.

(* ... and source subscript x lands on start + x, accepted up to x = stop - start (inclusive stop, as the upstream test
   of tt_irenumber asserts) *)
Theorem C04_gen_irenumber_slice_one_mode : forall (col vals shp : vec) (d a b : Z) st,
  col <> [] -> 0 < b -> 0 <= a -> (forall x, In x col -> 0 <= x <= b - a) ->
  tt_irenumber (mkspt (map (fun x => [x]) col) vals shp) [d] [IxSlice (mkslice (Some a) (Some b) st)]
  = Ok (map (fun x => [a + x]) col).
Proof. exact irenumber_slice_one_mode. Qed.
Print Assumptions C04_gen_irenumber_slice_one_mode.

Example C04_gen_irenumber_example :
  tt_irenumber (mkspt [[0; 1]; [1; 0]] [3; 4] [2; 2]) [4; 5; 6] [IxSlice (mkslice (Some 1) (Some 3) None); IxInt 2; IxSeq [3; 4]]
  = Ok [[1; 2; 4]; [2; 2; 3]] /\
  (* C04-N04 witness: S[0, 0:3:2] = <two entries>: the entries land on columns 0, 1 instead of 0, 2 *)
  tt_irenumber (mkspt [[0]; [1]] [7; 8] [2]) [2; 3] [IxInt 0; IxSlice (mkslice (Some 0) (Some 3) (Some 2))] = Ok [[0; 0]; [0; 1]].
Proof. split; reflexivity. Qed.

(* classification of indexing keys (getitem / setitem dispatch of tensor and sptensor) *)
Theorem C04_gen_index_variant_table :
  (forall k, get_index_variant (KInt k) = Ok LINEAR) /\
  (forall s, get_index_variant (KSlice s) = Ok LINEAR) /\
  (forall a, get_index_variant (KArr a) = Ok (if nd_ndim a =? 1 then LINEAR else SUBSCRIPTS)) /\
  (forall l, get_index_variant (KTuple l) = Ok SUBTENSOR) /\
  (forall k l, get_index_variant (KList (EInt k :: l)) = if forallb elem_is_int l then Ok LINEAR else Err) /\
  (forall r l, get_index_variant (KList (EList r :: l)) = Ok UNKNOWN) /\
  get_index_variant (KList []) = Err /\
  get_index_variant KNone = Ok UNKNOWN.
Proof. exact index_variant_table. Qed.
Print Assumptions C04_gen_index_variant_table.

(* all modes, any number of stored subscripts: tt_renumber assembles its result mode by mode — mode i of size shape[i]
   with stored column subs[:, i] and key entry nrs[i] has the outcome `mode_outcome` (full slice: untouched; nothing
   stored: only the size; otherwise tt_renumberdim of the column), the new shape collects the sizes and the new
   subscript array the renumbered columns *)
Theorem C04_gen_renumber_modes : forall (subs : mat) (shape : vec) (nrs : list pyidx) (outs : list (option vec * Z)),
  length nrs = length shape ->
  (forall r, In r subs -> length r = length shape) ->
  (forall i, (i < length shape)%nat -> ix_eq_ok (nth i nrs IxNone) = true) ->
  (forall i, (i < length shape)%nat ->
     mode_outcome subs (nth i shape 0) (np_col subs (Z.of_nat i)) (nth i nrs IxNone) = Ok (nth i outs (None, 0))) ->
  (forall i c, (i < length shape)%nat -> fst (nth i outs (None, 0)) = Some c -> length c = length subs) ->
  exists ns nsh, tt_renumber subs shape nrs = Ok (ns, nsh) /\ length nsh = length shape /\ length ns = length subs /\
    (forall i, (i < length shape)%nat -> nth i nsh 0 = snd (nth i outs (None, 0))) /\
    (forall row, (row < length subs)%nat -> length (nth row ns []) = length shape /\
       forall i, (i < length shape)%nat -> nth i (nth row ns []) 0 =
         match fst (nth i outs (None, 0)) with Some c => nth row c 0 | None => nth i (nth row subs []) 0 end).
Proof. exact renumber_modes. Qed.
Print Assumptions C04_gen_renumber_modes.

(* assignment from a sparse right-hand side into a region given by index lists / arrays in every mode: the entry stored at
   subscript x of mode i of the right-hand side lands on position l_i[x] of the destination, for any number of modes and
   stored entries *)
Theorem C04_gen_irenumber_lists : forall (t : sptz) (shape : vec) (nrs : list pyidx) (ls : list vec),
  spt_subs t <> [] -> length nrs <> 0%nat -> length ls = length nrs ->
  (forall r, In r (spt_subs t) -> length r = length nrs) ->
  (forall i, (i < length nrs)%nat -> ix_items (nth i nrs IxNone) = Some (nth i ls [])) ->
  (forall row i, (row < length (spt_subs t))%nat -> (i < length nrs)%nat ->
     0 <= nth i (nth row (spt_subs t) []) 0 < zlen (nth i ls [])) ->
  exists ns, tt_irenumber t shape nrs = Ok ns /\ length ns = length (spt_subs t) /\
    forall row, (row < length (spt_subs t))%nat -> length (nth row ns []) = length nrs /\
      forall i, (i < length nrs)%nat ->
        nth i (nth row ns []) 0 = znth 0 (nth i ls []) (nth i (nth row (spt_subs t) []) 0).
Proof. exact irenumber_lists. Qed.
Print Assumptions C04_gen_irenumber_lists.

(* sparse region read, every mode at once: when each key entry selects distinct in-range indices sel_i that contain every
   stored subscript of mode i (full slices, slices with any step, index lists, one-element arrays), the renumbered array has
   the shape (len sel_0, ..., len sel_{N-1}) and every new subscript is the position of the old one inside the selection *)
Theorem C04_gen_renumber_wellformed : forall (subs : mat) (shape : vec) (nrs : list pyidx) (sels : list vec),
  subs <> [] -> length nrs = length shape -> length sels = length shape ->
  (forall r, In r subs -> length r = length shape) ->
  (forall i, (i < length shape)%nat ->
     ix_eq_ok (nth i nrs IxNone) = true /\ 0 <= nth i shape 0 /\
     H_selection (nth i shape 0) (nth i nrs IxNone) = Ok (nth i sels [], zlen (nth i sels [])) /\
     NoDup (nth i sels []) /\ (forall x, In x (nth i sels []) -> 0 <= x < nth i shape 0) /\
     (forall row, (row < length subs)%nat -> In (nth i (nth row subs []) 0) (nth i sels []))) ->
  exists ns nsh, tt_renumber subs shape nrs = Ok (ns, nsh) /\ length nsh = length shape /\ length ns = length subs /\
    (forall i, (i < length shape)%nat -> nth i nsh 0 = zlen (nth i sels [])) /\
    (forall row, (row < length subs)%nat -> length (nth row ns []) = length shape /\
       forall i, (i < length shape)%nat ->
         0 <= nth i (nth row ns []) 0 < zlen (nth i sels []) /\
         znth 0 (nth i sels []) (nth i (nth row ns []) 0) = nth i (nth row subs []) 0).
Proof. exact renumber_wellformed. Qed.
Print Assumptions C04_gen_renumber_wellformed.

Example C04_gen_renumber_wellformed_example :
  tt_renumber [[3; 0; 4]; [1; 2; 0]] [4; 3; 5] [IxSeq [3; 1]; IxSlice (mkslice None None None); IxSlice (mkslice (Some 4) None (Some (-2)))]
  = Ok ([[0; 0; 0]; [1; 2; 2]], [2; 3; 3]).
Proof. reflexivity. Qed.
