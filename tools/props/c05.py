"""C05 — operations never modify their operands and never alias them (DESIGN §C05).  LEVEL = other.

Coq part (Props/C05.v over Model/C05Store.v): frame / footprint / copy theorems over a store model, for all inputs.
Measured part (this file): for EVERY public method of the seven classes, every algorithm entry point, every
pyttb_utils helper and every constructor, per parameter class, the hypothesis of the frame theorem (disjointness of
the result's and the operands' buffers) and the operands-unchanged bit are MEASURED on pyttb and the row is
evaluated by the Coq table checker `row_check`.  A public name without a table entry fails closed.
"""
import copy as _copy
import math
import os
import tempfile

from vcheck import Case
from props import c05_util as U

try:
    import numpy as np
except ImportError:          # tools that only read the module constants
    np = None

PROP = "C05"
LEVEL = "other"
GEN_UNITS = []
COQ_TARGETS = ["Props/C05.vo", "Model/Harness.vo"]
THEOREM_FILES = ["Props/C05.v"]
COQ_IMPORTS = ("From Coq Require Import List Arith Bool.\n"
               "From PV Require Import Model.C05Store.\n")
RULE = ("one case per (public operation, parameter class, shape): operations enumerated from dir() of tensor, sptensor, "
        "ktensor, ttensor, tenmat, sptenmat, sumtensor, pyttb_utils and the pyttb top level (unlisted name = failing case); "
        "shapes (2,3,4), (3,1,2), (2,2,2) (+ (3,4), (2,3,2,2) and seeded random parameters in thorough); operands built fresh "
        "from python lists; non-trivial = the operation returns at least one non-empty array (or is in-place) and has at "
        "least one non-empty operand array; distinct = distinct (op, parameter class, shape)")
CORRESPONDENCE_ONLY = ["disjointness of result and operand buffers per (operation, parameter class): measured with "
                       "np.shares_memory + cross-writes, not proved for all inputs"]
ASSUMPTIONS = [
    "np.shares_memory is exact on the small arrays used; the generic object walker (slots/__dict__/list/tuple/dict/scipy "
    "sparse) reaches every buffer of an operand or result (cross-checked by the in-place sentinel writes in both directions)",
    "aliasing depends on the parameter class and memory layout, not on values: the enumerated classes (identity vs other "
    "permutation, same vs new shape, single vs several modes, copy flag, init given, negative indices ...) are representative",
    "optimizer/solver objects passed to gcp_opt are not counted as operands (the property lists tensors, factor matrices, "
    "index/value/vector arrays)",
]
EXPLANATION = ("Level other: C05_frame/C05_copy/C05_inplace_footprint are proved for all stores and write histories; their "
               "hypothesis (result buffers disjoint from operand buffers) is measured here per operation x parameter class "
               "and each measured row is evaluated by the Coq checker row_check (operands unchanged, disjoint, and the "
               "cross-write observations agree with what the frame theorem predicts).")

SHAPES = [(2, 3, 4), (3, 1, 2), (2, 2, 2)]
SHAPES_THOROUGH = [(3, 4), (2, 3, 2, 2)]
CUBE = [(2, 2, 2)]
NOSINGLE = [(2, 3, 4), (2, 2, 2)]
CLASSES = ["tensor", "sptensor", "ktensor", "ttensor", "tenmat", "sptenmat", "sumtensor"]
DUNDERS = ("__add__ __sub__ __mul__ __truediv__ __pow__ __eq__ __ne__ __lt__ __le__ __gt__ __ge__ __neg__ __pos__ "
           "__radd__ __rsub__ __rmul__ __rtruediv__ __getitem__ __setitem__ __deepcopy__ __matmul__ __rmatmul__ "
           "__iadd__ __isub__ __imul__ __itruediv__ __ipow__ __floordiv__ __mod__ __abs__ __invert__ __and__ __or__ "
           "__xor__ __copy__ __array__ __len__ __iter__ __contains__ __call__").split()


class AD(dict):
    __getattr__ = dict.__getitem__


class B:
    """deterministic operand builder for one shape; every call returns fresh objects built from python lists"""

    def __init__(self, shape, seed=0):
        import pyttb as ttb
        self.ttb = ttb
        self.shape = tuple(shape)
        self.N = len(self.shape)
        self.n = math.prod(self.shape)
        self.seed = seed

    def arr(self, off=0):
        vals = [float(((k * 7 + off * 3 + self.seed) % 11) + 1) for k in range(self.n)]
        return np.array(vals).reshape(self.shape, order="F")

    def T(self, off=0):
        return self.ttb.tensor(self.arr(off), copy=True)

    def W(self):
        vals = [float((k + self.seed) % 2) for k in range(self.n)]
        return self.ttb.tensor(np.array(vals).reshape(self.shape, order="F"), copy=True)

    def subs_list(self, off=0):
        allsubs = [list(np.unravel_index(k, self.shape, order="F")) for k in range(self.n)]
        sel = [s for k, s in enumerate(allsubs) if (k + off + self.seed) % 2 == 0]
        return [[int(x) for x in s] for s in sel] or [[0] * self.N]

    def subs(self, off=0):
        return np.array(self.subs_list(off), dtype=int)

    def vals(self, off=0):
        m = len(self.subs_list(off))
        return np.array([[float(k + 1 + off)] for k in range(m)])

    def S(self, off=0):
        return self.ttb.sptensor(self.subs(off), self.vals(off), self.shape, copy=True)

    def WS(self):
        m = len(self.subs_list(1))
        return self.ttb.sptensor(self.subs(1), np.ones((m, 1)), self.shape, copy=True)

    def fm(self, R=2, off=0):
        return [np.array([[float(((i + 2 * r + k + off + self.seed) % 5) + 1) for r in range(R)] for i in range(s)])
                for k, s in enumerate(self.shape)]

    def K(self, R=2, off=0):
        return self.ttb.ktensor(self.fm(R, off), np.array([2.0 + off, 3.0][:R] + [1.0] * max(0, R - 2)), copy=True)

    def ranks(self):
        return [min(s, 2) for s in self.shape]

    def TT(self, off=0):
        rk = self.ranks()
        nc = math.prod(rk)
        core = self.ttb.tensor(np.array([float((k + off) % 5 + 1) for k in range(nc)]).reshape(rk, order="F"), copy=True)
        fms = [np.array([[float(((i + 2 * r + k + off) % 5) + 1) for r in range(rk[k])] for i in range(s)])
               for k, s in enumerate(self.shape)]
        return self.ttb.ttensor(core, fms, copy=True)

    def TM(self, off=0):
        rows = self.shape[0]
        return self.ttb.tenmat(self.arr(off).reshape((rows, self.n // rows), order="F"), np.array([0]),
                               np.arange(1, self.N), self.shape, copy=True)

    def STM(self, off=0):
        return self.S(off).to_sptenmat(np.array([0]))

    def SUM(self):
        return self.ttb.sumtensor([self.T(), self.K()], copy=True)

    def vec(self, n, off=0):
        return np.array([float(i + 1 + off) for i in range(self.shape[n])])

    def vecs(self, dims=None):
        return [self.vec(n) for n in (range(self.N) if dims is None else dims)]

    def mat(self, n, J=2):
        return np.array([[float((i + 2 * j) % 5 + 1) for i in range(self.shape[n])] for j in range(J)])


# ------------------------------------------------------------------------------------------------------------
# the table: (class or namespace, name) -> list of entries
#   kind: pure | inplace | nocopy | scalar | property | attr | skip
# ------------------------------------------------------------------------------------------------------------
TABLE = {}


def reg(ns, name, pclass, build, call, kind="pure", shapes=None, recv=None, thorough_shapes=True):
    TABLE.setdefault((ns, name), []).append(
        dict(pclass=pclass, build=build, call=call, kind=kind, shapes=shapes, recv=recv if kind == "inplace" else None,
             tshapes=thorough_shapes and shapes is None))


def skip(ns, name, why):
    TABLE.setdefault((ns, name), []).append(dict(pclass="skip", kind="skip", why=why))


def X(mk, *a, **kw):
    """build lambda with a single receiver X = b.<mk>(...)"""
    return lambda b: dict(X=getattr(b, mk)(*a, **kw))


#TABLE-SECTIONS


# ------------------------------------------------------------------------------------------------------------
# enumeration of the public surface (fail closed on anything unlisted)
# ------------------------------------------------------------------------------------------------------------
def public_surface():
    import types
    import pyttb as ttb
    import pyttb.pyttb_utils as PU
    out = []
    for cn in CLASSES:
        cls = getattr(ttb, cn)
        names = [n for n in dir(cls) if not n.startswith("_")]
        for d in DUNDERS:
            if any(d in k.__dict__ for k in cls.__mro__[:-1]):
                names.append(d)
        out += [(cn, n) for n in names]
        out.append((cn, "__init__"))
    for n in sorted(dir(ttb)):
        a = getattr(ttb, n)
        if n.startswith("_") or isinstance(a, types.ModuleType) or isinstance(a, type) or not callable(a):
            continue
        if n == "annotations":
            continue
        out.append(("ttb", n))
    for n in sorted(dir(PU)):
        a = getattr(PU, n)
        if n.startswith("_") or not callable(a) or getattr(a, "__module__", None) != PU.__name__ or isinstance(a, type):
            continue
        out.append(("utils", n))
    return out


def gen_cases(rng, tier):
    big = tier == "thorough"
    cases = []
    surface = public_surface()
    for ns, name in surface:
        ents = TABLE.get((ns, name))
        if not ents:
            cases.append(Case("unlisted", {"ns": ns, "name": name}, False))
            continue
        for e in ents:
            if e["kind"] == "skip":
                continue
            shapes = list(e["shapes"] or SHAPES)
            if big and e["tshapes"]:
                shapes += SHAPES_THOROUGH
            seeds = [0] + ([rng.randrange(1, 1000) for _ in range(2)] if big else [])
            for shp in shapes:
                for sd in seeds:
                    nt = e["kind"] in ("pure", "inplace", "nocopy")
                    cases.append(Case(f"{ns}.{name}", {"pclass": e["pclass"], "shape": list(shp), "seed": sd, "kind": e["kind"]}, nt))
    # table entries whose name no longer exists are reported too (stale table = the surface changed)
    have = set(surface)
    for key in TABLE:
        if key not in have:
            cases.append(Case("stale", {"ns": key[0], "name": key[1]}, False))
    return cases


def find_entry(c):
    ns, name = c.op.split(".", 1)
    for e in TABLE.get((ns, name), []):
        if e["pclass"] == c.args["pclass"]:
            return e
    return None


def run_impl(c):
    import warnings
    warnings.filterwarnings("ignore")
    if c.op in ("unlisted", "stale"):
        return {"unlisted": True}
    e = find_entry(c)
    if e is None:
        return {"exc": "NoEntry"}
    b = B(c.args["shape"], c.args.get("seed", 0))
    np.random.seed(12345)
    try:
        o = U.measure(np, lambda: AD(e["build"](b)), lambda ops: e["call"](ops, b) if e["call"].__code__.co_argcount == 2 else e["call"](ops),
                      receiver=e["recv"])
    except Exception as ex:
        import traceback
        return {"exc": type(ex).__name__, "msg": str(ex)[:300], "tb": traceback.format_exc()[-600:]}
    o["kind"] = e["kind"]
    o["recv"] = e["recv"]
    return o


def _under(path, name):
    return path == name or path.startswith(name + ".") or path.startswith(name + "[") or path.startswith(name + "#")


def bits(o):
    """(unchanged, disjoint, vis_result, vis_operand) of an observation; receiver paths excluded for in-place ops"""
    recv = o.get("recv")
    changed = [p for p in o["changed"] if not (recv and _under(p, recv))]
    return (not changed, not o["shared"], bool(o["vis_result"]), bool(o["vis_operand"]))


KIND_COQ = {"pure": "KPure", "scalar": "KPure", "property": "KPure", "inplace": "KInplace", "nocopy": "KNoCopy", "attr": "KNoCopy"}


def coq_check(c, o):
    if c.op in ("unlisted", "stale") or "exc" in o:
        return "false"
    u, d, vr, vo = bits(o)
    g = lambda x: "true" if x else "false"
    return f"row_check (mkRow {KIND_COQ[o['kind']]} {g(u)} {g(d)} {g(vr)} {g(vo)})"


def oracle(c, o):
    """independent restatement on the raw observation (paths and digests), without the Coq table"""
    if c.op == "unlisted":
        return None          # not a property violation by itself: the table is incomplete (fail closed)
    if c.op == "stale":
        return None
    if "exc" in o:
        return None
    recv = o.get("recv")
    msgs = []
    for p in o["changed"]:
        if recv and _under(p, recv):
            continue
        msgs.append(f"operand modified: {p} {o['before'].get(p)} -> {o['after'].get(p)}")
    if o["kind"] not in ("nocopy", "attr"):
        for pr, po in o["shared"]:
            msgs.append(f"result aliases operand: {pr} shares storage with {po}")
        for p in o["vis_result"]:
            msgs.append(f"in-place write through the result is visible in operand {p}")
        for p in o["vis_operand"]:
            msgs.append(f"in-place write through an operand is visible in {p}")
    return "; ".join(msgs[:6]) if msgs else None


TRIGGERS = {}
WITNESSES = {}

#FINDINGS-SECTION
