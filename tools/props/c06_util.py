"""Helpers of c06.py — the second order-permutation stream: every other public operation that takes a sparse tensor.

One request = (op, operands, parameters).  c06.py runs it once per stored order of each sparse operand; this module
supplies, for the operations that are not element-wise operators,

  gen_ext      admissible requests (valid modes / shapes only, integer data so every result is exact)
  run_ext      the pyttb call and the raw observation of whatever comes back (sptensor, tensor, numpy array,
               number, sptenmat) — `kind` records which, and must not depend on the stored order
  check_ext    the Gallina boolean evaluated by Coq on the raw observations of all runs (Model/C06Ops.v)
  oracle_ext   the same judgement in pure Python loops (independent of pyttb, numpy and the Coq model)
"""
import itertools
import math
from fractions import Fraction

import tgen
from vcheck import gz, gzlist, gnlist, gnmat, gq

VALS = (-3, -2, -1, 1, 2, 3, 4, 5)
SCALAR_OPS = ("innerprod", "norm")
EXT_OPS = SCALAR_OPS + ("permute", "reshape", "squeeze", "ttv", "ttm", "contract", "collapse", "scale", "sptenmat",
                        "setitem", "mask", "extract", "getitem")
BIG_CELLS = 200          # above this many cells the canonical form is compared entry-wise (all_same_sparse_e)


# ---------------------------------------------------------------------------------------------
# generation
# ---------------------------------------------------------------------------------------------
def cells_of(shape):
    return [list(s) for s in tgen.all_subs(shape)]


def rand_entries(rng, shape, n, vals=VALS):
    """n distinct in-bounds subscripts in F-sorted stored order with nonzero integer values"""
    cells = cells_of(shape)
    n = max(0, min(n, len(cells)))
    idx = sorted(rng.sample(range(len(cells)), n))
    return [cells[k] for k in idx], [rng.choice(vals) for _ in idx]


def pick_nnz(rng, ncells):
    """mostly <= 4 stored nonzeros (all n! orders are run), sometimes more (random orders), sometimes full"""
    return min(ncells, rng.choice((0, 1, 2, 2, 3, 3, 4, 4, 4, 5, 6, 8, ncells)))


def sp_args(rng, shape, n=None):
    shape = list(shape)
    subs, vals = rand_entries(rng, shape, pick_nnz(rng, math.prod(shape)) if n is None else n)
    return {"shape": shape, "subs": subs, "vals": vals}


def rand_vec(rng, n, pz=0.25):
    return [0 if rng.random() < pz else rng.choice((-2, -1, 1, 2, 3)) for _ in range(n)]


def rand_mat(rng, m, n, pz=0.3):
    return [rand_vec(rng, n, pz) for _ in range(m)]


def ip_pair(rng, shape, ncommon, ea, eb):
    """two sparse operands sharing `ncommon` positions, with ea / eb further positions of their own; values drawn so that
    pairing the shared entries in a wrong order changes the sum (distinct magnitudes on the shared positions)"""
    cells = cells_of(shape)
    if ncommon + ea + eb > len(cells):
        return None
    pick = rng.sample(range(len(cells)), ncommon + ea + eb)
    ia = sorted(pick[:ncommon + ea])
    ib = sorted(pick[:ncommon] + pick[ncommon + ea:])
    pool_a = rng.sample(range(1, 10), min(9, len(ia))) + [rng.randint(1, 9) for _ in range(max(0, len(ia) - 9))]
    pool_b = rng.sample(range(1, 10), min(9, len(ib))) + [rng.randint(1, 9) for _ in range(max(0, len(ib) - 9))]
    va = [v * rng.choice((1, 1, -1)) for v in pool_a]
    vb = [v * rng.choice((1, 1, -1)) for v in pool_b]
    return {"shape": list(shape), "subs": [cells[k] for k in ia], "vals": va, "rk": "sparse",
            "bsubs": [cells[k] for k in ib], "bvals": vb}


def rand_region(rng, shape, allow_all_int=True):
    """an in-bounds region key: per mode an index or a [start, stop] range (None = open end)"""
    key = []
    for d in shape:
        r = rng.random()
        if r < 0.35:
            key.append(rng.randrange(d))
        elif r < 0.6:
            key.append({"s": [None, None]})
        else:
            lo = rng.randrange(d)
            hi = rng.randint(lo + 1, d)
            key.append({"s": [lo if rng.random() < 0.7 or lo else None, hi if rng.random() < 0.7 or hi < d else None]})
    if not allow_all_int and all(isinstance(k, int) for k in key):
        key[rng.randrange(len(key))] = {"s": [None, None]}
    return key


def ordered_partitions(rng, N):
    dims = list(range(N))
    rng.shuffle(dims)
    k = rng.randint(0, N)
    return dims[:k], dims[k:]


def factorizations(n, maxlen=3):
    """all shapes (lists of positive ints, 1 .. maxlen modes, singleton modes included) with n cells"""
    out = []

    def rec(prefix, rest):
        if prefix and rest == 1:
            out.append(list(prefix))
        if len(prefix) == maxlen:
            return
        for d in range(1, rest + 1):
            if rest % d == 0:
                rec(prefix + [d], rest // d)
    rec([], n)
    return out


SHAPES = [[3], [1], [4], [2, 2], [2, 3], [3, 2], [1, 3], [3, 1], [3, 3], [2, 3, 2], [2, 2, 2], [3, 1, 2], [1, 1, 2], [1, 1], [2, 3, 4],
          [2, 2, 3, 2], [3, 2, 1, 2]]


def gen_ext(rng, tier, mk):
    """mk(op, args) -> Case (adds the stored-order variants)"""
    cases = []
    for _ in range(6 if tier == "thorough" else 3):
        cases += gen_round(rng, tier, mk)
    return cases


def gen_round(rng, tier, mk):
    big = tier == "thorough"
    rep = 4 if big else 1
    cases = []

    def add(op, a):
        cases.append(mk(op, a))

    # ---- innerprod: sparse x sparse on both sides of the `self.nnz < other.nnz` switch, >= 2 shared nonzeros
    splits = [(2, 0, 0), (2, 1, 0), (2, 0, 1), (3, 0, 0), (3, 1, 0), (3, 0, 1), (2, 2, 0), (2, 0, 2), (2, 1, 1), (4, 0, 0),
              (3, 0, 3), (3, 3, 0), (2, 4, 0), (2, 0, 4), (5, 1, 0), (4, 1, 2), (6, 0, 0), (1, 1, 1), (0, 1, 2), (0, 0, 0), (0, 2, 0), (1, 0, 0)]
    for shape in ([3], [2, 2], [2, 3], [2, 2, 2], [3, 1, 2], [4, 3], [2, 3, 4]):
        for (nc, ea, eb) in splits:
            for _ in range(rep):
                a = ip_pair(rng, shape, nc, ea, eb)
                if a is not None:
                    add("innerprod", a)
    # ---- innerprod: dense and Kruskal operands; norm
    for shape in SHAPES * (3 if big else 1):
        n = math.prod(shape)
        for _ in range(2):
            a = sp_args(rng, shape)
            add("innerprod", dict(a, rk="dense", bd=tgen.rand_dense(rng, shape, rng.choice((0.5, 1.0)))))
            R = rng.randint(1, 2)
            add("innerprod", dict(a, rk="ktensor", kw=[rng.choice((-1, 1, 2, 3)) for _ in range(R)],
                                  kf=[rand_mat(rng, d, R, 0.15) for d in shape]))
            add("norm", sp_args(rng, shape))
    # ---- permute: every mode order (N <= 3), random ones for N = 4
    for shape in SHAPES:
        N = len(shape)
        perms = list(itertools.permutations(range(N)))
        if len(perms) > 6 and not big:
            perms = rng.sample(perms, 4)
        for p in perms:
            add("permute", dict(sp_args(rng, shape), p=list(p)))
    # ---- reshape (whole shape) into every factorisation with <= 3 modes
    for shape in SHAPES:
        fs = factorizations(math.prod(shape))
        if len(fs) > (10 if big else 3):
            fs = rng.sample(fs, 10 if big else 3)
        for new in fs:
            add("reshape", dict(sp_args(rng, shape), new=new))
    # ---- squeeze: no singleton, some, all singleton modes
    for shape in ([1], [1, 1], [1, 3], [3, 1], [1, 1, 2], [2, 1, 3, 1], [1, 2, 1], [2, 3], [3], [1, 1, 1], [2, 1, 2]):
        for _ in range(2 * rep):
            add("squeeze", sp_args(rng, shape))
    # ---- ttv: single mode, several modes (sparse / dense / scalar result: fills on both sides of the 50% switch), vectors with zeros
    for shape in SHAPES:
        N = len(shape)
        subsets = [list(c) for r in range(1, N + 1) for c in itertools.combinations(range(N), r)]
        if len(subsets) > 4 and not big:
            subsets = rng.sample(subsets, 4) + [list(range(N))]
        for dims in subsets:
            for n in ((None, math.prod(shape)) if big else (None,)):
                a = sp_args(rng, shape, n)
                if rng.random() < 0.4:
                    dims = dims[::-1]
                pz = rng.choice((0.0, 0.3))
                add("ttv", dict(a, dims=list(dims), vecs=[rand_vec(rng, shape[m], pz) for m in dims], single=len(dims) == 1 and rng.random() < 0.5))
    # ---- ttm: single matrix (either orientation), two matrices
    for shape in SHAPES:
        N = len(shape)
        reqs = [[m] for m in range(N)] + ([list(p) for p in itertools.permutations(range(N), 2)][:(6 if big else 2)] if N >= 2 else [])
        if len(reqs) > 4 and not big:
            reqs = rng.sample(reqs, 4)
        for dims in reqs:
            tr = rng.random() < 0.5
            mats = []
            for m in dims:
                J = rng.choice((1, 2, 3))
                mats.append(rand_mat(rng, shape[m], J) if tr else rand_mat(rng, J, shape[m]))
            # spm: the matrices are handed over as scipy.sparse.coo_matrix — the only way to reach the sparse-result branch of ttm
            add("ttm", dict(sp_args(rng, shape), dims=list(dims), mats=mats, tr=tr, single=len(dims) == 1 and rng.random() < 0.6,
                            spm=rng.random() < 0.5))
    # ---- contract: every ordered pair of equally sized modes
    for shape in ([2, 2], [3, 3], [1, 1], [2, 3, 2], [2, 2, 2], [3, 2, 3], [2, 2, 3, 2], [3, 1, 3], [2, 3, 3, 2]):
        N = len(shape)
        for i1 in range(N):
            for i2 in range(N):
                if i1 != i2 and shape[i1] == shape[i2]:
                    for _ in range(2 * rep):
                        add("contract", dict(sp_args(rng, shape), i1=i1, i2=i2))
    # ---- collapse (sum) over every mode subset and over all modes (dims=None)
    for shape in SHAPES:
        N = len(shape)
        subsets = [list(c) for r in range(1, N + 1) for c in itertools.combinations(range(N), r)]
        if len(subsets) > 5 and not big:
            subsets = rng.sample(subsets, 5)
        for dims in subsets + [None]:
            for _ in range(rep):
                add("collapse", dict(sp_args(rng, shape), dims=dims))
    # ---- scale: dense / sparse / ndarray factor (nonzero factors: a zero factor is a C02 matter — see SCALE_ZERO below)
    for shape in SHAPES:
        N = len(shape)
        subsets = [list(c) for r in range(1, N + 1) for c in itertools.combinations(range(N), r)]
        if len(subsets) > 3 and not big:
            subsets = rng.sample(subsets, 3)
        for dims in subsets:
            fshape = [shape[m] for m in dims]
            for fk in ("tensor", "sptensor") + (("ndarray",) if len(dims) == 1 else ()):
                pz = rng.choice((0.0, 0.0, 0.3))
                fdata = [0 if rng.random() < pz else rng.choice((-2, -1, 2, 3)) for _ in range(math.prod(fshape))]
                add("scale", dict(sp_args(rng, shape), dims=dims, fshape=fshape, fdata=fdata, fkind=fk))
    # ---- to_sptenmat (every kind of row / column mode split incl. an empty side) and back
    for shape in SHAPES:
        N = len(shape)
        for _ in range(3 * rep):
            rd, cd = ordered_partitions(rng, N)
            add("sptenmat", dict(sp_args(rng, shape), rd=rd, cd=cd))
    # ---- __setitem__: a scalar into a region / values at a few subscripts (zero deletes), starting from the permuted tensor
    for shape in [s for s in SHAPES if math.prod(s) > 1]:
        for _ in range(3 * rep):
            a = sp_args(rng, shape)
            steps = []
            for _ in range(rng.randint(1, 2)):
                if rng.random() < 0.5:
                    steps.append({"t": "region", "key": rand_region(rng, shape), "c": rng.choice((0, 0, 7, -4))})
                else:
                    p = rng.randint(1, 3)
                    qs = [rng.choice(a["subs"]) if a["subs"] and rng.random() < 0.6 else [rng.randrange(d) for d in shape] for _ in range(p)]
                    qs = [list(q) for q in dict.fromkeys(map(tuple, qs))]          # distinct targets: one value per target
                    steps.append({"t": "subs", "subs": qs, "c": [rng.choice((0, 0, 6, -5)) for _ in qs]})
            add("setitem", dict(a, steps=steps))
    # ---- mask (the mask is a second sparse operand, its stored order is permuted too), extract, __getitem__ of a region
    for shape in SHAPES:
        for _ in range(2 * rep):
            a = sp_args(rng, shape)
            w = sp_args(rng, shape)
            if w["subs"]:
                add("mask", dict(a, rk="sparse", bsubs=w["subs"], bvals=[1] * len(w["subs"])))
            p = rng.randint(1, 4)
            qs = [rng.choice(a["subs"]) if a["subs"] and rng.random() < 0.6 else [rng.randrange(d) for d in shape] for _ in range(p)]
            add("extract", dict(a, q=[list(q) for q in qs]))
            add("getitem", dict(sp_args(rng, shape), key=rand_region(rng, shape)))
            add("getitem", dict(sp_args(rng, shape), q=[list(q) for q in qs]))
    return cases


# ---------------------------------------------------------------------------------------------
# pyttb side
# ---------------------------------------------------------------------------------------------
def py_key(key):
    return tuple(k if isinstance(k, int) else slice(k["s"][0], k["s"][1]) for k in key)


def obs_sparse(np, ttb, r):
    o = tgen.obs_sparse(np, r)
    o["kind"] = "sparse"
    s = np.asarray(r.subs)
    o["subs_shape"] = [int(d) for d in s.shape]
    o["subs_integral"] = bool(s.size == 0 or (np.issubdtype(s.dtype, np.integer)) or np.all(s == s.astype(int)))
    return o


def obs_any(np, ttb, r):
    if isinstance(r, ttb.sptensor):
        return obs_sparse(np, ttb, r)
    if isinstance(r, ttb.tensor):
        return dict(tgen.obs_dense(np, r), kind="dense")
    if isinstance(r, ttb.sptenmat):
        s = np.asarray(r.subs)
        rows = [] if s.size == 0 else [[int(x) for x in row] for row in s.reshape((-1, 2))]
        return {"kind": "sptenmat", "subs": rows, "vals": [tgen.exact(x) for x in np.asarray(r.vals).ravel()],
                "shape": [int(d) for d in r.shape], "tshape": [int(d) for d in r.tshape], "rdims": [int(d) for d in np.asarray(r.rdims).ravel()],
                "cdims": [int(d) for d in np.asarray(r.cdims).ravel()], "nnz": int(r.nnz),
                "subs_integral": bool(s.size == 0 or np.issubdtype(s.dtype, np.integer) or np.all(s == s.astype(int)))}
    if isinstance(r, np.ndarray):
        return dict(tgen.obs_dense(np, r), kind="array")
    if isinstance(r, (bool, np.bool_)):
        return {"kind": "other", "type": type(r).__name__}
    if isinstance(r, (int, float, np.generic)):
        return {"kind": "scalar", "v": tgen.exact(r)}
    return {"kind": "other", "type": type(r).__name__}


def run_ext(op, a):
    """one request on pyttb with freshly built operands; returns the raw observation"""
    import numpy as np
    import pyttb as ttb
    try:
        S = tgen.mk_sptensor(ttb, np, a["shape"], a["subs"], a["vals"])
        with np.errstate(all="ignore"):
            if op == "innerprod":
                if a["rk"] == "sparse":
                    Y = tgen.mk_sptensor(ttb, np, a["shape"], a["bsubs"], a["bvals"])
                elif a["rk"] == "dense":
                    Y = tgen.mk_tensor(ttb, np, a["shape"], a["bd"])
                else:
                    R = len(a["kw"])
                    Y = ttb.ktensor([np.array(f, dtype=float).reshape((len(f), R)) for f in a["kf"]], np.array(a["kw"], dtype=float), copy=True)
                return obs_any(np, ttb, S.innerprod(Y))
            if op == "norm":
                return obs_any(np, ttb, S.norm())
            if op == "permute":
                return obs_any(np, ttb, S.permute(np.array(a["p"], dtype=int)))
            if op == "reshape":
                return obs_any(np, ttb, S.reshape(tuple(a["new"])))
            if op == "squeeze":
                return obs_any(np, ttb, S.squeeze())
            if op == "ttv":
                vecs = [np.array(v, dtype=float) for v in a["vecs"]]
                if a["single"]:
                    return obs_any(np, ttb, S.ttv(vecs[0], int(a["dims"][0])))
                return obs_any(np, ttb, S.ttv(vecs, dims=np.array(a["dims"], dtype=int)))
            if op == "ttm":
                mats = [np.array(m, dtype=float).reshape((len(m), len(m[0]))) for m in a["mats"]]
                if a.get("spm"):
                    from scipy import sparse as sps
                    mats = [sps.coo_matrix(m) for m in mats]
                if a["single"]:
                    return obs_any(np, ttb, S.ttm(mats[0], int(a["dims"][0]), transpose=a["tr"]))
                return obs_any(np, ttb, S.ttm(mats, dims=np.array(a["dims"], dtype=int), transpose=a["tr"]))
            if op == "contract":
                return obs_any(np, ttb, S.contract(a["i1"], a["i2"]))
            if op == "collapse":
                return obs_any(np, ttb, S.collapse() if a["dims"] is None else S.collapse(np.array(a["dims"], dtype=int)))
            if op == "scale":
                if a["fkind"] == "ndarray":
                    F = np.array(a["fdata"], dtype=float)
                else:
                    F = tgen.mk_tensor(ttb, np, a["fshape"], a["fdata"])
                    if a["fkind"] == "sptensor":
                        fs, fv = tgen.dense_to_sparse(a["fshape"], a["fdata"])
                        F = tgen.mk_sptensor(ttb, np, a["fshape"], fs, fv)
                return obs_any(np, ttb, S.scale(F, np.array(a["dims"], dtype=int)))
            if op == "sptenmat":
                M = S.to_sptenmat(np.array(a["rd"], dtype=int), np.array(a["cd"], dtype=int))
                o = obs_any(np, ttb, M)
                try:
                    o["back"] = obs_any(np, ttb, M.to_sptensor())
                except Exception as ex:
                    o["back"] = {"exc": type(ex).__name__, "msg": str(ex)[:160]}
                return o
            if op == "setitem":
                for st in a["steps"]:
                    if st["t"] == "region":
                        S[py_key(st["key"])] = st["c"]
                    else:
                        S[np.array(st["subs"], dtype=int)] = np.array(st["c"], dtype=float).reshape((len(st["c"]), 1))
                return obs_any(np, ttb, S)
            if op == "mask":
                W = tgen.mk_sptensor(ttb, np, a["shape"], a["bsubs"], a["bvals"])
                ws = np.asarray(W.find()[0]).reshape((-1, len(a["shape"])))
                r = np.asarray(S.mask(W))
                return {"kind": "assoc", "keys": [[int(x) for x in row] for row in ws], "vals": [tgen.exact(x) for x in r.ravel()],
                        "vshape": [int(d) for d in r.shape]}
            if op == "extract":
                return obs_any(np, ttb, S.extract(np.array(a["q"], dtype=int)))
            if op == "getitem":
                if "q" in a:
                    return obs_any(np, ttb, S[np.array(a["q"], dtype=int)])
                return obs_any(np, ttb, S[py_key(a["key"])])
        raise ValueError(op)
    except Exception as ex:
        return {"exc": type(ex).__name__, "msg": str(ex)[:160]}


# ---------------------------------------------------------------------------------------------
# raw bits decided on the Python side before a literal is written (what a nat / Z literal cannot express)
# ---------------------------------------------------------------------------------------------
def raw_ok(o):
    k = o.get("kind")
    if k == "sparse":
        rows_ok = all(len(r) == len(o["shape"]) and all(x >= 0 for x in r) for r in o["subs"])
        return (rows_ok and o.get("subs_integral", True) and o["nnz"] == len(o["subs"]) == len(o["vals"]) and tgen.all_int(o["vals"])
                and all(d >= 0 for d in o["shape"]))
    if k in ("dense", "array"):
        return tgen.all_int(o["data"])
    if k == "scalar":
        return isinstance(o["v"], (int, Fraction))
    if k == "sptenmat":
        rows_ok = all(len(r) == 2 and all(x >= 0 for x in r) for r in o["subs"])
        back = o.get("back", {})
        return (rows_ok and o["subs_integral"] and o["nnz"] == len(o["subs"]) == len(o["vals"]) and tgen.all_int(o["vals"])
                and len(o["shape"]) == 2 and back.get("kind") == "sparse" and raw_ok(back))
    if k == "assoc":
        return len(o["keys"]) == len(o["vals"]) and tgen.all_int(o["vals"]) and all(x >= 0 for r in o["keys"] for x in r)
    return False


# ---------------------------------------------------------------------------------------------
# Coq side
# ---------------------------------------------------------------------------------------------
def glist(items):
    return "[" + "; ".join(items) + "]"


def gsp_obs(o):
    return tgen.gsparse(o["shape"], o["subs"], o["vals"])


def gsame_sparse(obs):
    fn = "all_same_sparse_e" if math.prod(obs[0]["shape"]) > BIG_CELLS else "all_same_sparse"
    return f"{fn} {glist([gsp_obs(o) for o in obs])}"


def gqs(runs):
    return "[" + "; ".join(gq(Fraction(r["v"])) for r in runs) + "]"


def gktensor(a):
    return tgen.gktensor(a["kw"], a["kf"])


def check_ext(c, runs):
    """Gallina bool over the runs of one request (all runs returned something, no exception)"""
    a = c.args
    kinds = {r.get("kind") for r in runs}
    if len(kinds) != 1 or not all(raw_ok(r) for r in runs):
        return "false"
    kind = kinds.pop()
    if kind == "scalar":
        e = f"all_same_scalar {gqs(runs)}"
        if c.op == "innerprod":
            A = tgen.gsparse(a["shape"], a["subs"], a["vals"])
            if a["rk"] == "sparse":
                B = f"(zden_sp {tgen.gsparse(a['shape'], a['bsubs'], a['bvals'])})"
            elif a["rk"] == "dense":
                B = f"(zden {tgen.gdense(a['shape'], a['bd'])})"
            else:
                B = f"(zden_k {gktensor(a)})"
            e += f" && scalar_is {gqs(runs[:1])} (zinner {gnlist(a['shape'])} (zden_sp {A}) {B})"
        if c.op == "norm":
            e += f" && norm_sq_is {gqs(runs[:1])} {gz(sum(v * v for v in a['vals']))}"
        return e
    if kind == "sparse":
        return gsame_sparse(runs)
    if kind in ("dense", "array"):
        return "all_same_dense " + glist([tgen.gdense(r["shape"], r["data"]) for r in runs])
    if kind == "sptenmat":
        meta = {(tuple(r["shape"]), tuple(r["tshape"]), tuple(r["rdims"]), tuple(r["cdims"])) for r in runs}
        if len(meta) != 1:
            return "false"
        A = tgen.gsparse(a["shape"], a["subs"], a["vals"])
        return (gsame_sparse(runs) + " && " + gsame_sparse([r["back"] for r in runs]) + f" && sp_perm_eqb {A} {gsp_obs(runs[0]['back'])}")
    if kind == "assoc":
        return "all_same_assoc " + glist(["(combine " + gnmat(r["keys"]) + " " + gzlist(r["vals"]) + ")" for r in runs])
    return "false"


# ---------------------------------------------------------------------------------------------
# brute-force oracle
# ---------------------------------------------------------------------------------------------
def kdense(a):
    out = {}
    for i in tgen.all_subs(a["shape"]):
        t = 0
        for r, w in enumerate(a["kw"]):
            p = w
            for n, f in enumerate(a["kf"]):
                p *= f[i[n]][r]
            t += p
        out[tuple(i)] = t
    return out


def brute_innerprod(a):
    A = {tuple(s): v for s, v in zip(a["subs"], a["vals"])}
    if a["rk"] == "sparse":
        B = {tuple(s): v for s, v in zip(a["bsubs"], a["bvals"])}
    elif a["rk"] == "dense":
        B = {tuple(s): v for s, v in zip(tgen.all_subs(a["shape"]), a["bd"])}
    else:
        B = kdense(a)
    return sum(v * B.get(s, 0) for s, v in A.items())


def sp_problems(o, shape):
    """the well-formedness clauses on a raw coordinate observation (sptensor, or sptenmat read as a 2-way coordinate list)"""
    subs, vals = o["subs"], o["vals"]
    if len(subs) != len(vals):
        return f"{len(subs)} subscript rows but {len(vals)} values"
    if o["nnz"] != len(subs):
        return f"nnz reports {o['nnz']} but {len(subs)} rows are stored"
    if not o.get("subs_integral", True):
        return "non-integer subscripts"
    seen = set()
    for s in subs:
        if len(s) != len(shape) or any(not (0 <= x < d) for x, d in zip(s, shape)):
            return f"subscript {s} outside shape {list(shape)}"
        if tuple(s) in seen:
            return f"subscript {s} stored twice"
        seen.add(tuple(s))
    if any(v == 0 for v in vals):
        return "explicit zero stored"
    return None


def canon_ext(r):
    k = r["kind"]
    if k == "sparse":
        return (k, tuple(r["shape"]), tuple(sorted((tuple(s), str(v)) for s, v in zip(r["subs"], r["vals"]))))
    if k in ("dense", "array"):
        return (k, tuple(r["shape"]), tuple(map(str, r["data"])))
    if k == "scalar":
        return (k, str(Fraction(r["v"])))
    if k == "sptenmat":
        return (k, tuple(r["shape"]), tuple(r["tshape"]), tuple(r["rdims"]), tuple(r["cdims"]),
                tuple(sorted((tuple(s), str(v)) for s, v in zip(r["subs"], r["vals"]))), canon_ext(r["back"]) if "kind" in r["back"] else str(r["back"]))
    if k == "assoc":
        return (k, tuple(sorted((tuple(s), str(v)) for s, v in zip(r["keys"], r["vals"]))))
    return (k, str(r))


def oracle_ext(c, runs, variants):
    a = c.args
    for r, (pa, pb) in zip(runs, variants):
        k = r.get("kind")
        where = f"stored order {pa}/{pb}: "
        if k == "other":
            return where + f"result of type {r.get('type')}"
        if k == "sparse":
            p = sp_problems(r, r["shape"])
            if p:
                return where + "ill-formed sparse result: " + p
        if k == "sptenmat":
            p = sp_problems(r, r["shape"])
            if p:
                return where + "ill-formed sptenmat: " + p
            b = r["back"]
            if "exc" in b:
                return where + f"to_sptensor of the returned sptenmat raises {b['exc']}"
            if b.get("kind") != "sparse":
                return where + f"to_sptensor of the returned sptenmat returns {b.get('kind')}"
            p = sp_problems(b, b["shape"])
            if p:
                return where + "ill-formed round-trip tensor: " + p
        if k == "assoc" and (len(r["keys"]) != len(r["vals"]) or len(set(map(tuple, r["keys"]))) != len(r["keys"])):
            return where + "mask: values do not correspond one-to-one to the nonzeros of the mask"
        if k in ("dense", "array") and len(r["data"]) != math.prod(r["shape"]):
            return where + "dense result with inconsistent size"
    c0 = canon_ext(runs[0])
    for r, (pa, pb) in zip(runs[1:], variants[1:]):
        if canon_ext(r) != c0:
            return f"stored order {pa}/{pb} of the same operands gives a different result: {r} vs {runs[0]}"
    r0 = runs[0]
    if c.op == "innerprod":
        want = brute_innerprod(a)
        if r0["kind"] != "scalar" or Fraction(r0["v"]) != want:
            return f"innerprod returns {r0.get('v')} but the sum of products over all subscripts is {want}"
    if c.op == "norm":
        want = sum(v * v for v in a["vals"])
        got = Fraction(r0["v"]) ** 2 if r0["kind"] == "scalar" else None
        if got is None or abs(got - want) > Fraction(1, 10 ** 9) * max(1, want):
            return f"norm returns {r0.get('v')} whose square is not the sum of squares {want}"
    if c.op == "sptenmat":
        b = r0["back"]
        A = tuple(sorted((tuple(s), str(v)) for s, v in zip(a["subs"], a["vals"])))
        B = tuple(sorted((tuple(s), str(v)) for s, v in zip(b["subs"], b["vals"])))
        if A != B or list(b["shape"]) != list(a["shape"]):
            return f"to_sptenmat then to_sptensor does not give the tensor back: {b}"
    return None
