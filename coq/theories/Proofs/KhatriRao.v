(* Proofs/KhatriRao.v — executable model of pyttb.khatrirao (source anchor: pyttb/khatrirao.py) and the theorem
   that it is the column-wise Kronecker product with the FIRST argument slowest.

   Code:   P = matrices[0]
           for M in matrices[1:]:
               P = reshape(M, (-1,1,R)) * reshape(P, (1,-1,R), order="F")      # [a, b, r] = M[a,r] * P[b,r]
           return reshape(P, (-1,R), order="F")                                # row a + I_M * b
   i.e. one step maps P (p rows) and M (m rows) to the matrix whose row a + m*b is M[a,:] .* P[b,:]. *)
From Coq Require Import List Arith Lia Bool Ring.
From PV Require Import Base.Index Base.Sum Model.Repr.
Import ListNotations.

Section KR.
Variable V : Type.
Variables (v0 v1 : V) (vadd vmul vsub : V -> V -> V) (vopp : V -> V).
Hypothesis Vring : ring_theory v0 v1 vadd vmul vsub vopp (@eq V).
Add Ring Vr : Vring.

Notation matrix := (list (list V)).
Notation mget := (mget v0).

Fixpoint map2 (f : V -> V -> V) (l1 l2 : list V) : list V :=
  match l1, l2 with
  | x :: l1', y :: l2' => f x y :: map2 f l1' l2'
  | _, _ => []
  end.

Definition kr_step (P M : matrix) : matrix :=
  flat_map (fun prow => map (fun mrow => map2 vmul mrow prow) M) P.

(* column-count check of the code: every matrix must have as many columns as the first *)
Definition ncols_ok (As : list matrix) : bool :=
  match As with
  | [] => false
  | A :: _ => let R := ncols A in forallb (fun B => forallb (fun r => Nat.eqb (length r) R) B) As
  end.

Definition khatrirao (reverse : bool) (As : list matrix) : option matrix :=
  let As' := if reverse then rev As else As in
  if ncols_ok As' then
    match As' with
    | [] => None
    | A :: rest => Some (fold_left kr_step rest A)
    end
  else None.

(* ---- lemmas ---- *)

Lemma nth_map2 f l1 l2 r : r < length l1 -> r < length l2 ->
  nth r (map2 f l1 l2) v0 = f (nth r l1 v0) (nth r l2 v0).
Proof.
  revert l2 r; induction l1 as [|x l1 IH]; intros [|y l2] [|r] H1 H2; cbn in *; try lia; auto.
  apply IH; lia.
Qed.

Lemma map2_length f l1 l2 : length l1 = length l2 -> length (map2 f l1 l2) = length l1.
Proof. revert l2; induction l1 as [|x l1 IH]; intros [|y l2] H; cbn in *; try lia; auto. Qed.

Lemma nth_flat_map_const {A B} (f : A -> list B) (l : list A) m a b dA dB :
  (forall x, In x l -> length (f x) = m) -> a < m -> b < length l ->
  nth (a + m * b) (flat_map f l) dB = nth a (f (nth b l dA)) dB.
Proof.
  revert b; induction l as [|x l IH]; intros b Hlen Ha Hb; cbn in Hb; [lia|].
  cbn [flat_map]. destruct b as [|b].
  - rewrite Nat.mul_0_r, Nat.add_0_r. cbn [nth]. rewrite app_nth1; auto. rewrite Hlen; cbn; auto.
  - rewrite app_nth2 by (rewrite Hlen; cbn; auto; nia).
    rewrite Hlen by (cbn; auto). replace (a + m * S b - m) with (a + m * b) by nia.
    cbn [nth]. apply IH; auto; [intros; apply Hlen; cbn; auto|lia].
Qed.

Lemma flat_map_length_const {A B} (f : A -> list B) (l : list A) m :
  (forall x, In x l -> length (f x) = m) -> length (flat_map f l) = m * length l.
Proof.
  induction l as [|x l IH]; intros H; cbn; [lia|]. rewrite app_length, H, IH by (cbn; auto; intros; apply H; cbn; auto). nia.
Qed.

Definition wfm (A : matrix) (n R : nat) : Prop := length A = n /\ forall row, In row A -> length row = R.

Lemma kr_step_wf P M p m R : wfm P p R -> wfm M m R -> wfm (kr_step P M) (m * p) R.
Proof.
  intros [HP HPr] [HM HMr]. split.
  - unfold kr_step. rewrite (flat_map_length_const _ _ m); [now rewrite HP|].
    intros; now rewrite map_length.
  - intros row Hrow. unfold kr_step in Hrow. apply in_flat_map in Hrow as (prow & Hp & Hrow).
    apply in_map_iff in Hrow as (mrow & <- & Hm). rewrite map2_length; [auto|]. rewrite HMr, HPr; auto.
Qed.

Lemma kr_step_get P M p m R a b r : wfm P p R -> wfm M m R -> a < m -> b < p -> r < R ->
  mget (kr_step P M) (a + m * b) r = vmul (mget M a r) (mget P b r).
Proof.
  intros [HP HPr] [HM HMr] Ha Hb Hr. unfold Repr.mget, kr_step.
  rewrite (nth_flat_map_const _ _ m a b [] []); try lia.
  - rewrite (nth_indep _ [] ((fun mrow => map2 vmul mrow (nth b P [])) [])) by (rewrite map_length; lia).
    rewrite (map_nth (fun mrow => map2 vmul mrow (nth b P []))).
    apply nth_map2.
    + rewrite HMr; auto. apply nth_In. lia.
    + rewrite HPr; auto. apply nth_In. lia.
  - intros; now rewrite map_length.
Qed.

(* the row index reached by folding: start at i1 in a matrix with n1 rows, then each further matrix
   (n rows, index i) becomes the new FASTEST index *)
Fixpoint kr_index (idx : nat) (rest : list (nat * nat)) : nat :=
  match rest with
  | [] => idx
  | (n, i) :: rest' => kr_index (i + n * idx) rest'
  end.
Fixpoint kr_rows (p : nat) (rest : list (nat * nat)) : nat :=
  match rest with
  | [] => p
  | (n, _) :: rest' => kr_rows (n * p) rest'
  end.

Fixpoint kr_prod (Ms : list matrix) (is : list nat) (r : nat) : V :=
  match Ms, is with
  | M :: Ms', i :: is' => vmul (kr_prod Ms' is' r) (mget M i r)
  | _, _ => v1
  end.

Lemma khatrirao_fold (rest : list matrix) : forall (P : matrix) p R (ns is : list nat) b r,
  wfm P p R -> length ns = length rest -> length is = length rest ->
  (forall k, k < length rest -> wfm (nth k rest []) (nth k ns 0) R /\ nth k is 0 < nth k ns 0) ->
  b < p -> r < R ->
  wfm (fold_left kr_step rest P) (kr_rows p (combine ns is)) R /\
  kr_index b (combine ns is) < kr_rows p (combine ns is) /\
  mget (fold_left kr_step rest P) (kr_index b (combine ns is)) r = vmul (kr_prod rest is r) (mget P b r).
Proof.
  induction rest as [|M rest IH]; intros P p R ns is b r HP Hn Hi Hall Hb Hr.
  - destruct ns, is; cbn in Hn, Hi; try lia. cbn [fold_left combine kr_rows kr_index kr_prod].
    split; [exact HP|]. split; [exact Hb|]. ring.
  - destruct ns as [|n ns], is as [|i is]; cbn in Hn, Hi; try lia.
    destruct (Hall 0 ltac:(cbn; lia)) as [HM Hlt]. cbn in HM, Hlt.
    cbn [fold_left combine kr_rows kr_index kr_prod].
    assert (Hw : wfm (kr_step P M) (n * p) R) by (now apply kr_step_wf).
    assert (Hn' : length ns = length rest) by lia.
    assert (Hi' : length is = length rest) by lia.
    assert (Hall' : forall k, k < length rest -> wfm (nth k rest []) (nth k ns 0) R /\ nth k is 0 < nth k ns 0).
    { intros k Hk. apply (Hall (S k)). cbn. lia. }
    assert (Hb' : i + n * b < n * p) by nia.
    destruct (IH (kr_step P M) (n * p) R ns is (i + n * b) r Hw Hn' Hi' Hall' Hb' Hr) as (W & Hidx & Hget).
    split; [exact W|]. split; [exact Hidx|].
    rewrite Hget. rewrite (kr_step_get P M p n R); auto. ring.
Qed.

(* the index in closed form: F-order linear index with the LAST matrix fastest, the first slowest *)
Lemma kr_index_sub2ind rest_ns rest_is b p :
  length rest_ns = length rest_is ->
  kr_index b (combine rest_ns rest_is) = sub2ind (rev rest_ns ++ [p]) (rev rest_is ++ [b]).
Proof.
  revert rest_is b p; induction rest_ns as [|n ns IH]; intros [|i is] b p H; cbn in H; try lia.
  - cbn. lia.
  - cbn [combine kr_index rev]. rewrite (IH is (i + n * b) (n * p)) by lia.
    rewrite <- !app_assoc. cbn [app].
    rewrite !sub2ind_app by (rewrite !rev_length; lia).
    cbn [sub2ind]. lia.
Qed.

Lemma ncols_ok_wf A rest p R ns :
  wfm A p R -> 0 < p -> length ns = length rest ->
  (forall k, k < length rest -> wfm (nth k rest []) (nth k ns 0) R) -> ncols_ok (A :: rest) = true.
Proof.
  intros [HA HAr] Hp Hn Hall. unfold ncols_ok.
  assert (HR : ncols A = R).
  { destruct A as [|row A']; cbn in HA; [lia|]. cbn. apply HAr. cbn; auto. }
  rewrite HR. apply forallb_forall. intros B HB. apply forallb_forall. intros row Hrow. apply Nat.eqb_eq.
  destruct HB as [<-|HB]; [auto|].
  apply (In_nth _ _ []) in HB as (k & Hk & <-). destruct (Hall k Hk) as [_ Hr]. auto.
Qed.

(* the Khatri-Rao product is the column-wise Kronecker product; row index = F-order linear index over
   the row indices with the LAST argument fastest and the first slowest *)
Theorem khatrirao_spec A rest p R ns is b r :
  wfm A p R -> length ns = length rest -> length is = length rest ->
  (forall k, k < length rest -> wfm (nth k rest []) (nth k ns 0) R /\ nth k is 0 < nth k ns 0) ->
  b < p -> r < R ->
  exists K, khatrirao false (A :: rest) = Some K /\
    wfm K (size (p :: ns)) R /\
    mget K (sub2ind (rev (p :: ns)) (rev (b :: is))) r = vmul (kr_prod rest is r) (mget A b r).
Proof.
  intros HA Hn Hi Hall Hb Hr. unfold khatrirao.
  rewrite (ncols_ok_wf A rest p R ns) by (auto; try lia; intros k Hk; apply Hall; auto).
  exists (fold_left kr_step rest A). split; [reflexivity|].
  destruct (khatrirao_fold rest A p R ns is b r HA Hn Hi Hall Hb Hr) as (W & _ & Hget).
  split.
  - assert (E : kr_rows p (combine ns is) = size (p :: ns)).
    { clear -Hn Hi. assert (Hl : length ns = length is) by lia. clear Hn Hi. revert is p Hl.
      induction ns as [|n ns IH]; intros [|i is] p Hl; cbn in Hl; try lia; [cbn; lia|].
      cbn [combine kr_rows]. rewrite IH by lia. rewrite !size_cons. lia. }
    now rewrite <- E.
  - cbn [rev]. rewrite <- kr_index_sub2ind by lia. exact Hget.
Qed.

Theorem khatrirao_reverse As : khatrirao true As = khatrirao false (rev As).
Proof. reflexivity. Qed.

End KR.

