(* Proofs/C07Reshape.v — sparse reshape of a mode SUBSET is a bijection of index sets:
   full inverse map, denotation as a function of the result index, the round trip
   (reshape the trailing modes back, then restore the mode order) and agreement with the dense route
   permute(keep ++ old) ; reshape(kept sizes ++ new). *)
From Coq Require Import List Arith Lia Bool Permutation.
From PV Require Import Base.Index Base.Perm Np.Array Model.Sparse Model.C07Ops Proofs.C07Index Proofs.C07Proofs.
Import ListNotations.

(* ------------------------------------------------------------------ list helpers *)
Lemma pick_app {A} (d : A) p q (l : list A) : pick d (p ++ q) l = pick d p l ++ pick d q l.
Proof. unfold pick. apply map_app. Qed.

Lemma NoDup_app_intro {A} (a b : list A) : NoDup a -> NoDup b -> (forall x, In x a -> ~ In x b) -> NoDup (a ++ b).
Proof.
  induction 1 as [|x a Hx Ha IH]; intros Hb Hd; cbn; auto. constructor.
  - rewrite in_app_iff. intros [H|H]; [contradiction|]. apply (Hd x); cbn; auto.
  - apply IH; auto. intros y Hy. apply Hd. cbn; auto.
Qed.

Lemma pick_seq_app_l {A} (d : A) (a b : list A) : pick d (seq 0 (length a)) (a ++ b) = a.
Proof.
  apply (nth_ext _ _ d d).
  - now rewrite pick_length, seq_length.
  - intros j Hj. rewrite pick_length, seq_length in Hj.
    rewrite nth_pick by (now rewrite seq_length). rewrite seq_nth by auto. cbn. now apply app_nth1.
Qed.

Lemma pick_seq_app_r {A} (d : A) (a b : list A) : pick d (seq (length a) (length b)) (a ++ b) = b.
Proof.
  apply (nth_ext _ _ d d).
  - now rewrite pick_length, seq_length.
  - intros j Hj. rewrite pick_length, seq_length in Hj.
    rewrite nth_pick by (now rewrite seq_length). rewrite seq_nth by auto. apply app_nth2_plus.
Qed.

Lemma firstn_skipn_app_len {A} (a b : list A) : firstn (length a) (a ++ b) = a /\ skipn (length a) (a ++ b) = b.
Proof.
  split.
  - rewrite firstn_app, Nat.sub_diag, firstn_all. cbn. apply app_nil_r.
  - rewrite skipn_app, Nat.sub_diag, skipn_all. reflexivity.
Qed.

Lemma filter_all_id {A} (f : A -> bool) l : (forall x, In x l -> f x = true) -> filter f l = l.
Proof.
  induction l as [|a l IH]; intros H; cbn; auto. rewrite H by (cbn; auto). f_equal. apply IH. intros; apply H; cbn; auto.
Qed.

(* ------------------------------------------------------------------ kept modes *)
Lemma keep_modes_NoDup N old : NoDup (keep_modes N old).
Proof. unfold keep_modes. apply NoDup_filter, seq_NoDup. Qed.

Lemma keep_modes_notin N old k : In k (keep_modes N old) -> ~ In k old.
Proof.
  unfold keep_modes. intros H Hin. apply filter_In in H as [_ H]. apply negb_true_iff in H.
  assert (E : existsb (Nat.eqb k) old = true) by (apply existsb_exists; exists k; split; auto; apply Nat.eqb_refl).
  congruence.
Qed.

(* the order that brings the kept modes to the front, followed by the reshaped modes in the caller's order *)
Definition rs_order (N : nat) (old : list nat) : list nat := keep_modes N old ++ old.

Lemma rs_order_perm N old : NoDup old -> Forall (fun k => k < N) old -> is_perm (rs_order N old) N.
Proof.
  intros Hn Hr. rewrite Forall_forall in Hr. unfold is_perm, rs_order. apply NoDup_Permutation.
  - apply NoDup_app_intro; auto using keep_modes_NoDup. apply keep_modes_notin.
  - apply seq_NoDup.
  - intros k. rewrite in_app_iff, in_seq. split.
    + intros [H|H]; [apply keep_modes_lt in H|apply Hr in H]; lia.
    + intros H. apply keep_modes_cover. lia.
Qed.

(* keep_modes of "the last m of n + m modes" *)
Lemma keep_modes_trailing n m : keep_modes (n + m) (seq n m) = seq 0 n.
Proof.
  unfold keep_modes. rewrite seq_app, filter_app. cbn [Nat.add].
  assert (E1 : filter (fun k => negb (existsb (Nat.eqb k) (seq n m))) (seq 0 n) = seq 0 n).
  { apply filter_all_id. intros k Hk. apply in_seq in Hk. apply negb_true_iff.
    destruct (existsb (Nat.eqb k) (seq n m)) eqn:E; auto.
    apply existsb_exists in E as (x & Hx & Ex). apply Nat.eqb_eq in Ex. subst. apply in_seq in Hx. lia. }
  assert (E2 : filter (fun k => negb (existsb (Nat.eqb k) (seq n m))) (seq n m) = []).
  { assert (G : forall l, (forall k, In k l -> In k (seq n m)) -> filter (fun k => negb (existsb (Nat.eqb k) (seq n m))) l = []).
    { induction l as [|a l IH]; intros H; cbn; auto.
      assert (Ha : existsb (Nat.eqb a) (seq n m) = true).
      { apply existsb_exists. exists a. split; [apply H; cbn; auto|apply Nat.eqb_refl]. }
      rewrite Ha. cbn. apply IH. intros; apply H; cbn; auto. }
    apply G. auto. }
  rewrite E1, E2. apply app_nil_r.
Qed.

Lemma reshape_row_trailing (sa sb t : shape) (a b : idx) : length a = length sa -> length b = length sb ->
  reshape_row (sa ++ sb) t (seq (length sa) (length sb)) (a ++ b) = a ++ ind2sub t (sub2ind sb b).
Proof.
  intros Ha Hb. unfold reshape_row. rewrite app_length, keep_modes_trailing.
  rewrite pick_seq_app_r. rewrite <- Ha, <- Hb. now rewrite pick_seq_app_l, pick_seq_app_r.
Qed.

(* ------------------------------------------------------------------ the inverse index map *)
(* j indexes the result (kept modes ++ new modes): split it, un-linearise the new part over the sizes of the reshaped
   modes (caller's order) and scatter both parts back to their original positions *)
Definition unreshape_row (s s' : shape) (old : list nat) (j : idx) : idx :=
  let nk := length (keep_modes (length s) old) in
  pick 0 (invperm (rs_order (length s) old))
       (firstn nk j ++ ind2sub (pick 0 old s) (sub2ind s' (skipn nk j))).

Section Inverse.
Variables (s s' : shape) (old : list nat).
Hypothesis Hold : Forall (fun k => k < length s) old.
Hypothesis Hnd : NoDup old.
Hypothesis Hsize : size s' = size (pick 0 old s).

Let keep := keep_modes (length s) old.
Let q := rs_order (length s) old.

Lemma rs_q_perm : is_perm q (length s).
Proof. now apply rs_order_perm. Qed.

Lemma pick_q_split (l : list nat) : pick 0 q l = pick 0 keep l ++ pick 0 old l.
Proof. unfold q, rs_order. apply pick_app. Qed.

Lemma result_index_split j : inb (pick 0 keep s ++ s') j = true ->
  exists jk jn, j = jk ++ jn /\ length jk = length keep /\ inb (pick 0 keep s) jk = true /\ inb s' jn = true.
Proof.
  intros Hj. pose proof (inb_length _ _ Hj) as HL. rewrite app_length, pick_length in HL.
  exists (firstn (length keep) j), (skipn (length keep) j).
  assert (Hf : length (firstn (length keep) j) = length keep) by (rewrite firstn_length; lia).
  split; [symmetry; apply firstn_skipn|]. split; auto.
  rewrite <- (firstn_skipn (length keep) j) in Hj.
  rewrite inb_app in Hj by (now rewrite pick_length). now apply andb_true_iff in Hj.
Qed.

(* unreshape_row lands in the source index set and reshape_row sends it back to j: surjectivity *)
Lemma unreshape_row_right j : inb (pick 0 keep s ++ s') j = true ->
  inb s (unreshape_row s s' old j) = true /\ reshape_row s s' old (unreshape_row s s' old j) = j.
Proof.
  intros Hj. destruct (result_index_split j Hj) as (jk & jn & -> & HLk & Hjk & Hjn).
  pose proof rs_q_perm as Hq. pose proof (is_perm_length _ _ Hq) as HqL.
  unfold unreshape_row. fold keep q. rewrite <- HLk.
  destruct (firstn_skipn_app_len jk jn) as [-> ->].
  set (o := ind2sub (pick 0 old s) (sub2ind s' jn)).
  assert (Hlt : sub2ind s' jn < size (pick 0 old s)) by (rewrite <- Hsize; now apply sub2ind_lt).
  assert (Ho : inb (pick 0 old s) o = true) by (now apply inb_ind2sub).
  assert (Hw : inb (pick 0 q s) (jk ++ o) = true).
  { rewrite pick_q_split, inb_app by (now rewrite pick_length). now rewrite Hjk, Ho. }
  assert (HwL : length (jk ++ o) = length s).
  { apply inb_length in Hw. rewrite pick_length in Hw. lia. }
  set (i := pick 0 (invperm q) (jk ++ o)).
  assert (Hi : inb s i = true) by (unfold i; rewrite <- inb_pick_inv; auto).
  split; auto.
  assert (Hpi : pick 0 q i = jk ++ o) by (unfold i; now apply (pick_pick_invperm 0 q (length s))).
  rewrite pick_q_split in Hpi. apply app_inv_length_eq in Hpi; [|rewrite pick_length; fold keep; lia].
  destruct Hpi as [E1 E2]. unfold reshape_row. fold keep. rewrite E1, E2. f_equal.
  unfold o. rewrite sub2ind_ind2sub by auto. now apply ind2sub_sub2ind.
Qed.

(* and it is a left inverse on the source index set *)
Lemma unreshape_row_left i : inb s i = true -> unreshape_row s s' old (reshape_row s s' old i) = i.
Proof.
  intros Hi. pose proof (reshape_row_inb s s' old Hold Hsize i Hi) as Hj. fold keep in Hj.
  destruct (unreshape_row_right _ Hj) as [Hu Er].
  now apply (reshape_row_inj s s' old Hold Hsize).
Qed.

(* reshaping the trailing modes back to the sizes of the removed modes yields the row in the order keep ++ old *)
Lemma reshape_row_back i : inb s i = true ->
  reshape_row (pick 0 keep s ++ s') (pick 0 old s) (seq (length keep) (length s')) (reshape_row s s' old i) = pick 0 q i.
Proof.
  intros Hi. unfold reshape_row at 2. fold keep.
  rewrite <- (pick_length 0 keep s).
  rewrite reshape_row_trailing by (rewrite ?pick_length, ?ind2sub_length; reflexivity).
  rewrite pick_q_split. f_equal.
  assert (Ho : inb (pick 0 old s) (pick 0 old i) = true).
  { apply inb_pick_sub; auto. now apply Forall_forall. }
  rewrite sub2ind_ind2sub by (rewrite Hsize; now apply sub2ind_lt). now apply ind2sub_sub2ind.
Qed.

End Inverse.

(* ------------------------------------------------------------------ the theorem *)
Section Thm.
Context {V : Type} (v0 : V) (isz : V -> bool).

Theorem reshape_sparse_subset_bijection (S : sparse V) s' old :
  Forall (fun k => k < length (sshape S)) old -> NoDup old -> size s' = size (pick 0 old (sshape S)) ->
  Forall (fun j => inb (sshape S) j = true) (ssubs S) ->
  let s := sshape S in
  let keep := keep_modes (length s) old in
  exists R, reshape_sp S s' old = Some R /\ sshape R = pick 0 keep s ++ s' /\
    (* the inverse map: every result index has exactly one source index *)
    (forall j, inb (sshape R) j = true ->
       inb s (unreshape_row s s' old j) = true /\ reshape_row s s' old (unreshape_row s s' old j) = j /\
       (forall i, inb s i = true -> reshape_row s s' old i = j -> i = unreshape_row s s' old j)) /\
    (forall i, inb s i = true -> unreshape_row s s' old (reshape_row s s' old i) = i) /\
    (* the result denotes exactly the re-indexed array *)
    (forall j, den_sp v0 R j = if inb (sshape R) j then den_sp v0 S (unreshape_row s s' old j) else v0) /\
    Forall (fun j => inb (sshape R) j = true) (ssubs R) /\
    (* round trip: reshape the trailing new modes back to the removed sizes, then restore the mode order *)
    exists R2, reshape_sp R (pick 0 old s) (seq (length keep) (length s')) = Some R2 /\
      sshape R2 = pick 0 (rs_order (length s) old) s /\
      permute_sp R2 (invperm (rs_order (length s) old)) = Some S.
Proof.
  intros Hold Hnd Hsize Hb s keep.
  destruct (reshape_sparse_correct v0 isz S s' old Hold Hsize Hb) as (R & HR & Hsh & Hv & Hn & Hw & Hden & Hout).
  fold s keep in Hsh, Hden, Hout.
  exists R. split; auto. split; auto.
  assert (Hright : forall j, inb (sshape R) j = true ->
            inb s (unreshape_row s s' old j) = true /\ reshape_row s s' old (unreshape_row s s' old j) = j).
  { intros j Hj. rewrite Hsh in Hj. now apply unreshape_row_right. }
  assert (HbR : Forall (fun j => inb (sshape R) j = true) (ssubs R)).
  { unfold reshape_sp in HR. fold s in HR. rewrite Hsize, Nat.eqb_refl in HR. inversion HR as [HR']. cbn [ssubs sshape].
    rewrite Forall_forall. intros j Hj. apply in_map_iff in Hj as (a & <- & Ha). apply reshape_row_inb; auto.
    rewrite Forall_forall in Hb. auto. }
  split; [|split; [|split; [|split]]].
  - intros j Hj. destruct (Hright j Hj) as [H1 H2]. split; auto. split; auto.
    intros i Hi E. apply (reshape_row_inj s s' old Hold Hsize); auto. congruence.
  - intros i Hi. now apply unreshape_row_left.
  - intros j. destruct (inb (sshape R) j) eqn:Hj.
    + destruct (Hright j Hj) as [H1 H2]. destruct (Hden _ H1) as [_ E]. now rewrite H2 in E.
    + apply den_sp_notin. intros Hin. rewrite Forall_forall in HbR. specialize (HbR _ Hin). congruence.
  - exact HbR.
  - pose proof (rs_order_perm (length s) old Hnd Hold) as Hq.
    unfold reshape_sp in HR. fold s in HR. rewrite Hsize, Nat.eqb_refl in HR. inversion HR as [HR']. clear HR.
    unfold reshape_sp. cbn [sshape ssubs svals]. fold keep.
    assert (HksL : length (pick 0 keep s) = length keep) by apply pick_length.
    assert (E1 : pick 0 (seq (length keep) (length s')) (pick 0 keep s ++ s') = s').
    { rewrite <- HksL. apply pick_seq_app_r. }
    rewrite E1, Hsize, Nat.eqb_refl. eexists. split; [reflexivity|].
    rewrite app_length, HksL, keep_modes_trailing. cbn [sshape ssubs svals].
    assert (E2 : pick 0 (seq 0 (length keep)) (pick 0 keep s ++ s') = pick 0 keep s).
    { rewrite <- HksL. apply pick_seq_app_l. }
    rewrite E2. assert (Eq : pick 0 keep s ++ pick 0 old s = pick 0 (rs_order (length s) old) s).
    { unfold rs_order. fold keep. now rewrite pick_app. }
    split; [exact Eq|].
    unfold permute_sp. cbn [sshape ssubs svals]. rewrite Eq, pick_length, (is_perm_length _ _ Hq).
    rewrite (proj2 (is_permb_spec _ _) (invperm_is_perm _ _ Hq)).
    rewrite (pick_invperm_pick 0 _ (length s)) by auto. rewrite !map_map.
    subst s. destruct S as [s subs vals]. cbn [sshape ssubs svals] in *. f_equal. f_equal.
    rewrite <- (map_id subs) at 2. apply map_ext_in. intros i Hi. rewrite Forall_forall in Hb. specialize (Hb _ Hi).
    assert (G := reshape_row_back s s' old Hold Hsize i Hb). fold keep in G.
    rewrite G. apply (pick_invperm_pick 0 _ (length s)); auto. now apply inb_length.
Qed.

End Thm.

(* ------------------------------------------------------------------ agreement with the dense route *)
Lemma ind2sub_app_lin (sa sb : shape) (a : idx) k : inb sa a = true -> k < size sb ->
  ind2sub (sa ++ sb) (sub2ind sa a + size sa * k) = a ++ ind2sub sb k.
Proof.
  intros Ha Hk. pose proof (inb_ind2sub sb k Hk) as Hb.
  rewrite <- (sub2ind_ind2sub sb k Hk) at 1.
  rewrite <- sub2ind_app by (now apply inb_length).
  apply ind2sub_sub2ind. rewrite inb_app by (now apply inb_length). now rewrite Ha, Hb.
Qed.

Lemma unreshape_row_linear (s s' : shape) (old : list nat) j :
  size s' = size (pick 0 old s) ->
  inb (pick 0 (keep_modes (length s) old) s ++ s') j = true ->
  unreshape_row s s' old j =
  pick 0 (invperm (rs_order (length s) old))
       (ind2sub (pick 0 (rs_order (length s) old) s) (sub2ind (pick 0 (keep_modes (length s) old) s ++ s') j)).
Proof.
  intros Hsize Hj. destruct (result_index_split s s' old Hsize j Hj) as (jk & jn & -> & HLk & Hjk & Hjn).
  unfold unreshape_row. rewrite <- HLk. destruct (firstn_skipn_app_len jk jn) as [-> ->]. f_equal.
  rewrite sub2ind_app by (now apply inb_length). unfold rs_order. rewrite pick_app.
  symmetry. apply ind2sub_app_lin; auto. rewrite <- Hsize. now apply sub2ind_lt.
Qed.

Section AgreeSubset.
Context {V : Type} (v0 : V).

(* the dense route  T.permute(keep ++ old).reshape(kept sizes ++ new)  and the sparse subset reshape give the same array *)
Theorem reshape_subset_repr_agree (T : dense V) (S : sparse V) s' old :
  wf_dense T -> sshape S = dshape T ->
  Forall (fun k => k < length (dshape T)) old -> NoDup old -> size s' = size (pick 0 old (dshape T)) ->
  Forall (fun j => inb (sshape S) j = true) (ssubs S) ->
  (forall i, inb (dshape T) i = true -> den_sp v0 S i = den_dense v0 T i) ->
  let s := dshape T in
  exists T1 T2 S', permute_d v0 T (rs_order (length s) old) = Some T1 /\
    reshape_d v0 T1 (pick 0 (keep_modes (length s) old) s ++ s') = Some T2 /\
    reshape_sp S s' old = Some S' /\ sshape S' = dshape T2 /\
    forall j, inb (dshape T2) j = true -> den_sp v0 S' j = den_dense v0 T2 j.
Proof.
  intros W Hs Hold Hnd Hsize Hb Hag s.
  pose proof (rs_order_perm (length s) old Hnd Hold) as Hq.
  destruct (permute_dense_correct v0 T _ W Hq) as (T1 & E1 & W1 & Hs1 & D1 & _). fold s in Hs1, D1.
  assert (Hsz : size (pick 0 (keep_modes (length s) old) s ++ s') = size (dshape T1)).
  { rewrite Hs1. unfold rs_order. rewrite pick_app, !size_app. now rewrite Hsize. }
  destruct (reshape_dense_correct v0 T1 _ W1 Hsz) as (T2 & E2 & _ & Hs2 & _ & D2 & _).
  rewrite <- Hs in Hold, Hsize.
  destruct (reshape_sparse_subset_bijection v0 (fun _ => false) S s' old Hold Hnd Hsize Hb)
    as (S' & E3 & Hs3 & Hinv & _ & D3 & _).
  rewrite Hs in *. fold s in Hs3, Hinv, D3, Hsize.
  exists T1, T2, S'. repeat (split; [assumption|]). split; [now rewrite Hs2|].
  intros j Hj. rewrite Hs2 in Hj. rewrite D3, Hs3, Hj. rewrite D2 by auto. rewrite Hs1.
  rewrite <- Hs3 in Hj. destruct (Hinv j Hj) as (Hu & _ & _). rewrite Hs3 in Hj.
  rewrite D1.
  - rewrite <- unreshape_row_linear by auto. now apply Hag.
  - rewrite ind2sub_length, pick_length. now apply is_perm_length in Hq.
Qed.

End AgreeSubset.
