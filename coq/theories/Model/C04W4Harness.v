(* Model/C04W4Harness.v — C04, wave 4: comparer of the sptenmat_set stream against the TRANSLITERATION of sptenmat.__setitem__
   (Model/C04SpMatImpl.v, theorems Proofs/C04SpMatImpl.v): stepped from the raw state pyttb showed before the call, the
   transliteration must produce EXACTLY the raw state pyttb shows after it (subscripts, values AND stored order: existing entries
   in place when nothing is appended, everything lexsorted by (row, col) otherwise, zeros purged); a rejected request leaves the
   raw state untouched. *)
From Coq Require Import List Arith ZArith Bool.
From PV Require Import Base.Index Np.Array Model.Sparse Model.Harness Model.C04Model Model.C04Harness Model.C04Mat Model.C04SpMatImpl.
Import ListNotations.

Definition zsptenmat_setitem (S : sparse Z) (o : zop) : option (sparse Z) :=
  match o with
  | OSet (KRegion es) r => sptenmat_setitem zisz S es r
  | _ => None
  end.

Fixpoint check_sptenmat_impl (S : sparse Z) (ops : list zop) (obs : list (sparse Z * bool)) : bool :=
  match ops, obs with
  | [], [] => true
  | o :: ops', (S2, accepted) :: obs' =>
      match zsptenmat_setitem S o, accepted with
      | Some S1, true => sp_raw_eqb S1 S2 && check_sptenmat_impl S2 ops' obs'
      | None, false => sp_raw_eqb S S2 && check_sptenmat_impl S2 ops' obs'
      | _, _ => false
      end
  | _, _ => false
  end.

(* the C04-N14 witness M[[1,1], 1] = [[6],[8]] on a 2x4 sptenmat storing (0,0)=1, (1,2)=3, (1,3)=2: one entry (1,1)=8 is
   appended (pending), the result is sorted;  M[0,0] = 0 removes the stored entry in place (C04-N08) *)
Example sptenmat_impl_example :
  zsptenmat_setitem (mkSp [2; 4] [[0; 0]; [1; 2]; [1; 3]] [1; 3; 2]%Z) (OSet (KRegion [KList [1; 1]%Z; KInt 1]) (RValues [6; 8]%Z))
    = Some (mkSp [2; 4] [[0; 0]; [1; 1]; [1; 2]; [1; 3]] [1; 8; 3; 2]%Z) /\
  zsptenmat_setitem (mkSp [2; 4] [[1; 3]; [0; 0]; [1; 2]] [2; 1; 3]%Z) (OSet (KRegion [KInt 0; KInt 0]) (RScalar 0%Z))
    = Some (mkSp [2; 4] [[1; 3]; [1; 2]] [2; 3]%Z) /\
  zsptenmat_setitem (mkSp [2; 4] [[1; 3]; [0; 0]; [1; 2]] [2; 1; 3]%Z) (OSet (KRegion [KInt 2; KInt 0]) (RScalar 5%Z)) = None.
Proof. repeat split; vm_compute; reflexivity. Qed.
