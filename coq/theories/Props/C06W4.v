(* Props/C06W4.v — wave 4 additions to property C06 (sparse results are well-formed and independent of the stored order).
   Only statements, `exact`, Print Assumptions.  Values: any commutative ring with decidable zero unless said otherwise. *)
From Coq Require Import List Arith Bool ZArith Permutation Ring.
From PV Require Import Base.Index Base.Perm Base.Sum Np.NpZ Np.Array Gen.GenUtils Model.Sparse Model.Repr Model.Harness Model.C03Ops Model.C03Gen
                       Model.C03More Model.C06Ops Model.C07Ops Model.C01Conv Model.C01Unique Model.C01Coo Model.C06Cont Model.C06W4
                       Proofs.C03Lemmas Proofs.C03Proofs Proofs.C03More Proofs.C06Proofs Proofs.C06Other Proofs.C06Squash
                       Proofs.C01Unique Proofs.C01Converse Proofs.C01Coo Proofs.C06Kernels Proofs.C06Cont Proofs.C06Ctor Proofs.C06W4
                       Np.NpZ3 Model.W4Ktensor Model.W4Sptensor Gen.GenSptensor4 Proofs.C06Gen4
                       Model.C03Gen2 Model.C03Src Proofs.C06Gen2 Proofs.C06KInner.
Import ListNotations.

Section C06W4ring.
Variable V : Type.
Variables (v0 v1 : V) (vadd vmul vsub : V -> V -> V) (vopp : V -> V).
Hypothesis Vring : ring_theory v0 v1 vadd vmul vsub vopp (@eq V).
Variable isz : V -> bool.
Hypothesis isz_spec : forall v, isz v = true <-> v = v0.
Notation den := (den_sp v0).
Notation wf := (wf_sp isz).

(* ---- sptensor.from_aggregator with the default reducer, ARBITRARY input rows (repeated rows, rows whose values cancel, zero values,
        any order): the result is well-formed — one value per subscript, in bounds, pairwise distinct, no explicit zero —, has the
        requested shape and holds at every position the sum of the values handed over with that subscript; two inputs that list
        the same (subscript, value) pairs in different orders give the same result ---- *)
Theorem C06_from_aggregator : forall (s' : shape) (es : list (idx * V)), (forall e, In e es -> inb s' (fst e) = true) ->
  wf (agg v0 vadd isz s' es) /\ sshape (agg v0 vadd isz s' es) = s' /\
  forall i, den (agg v0 vadd isz s' es) i = sum_over v0 vadd es (at_ V v0 i).
Proof. exact (agg_correct V v0 v1 vadd vmul vsub vopp Vring isz isz_spec). Qed.

Theorem C06_from_aggregator_indep : forall (s' : shape) (es es' : list (idx * V)), Permutation es es' ->
  (forall e, In e es -> inb s' (fst e) = true) ->
  same_result v0 isz (agg v0 vadd isz s' es) (agg v0 vadd isz s' es').
Proof. exact (agg_perm V v0 v1 vadd vmul vsub vopp Vring isz isz_spec). Qed.

(* ---- sptenmat.__init__ (copy=True) with ARBITRARY triples (Model/C01Unique.v stm_ctor: gather_wrap_dims, the two bound checks,
        np.unique rows + accumarray(sum) + drop zeros; the theorem is C01's, re-exported): every accepted call returns a strictly
        sorted, well-formed sptenmat holding the per-position sums, whose to_sptensor() is well-formed ---- *)
Theorem C06_stm_ctor : forall subs vals rd cd ts M, stm_ctor vadd isz subs vals rd cd ts = Some M ->
  rd <> None \/ cd <> None -> length (olist subs) = length (olist vals) -> Forall (fun rc => length rc = 2) (olist subs) ->
  stm_tshape M = ts /\ is_perm (stm_r M ++ stm_c M) (length ts) /\
  ssorted (stm_subs M) /\ wf (stm_sp M) /\
  (forall rc, den (stm_sp M) rc = vsum_at v0 vadd rc (combine (olist subs) (olist vals))) /\
  let S := sptenmat_to_sptensor M in
  wf S /\ sshape S = ts /\ nnz S = length (stm_subs M) /\
  to_sptenmat S (stm_r M) (stm_c M) = Some M /\ to_sptenmat_sorted vadd isz S (stm_r M) (stm_c M) = Some M /\
  (forall i, inb ts i = true -> den S i = den_sptenmat v0 M i).
Proof. exact (stm_ctor_converse V v0 v1 vadd vmul vsub vopp isz Vring isz_spec). Qed.

(* ... and the answer — the object, stored order included, or the refusal — is THE SAME for every order in which the caller lists
   the triples (repeated, cancelling and zero triples allowed) *)
Theorem C06_stm_ctor_indep : forall subs vals subs' vals' rd cd ts,
  length subs = length vals -> length subs' = length vals' -> Forall (fun rc => length rc = 2) subs ->
  Permutation (combine subs vals) (combine subs' vals') ->
  stm_ctor vadd isz (Some subs) (Some vals) rd cd ts = stm_ctor vadd isz (Some subs') (Some vals') rd cd ts.
Proof. exact (stm_ctor_indep V v0 v1 vadd vmul vsub vopp isz Vring isz_spec). Qed.

(* ---- sptenmat.from_array of a scipy matrix whose stored triples are NOT canonical (a position listed several times — scipy
        defines the entry as the sum —, cancelling pairs, explicit zeros, any order): well-formed, denotes the matrix (C01's theorem,
        re-exported), and the same object for every order of the matrix's triples ---- *)
Theorem C06_stm_from_coo : forall (Cm : coo V) rd cd ts M, length (coo_subs Cm) = length (coo_data Cm) ->
  Forall (fun rc => length rc = 2) (coo_subs Cm) ->
  from_array_coo vadd isz Cm rd cd ts = Some M -> rd <> None \/ cd <> None ->
  (forall rc, den (stm_sp M) rc = vsum_at v0 vadd rc (coo_entries Cm)) /\
  (forall rc, inb (coo_shape Cm) rc = true -> den (stm_sp M) rc = den_coo v0 vadd Cm rc) /\
  exists subs vals, stm_converse_concl V v0 vadd isz subs vals ts M.
Proof. exact (from_array_coo_correct V v0 v1 vadd vmul vsub vopp isz Vring isz_spec). Qed.

Theorem C06_stm_from_coo_indep : forall (C C' : coo V) rd cd ts,
  length (coo_subs C) = length (coo_data C) -> length (coo_subs C') = length (coo_data C') ->
  Forall (fun rc => length rc = 2) (coo_subs C) ->
  Permutation (coo_entries C) (coo_entries C') ->
  from_array_coo vadd isz C rd cd ts = from_array_coo vadd isz C' rd cd ts.
Proof. exact (from_array_coo_indep V v0 v1 vadd vmul vsub vopp isz Vring isz_spec). Qed.

(* ---- ttm over SEVERAL modes with numpy matrices: pyttb performs the first product on the sparse tensor and gets the dense tensor
        Ynt.to_tensor(); every later product is tensor.ttm on that intermediate (C02).  The intermediate is LITERALLY the same for
        every stored order of the sparse operand, hence so is whatever the rest of the chain computes from it ---- *)
Theorem C06_cont_ttm_chain : forall (X : Type) (rest : @kres V -> X) (S S' : sparse V) n J U tr, reordered V isz S S' ->
  rest (cont_ttm_ndarray v0 vadd vmul isz S n J U tr) = rest (cont_ttm_ndarray v0 vadd vmul isz S' n J U tr).
Proof.
  exact (fun X rest S S' n J U tr R =>
           f_equal (fun Y => rest (KDen (full v0 Y))) (cont_ttm_indep V v0 v1 vadd vmul vsub vopp Vring isz S S' n J U tr R)).
Qed.

(* ---- innerprod of a sparse tensor with a Kruskal tensor (ktensor.innerprod: per component one sptensor.ttv over all modes with the
        component's factor columns, accumulated with the weights): the same number for every stored order of the sparse operand ---- *)
Theorem C06_ops_innerprod_kruskal : forall (S S' : sparse V) (K : ktensor V), reordered V isz S S' ->
  impl_innerprod_sp_k v0 v1 vadd vmul S K = impl_innerprod_sp_k v0 v1 vadd vmul S' K.
Proof. exact (indep_innerprod_kruskal V v0 v1 vadd vmul vsub vopp Vring isz). Qed.
End C06W4ring.

Section C06W4.
Context {V : Type} (v0 : V) (isz : V -> bool).
Hypothesis isz_spec : forall v, isz v = true <-> v = v0.
Notation wf := (wf_sp isz).

(* ---- squash AS pyttb computes it (every mode gets the extent nnz: open finding A-27): a well-formed sparse tensor with the stored
        values of S and the subscripts of the specified squash; the same for every stored order; and it IS the specified squash
        exactly when no mode repeats an index among the stored subscripts (the trigger of A-27, exact) ---- *)
Theorem C06_squash_asis : forall S : sparse V, wf S ->
  wf (squash_asis S) /\ nnz (squash_asis S) = nnz S /\ svals (squash_asis S) = svals S /\
  ssubs (squash_asis S) = ssubs (squash S) /\ sshape (squash_asis S) = map (fun _ => nnz S) (sshape S).
Proof. exact (squash_asis_wf isz). Qed.

Theorem C06_squash_asis_indep : forall S S' : sparse V, wf S -> wf S' -> sshape S' = sshape S ->
  Permutation (entries S) (entries S') -> same_result v0 isz (squash_asis S) (squash_asis S').
Proof. exact (squash_asis_indep v0 isz). Qed.

Theorem C06_squash_asis_spec_iff : forall S : sparse V, wf S ->
  (squash_asis S = squash S <-> forall n, n < length (sshape S) -> NoDup (column n (ssubs S))).
Proof. exact (squash_asis_spec_iff isz). Qed.

(* ---- sparse / sparse AS pyttb computes it after /repo e2beb21 (impl_div_sparse_gen: transliteration over the row helpers GENERATED
        from pyttb_utils.py), X = the type of quotients, x0 its zero, xnan / xzero the fill values of x/0, 0/0 and of 0/x.
        The quotient stores every position of the shape exactly once; the stored value is zero exactly at the positions stored in the
        divisor and not in the dividend; so the quotient is a well-formed sparse tensor (no explicit zero) EXACTLY when the divisor's
        support lies inside the dividend's — the trigger of open finding C03-N7, exact ---- *)
Theorem C06_div_sparse_wf_iff : forall (X : Type) (x0 : X) (xisz : X -> bool), (forall x, xisz x = true <-> x = x0) ->
  forall (dv : V -> V -> X) (xnan xzero : X), xnan <> x0 -> (forall a b, a <> v0 -> b <> v0 -> dv a b <> x0) -> xzero = x0 ->
  forall (alls : list idx) (A B : sparse V),
  wf A -> wf B -> sshape B = sshape A -> sshape A <> [] ->
  NoDup alls -> (forall i, In i alls <-> inb (sshape A) i = true) ->
  exists R, impl_div_sparse_gen v0 dv xnan xzero alls A B = Ok R /\ wf_struct R /\ sshape R = sshape A /\ nnz R = length alls /\
            (forall i, In i (ssubs R) <-> inb (sshape A) i = true) /\
            (forall i, inb (sshape A) i = true -> (den_sp x0 R i = x0 <-> In i (ssubs B) /\ ~ In i (ssubs A))) /\
            (wf_sp xisz R <-> forall i, In i (ssubs B) -> In i (ssubs A)).
Proof. exact (fun X x0 xisz xs dv xnan xzero => div_sparse_wf_iff v0 isz x0 xisz isz_spec xs dv xnan xzero). Qed.

(* ... and for every stored order of the dividend and of the divisor: the same array, the same stored entries up to order, the same
   verdict on well-formedness *)
Theorem C06_div_sparse_indep : forall (X : Type) (x0 : X) (xisz : X -> bool) (dv : V -> V -> X) (xnan xzero : X)
  (alls : list idx) (A A' B B' : sparse V),
  wf A -> wf A' -> wf B -> wf B' -> sshape A' = sshape A -> sshape B = sshape A -> sshape B' = sshape A -> sshape A <> [] ->
  Permutation (entries A) (entries A') -> Permutation (entries B) (entries B') ->
  NoDup alls -> (forall i, In i alls <-> inb (sshape A) i = true) ->
  exists R R', impl_div_sparse_gen v0 dv xnan xzero alls A B = Ok R /\ impl_div_sparse_gen v0 dv xnan xzero alls A' B' = Ok R' /\
               sshape R = sshape R' /\ (forall i, den_sp x0 R i = den_sp x0 R' i) /\ Permutation (entries R) (entries R') /\
               (wf_sp xisz R <-> wf_sp xisz R').
Proof. exact (fun X x0 xisz dv xnan xzero => div_sparse_indep v0 isz x0 xisz dv xnan xzero). Qed.

(* ---- the remaining element-wise code paths stated over the GENERATED row helpers (C03: impl_ne_sparse_gen, impl_eq_dense_gen,
        impl_ne_dense_gen over pyttb's own enumeration, and _compare AS WRITTEN with its operator / opposite_operator / include_zero
        triple, impl_cmp_src): for operands of order >= 1 they succeed, return well-formed tensors and the same result for every stored
        order of each sparse operand ---- *)
Theorem C06_ops_generated2 : forall one : V, one <> v0 ->
  (forall veqb, (forall a b, veqb a b = true <-> a = b) -> indep2_res v0 isz (@has_modes V) (impl_ne_sparse_gen v0 one veqb)) /\
  (forall cmp opp include_zero, opposite_laws v0 cmp opp include_zero ->
     indep2_res v0 isz (@has_modes V) (impl_cmp_src v0 one cmp opp include_zero)) /\
  (forall veqb, (forall a b, veqb a b = true <-> a = b) ->
     forall A A' T, wf A -> wf A' -> sshape A' = sshape A -> sshape A <> [] -> Permutation (entries A) (entries A') ->
     exists R R', impl_eq_dense_gen v0 isz one veqb A T = Ok R /\ impl_eq_dense_gen v0 isz one veqb A' T = Ok R' /\
                  same_result v0 isz R R') /\
  (forall veqb, (forall a b, veqb a b = true <-> a = b) ->
     forall A A' T, wf A -> wf A' -> sshape A' = sshape A -> sshape A <> [] -> Permutation (entries A) (entries A') ->
     exists R R', impl_ne_dense_gen v0 isz one veqb (allsubsC (sshape A)) A T = Ok R /\
                  impl_ne_dense_gen v0 isz one veqb (allsubsC (sshape A')) A' T = Ok R' /\ same_result v0 isz R R').
Proof.
  exact (fun one one_nz => conj (indep_ne_gen v0 isz isz_spec one one_nz) (conj (indep_cmp_src v0 isz isz_spec one one_nz)
        (conj (indep_eq_dense_gen v0 isz isz_spec one one_nz) (indep_ne_dense_gen v0 isz isz_spec one one_nz)))).
Qed.
End C06W4.

(* the IEEE instance: integer operands, pyttb's own enumeration of the shape (first mode slowest), NaN for x/0 and 0/0, 0.0 for 0/x *)
Theorem C06_div_sparse_ieee : forall A B : sparse Z, wf_sp zisz A -> wf_sp zisz B -> sshape B = sshape A -> sshape A <> [] ->
  exists R, impl_div_sparse_gen 0%Z xdivz XNaN x0 (allsubsC (sshape A)) A B = Ok R /\ wf_struct R /\ sshape R = sshape A /\
            nnz R = length (allsubsC (sshape A)) /\
            (forall i, In i (ssubs R) <-> inb (sshape A) i = true) /\
            (forall i, inb (sshape A) i = true -> (den_sp x0 R i = x0 <-> In i (ssubs B) /\ ~ In i (ssubs A))) /\
            (wf_sp xisz R <-> forall i, In i (ssubs B) -> In i (ssubs A)).
Proof. exact div_sparse_ieee_c06. Qed.

(* ---- over the WHOLE METHODS generated from pyttb/sptensor.py (Gen/GenSptensor4.v; to_Sp = the generated record read as the shared
        sparse record): whatever sptensor.permute / sptensor.ones return for two stored orders of one tensor is well-formed and the
        same result (same canonical form, entries equal up to order) ---- *)
Theorem C06_gen_permute : forall (self self' t t' : sptz) (order : vec) (order_isbool : bool),
  nonneg_spt self -> nonneg_spt self' -> np_size2 (spt_subs self) <> 0%Z -> np_size2 (spt_subs self') <> 0%Z ->
  wf_sp zisz (to_Sp self) -> wf_sp zisz (to_Sp self') -> sshape (to_Sp self') = sshape (to_Sp self) ->
  Permutation (entries (to_Sp self)) (entries (to_Sp self')) ->
  sptensor_permute self order order_isbool = Ok t -> sptensor_permute self' order order_isbool = Ok t' ->
  same_result 0%Z zisz (to_Sp t) (to_Sp t').
Proof. exact gen_permute_indep. Qed.

(* a boolean order (the dtype tag the translator passes for `order.dtype == bool`, /repo 9c8fdd5) is refused for every receiver *)
Theorem C06_gen_permute_bool_rejected : forall (self : sptz) (order : vec), sptensor_permute self order true = Err.
Proof. exact gen_permute_bool_rejected. Qed.

Theorem C06_gen_ones : forall (self self' t t' : sptz),
  wf_sp zisz (to_Sp self) -> wf_sp zisz (to_Sp self') -> sshape (to_Sp self') = sshape (to_Sp self) ->
  Permutation (entries (to_Sp self)) (entries (to_Sp self')) ->
  sptensor_ones self = Ok t -> sptensor_ones self' = Ok t' ->
  same_result 0%Z zisz (to_Sp t) (to_Sp t').
Proof. exact gen_ones_indep. Qed.

(* the linear-time checker used for the huge correspondence cases (observations handed over sorted by subscript): an observation
   that passes it is a well-formed sparse tensor *)
Theorem C06_sorted_check_sound : forall X : sparse Z, sorted_wfb X = true -> wf_sp zisz X.
Proof. exact sorted_wfb_sound. Qed.

Print Assumptions C06_ops_innerprod_kruskal.
Print Assumptions C06_cont_ttm_chain.
Print Assumptions C06_ops_generated2.
Print Assumptions C06_gen_permute.
Print Assumptions C06_gen_permute_bool_rejected.
Print Assumptions C06_gen_ones.
Print Assumptions C06_sorted_check_sound.
Print Assumptions C06_from_aggregator.
Print Assumptions C06_from_aggregator_indep.
Print Assumptions C06_stm_ctor.
Print Assumptions C06_stm_ctor_indep.
Print Assumptions C06_stm_from_coo.
Print Assumptions C06_stm_from_coo_indep.
Print Assumptions C06_squash_asis.
Print Assumptions C06_squash_asis_indep.
Print Assumptions C06_squash_asis_spec_iff.
Print Assumptions C06_div_sparse_wf_iff.
Print Assumptions C06_div_sparse_indep.
Print Assumptions C06_div_sparse_ieee.

(* non-vacuity *)
Local Open Scope Z_scope.
(* the constructor: triples given unsorted, (1,2) twice, (0,1) cancelling to zero — and the same triples in another order *)
Example C06_ctor_example :
  stm_ctor Z.add zisz (Some [[1; 2]; [0; 1]; [1; 0]; [1; 2]; [0; 1]]%nat) (Some [5; 3; 7; 2; -3]) (Some [0%nat]) (Some [1%nat]) [2; 3]%nat
    = Some (mkSTM [[1; 0]; [1; 2]]%nat [7; 7] [0%nat] [1%nat] [2; 3]%nat) /\
  stm_ctor Z.add zisz (Some [[0; 1]; [1; 2]; [0; 1]; [1; 2]; [1; 0]]%nat) (Some [-3; 2; 3; 5; 7]) (Some [0%nat]) (Some [1%nat]) [2; 3]%nat
    = Some (mkSTM [[1; 0]; [1; 2]]%nat [7; 7] [0%nat] [1%nat] [2; 3]%nat) /\
  from_array_coo Z.add zisz (mkCoo [2; 3]%nat [[1; 2]; [0; 1]; [1; 2]; [0; 0]]%nat [5; 3; -5; 0]) (Some [0%nat]) None [2; 3]%nat
    = Some (mkSTM [[0; 1]]%nat [3] [0%nat] [1%nat] [2; 3]%nat).
Proof. repeat split; reflexivity. Qed.

(* squash: mode 1 repeats the index 1, so pyttb's shape (2, 2) differs from the specified (2, 1); without a repetition they agree *)
Example C06_squash_asis_example :
  squash_asis (mkSp [3; 4]%nat [[0; 1]; [2; 1]]%nat [2; 1]) = mkSp [2; 2]%nat [[0; 0]; [1; 0]]%nat [2; 1] /\
  squash (mkSp [3; 4]%nat [[0; 1]; [2; 1]]%nat [2; 1]) = mkSp [2; 1]%nat [[0; 0]; [1; 0]]%nat [2; 1] /\
  squash_asis (mkSp [3; 4]%nat [[0; 3]; [2; 1]]%nat [2; 1]) = squash (mkSp [3; 4]%nat [[0; 3]; [2; 1]]%nat [2; 1]).
Proof. repeat split; reflexivity. Qed.

(* division: the divisor stores [0;0] and [1;1], the dividend [1;0] and [1;1]: an explicit zero at [0;0]; with the divisor's support
   inside the dividend's the quotient is well-formed (every position stored: NaN fills) *)
Example C06_div_example :
  match impl_div_sparse_gen 0 xdivz XNaN x0 (allsubsC [2; 2]%nat) (mkSp [2; 2]%nat [[1; 0]; [1; 1]]%nat [4; 6])
                            (mkSp [2; 2]%nat [[0; 0]; [1; 1]]%nat [2; 3]) with
  | Ok R => wf_spb xisz R = false /\ nnz R = 4%nat
  | Err => False end /\
  match impl_div_sparse_gen 0 xdivz XNaN x0 (allsubsC [2; 2]%nat) (mkSp [2; 2]%nat [[1; 0]; [1; 1]]%nat [4; 6])
                            (mkSp [2; 2]%nat [[1; 1]]%nat [3]) with
  | Ok R => wf_spb xisz R = true /\ nnz R = 4%nat
  | Err => False end.
Proof. vm_compute. repeat split; reflexivity. Qed.

(* the generated methods on a 2x3 tensor stored in two orders: accepted, and the results agree up to stored order *)
Example C06_gen_example :
  sptensor_permute (mkspt [[1; 2]; [0; 1]; [1; 0]] [9; -7; 5] [2; 3]) [1; 0] false = Ok (mkspt [[2; 1]; [1; 0]; [0; 1]] [9; -7; 5] [3; 2]) /\
  sptensor_permute (mkspt [[1; 0]; [1; 2]; [0; 1]] [5; 9; -7] [2; 3]) [1; 0] false = Ok (mkspt [[0; 1]; [2; 1]; [1; 0]] [5; 9; -7] [3; 2]) /\
  sptensor_ones (mkspt [[1; 2]; [0; 1]; [1; 0]] [9; -7; 5] [2; 3]) = Ok (mkspt [[1; 2]; [0; 1]; [1; 0]] [1; 1; 1] [2; 3]).
Proof. repeat split; reflexivity. Qed.
