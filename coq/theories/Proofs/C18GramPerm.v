(* Proofs/C18GramPerm.v — C18 "relabelling the modes": the GRAM-PERMUTATION identity that discharges the `choose_perm` contract of
   the abstract HOSVD / Tucker-ALS relabelling theorems (Proofs/C18TuckerRel.v) concretely.

   X' = X.permute(p):  shape pick p s,  X'(i') = X(pick (invperm p) i')  (np.transpose, Np/Array.v);  original mode n sits at
   position q n = index_of n p of X'.  Ring-generic, all shapes / orders / permutations / values:

     gram_spec_permute     : the mode-(q n) Gram matrix of X' equals the mode-n Gram matrix of X, entry by entry (a reordered sum)
     gram_dense_permute    : the same for the matrices tensor.nvecs forms (Xn Xn^T on the F-unfolding) on  np_transpose X p  and X
     gram_sparse_permute   : the same for the COO products sptensor.nvecs forms on  sptensor.permute(p)  and on S (any stored order)
     ttm_den_permute       : the mode-(q n) product of X' with M is the relabelled mode-n product of X with M
     choose_perm_concrete  : hence, for ANY function `eig` from the Gram matrix to the matrix applied in that mode (the eigen
                             solver + column selection + U U^T is such a function), the projector step
                                 choose n Y Z = Z x_n eig(Gram_n(Y))
                             satisfies  choose (q n) (perm Y) (perm Z) = perm (choose n Y Z)  on dense holders - the hypothesis
                             `choose_perm` of hosvd_relabel / tucker_als_relabel, with perm = np_transpose . p. *)
From Coq Require Import List Arith Lia Bool Ring Permutation.
From PV Require Import Base.Index Base.Perm Base.Sum Np.Array Model.Sparse Model.Repr Model.C07Ops Model.C10Tucker
                       Model.C14Nvecs Model.C14Gram Proofs.C07Index Proofs.C07Proofs Proofs.C14Sums Proofs.C14Split
                       Proofs.C14GramSp Proofs.C10Ttm Proofs.C10Proj Proofs.C18Tucker.
Import ListNotations.

(* ---------- lists ---------- *)
Lemma upd_insert_at n : forall (i : list nat) (a b : nat), n <= length i -> upd (insert_at n a i) n b = insert_at n b i.
Proof.
  induction n as [|n IH]; intros i a b H.
  - reflexivity.
  - destruct i as [|x i]; cbn in H; [lia|]. rewrite !insert_at_S. cbn [upd]. f_equal. apply IH. lia.
Qed.

Lemma set_nth_upd n : forall (i : list nat) (a : nat), n < length i -> set_nth n a i = upd i n a.
Proof.
  induction n as [|n IH]; intros [|x i] a H; cbn in H; try lia.
  - reflexivity.
  - rewrite set_nth_cons_S. cbn [upd]. f_equal. apply IH. lia.
Qed.

(* relabelling a subscript and replacing the entry of original mode n  =  replacing the entry at position q n and relabelling *)
Lemma pick_invperm_upd p N (i' : list nat) n b : is_perm p N -> length i' = N -> n < N ->
  pick 0 (invperm p) (upd i' (index_of n p) b) = upd (pick 0 (invperm p) i') n b.
Proof.
  intros Hp Hi Hn. pose proof (is_perm_length _ _ Hp) as Hlp.
  assert (Hin : In n p) by (apply (is_perm_In p N n Hp); exact Hn).
  pose proof (index_of_lt n p Hin) as Hlt.
  apply (nth_ext _ _ 0 0).
  - now rewrite upd_length, !pick_length.
  - intros k Hk. rewrite pick_length, invperm_length in Hk.
    assert (Hink : In k p) by (apply (is_perm_In p N k Hp); lia).
    pose proof (index_of_lt k p Hink) as Hltk.
    rewrite nth_pick by (rewrite invperm_length; lia). rewrite nth_invperm by lia.
    rewrite nth_upd by lia.
    rewrite nth_upd by (rewrite pick_length, invperm_length; lia).
    rewrite nth_pick by (rewrite invperm_length; lia). rewrite nth_invperm by lia.
    destruct (Nat.eqb_spec (index_of k p) (index_of n p)) as [E|E]; destruct (Nat.eqb_spec k n) as [E2|E2]; try reflexivity.
    + exfalso. apply E2. rewrite <- (nth_index_of k p Hink), <- (nth_index_of n p Hin). now rewrite E.
    + exfalso. apply E. now rewrite E2.
Qed.

Lemma nth_pick_invperm p N (i' : list nat) n : is_perm p N -> length i' = N -> n < N ->
  nth n (pick 0 (invperm p) i') 0 = nth (index_of n p) i' 0.
Proof.
  intros Hp Hi Hn. pose proof (is_perm_length _ _ Hp) as Hlp.
  rewrite nth_pick by (rewrite invperm_length; lia). now rewrite nth_invperm by lia.
Qed.

Lemma nth_pick_index_of {A} (d : A) p N (l : list A) n : is_perm p N -> n < N ->
  nth (index_of n p) (pick d p l) d = nth n l d.
Proof.
  intros Hp Hn. assert (Hin : In n p) by (apply (is_perm_In p N n Hp); exact Hn).
  rewrite nth_pick by (now apply index_of_lt). now rewrite nth_index_of.
Qed.

Section GramPerm.
Variable V : Type.
Variables (v0 v1 : V) (vadd vmul vsub : V -> V -> V) (vopp : V -> V).
Hypothesis Vring : ring_theory v0 v1 vadd vmul vsub vopp (@eq V).
Add Ring Vr18g : Vring.

Local Notation "x + y" := (vadd x y).
Local Notation "x * y" := (vmul x y).
Local Notation SO := (sum_over v0 vadd).
Local Notation SN := (sum_n v0 vadd).
Local Notation gspec := (gram_spec v0 vadd vmul).

(* the Gram entry as a sum over ALL subscripts with an indicator on mode n *)
Lemma gram_spec_full (s : shape) (X : idx -> V) (n a b : nat) : n < length s -> a < nth n s 0 ->
  gspec s X n a b = SO (allsubs s) (fun j => if Nat.eqb (nth n j 0) a then X j * X (upd j n b) else v0).
Proof.
  intros Hn Ha. unfold gram_spec.
  rewrite <- (sum_allsubs_fix V v0 v1 vadd vmul vsub vopp Vring s n a (fun j => X j * X (upd j n b)) Hn Ha).
  apply sum_over_ext. intros i Hi. apply in_allsubs, inb_length in Hi. rewrite remove_nth_length in Hi by exact Hn.
  rewrite upd_insert_at by lia. reflexivity.
Qed.

(* ---- the identity on denotations ---- *)
Theorem gram_spec_permute (s : shape) (X : idx -> V) (p : list nat) (n a b : nat) :
  is_perm p (length s) -> n < length s -> a < nth n s 0 ->
  gspec (pick 0 p s) (fun i' => X (pick 0 (invperm p) i')) (index_of n p) a b = gspec s X n a b.
Proof.
  intros Hp Hn Ha. pose proof (is_perm_length _ _ Hp) as Hlp.
  assert (Hin : In n p) by (apply (is_perm_In p _ n Hp); exact Hn).
  pose proof (index_of_lt n p Hin) as Hlt.
  rewrite gram_spec_full.
  2: { rewrite pick_length. exact Hlt. }
  2: { rewrite (nth_pick_index_of 0 p (length s) s n Hp Hn). exact Ha. }
  rewrite (gram_spec_full s X n a b Hn Ha).
  rewrite <- (sum_over_perm V v0 v1 vadd vmul vsub vopp Vring _ _ _ (allsubs_pick_perm s p Hp)).
  rewrite (sum_over_map V v0 vadd). apply (sum_over_ext V v0 vadd). intros i' Hi'.
  apply in_allsubs, inb_length in Hi'. rewrite pick_length, Hlp in Hi'.
  rewrite (nth_pick_invperm p (length s) i' n Hp Hi' Hn).
  rewrite (pick_invperm_upd p (length s) i' n b Hp Hi' Hn). reflexivity.
Qed.

(* ---- what tensor.nvecs hands to the eigen solver, on X.permute(p) and on X ---- *)
Theorem gram_dense_permute (X : dense V) (p : list nat) (n a b : nat) :
  is_perm p (length (dshape X)) -> n < length (dshape X) -> a < nth n (dshape X) 0 -> b < nth n (dshape X) 0 ->
  mget v0 (gram_dense_impl v0 vadd vmul (np_transpose v0 X p) (index_of n p)) a b = mget v0 (gram_dense_impl v0 vadd vmul X n) a b.
Proof.
  intros Hp Hn Ha Hb. pose proof (is_perm_length _ _ Hp) as Hlp.
  assert (Hin : In n p) by (apply (is_perm_In p _ n Hp); exact Hn).
  pose proof (index_of_lt n p Hin) as Hlt.
  assert (Hs : dshape (np_transpose v0 X p) = pick 0 p (dshape X)) by reflexivity.
  assert (Hd : nth (index_of n p) (pick 0 p (dshape X)) 0 = nth n (dshape X) 0)
    by (apply (nth_pick_index_of 0 p (length (dshape X))); assumption).
  rewrite (gram_dense V v0 vadd vmul) by (rewrite Hs, Hd; assumption).
  rewrite (gram_dense V v0 vadd vmul) by assumption.
  rewrite Hs. rewrite <- (gram_spec_permute (dshape X) (den_dense v0 X) p n a b Hp Hn Ha).
  unfold gram_spec. apply sum_over_ext. intros i Hi. apply in_allsubs in Hi.
  assert (Hins : forall c, c < nth n (dshape X) 0 ->
            inb (pick 0 p (dshape X)) (insert_at (index_of n p) c i) = true).
  { intros c Hc. apply inb_insert; [rewrite pick_length; exact Hlt|rewrite Hd; exact Hc|exact Hi]. }
  unfold np_transpose. rewrite !den_tabulate by (apply Hins; assumption). reflexivity.
Qed.

(* ---- what sptensor.nvecs hands to the eigen solver, on S.permute(p) and on S (any stored order) ---- *)
Variable isz : V -> bool.

Theorem gram_sparse_permute (S R : sparse V) (p : list nat) (n a b : nat) :
  wf_sp isz S -> is_perm p (length (sshape S)) -> permute_sp S p = Some R ->
  n < length (sshape S) -> a < nth n (sshape S) 0 -> b < nth n (sshape S) 0 ->
  mget v0 (gram_sp_impl v0 vadd vmul R (index_of n p)) a b = mget v0 (gram_sp_impl v0 vadd vmul S n) a b.
Proof.
  intros W Hp HR Hn Ha Hb. pose proof (is_perm_length _ _ Hp) as Hlp.
  assert (Hin : In n p) by (apply (is_perm_In p _ n Hp); exact Hn).
  pose proof (index_of_lt n p Hin) as Hlt.
  assert (HL : Forall (fun j => length j = length (sshape S)) (ssubs S)).
  { destruct W as (_ & _ & Hbnd & _). rewrite Forall_forall in *. intros j Hj. apply inb_length. now apply Hbnd. }
  destruct (permute_sparse_correct v0 isz S p Hp HL) as (R' & E & Hs & _ & _ & Hden & Hwf & _).
  rewrite HR in E. injection E as <-.
  assert (Hd : nth (index_of n p) (pick 0 p (sshape S)) 0 = nth n (sshape S) 0)
    by (apply (nth_pick_index_of 0 p (length (sshape S))); assumption).
  rewrite (gram_sparse V v0 v1 vadd vmul vsub vopp Vring isz R) ; [|now apply Hwf|rewrite Hs, pick_length; exact Hlt
                                                                  |rewrite Hs, Hd; exact Ha|rewrite Hs, Hd; exact Hb].
  rewrite (gram_sparse V v0 v1 vadd vmul vsub vopp Vring isz S n a b W Hn Ha Hb).
  rewrite Hs. rewrite <- (gram_spec_permute (sshape S) (den_sp v0 S) p n a b Hp Hn Ha).
  unfold gram_spec. apply sum_over_ext. intros i Hi. apply in_allsubs, inb_length in Hi.
  rewrite remove_nth_length in Hi by (rewrite pick_length; exact Hlt). rewrite pick_length in Hi.
  rewrite !Hden by (rewrite length_insert_at; lia). reflexivity.
Qed.

(* ---- mode-n products commute with relabelling ---- *)
Local Notation ttmd := (ttm_den v0 vadd vmul).

Theorem ttm_den_permute (N : nat) (X : idx -> V) (p : list nat) (d n : nat) (M : list (list V)) (i' : idx) :
  is_perm p N -> n < N -> length i' = N ->
  ttmd (fun j' => X (pick 0 (invperm p) j')) d (index_of n p) M i' = ttmd X d n M (pick 0 (invperm p) i').
Proof.
  intros Hp Hn Hi. pose proof (is_perm_length _ _ Hp) as Hlp.
  assert (Hin : In n p) by (apply (is_perm_In p _ n Hp); exact Hn).
  pose proof (index_of_lt n p Hin) as Hlt.
  unfold ttm_den. apply sum_n_ext. intros a _.
  rewrite (nth_pick_invperm p N i' n Hp Hi Hn).
  rewrite set_nth_upd by lia.
  rewrite set_nth_upd by (rewrite pick_length, invperm_length; lia).
  rewrite (pick_invperm_upd p N i' n a Hp Hi Hn). reflexivity.
Qed.

(* ---- the projector step of hosvd / tucker_als on dense holders of shape s, for ANY map from the Gram matrix to the matrix
        applied in that mode (eigen-decomposition, column selection by the rank rule, U U^T): relabelling-equivariant ---- *)
Definition choose_c (s : shape) (eig : nat -> list (list V) -> list (list V)) (n : nat) (Y Z : dense V) : dense V :=
  mproj V v0 vadd vmul s n (eig n (gram_matrix v0 vadd vmul s (den_dense v0 Y) n)) Z.

Lemma gram_matrix_permute (s : shape) (Y : dense V) (p : list nat) (n : nat) :
  dshape Y = s -> is_perm p (length s) -> n < length s ->
  gram_matrix v0 vadd vmul (pick 0 p s) (den_dense v0 (np_transpose v0 Y p)) (index_of n p)
  = gram_matrix v0 vadd vmul s (den_dense v0 Y) n.
Proof.
  intros HY Hp Hn. pose proof (is_perm_length _ _ Hp) as Hlp.
  assert (Hin : In n p) by (apply (is_perm_In p _ n Hp); exact Hn).
  pose proof (index_of_lt n p Hin) as Hlt.
  unfold gram_matrix. rewrite (nth_pick_index_of 0 p (length s) s n Hp Hn).
  unfold mtab. apply map_ext_in. intros a Ha. apply in_seq in Ha. apply map_ext_in. intros b Hb. apply in_seq in Hb.
  rewrite <- (gram_spec_permute s (den_dense v0 Y) p n a b Hp Hn) by lia.
  unfold gram_spec. apply sum_over_ext. intros i Hi. apply in_allsubs, inb_length in Hi.
  rewrite remove_nth_length in Hi by (rewrite pick_length; exact Hlt). rewrite pick_length in Hi.
  rewrite !(den_transpose v0) by (rewrite ?HY, ?length_insert_at; auto; lia). reflexivity.
Qed.

Theorem choose_perm_concrete (s : shape) (eig eig' : nat -> list (list V) -> list (list V)) (p : list nat) (n : nat) (Y Z : dense V) :
  dshape Y = s -> dshape Z = s -> is_perm p (length s) -> n < length s ->
  eig' (index_of n p) = eig n ->
  choose_c (pick 0 p s) eig' (index_of n p) (np_transpose v0 Y p) (np_transpose v0 Z p)
  = np_transpose v0 (choose_c s eig n Y Z) p.
Proof.
  intros HY HZ Hp Hn He. pose proof (is_perm_length _ _ Hp) as Hlp.
  unfold choose_c. rewrite (gram_matrix_permute s Y p n HY Hp Hn), He.
  set (M := eig n (gram_matrix v0 vadd vmul s (den_dense v0 Y) n)).
  unfold mproj at 1. unfold np_transpose at 2.
  change (dshape (mproj V v0 vadd vmul s n M Z)) with s.
  apply tabulate_ext. intros i' Hi'. pose proof (inb_length _ _ Hi') as HL. rewrite pick_length in HL.
  rewrite (den_mproj V v0 vadd vmul) by (rewrite <- inb_pick_inv by (auto; lia); exact Hi').
  rewrite (nth_pick_index_of 0 p (length s) s n Hp Hn).
  rewrite <- (ttm_den_permute (length s) (den_dense v0 Z) p (nth n s 0) n M i' Hp Hn) by lia.
  assert (Hin : In n p) by (apply (is_perm_In p _ n Hp); exact Hn).
  pose proof (index_of_lt n p Hin) as Hlt.
  unfold ttm_den. apply sum_n_ext. intros a _. f_equal.
  apply (den_transpose v0); rewrite HZ; [exact Hp|]. rewrite length_set_nth by lia. lia.
Qed.

(* ---- HOSVD on dense holders, the eigen solver being ANY function of (mode parameter, Gram matrix): the whole mode loop of the
        relabelled run (data np_transpose X p, mode order map q dimorder, per-mode parameters moved along: eig' (q n) = eig n)
        returns the relabelled projected tensor - the abstract hosvd_relabel with its choose_perm contract DISCHARGED ---- *)
Lemma choose_c_shape s eig n Y Z : dshape (choose_c s eig n Y Z) = s.
Proof. reflexivity. Qed.

Theorem hosvd_relabel_dense (s : shape) (eig eig' : nat -> list (list V) -> list (list V)) (p : list nat)
    (sequential : bool) (modes : list nat) (X : dense V) :
  dshape X = s -> is_perm p (length s) -> Forall (fun n => n < length s) modes ->
  (forall n, In n modes -> eig' (index_of n p) = eig n) ->
  snd (hosvd (dense V) (choose_c (pick 0 p s) eig') sequential (map (fun n => index_of n p) modes) (np_transpose v0 X p))
  = np_transpose v0 (snd (hosvd (dense V) (choose_c s eig) sequential modes X)) p.
Proof.
  intros HX Hp Hm He. destruct sequential; unfold hosvd, hosvd_nonseq.
  - revert X HX. induction modes as [|n ms IH]; intros X HX; cbn [map hosvd_seq snd]; [reflexivity|].
    inversion Hm as [|? ? Hn Hms]; subst.
    rewrite (choose_perm_concrete (dshape X) eig eig' p n X X eq_refl eq_refl Hp Hn (He n (or_introl eq_refl))).
    apply IH; auto. intros k Hk. apply He. now right.
  - assert (G : forall Y, dshape Y = s ->
      snd (hosvd_nonseq_from (dense V) (choose_c (pick 0 p s) eig') (np_transpose v0 X p) (map (fun n => index_of n p) modes)
             (np_transpose v0 Y p))
      = np_transpose v0 (snd (hosvd_nonseq_from (dense V) (choose_c s eig) X modes Y)) p).
    { induction modes as [|n ms IH]; intros Y HY; cbn [map hosvd_nonseq_from snd]; [reflexivity|].
      inversion Hm as [|? ? Hn Hms]; subst.
      rewrite (choose_perm_concrete (dshape X) eig eig' p n X Y eq_refl HY Hp Hn (He n (or_introl eq_refl))).
      apply IH; auto. intros k Hk. apply He. now right. }
    apply G. exact HX.
Qed.
End GramPerm.

(* ---------- non-vacuity: a 2 x 3 x 2 integer array, p = [2;0;1], mode 1 (which sits at position 2 of the relabelled array) ---------- *)
From Coq Require Import ZArith.
Example gram_permute_example :
  let X := mkDense [2; 3; 2] [1; 2; 3; 4; 5; 6; 7; 8; 9; 10; 11; 13]%Z in
  let p := [2; 0; 1] in
  index_of 1 p = 2 /\
  gram_dense_impl 0%Z Z.add Z.mul (np_transpose 0%Z X p) 2 = gram_dense_impl 0%Z Z.add Z.mul X 1 /\
  gram_dense_impl 0%Z Z.add Z.mul X 1 = [[118; 154; 198]; [154; 206; 268]; [198; 268; 351]]%Z /\
  gram_dense_impl 0%Z Z.add Z.mul X 0 <> gram_dense_impl 0%Z Z.add Z.mul X 2.
Proof. cbv zeta. repeat split; try (vm_compute; reflexivity). vm_compute. discriminate. Qed.
