(* Proofs/C09NormalRun.v — the normal form of the model RETURNED by the cp_als loop model (Model/C09Loop.v) when its abstract
   `arrange` / `fixsigns` are the executable Kruskal operations of Model/C08Kruskal.v (k_arrange None, k_fixsigns):
   for every iteration limit (0 included), printing interval, tolerance and start, the returned ktensor has non-negative weights in
   descending order, the rank and shape of the last iterate, and — without sign fixing — unit-or-zero 2-norm columns
   (with sign fixing the columns are multiplied by +-1: C08_invariant_fixsigns; the weights are untouched). *)
From Coq Require Import List Arith Lia Bool Ring.
From PV Require Import Base.Index Base.Perm Base.Sum Np.Array Model.Sparse Model.Repr Model.C08Kruskal Model.C09Loop
  Proofs.C08Proofs Proofs.C09NormalForm Proofs.C09LoopProofs.
Import ListNotations.
Local Open Scope nat_scope.

Section NormalRun.
Variable V : Type.
Variables (v0 v1 : V) (vadd vmul vsub : V -> V -> V) (vopp vinv : V -> V).
Hypothesis Vring : ring_theory v0 v1 vadd vmul vsub vopp (@eq V).
Variables (nrm : list V -> V) (pos neg : V -> bool) (root : V -> V) (srt : list V -> list nat) (negcol : list V -> bool).
Variable vle : V -> V -> Prop.
Hypothesis vinv_r : forall x, x <> v0 -> vmul x (vinv x) = v1.
Hypothesis pos_nz : forall x, pos x = true -> x <> v0.
Hypothesis nrm_pos : forall l, pos (nrm l) = false -> Forall (fun y => y = v0) l.
Hypothesis nrm_spec : forall l, vmul (nrm l) (nrm l) = dot v0 vadd vmul l l.
Hypothesis neg_opp : forall x, neg x = true -> neg (vopp x) = false.
Hypothesis srt_perm : forall l, is_perm (srt l) (length l).
Hypothesis srt_desc : forall l r, S r < length l -> vle (nth (nth (S r) (srt l) 0) l v0) (nth (nth r (srt l) 0) l v0).

Variables (F : Type) (sweep : nat -> ktensor V -> ktensor V) (fit_mttkrp fit_innerprod : ktensor V -> F * F)
          (fchange_lt : F -> F -> F -> bool) (fit0 : F).
Local Notation arr := (k_arrange v0 v1 vmul vopp vinv nrm pos neg root srt None).
Local Notation fixs := (k_fixsigns v0 v1 vmul vopp negcol).
Local Notation RUN := (cpals_run sweep fit_mttkrp fit_innerprod fchange_lt fit0 arr fixs).

Lemma fixsigns_weights K : kweights (fixs K) = kweights K.
Proof. reflexivity. Qed.

Theorem run_normal_form tol p s0 m dofix (r : result (ktensor V) F) :
  RUN tol p s0 m dofix = Some r ->
  let last := iter_sweep sweep (length (r_trace r)) s0 in       (* the iterate that is arranged: state after the executed sweeps *)
  kfactors last <> [] ->
  (forall q, q < krank last -> neg (nth q (kweights (r_state r)) v0) = false) /\
  (forall q, S q < krank last -> vle (nth (S q) (kweights (r_state r)) v0) (nth q (kweights (r_state r)) v0)) /\
  (dofix = false ->
     (krank (r_state r) = krank last /\ kshape (r_state r) = kshape last) /\
     forall n q, n < length (kfactors last) -> q < krank last ->
       let c := col v0 (nth n (kfactors (r_state r)) []) q in dot v0 vadd vmul c c = v1 \/ Forall (fun y => y = v0) c).
Proof.
  intros H last Hne.
  destruct (@cpals_state_all _ _ sweep fit_mttkrp fit_innerprod fchange_lt fit0 arr fixs tol p s0 m dofix r H) as (Hs & _). fold last in Hs.
  destruct (normal_form_arrange_nowf V v0 v1 vadd vmul vsub vopp vinv Vring nrm pos neg root srt vle
              vinv_r pos_nz nrm_pos nrm_spec neg_opp srt_perm srt_desc last Hne) as (Hrs & Hu & Hn & Hd).
  assert (Hw : kweights (r_state r) = kweights (arr last)).
  { rewrite Hs. unfold cpals_finish. destruct dofix; [apply fixsigns_weights|reflexivity]. }
  rewrite Hw. split; [exact Hn|]. split; [exact Hd|].
  intros ->. unfold cpals_finish, id in Hs. rewrite Hs. split; [exact Hrs|exact Hu].
Qed.

End NormalRun.

Print Assumptions run_normal_form.
