(* Proofs/C09W4.v — wave 4:
   (a) the proof scripts that stood inside Props/C09.v (scaling independence, shape of the random start, dense / sparse instances of the
       code-level normal equations) so that Props/C09.v is `exact`-only;
   (b) the Tucker holder: ttensor.mttkrp (Model/C02Tucker.v impl_mttkrp_t: W_i = U_i^T V_i, core.mttkrp(W, n) through the proved
       tensor.mttkrp, U_n Y) as the sweep's `mk`, tied to the MTTKRP of the Tucker tensor's denotation by C02's theorem
       impl_mttkrp_t_correct (= C02_mttkrp_tucker), and the code-level normal equations over it. *)
From Coq Require Import List Arith Lia Bool Ring.
From PV Require Import Base.Index Base.Sum Np.Array Model.Sparse Model.Repr Model.C02Spec Model.C02Dense Model.C02Kruskal
  Model.C02SpKernels Model.C02Tucker Model.C09Als Model.C09Init.
From PV Require Import Proofs.C02DenseProofs Proofs.C02TuckerMttkrpProofs Proofs.C09Identity Proofs.C09Monotone Proofs.C09Scaling
  Proofs.C09Holders Proofs.C09InitProofs.
Import ListNotations.

Section W4.
Variable V : Type.
Variables (v0 v1 : V) (vadd vmul vsub : V -> V -> V) (vopp : V -> V).
Hypothesis Vring : ring_theory v0 v1 vadd vmul vsub vopp (@eq V).
Local Notation mx := (@matrix V).

(* ---------------------------------------------------------------- (a) scripts moved out of Props/C09.v *)
Theorem scaling_indep (R : nat) (X : idx -> V) (mk : list mx -> nat -> mx)
    (solve : mx -> mx -> mx) (scale1 scale2 : nat -> mx -> list V * mx)
    (s : shape) (dims : list nat) (st1 st2 : als_state V) (k : nat) :
  st_wf V R s st1 -> st_wf V R s st2 -> st_U st1 = st_U st2 -> dims <> [] ->
  iter_hyps V v0 v1 vadd vmul R X X mk mk solve solve scale1 scale2 s (S k) dims st1 st2 ->
  forall i, inb s i = true ->
    st_den V v0 v1 vadd vmul (als_iter v0 v1 vadd vmul mk solve scale2 R (S k) dims st2) i
    = st_den V v0 v1 vadd vmul (als_iter v0 v1 vadd vmul mk solve scale1 R (S k) dims st1) i.
Proof.
  intros W1 W2 E Hne Hh i Hi.
  assert (K1 : vmul v1 v1 = v1) by (apply (Rmul_1_l Vring)).
  pose proof (proj2 (iter_equiv V v0 v1 vadd vmul vsub vopp Vring R X X v1 v1 K1 mk mk solve solve scale1 scale2 s dims st1 st2 k
                (related_same_factors V v0 v1 vadd vmul vsub vopp Vring R s st1 st2 W1 W2 E)
                (fun i _ => eq_sym (Rmul_1_l Vring (X i))) Hne Hh) i Hi) as H.
  rewrite H. apply (Rmul_1_l Vring).
Qed.

Theorem init_random_shape_rows (R : nat) (s : shape) (stream : list V) : list_sum s * R <= length stream ->
  (krank (init_random v1 s R stream) = R /\ kshape (init_random v1 s R stream) = s /\ kweights (init_random v1 s R stream) = repeat v1 R) /\
  Forall (fun A => Forall (fun row => length row = R) A) (kfactors (init_random v1 s R stream)).
Proof. intros H. split; [exact (init_random_shape V v1 R s stream H)|exact (proj2 (draw_shape V R s stream H))]. Qed.

Theorem normal_eq_dense (R : nat) (solve : mx -> mx -> mx) (scale : nat -> mx -> list V * mx)
    (X : dense V) : wf_dense X -> 2 <= length (dshape X) ->
  let mk := mk_dense V v0 vadd vmul R X in
  forall it st n, st_wf V R (dshape X) st ->
  update_code_contract V v0 v1 vadd vmul R solve scale (dshape X) mk (good_dense V R) it st n ->
  normal_eq v0 v1 vadd vmul (dshape X) (den_dense v0 X) n (st_U (als_update v0 v1 vadd vmul mk solve scale R it st n)) R
    (fun j r => vmul (nth r (st_w (als_update v0 v1 vadd vmul mk solve scale R it st n)) v0)
                     (mget v0 (nth n (st_U (als_update v0 v1 vadd vmul mk solve scale R it st n)) []) j r)).
Proof.
  intros W HN. exact (code_normal_eq V v0 v1 vadd vmul R solve scale (dshape X) (den_dense v0 X) _ _
    (holder_dense V v0 v1 vadd vmul vsub vopp Vring R X W HN)).
Qed.

Theorem normal_eq_sparse (isz : V -> bool) (R : nat) (solve : mx -> mx -> mx) (scale : nat -> mx -> list V * mx)
    (S : sparse V) : wf_sp isz S ->
  let mk := mk_sparse V v0 v1 vadd vmul R S in
  forall it st n, st_wf V R (sshape S) st ->
  update_code_contract V v0 v1 vadd vmul R solve scale (sshape S) mk (good_any V) it st n ->
  normal_eq v0 v1 vadd vmul (sshape S) (den_sp v0 S) n (st_U (als_update v0 v1 vadd vmul mk solve scale R it st n)) R
    (fun j r => vmul (nth r (st_w (als_update v0 v1 vadd vmul mk solve scale R it st n)) v0)
                     (mget v0 (nth n (st_U (als_update v0 v1 vadd vmul mk solve scale R it st n)) []) j r)).
Proof.
  intros W. exact (code_normal_eq V v0 v1 vadd vmul R solve scale (sshape S) (den_sp v0 S) _ _
    (holder_sparse V v0 v1 vadd vmul vsub vopp Vring R isz S W)).
Qed.

(* ---------------------------------------------------------------- (b) the Tucker holder *)
Definition mk_tucker (R : nat) (T : ttensor V) (U : list mx) (n : nat) : mx :=
  tabmx (nth n (tshape T) 0) R (impl_mttkrp_t v0 vadd vmul T U n R).

Theorem holder_tucker (R : nat) (T : ttensor V) :
  wf_dense (tcore T) -> 2 <= length (tfactors T) -> length (dshape (tcore T)) = length (tfactors T) ->
  holder_ok V v0 v1 vadd vmul R (tshape T) (den_t v0 v1 vadd vmul T) (mk_tucker R T) (good_any V).
Proof.
  intros W H2 HC U n HU Hn _. unfold mk_tucker, mttkrp_mat. apply (tabmx_ext V). intros j r Hj Hr.
  assert (HL : length U = length (tshape T)) by (rewrite <- HU; now rewrite map_length).
  assert (HT : length (tshape T) = length (tfactors T)) by (unfold tshape; now rewrite map_length).
  rewrite (impl_mttkrp_t_correct V v0 v1 vadd vmul vsub vopp Vring T U n R j r W H2 HC) by lia.
  apply (spec_mttkrp_den V v0 v1 vadd vmul vsub vopp Vring); auto.
Qed.

Theorem normal_eq_tucker (R : nat) (solve : mx -> mx -> mx) (scale : nat -> mx -> list V * mx) (T : ttensor V) :
  wf_dense (tcore T) -> 2 <= length (tfactors T) -> length (dshape (tcore T)) = length (tfactors T) ->
  let mk := mk_tucker R T in
  forall it st n, st_wf V R (tshape T) st ->
  update_code_contract V v0 v1 vadd vmul R solve scale (tshape T) mk (good_any V) it st n ->
  normal_eq v0 v1 vadd vmul (tshape T) (den_t v0 v1 vadd vmul T) n (st_U (als_update v0 v1 vadd vmul mk solve scale R it st n)) R
    (fun j r => vmul (nth r (st_w (als_update v0 v1 vadd vmul mk solve scale R it st n)) v0)
                     (mget v0 (nth n (st_U (als_update v0 v1 vadd vmul mk solve scale R it st n)) []) j r)).
Proof.
  intros W H2 HC. exact (code_normal_eq V v0 v1 vadd vmul R solve scale (tshape T) (den_t v0 v1 vadd vmul T) _ _
    (holder_tucker R T W H2 HC)).
Qed.

End W4.
