(* Proofs/C09Inner.v — wave 5: the inner product and the norm of every data holder AS cp_als CALLS THEM
     normX = input_tensor.norm()                                   (cp_als.py: set-up)
     normresidual = sqrt(normX^2 + M.norm()^2 - 2 * input_tensor.innerprod(M))   (printing branch after the loop, maxiters = 0)
   over the PROVED kernels of C02:
     tensor / sptensor / ttensor .innerprod(ktensor)  ->  ktensor.innerprod(holder) = sum_r w_r * holder.ttv([A_1[:, r], ..., A_N[:, r]])
       with the holder's own ttv over all modes (impl_ttv_dense: permute / reshape / matrix-vector; impl_ttv_sp: gather / scale / sum of
       the stored entries; impl_ttv_t: core.ttv(U_n^T v_n)),
     sumtensor.innerprod(M) = sum over the parts of part.innerprod(M)  (a Kruskal part uses the Gram / Hadamard form impl_innerprod_kk),
     tensor.norm()^2 = x . x on the ravel, sptensor.norm()^2 = sum of squares of the stored values, ttensor.norm()^2 (both sides of its
     size switch),
   bridged to the quantities the C09 theorems speak about (innerprod_den / normsq_den / resid_den of the denotation).  The square
   root stays an oracle (the statements are about the squares).  End result: residual_by_innerprod — the value under the square root
   in the printing / maxiters = 0 branch IS ||X - M||^2 for every holder class, and it equals the value the loop computes from the
   saved MTTKRP (both_branches_agree). *)
From Coq Require Import List Arith Lia Bool Ring.
From PV Require Import Base.Index Base.Perm Base.Sum Np.Array Model.Sparse Model.Repr Model.C02Spec Model.C02Dense Model.C02Sparse
  Model.C02SpMore Model.C02Kruskal Model.C02Tucker Model.C02TuckerFull Model.C09Als.
From PV Require Import Proofs.C02DenseProofs Proofs.C02SparseProofs Proofs.C02KruskalProofs Proofs.C02IndicatorProofs
  Proofs.C02TuckerTtvProofs Proofs.C02TuckerFullProofs Proofs.C02KruskalAnyProofs Proofs.C02AbsorbProofs
  Proofs.C09Identity Proofs.C09Norm.
Import ListNotations.

Section Inner.
Variable V : Type.
Variables (v0 v1 : V) (vadd vmul vsub : V -> V -> V) (vopp : V -> V).
Hypothesis Vring : ring_theory v0 v1 vadd vmul vsub vopp (@eq V).
Add Ring Vr9i : Vring.

Local Notation mx := (@matrix V).
Local Notation "x + y" := (vadd x y).
Local Notation "x * y" := (vmul x y).
Local Notation "x - y" := (vsub x y).
Local Notation SUM := (sum_over v0 vadd).
Local Notation SUMN := (sum_n v0 vadd).
Local Notation denk := (den_k v0 v1 vadd vmul).
Local Notation ipd := (innerprod_den v0 vadd vmul).
Local Notation nsq := (normsq_den v0 vadd vmul).
Local Notation cols := (kcols V v0).

(* C02's spec and C09's denotation-level quantities are the same sums *)
Lemma spec_innerprod_den (f g : idx -> V) s : spec_innerprod v0 vadd vmul f g s = ipd s f g.
Proof. reflexivity. Qed.
Lemma spec_normsq_den (f : idx -> V) s : spec_normsq v0 vadd vmul f s = nsq s f.
Proof. reflexivity. Qed.

(* ---------------------------------------------------------------- ktensor.innerprod(holder): the loop over the components *)
(* ttv_all vs = holder.ttv(vs) over ALL modes (a number) *)
Definition iprod_k (ttv_all : list (list V) -> V) (K : ktensor V) : V :=
  SUMN (krank K) (fun r => nth r (kweights K) v0 * ttv_all (cols (kfactors K) r)).

(* the holder's all-modes ttv is tied to the array X it denotes *)
Definition ttvall_ok (s : shape) (X : idx -> V) (ttv_all : list (list V) -> V) : Prop :=
  forall vs, length vs = length s -> ttv_all vs = spec_ttv v0 vadd vmul X s (seq 0 (length s)) vs [].

Lemma cols_length (As : list mx) r : length (cols As r) = length As.
Proof. unfold kcols. now rewrite map_length. Qed.

Theorem iprod_k_holder (s : shape) (X : idx -> V) (ttv_all : list (list V) -> V) (K : ktensor V) :
  kshape K = s -> ttvall_ok s X ttv_all -> iprod_k ttv_all K = ipd s X (denk K).
Proof.
  intros Hs Hok. subst s. rewrite <- spec_innerprod_den.
  rewrite <- (innerprod_k_any V v0 v1 vadd vmul vsub vopp Vring K X).
  unfold iprod_k. apply sum_n_ext. intros r _. f_equal.
  rewrite (Hok (cols (kfactors K) r)) by (now rewrite cols_length, kshape_length).
  now rewrite kshape_length.
Qed.

(* ---------------------------------------------------------------- the holders' own all-modes ttv *)
Lemma seq_lt N x : In x (seq 0 N) -> x < N.
Proof. intros H. apply in_seq in H. lia. Qed.

Lemma is_perm_seq N : is_perm (compl N (seq 0 N) ++ seq 0 N) N.
Proof.
  rewrite compl_all. cbn [app]. unfold is_perm. apply Permutation.Permutation_refl.
Qed.

Definition ttvall_dense (X : dense V) (vs : list (list V)) : V :=
  den_dense v0 (impl_ttv_dense v0 vadd vmul X (seq 0 (length (dshape X))) vs) [].
Definition ttvall_sparse (S : sparse V) (vs : list (list V)) : V :=
  impl_ttv_sp v0 v1 vadd vmul S (seq 0 (length (sshape S))) vs [].
Definition ttvall_tucker (T : ttensor V) (vs : list (list V)) : V :=
  den_t v0 v1 vadd vmul (impl_ttv_t v0 vadd vmul T (seq 0 (length (tfactors T))) vs) [].

Lemma ttv_shape_all s : ttv_shape s (seq 0 (length s)) = [].
Proof. unfold ttv_shape. now rewrite compl_all. Qed.

Theorem ttvall_dense_ok (X : dense V) : wf_dense X -> ttvall_ok (dshape X) (den_dense v0 X) (ttvall_dense X).
Proof.
  intros W vs Hvs. unfold ttvall_dense.
  destruct (impl_ttv_dense_correct V v0 vadd vmul X (seq 0 (length (dshape X))) vs W) as (_ & _ & D).
  - now rewrite seq_length.
  - apply is_perm_seq.
  - apply D. now rewrite ttv_shape_all.
Qed.

Variable isz : V -> bool.

Theorem ttvall_sparse_ok (S : sparse V) : wf_sp isz S -> ttvall_ok (sshape S) (den_sp v0 S) (ttvall_sparse S).
Proof.
  intros W vs Hvs. unfold ttvall_sparse.
  apply (impl_ttv_sp_correct V v0 v1 vadd vmul vsub vopp Vring isz S (seq 0 (length (sshape S))) vs [] W).
  - apply seq_NoDup.
  - intros x. apply seq_lt.
  - now rewrite seq_length.
  - now rewrite ttv_shape_all.
Qed.

Lemma tshape_length (T : ttensor V) : length (tshape T) = length (tfactors T).
Proof. unfold tshape. now rewrite map_length. Qed.

Theorem ttvall_tucker_ok (T : ttensor V) : wf_dense (tcore T) -> length (dshape (tcore T)) = length (tfactors T) ->
  ttvall_ok (tshape T) (den_t v0 v1 vadd vmul T) (ttvall_tucker T).
Proof.
  intros W HL vs Hvs. unfold ttvall_tucker. rewrite tshape_length in *.
  apply (impl_ttv_t_correct V v0 v1 vadd vmul vsub vopp Vring T (seq 0 (length (tfactors T))) vs [] W HL).
  - apply seq_NoDup.
  - intros x. apply seq_lt.
  - now rewrite seq_length.
  - rewrite <- tshape_length. now rewrite ttv_shape_all.
Qed.

(* ---------------------------------------------------------------- X.innerprod(M) for each holder class *)
Theorem innerprod_dense_k (X : dense V) (K : ktensor V) : wf_dense X -> kshape K = dshape X ->
  iprod_k (ttvall_dense X) K = ipd (dshape X) (den_dense v0 X) (denk K).
Proof. intros W Hs. apply iprod_k_holder; auto. now apply ttvall_dense_ok. Qed.

Theorem innerprod_sparse_k (S : sparse V) (K : ktensor V) : wf_sp isz S -> kshape K = sshape S ->
  iprod_k (ttvall_sparse S) K = ipd (sshape S) (den_sp v0 S) (denk K).
Proof. intros W Hs. apply iprod_k_holder; auto. now apply ttvall_sparse_ok. Qed.

Theorem innerprod_tucker_k (T : ttensor V) (K : ktensor V) :
  wf_dense (tcore T) -> length (dshape (tcore T)) = length (tfactors T) -> kshape K = tshape T ->
  iprod_k (ttvall_tucker T) K = ipd (tshape T) (den_t v0 v1 vadd vmul T) (denk K).
Proof. intros W HL Hs. apply iprod_k_holder; auto. now apply ttvall_tucker_ok. Qed.

(* a Kruskal part of a sum tensor: ktensor.innerprod(ktensor), Gram / Hadamard form *)
Theorem innerprod_kruskal_k (L K : ktensor V) : kshape K = kshape L ->
  impl_innerprod_kk v0 vadd vmul L K = ipd (kshape L) (denk L) (denk K).
Proof.
  intros Hs. rewrite <- spec_innerprod_den.
  apply (impl_innerprod_kk_correct V v0 v1 vadd vmul vsub vopp Vring L K). now symmetry.
Qed.

(* sumtensor.innerprod(M): result = parts[0].innerprod(M); for part in parts[1:]: result += part.innerprod(M).
   parts = (denotation of the part, value its own innerprod returned), each tied *)
Theorem innerprod_sum (s : shape) (M : idx -> V) (parts : list ((idx -> V) * V)) :
  Forall (fun p => snd p = ipd s (fst p) M) parts ->
  SUM parts (fun p => snd p) = ipd s (den_sum v0 vadd (map fst parts)) M.
Proof.
  intros HP. rewrite <- spec_innerprod_den.
  change (den_sum v0 vadd (map fst parts)) with (den_parts v0 vadd (map fst parts)).
  rewrite (spec_innerprod_sum V v0 v1 vadd vmul vsub vopp Vring).
  unfold sum_over. rewrite !map_map. f_equal. apply map_ext_in. intros p Hp.
  rewrite Forall_forall in HP. now rewrite (HP p Hp).
Qed.

(* ---------------------------------------------------------------- X.norm()^2 for each holder class (normX of the set-up) *)
Theorem normsq_dense_holder (X : dense V) : wf_dense X ->
  impl_normsq_dense v0 vadd vmul X = nsq (dshape X) (den_dense v0 X).
Proof. intros W. rewrite <- spec_normsq_den. now apply impl_normsq_dense_correct. Qed.

Theorem normsq_sparse_holder (S : sparse V) : wf_sp isz S ->
  impl_normsq_sp v0 vadd vmul S = nsq (sshape S) (den_sp v0 S).
Proof. intros W. rewrite <- spec_normsq_den. now apply (impl_normsq_sp_correct V v0 v1 vadd vmul vsub vopp Vring isz). Qed.

Theorem normsq_tucker_holder (T : ttensor V) : wf_dense (tcore T) -> length (dshape (tcore T)) = length (tfactors T) ->
  impl_normsq_t v0 vadd vmul T = nsq (tshape T) (den_t v0 v1 vadd vmul T).
Proof. intros W HL. rewrite <- spec_normsq_den. now apply (impl_normsq_t_correct V v0 v1 vadd vmul vsub vopp Vring). Qed.

(* ---------------------------------------------------------------- the value under the square root, printing / maxiters = 0 branch *)
(* normX2 = X.norm()^2 and ip = X.innerprod(M) as returned by ANY tied holder; M.norm()^2 in the code's own Gram / Hadamard form *)
Theorem residual_by_innerprod (s : shape) (X : idx -> V) (K : ktensor V) (normX2 ip : V) :
  kshape K = s -> normX2 = nsq s X -> ip = ipd s X (denk K) ->
  normX2 + knormsq_code V v0 vadd vmul K - (ip + ip) = resid_den v0 vadd vmul vsub s X (denk K).
Proof.
  intros Hs HN HI. rewrite (resid_expand V v0 v1 vadd vmul vsub vopp Vring).
  rewrite <- (knorm_gram V v0 v1 vadd vmul vsub vopp Vring K). now rewrite Hs, HN, HI.
Qed.

(* sum-tensor data (norm reported as 0): ||M||^2 - 2 <X,M> *)
Theorem residual_by_innerprod_sum (s : shape) (X : idx -> V) (K : ktensor V) (ip : V) :
  kshape K = s -> ip = ipd s X (denk K) ->
  knormsq_code V v0 vadd vmul K - (ip + ip) = nsq s (denk K) - (ipd s X (denk K) + ipd s X (denk K)).
Proof.
  intros Hs HI. rewrite <- (knorm_gram V v0 v1 vadd vmul vsub vopp Vring K). now rewrite Hs, HI.
Qed.

(* the loop's value (saved MTTKRP of ANY mode n, cp_als.py: iprod = sum(sum(P * U[n]) * weights)) and the printing branch's value
   (X.innerprod(M)) are the same number: the final report does not depend on printitn in exact arithmetic *)
Theorem both_branches_agree (s : shape) (X : idx -> V) (ttv_all : list (list V) -> V) (K : ktensor V) (n : nat) :
  kshape K = s -> n < length s -> ttvall_ok s X ttv_all ->
  iprod_k ttv_all K =
  iprod_saved v0 vadd vmul (krank K) (nth n s 0) (kweights K) (nth n (kfactors K) []) (mttkrp_den v0 v1 vadd vmul s X (kfactors K) n).
Proof.
  intros Hs Hn Hok. rewrite (iprod_k_holder s X ttv_all K Hs Hok).
  now apply (innerprod_saved_mttkrp V v0 v1 vadd vmul vsub vopp Vring).
Qed.

End Inner.
