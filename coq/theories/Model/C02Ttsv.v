(* Model/C02Ttsv.v — tensor.ttsv (tensor.py, "version 2", the default): the same vector multiplied into all modes after skip_dim,
   last mode first:
       y = self.data.copy()
       for i in range(drem, 0, -1):
           yy = np.reshape(y, (sz ** (dnew + i - 1), sz), order="F");  y = yy.dot(vector)
   with sz = self.shape[0], dnew = skip_dim + 1 (0 when skip_dim is None), drem = ndims - dnew; the result is reshaped to
   sz * ones(dnew) (scalar / vector / matrix / tensor container: checked by correspondence). *)
From Coq Require Import List Arith Lia Bool.
From PV Require Import Base.Index Base.Perm Base.Sum Np.Array Model.C02Dense.
Import ListNotations.

Section M.
Context {V : Type} (v0 : V) (vadd vmul : V -> V -> V).

(* yy = reshape(y, (m, sz), F); yy.dot(v) *)
Definition ttsv_step (m sz : nat) (v y : list V) : list V := ddata (matvec v0 vadd vmul (mkDense [m; sz] y) v).

Fixpoint ttsv_loop (i sz dnew : nat) (v y : list V) : list V :=
  match i with
  | 0 => y
  | S i' => ttsv_loop i' sz dnew v (ttsv_step (sz ^ (dnew + i')) sz v y)
  end.

Definition impl_ttsv (X : dense V) (v : list V) (dnew : nat) : dense V :=
  let sz := nth 0 (dshape X) 0 in
  mkDense (repeat sz dnew) (ttsv_loop (length (dshape X) - dnew) sz dnew v (ddata X)).
End M.
