(* Proofs/C02KruskalMoreProofs.v — ktensor.ttv over several modes: the weights times Π (A_dim^T v) with the remaining factors
   denote spec_ttv of the array the Kruskal tensor denotes, for all shapes, ranks and values of a commutative ring. *)
From Coq Require Import List Arith Lia Bool Permutation Ring.
From PV Require Import Base.Index Base.Perm Base.Sum Np.Array Model.Sparse Model.Repr Model.C02Spec Model.C02Dense Model.C02Sparse
                       Model.C02SpMore Model.C02KruskalMore Proofs.C02DenseProofs Proofs.C02SparseProofs Proofs.C02MttkrpProofs
                       Proofs.C02ModesProofs Proofs.C02TenmatProofs Proofs.C02PermProofs Proofs.C02IndicatorProofs.
Import ListNotations.

Section P.
Variable V : Type.
Variables (v0 v1 : V) (vadd vmul vsub : V -> V -> V) (vopp : V -> V).
Hypothesis Vring : ring_theory v0 v1 vadd vmul vsub vopp (@eq V).
Add Ring Vr12 : Vring.

Local Notation "x + y" := (vadd x y).
Local Notation "x * y" := (vmul x y).
Local Notation Sn := (sum_n v0 vadd).
Local Notation So := (sum_over v0 vadd).
Local Notation sat := (sum_at V v0 vadd vmul).
Local Notation kp := (kprod v0 v1 vmul).
Local Notation pv := (prodv v1 vmul).

(* ---- sum_at: extensionality on in-range points, linearity ---- *)
Lemma sum_at_ext s (h h' : idx -> V) : (forall a, inb s a = true -> h a = h' a) ->
  forall pairs j, (forall m, In m (map fst pairs) -> m < length s) -> length j = length s ->
  (forall q, q < length s -> ~ In q (map fst pairs) -> nth q j 0 < nth q s 0) ->
  sat s pairs j h = sat s pairs j h'.
Proof.
  intros Hh. induction pairs as [|[m v] r IH]; intros j Hr HL Hb; cbn [sum_at].
  - apply Hh. apply c02_inb_nth. split; [exact HL|]. intros k Hk. apply Hb; auto.
  - cbn [map fst] in *. apply sum_n_ext. intros k Hk. f_equal. apply IH.
    + intros x Hx. apply Hr. cbn; auto.
    + now rewrite upd_length.
    + intros q Hq Hnq. destruct (Nat.eq_dec q m) as [->|Hqm].
      * rewrite nth_upd by lia. now rewrite Nat.eqb_refl.
      * rewrite nth_upd_ne by exact Hqm. apply Hb; auto. intros [E|E]; [congruence|contradiction].
Qed.

Lemma sum_at_linear s R (h : nat -> idx -> V) : forall pairs j,
  sat s pairs j (fun a => Sn R (fun r => h r a)) = Sn R (fun r => sat s pairs j (h r)).
Proof.
  induction pairs as [|[m v] rest IH]; intros j; cbn [sum_at]; [reflexivity|].
  transitivity (Sn (nth m s 0) (fun k => Sn R (fun r => sat s rest (upd j m k) (h r) * nth k v v0))).
  { apply sum_n_ext. intros k _. rewrite IH. unfold sum_n. now rewrite (sum_over_scale_r _ _ _ _ _ _ _ Vring). }
  unfold sum_n. apply (sum_over_swap _ _ _ _ _ _ _ Vring).
Qed.

(* ---- rank-one functions given by one function per mode ---- *)
Fixpoint r1 (Bs : list (nat -> V)) (j : idx) : V :=
  match Bs, j with
  | B :: Bs', x :: j' => B x * r1 Bs' j'
  | _, _ => v1
  end.

Definition dfl : nat -> V := fun _ => v1.

Lemma r1_upd_sum (v : list V) K : forall (Bs : list (nat -> V)) n (j : idx), n < length Bs -> n < length j ->
  Sn K (fun k => r1 Bs (upd j n k) * nth k v v0) =
  r1 (upd Bs n (fun _ => Sn K (fun k => nth n Bs dfl k * nth k v v0))) j.
Proof.
  induction Bs as [|B Bs IH]; intros n j Hn Hj; cbn [length] in Hn; [lia|].
  destruct j as [|x j]; [cbn in Hj; lia|]. cbn [length] in Hj. destruct n as [|n].
  - cbn [upd r1 nth]. unfold sum_n. rewrite <- (sum_over_scale_r _ _ _ _ _ _ _ Vring). apply sum_over_ext. intros k _. ring.
  - cbn [upd r1 nth]. rewrite <- (IH n j) by lia.
    unfold sum_n. rewrite <- (sum_over_scale_l _ _ _ _ _ _ _ Vring). apply sum_over_ext. intros k _. ring.
Qed.

Fixpoint collapse (s : shape) (pairs : list (nat * list V)) (Bs : list (nat -> V)) : list (nat -> V) :=
  match pairs with
  | [] => Bs
  | (m, v) :: r => upd (collapse s r Bs) m (fun _ => Sn (nth m s 0) (fun k => nth m Bs dfl k * nth k v v0))
  end.

Lemma collapse_length s pairs Bs : length (collapse s pairs Bs) = length Bs.
Proof. induction pairs as [|[m v] r IH]; cbn [collapse]; [reflexivity|]. now rewrite upd_length. Qed.

Lemma collapse_nth_notin s Bs m : forall pairs, ~ In m (map fst pairs) -> nth m (collapse s pairs Bs) dfl = nth m Bs dfl.
Proof.
  induction pairs as [|[m' v] r IH]; intros H; cbn [collapse]; [reflexivity|]. cbn [map fst] in H.
  rewrite nth_upd_ne by (intros ->; apply H; cbn; auto). apply IH. intros Hin. apply H. cbn; auto.
Qed.

Lemma sum_at_r1 s (c : V) : forall pairs Bs j, NoDup (map fst pairs) ->
  (forall m, In m (map fst pairs) -> m < length Bs) -> length j = length Bs ->
  sat s pairs j (fun a => c * r1 Bs a) = c * r1 (collapse s pairs Bs) j.
Proof.
  induction pairs as [|[m v] r IH]; intros Bs j Hnd Hr HL; cbn [sum_at collapse]; [reflexivity|].
  cbn [map fst] in *. apply NoDup_cons_iff in Hnd as [Hm Hnd].
  transitivity (c * Sn (nth m s 0) (fun k => r1 (collapse s r Bs) (upd j m k) * nth k v v0)).
  { unfold sum_n. rewrite <- (sum_over_scale_l _ _ _ _ _ _ _ Vring). apply sum_over_ext. intros k _.
    rewrite IH; auto; [ring| |now rewrite upd_length]. intros x Hx. apply Hr. cbn; auto. }
  f_equal. rewrite r1_upd_sum.
  - now rewrite collapse_nth_notin.
  - rewrite collapse_length. apply Hr. cbn; auto.
  - rewrite HL. apply Hr. cbn; auto.
Qed.

(* ---- products over positions, over the remaining modes, over the selected modes ---- *)
Lemma prodv_perm (l l' : list V) : Permutation l l' -> pv l = pv l'.
Proof.
  induction 1 as [|a l l' _ IH|a b l|l l' l'' _ IH1 _ IH2]; cbn [prodv]; auto; try congruence.
  ring.
Qed.

Lemma r1_as_prodv : forall (Bs : list (nat -> V)) (j : idx), length j = length Bs ->
  r1 Bs j = pv (map (fun n => nth n Bs dfl (nth n j 0)) (seq 0 (length Bs))).
Proof.
  induction Bs as [|B Bs IH]; intros [|x j] HL; cbn [length] in HL; try lia; [reflexivity|].
  cbn [r1 length seq map prodv nth]. f_equal. rewrite <- seq_shift, map_map. cbn [nth]. apply IH. lia.
Qed.

Lemma kprod_as_r1 r : forall (As : list (@matrix V)) (a : idx),
  kp As a r = r1 (map (fun (A : @matrix V) x => mget v0 A x r) As) a.
Proof. induction As as [|A As IH]; intros [|x a]; cbn [kprod map r1]; try reflexivity. now rewrite IH. Qed.

Lemma kprod_pick r (As : list (@matrix V)) (j : idx) : forall rem,
  kp (pick [] rem As) (pick 0 rem j) r = pv (map (fun n => mget v0 (nth n As []) (nth n j 0) r) rem).
Proof. induction rem as [|n rem IH]; [reflexivity|]. cbn [pick map kprod prodv]. fold (pick [] rem As). fold (pick 0 rem j). now rewrite IH. Qed.

Lemma c02_map_pick {A B} (f : A -> B) d p (l : list A) : map f (pick d p l) = pick (f d) p (map f l).
Proof.
  unfold pick. rewrite !map_map. apply map_ext. intros k.
  revert k; induction l as [|x l IH]; intros [|k]; cbn; auto.
Qed.

Lemma prod_dims s (Bs : list (nat -> V)) (j : idx) : forall pairs, NoDup (map fst pairs) ->
  (forall m, In m (map fst pairs) -> m < length Bs) ->
  pv (map (fun n => nth n (collapse s pairs Bs) dfl (nth n j 0)) (map fst pairs)) =
  pv (map (fun mv => Sn (nth (fst mv) s 0) (fun k => nth (fst mv) Bs dfl k * nth k (snd mv) v0)) pairs).
Proof.
  induction pairs as [|[m v] r IH]; intros Hnd Hr; [reflexivity|].
  cbn [map fst snd] in *. apply NoDup_cons_iff in Hnd as [Hm Hnd]. cbn [collapse prodv].
  rewrite nth_upd by (rewrite collapse_length; apply Hr; cbn; auto). rewrite Nat.eqb_refl. f_equal.
  rewrite <- IH by (auto; intros; apply Hr; cbn; auto). f_equal.
  apply map_ext_in. intros n Hn. rewrite nth_upd_ne; [reflexivity|]. intros ->. contradiction.
Qed.

Lemma cprod_as_prodv (As : list (@matrix V)) r : forall pairs, (forall m, In m (map fst pairs) -> m < length As) ->
  pv (map (fun mv => Sn (nth (fst mv) (map (@nrows V) As) 0)
                       (fun k => nth (fst mv) (map (fun (A : @matrix V) x => mget v0 A x r) As) dfl k * nth k (snd mv) v0)) pairs) =
  cprod v0 v1 vadd vmul As pairs r.
Proof.
  induction pairs as [|[m v] rest IH]; intros Hr; [reflexivity|]. cbn [map fst snd prodv cprod] in *.
  rewrite IH by (intros; apply Hr; cbn; auto). f_equal.
  assert (Hm : m < length As) by (apply Hr; cbn; auto).
  change 0 with (@nrows V []). rewrite (map_nth (@nrows V)). unfold nrows.
  apply sum_n_ext. intros k _. f_equal.
  rewrite (nth_indep _ dfl ((fun (A : @matrix V) x => mget v0 A x r) [])) by (now rewrite map_length).
  now rewrite (map_nth (fun (A : @matrix V) x => mget v0 A x r)).
Qed.

(* ---- ktensor.ttv over several modes ---- *)
Theorem impl_ttv_k_correct (K : ktensor V) dims vs i' :
  NoDup dims -> (forall x, In x dims -> x < length (kfactors K)) -> length vs = length dims ->
  inb (ttv_shape (kshape K) dims) i' = true ->
  den_k v0 v1 vadd vmul (impl_ttv_k v0 v1 vadd vmul K dims vs) i' =
  spec_ttv v0 vadd vmul (den_k v0 v1 vadd vmul K) (kshape K) dims vs i'.
Proof.
  intros Hnd Hr HL Hi.
  set (As := kfactors K) in *. set (s := kshape K) in *. set (R := krank K).
  assert (HN : length s = length As) by (unfold s, kshape; now rewrite map_length).
  assert (Hr' : forall x, In x dims -> x < length s) by (intros x Hx; rewrite HN; auto).
  unfold ttv_shape in Hi.
  pose proof (compl_perm (length s) dims Hnd Hr') as Hp.
  destruct (base_idx_facts V v0 (fun _ => true) s dims i' Hp Hi) as (L0 & P0 & B0). cbn zeta in *.
  set (rem := compl (length s) dims) in *. set (pairs := combine dims vs).
  set (j0 := unpick (rem ++ dims) (i' ++ repeat 0 (length dims))) in *.
  assert (Hmf : map fst pairs = dims) by (apply map_fst_combine; exact HL).
  (* right-hand side *)
  rewrite (spec_ttv_as_sum_at V v0 vadd vmul); auto.
  2:{ apply inb_length in Hi. now rewrite pick_length in Hi. }
  fold rem pairs j0.
  rewrite (sum_at_ext s _ (fun a => Sn R (fun r => nth r (kweights K) v0 * kp As a r))).
  2:{ intros a Ha. unfold den_k. fold s. now rewrite Ha. }
  2:{ rewrite Hmf. exact Hr'. }
  2:{ exact L0. }
  2:{ rewrite Hmf. exact B0. }
  rewrite sum_at_linear.
  (* left-hand side *)
  unfold den_k at 1. unfold impl_ttv_k. cbn [kfactors kweights].
  unfold kshape at 1. cbn [kfactors]. rewrite c02_map_pick. change (@nrows V []) with 0. fold As. change (map (@nrows V) As) with s.
  rewrite <- HN. fold rem. rewrite Hi.
  unfold krank at 1. cbn [kweights]. rewrite map_length, seq_length. fold R.
  apply sum_n_ext. intros r Hrr.
  rewrite (nth_map_seq V v0 (fun r0 => nth r0 (kweights K) v0 * cprod v0 v1 vadd vmul As pairs r0)) by exact Hrr.
  set (Bs := map (fun (A : @matrix V) x => mget v0 A x r) As).
  assert (HLB : length Bs = length s) by (unfold Bs; now rewrite map_length).
  rewrite (sum_at_ext s _ (fun a => nth r (kweights K) v0 * r1 Bs a)).
  2:{ intros a _. now rewrite kprod_as_r1. }
  2:{ rewrite Hmf. exact Hr'. }
  2:{ exact L0. }
  2:{ rewrite Hmf. exact B0. }
  rewrite sum_at_r1; rewrite ?Hmf; auto.
  2:{ intros m Hm. rewrite HLB. auto. }
  2:{ now rewrite HLB. }
  rewrite r1_as_prodv by (now rewrite collapse_length, HLB).
  rewrite collapse_length, HLB.
  rewrite (prodv_perm _ _ (Permutation_map _ (Permutation_sym Hp))). fold rem.
  rewrite map_app, (prodv_app _ _ _ _ _ _ _ Vring).
  (* remaining modes *)
  assert (E1 : pv (map (fun n => nth n (collapse s pairs Bs) dfl (nth n j0 0)) rem) = kp (pick [] rem As) i' r).
  { rewrite <- P0 at 1. rewrite kprod_pick. f_equal. apply map_ext_in. intros n Hn.
    assert (Hnd' : ~ In n dims).
    { unfold rem, compl in Hn. apply filter_In in Hn as [_ Hn]. apply negb_true_iff in Hn.
      intros Hin. apply existsb_eqb_in in Hin. congruence. }
    assert (HnN : n < length As).
    { unfold rem, compl in Hn. apply filter_In in Hn as [Hn _]. apply in_seq in Hn. lia. }
    rewrite collapse_nth_notin by (now rewrite Hmf). unfold Bs.
    rewrite (nth_indep _ dfl ((fun (A : @matrix V) x => mget v0 A x r) [])) by (now rewrite map_length).
    now rewrite (map_nth (fun (A : @matrix V) x => mget v0 A x r)). }
  (* selected modes *)
  assert (E2 : pv (map (fun n => nth n (collapse s pairs Bs) dfl (nth n j0 0)) dims) = cprod v0 v1 vadd vmul As pairs r).
  { rewrite <- Hmf at 1. rewrite prod_dims; rewrite ?Hmf; auto.
    - unfold Bs, s, kshape. fold As. apply cprod_as_prodv. rewrite Hmf. exact Hr.
    - intros m Hm. rewrite HLB. auto. }
  rewrite E1, E2. ring.
Qed.

End P.
