(* Model/C03W5.v — wave 5.  (a) S * K as the REPAIRED code is (d4293a0: `if self.nnz == 0: return self.copy()` in front of the
   loops, `keep = cvals[:, 0] != 0` behind them): the Z instance of impl_mul_k_filtered (Model/C03Kr.v) that the list-for-list tie
   `mulmodel` runs.  (b) the list-for-list tie of sparse / dense AS THE CODE IS (csubs = self.subs; cvals = self.vals /
   other[csubs]: Model/C03More.v impl_div_dense; open finding C03-N5).  Definitions only. *)
From Coq Require Import List ZArith Bool Arith QArith Qcanon.
From PV Require Import Base.Index Np.Array Model.Sparse Model.Repr Model.Harness Model.C03Ops Model.C03More Model.C03Chk Model.C03Chk2
                       Model.C03Kr.
Import ListNotations.
Local Open Scope Z_scope.

Definition zmul_kf (A : sparse Z) (K : ktensor Z) : sparse Z := impl_mul_k_filtered 0 Z.add Z.mul zisz A K.

(* sparse / dense, the code as it is: the stored rows of S in stored order, each with x / T[s] (IEEE) *)
Definition zdiv_dense (A : sparse Z) (T : dense Z) : sparse xval := impl_div_dense 0 xdivz A T.
Definition div_dense_model_ok (O : sparse xval) (A : sparse Z) (T : dense Z) : bool := xsp_raw_close O (zdiv_dense A T).
