(* Model/C11Check.v — Qc checks for CP-APR results evaluated by the generated correspondence cases. *)
From Coq Require Import List Arith Bool ZArith QArith Qabs Qcanon.
From PV Require Import Base.Index Base.Sum Np.Array Model.Sparse Model.Repr Model.Harness.
Import ListNotations.
Local Open Scope Qc_scope.

Definition knonneg (K : ktensor Qc) : bool :=
  forallb (qleb q0) (kweights K) && forallb (forallb (forallb (qleb q0))) (kfactors K).
Definition kwell (K : ktensor Qc) (shp : list nat) (rank : nat) : bool :=
  nvec_eqb (kshape K) shp && Nat.eqb (length (kweights K)) rank &&
  forallb (forallb (fun row => Nat.eqb (length row) rank)) (kfactors K).
(* total mass, by brute force over all subscripts, and from the factor column sums (C11_mass_identity) *)
Definition mass_direct (K : ktensor Qc) : Qc := sum_over q0 Qcplus (allsubs (kshape K)) (qden_k K).
Definition qcolsum (A : list (list Qc)) (r : nat) : Qc := sum_n q0 Qcplus (length A) (fun x => mget q0 A x r).
Definition mass_cols (K : ktensor Qc) : Qc :=
  sum_n q0 Qcplus (krank K) (fun r => nth r (kweights K) q0 * prodv q1 Qcmult (map (fun A => qcolsum A r) (kfactors K))).
(* what tt_loglikelihood subtracts: np.sum(factor_matrices[0]) of the returned model *)
Definition mass_factor0 (K : ktensor Qc) : Qc :=
  sum_over q0 Qcplus (nth 0 (kfactors K) []) (fun row => sum_over q0 Qcplus row (fun x => x)).
(* representation-independent form of that term: sum_r w_r * colsum_0(r) — equals np.sum(factor_matrices[0]) when the weights are absorbed
   into mode 0 (all w_r = 1), and is what tt_loglikelihood subtracts after normalising a COPY when the returned model keeps explicit
   weights (unit or zero columns everywhere) *)
Definition mass_w0 (K : ktensor Qc) : Qc :=
  sum_n q0 Qcplus (krank K) (fun r => nth r (kweights K) q0 * qcolsum (nth 0 (kfactors K) []) r).
Definition col_unit_or_zero (tol : Qc) (A : list (list Qc)) (r : nat) : bool :=
  qclose tol (qcolsum A r) q1 || Qc_eq_bool (qcolsum A r) q0.
(* the normal form cp_apr returns: every column of every factor L1-normalised or zero; the mass of a component sits in its weight
   (explicit weights) or in its mode-0 column (all weights 1) *)
Definition normal_form (tol : Qc) (K : ktensor Qc) : bool :=
  forallb (fun A => forallb (col_unit_or_zero tol A) (seq 0 (krank K))) (tl (kfactors K)) &&
  (forallb (Qc_eq_bool q1) (kweights K) || forallb (col_unit_or_zero tol (nth 0 (kfactors K) [])) (seq 0 (krank K))).
Definition mass_ok (tol : Qc) (K : ktensor Qc) (harness_mass : Qc) : bool :=
  Qc_eq_bool (mass_direct K) (mass_cols K) && qclose tol (mass_w0 K) (mass_direct K) && qclose tol harness_mass (mass_direct K) &&
  normal_form tol K.
(* KKT bookkeeping: lens = lengths of the KKT lists for maxiters = 1, 2, 3 *)
Definition kkt_ok (kkt : list Qc) (maxiters : nat) : bool :=
  Nat.leb 1 (length kkt) && Nat.leb (length kkt) maxiters && forallb (qleb q0) kkt.
Fixpoint is_prefix (tol : Qc) (a b : list Qc) : bool :=
  match a, b with [] , _ => true | x :: a', y :: b' => qclose tol x y && is_prefix tol a' b' | _, _ => false end.

(* ---- Qc instance of the MU model (Model/C11Apr.v): exact division, run side by side with pyttb on small inputs *)
From PV Require Import Model.C14Nvecs Model.C11Apr Model.C11Sparse.
Definition qlt (a b : Qc) : bool := negb (qleb b a).
Definition qmin (x y : Qc) : Qc := if qleb x y then x else y.
Definition qdivmax (eps x v : Qc) : Qc := x / qmax v eps.
Definition qscale1 (t a : Qc) : Qc := if qlt q0 t then a / t else a.
Definition mu_model (eps kappa kappatol stoptol : Qc) (maxinner : nat) (X : dense Qc) (K : ktensor Qc) (maxiters : nat) :=
  cp_apr_mu q0 q1 Qcplus Qcmult Qcminus (qdivmax eps) qscale1 qabs qmin qmax (qlt q0) qlt kappa kappatol stoptol maxinner X K maxiters.
(* the returned model denotes the same tensor as the model's final state; same KKT trace *)
Definition mu_model_ok (tol eps kappa kappatol stoptol : Qc) (maxinner : nat) (X : dense Qc) (K : ktensor Qc) (maxiters : nat)
    (Kobs : ktensor Qc) (kkt_obs : list Qc) : bool :=
  let res := mu_model eps kappa kappatol stoptol maxinner X K maxiters in
  let Kmod := mkK (sw (fst res)) (sA (fst res)) in
  forallb (fun i => qclose tol (qden_k Kobs i) (qden_k Kmod i)) (allsubs (dshape X)) &&
  list_eqb (qclose tol) kkt_obs (snd res) && knonneg Kmod.

(* ---- Qc instance of the sparse-branch Phi (Model/C11Sparse.v calc_phi_sp_code) and of the dense definition, both compared with what
   pyttb's calculate_pi + calculate_phi return for a sparse holder *)
Definition qstate (K : ktensor Qc) : state := mkSt (kweights K) (kfactors K) [] [] true.
Definition qphi_sp (eps : Qc) (S : sparse Qc) (n : nat) (K : ktensor Qc) : list (list Qc) :=
  calc_phi_sp_code q0 q1 Qcplus Qcmult (qdivmax eps) S n (qstate K).
Definition qphi_dense (eps : Qc) (X : dense Qc) (n : nat) (K : ktensor Qc) : list (list Qc) :=
  calc_phi q0 q1 Qcplus Qcmult (qdivmax eps) X n (qstate K).
Definition phi_sp_ok (tol eps : Qc) (S : sparse Qc) (X : dense Qc) (n : nat) (K : ktensor Qc) (obs_sp obs_dense : list (list Qc)) : bool :=
  list_eqb (list_eqb (qclose tol)) (qphi_sp eps S n K) obs_sp &&
  list_eqb (list_eqb (qclose tol)) (qphi_dense eps X n K) obs_dense &&
  list_eqb (list_eqb Qc_eq_bool) (qphi_sp eps S n K) (qphi_dense eps X n K).

(* ---- tt_loglikelihood called directly on a sparse holder (Model/C11LogLik.v): Kn = the model as the call left it (normalised in
   place, weights absorbed into mode 0).  The harness evaluates sum_k vals[k] * log(rowsum[k]) - msum with math.log from the literals
   [rowsums] / [msum_h]; here they are checked to be EXACTLY the model's ll_rowsum at the stored subscripts / msum of factor 0. *)
From PV Require Import Model.C11LogLik.
Definition ll_sp_ok (tol : Qc) (S : sparse Qc) (K Kn : ktensor Qc) (rowsums : list Qc) (msum_h : Qc) : bool :=
  list_eqb Qc_eq_bool (map (fun e => ll_rowsum q0 q1 Qcplus Qcmult (kfactors Kn) (krank Kn) (fst e)) (entries S)) rowsums &&
  Qc_eq_bool (msum q0 Qcplus (nth 0 (kfactors Kn) [])) msum_h &&
  forallb (Qc_eq_bool q1) (kweights Kn) &&
  nvec_eqb (kshape Kn) (sshape S) &&
  forallb (fun i => qclose tol (qden_k K i) (qden_k Kn i)) (allsubs (sshape S)).
