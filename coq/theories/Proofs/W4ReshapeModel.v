(* Proofs/W4ReshapeModel.v — the GENERATED sptensor.reshape (Gen/GenSptensor4d.v) on a well-formed sparse record with stored
   entries IS C07's hand model reshape_sp (Model/C07Ops.v), whose index theorem reshape_sparse_correct (Proofs/C07Proofs.v)
   then applies: entry (kept subscripts ++ ind2sub new_shape (sub2ind shape[old] i[old])) of the result = entry i of self. *)
From Coq Require Import List ZArith Arith Bool Lia.
From PV Require Import Base.Index Base.Perm Np.NpZ Np.NpZ2 Np.NpZ3 Np.NpZ3c Np.NpZ3d Np.NpZ3e Np.NpZ4 Np.NpZ4b Np.NpZ4e
  Model.Sparse Model.C07Ops Gen.GenUtils Gen.GenSptensor4d Model.W4Reshape Proofs.NpZProofs Proofs.UtilsProofs Proofs.C07Index
  Proofs.C07Proofs Proofs.W4Reshape.
Import ListNotations.
Local Open Scope Z_scope.

Definition of_Sp (S : sparse Z) : sptz := mkspt (zm (ssubs S)) (svals S) (zs (sshape S)).

Lemma zlen_zs l : zlen (zs l) = Z.of_nat (length l).
Proof. unfold zlen. now rewrite zs_length. Qed.

Lemma take_zs (l q : list nat) : np_take 0 (zs l) (zs q) = zs (pick 0%nat q l).
Proof.
  unfold np_take, pick, zs. rewrite !map_map. apply map_ext. intros k. rewrite znth_nat.
  change 0 with (Z.of_nat 0). apply map_nth.
Qed.

Lemma idx_ok_zs {A} (l : list A) k : (k < length l)%nat -> idx_ok l (Z.of_nat k) = true.
Proof. intros H. unfold idx_ok, zlen. apply andb_true_iff. split; [apply Z.leb_le|apply Z.ltb_lt]; lia. Qed.

Lemma take_ok_zs {A} (l : list A) (q : list nat) : Forall (fun k => (k < length l)%nat) q -> np_take_ok l (zs q) = true.
Proof.
  intros H. unfold np_take_ok, zs. rewrite forallb_forall. intros x Hx. apply in_map_iff in Hx as (k & <- & Hk).
  apply idx_ok_zs. rewrite Forall_forall in H. auto.
Qed.

Lemma zmem_zs k q : zmem (Z.of_nat k) (zs q) = existsb (Nat.eqb k) q.
Proof.
  unfold zmem, zs. induction q as [|a q IH]; [reflexivity|]. cbn [map existsb]. rewrite IH. f_equal.
  destruct (Nat.eqb_spec k a) as [->|N]; [apply Z.eqb_refl|]. apply Z.eqb_neq. lia.
Qed.

Lemma keep_zs (N : nat) (old : list nat) :
  np_setdiff1d (np_arange 0 (Z.of_nat N)) (zs old) = zs (keep_modes N old).
Proof.
  rewrite setdiff_arange. unfold np_arange, keep_modes, zs. rewrite Z.sub_0_r, Nat2Z.id.
  induction (seq 0 N) as [|k l IH]; [reflexivity|]. cbn [map filter]. rewrite Z.add_0_l.
  change (map Z.of_nat old) with (zs old). rewrite zmem_zs.
  destruct (existsb (Nat.eqb k) old); cbn [negb map]; [exact IH|]. f_equal. exact IH.
Qed.

Lemma no_bad_mode (n : nat) (old : list nat) : Forall (fun k => (k < n)%nat) old ->
  existsb (fun k => (k <? 0) || (k >=? Z.of_nat n)) (zs old) = false.
Proof.
  intros H. unfold zs. induction H as [|k l Hk _ IH]; [reflexivity|]. cbn [map existsb]. rewrite IH, orb_false_r.
  apply orb_false_iff. split; [apply Z.ltb_ge; lia|]. rewrite Z.geb_leb. apply Z.leb_gt. lia.
Qed.

Lemma no_neg_zs (l : list nat) : existsb (fun d => d <? 0) (zs l) = false.
Proof. unfold zs. induction l as [|a l IH]; [reflexivity|]. cbn [map existsb]. rewrite IH, orb_false_r. apply Z.ltb_ge. lia. Qed.

Lemma cols_zm (J : list (list nat)) (q : list nat) : np_cols (zm J) (zs q) = zm (map (pick 0%nat q) J).
Proof. unfold np_cols, zm. rewrite !map_map. apply map_ext. intros j. apply take_zs. Qed.

Lemma cols_ok_zm (J : list (list nat)) (q : list nat) (n : nat) :
  Forall (fun j => length j = n) J -> Forall (fun k => (k < n)%nat) q -> np_cols_ok (zm J) (zs q) = true.
Proof.
  intros HJ Hq. unfold np_cols_ok, zm. rewrite forallb_forall. intros r Hr. apply in_map_iff in Hr as (j & <- & Hj).
  apply take_ok_zs. rewrite Forall_forall in HJ. rewrite zs_length, (HJ j Hj). exact Hq.
Qed.

Lemma hstack_map {A} (f g : A -> vec) (l : list A) : np_hstack (map f l) (map g l) = map (fun x => f x ++ g x) l.
Proof. induction l as [|x l IH]; [reflexivity|]. cbn [map np_hstack]. now rewrite IH. Qed.

Lemma inb_rows_ok (s : shape) (j : list nat) : inb s j = true ->
  forallb (fun x => 0 <=? x) (zs j) = true /\ np_all (zmap2b Z.ltb (zs j) (zs s)) = true.
Proof.
  revert j. induction s as [|d s IH]; intros [|x j] H; cbn [inb] in H; try discriminate; [split; reflexivity|].
  apply andb_true_iff in H as [Hx Hj]. apply Nat.ltb_lt in Hx. destruct (IH j Hj) as [I1 I2].
  unfold zs in *. cbn [map forallb zmap2b]. unfold np_all in *. cbn [forallb]. rewrite I1, I2.
  split; apply andb_true_iff; split; auto; [apply Z.leb_le|apply Z.ltb_lt]; lia.
Qed.

Lemma make_ok_zs (J : list (list nat)) (v : vec) (s : shape) :
  J <> [] -> s <> [] -> Forall (fun j => inb s j = true) J -> length v = length J ->
  spt_make_ok (zm J) v (zs s) = true.
Proof.
  intros HJ Hs Hin Hv. unfold spt_make_ok.
  destruct J as [|j0 J]; [congruence|]. pose proof (Forall_inv Hin) as H0. pose proof (inb_length _ _ H0) as L0.
  assert (Hsz : np_size2 (zm (j0 :: J)) <> 0).
  { unfold zm. cbn [map]. rewrite np_size2_cons. pose proof (np_size2_nonneg (map zs J)). rewrite zlen_zs.
    destruct s; [congruence|]. cbn [length] in L0. lia. }
  apply Z.eqb_neq in Hsz. rewrite Hsz.
  apply andb_true_iff; split; [apply andb_true_iff; split; [apply andb_true_iff; split|]|].
  - apply Z.eqb_eq. unfold np_nrows, zlen, zm. rewrite map_length. lia.
  - unfold zm. rewrite forallb_forall. intros r Hr. apply in_map_iff in Hr as (j & <- & Hj).
    rewrite Forall_forall in Hin. exact (proj1 (inb_rows_ok s j (Hin j Hj))).
  - apply Z.eqb_eq. unfold zm. cbn [map np_ncols]. rewrite !zlen_zs. lia.
  - unfold zm. rewrite forallb_forall. intros r Hr. apply in_map_iff in Hr as (j & <- & Hj).
    rewrite Forall_forall in Hin. exact (proj2 (inb_rows_ok s j (Hin j Hj))).
Qed.

Theorem gen_sp_reshape_model (S : sparse Z) (s' : shape) (old : list nat) :
  ssubs S <> [] -> Forall (fun j => inb (sshape S) j = true) (ssubs S) -> length (svals S) = length (ssubs S) ->
  Forall (fun k => (k < length (sshape S))%nat) old -> old <> [] -> s' <> [] ->
  sptensor_reshape (of_Sp S) (zs s') (Some (zs old)) =
    match reshape_sp S s' old with Some R => Ok (of_Sp R) | None => Err end.
Proof.
  destruct S as [s J v]. cbn [ssubs sshape svals]. intros HJ Hin Hv Hold Hone Hs'.
  rewrite sp_reshape_bridge. unfold H_sp_reshape, H_reshape_modes, of_Sp, reshape_sp. cbn [spt_shape spt_subs spt_vals ssubs sshape svals].
  cbv zeta. rewrite zlen_zs, (no_bad_mode _ _ Hold). cbn [bind fst snd]. rewrite keep_zs.
  assert (Hkeep : Forall (fun k => (k < length s)%nat) (keep_modes (length s) old)).
  { apply Forall_forall. intros k Hk. eapply keep_modes_lt. exact Hk. }
  rewrite !take_ok_zs by (rewrite zs_length; assumption). cbn [andb].
  rewrite !take_zs, no_neg_zs, !zprod_zs.
  assert (Hlen : Forall (fun j => length j = length s) J).
  { apply Forall_forall. intros j Hj. rewrite Forall_forall in Hin. apply inb_length. auto. }
  destruct (Nat.eqb_spec (size s') (size (pick 0%nat old s))) as [Esz|Nsz].
  2:{ replace (Z.of_nat (size s') =? Z.of_nat (size (pick 0%nat old s))) with false by (symmetry; apply Z.eqb_neq; lia). reflexivity. }
  rewrite Esz, Z.eqb_refl. cbn [negb].
  replace (zlen (zs s') =? 0) with false by (symmetry; apply Z.eqb_neq; rewrite zlen_zs; destruct s'; [congruence|cbn [length]; lia]).
  assert (Hs : s <> []) by (intros ->; destruct old as [|k o]; [congruence|]; apply Forall_inv in Hold; cbn in Hold; lia).
  assert (Hsz : np_size2 (zm J) <> 0).
  { destruct J as [|j0 J']; [congruence|]. unfold zm. cbn [map]. rewrite np_size2_cons. pose proof (np_size2_nonneg (map zs J')).
    rewrite zlen_zs. apply Forall_inv in Hlen. destruct s; [congruence|]. cbn [length] in Hlen. lia. }
  apply Z.eqb_neq in Hsz. rewrite Hsz.
  rewrite (cols_ok_zm J old (length s) Hlen Hold), !cols_zm.
  rewrite (tt_sub2ind_spec (pick 0%nat old s) (map (pick 0%nat old) J)).
  2:{ destruct old; [congruence|discriminate]. }
  2:{ intros i Hi. apply in_map_iff in Hi as (j & <- & Hj). rewrite Forall_forall in Hin, Hold. apply inb_pick_sub; auto. }
  cbn [bind]. rewrite map_map.
  assert (Einds : map (fun x => Z.of_nat (sub2ind (pick 0%nat old s) (pick 0%nat old x))) J
                  = zs (map (fun j => sub2ind (pick 0%nat old s) (pick 0%nat old j)) J)) by (unfold zs; now rewrite map_map).
  rewrite Einds.
  rewrite tt_ind2sub_spec.
  2:{ intros k Hk. apply in_map_iff in Hk as (j & <- & Hj). rewrite Esz. apply sub2ind_lt.
      rewrite Forall_forall in Hin, Hold. apply inb_pick_sub; auto. }
  cbn [bind]. rewrite map_map.
  rewrite (cols_ok_zm J _ (length s) Hlen Hkeep). cbn [andb].
  assert (Ekc : zm (map (pick 0%nat (keep_modes (length s) old)) J) = map (fun j => zs (pick 0%nat (keep_modes (length s) old) j)) J)
    by (unfold zm; apply map_map).
  rewrite Ekc, hstack_map.
  replace (np_hstack_ok _ _) with true by (symmetry; unfold np_hstack_ok, zlen; rewrite !map_length; apply Z.eqb_refl).
  cbn [andb].
  assert (Erows : map (fun x => zs (pick 0%nat (keep_modes (length s) old) x) ++ zs (ind2sub s' (sub2ind (pick 0%nat old s) (pick 0%nat old x)))) J
                  = zm (map (reshape_row s s' old) J)).
  { unfold zm. rewrite map_map. apply map_ext. intros j. unfold reshape_row, zs. now rewrite map_app. }
  rewrite Erows.
  assert (Eshp : zs (pick 0%nat (keep_modes (length s) old) s) ++ zs s' = zs (pick 0%nat (keep_modes (length s) old) s ++ s'))
    by (unfold zs; now rewrite map_app).
  rewrite Eshp.
  rewrite make_ok_zs; [reflexivity| | | |].
  - destruct J; [congruence|discriminate].
  - destruct s'; [congruence|]. intros E. apply app_eq_nil in E as [_ E]. discriminate.
  - apply Forall_forall. intros r Hr. apply in_map_iff in Hr as (j & <- & Hj). rewrite Forall_forall in Hin.
    apply reshape_row_inb; auto.
  - rewrite map_length. exact Hv.
Qed.

(* ... hence the index theorem of C07 holds for the generated method: the result exists exactly when the element counts
   agree, and entry (reshape_row i) of it is entry i of self *)
Theorem gen_sp_reshape_den (S : sparse Z) (s' : shape) (old : list nat) :
  ssubs S <> [] -> Forall (fun j => inb (sshape S) j = true) (ssubs S) -> length (svals S) = length (ssubs S) ->
  Forall (fun k => (k < length (sshape S))%nat) old -> old <> [] -> s' <> [] ->
  size s' = size (pick 0%nat old (sshape S)) ->
  exists R, sptensor_reshape (of_Sp S) (zs s') (Some (zs old)) = Ok (of_Sp R) /\
    sshape R = pick 0%nat (keep_modes (length (sshape S)) old) (sshape S) ++ s' /\ svals R = svals S /\
    (forall i, inb (sshape S) i = true ->
       inb (sshape R) (reshape_row (sshape S) s' old i) = true /\
       den_sp 0 R (reshape_row (sshape S) s' old i) = den_sp 0 S i) /\
    (forall i', (forall i, inb (sshape S) i = true -> reshape_row (sshape S) s' old i <> i') -> den_sp 0 R i' = 0).
Proof.
  intros HJ Hin Hv Hold Hone Hs' Hsize.
  destruct (reshape_sparse_correct 0 (Z.eqb 0) S s' old Hold Hsize Hin) as (R & HR & Hshape & Hvals & _ & _ & Hden & Hout).
  exists R. rewrite (gen_sp_reshape_model S s' old HJ Hin Hv Hold Hone Hs'), HR. auto.
Qed.

(* old_modes = None is the request for all modes in order *)
Lemma arange_zs (N : nat) : np_arange 0 (Z.of_nat N) = zs (seq 0 N).
Proof. unfold np_arange, zs. rewrite Z.sub_0_r, Nat2Z.id. apply map_ext. intros k. apply Z.add_0_l. Qed.

Theorem gen_sp_reshape_none (self : sptz) (new_shape : vec) :
  sptensor_reshape self new_shape None = sptensor_reshape self new_shape (Some (np_arange 0 (zlen (spt_shape self)))).
Proof.
  rewrite !sp_reshape_bridge. unfold H_sp_reshape. cbv zeta. f_equal. unfold H_reshape_modes, zlen.
  set (N := length (spt_shape self)).
  assert (K : np_setdiff1d (np_arange 0 (Z.of_nat N)) (np_arange 0 (Z.of_nat N)) = []).
  { rewrite (arange_zs N) at 2. rewrite keep_zs, keep_modes_all. reflexivity. }
  rewrite K. rewrite (arange_zs N) at 2.
  rewrite no_bad_mode; [reflexivity|]. apply Forall_forall. intros k Hk. apply in_seq in Hk. lia.
Qed.

(* all modes (old_modes = None): C07's reshape_sp_all *)
Theorem gen_sp_reshape_model_all (S : sparse Z) (s' : shape) :
  ssubs S <> [] -> Forall (fun j => inb (sshape S) j = true) (ssubs S) -> length (svals S) = length (ssubs S) ->
  sshape S <> [] -> s' <> [] ->
  sptensor_reshape (of_Sp S) (zs s') None = match reshape_sp_all S s' with Some R => Ok (of_Sp R) | None => Err end.
Proof.
  intros HJ Hin Hv Hs Hs'. rewrite gen_sp_reshape_none. unfold reshape_sp_all.
  replace (np_arange 0 (zlen (spt_shape (of_Sp S)))) with (zs (seq 0 (length (sshape S))))
    by (unfold of_Sp; cbn [spt_shape]; rewrite zlen_zs, arange_zs; reflexivity).
  apply gen_sp_reshape_model; auto.
  - apply Forall_forall. intros k Hk. apply in_seq in Hk. lia.
  - destruct (sshape S); [congruence|discriminate].
Qed.
