(* Proofs/C19W4.v — wave 4: guards stated over translator-generated code.
   (a) sptensor.from_aggregator: the guard calls the GENERATED tt_subscheck / tt_valscheck / tt_sizecheck (Gen/GenUtils3.v); it is
       equal, for every request, to the hand-written chain of comparisons about which the (refuted + partial) theorem was proved.
   (b) ktensor.redistribute(mode): the GENERATED method (Gen/GenMethods3.v) rejects exactly the modes outside range(ndims), i.e. it
       agrees with guard_mode (membership in the enumerated range) and with the precondition. *)
From Coq Require Import List ZArith Bool Lia.
From PV Require Import Np.NpZ Np.NpZ2 Np.NpZ3 Np.NpZ3e Gen.GenUtils Gen.GenUtils3 Gen.GenMethods3 Proofs.NpZProofs Proofs.UtilsProofs
  Model.W3Utils Proofs.W3Bridge Proofs.W3Laws Proofs.W3Methods3
  Model.C19Guards Proofs.C19Proofs Proofs.C19Ttv Proofs.C19More Proofs.C19W3.
Import ListNotations.
Local Open Scope Z_scope.

(* ---- (a) from_aggregator ---- *)
Lemma nd_ints_int_array shp l : nd_ints shp l = int_array shp l.
Proof. reflexivity. Qed.

Lemma okres_check_false ok : okres (check_result ok false) = chk ok.
Proof. destruct ok; reflexivity. Qed.

Lemma forallb_concat {A} (f : A -> bool) (ll : list (list A)) : forallb f (concat ll) = forallb (forallb f) ll.
Proof. induction ll as [|l ll IH]; [reflexivity|]. cbn [concat forallb]. now rewrite forallb_app, IH. Qed.

Lemma subscheck_rows (subs : list vec) :
  okres (tt_subscheck (nd_ints [zlen subs; zlen (hd [] subs)] (concat subs)) false) =
  chk ((zlen subs * zlen (hd [] subs) =? 0) || forallb (forallb (fun x => 0 <=? x)) subs).
Proof.
  destruct (checks_spec (nd_ints [zlen subs; zlen (hd [] subs)] (concat subs)) false) as (_ & -> & _).
  rewrite okres_check_false, nd_ints_int_array, subs_ok_ints, forallb_concat. do 2 f_equal.
  apply forallb_ext_in. intros row _. apply forallb_ext_in. intros x _. unfold Z.geb, Z.leb. rewrite (Z.compare_antisym 0 x).
  destruct (0 ?= x); reflexivity.
Qed.

Lemma valscheck_column (nvals : Z) : okres (tt_valscheck (nd_ints [nvals; 1] (np_full nvals 0)) false) = Ok tt.
Proof.
  destruct (checks_spec (nd_ints [nvals; 1] (np_full nvals 0)) false) as (_ & _ & ->).
  rewrite okres_check_false. unfold nd_ints. rewrite vals_ok_2d. now rewrite orb_true_r.
Qed.

Lemma sizecheck_shape (s : vec) : okres (tt_sizecheck (nd_ints [ndim s] s) false) = chk (all_pos s).
Proof.
  destruct (checks_spec (nd_ints [ndim s] s) false) as (-> & _ & _).
  rewrite okres_check_false, nd_ints_int_array. unfold ndim. rewrite size_ok_ints. f_equal. unfold all_pos.
  apply forallb_ext_in. intros x _. unfold Z.gtb, Z.ltb. rewrite (Z.compare_antisym 0 x). destruct (0 ?= x); reflexivity.
Qed.

Lemma res_unit_eq (a b : res unit) : is_ok a = is_ok b -> a = b.
Proof. intros H. rewrite (res_unit_decide a), (res_unit_decide b), H. reflexivity. Qed.

Lemma chk_all_ok {A} (l : list A) : chk_all (fun _ => Ok tt) l = Ok tt.
Proof. induction l as [|x l IH]; [reflexivity|]. cbn. exact IH. Qed.

(* the guard over the generated helpers = the hand-written chain, for every request *)
Theorem from_aggregator_gen_hand s subs nvals : guard_from_aggregator s subs nvals = guard_from_aggregator_hand s subs nvals.
Proof.
  unfold guard_from_aggregator, guard_from_aggregator_hand. cbv zeta.
  rewrite subscheck_rows, valscheck_column, sizecheck_shape.
  set (p := zlen subs). set (k := zlen (hd [] subs)).
  assert (Hp : 0 <= p) by (unfold p, zlen; lia). assert (Hk : 0 <= k) by (unfold k, zlen; lia).
  destruct (Z.eqb_spec (p * k) 0) as [E|E].
  - rewrite E. cbn [orb andb Z.ltb Z.compare chk andthen].
    rewrite chk_all_ok. destruct (chk (all_pos s)) as [[]|]; reflexivity.
  - assert (Hpk : 0 < p * k) by nia. destruct (Z.ltb_spec 0 (p * k)); [|lia]. cbn [orb andb].
    apply res_unit_eq. okb.
    assert (E1 : is_ok (if (1 <? p * k) && negb (nvals =? p) then Err else Ok tt) = is_ok (if 1 <? p * k then chk (nvals =? p) else Ok tt))
      by (destruct (1 <? p * k), (nvals =? p); reflexivity).
    assert (E2 : is_ok (if ndim s <? k then Err else Ok tt) = (k <=? ndim s))
      by (destruct (Z.ltb_spec (ndim s) k), (Z.leb_spec k (ndim s)); try reflexivity; lia).
    rewrite E1, E2. reflexivity.
Qed.

Definition from_aggregator_stmt : Prop := forall s subs nvals, guard_from_aggregator s subs nvals = decide (pre_sptensor_ctor s subs nvals).
Theorem from_aggregator_refuted : ~ from_aggregator_stmt.
Proof. intros H. specialize (H [2; 3] [] 2). vm_compute in H. discriminate. Qed.

Theorem from_aggregator_partial s subs nvals :
  all_pos s = true -> subs <> [] -> hd [] subs <> [] ->
  (forall row, In row subs -> zlen row = zlen (hd [] subs)) ->
  guard_from_aggregator s subs nvals = decide (pre_sptensor_ctor s subs nvals).
Proof. intros. rewrite from_aggregator_gen_hand. now apply from_aggregator_hand_partial. Qed.

(* what the generated helpers decide on the arguments from_aggregator hands them *)
Theorem from_aggregator_gen_checks s subs nvals :
  okres (tt_subscheck (nd_ints [zlen subs; zlen (hd [] subs)] (concat subs)) false) =
    chk ((zlen subs * zlen (hd [] subs) =? 0) || forallb (forallb (fun x => 0 <=? x)) subs) /\
  okres (tt_valscheck (nd_ints [nvals; 1] (np_full nvals 0)) false) = Ok tt /\
  okres (tt_sizecheck (nd_ints [ndim s] s) false) = chk (all_pos s).
Proof. split; [apply subscheck_rows|split; [apply valscheck_column|apply sizecheck_shape]]. Qed.

(* ---- (b) ktensor.redistribute over the generated method ---- *)
Definition kt_sizes (k : ktz) : vec := map (fun F : mat => zlen F) (kt_factors k).

Theorem redistribute_gen_guard (k : ktz) (mode : Z) :
  (forall row, In row (znth [] (kt_factors k) mode) -> length row = length (kt_weights k)) ->
  okres (ktensor_redistribute k mode) = guard_mode (kt_sizes k) mode /\
  okres (ktensor_redistribute k mode) = decide (pre_mode (kt_sizes k) mode).
Proof.
  intros Hrows. rewrite <- mode_decides. split; [|].
  all: rewrite (redistribute_prim k mode Hrows); unfold guard_mode, kt_redistribute_ok; rewrite zmem_arange;
    unfold in_range, ndim, kt_sizes, zlen; rewrite map_length;
    destruct ((0 <=? mode) && (mode <? Z.of_nat (length (kt_factors k)))); reflexivity.
Qed.

(* a rejected request yields no new state (the method is a function of the receiver: the receiver itself is never touched), and an
   out-of-range mode is always rejected *)
Theorem redistribute_gen_rejects (k : ktz) (mode : Z) :
  pre_mode (kt_sizes k) mode = false -> ktensor_redistribute k mode = Err.
Proof.
  intros H. unfold ktensor_redistribute, kt_ndims. unfold pre_mode, in_range, ndim, kt_sizes, zlen in H. rewrite map_length in H.
  unfold zlen. rewrite H. reflexivity.
Qed.

(* ---- (c) the answered sets of the two constructors with a known finding, exactly (the trigger regions of C19-N11 / C19-N18 are
   "answered although the precondition fails") ---- *)
(* tenmat(data, rdims, cdims, tshape) is answered exactly when the mode lists partition the modes and the ELEMENT COUNT of the data
   is prod(tshape): requests with a partition, the right count and another matrix shape are the region of C19-N11 *)
Theorem tenmat_ctor_exact d rd cd ts :
  guard_tenmat_ctor d rd cd ts = decide (is_permb (ndim ts) (rd ++ cd) && (rows d * cols d =? zprod ts)).
Proof.
  apply decide_by. unfold guard_tenmat_ctor. rewrite gather_both. okb. rewrite is_ok_partition by apply ndim_nonneg.
  destruct (is_permb (ndim ts) (rd ++ cd)) eqn:HP; [|now rewrite !andb_false_r].
  pose proof (is_permb_nonneg _ _ HP) as Hr.
  assert (Hr1 : forall x, In x rd -> 0 <= x < ndim ts) by (intros; apply Hr, in_or_app; auto).
  assert (Hr2 : forall x, In x cd -> 0 <= x < ndim ts) by (intros; apply Hr, in_or_app; auto).
  rewrite !forallb_idx_ok_range by assumption.
  rewrite !map_szw_nonneg by (intros x Hx; first [apply Hr1 in Hx|apply Hr2 in Hx]; lia).
  rewrite (zprod_partition ts rd cd HP). cbn [andb]. rewrite !andb_true_r.
  rewrite (Z.eqb_sym (zprod ts)). now destruct (rows d * cols d =? zprod ts).
Qed.

Definition n11_region (d : shp2) (rd cd ts : vec) : bool :=
  is_permb (ndim ts) (rd ++ cd) && (rows d * cols d =? zprod ts) &&
  negb ((rows d =? zprod (pickz ts rd)) && (cols d =? zprod (pickz ts cd))).

Theorem tenmat_ctor_gap d rd cd ts :
  (is_ok (guard_tenmat_ctor d rd cd ts) && negb (pre_tenmat_ctor d rd cd ts)) = n11_region d rd cd ts /\
  (pre_tenmat_ctor d rd cd ts = true -> guard_tenmat_ctor d rd cd ts = Ok tt).
Proof.
  rewrite tenmat_ctor_exact, is_ok_decide. unfold n11_region, pre_tenmat_ctor. split.
  - destruct (is_permb (ndim ts) (rd ++ cd)); cbn [andb negb]; [|reflexivity].
    destruct (rows d * cols d =? zprod ts); reflexivity.
  - intros H. apply andb_true_iff in H as [H Hc]. apply andb_true_iff in H as [HP Hrw].
    apply Z.eqb_eq in Hc. apply Z.eqb_eq in Hrw. rewrite HP, Hrw, Hc, (zprod_partition ts rd cd HP), Z.eqb_refl. reflexivity.
Qed.

(* sptensor.from_aggregator with a subscript array WITHOUT rows: only the shape is looked at, whatever the number of values
   (C19-N18: the region is "no rows, at least one value, positive sizes") *)
Theorem from_aggregator_no_rows s nvals : guard_from_aggregator s [] nvals = decide (all_pos s).
Proof.
  rewrite from_aggregator_gen_hand. unfold guard_from_aggregator_hand. cbn [zlen length hd Z.of_nat Z.mul Z.eqb].
  unfold chk, decide. reflexivity.
Qed.

(* ---- (d) new operations of wave 4 ---- *)
Lemma shape_eqb_sym a b : shape_eqb a b = shape_eqb b a.
Proof.
  destruct (shape_eqb a b) eqn:E.
  - apply shape_eqb_eq in E. subst. symmetry. apply shape_eqb_refl.
  - destruct (shape_eqb b a) eqn:F; [|reflexivity]. apply shape_eqb_eq in F. subst. now rewrite shape_eqb_refl in E.
Qed.

(* sptensor.innerprod(ktensor | ttensor) (C19-N21 repaired): the shape comparison precedes the early return of a receiver without entries *)
Theorem sptensor_innerprod_kt_decides s e u : guard_sptensor_innerprod_kt s e u = decide (pre_sptensor_innerprod s e u).
Proof.
  unfold guard_sptensor_innerprod_kt, guard_same_shape, pre_sptensor_innerprod, chk, decide, andthen.
  rewrite (shape_eqb_sym u s). destruct (shape_eqb s u), e; reflexivity.
Qed.

(* sptensor.contract with its range test (db95721): the checks come in another order than in tensor.contract *)
Theorem sptensor_contract_decides s i1 i2 : guard_sptensor_contract s i1 i2 = decide (pre_tensor_contract s i1 i2).
Proof.
  apply decide_by. unfold guard_sptensor_contract, pre_tensor_contract. cbv zeta. okb.
  destruct (in_range (ndim s) i1), (in_range (ndim s) i2), (sz s i1 =? sz s i2), (i1 =? i2); reflexivity.
Qed.

Theorem sptensor_nvecs_decides s n : guard_sptensor_nvecs s n = decide (pre_mode s n).
Proof. apply mode_decides. Qed.

(* sptensor.scale (C19-N24 repaired): a receiver without entries compares the factor's shape too *)
Theorem sptensor_scale_decides s e f d : guard_sptensor_scale s e f d = decide (pre_sptensor_scale s e f d).
Proof.
  unfold guard_sptensor_scale, pre_sptensor_scale, pre_scale. destruct (modes_ok (ndim s) d) eqn:Hm.
  - apply modes_ok_spec in Hm as [Hr Hn]. rewrite (dimscheck_dims (ndim s) None d).
    + cbn [andb]. destruct e, (shape_eqb f (pickz s (np_sort d))); reflexivity.
    + repeat split; auto; apply Hr; auto.
  - now rewrite dimscheck_rejects_bad_modes.
Qed.

(* ---- ktensor.update (guard = the validation pass of b9311d6) ---- *)
Lemma strict_asc_combine l : forallb (fun p => fst p <? snd p) (combine l (tl l)) = strict_asc l.
Proof.
  induction l as [|x l IH]; [reflexivity|]. destruct l as [|y l]; [reflexivity|].
  change (tl (x :: y :: l)) with (y :: l). change (tl (y :: l)) with l in IH.
  change (combine (x :: y :: l) (y :: l)) with ((x, y) :: combine (y :: l) l).
  cbn [forallb fst snd]. rewrite IH. reflexivity.
Qed.

Lemma upd_validate_spec s R modes acc :
  upd_validate s R modes acc =
  if forallb (upd_mode_ok (ndim s)) modes then Ok (acc + zsum (map (upd_need s R) modes)) else Err.
Proof.
  revert acc. induction modes as [|k r IH]; intros acc; cbn [upd_validate forallb map zsum fold_right].
  - f_equal. lia.
  - unfold upd_mode_ok at 1, upd_need at 1, in_range. destruct (Z.eqb_spec k (-1)) as [E|E]; cbn [orb andb].
    + rewrite IH. destruct (forallb _ r); [|reflexivity]. f_equal. fold (zsum (map (upd_need s R) r)). lia.
    + destruct ((0 <=? k) && (k <? ndim s)); cbn [andb]; [|reflexivity].
      rewrite IH. destruct (forallb _ r); [|reflexivity]. f_equal. fold (zsum (map (upd_need s R) r)). lia.
Qed.

Theorem ktensor_update_decides s R modes dlen : guard_ktensor_update s R modes dlen = decide (pre_ktensor_update s R modes dlen).
Proof.
  unfold guard_ktensor_update, pre_ktensor_update. rewrite strict_asc_combine, upd_validate_spec.
  destruct (strict_asc modes); cbn [chk andthen andb decide]; [|reflexivity].
  destruct (forallb (upd_mode_ok (ndim s)) modes); cbn [andb]; [|reflexivity].
  rewrite Z.add_0_l. destruct (Z.ltb_spec dlen (zsum (map (upd_need s R) modes))), (Z.leb_spec (zsum (map (upd_need s R) modes)) dlen);
    try reflexivity; lia.
Qed.

(* ---- mask ---- *)
Theorem mask_decides s w : guard_mask s w = decide (pre_mask s w).
Proof.
  unfold guard_mask, pre_mask. destruct (zlen w =? zlen s); cbn [negb orb andb]; [|reflexivity].
  induction (combine w s) as [|[a b] l IH]; [reflexivity|]. cbn [existsb forallb fst snd].
  rewrite Z.gtb_ltb. destruct (Z.ltb_spec b a), (Z.leb_spec a b); try lia; cbn [orb andb]; [reflexivity|exact IH].
Qed.
