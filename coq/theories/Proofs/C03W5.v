(* Proofs/C03W5.v — wave 5: the repaired S * K (filter + early return), list for list; sparse / dense as the code is, list for
   list and the exact class of finding C03-N5 position by position. *)
From Coq Require Import List Arith Lia Bool ZArith Ring QArith Qcanon.
From PV Require Import Base.Index Base.Sum Np.Array Model.Sparse Model.Repr Model.Harness Model.C03Ops Model.C03Gen Model.C03More
                       Model.C03Chk Model.C03Chk2 Model.C03Kr Model.C03W5 Proofs.C03Lemmas Proofs.C03Proofs Proofs.C03More Proofs.C03Kr.
Import ListNotations.

Section W5.
Variable V : Type.
Variables (v0 v1 : V) (vadd vmul vsub : V -> V -> V) (vopp : V -> V) (isz : V -> bool).
Hypothesis Vring : ring_theory v0 v1 vadd vmul vsub vopp (@eq V).
Hypothesis isz_spec : forall v, isz v = true <-> v = v0.
Notation denk := (den_k v0 v1 vadd vmul).

(* the repaired S * K list for list: the stored rows of S, in their stored order, whose product x * K[s] is not zero, each
   with that product *)
Theorem impl_mul_k_filtered_rows (A : sparse V) (K : ktensor V) : wf_struct A -> kshape K = sshape A ->
  impl_mul_k_filtered v0 vadd vmul isz A K =
  of_entries (sshape A) (drop_zeros isz (map (fun e => (fst e, vmul (snd e) (denk K (fst e)))) (entries A))).
Proof.
  intros W HS. pose proof W as (HL & _ & _). unfold impl_mul_k_filtered.
  rewrite (mul_k_vals_eq V v0 v1 vadd vmul vsub vopp Vring A K W HS).
  rewrite combine_zipw by auto. reflexivity.
Qed.

(* the early return `if self.nnz == 0: return self.copy()` agrees with the loops: nothing stored in, nothing stored out *)
Theorem impl_mul_k_filtered_empty (s : shape) (K : ktensor V) :
  impl_mul_k_filtered v0 vadd vmul isz (mkSp s [] []) K = mkSp s [] [].
Proof.
  unfold impl_mul_k_filtered, mul_k_vals. cbn [ssubs svals sshape combine].
  reflexivity.
Qed.

Theorem impl_div_k_empty {X} (dv : V -> V -> X) (s : shape) (K : ktensor V) :
  impl_div_k v0 v1 vadd vmul dv (mkSp s [] []) K = mkSp s [] [].
Proof. reflexivity. Qed.

Theorem kruskal_empty_operand {X} (dv : V -> V -> X) (s : shape) (K : ktensor V) :
  impl_mul_k_filtered v0 vadd vmul isz (mkSp s [] []) K = mkSp s [] [] /\
  impl_div_k v0 v1 vadd vmul dv (mkSp s [] []) K = mkSp s [] [].
Proof. split; [apply impl_mul_k_filtered_empty|apply impl_div_k_empty]. Qed.
End W5.

Local Open Scope Z_scope.

Lemma zisz_spec5 : forall v, zisz v = true <-> v = 0.
Proof. intros v; unfold zisz; apply Z.eqb_eq. Qed.

(* integer operands: fully well-formed, the element-wise product at every position *)
Theorem zmul_kf_correct (A : sparse Z) (K : ktensor Z) : wf_struct A -> kshape K = sshape A ->
  wf_sp zisz (zmul_kf A K) /\ sshape (zmul_kf A K) = sshape A /\
  forall i, zden_sp (zmul_kf A K) i = zden_sp A i * zden_k K i.
Proof. exact (impl_mul_k_filtered_correct Z 0 1 Z.add Z.mul Z.sub Z.opp zisz Zth zisz_spec5 A K). Qed.

Lemma kf_rows_aux (f : idx -> Z) (subs : list idx) (vals : list Z) : length subs = length vals -> Forall (fun v => zisz v = false) vals ->
  map fst (drop_zeros zisz (map (fun e => (fst e, snd e * f (fst e))) (combine subs vals))) =
  filter (fun s => negb (f s =? 0)) subs.
Proof.
  revert vals; induction subs as [|s subs IH]; intros [|x vals] HL Hnz; try discriminate; [reflexivity|].
  inversion Hnz as [|? ? Hx Hr]; subst. cbn in HL. cbn [combine map drop_zeros filter fst snd].
  unfold drop_zeros in IH. rewrite <- (IH vals) by (auto; lia).
  unfold zisz in Hx. apply Z.eqb_neq in Hx.
  unfold zisz at 1. destruct (f s =? 0) eqn:E.
  - apply Z.eqb_eq in E. rewrite E, Z.mul_0_r. reflexivity.
  - apply Z.eqb_neq in E. assert (N : x * f s <> 0) by (intros M; apply Z.mul_eq_0 in M; tauto).
    apply Z.eqb_neq in N. rewrite N. reflexivity.
Qed.

(* over Z (no zero divisors): the rows kept are exactly the stored rows, in stored order, at which the Kruskal tensor is not 0 *)
Theorem zmul_kf_rows (A : sparse Z) (K : ktensor Z) : wf_sp zisz A -> kshape K = sshape A ->
  ssubs (zmul_kf A K) = filter (fun s => negb (zden_k K s =? 0)) (ssubs A).
Proof.
  intros W HS. pose proof (wf_sp_struct zisz A W) as WS. destruct W as (HL & _ & _ & Hnz).
  unfold zmul_kf. rewrite (impl_mul_k_filtered_rows Z 0 1 Z.add Z.mul Z.sub Z.opp zisz Zth A K WS HS).
  unfold of_entries, entries. cbn [ssubs]. exact (kf_rows_aux (zden_k K) (ssubs A) (svals A) HL Hnz).
Qed.

(* ---- sparse / dense as the code is ---- *)
Lemma div_dense_vals (f : idx -> Z) (subs : list idx) (vals : list Z) : length subs = length vals ->
  map (fun e => xdivz (snd e) (f (fst e))) (combine subs vals) = zipw (fun x s => xdivz x (f s)) vals subs.
Proof.
  revert vals; induction subs as [|s subs IH]; intros [|x vals] HL; try discriminate; [reflexivity|].
  cbn. f_equal. apply IH. cbn in HL; lia.
Qed.

(* list for list: the stored rows of S in stored order, each with the IEEE quotient x / T[s]; nothing else is stored *)
Theorem zdiv_dense_rows (A : sparse Z) (T : dense Z) : wf_struct A ->
  zdiv_dense A T = mkSp (sshape A) (ssubs A) (zipw (fun x s => xdivz x (zden T s)) (svals A) (ssubs A)) /\
  forall i, xden_sp (zdiv_dense A T) i = if mem i (ssubs A) then xdivz (zden_sp A i) (zden T i) else x0.
Proof.
  intros W. pose proof W as (HL & _ & _). split.
  - unfold zdiv_dense, impl_div_dense, entries. f_equal. exact (div_dense_vals (zden T) (ssubs A) (svals A) HL).
  - intros i. unfold xden_sp, zdiv_dense, impl_div_dense.
    rewrite (@den_map_entries Z 0 xval x0 xdivz (fun e => xdivz (snd e) (den_dense 0 T (fst e))) A i W). reflexivity.
Qed.

(* the exact class of finding C03-N5, position by position: the quotient is the element-wise IEEE quotient at i iff the operands
   are not both 0 there *)
Theorem zdiv_dense_exact_iff (A : sparse Z) (T : dense Z) : wf_sp zisz A ->
  forall i, (xden_sp (zdiv_dense A T) i = xdivz (zden_sp A i) (zden T i) <-> ~ (zden_sp A i = 0 /\ zden T i = 0)).
Proof.
  intros W i. pose proof (wf_sp_struct zisz A W) as WS. split.
  - intros E (HA & HT). destruct (zdiv_dense_rows A T WS) as (_ & D). rewrite D in E.
    destruct (mem i (ssubs A)) eqn:M.
    + apply mem_spec in M. apply (in_subs_iff 0 zisz zisz_spec5 A i W) in M. apply M. exact HA.
    + rewrite HA, HT in E. vm_compute in E. discriminate.
  - intros H. destruct (div_dense_ieee_partial A T W) as (_ & _ & P). exact (P i H).
Qed.
