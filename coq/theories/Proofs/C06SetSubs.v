(* Proofs/C06SetSubs.v — wave 5: the positional transliteration of sptensor._set_subscripts (Model/C06SetSubs.v set_subs_AB: positions
   looked up once, Group A written in place, Group B deleted by position, Group C appended) on a well-formed receiver and pairwise
   distinct in-bounds targets: the result is well-formed (no explicit zero, no duplicate), keeps the shape, denotes the receiver's
   array with the target cells replaced — hence is the same result for every stored order of the receiver.  The other order of the
   groups (set_subs_BA: delete, then write at the stale positions) is NOT: counterexample.  Values: any type with a decidable zero. *)
From Coq Require Import List Arith Lia Bool Permutation.
From PV Require Import Base.Index Np.Array Model.Sparse Model.Harness Model.C06Ops Model.C06Stm Model.C06SetSubs
                       Proofs.C03Lemmas Proofs.C03Proofs Proofs.C06Proofs Proofs.C06Other Proofs.C06Stm.
Import ListNotations.

Lemma map_snd_combine {A B} (a : list A) : forall b : list B, length a = length b -> map snd (combine a b) = b.
Proof. induction a as [|x a IH]; intros [|y b] H; cbn in *; try discriminate; auto. f_equal. apply IH. lia. Qed.

Section SetSubsP.
Variable V : Type.
Variable v0 : V.
Variable isz : V -> bool.
Hypothesis isz_spec : forall v, isz v = true <-> v = v0.
Notation den := (den_sp v0).
Notation wf := (wf_sp isz).
Notation keys := (map (@fst idx V)).

(* ---- locate ---- *)
Lemma locate_some i : forall subs p, locate i subs = Some p -> p < length subs /\ nth p subs [] = i.
Proof.
  induction subs as [|j r IH]; intros p H; cbn [locate] in H; [discriminate|].
  destruct (locate i r) as [q|] eqn:E.
  - injection H as <-. destruct (IH q eq_refl) as [H1 H2]. cbn. split; [lia|exact H2].
  - destruct (idx_eqb i j) eqn:Eij; [|discriminate]. injection H as <-. apply idx_eqb_spec in Eij. cbn. split; [lia|now subst].
Qed.
Lemma locate_none i : forall subs, locate i subs = None -> ~ In i subs.
Proof.
  induction subs as [|j r IH]; intros H; cbn [locate] in H; [tauto|].
  destruct (locate i r) eqn:E; [discriminate|]. destruct (idx_eqb i j) eqn:Eij; [discriminate|].
  intros [Hj|Hr]; [subst; now rewrite idx_eqb_refl in Eij|now apply IH].
Qed.
Lemma locate_nth : forall subs p, NoDup subs -> p < length subs -> locate (nth p subs []) subs = Some p.
Proof.
  induction subs as [|j r IH]; intros p Hn Hp; cbn in Hp; [lia|]. inversion Hn as [|? ? Hj Hn']; subst.
  destruct p as [|p]; cbn [nth locate].
  - destruct (locate j r) eqn:E; [apply locate_some in E as [H1 H2]; exfalso; apply Hj; rewrite <- H2; now apply nth_In|].
    now rewrite idx_eqb_refl.
  - rewrite (IH p Hn') by lia. reflexivity.
Qed.
Lemma locate_in i subs : In i subs -> exists p, locate i subs = Some p.
Proof. intros H. destruct (locate i subs) eqn:E; [eauto|]. now apply locate_none in E. Qed.

(* ---- tlook ---- *)
Lemma tlook_in i (t : list (idx * V)) v : NoDup (keys t) -> In (i, v) t -> tlook i t = Some v.
Proof.
  induction t as [|[j w] r IH]; intros Hn Hin; [contradiction|]. cbn [map fst] in Hn. inversion Hn as [|? ? Hj Hn']; subst.
  cbn [tlook]. destruct Hin as [E|Hin].
  - inversion E; subst. now rewrite idx_eqb_refl.
  - rewrite idx_eqb_neq; [now apply IH|]. intros E. apply Hj. rewrite <- E. change i with (fst (i, v)). now apply in_map.
Qed.
Lemma tlook_some i (t : list (idx * V)) v : tlook i t = Some v -> In (i, v) t.
Proof.
  induction t as [|[j w] r IH]; cbn [tlook]; [discriminate|]. destruct (idx_eqb i j) eqn:E.
  - intros H. injection H as <-. apply idx_eqb_spec in E. subst. now left.
  - intros H. right. now apply IH.
Qed.
Lemma tlook_none i (t : list (idx * V)) : tlook i t = None -> ~ In i (keys t).
Proof.
  induction t as [|[j w] r IH]; cbn [tlook map fst]; [tauto|]. destruct (idx_eqb i j) eqn:E; [discriminate|].
  intros H [Hj|Hr]; [subst; now rewrite idx_eqb_refl in E|now apply IH].
Qed.
Lemma tlook_assign (f : idx -> V) (t : list (idx * V)) i : NoDup (keys t) ->
  assign_den f t i = match tlook i t with Some v => v | None => f i end.
Proof.
  intros Hn. unfold assign_den. destruct (tlook i t) as [v|] eqn:E.
  - apply last_match_in; auto. now apply tlook_some.
  - apply last_match_notin. intros e He Hfe. apply (tlook_none i t E). rewrite <- Hfe. now apply in_map.
Qed.

(* ---- the three groups, read off the tagged targets ---- *)
Lemma in_tagged (t : list (idx * V)) subs x : In x (tagged t subs) <-> In (fst x) t /\ snd x = locate (fst (fst x)) subs.
Proof.
  unfold tagged. rewrite in_map_iff. split.
  - intros (e & <- & He). cbn. auto.
  - intros (He & Hs). exists (fst x). split; auto. destruct x as [e op]. cbn in *. now subst.
Qed.

Lemma in_removeB (t : list (idx * V)) subs p : In p (removeB isz (tagged t subs)) <->
  exists i v, In (i, v) t /\ locate i subs = Some p /\ isz v = true.
Proof.
  unfold removeB. rewrite in_flat_map. split.
  - intros ([[i v] op] & Hx & Hp). apply in_tagged in Hx as [Hx Hs]. cbn [fst snd] in *. subst op.
    destruct (locate i subs) as [q|] eqn:E; [|contradiction]. destruct (isz v) eqn:Ez; [|contradiction].
    destruct Hp as [<-|[]]. exists i, v. auto.
  - intros (i & v & Hin & E & Ez). exists ((i, v), Some p). split.
    + apply in_tagged. cbn. auto.
    + cbn [fst snd]. rewrite Ez. now left.
Qed.

Lemma in_addC (t : list (idx * V)) subs e : In e (addC isz (tagged t subs)) <-> In e t /\ locate (fst e) subs = None /\ isz (snd e) = false.
Proof.
  unfold addC. rewrite in_flat_map. split.
  - intros ([e' op] & Hx & He). apply in_tagged in Hx as [Hx Hs]. cbn [fst snd] in *. subst op.
    destruct (locate (fst e') subs) eqn:E; [contradiction|]. destruct (isz (snd e')) eqn:Ez; [contradiction|].
    destruct He as [<-|[]]. auto.
  - intros (Hin & E & Ez). exists (e, None). split.
    + apply in_tagged. cbn. auto.
    + cbn [fst snd]. rewrite Ez. now left.
Qed.

Lemma addC_keys_nodup (t : list (idx * V)) subs : NoDup (keys t) -> NoDup (keys (addC isz (tagged t subs))).
Proof.
  unfold addC, tagged. induction t as [|[j w] r IH]; intros Hn; [constructor|].
  cbn [map fst] in Hn. inversion Hn as [|? ? Hj Hn']; subst. cbn [map flat_map fst snd].
  destruct (locate j subs); [now apply IH|]. destruct (isz w); [now apply IH|]. cbn [app map fst]. constructor; [|now apply IH].
  intros Hin. apply Hj. apply in_map_iff in Hin as (e & <- & He). apply in_map. fold (tagged r subs) in He. fold (addC isz (tagged r subs)) in He.
  now apply in_addC in He as [He _].
Qed.

(* Group A: position q afterwards *)
Lemma scatterA_length tg : forall vals : list V, length (scatterA isz vals tg) = length vals.
Proof.
  unfold scatterA. induction tg as [|[[i v] op] tg IH]; intros vals; cbn [fold_left fst snd]; auto.
  destruct op as [p|]; [|apply IH]. destruct (isz v); [apply IH|]. rewrite IH. apply upd_length.
Qed.
Lemma scatterA_other tg q d : forall vals : list V,
  (forall x p, In x tg -> snd x = Some p -> isz (snd (fst x)) = false -> p <> q) -> nth q (scatterA isz vals tg) d = nth q vals d.
Proof.
  unfold scatterA. induction tg as [|[[i v] op] tg IH]; intros vals H; cbn [fold_left fst snd]; auto.
  assert (H' : forall x p, In x tg -> snd x = Some p -> isz (snd (fst x)) = false -> p <> q) by (intros; eapply H; eauto; now right).
  destruct op as [p|]; [|now apply IH]. destruct (isz v) eqn:Ez; [now apply IH|]. rewrite (IH _ H').
  assert (Hp : p <> q) by (apply (H ((i, v), Some p)); auto; now left).
  destruct (Nat.lt_ge_cases p (length vals)) as [Hl|Hl].
  - rewrite nth_upd by exact Hl. destruct (Nat.eqb_spec q p); [lia|reflexivity].
  - assert (E : upd vals p v = vals).
    { clear - Hl. revert p Hl. induction vals as [|x l IHl]; intros [|p] Hl; cbn in *; auto; try lia. f_equal. apply IHl. lia. }
    now rewrite E.
Qed.
Lemma scatterA_hit tg q d : forall (vals : list V) i v, q < length vals -> In ((i, v), Some q) tg -> isz v = false ->
  (forall x, In x tg -> snd x = Some q -> isz (snd (fst x)) = false -> x = ((i, v), Some q)) -> nth q (scatterA isz vals tg) d = v.
Proof.
  unfold scatterA. induction tg as [|[[j w] op] tg IH]; intros vals i v Hq Hin Ez Hu; [contradiction|]. cbn [fold_left fst snd].
  assert (Hu' : forall x, In x tg -> snd x = Some q -> isz (snd (fst x)) = false -> x = ((i, v), Some q)) by (intros; apply Hu; auto; now right).
  destruct (in_dec Nat.eq_dec 0 (if existsb (fun x => match snd x with Some p => Nat.eqb p q && negb (isz (snd (fst x))) | None => false end) tg then [0] else [])) as [Hex|Hnex].
  - (* a later tagged target still hits q: by uniqueness it is (i, v) *)
    destruct (existsb _ tg) eqn:Eex; [|contradiction]. apply existsb_exists in Eex as (x & Hx & Hxq).
    destruct x as [[i' v'] [p'|]]; cbn [fst snd] in Hxq; [|discriminate]. apply andb_true_iff in Hxq as [E1 E2].
    apply Nat.eqb_eq in E1. subst p'. apply negb_true_iff in E2.
    pose proof (Hu' _ Hx eq_refl E2) as Ex. inversion Ex; subst i' v'.
    destruct op as [p|].
    + destruct (isz w); [apply (IH vals i v); auto|]. apply (IH _ i v); auto. now rewrite upd_length.
    + apply (IH vals i v); auto.
  - (* no later target hits q: the head is the hit *)
    destruct (existsb _ tg) eqn:Eex; [exfalso; apply Hnex; now left|].
    assert (Hno : forall x p, In x tg -> snd x = Some p -> isz (snd (fst x)) = false -> p <> q).
    { intros x p Hx Hs Hz ->. assert (existsb (fun x => match snd x with Some p => Nat.eqb p q && negb (isz (snd (fst x))) | None => false end) tg = true).
      { apply existsb_exists. exists x. split; auto. rewrite Hs, Nat.eqb_refl, Hz. reflexivity. }
      congruence. }
    destruct Hin as [E|Hin].
    + inversion E; subst j w op. rewrite Ez. fold (scatterA isz (upd vals q v) tg). rewrite (scatterA_other tg q d _ Hno).
      rewrite nth_upd by exact Hq. now rewrite Nat.eqb_refl.
    + exfalso. apply (Hno _ q Hin eq_refl Ez). reflexivity.
Qed.

(* ---- the theorem ---- *)
Section Main.
Variables (S : sparse V) (t : list (idx * V)).
Hypothesis W : wf S.
Hypothesis Ht : NoDup (keys t).
Hypothesis Hb : forall e, In e t -> inb (sshape S) (fst e) = true.
Let subs := ssubs S.
Let vals := svals S.
Let n := length subs.
Let tg := tagged t subs.
Let vals1 := scatterA isz vals tg.
Let keep := keepB n (removeB isz tg).
Let new := addC isz tg.

Lemma W_len : length vals = n.
Proof. destruct W as (HL & _). unfold vals, n, subs. lia. Qed.
Lemma W_nodup : NoDup subs.
Proof. now destruct W as (_ & Hn & _). Qed.

(* F1: position p is deleted iff its subscript is assigned zero *)
Lemma removed_iff p : p < n -> (In p (removeB isz tg) <-> exists v, tlook (nth p subs []) t = Some v /\ isz v = true).
Proof.
  intros Hp. unfold tg. rewrite in_removeB. split.
  - intros (i & v & Hin & E & Ez). apply locate_some in E as [_ E]. rewrite E. exists v. split; auto. now apply tlook_in.
  - intros (v & E & Ez). exists (nth p subs []), v. split; [now apply tlook_some|]. split; auto. apply locate_nth; auto. apply W_nodup.
Qed.
(* F2: the value at position p after Group A *)
Lemma vals1_at p : p < n ->
  nth p vals1 v0 = match tlook (nth p subs []) t with Some v => if isz v then nth p vals v0 else v | None => nth p vals v0 end.
Proof.
  intros Hp. unfold vals1. destruct (tlook (nth p subs []) t) as [v|] eqn:E.
  - destruct (isz v) eqn:Ez.
    + apply scatterA_other. intros [[i w] op] q Hx Hs Hz ->. cbn [fst snd] in *. apply in_tagged in Hx as [Hx Hl]. cbn [fst snd] in *.
      rewrite Hs in Hl. symmetry in Hl. apply locate_some in Hl as [_ Hl]. subst i. rewrite (tlook_in _ _ _ Ht Hx) in E. congruence.
    + apply (scatterA_hit tg p v0 vals (nth p subs []) v); auto.
      * rewrite W_len. exact Hp.
      * apply in_tagged. cbn [fst snd]. split; [now apply tlook_some|]. symmetry. apply locate_nth; auto. apply W_nodup.
      * intros [[i w] op] Hx Hs Hz. cbn [fst snd] in *. apply in_tagged in Hx as [Hx Hl]. cbn [fst snd] in *. subst op.
        pose proof Hs as Hs'. apply locate_some in Hs' as [_ Hi]. subst i. rewrite (tlook_in _ _ _ Ht Hx) in E. injection E as <-. now rewrite Hs.
  - apply scatterA_other. intros [[i w] op] q Hx Hs Hz ->. cbn [fst snd] in *. apply in_tagged in Hx as [Hx Hl]. cbn [fst snd] in *.
    rewrite Hs in Hl. symmetry in Hl. apply locate_some in Hl as [_ Hl]. subst i. rewrite (tlook_in _ _ _ Ht Hx) in E. discriminate.
Qed.

Lemma in_keep p : In p keep <-> p < n /\ ~ In p (removeB isz tg).
Proof.
  unfold keep, keepB. rewrite filter_In, in_seq. split.
  - intros (Hp & Hx). split; [lia|]. intros Hin. apply negb_true_iff in Hx.
    assert (existsb (Nat.eqb p) (removeB isz tg) = true) by (apply existsb_exists; exists p; split; auto; apply Nat.eqb_refl). congruence.
  - intros (Hp & Hx). split; [lia|]. apply negb_true_iff. destruct (existsb (Nat.eqb p) (removeB isz tg)) eqn:E; auto.
    apply existsb_exists in E as (q & Hq & Epq). apply Nat.eqb_eq in Epq. subst q. contradiction.
Qed.
Lemma keep_nodup : NoDup keep.
Proof. unfold keep, keepB. apply NoDup_filter. apply seq_NoDup. Qed.

Definition L1 : list (idx * V) := map (fun p => (nth p subs [], nth p vals1 v0)) keep.
Lemma L1_keys_nodup : NoDup (keys L1).
Proof.
  unfold L1. rewrite map_map. cbn [fst]. pose proof keep_nodup as Hk.
  assert (Hlt : forall p, In p keep -> p < n) by (intros p Hp; now apply in_keep in Hp).
  induction keep as [|p k IH]; cbn [map]; constructor.
  - inversion Hk as [|? ? Hp Hk']; subst. intros Hin. apply in_map_iff in Hin as (q & Eq & Hq).
    assert (q = p); [|subst; contradiction].
    pose proof W_nodup as Hn. rewrite NoDup_nth in Hn. apply (Hn q p); [apply Hlt; now right|apply Hlt; now left|exact Eq].
  - inversion Hk; subst. apply IH; auto. intros; apply Hlt; now right.
Qed.
Lemma L1_keys_in i : In i (keys L1) -> In i subs.
Proof.
  unfold L1. rewrite map_map. cbn [fst]. intros Hin. apply in_map_iff in Hin as (p & <- & Hp). apply in_keep in Hp as [Hp _]. now apply nth_In.
Qed.

Lemma result_entries : entries (set_subs_AB v0 isz S t) = L1 ++ new.
Proof.
  unfold set_subs_AB, entries. cbn [ssubs svals]. fold subs vals n tg vals1 keep new.
  rewrite combine_app by (now rewrite !map_length). f_equal.
  - unfold L1. clear. induction keep as [|p k IH]; cbn; auto. now rewrite IH.
  - clear. induction new as [|[j w] r IH]; cbn; auto. now rewrite IH.
Qed.

Lemma last_match_app' i (l1 l2 : list (idx * V)) d : last_match i (l1 ++ l2) d = last_match i l2 (last_match i l1 d).
Proof. revert d. induction l1 as [|[j v] r IH]; intros d; cbn; auto. Qed.

Theorem set_subs_AB_den i : den (set_subs_AB v0 isz S t) i = assign_den (den S) t i.
Proof.
  rewrite (tlook_assign (den S) t i Ht). unfold den_sp at 1. rewrite result_entries, last_match_app'.
  destruct (in_dec (list_eq_dec Nat.eq_dec) i subs) as [Hin|Hnin].
  - (* stored at position p *)
    destruct (In_nth subs i [] Hin) as (p & Hp & Ep). fold n in Hp.
    assert (Hnew : forall e, In e new -> fst e <> i).
    { intros e He E. apply in_addC in He as (_ & Hl & _). apply locate_none in Hl. rewrite E in Hl. contradiction. }
    rewrite (last_match_notin i new _ Hnew).
    assert (Hold : den S i = nth p vals v0).
    { apply (den_sp_in v0 isz S i _ W). unfold entries. fold subs vals. rewrite <- Ep.
      rewrite <- (combine_nth subs vals p [] v0) by (now rewrite W_len). apply nth_In. rewrite combine_length, W_len. fold n. lia. }
    pose proof (vals1_at p Hp) as Hv. pose proof (removed_iff p Hp) as Hr. rewrite Ep in Hv, Hr.
    destruct (tlook i t) as [v|] eqn:E.
    + destruct (isz v) eqn:Ez.
      * (* deleted *)
        rewrite last_match_notin; [symmetry; now apply isz_spec|]. intros e He Hfe. unfold L1 in He. apply in_map_iff in He as (q & <- & Hq).
        cbn [fst] in Hfe. apply in_keep in Hq as [Hq Hnr].
        assert (q = p).
        { pose proof W_nodup as Hn. rewrite NoDup_nth in Hn. apply (Hn q p); auto. now rewrite Ep. }
        subst q. apply Hnr. apply Hr. exists v. auto.
      * (* overwritten in place *)
        apply (last_match_in i v L1 v0 L1_keys_nodup). unfold L1. apply in_map_iff. exists p. split; [now rewrite Ep, Hv|].
        apply in_keep. split; auto. intros Hx. apply Hr in Hx as (v' & Ev & Ez'). congruence.
    + (* untouched *)
      rewrite Hold. apply (last_match_in i _ L1 v0 L1_keys_nodup). unfold L1. apply in_map_iff. exists p. split; [now rewrite Ep, Hv|].
      apply in_keep. split; auto. intros Hx. apply Hr in Hx as (v' & Ev & _). discriminate.
  - (* not stored *)
    rewrite (last_match_notin i L1 v0) by (intros e He Hfe; apply Hnin; apply L1_keys_in; rewrite <- Hfe; now apply in_map).
    rewrite (den_sp_notin v0 S i Hnin).
    destruct (tlook i t) as [v|] eqn:E.
    + destruct (isz v) eqn:Ez.
      * rewrite last_match_notin; [symmetry; now apply isz_spec|]. intros e He Hfe. apply in_addC in He as (Hin & _ & Hz).
        destruct e as [j w]. cbn [fst snd] in *. subst j. rewrite (tlook_in _ _ _ Ht Hin) in E. congruence.
      * apply last_match_in; [unfold new, tg; now apply addC_keys_nodup|]. apply in_addC. cbn [fst snd]. split; [now apply tlook_some|]. split; auto.
        destruct (locate i subs) eqn:El; auto. apply locate_some in El as [Hl El]. exfalso. apply Hnin. rewrite <- El. now apply nth_In.
    + apply last_match_notin. intros e He Hfe. apply in_addC in He as (Hin & _). apply (tlook_none i t E). rewrite <- Hfe. now apply in_map.
Qed.

Theorem set_subs_AB_wf : wf (set_subs_AB v0 isz S t) /\ sshape (set_subs_AB v0 isz S t) = sshape S.
Proof.
  split; [|reflexivity]. pose proof result_entries as RE.
  assert (Hlen : length (ssubs (set_subs_AB v0 isz S t)) = length (svals (set_subs_AB v0 isz S t))).
  { unfold set_subs_AB. cbn [ssubs svals]. now rewrite !app_length, !map_length. }
  assert (Hk : ssubs (set_subs_AB v0 isz S t) = keys (L1 ++ new)).
  { rewrite <- RE. symmetry. now apply map_fst_entries. }
  assert (Hv : svals (set_subs_AB v0 isz S t) = map snd (L1 ++ new)).
  { rewrite <- RE. unfold entries. symmetry. now apply map_snd_combine. }
  split; [exact Hlen|]. split; [|split].
  - rewrite Hk, map_app. apply NoDup_app_intro.
    + apply L1_keys_nodup.
    + unfold new, tg. now apply addC_keys_nodup.
    + intros i H1 H2. apply L1_keys_in in H1. apply in_map_iff in H2 as (e & <- & He). apply in_addC in He as (_ & Hl & _).
      now apply locate_none in Hl.
  - rewrite Hk, map_app. apply Forall_forall. intros i Hi. apply in_app_iff in Hi as [Hi|Hi].
    + apply L1_keys_in in Hi. destruct W as (_ & _ & Hbs & _). rewrite Forall_forall in Hbs. now apply Hbs.
    + apply in_map_iff in Hi as (e & <- & He). apply in_addC in He as (He & _). now apply Hb.
  - rewrite Hv, map_app. apply Forall_forall. intros v Hin. apply in_app_iff in Hin as [Hin|Hin].
    + unfold L1 in Hin. rewrite map_map in Hin. cbn [snd] in Hin. apply in_map_iff in Hin as (p & <- & Hp).
      apply in_keep in Hp as [Hp Hnr]. rewrite (vals1_at p Hp). pose proof (removed_iff p Hp) as Hr.
      assert (Hold : isz (nth p vals v0) = false).
      { destruct W as (_ & _ & _ & Hz). rewrite Forall_forall in Hz. apply Hz. apply nth_In. pose proof W_len as HW. unfold vals in HW. rewrite HW. exact Hp. }
      destruct (tlook (nth p subs []) t) as [w|] eqn:E; auto. destruct (isz w) eqn:Ez; auto.
    + apply in_map_iff in Hin as (e & <- & He). now apply in_addC in He as (_ & _ & Hz).
Qed.
End Main.

(* the same result for every stored order of the receiver *)
Theorem set_subs_AB_indep (S S' : sparse V) (t : list (idx * V)) : wf S -> wf S' -> sshape S' = sshape S ->
  Permutation (entries S) (entries S') -> NoDup (keys t) -> (forall e, In e t -> inb (sshape S) (fst e) = true) ->
  same_result v0 isz (set_subs_AB v0 isz S t) (set_subs_AB v0 isz S' t).
Proof.
  intros W W' Hs P Ht Hb.
  assert (Hb' : forall e, In e t -> inb (sshape S') (fst e) = true) by (rewrite Hs; exact Hb).
  destruct (set_subs_AB_wf S t W Ht Hb) as (W1 & H1). destruct (set_subs_AB_wf S' t W' Ht Hb') as (W2 & H2).
  apply (same_den_same_result v0 isz isz_spec _ _ W1 W2); [congruence|]. intros i _.
  rewrite (set_subs_AB_den S t W Ht i), (set_subs_AB_den S' t W' Ht i). unfold assign_den. f_equal.
  now apply (perm_den v0 isz).
Qed.
End SetSubsP.

Theorem set_subs_AB_correct (V : Type) (v0 : V) (isz : V -> bool) : (forall v, isz v = true <-> v = v0) ->
  forall (S : sparse V) (t : list (idx * V)), wf_sp isz S -> NoDup (map fst t) -> (forall e, In e t -> inb (sshape S) (fst e) = true) ->
  (wf_sp isz (set_subs_AB v0 isz S t) /\ sshape (set_subs_AB v0 isz S t) = sshape S) /\
  forall i, den_sp v0 (set_subs_AB v0 isz S t) i = assign_den (den_sp v0 S) t i.
Proof.
  intros Hz S t W Ht Hb. split; [now apply set_subs_AB_wf|]. intros i. now apply set_subs_AB_den.
Qed.

(* ---- with the de-duplication step in front: ANY list of in-bounds targets, a later assignment to the same subscript wins ---- *)
Section Dedup.
Variable V : Type.
Variable v0 : V.
Variable isz : V -> bool.
Hypothesis isz_spec : forall v, isz v = true <-> v = v0.

Lemma dedup_cons (e : idx * V) r : dedup_last (e :: r) = if existsb (idx_eqb (fst e)) (map fst (dedup_last r)) then dedup_last r else e :: dedup_last r.
Proof. reflexivity. Qed.
Lemma existsb_idx_in j (l : list idx) : existsb (idx_eqb j) l = true <-> In j l.
Proof.
  rewrite existsb_exists. split.
  - intros (x & Hx & E). apply idx_eqb_spec in E. now subst.
  - intros H. exists j. split; auto. apply idx_eqb_refl.
Qed.
Lemma dedup_incl (t : list (idx * V)) e : In e (dedup_last t) -> In e t.
Proof.
  induction t as [|x r IH]; [contradiction|]. rewrite dedup_cons. destruct (existsb _ _).
  - intros H. right. now apply IH.
  - intros [<-|H]; [now left|right; now apply IH].
Qed.
Lemma dedup_keys_nodup (t : list (idx * V)) : NoDup (map fst (dedup_last t)).
Proof.
  induction t as [|x r IH]; [constructor|]. rewrite dedup_cons. destruct (existsb _ _) eqn:E; auto.
  cbn [map]. constructor; auto. intros Hin. apply existsb_idx_in in Hin. congruence.
Qed.
Lemma last_match_default i : forall (r : list (idx * V)) d1 d2, In i (map fst r) -> last_match i r d1 = last_match i r d2.
Proof.
  induction r as [|[j v] r IH]; intros d1 d2 Hin; [contradiction|]. cbn [last_match]. destruct (idx_eqb i j) eqn:E.
  - destruct (in_dec (list_eq_dec Nat.eq_dec) i (map fst r)) as [Hr|Hr]; [now apply IH|].
    rewrite !last_match_notin; auto; intros e He Hfe; apply Hr; rewrite <- Hfe; now apply in_map.
  - destruct Hin as [Hj|Hr]; [cbn in Hj; subst; now rewrite idx_eqb_refl in E|now apply IH].
Qed.
Lemma last_match_dedup i : forall (t : list (idx * V)) d, last_match i (dedup_last t) d = last_match i t d.
Proof.
  induction t as [|[j v] r IH]; intros d; [reflexivity|]. rewrite dedup_cons. cbn [fst]. destruct (existsb _ _) eqn:E.
  - rewrite IH. cbn [last_match]. destruct (idx_eqb i j) eqn:Eij; auto. apply idx_eqb_spec in Eij. subst j.
    apply existsb_idx_in in E. apply last_match_default. apply in_map_iff in E as (e & <- & He). apply in_map. now apply dedup_incl.
  - cbn [last_match]. apply IH.
Qed.

Theorem set_subscripts_correct (S : sparse V) (t : list (idx * V)) : wf_sp isz S -> (forall e, In e t -> inb (sshape S) (fst e) = true) ->
  (wf_sp isz (set_subscripts v0 isz S t) /\ sshape (set_subscripts v0 isz S t) = sshape S) /\
  forall i, den_sp v0 (set_subscripts v0 isz S t) i = assign_den (den_sp v0 S) t i.
Proof.
  intros W Hb. unfold set_subscripts.
  destruct (set_subs_AB_correct V v0 isz isz_spec S (dedup_last t) W (dedup_keys_nodup t)) as (H1 & H2).
  - intros e He. apply Hb. now apply dedup_incl.
  - split; [exact H1|]. intros i. rewrite H2. unfold assign_den. apply last_match_dedup.
Qed.

Theorem set_subscripts_indep (S S' : sparse V) (t : list (idx * V)) : wf_sp isz S -> wf_sp isz S' -> sshape S' = sshape S ->
  Permutation (entries S) (entries S') -> (forall e, In e t -> inb (sshape S) (fst e) = true) ->
  same_result v0 isz (set_subscripts v0 isz S t) (set_subscripts v0 isz S' t).
Proof.
  intros W W' Hs P Hb. unfold set_subscripts. apply (set_subs_AB_indep V v0 isz isz_spec); auto.
  - apply dedup_keys_nodup.
  - intros e He. apply Hb. now apply dedup_incl.
Qed.
End Dedup.

(* ---- the other order of the groups (delete, then write at the positions looked up before the deletion) depends on the stored order ---- *)
From Coq Require Import ZArith.
Definition ssS1 : sparse Z := mkSp [3] [[0]; [1]; [2]] [1%Z; 5%Z; (-2)%Z].
Definition ssS2 : sparse Z := mkSp [3] [[2]; [0]; [1]] [(-2)%Z; 1%Z; 5%Z].
Definition ssT : list (idx * Z) := [([1], (-5)%Z); ([0], 0%Z)].

Lemma ss_wf1 : wf_sp zisz ssS1.
Proof.
  split; [reflexivity|]. split; [|split].
  - repeat constructor; cbn; intuition discriminate.
  - repeat constructor.
  - repeat constructor.
Qed.
Lemma ss_wf2 : wf_sp zisz ssS2.
Proof.
  split; [reflexivity|]. split; [|split].
  - repeat constructor; cbn; intuition discriminate.
  - repeat constructor.
  - repeat constructor.
Qed.
Lemma ss_perm : Permutation (entries ssS1) (entries ssS2).
Proof. cbn. symmetry. apply (Permutation_cons_append [([0], 1%Z); ([1], 5%Z)] ([2], (-2)%Z)). Qed.

Theorem set_subs_BA_order_dependent :
  ~ (forall (S S' : sparse Z) (t : list (idx * Z)), wf_sp zisz S -> wf_sp zisz S' -> sshape S' = sshape S ->
       Permutation (entries S) (entries S') -> NoDup (map fst t) -> (forall e, In e t -> inb (sshape S) (fst e) = true) ->
       same_result 0%Z zisz (set_subs_BA 0%Z zisz S t) (set_subs_BA 0%Z zisz S' t)).
Proof.
  intros H. destruct (H ssS1 ssS2 ssT ss_wf1 ss_wf2 eq_refl ss_perm) as (_ & _ & C & _).
  - repeat constructor; cbn; intuition discriminate.
  - intros e [<-|[<-|[]]]; reflexivity.
  - vm_compute in C. discriminate.
Qed.
