(* Props/C11.v — CP-APR (cp_apr mu / pdnr / pqnr). Only statements, `exact`, Print Assumptions.
   Partial by design (DESIGN §C11): division, normalisation scaling, |.|, max, Newton / L-BFGS directions are oracles with the
   stated sign contracts; descent / likelihood improvement is sampled, not proved. *)
From Coq Require Import List Arith Bool Ring ZArith.
From PV Require Import Base.Index Base.Sum Np.Array Model.Sparse Model.Repr Model.C01Conv Model.C14Nvecs Model.C11Apr Model.C11Sparse
                       Model.C11LogLik Model.C11Rows Proofs.C14Sums Proofs.C11Mass Proofs.C11Proofs Proofs.C11Pairing Proofs.C11LogLik
                       Proofs.C11RowsProofs Proofs.C11Replay.
Import ListNotations.

Section C11_ring.
Variable V : Type.
Variables (v0 v1 : V) (vadd vmul vsub : V -> V -> V) (vopp : V -> V).
Hypothesis Vring : ring_theory v0 v1 vadd vmul vsub vopp (@eq V).

(* sum of ALL entries of a Kruskal tensor = sum_r lambda_r prod_n (column sum of A_n[:, r])  — any ring, shape, rank *)
Theorem C11_mass_identity : forall K : ktensor V,
  sum_over v0 vadd (allsubs (kshape K)) (den_k v0 v1 vadd vmul K) =
  sum_n v0 vadd (krank K)
    (fun r => vmul (nth r (kweights K) v0) (prodv v1 vmul (map (fun A => colsum V v0 vadd A r) (kfactors K)))).
Proof. exact (mass_identity V v0 v1 vadd vmul vsub vopp Vring). Qed.

(* after the final normalisation (unit weights, unit column sums in modes > 0) the mass is sum(factor_matrices[0]) —
   the term tt_loglikelihood subtracts *)
Theorem C11_mass_factor0 : forall (w : list V) (A0 : list (list V)) (rest : list (list (list V))),
  (forall r, r < length w -> nth r w v0 = v1) ->
  (forall A r, In A rest -> r < length w -> colsum V v0 vadd A r = v1) ->
  sum_over v0 vadd (allsubs (kshape (mkK w (A0 :: rest)))) (den_k v0 v1 vadd vmul (mkK w (A0 :: rest))) =
  sum_n v0 vadd (length w) (fun r => colsum V v0 vadd A0 r).
Proof. exact (mass_factor0 V v0 v1 vadd vmul vsub vopp Vring). Qed.

(* ... also when components are dead: a component whose mode-0 column sums to 0 (its weight was 0 when
   Model.normalize(weight_factor=0, normtype=1) absorbed the weights) may have ANY column sums elsewhere — e.g. an all-zero
   column in a mode k >= 1 whose weight normalize() set to 0.  This is the state in which seeded/C11-A breaks the shortcut. *)
Theorem C11_mass_factor0_dead : forall (w : list V) (A0 : list (list V)) (rest : list (list (list V))),
  (forall r, r < length w ->
     nth r w v0 = v1 /\
     ((forall A, In A rest -> colsum V v0 vadd A r = v1) \/ colsum V v0 vadd A0 r = v0)) ->
  sum_over v0 vadd (allsubs (kshape (mkK w (A0 :: rest)))) (den_k v0 v1 vadd vmul (mkK w (A0 :: rest))) =
  sum_n v0 vadd (length w) (fun r => colsum V v0 vadd A0 r).
Proof. exact (mass_factor0_dead V v0 v1 vadd vmul vsub vopp Vring). Qed.

(* tt_loglikelihood, dense branch: dX = Data.to_tenmat([1]).data, dM = Model.to_tenmat([1]).data, then a double loop over (i, j)
   combining dX[i,j] with dM[i,j] (phi = "skip zero counts, else x * log m"): the double loop is the sum over ALL subscripts of
   phi (data, model) — each subscript exactly once, data and model values paired at the same subscript (C01's to_tenmat theorem) *)
Theorem C11_objective_pairing : forall (X M : dense V) (phi : V -> V -> V),
  wf_dense X -> wf_dense M -> dshape M = dshape X -> 1 < length (dshape X) ->
  exists MX MM R C,
    to_tenmat v0 X [1] (setdiff_modes (length (dshape X)) [1]) = Some MX /\
    to_tenmat v0 M [1] (setdiff_modes (length (dshape X)) [1]) = Some MM /\
    dshape (tm_data MX) = [R; C] /\ dshape (tm_data MM) = [R; C] /\
    sum_n v0 vadd R (fun i => sum_n v0 vadd C (fun j => phi (den_dense v0 (tm_data MX) [i; j]) (den_dense v0 (tm_data MM) [i; j]))) =
    sum_over v0 vadd (allsubs (dshape X)) (fun s => phi (den_dense v0 X s) (den_dense v0 M s)).
Proof. exact (objective_pairing_exists V v0 v1 vadd vmul vsub vopp Vring). Qed.

(* calculate_pi / calculate_phi, sparse branch (Pi rows per stored nonzero, v[k] from row xsubs[k] of the factor, accumarray over the
   mode-n subscripts) = the dense definition (Model/C11Apr.v calc_phi, the one C11_mu_nonneg is about) on the tensor the sparse
   holder denotes — any stored order, any division oracle that maps a zero count to zero *)
Variables (vdivmax : V -> V -> V) (isz : V -> bool).
Theorem C11_phi_sparse : forall (S : sparse V) (n : nat) (st : state) (a r : nat),
  wf_sp isz S -> n < length (sshape S) -> (forall v, vdivmax v0 v = v0) ->
  a < length (fac st n) -> length (fac st n) = nth n (sshape S) 0 -> r < rankof st ->
  mget v0 (calc_phi_sp_code v0 v1 vadd vmul vdivmax S n st) a r =
  mget v0 (calc_phi v0 v1 vadd vmul vdivmax (full v0 S) n st) a r.
Proof. exact (calc_phi_sp_code_full V v0 v1 vadd vmul vsub vopp Vring vdivmax isz). Qed.

(* tt_loglikelihood, sparse branch (Model/C11LogLik.v: rows of the factors gathered at the STORED subscripts, multiplied mode by mode in
   place, summed over the components): the sum over the stored entries of phi(vals[k], rowsum[k]) equals the sum over ALL subscripts of
   phi(data, model) on the tensor the holder denotes — any stored order, shape, rank, ring; phi 0 m = 0 is the docstring's
   "0 * log(x) = 0".  [isz] is arbitrary: with isz := fun _ => false the statement covers holders with explicitly stored zeros. *)
Theorem C11_loglik_sparse_terms : forall (phi : V -> V -> V) (S : sparse V) (K : ktensor V),
  wf_sp isz S -> kshape K = sshape S ->
  (forall r, r < krank K -> nth r (kweights K) v0 = v1) ->
  (forall m, phi v0 m = v0) ->
  loglik_sp_terms v0 v1 vadd vmul phi S K =
  sum_over v0 vadd (allsubs (sshape S)) (fun i => phi (den_sp v0 S i) (den_k v0 v1 vadd vmul K i)).
Proof. exact (loglik_sp_terms_correct V v0 v1 vadd vmul vsub vopp Vring isz). Qed.

(* ... and the whole returned value: in the state Model.normalize(weight_factor=0, normtype=1) leaves (unit weights; each component has
   unit column sums in the modes > 0 or a zero mode-0 column) the sparse branch returns sum_s phi(x_s, m_s) - sum_s m_s *)
Theorem C11_loglik_sparse : forall (phi : V -> V -> V) (S : sparse V) (w : list V) (A0 : list (list V)) (rest : list (list (list V))),
  let K := mkK w (A0 :: rest) in
  wf_sp isz S -> kshape K = sshape S ->
  Forall (fun row => length row = length w) A0 ->
  (forall r, r < length w ->
     nth r w v0 = v1 /\
     ((forall A, In A rest -> colsum V v0 vadd A r = v1) \/ colsum V v0 vadd A0 r = v0)) ->
  (forall m, phi v0 m = v0) ->
  loglik_sp v0 v1 vadd vmul vsub phi S K = loglik_spec v0 v1 vadd vmul vsub phi (den_sp v0 S) (sshape S) K.
Proof. exact (loglik_sp_correct V v0 v1 vadd vmul vsub vopp Vring isz). Qed.
End C11_ring.
Print Assumptions C11_loglik_sparse_terms.
Print Assumptions C11_loglik_sparse.
Print Assumptions C11_mass_identity.
Print Assumptions C11_mass_factor0.
Print Assumptions C11_mass_factor0_dead.
Print Assumptions C11_objective_pairing.
Print Assumptions C11_phi_sparse.

Section C11_order.
(* an ordered commutative ring: only the consequences of the order axioms that are used are assumed *)
Variable V : Type.
Variables (v0 v1 : V) (vadd vmul vsub : V -> V -> V).
Variable vle : V -> V -> Prop.
Hypothesis le_refl : vle v0 v0.
Hypothesis le_0_1 : vle v0 v1.
Hypothesis add_nonneg : forall a b, vle v0 a -> vle v0 b -> vle v0 (vadd a b).
Hypothesis mul_nonneg : forall a b, vle v0 a -> vle v0 b -> vle v0 (vmul a b).
(* oracles (floating-point division etc.) with their sign contracts *)
Variables (vdivmax vscale : V -> V -> V) (vabs : V -> V) (vmin vmax : V -> V -> V) (vgt0 : V -> bool) (vltb : V -> V -> bool).
Hypothesis divmax_nonneg : forall x v, vle v0 x -> vle v0 v -> vle v0 (vdivmax x v).
Hypothesis scale_nonneg : forall t a, vle v0 t -> vle v0 a -> vle v0 (vscale t a).
Hypothesis abs_nonneg : forall x, vle v0 (vabs x).
Hypothesis max_nonneg : forall a b, vle v0 a -> vle v0 b -> vle v0 (vmax a b).
Hypothesis gt0_nonneg : forall x, vgt0 x = true -> vle v0 x.
Variables (kappa kappatol stoptol : V).
Hypothesis kappa_nonneg : vle v0 kappa.
Variable maxinner : nat.

(* MU: for non-negative data and guess, after ANY number of sweeps / inner iterations the weights, the factors and Phi are
   non-negative; and the bookkeeping: one KKT entry per outer iteration performed, at least one, at most maxiters, each
   non-negative, fewer than maxiters only after convergence *)
Theorem C11_mu_nonneg : forall (X : dense V) (K : ktensor V) (maxiters : nat),
  (forall i, vle v0 (den_dense v0 X i)) ->
  Forall (vle v0) (kweights K) -> Forall (Forall (Forall (vle v0))) (kfactors K) ->
  let res := cp_apr_mu v0 v1 vadd vmul vsub vdivmax vscale vabs vmin vmax vgt0 vltb kappa kappatol stoptol maxinner X K maxiters in
  Forall (vle v0) (sw (fst res)) /\ Forall (Forall (Forall (vle v0))) (sA (fst res)) /\
  Forall (Forall (Forall (vle v0))) (sPhi (fst res)) /\
  Forall (vle v0) (snd res) /\ length (snd res) <= maxiters /\ (1 <= maxiters -> 1 <= length (snd res)) /\
  (length (snd res) < maxiters -> sconv (fst res) = true).
Proof.
  exact (mu_nonneg V v0 v1 vadd vmul vsub (vle v0) le_refl le_0_1 add_nonneg mul_nonneg vdivmax vscale vabs vmin vmax vgt0 vltb
           divmax_nonneg scale_nonneg abs_nonneg max_nonneg kappa kappatol stoptol kappa_nonneg maxinner).
Qed.

(* a strict COROLLARY of C11_mu_nonneg (its conjuncts 4-6), kept because the property text lists the bookkeeping separately *)
Theorem C11_bookkeeping : forall (X : dense V) (K : ktensor V) (maxiters : nat),
  (forall i, vle v0 (den_dense v0 X i)) ->
  Forall (vle v0) (kweights K) -> Forall (Forall (Forall (vle v0))) (kfactors K) ->
  let kkts := snd (cp_apr_mu v0 v1 vadd vmul vsub vdivmax vscale vabs vmin vmax vgt0 vltb kappa kappatol stoptol maxinner X K maxiters) in
  Forall (vle v0) kkts /\ length kkts <= maxiters /\ (1 <= maxiters -> 1 <= length kkts).
Proof.
  exact (mu_bookkeeping V v0 v1 vadd vmul vsub vle le_refl le_0_1 add_nonneg mul_nonneg vdivmax vscale vabs vmin vmax vgt0 vltb
           divmax_nonneg scale_nonneg abs_nonneg max_nonneg kappa kappatol stoptol kappa_nonneg maxinner).
Qed.

(* PDNR / PQNR: the projected step is non-negative whatever the search direction, step length, or fallback candidate *)
Theorem C11_proj_nonneg : forall (m d : list V) (alpha : V) (cand : list V),
  Forall (vle v0) (projected_step v0 vadd vmul vgt0 m d alpha) /\ Forall (vle v0) (map (project v0 vgt0) cand).
Proof.
  exact (fun m d alpha cand => conj (proj_nonneg V v0 vadd vmul (vle v0) le_refl vgt0 gt0_nonneg m d alpha)
                                    (proj_any V v0 (vle v0) le_refl vgt0 gt0_nonneg cand)).
Qed.

(* PDNR and PQNR: the outer-loop state machine of Model/C11Rows.v (zero-row patch, normalise, per mode: redistribute, per row: zero the
   row over an empty data slice or run the projected inner loop, write back, normalise; KKT / inner-iteration records; convergence
   test incl. the PDNR-inexact row tolerance).  For EVERY gradient, search direction (damped Newton, L-BFGS), step length, fallback
   decision and multiplicative factor (oracles that see the state, the position and the row's history), every data tensor and every
   non-negative guess: weights and factors are non-negative at the end, there is one non-negative KKT entry and one inner-iteration
   entry per outer iteration performed, at least one and at most maxiters, fewer only when the convergence flag is set.
   prestep = false: PDNR;  prestep = true (and inexact = false): PQNR. *)
Variables (vleb : V -> V -> bool) (isz : V -> bool) (vdiv100 : V -> V) (tiny : V).
Hypothesis tiny_nonneg : vle v0 tiny.
Variables (inexact prestep : bool).
Variables (grad dir phi : @state V -> ctx -> list (list V) -> list V -> list V).
Variable alpha : @state V -> ctx -> list (list V) -> list V -> V.
Variable fallback : @state V -> ctx -> list (list V) -> list V -> bool.
Theorem C11_rows_nonneg : forall (X : dense V) (K : ktensor V) (maxiters : nat),
  Forall (vle v0) (kweights K) -> Forall (Forall (Forall (vle v0))) (kfactors K) ->
  match cp_apr_rows v0 v1 vadd vmul vscale vabs vmin vmax vgt0 vltb vleb isz vdiv100 stoptol tiny maxinner inexact prestep
                    grad dir phi alpha fallback X K maxiters with
  | (st, kkts, inners) =>
      Forall (vle v0) (sw st) /\ Forall (Forall (Forall (vle v0))) (sA st) /\
      Forall (vle v0) kkts /\ length kkts <= maxiters /\ (1 <= maxiters -> 1 <= length kkts) /\ length inners = length kkts /\
      (length kkts < maxiters -> sconv st = true)
  end.
Proof.
  exact (rows_nonneg V v0 v1 vadd vmul (vle v0) le_refl le_0_1 add_nonneg mul_nonneg vscale vabs vmin vmax vgt0 vltb vleb isz vdiv100
           scale_nonneg abs_nonneg max_nonneg gt0_nonneg stoptol tiny tiny_nonneg maxinner inexact prestep grad dir phi alpha fallback).
Qed.

(* ... and every nInnerIters entry (the sum over the rows solved of the LAST inner index) is at most
   (sum of the mode sizes) * (max(maxinneriters, 2) - 1) — the bound the harness checks on observed PDNR / PQNR runs *)
Theorem C11_rows_inner_bound : forall (X : dense V) (K : ktensor V) (maxiters : nat),
  Forall (vle v0) (kweights K) -> Forall (Forall (Forall (vle v0))) (kfactors K) ->
  match cp_apr_rows v0 v1 vadd vmul vscale vabs vmin vmax vgt0 vltb vleb isz vdiv100 stoptol tiny maxinner inexact prestep
                    grad dir phi alpha fallback X K maxiters with
  | (_, _, inners) => Forall (fun c => c <= list_sum (kshape K) * Nat.pred (Nat.max maxinner 2)) inners
  end.
Proof.
  exact (rows_inner_bound V v0 v1 vadd vmul (vle v0) le_refl le_0_1 add_nonneg mul_nonneg vscale vabs vmin vmax vgt0 vltb vleb isz vdiv100
           scale_nonneg abs_nonneg max_nonneg gt0_nonneg stoptol tiny tiny_nonneg maxinner inexact prestep grad dir phi alpha fallback).
Qed.
End C11_order.
Print Assumptions C11_rows_nonneg.
Print Assumptions C11_rows_inner_bound.
Print Assumptions C11_mu_nonneg.
Print Assumptions C11_bookkeeping.
Print Assumptions C11_proj_nonneg.

(* non-vacuity: a concrete (non-symmetric) instance over nat *)
Example C11_example_mass :
  let K := mkK [2; 1] [[[1; 0]; [1; 2]]; [[3; 1]; [0; 1]; [1; 0]]] in
  sum_over 0 Nat.add (allsubs (kshape K)) (den_k 0 1 Nat.add Nat.mul K) = 20 /\
  sum_n 0 Nat.add (krank K) (fun r => nth r (kweights K) 0 * prodv 1 Nat.mul (map (fun A => colsum nat 0 Nat.add A r) (kfactors K))) = 20.
Proof. split; reflexivity. Qed.

Example C11_example_pairing :
  let X := mkDense [2; 3; 2] [1; 0; 3; 4; 0; 6; 7; 8; 0; 10; 11; 12] in
  let M := mkDense [2; 3; 2] [2; 3; 5; 7; 11; 13; 17; 19; 23; 29; 31; 37] in
  let phi := fun x m : nat => if Nat.eqb x 0 then 0 else x * (m + 7) in
  match to_tenmat 0 X [1] (setdiff_modes 3 [1]), to_tenmat 0 M [1] (setdiff_modes 3 [1]) with
  | Some MX, Some MM =>
      dshape (tm_data MX) = [3; 4] /\
      ddata (tm_data MX) = [1; 3; 0; 0; 4; 6; 7; 0; 11; 8; 10; 12] /\
      ddata (tm_data MM) = [2; 5; 11; 3; 7; 13; 17; 23; 31; 19; 29; 37] /\
      sum_n 0 Nat.add 3 (fun i => sum_n 0 Nat.add 4 (fun j => phi (den_dense 0 (tm_data MX) [i; j]) (den_dense 0 (tm_data MM) [i; j]))) =
      sum_over 0 Nat.add (allsubs (dshape X)) (fun s => phi (den_dense 0 X s) (den_dense 0 M s)) /\
      sum_over 0 Nat.add (allsubs (dshape X)) (fun s => phi (den_dense 0 X s) (den_dense 0 M s)) = 1903
  | _, _ => False end.
Proof. exact objective_pairing_ex. Qed.
Example C11_example_dead :
  let w := [1; 1]%Z in
  let A0 := [[2; 0]; [3; 0]]%Z in
  let A1 := [[1; 5]; [0; 7]; [0; 0]]%Z in
  sum_over 0%Z Z.add (allsubs (kshape (mkK w [A0; A1]))) (den_k 0%Z 1%Z Z.add Z.mul (mkK w [A0; A1])) = 5%Z /\
  sum_n 0%Z Z.add (length w) (fun r => colsum Z 0%Z Z.add A0 r) = 5%Z.
Proof. exact mass_factor0_dead_ex. Qed.
Example C11_example_phi_sparse :
  let S := mkSp [2; 3; 2] [[0; 0; 0]; [1; 2; 0]; [0; 1; 1]; [1; 2; 1]] [8; 18; 6; 27]%Z in
  let st := mkSt [1; 1]%Z [[[1; 2]; [3; 1]]; [[1; 1]; [2; 0]; [1; 3]]; [[2; 1]; [1; 2]]]%Z [] [] true in
  let dm := fun x v : Z => Z.div x (Z.max v 1) in
  calc_phi_sp_code 0%Z 1%Z Z.add Z.mul dm S 0 st = [[10; 2]; [7; 24]]%Z /\
  calc_phi_sp_code 0%Z 1%Z Z.add Z.mul dm S 1 st = [[4; 4]; [3; 12]; [21; 8]]%Z /\
  calc_phi_sp_code 0%Z 1%Z Z.add Z.mul dm S 2 st = [[8; 10]; [15; 9]]%Z.
Proof. exact calc_phi_sp_ex_value. Qed.
Example C11_example_loglik_sparse :
  let S := mkSp [2; 3; 2] [[1; 2; 0]; [0; 0; 0]; [1; 1; 1]; [1; 2; 1]; [0; 1; 1]] [18; 8; 0; 27; 6]%Z in
  let K := mkK [1; 1]%Z [[[1; 2]; [3; 1]]; [[1; 1]; [2; 0]; [1; 3]]; [[2; 1]; [1; 2]]]%Z in
  let phi := fun x m : Z => (x * (m + 7))%Z in
  loglik_sp_terms 0%Z 1%Z Z.add Z.mul phi S K = 862%Z /\
  sum_over 0%Z Z.add (allsubs (sshape S)) (fun i => phi (den_sp 0%Z S i) (den_k 0%Z 1%Z Z.add Z.mul K i)) = 862%Z /\
  map (fun e => ll_rowsum 0%Z 1%Z Z.add Z.mul (kfactors K) (krank K) (fst e)) (entries S) = [9; 4; 6; 9; 2]%Z.
Proof. exact loglik_sp_ex. Qed.
Example C11_example_rows :
  let X := mkDense [3; 2] [2; 0; 1; 3; 0; 0]%Z in
  let K := mkK [1; 2]%Z [[[1; 2]; [0; 0]; [2; 1]]; [[1; 1]; [3; 0]]]%Z in
  let zgrad := fun (st : @state Z) (c : ctx) (h : list (list Z)) (m : list Z) => map (fun x => x - 2 - Z.of_nat (snd c))%Z m in
  let zdir := fun (st : @state Z) (c : ctx) (h : list (list Z)) (m : list Z) => map (fun x => Z.of_nat (length h) - x)%Z m in
  let zphi := fun (st : @state Z) (c : ctx) (h : list (list Z)) (m : list Z) => map (fun x => 3 - x)%Z m in
  let zalpha := fun (st : @state Z) (c : ctx) (h : list (list Z)) (m : list Z) => 1%Z in
  let zfb := fun (st : @state Z) (c : ctx) (h : list (list Z)) (m : list Z) => Nat.eqb (snd c) 1 in
  (let '(st, k, i) := cp_apr_rows 0%Z 1%Z Z.add Z.mul (fun t a => a) Z.abs Z.min Z.max (Z.ltb 0) Z.ltb Z.leb (Z.eqb 0) (fun x => x / 100)%Z
                        1%Z 1%Z 3 true false zgrad zdir zphi zalpha zfb X K 4 in (sw st, sA st, k, i, sconv st)) =
    ([64; 64]%Z, [[[2; 2]; [0; 0]; [2; 2]]; [[2; 2]; [2; 2]]]%Z, [30; 6; 2; 6]%Z, [8; 4; 8; 8], false).
Proof. exact rows_ex_props. Qed.
