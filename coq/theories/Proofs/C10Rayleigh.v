(* Proofs/C10Rayleigh.v — the eigenvalue contract of Proofs/C10Concrete.v discharged from the MATRIX eigen-equation (wave 4).
   For a dense tensor Y of shape s, a mode k, G = the mode-k Gram matrix of Y (Model.C14Nvecs.gram_spec = what pyttb's
   to_tenmat / Yk Yk^T route computes, C14_gram_dense; = Model.C10Tucker.gram_den, the matrix the correspondence certifies:
   gram_den_is_spec) and a matrix W:
     rayleigh          : <Y x_k (w_j w_j^T), Y> = sum_a sum_c W[a,j] G[a,c] W[c,j]                      (every commutative ring)
     energies_eigen    : W^T W = I,  G W = W diag(mu)   ==>   ||Y x_k w_j w_j^T||^2 = mu_j  for every j  (over R)
   hence (emode_ok / eseq_ok / concrete_hosvd_eigen_bound) the end-to-end error bound of hosvd with NOTHING assumed but:
   W_k orthogonal, G_k W_k = W_k diag(mu_k) for the Gram matrix of the tensor hosvd looks at, rank by the transliterated rule on mu_k,
   factor U_k = W_k[:, 0:r_k], core = X x_n U_n^T: then ||X - full(T)||^2 <= tol^2 ||X||^2. *)
From Coq Require Import List Arith Lia Bool ZArith Reals Lra RealField Ring.
From PV Require Import Base.Index Base.Sum Np.Array Np.NpR Model.Sparse Model.Repr Model.C10Tucker Model.C14Nvecs
                       Proofs.C14Sums Proofs.C14Split Proofs.C14GramSp Proofs.C10Ttm Proofs.C10Proofs Proofs.C10Spectral Proofs.C10Proj
                       Proofs.C10ProjR Proofs.C10Recon Proofs.C10Concrete.
Import ListNotations.

Section Ray.
Variable V : Type.
Variables (v0 v1 : V) (vadd vmul vsub : V -> V -> V) (vopp : V -> V).
Hypothesis Vring : ring_theory v0 v1 vadd vmul vsub vopp (@eq V).
Add Ring Vr10r : Vring.
Notation SO := (sum_over v0 vadd).
Notation SN := (sum_n v0 vadd).
Notation den := (den_dense v0).
Notation mg := (mget v0).
Notation mproj := (mproj V v0 vadd vmul).
Notation dinner := (dinner V v0 vadd vmul).
Notation gspec := (gram_spec v0 vadd vmul).
Local Notation "x * y" := (vmul x y).
Local Notation "x + y" := (vadd x y).

Lemma gram_spec_sym s (X : idx -> V) n a b : gspec s X n a b = gspec s X n b a.
Proof. unfold gram_spec. apply sum_over_ext. intros i _. ring. Qed.

(* the two Gram definitions of the development agree: sum over the shape with mode n collapsed to size 1 (C10Tucker.gram_den)
   = sum over the remaining modes (C14Nvecs.gram_spec) *)
Lemma remove_set_nth n (s : list nat) r : n < length s -> remove_nth n (set_nth n r s) = remove_nth n s.
Proof.
  intros H. rewrite (set_nth_as_insert n s r H). apply remove_insert. rewrite remove_nth_length by exact H. lia.
Qed.

Theorem gram_den_is_spec s (X : idx -> V) n a b : n < length s ->
  gram_den v0 vadd vmul s X n a b = gspec s X n a b.
Proof.
  intros Hn. unfold gram_den, gram_spec.
  assert (Hl : n < length (set_nth n 1 s)) by (rewrite length_set_nth; auto).
  rewrite (sum_allsubs_split V v0 v1 vadd vmul vsub vopp Vring (set_nth n 1 s) n _ Hl).
  rewrite nth_set_nth_same by exact Hn. rewrite remove_set_nth by exact Hn.
  unfold sum_n. cbn [seq]. rewrite sum_over_cons, sum_over_nil.
  transitivity (SO (allsubs (remove_nth n s)) (fun i => X (insert_at n a i) * X (insert_at n b i))); [|reflexivity].
  assert (E : forall f g, (forall i, In i (allsubs (remove_nth n s)) -> f i = g i) -> SO (allsubs (remove_nth n s)) f + v0 = SO (allsubs (remove_nth n s)) g).
  { intros f g H. rewrite (sum_over_ext V v0 vadd _ f g H). ring. }
  apply E. intros i Hi. apply in_allsubs, inb_length in Hi. rewrite remove_nth_length in Hi by exact Hn.
  rewrite !set_nth_insert by lia. reflexivity.
Qed.

(* <Y x_n M, Y> = sum_a sum_c M[a,c] G[c,a] *)
Lemma dinner_mproj_gram s n (M : @matrix V) (Y : dense V) : n < length s ->
  dinner s (mproj s n M Y) Y =
  SN (nth n s 0) (fun a => SN (nth n s 0) (fun c => mg M a c * gspec s (den Y) n c a)).
Proof.
  intros Hn. unfold C10Proj.dinner. set (I := nth n s 0). set (rest := remove_nth n s).
  assert (E : forall x j, x < I -> In j (allsubs rest) ->
             den (mproj s n M Y) (insert_at n x j) = SN I (fun k => mg M x k * den Y (insert_at n k j))).
  { intros x j Hx Hj. apply in_allsubs in Hj. pose proof (inb_length _ _ Hj) as L.
    unfold rest in L. rewrite remove_nth_length in L by exact Hn.
    rewrite (den_mproj V v0 vadd vmul) by (apply inb_insert; auto). unfold ttm_den. fold I. apply sum_n_ext. intros k Hk.
    rewrite nth_insert_at by lia. rewrite set_nth_insert by lia. reflexivity. }
  rewrite (sum_allsubs_split V v0 v1 vadd vmul vsub vopp Vring s n _ Hn). fold I. fold rest.
  apply sum_n_ext. intros a Ha.
  transitivity (SO (allsubs rest) (fun j => SN I (fun c => mg M a c * (den Y (insert_at n c j) * den Y (insert_at n a j))))).
  { apply sum_over_ext. intros j Hj. rewrite (E a j Ha Hj).
    rewrite <- (sum_n_scale_r V v0 v1 vadd vmul vsub vopp Vring). apply sum_n_ext. intros c _. ring. }
  unfold sum_n. rewrite (sum_over_swap V v0 v1 vadd vmul vsub vopp Vring).
  apply sum_over_ext. intros c _. unfold gram_spec. fold rest.
  now rewrite (sum_over_scale_l V v0 v1 vadd vmul vsub vopp Vring).
Qed.

(* Rayleigh quotient of column j of W: <Y x_n (w_j w_j^T), Y> = w_j^T G w_j *)
Theorem rayleigh s n (W : @matrix V) (j : nat) (Y : dense V) : n < length s ->
  dinner s (mproj s n (rank1 V v0 vmul (nth n s 0) W j) Y) Y =
  SN (nth n s 0) (fun a => mg W a j * SN (nth n s 0) (fun c => gspec s (den Y) n a c * mg W c j)).
Proof.
  intros Hn. rewrite (dinner_mproj_gram s n _ Y Hn). apply sum_n_ext. intros a Ha.
  rewrite <- (sum_n_scale_l V v0 v1 vadd vmul vsub vopp Vring). apply sum_n_ext. intros c Hc.
  rewrite (mget_rank1 V v0 vmul) by auto. rewrite (gram_spec_sym s (den Y) n c a). ring.
Qed.

(* eigen-equation + unit column  ==>  the Rayleigh quotient is the eigenvalue *)
Theorem rayleigh_eigen s n (W : @matrix V) (j : nat) (mu : V) (Y : dense V) : n < length s ->
  (forall a, a < nth n s 0 -> SN (nth n s 0) (fun c => gspec s (den Y) n a c * mg W c j) = mu * mg W a j) ->
  SN (nth n s 0) (fun a => mg W a j * mg W a j) = v1 ->
  dinner s (mproj s n (rank1 V v0 vmul (nth n s 0) W j) Y) Y = mu.
Proof.
  intros Hn He Hu. rewrite (rayleigh s n W j Y Hn).
  transitivity (SN (nth n s 0) (fun a => mu * (mg W a j * mg W a j))).
  { apply sum_n_ext. intros a Ha. rewrite (He a Ha). ring. }
  rewrite (sum_n_scale_l V v0 v1 vadd vmul vsub vopp Vring), Hu. ring.
Qed.
End Ray.

(* ---------------------------------------------------------------------------------------- *)
(* over R                                                                                     *)
(* ---------------------------------------------------------------------------------------- *)
Local Open Scope R_scope.

Definition gramR (s : shape) (Y : dense R) (k a c : nat) : R := gram_spec 0 Rplus Rmult s (den_dense 0 Y) k a c.
(* G W = W diag(mu), entrywise, for the mode-k Gram matrix of Y *)
Definition eigen_eq (s : shape) (k : nat) (Y : dense R) (W : @matrix R) (mu : list R) : Prop :=
  forall a j, (a < nth k s 0)%nat -> (j < nth k s 0)%nat ->
  sum_n 0 Rplus (nth k s 0%nat) (fun c => gramR s Y k a c * mget 0 W c j) = nth j mu 0 * mget 0 W a j.

Lemma map_nth_seq (l : list R) : map (fun j => nth j l 0) (seq 0 (length l)) = l.
Proof.
  apply (nth_ext _ _ 0 0); [now rewrite map_length, seq_length|].
  intros n Hn. rewrite map_length, seq_length in Hn.
  rewrite (nth_indep _ 0 (nth (length l) l 0)) by (now rewrite map_length, seq_length).
  rewrite (map_nth (fun j => nth j l 0) (seq 0 (length l)) (length l) n). now rewrite seq_nth.
Qed.

(* the energies ||Y x_k w_j w_j^T||^2 ARE the eigenvalues *)
Theorem energies_eigen (s : shape) (k : nat) (W : @matrix R) (mu : list R) (Y : dense R) :
  (k < length s)%nat -> orthocolsR (nth k s 0%nat) (nth k s 0%nat) W -> length mu = nth k s 0%nat ->
  eigen_eq s k Y W mu -> energies s k W Y = mu.
Proof.
  intros Hk Hc Hl He. set (I := nth k s 0%nat) in *.
  rewrite <- (map_nth_seq mu), Hl. unfold energies. fold I. apply map_ext_in. intros j Hj. apply in_seq in Hj.
  assert (Ho : oproj (dense R) (subR s) (innerR s) (projR s k (rank1R I W j))).
  { apply oproj_mode; [exact Hk| |].
    - apply (rank1_sym R 0 1 Rplus Rmult Rminus Ropp RTheory).
    - apply (rank1_idem R 0 1 Rplus Rmult Rminus Ropp RTheory I I); [lia|exact Hc]. }
  rewrite <- (oproj_energy (dense R) (subR s) (innerR s) _ Y Ho).
  unfold innerR, projR, rank1R. fold I.
  apply (rayleigh_eigen R 0 1 Rplus Rmult Rminus Ropp RTheory s k W j (nth j mu 0) Y Hk).
  - fold I. intros a Ha. apply He; [exact Ha|lia].
  - fold I. rewrite (Hc j j) by lia. now rewrite Nat.eqb_refl.
Qed.

(* one mode of hosvd in LAPACK's terms: sorted eigenvalues mu, eigenvector matrix W, kept columns r *)
Record emode : Type := MkEMode { em_c : cmode; em_mu : list R }.
Definition emode_ok (s : shape) (t : R) (Y : dense R) (e : emode) : Prop :=
  let c := em_c e in
  (cm_k c < length s)%nat /\
  orthocolsR (nth (cm_k c) s 0%nat) (nth (cm_k c) s 0%nat) (cm_W c) /\ orthorowsR (nth (cm_k c) s 0%nat) (cm_W c) /\
  length (em_mu e) = nth (cm_k c) s 0%nat /\ eigen_eq s (cm_k c) Y (cm_W c) (em_mu e) /\
  auto_rank 0 Rplus Rltb (em_mu e) t = Some (cm_r c).
Fixpoint eseq_ok (s : shape) (t : R) (Y : dense R) (es : list emode) : Prop :=
  match es with [] => True | e :: es' => emode_ok s t Y e /\ eseq_ok s t (cm_proj s (em_c e) Y) es' end.
Definition enonseq_ok (s : shape) (t : R) (X : dense R) (es : list emode) : Prop := Forall (emode_ok s t X) es.

Lemma emode_ok_cmode_ok s t Y e : emode_ok s t Y e -> cmode_ok s t Y (em_c e).
Proof.
  intros (Hk & Hc & Hr & Hl & He & Hrank). repeat split; try assumption.
  now rewrite (energies_eigen s _ _ (em_mu e) Y Hk Hc Hl He).
Qed.

Lemma eseq_ok_cseq_ok s t : forall es Y, eseq_ok s t Y es -> cseq_ok s t Y (map em_c es).
Proof.
  induction es as [|e es IH]; intros Y H; [exact I|]. destruct H as (H0 & Hr). cbn [map cseq_ok]. split.
  - now apply emode_ok_cmode_ok.
  - now apply IH.
Qed.

Lemma enonseq_ok_cnonseq_ok s t X es : enonseq_ok s t X es -> cnonseq_ok s t X (map em_c es).
Proof.
  intros H. unfold cnonseq_ok. apply Forall_forall. intros c Hc. apply in_map_iff in Hc. destruct Hc as (e & <- & He).
  unfold enonseq_ok in H. rewrite Forall_forall in H. apply emode_ok_cmode_ok. now apply H.
Qed.

(* END TO END, in the terms of hosvd.py: for every position of dimorder an orthogonal W with G W = W diag(mu) for the Gram matrix G of the
   tensor hosvd looks at (Y after the shrinks so far when sequential — as an array of the ORIGINAL shape: Y x_k U_k U_k^T, which has the same
   Gram matrices in the other modes as the shrunk Y x_k U_k^T up to the isometry U_k; the data X otherwise), rank r by the transliterated
   rule with threshold tol^2 ||X||^2 / d, returned factor U_k = W[:, 0:r], returned core = X x_n U_n^T over all modes:
   the reconstruction core x_n U_n (ttensor.full) is within tol of X *)
Theorem concrete_hosvd_eigen_bound (sequential : bool) (X : dense R) (es : list emode) (Us : list (@matrix R)) (tolsq : R) :
  let s := dshape X in
  es <> [] -> NoDup (map (fun e => cm_k (em_c e)) es) -> length es = length s -> length Us = length s -> 0 <= tolsq ->
  (forall e, In e es -> let c := em_c e in
     nth (cm_k c) Us [] = leading R (cm_r c) (cm_W c) /\
     nrows (cm_W c) = nth (cm_k c) s 0%nat /\ ncols (leading R (cm_r c) (cm_W c)) = cm_r c) ->
  (let budget := tolsq * nrm2 (dense R) (innerR s) X / INR (length es) in
   if sequential then eseq_ok s budget X es else enonseq_ok s budget X es) ->
  let T := mkT (ttm_all 0 Rplus Rmult X (transposed 0 Us)) Us in
  nrm2 (dense R) (innerR s) (subR s X (tfull_ttm 0 Rplus Rmult T)) <= tolsq * nrm2 (dense R) (innerR s) X.
Proof.
  intros s Hne Hnd Hle HlU Htol HUs Hok T. cbv zeta in Hok.
  apply (concrete_hosvd_result_bound sequential X (map em_c es) Us tolsq).
  - destruct es; [contradiction|discriminate].
  - now rewrite map_map.
  - now rewrite map_length.
  - exact HlU.
  - exact Htol.
  - intros c Hc. apply in_map_iff in Hc. destruct Hc as (e & <- & He). apply (HUs e He).
  - cbv zeta. rewrite map_length. destruct sequential.
    + now apply eseq_ok_cseq_ok.
    + now apply enonseq_ok_cnonseq_ok.
Qed.

(* ---------------------------------------------------------------------------------------- *)
(* non-vacuity: non-sequential hosvd of the 2 x 3 array [[3,0,0],[0,1,0]], tol^2 = 1/2, dimorder (1, 0)                      *)
(* ---------------------------------------------------------------------------------------- *)
Definition exX : dense R := mkDense [2; 3]%nat [3; 0; 0; 1; 0; 0].
Definition exI2 : @matrix R := [[1; 0]; [0; 1]].
Definition exI3 : @matrix R := [[1; 0; 0]; [0; 1; 0]; [0; 0; 1]].
Definition exEs : list emode := [MkEMode (MkCMode 1 exI3 1) [9; 1; 0]; MkEMode (MkCMode 0 exI2 1) [9; 1]].
Definition exUs : list (@matrix R) := [[[1]; [0]]; [[1]; [0]; [0]]].

Lemma auto_rank_1 (l : list R) (a t : R) : t < a + sumR l -> Forall (fun x => 0 <= x) l -> sumR l <= t ->
  auto_rank 0 Rplus Rltb (a :: l) t = Some 1%nat.
Proof.
  intros H0 Hnn H1.
  assert (Hnn' : Forall (fun x => 0 <= x) (a :: l)).
  { constructor; [|exact Hnn]. pose proof (sumR_nonneg l Hnn). lra. }
  assert (Ht : 0 <= t) by (pose proof (sumR_nonneg l Hnn); lra).
  destruct (rank_choice_total (a :: l) t Ht H0) as (r & Hr).
  destruct (rank_choice (a :: l) t r Hnn' Ht Hr) as (Hpos & _ & _ & Hmin).
  destruct r as [|[|r]]; [lia|exact Hr|]. exfalso. specialize (Hmin 1%nat ltac:(lia)). cbn [skipn] in Hmin. lra.
Qed.

Example concrete_hosvd_example :
  let s := [2; 3]%nat in
  let T := mkT (ttm_all 0 Rplus Rmult exX (transposed 0 exUs)) exUs in
  enonseq_ok s (1 / 2 * nrm2 (dense R) (innerR s) exX / INR (length exEs)) exX exEs /\
  nrm2 (dense R) (innerR s) exX = 10 /\
  energies s 1 exI3 exX = [9; 1; 0] /\
  nrm2 (dense R) (innerR s) (subR s exX (tfull_ttm 0 Rplus Rmult T)) <= 1 / 2 * nrm2 (dense R) (innerR s) exX /\
  nrm2 (dense R) (innerR s) (subR s exX (tfull_ttm 0 Rplus Rmult T)) = 1.
Proof.
  intros s T.
  assert (Hn : nrm2 (dense R) (innerR s) exX = 10) by (unfold nrm2, innerR, dinner; cbn; lra).
  assert (O2 : orthocolsR 2 2 exI2).
  { intros j l Hj Hl. destruct j as [|[|j]], l as [|[|l]]; try lia; cbn; lra. }
  assert (R2 : orthorowsR 2 exI2).
  { intros j l Hj Hl. destruct j as [|[|j]], l as [|[|l]]; try lia; cbn; lra. }
  assert (O3 : orthocolsR 3 3 exI3).
  { intros j l Hj Hl. destruct j as [|[|[|j]]], l as [|[|[|l]]]; try lia; cbn; lra. }
  assert (R3 : orthorowsR 3 exI3).
  { intros j l Hj Hl. destruct j as [|[|[|j]]], l as [|[|[|l]]]; try lia; cbn; lra. }
  assert (E0 : eigen_eq s 0 exX exI2 [9; 1]).
  { intros a j Ha Hj. cbn in Ha, Hj. destruct a as [|[|a]], j as [|[|j]]; try lia; unfold gramR, gram_spec; cbn; lra. }
  assert (E1 : eigen_eq s 1 exX exI3 [9; 1; 0]).
  { intros a j Ha Hj. cbn in Ha, Hj. destruct a as [|[|[|a]]], j as [|[|[|j]]]; try lia; unfold gramR, gram_spec; cbn; lra. }
  assert (Hok : enonseq_ok s (1 / 2 * nrm2 (dense R) (innerR s) exX / INR (length exEs)) exX exEs).
  { rewrite Hn. replace (1 / 2 * 10 / INR (length exEs)) with (5 / 2) by (cbn; lra).
    constructor; [|constructor; [|constructor]]; unfold emode_ok; cbn [em_c em_mu cm_k cm_W cm_r nth s].
    - split; [cbn; lia|]. split; [exact O3|]. split; [exact R3|]. split; [reflexivity|]. split; [exact E1|].
      apply auto_rank_1; [cbn; lra|repeat constructor; lra|cbn; lra].
    - split; [cbn; lia|]. split; [exact O2|]. split; [exact R2|]. split; [reflexivity|]. split; [exact E0|].
      apply auto_rank_1; [cbn; lra|repeat constructor; lra|cbn; lra]. }
  split; [exact Hok|]. split; [exact Hn|]. split.
  { apply energies_eigen; auto. }
  split.
  - apply (concrete_hosvd_eigen_bound false exX exEs exUs (1 / 2)).
    + discriminate.
    + cbn. repeat constructor; cbn; intuition lia.
    + reflexivity.
    + reflexivity.
    + lra.
    + intros e [<-|[<-|[]]]; cbn; repeat split; reflexivity.
    + exact Hok.
  - unfold nrm2, innerR, dinner, T. cbn. lra.
Qed.
