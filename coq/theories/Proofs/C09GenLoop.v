(* Proofs/C09GenLoop.v — wave 4: closes the chain source -> model for the whole driver.  w4-skel's bridge (Proofs/W4SCpAls.v cpals_bridge,
   Props/W4SC09.v) shows that the GENERATED main part of cp_als computes Model/C09Loop.v cpals_run over the sweep function h_sweep, which
   is defined from the generated inner loop.  Here: with the kernel instantiation of Proofs/C09GenSweep.v, h_sweep on a state whose Gram
   slabs belong to the current factors IS the hand model's als_sweep (Model/C09Als.v) followed by `M = ttb.ktensor(U, weights)` and the
   iprod formula — so the `sweep` argument of every C09_bookkeeping_* / C09_normal_form_run* theorem is the sweep that the C09_code_* /
   C09_monotone theorems speak about. *)
From Coq Require Import List Arith Lia Bool.
From PV Require Import Base.Index Base.Sum Np.Array Model.Sparse Model.Repr Model.C09Als Model.W4SPrelude Gen.GenCpAls
  Proofs.W4SCpAls Proofs.C09GenSweep.
Import ListNotations.

Section GenLoop.
Variable V : Type.
Variables (v0 v1 : V) (vadd vmul : V -> V -> V).
Local Notation mx := (@matrix V).
Variables T_F T_K T_X : Type.
Variable R : nat.
Variable mk : T_X -> list mx -> nat -> mx.
Variable all_zero_mat : mx -> bool.
Variable zeros_like : mx -> mx.
Variable lapack : mx -> mx -> mx.
Variable norm2_cols normmax_cols : mx -> list V.
Variable all_zero_wt : list V -> bool.
Variable scale_cols : mx -> list V -> mx.
Variable k_ktensor : list mx -> list V -> T_K.
Variable k_iprod : T_K -> list nat -> mx -> list V -> T_F.

Local Notation hsweep := (h_sweep T_F mx (list mx) (list V) T_K T_X (g_set_gram V) mk (g_hadamard_others V v0 v1 vadd vmul R)
  all_zero_mat zeros_like lapack norm2_cols normmax_cols all_zero_wt scale_cols k_ktensor k_iprod).

Theorem gen_hsweep_bridge (X : T_X) (N : nat) (dimorder : list nat) (k : nat) (U : list mx) (Um : mx) (n0 : option nat)
    (mi : option (T_K * T_F)) (w : list V) (P : mx) :
  dimorder <> [] -> (forall x, In x dimorder -> x < length U) ->
  let st' := als_sweep v0 v1 vadd vmul (mk X) (code_solve V all_zero_mat zeros_like lapack)
               (code_scale V norm2_cols normmax_cols all_zero_wt scale_cols) R k dimorder (mkAls w U P) in
  exists Um' n',
    hsweep N dimorder X k ((U, Um, U, n0), mi)
    = ((st_U st', Um', st_U st', n'),
       Some (k_ktensor (st_U st') (st_w st'), k_iprod (k_ktensor (st_U st') (st_w st')) dimorder Um' (st_w st'))).
Proof.
  intros Hne Hin st'.
  destruct (gen_sweep_bridge V v0 v1 vadd vmul T_X R mk all_zero_mat zeros_like lapack norm2_cols normmax_cols all_zero_wt scale_cols
              X N dimorder k Hne dimorder U Um n0 None w P Hin) as (Um' & n' & EQ).
  exists Um', n'. unfold h_sweep. cbv zeta in EQ. rewrite EQ.
  destruct dimorder as [|d ds]; [contradiction|]. reflexivity.
Qed.

End GenLoop.
