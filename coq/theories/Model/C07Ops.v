(* Model/C07Ops.v — executable transliterations of permute / reshape / squeeze for the four holders.
   Source anchors: pyttb/tensor.py (permute, reshape, squeeze), pyttb/sptensor.py (permute, reshape, squeeze),
   pyttb/ktensor.py (permute), pyttb/ttensor.py (permute).  Definitions only; proofs in Proofs/C07Proofs.v. *)
From Coq Require Import List Arith Lia Bool.
From PV Require Import Base.Index Base.Perm Np.Array Model.Sparse Model.Repr.
Import ListNotations.

(* entries of l at the positions whose mode size exceeds 1 (np.squeeze / subs[:, idx]) *)
Fixpoint sqz {A} (s : shape) (l : list A) : list A :=
  match s, l with
  | d :: s', x :: l' => if 1 <? d then x :: sqz s' l' else sqz s' l'
  | _, _ => []
  end.

(* entries of l at the positions whose mode size differs from 1 (tensor.squeeze since /repo 649a706: np.where(shape != 1),
   np.squeeze); the same list as sqz when every size is positive, and a size-0 mode is KEPT *)
Fixpoint sqn {A} (s : shape) (l : list A) : list A :=
  match s, l with
  | d :: s', x :: l' => if Nat.eqb d 1 then sqn s' l' else x :: sqn s' l'
  | _, _ => []
  end.

(* np.setdiff1d(arange(N), old): the modes that are kept, ascending *)
Definition keep_modes (N : nat) (old : list nat) : list nat :=
  filter (fun k => negb (existsb (Nat.eqb k) old)) (seq 0 N).

Section Ops.
Context {V : Type} (v0 : V).

(* result of squeeze: a tensor, or a bare scalar when every mode is a singleton *)
Inductive sq_res (X : Type) : Type := SqT (x : X) | SqScalar (v : V).
Arguments SqT {X} x. Arguments SqScalar {X} v.

(* ---------------- dense (tensor.py) ---------------- *)

(* tensor.permute (as repaired by /repo 072fe0a): size check; the empty order returns a copy; the
   `(order == 1).all()` shortcut is taken only when ndims == 1 (order [1] on a 1-way tensor returns a copy: residue of
   A-28, reported under C19); every other order must satisfy sort(order) == arange(ndims), else "Invalid permutation
   order"; then np.transpose + F re-layout *)
Definition permute_d (T : dense V) (p : list nat) : option (dense V) :=
  if negb (Nat.eqb (length p) (length (dshape T))) then None
  else if Nat.eqb (length p) 0 then Some T
  else if Nat.eqb (length (dshape T)) 1 && forallb (Nat.eqb 1) p then Some T
  else if is_permb p (length (dshape T)) then Some (np_transpose v0 T p) else None.

(* tensor.reshape: element-count check, then data.reshape(shape, order="F") *)
Definition reshape_d (T : dense V) (s' : shape) : option (dense V) :=
  if Nat.eqb (size (dshape T)) (size s') then Some (np_reshapeF v0 T s') else None.

(* tensor.squeeze (as repaired by /repo 649a706, N-C07-6): np.all(shape != 1) -> copy; idx = np.where(shape != 1);
   idx empty (every mode a singleton) -> data.item(); else np.squeeze(data).  A mode of size 0 is not a singleton: it is
   kept, and the result holds no element *)
Definition squeeze_d (T : dense V) : sq_res (dense V) :=
  let s := dshape T in
  if forallb (fun d => negb (Nat.eqb d 1)) s then SqT T
  else match sqn s s with
       | [] => SqScalar (nth 0 (ddata T) v0)
       | s' => SqT (mkDense s' (ddata T))
       end.

(* ---------------- sparse (sptensor.py) ---------------- *)

(* sptensor.permute: order must be a permutation; subs[:, order], vals unchanged, shape[order] *)
Definition permute_sp (S : sparse V) (p : list nat) : option (sparse V) :=
  if is_permb p (length (sshape S))
  then Some (mkSp (pick 0 p (sshape S)) (map (pick 0 p) (ssubs S)) (svals S))
  else None.

(* one subscript row of sptensor.reshape(new_shape, old_modes):
   kept columns, then ind2sub(new_shape, sub2ind(shape[old_modes], row[old_modes])) *)
Definition reshape_row (s s' : shape) (old : list nat) (j : idx) : idx :=
  pick 0 (keep_modes (length s) old) j ++ ind2sub s' (sub2ind (pick 0 old s) (pick 0 old j)).

Definition reshape_sp (S : sparse V) (s' : shape) (old : list nat) : option (sparse V) :=
  let s := sshape S in
  if Nat.eqb (size s') (size (pick 0 old s))
  then Some (mkSp (pick 0 (keep_modes (length s) old) s ++ s') (map (reshape_row s s' old) (ssubs S)) (svals S))
  else None.

(* old_modes = None: all modes, in order *)
Definition reshape_sp_all (S : sparse V) (s' : shape) : option (sparse V) :=
  reshape_sp S s' (seq 0 (length (sshape S))).

(* sptensor.squeeze as the property demands it (the all-singleton case denotes the single entry,
   which is 0 when nothing is stored) *)
Definition squeeze_sp (S : sparse V) : sq_res (sparse V) :=
  let s := sshape S in
  if forallb (Nat.ltb 1) s then SqT S
  else match sqz s s with
       | [] => SqScalar (den_sp v0 S (repeat 0 (length s)))
       | s' => SqT (mkSp s' (map (sqz s) (ssubs S)) (svals S))
       end.

(* ---------------- Kruskal / Tucker (ktensor.py, ttensor.py) ---------------- *)

Definition permute_k (K : ktensor V) (p : list nat) : option (ktensor V) :=
  if is_permb p (length (kfactors K))
  then Some (mkK (kweights K) (pick [] p (kfactors K))) else None.

Definition permute_t (T : ttensor V) (p : list nat) : option (ttensor V) :=
  if is_permb p (length (tfactors T))
  then match permute_d (tcore T) p with
       | Some c => Some (mkT c (pick [] p (tfactors T)))
       | None => None
       end
  else None.

End Ops.

Arguments SqT {V X} x.
Arguments SqScalar {V X} v.
