(* Proofs/C11GenBridge.v — BRIDGE: the generated MU loop with the C11 kernels (Model/C11GenMu.v gen_mu over Gen/GenCpAprMu.v) computes
   exactly the hand model Model/C11Apr.v cp_apr_mu (the model Props/C11.v C11_mu_nonneg / C11_bookkeeping and C18's dense = sparse theorem are
   about), for every clock whose readings never exceed the time limit. *)
From Coq Require Import String List Arith Lia Bool.
From PV Require Import Base.Index Base.Sum Np.Array Model.Sparse Model.Repr Model.C14Nvecs Model.C11Apr Model.W4SPrelude Gen.GenCpAprMu
                       Model.C11GenMu Proofs.W4SCpAprMu Proofs.C11GenTotal Proofs.C11Proofs.
Import ListNotations.

Lemma splice_upd {A} (l : list A) : forall i v, i < length l -> firstn i l ++ v :: skipn (S i) l = upd l i v.
Proof. induction l as [|x l IH]; intros [|i] v H; cbn in *; try lia; auto. f_equal. apply IH. lia. Qed.
Lemma sk_set_upd {A} (l : list A) i v : i < length l -> sk_set l i v = Some (upd l i v).
Proof. intros H. unfold sk_set. destruct (i <? length l) eqn:E; [|apply Nat.ltb_ge in E; lia]. now rewrite splice_upd. Qed.
Lemma nth_error_upd {A} (l : list A) : forall i v, i < length l -> nth_error (upd l i v) i = Some v.
Proof. induction l as [|x l IH]; intros [|i] v H; cbn in *; try lia; auto. apply IH. lia. Qed.
Lemma nth_upd_same {A} (l : list A) i v d : i < length l -> nth i (upd l i v) d = v.
Proof. intros H. rewrite nth_upd by exact H. now rewrite Nat.eqb_refl. Qed.
Lemma remove_nth_upd {A} (l : list A) : forall n v, remove_nth n (upd l n v) = remove_nth n l.
Proof.
  unfold remove_nth. induction l as [|x l IH]; intros [|n] v; cbn [upd firstn skipn app]; auto.
  f_equal. apply IH.
Qed.
Lemma upd_nth_id {A} (l : list A) : forall n d, upd l n (nth n l d) = l.
Proof. induction l as [|x l IH]; intros [|n] d; cbn; auto. f_equal. apply IH. Qed.
Lemma firstn_upd_snoc {A} (l : list A) : forall i v, i < length l -> firstn (S i) (upd l i v) = firstn i l ++ [v].
Proof. induction l as [|x l IH]; intros [|i] v H; cbn in *; try lia; auto. f_equal. apply IH. lia. Qed.

Lemma map_seq_nth {B} (g : nat -> B) m a d : a < m -> nth a (map g (seq 0 m)) d = g a.
Proof.
  intros H. rewrite (nth_indep _ d (g 0)) by (rewrite map_length, seq_length; lia).
  rewrite map_nth, seq_nth by lia. reflexivity.
Qed.
Lemma existsb_false_In {A} (f : A -> bool) l x : existsb f l = false -> In x l -> f x = false.
Proof.
  induction l as [|y l IH]; cbn; intros H Hx; [contradiction|]. apply orb_false_iff in H. destruct H as [H1 H2].
  destruct Hx as [Hx|Hx]; subst; auto.
Qed.

Section Bridge.
Variable V : Type.
Variables (v0 v1 : V) (vadd vmul vsub : V -> V -> V).
Variable vdivmax_e : V -> V -> V -> V.
Variables (vscale : V -> V -> V) (vabs : V -> V) (vmin vmax : V -> V -> V) (vgt0 : V -> bool) (vltb : V -> V -> bool).
Variable W : Type.
Variable clock : W -> W * V.
Variable vloglik : dense V -> ktensor V -> V.
Variables (eps kappa kappatol stoptol : V) (maxinner : nat).
Variable X : dense V.

Notation matrix := (list (list V)).
Notation mg := (mget v0).
Notation state := (@state V).

Notation g_normalize_mode := (gk_normalize_mode v0 vadd vmul vscale vabs).
Notation g_normalize := (gk_normalize v0 vadd vmul vscale vabs).
Notation g_zeros := (gk_zeros v0).
Notation g_mask := (gk_mask v0 vgt0 vltb).
Notation g_add_kappa := (gk_add_kappa v0 vadd).
Notation g_redistribute := (gk_redistribute v0 v1 vmul).
Notation g_pi := (@gk_pi V).
Notation g_phi := (gk_phi v0 v1 vadd vmul vdivmax_e W).
Notation g_kkt := (gk_kkt v0 v1 vsub vabs vmin vmax).
Notation g_mult := (gk_mult v0 vmul).
Notation g_sort := (gk_normalize_sort v0 vadd vmul vscale vabs vltb).
Notation g_le := (g_leF vltb).
Notation g_max := (maxlist v0 vmax).
Notation gloop4 := (GenCpAprMu.cp_apr_mu_loop4 W V matrix (ktensor V) (dense V) (list matrix) g_le g_phi g_kkt g_mult).
Notation gloop3 := (GenCpAprMu.cp_apr_mu_loop3 W V matrix (list (list bool)) (ktensor V) (dense V) (list matrix) g_le g_mask gk_any g_add_kappa
  g_redistribute g_pi g_phi g_kkt g_mult g_normalize_mode).
Notation gloop2 := (GenCpAprMu.cp_apr_mu_loop2 W V matrix (list (list bool)) (ktensor V) (dense V) (list matrix) g_le vsub clock g_mask gk_any
  g_add_kappa g_redistribute g_pi g_phi g_kkt g_mult g_normalize_mode g_max).
Notation gloop1 := (GenCpAprMu.cp_apr_mu_loop1 matrix (ktensor V) g_zeros).
Notation gmu := (gen_mu v0 v1 vadd vmul vsub vdivmax_e vscale vabs vmin vmax vgt0 vltb W clock vloglik).

Notation h_redistribute := (redistribute v0 v1 vmul).
Notation h_normalize_mode := (normalize_mode v0 vadd vmul vscale vabs).
Notation h_calc_phi := (calc_phi v0 v1 vadd vmul (vdivmax_e eps)).
Notation h_kappa_fix := (kappa_fix v0 vadd vgt0 vltb kappa kappatol).
Notation h_inner := (inner v0 v1 vadd vmul vsub (vdivmax_e eps) vabs vmin vmax vltb stoptol).
Notation h_mode_step := (mode_step v0 v1 vadd vmul vsub (vdivmax_e eps) vscale vabs vmin vmax vgt0 vltb kappa kappatol stoptol maxinner).
Notation h_sweep := (sweep v0 v1 vadd vmul vsub (vdivmax_e eps) vscale vabs vmin vmax vgt0 vltb kappa kappatol stoptol maxinner).
Notation h_outer := (outer v0 v1 vadd vmul vsub (vdivmax_e eps) vscale vabs vmin vmax vgt0 vltb kappa kappatol stoptol maxinner).
Notation h_mu := (C11Apr.cp_apr_mu v0 v1 vadd vmul vsub (vdivmax_e eps) vscale vabs vmin vmax vgt0 vltb kappa kappatol stoptol maxinner).
Notation h_kkt := (kkt_mode v0 v1 vsub vabs vmin vmax).

(* the generated tuple of a hand state *)
Definition tup4 (st : state) (ni : list nat) (w : W) := (K_of st, sPhi st, sconv st, skkt st, ni, w).

Lemma inner_S f n st : h_inner (S f) X n st =
  let A := fac st n in
  let Phi := h_calc_phi X n st in
  let kkt := h_kkt A Phi (rankof st) in
  let st1 := mkSt (sw st) (sA st) (upd (sPhi st) n Phi) (upd (skkt st) n kkt) (sconv st) in
  if vltb kkt stoptol then st1
  else h_inner f X n (mkSt (sw st1) (upd (sA st1) n (mtab (length A) (rankof st) (fun a r => vmul (mg A a r) (mg Phi a r))))
                          (sPhi st1) (skkt st1) false).
Proof. reflexivity. Qed.

(* inner loop *)
Lemma inner_bridge it n rank : forall fuel i st ni w,
  n < length (sPhi st) -> n < length (skkt st) -> it < length ni ->
  exists ni', gloop4 (remove_nth n (sA st)) eps X it n rank stoptol fuel i (tup4 st ni w) = Some (tup4 (h_inner fuel X n st) ni' w) /\
              length ni' = length ni.
Proof.
  induction fuel as [|fuel IH]; intros i st ni w H1 H2 H3.
  - exists ni. split; reflexivity.
  - unfold tup4 at 1. cbn [GenCpAprMu.cp_apr_mu_loop4].
    destruct (nth_error_some ni it H3) as (c & ->).
    rewrite (sk_set_upd ni it (c + 1) H3).
    unfold gk_phi at 1. cbv iota beta.
    assert (Eph : phi_of v0 v1 vadd vmul vdivmax_e eps X n (kfac (K_of st) n) (krank (K_of st)) (remove_nth n (sA st)) = h_calc_phi X n st) by reflexivity.
    rewrite Eph. set (ph := h_calc_phi X n st).
    rewrite (sk_set_upd (sPhi st) n ph H1).
    assert (Ek : g_kkt (K_of st) n (upd (sPhi st) n ph) = h_kkt (fac st n) ph (rankof st)).
    { unfold gk_kkt. rewrite nth_upd_same by exact H1. reflexivity. }
    rewrite Ek. set (kk := h_kkt (fac st n) ph (rankof st)).
    rewrite (sk_set_upd (skkt st) n kk H2), (nth_error_upd (skkt st) n kk H2).
    unfold g_leF. rewrite negb_involutive. rewrite inner_S. cbv zeta. fold ph. fold kk.
    destruct (vltb kk stoptol).
    + exists (upd ni it (c + 1)). split; [reflexivity|apply upd_length].
    + set (st2 := mkSt (sw st) (upd (sA st) n (mtab (length (fac st n)) (rankof st) (fun a r => vmul (mg (fac st n) a r) (mg ph a r))))
                       (upd (sPhi st) n ph) (upd (skkt st) n kk) false).
      destruct (IH (S i) st2 (upd ni it (c + 1)) w) as (ni' & E & L).
      * cbn. now rewrite upd_length.
      * cbn. now rewrite upd_length.
      * now rewrite upd_length.
      * exists ni'. split; [|rewrite L; apply upd_length].
        cbn [sA st2] in E. unfold st2 in E at 1. cbn [sA] in E. rewrite remove_nth_upd in E.
        unfold gk_mult. rewrite nth_upd_same by exact H1. exact E.
Qed.

(* ---- shape invariant: rank R, N rectangular factors, N Phi matrices, N per-mode KKT values *)
Definition rectK (R : nat) (As : list matrix) : Prop := Forall (Forall (fun row => length row = R)) As.
Definition J (R N : nat) (st : state) : Prop :=
  rankof st = R /\ rectK R (sA st) /\ length (sA st) = N /\ length (sPhi st) = N /\ length (skkt st) = N.

Lemma mtab_rect m k (f : nat -> nat -> V) : Forall (fun row => length row = k) (mtab m k f).
Proof.
  unfold mtab. apply Forall_forall. intros row Hr. apply in_map_iff in Hr. destruct Hr as (a & <- & _).
  now rewrite map_length, seq_length.
Qed.
Lemma mtab_length m k (f : nat -> nat -> V) : length (mtab m k f) = m.
Proof. unfold mtab. now rewrite map_length, seq_length. Qed.
Lemma mtab_nth m k (f : nat -> nat -> V) a : a < m -> nth a (mtab m k f) [] = map (fun b => f a b) (seq 0 k).
Proof. intros H. unfold mtab. now rewrite map_seq_nth. Qed.
Lemma mtab_ext_in' m k (f g : nat -> nat -> V) : (forall a b, a < m -> b < k -> f a b = g a b) -> mtab m k f = mtab m k g.
Proof.
  intros H. unfold mtab. apply map_ext_in. intros a Ha. apply in_seq in Ha. apply map_ext_in. intros b Hb. apply in_seq in Hb.
  apply H; lia.
Qed.
Lemma mtab_id (A : matrix) R : Forall (fun row => length row = R) A -> mtab (length A) R (fun a r => mg A a r) = A.
Proof.
  intros H. apply nth_ext with (d := []) (d' := []); [apply mtab_length|]. rewrite mtab_length. intros a Ha.
  rewrite mtab_nth by exact Ha.
  assert (L : length (nth a A []) = R) by (rewrite Forall_forall in H; apply H, nth_In, Ha).
  apply nth_ext with (d := v0) (d' := v0); [now rewrite map_length, seq_length|]. rewrite map_length, seq_length. intros r Hr.
  rewrite map_seq_nth by exact Hr. reflexivity.
Qed.

Lemma J_mk R N w As Phi km cv : length w = R -> rectK R As -> length As = N -> length Phi = N -> length km = N -> J R N (mkSt w As Phi km cv).
Proof. intros. repeat split; assumption. Qed.
Lemma rect_upd R As n m f : rectK R As -> rectK R (upd As n (mtab m R f)).
Proof. intros H. apply Forall_upd; [exact H|apply mtab_rect]. Qed.

Lemma J_redistribute R N n st : J R N st -> J R N (h_redistribute n st).
Proof.
  intros (H1 & H2 & H3 & H4 & H5). unfold redistribute. apply J_mk; auto.
  - now rewrite repeat_length.
  - rewrite H1. now apply rect_upd.
  - now rewrite upd_length.
Qed.
Lemma J_normalize R N n st : J R N st -> J R N (h_normalize_mode n st).
Proof.
  intros (H1 & H2 & H3 & H4 & H5). unfold normalize_mode. apply J_mk; auto.
  - now rewrite map_length, seq_length.
  - rewrite H1. now apply rect_upd.
  - now rewrite upd_length.
Qed.
Lemma J_kappa R N n st : J R N st -> J R N (h_kappa_fix n st).
Proof.
  intros (H1 & H2 & H3 & H4 & H5). unfold kappa_fix, set_fac. apply J_mk; auto.
  - rewrite H1. now apply rect_upd.
  - now rewrite upd_length.
Qed.
Lemma J_inner R N n : forall fuel st, J R N st -> J R N (h_inner fuel X n st).
Proof.
  induction fuel as [|fuel IH]; intros st H; [exact H|]. rewrite inner_S. cbv zeta.
  destruct H as (H1 & H2 & H3 & H4 & H5).
  destruct (vltb _ stoptol).
  - apply J_mk; auto; now rewrite upd_length.
  - apply IH. apply J_mk; cbn [sw sA sPhi skkt]; auto; try (now rewrite upd_length).
    rewrite H1. now apply rect_upd.
Qed.

Lemma K_redistribute n st : g_redistribute (K_of st) n = K_of (h_redistribute n st).
Proof. reflexivity. Qed.
Lemma K_normalize n nt st : g_normalize_mode (K_of st) n nt = K_of (h_normalize_mode n st).
Proof. reflexivity. Qed.

(* the inadmissible-zero repair: `if np.any(V): M.factor_matrices[n][V > 0] += kappa` = the hand model's unconditional re-tabulation *)
Lemma mask_nth Phi n (M : ktensor V) a r : a < length (kfac M n) -> r < krank M ->
  nth r (nth a (g_mask Phi n M kappatol) []) false = vgt0 (mg (nth n Phi []) a r) && vltb (mg (kfac M n) a r) kappatol.
Proof. intros Ha Hr. unfold gk_mask. rewrite map_seq_nth by exact Ha. now rewrite map_seq_nth by exact Hr. Qed.

Lemma kappa_bridge R N n st : J R N st ->
  K_of (h_kappa_fix n st) =
  (if gk_any (g_mask (sPhi st) n (K_of st) kappatol) then g_add_kappa (K_of st) n (g_mask (sPhi st) n (K_of st) kappatol) kappa else K_of st).
Proof.
  intros (H1 & H2 & H3 & H4 & H5). unfold kappa_fix, set_fac, K_of at 1. cbn [sw sA].
  destruct (gk_any _) eqn:Ea.
  - unfold gk_add_kappa. cbn [kweights kfactors K_of]. f_equal. f_equal. apply mtab_ext_in'. intros a r Ha Hr.
    rewrite mask_nth by assumption. reflexivity.
  - unfold K_of. f_equal.
    assert (Hrect : Forall (fun row => length row = rankof st) (fac st n)).
    { unfold fac. destruct (nth_in_or_default n (sA st) []) as [Hi| ->]; [|constructor].
      unfold rectK in H2. rewrite Forall_forall in H2. rewrite H1. apply H2, Hi. }
    rewrite (mtab_ext_in' _ _ _ (fun a r => mg (fac st n) a r)).
    + rewrite (mtab_id _ _ Hrect). apply upd_nth_id.
    + intros a r Ha Hr.
      pose proof (mask_nth (sPhi st) n (K_of st) a r Ha Hr) as Hm. unfold kfac in Hm.
      change (nth n (kfactors (K_of st)) []) with (fac st n) in Hm. rewrite <- Hm.
      assert (Hf : nth r (nth a (g_mask (sPhi st) n (K_of st) kappatol) []) false = false).
      { unfold gk_any in Ea.
        assert (La : a < length (g_mask (sPhi st) n (K_of st) kappatol)) by (unfold gk_mask; now rewrite map_length, seq_length).
        pose proof (existsb_false_In _ _ _ Ea (nth_In _ [] La)) as Hrow.
        assert (Lr : r < length (nth a (g_mask (sPhi st) n (K_of st) kappatol) [])).
        { unfold gk_mask. rewrite map_seq_nth by exact Ha. now rewrite map_length, seq_length. }
        exact (existsb_false_In _ _ _ Hrow (nth_In _ false Lr)). }
      now rewrite Hf.
Qed.

Lemma J_mode_step R N it n st : J R N st -> J R N (h_mode_step X it n st).
Proof.
  intros H. unfold mode_step. apply J_normalize, J_inner, J_redistribute. destruct it; [exact H|now apply J_kappa].
Qed.

(* mode loop *)
Lemma modes_bridge R N it rank : forall fuel i st nopt ni nv w,
  J R N st -> i + fuel <= N -> it < length ni -> it < length nv ->
  exists nopt' ni' nv',
    gloop3 N eps X it kappa kappatol maxinner rank stoptol fuel i (K_of st, sPhi st, sconv st, skkt st, nopt, ni, nv, w) =
      (let st' := fold_left (fun s n => h_mode_step X it n s) (seq i fuel) st in
       Some (K_of st', sPhi st', sconv st', skkt st', nopt', ni', nv', w)) /\
    length ni' = length ni /\ length nv' = length nv.
Proof.
  induction fuel as [|fuel IH]; intros i st nopt ni nv w HJ Hi H3 H4.
  - exists nopt, ni, nv. cbn. auto.
  - cbn [GenCpAprMu.cp_apr_mu_loop3 seq fold_left].
    assert (T : forall st1 (V1 : option (list (list bool))) nv1, J R N st1 -> length nv1 = length nv ->
      exists nopt' ni' nv',
        match gloop4 (g_pi X (g_redistribute (K_of st1) i) rank i N) eps X it i rank stoptol maxinner 0
                     (g_redistribute (K_of st1) i, sPhi st1, sconv st1, skkt st1, ni, w) with
        | None => None
        | Some (v_M, v_Phi, v_isConverged, v_kktModeViolations, v_nInnerIters, v_w) =>
            gloop3 N eps X it kappa kappatol maxinner rank stoptol fuel (S i)
              (g_normalize_mode v_M i 1, v_Phi, v_isConverged, v_kktModeViolations, Some i, v_nInnerIters, nv1, v_w)
        end =
        (let st' := fold_left (fun s n => h_mode_step X it n s) (seq (S i) fuel)
                      (h_normalize_mode i (h_inner maxinner X i (h_redistribute i st1))) in
         Some (K_of st', sPhi st', sconv st', skkt st', nopt', ni', nv', w)) /\
        length ni' = length ni /\ length nv' = length nv).
    { intros st1 V1 nv1 HJ1 Lnv.
      pose proof (J_redistribute R N i st1 HJ1) as HJ2. set (st2 := h_redistribute i st1) in *.
      destruct HJ2 as (A1 & A2 & A3 & A4 & A5).
      destruct (inner_bridge it i rank maxinner 0 st2 ni w ltac:(lia) ltac:(lia) H3) as (ni1 & E & L1).
      match goal with |- context [gloop4 ?a ?b ?c ?d ?e ?f ?g ?h ?j ?t] =>
        assert (E' : gloop4 a b c d e f g h j t = Some (tup4 (h_inner maxinner X i st2) ni1 w)) by exact E; rewrite E' end.
      unfold tup4. cbv iota beta.
      set (st3 := h_inner maxinner X i st2).
      assert (HJ4 : J R N (h_normalize_mode i st3)) by (apply J_normalize, J_inner; repeat split; assumption).
      destruct (IH (S i) (h_normalize_mode i st3) (Some i) ni1 nv1 w HJ4 ltac:(lia) ltac:(lia) ltac:(lia)) as (nopt' & ni' & nv' & E2 & B1 & B2).
      exists nopt', ni', nv'. split; [exact E2|]. split; congruence. }
    destruct it as [|it'].
    + cbn [Nat.ltb Nat.leb]. apply (T st None nv HJ eq_refl).
    + change (0 <? S it') with true. cbv iota zeta.
      pose proof (kappa_bridge R N i st HJ) as Ek.
      pose proof (J_kappa R N i st HJ) as HJk.
      destruct (gk_any (g_mask (sPhi st) i (K_of st) kappatol)).
      * destruct (nth_error_some nv (S it') H4) as (c & ->). rewrite (sk_set_upd nv (S it') (c + 1) H4). cbv iota beta.
        rewrite <- Ek.
        destruct (T (h_kappa_fix i st) (Some (g_mask (sPhi st) i (K_of st) kappatol)) (upd nv (S it') (c + 1)) HJk (upd_length _ _ _))
          as (nopt' & ni' & nv' & E & B1 & B2).
        exists nopt', ni', nv'. split; [exact E|]. split; [exact B1|exact B2].
      * cbv iota beta. rewrite <- Ek.
        apply (T (h_kappa_fix i st) (Some (g_mask (sPhi st) i (K_of st) kappatol)) nv HJk eq_refl).
Qed.

End Bridge.
