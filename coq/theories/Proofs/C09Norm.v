(* Proofs/C09Norm.v — the Gram / Hadamard identity behind ktensor.norm (pyttb/ktensor.py `norm`):
     coefMatrix = weights[:,None] @ weights[None,:];  for f in factor_matrices: coefMatrix = coefMatrix * (f.T @ f)
     return sqrt(abs(sum(coefMatrix)))
   For every Kruskal tensor (all shapes, orders, ranks, values of a commutative ring) the summed coefficient matrix IS the sum of
   squares of the denoted array:  sum_{r,t} w_r w_t prod_n (A_n^T A_n)[r,t] = sum_i M(i)^2.  With it the quantity cp_als computes,
   normX^2 + M.norm()^2 - 2*iprod(saved mttkrp), is ||X - M||^2 END TO END (C09_reported_residual_code): no step of the reported
   residual is left to a spec-level norm. *)
From Coq Require Import List Arith Lia Bool Ring.
From PV Require Import Base.Index Base.Sum Np.Array Model.Sparse Model.Repr Model.C09Als
  Proofs.C09Identity Proofs.C09Monotone Proofs.C09Reported.
Import ListNotations.

Section Norm.
Variable V : Type.
Variables (v0 v1 : V) (vadd vmul vsub : V -> V -> V) (vopp : V -> V).
Hypothesis Vring : ring_theory v0 v1 vadd vmul vsub vopp (@eq V).
Add Ring Vr9n : Vring.

Local Notation mx := (@matrix V).
Local Notation "x + y" := (vadd x y).
Local Notation "x * y" := (vmul x y).
Local Notation SUM := (sum_over v0 vadd).
Local Notation SUMN := (sum_n v0 vadd).
Local Notation mg := (mget v0).
Local Notation kpr := (kprod v0 v1 vmul).
Local Notation denk := (den_k v0 v1 vadd vmul).
Local Notation grama := (gramall v0 v1 vadd vmul).
Local Notation gramm := (gram v0 vadd vmul).
Local Notation nsq := (normsq_den v0 vadd vmul).

(* transliteration: entry (r,t) of coefMatrix after the loop over the factor matrices, and the sum of all entries *)
Definition coef_entry (w : list V) (As : list mx) (r t : nat) : V :=
  fold_left (fun c A => c * gramm A r t) As (nth r w v0 * nth t w v0).
Definition knormsq_code (K : ktensor V) : V :=
  SUMN (krank K) (fun r => SUMN (krank K) (fun t => coef_entry (kweights K) (kfactors K) r t)).

Lemma coef_entry_gramall w As r t : coef_entry w As r t = (nth r w v0 * nth t w v0) * grama As r t.
Proof.
  unfold coef_entry. generalize (nth r w v0 * nth t w v0). induction As as [|A As IH]; intros c; cbn [fold_left gramall].
  - ring.
  - rewrite IH. ring.
Qed.

(* (sum_r f r) * (sum_t g t) = sum_r sum_t f r * g t *)
Lemma sum_n_prod n m (f g : nat -> V) : SUMN n f * SUMN m g = SUMN n (fun r => SUMN m (fun t => f r * g t)).
Proof.
  unfold sum_n. rewrite <- (sum_over_scale_r V v0 v1 vadd vmul vsub vopp Vring).
  apply sum_over_ext. intros r _. now rewrite (sum_over_scale_l V v0 v1 vadd vmul vsub vopp Vring).
Qed.

(* ktensor.norm()^2 (before sqrt/abs) = sum of squares of the denoted array *)
Theorem knorm_gram (K : ktensor V) : nsq (kshape K) (denk K) = knormsq_code K.
Proof.
  unfold normsq_den, innerprod_den, knormsq_code.
  set (R := krank K). set (w := kweights K). set (As := kfactors K).
  transitivity (SUM (allsubs (kshape K)) (fun i => SUMN R (fun r => SUMN R (fun t =>
                  (nth r w v0 * nth t w v0) * (kpr As i r * kpr As i t))))).
  { apply sum_over_ext. intros i Hi. apply in_allsubs in Hi.
    rewrite (denk_in V v0 v1 vadd vmul K i Hi). fold R w As. rewrite sum_n_prod.
    apply sum_n_ext. intros r _. apply sum_n_ext. intros t _. ring. }
  unfold sum_n at 1. rewrite (sum_over_swap V v0 v1 vadd vmul vsub vopp Vring). apply sum_over_ext. intros r _.
  unfold sum_n at 1. rewrite (sum_over_swap V v0 v1 vadd vmul vsub vopp Vring). apply sum_over_ext. intros t _.
  rewrite coef_entry_gramall. rewrite (sum_over_scale_l V v0 v1 vadd vmul vsub vopp Vring). f_equal.
  unfold kshape. fold As. apply (gramall_sum V v0 v1 vadd vmul vsub vopp Vring).
Qed.

(* C09_reported_residual, END TO END with the code's own norm formula: after the update of mode n in the executable sweep model,
   normX^2 + coefMatrix.sum() - 2 * iprod(saved mttkrp, new factor, new weights) = ||X - M||^2 for the new state's model *)
Variables (solve : mx -> mx -> mx) (scale : nat -> mx -> list V * mx) (R : nat) (X : idx -> V) (s : shape).
Local Notation mkX := (fun U n => mttkrp_mat v0 v1 vadd vmul s X U n R).
Local Notation upd1 := (als_update v0 v1 vadd vmul mkX solve scale R).

Theorem reported_residual_code it st n :
  st_wf V R s st -> n < length s ->
  length (st_w (upd1 it st n)) = R -> nrows (nth n (st_U (upd1 it st n)) []) = nth n s 0 ->
  let st' := upd1 it st n in
  let ip := iprod_saved v0 vadd vmul R (nth n s 0) (st_w st') (nth n (st_U st') []) (fun j r => mg (st_P st') j r) in
  vsub (vadd (nsq s X) (knormsq_code (st_model st'))) (vadd ip ip)
  = resid_den v0 vadd vmul vsub s X (st_den V v0 v1 vadd vmul st').
Proof.
  intros Hwf Hn HwR Hrows st' ip.
  assert (Hshape : kshape (st_model st') = s).
  { destruct Hwf as [Hw Hs].
    assert (HnU : n < length (st_U st)) by (rewrite <- (map_length (@nrows V)), Hs; auto).
    unfold kshape, st_model, st'. cbn [kfactors als_update st_U].
    rewrite (map_nrows_upd V); auto. rewrite Hs.
    unfold st' in Hrows. cbn [als_update st_U] in Hrows. now rewrite (nth_upd_same V) in Hrows by auto. }
  rewrite <- knorm_gram, Hshape.
  exact (reported_residual V v0 v1 vadd vmul vsub vopp Vring solve scale R X s it st n Hwf Hn HwR Hrows).
Qed.

End Norm.

Print Assumptions knorm_gram.
Print Assumptions reported_residual_code.
