(* Np/NpZ4.v — fourth batch of "numpy / Python in Gallina" primitives, targets of the translator (tools/pyx2v.py,
   option "m4") for whole methods of pyttb classes (Gen/GenKtensor4.v): Python sequence comparison, the ktensor
   constructor's checks, column gathers, field stores of the ktensor record, slice stores, F-order reshape of a vector.
   Definitions only (characterising lemmas live in Proofs/W4*.v).  Each definition names the Python / numpy construct it
   stands for; the mapping is validated by the primitive-level differential stream of tools/props/w4gen.py (ops named
   prim4_...), not proved.  Np/NpZ.v ... Np/NpZ3e.v stay frozen; this file extends them. *)
From Coq Require Import List ZArith Bool Lia.
From PV Require Import Np.NpZ Np.NpZ2 Np.NpZ3 Np.NpZ3c Np.NpZ3d Np.NpZ3e.
Import ListNotations.
Local Open Scope Z_scope.

(* ---- Python sequences of ints ---- *)

(* a == b for two Python lists (or two tuples) of ints *)
Fixpoint zlist_eqb (a b : vec) : bool :=
  match a, b with
  | [], [] => true
  | x :: a', y :: b' => (x =? y) && zlist_eqb a' b'
  | _, _ => false
  end.

(* ---- index keys (pyidx of Np/NpZ3.v) used as a whole-sequence index ---- *)

Definition ix_is_none (x : pyidx) : bool := match x with IxNone => true | _ => false end.      (* x is None *)
(* np.asarray(x) of a list / 1-d integer array x, and x used as a fancy index a[x]; callers guard with ix_len_ok
   (an int / slice / None is not a sequence: the model answers Err there) *)
Definition ix_seq (x : pyidx) : vec := match x with IxSeq l | IxArr l => l | _ => [] end.

(* ---- ktensor record (ktz of Np/NpZ3.v) ---- *)

(* K.shape = tuple(f.shape[0] for f in K.factor_matrices) *)
Definition kt_shape (k : ktz) : vec := map np_nrows (kt_factors k).
(* ttb.ktensor(factor_matrices, weights[, copy=..]) with weights given: IndexError on an empty factor list, all factors
   must have the column count of the first one and weights.shape == (that count,).  (dtype / class checks are outside
   the model: every value is a float ndarray.)  copy= only decides aliasing. *)
Definition kt_make_ok (fs : list mat) (w : vec) : bool :=
  match fs with
  | [] => false
  | f0 :: _ => forallb (fun f => np_ncols f =? np_ncols f0) fs && (zlen w =? np_ncols f0)
  end.
Definition kt_make (fs : list mat) (w : vec) : ktz := mkkt w fs.
(* K.weights = w *)
Definition kt_set_weights (k : ktz) (w : vec) : ktz := mkkt w (kt_factors k).
(* K.factor_matrices[i] = m   (under idx_ok) *)
Definition kt_set_factor (k : ktz) (i : Z) (m : mat) : ktz := mkkt (kt_weights k) (np_set (kt_factors k) i m).

(* ---- 2-d arrays ---- *)

(* m[:, v] for an integer index vector / list v *)
Definition np_cols_ok (m : mat) (v : vec) : bool := forallb (fun r => np_take_ok r v) m.
Definition np_cols (m : mat) (v : vec) : mat := map (fun r => np_take 0 r v) m.
(* m * w (in place: m *= w) for a 2-d m and a 1-d w: broadcast along the rows; w must have the column count of m or
   exactly one entry, or m exactly one column (then the result would change shape: in-place raises, kept out) *)
Definition np_mul_cols_ok (m : mat) (w : vec) : bool := forallb (fun r => (zlen r =? zlen w) || (zlen w =? 1)) m.
Definition np_mul_cols (m : mat) (w : vec) : mat :=
  map (fun r => if (zlen w =? 1) && negb (zlen r =? 1) then map (fun x => x * znth 0 w 0) r else zmap2 Z.mul r w) m.

(* ---- 1-d arrays ---- *)

(* a <= b element-wise for 1-d arrays: equal lengths, or one of them of length 1 (broadcast) *)
Definition np_bcast_ok (a b : vec) : bool := (zlen a =? zlen b) || (zlen a =? 1) || (zlen b =? 1).
Fixpoint zmap2b (f : Z -> Z -> bool) (a b : vec) : bvec :=
  match a, b with x :: a', y :: b' => f x y :: zmap2b f a' b' | _, _ => [] end.
Definition np_le_vv (a b : vec) : bvec :=
  if zlen a =? zlen b then zmap2b Z.leb a b
  else if zlen a =? 1 then map (fun y => znth 0 a 0 <=? y) b
  else map (fun x => x <=? znth 0 b 0) a.

(* a < b element-wise (same broadcasting) *)
Definition np_lt_vv (a b : vec) : bvec :=
  if zlen a =? zlen b then zmap2b Z.ltb a b
  else if zlen a =? 1 then map (fun y => znth 0 a 0 <? y) b
  else map (fun x => x <? znth 0 b 0) a.

(* x[lo:hi] = v for 1-d arrays: the slice is clamped as Python does (slice_indices); v must have as many entries as the
   slice selects, or exactly one (broadcast) *)
Definition np_set_slice_ok (x : vec) (s : pyslice) (v : vec) : bool :=
  let '(a, b, st) := slice_indices s (zlen x) in
  let n := slice_len a b st in (zlen v =? n) || (zlen v =? 1).
Definition np_set_slice (x : vec) (s : pyslice) (v : vec) : vec :=
  let '(a, b, st) := slice_indices s (zlen x) in
  let n := slice_len a b st in
  map (fun j => let p := Z.of_nat j in
                if (a <=? p) && (p <? a + n) then (if zlen v =? 1 then znth 0 v 0 else znth 0 v (p - a)) else nth j x 0)
      (seq 0 (length x)).

(* np.reshape(v, (a, b), order="F" | "C") of a 1-d array to a 2-d array (row list).  The model covers a, b >= 0
   (numpy's -1 inference is not used by the translated sources); a = 0 gives the row list [] *)
Definition np_reshape2_ok (v : vec) (a b : Z) : bool := (0 <=? a) && (0 <=? b) && (a * b =? zlen v).
Definition np_reshape2 (o : memorder) (v : vec) (a b : Z) : mat :=
  map (fun i => map (fun j => match o with OrdF => znth 0 v (i + a * j) | OrdC => znth 0 v (i * b + j) end) (np_arange 0 b))
      (np_arange 0 a).
