#!/usr/bin/env python3
"""Regenerates coq/expected.json from the evidence files of the last green run (integration time only, never at check time):
per property the theorem names that must stay present and discharged, and a floor (60 % of the last evaluated count, quick
tier; the thorough tier must evaluate at least as many as that quick floor) for the number of correspondence cases.
tools/vcheck.py reports a violation when a listed theorem disappears or the case stream collapses below the floor."""
import glob, json, os
ROOT = os.path.dirname(os.path.dirname(os.path.abspath(__file__)))
path = os.path.join(ROOT, "coq", "expected.json")
out = json.load(open(path)) if os.path.exists(path) else {}
for fn in sorted(glob.glob(os.path.join(ROOT, "evidence", "C*.json"))):
    e = json.load(open(fn))
    if e.get("violations"):
        print("skip (violations in evidence):", e["property_id"])
        continue
    c = e["coverage"]
    cur = out.get(e["property_id"], {})
    floor = dict(cur.get("min_cases", {}))
    if e["tier"] == "quick":
        floor["quick"] = int(0.6 * c["evaluations"])
        floor.setdefault("thorough", floor["quick"])
        floor["thorough"] = max(floor["thorough"], floor["quick"])
    else:
        floor["thorough"] = max(int(0.6 * c["evaluations"]), floor.get("quick", 1))
    out[e["property_id"]] = {"theorems": sorted(set(c["theorems"])), "min_cases": floor}
json.dump(out, open(path, "w"), indent=1, sort_keys=True)
print({k: (len(v["theorems"]), v["min_cases"]) for k, v in out.items()})
