(* Props/C08k.v — C08, wave 5: tolist(), the exact clauses ("the list round trip reproduces the object exactly"): with all weights one the
   list IS the stored factor list and ktensor(list) with unit weights is the object itself; in every case the list keeps the number of
   factors and their numbers of rows.  Only statements, `exact`, Print Assumptions. *)
From Coq Require Import List Arith Bool.
From PV Require Import Base.Index Model.Repr Model.C08Kruskal Proofs.C08List.
Import ListNotations.
Local Open Scope nat_scope.

Section C08k.
Variable V : Type.
Variables (v1 : V) (vmul : V -> V -> V) (root vsgn vabs : V -> V) (is_one : V -> bool).

(* every record (any shapes / rank, ill-formed included), every value type, every root / sign / abs oracle *)
Theorem C08_tolist_unit_weights_exact : forall K : ktensor V, (forall x, is_one x = true -> x = v1) ->
  forallb is_one (kweights K) = true ->
  k_tolist vmul root vsgn vabs is_one K = kfactors K /\
  mkK (map (fun _ => v1) (kweights K)) (k_tolist vmul root vsgn vabs is_one K) = K.
Proof. exact (tolist_unit_exact V v1 vmul root vsgn vabs is_one). Qed.

Theorem C08_tolist_shape : forall K : ktensor V, map (@nrows V) (k_tolist vmul root vsgn vabs is_one K) = kshape K.
Proof. exact (tolist_shape V vmul root vsgn vabs is_one). Qed.
End C08k.
Print Assumptions C08_tolist_unit_weights_exact.
Print Assumptions C08_tolist_shape.

From Coq Require Import ZArith.
Local Open Scope Z_scope.
Example C08_example_tolist_unit :
  let K := mkK [1; 1] [[[1; 2]; [3; 4]; [5; 6]]; [[7; 8]; [9; 10]]] in
  mkK [1; 1] (k_tolist Z.mul (fun x => x) Z.sgn Z.abs (Z.eqb 1) K) = K.
Proof. reflexivity. Qed.
