(* Proofs/C02ReconstructProofs.v — ttensor.reconstruct with index-list samples (Model/C02Reconstruct.v): entry i of the result is the entry of
   the array the Tucker tensor denotes at the subscript whose k-th component is samples_k[i_k] (i_k itself where mode k is not sampled or its
   sample is empty); rows may repeat and come in any order.  The request test (wave 6, 9d2314a / C19-N29): an accepted request pairs samples and modes
   one to one with DISTINCT modes of [0, ndims), so full_samples is a plain table (mode_j -> sample_j, every other mode empty: full_samples_lookup /
   full_samples_other); negative, out-of-range and repeated modes are rejected (impl_reconstruct_req_rejects). *)
From Coq Require Import List Arith Lia Bool Ring ZArith.
From PV Require Import Base.Index Base.Perm Base.Sum Np.Array Model.Sparse Model.Repr Model.C02Spec Model.C02Dense Model.C02Tucker Model.C02TuckerFull
                       Model.C02Reconstruct Proofs.C02TuckerFullProofs.
Import ListNotations.

Section P.
Variable V : Type.
Variables (v0 v1 : V) (vadd vmul vsub : V -> V -> V) (vopp : V -> V).
Hypothesis Vring : ring_theory v0 v1 vadd vmul vsub vopp (@eq V).

Lemma full_samples_length N modes samples : length (full_samples N modes samples) = N.
Proof.
  unfold full_samples. generalize (combine samples modes). intros l.
  assert (H : forall fs, length (fold_left (fun fs sm => upd fs (snd sm) (fst sm)) l fs) = length fs).
  { induction l as [|a l IH]; intros fs; cbn; auto. now rewrite IH, upd_length. }
  now rewrite H, repeat_length.
Qed.

Lemma nrows_sample_rows (U : @matrix V) r :
  nrows (sample_rows U r) = match r with [] => nrows U | _ :: _ => length r end.
Proof. destruct r; cbn; auto. unfold nrows. cbn. now rewrite map_length. Qed.

Lemma mget_sample_rows (U : @matrix V) r x y :
  x < nrows (sample_rows U r) ->
  mget v0 (sample_rows U r) x y = mget v0 U (match r with [] => x | _ :: _ => nth x r 0 end) y.
Proof.
  intros Hx. destruct r as [|a r]; [reflexivity|].
  rewrite nrows_sample_rows in Hx. unfold mget, sample_rows. f_equal.
  rewrite (nth_indep _ [] (nth 0 U [])) by (now rewrite map_length).
  now rewrite (map_nth (fun q => nth q U [])).
Qed.

Lemma new_factors_length (Us : list (@matrix V)) fs : length (new_factors Us fs) = length Us.
Proof. revert fs; induction Us as [|U Us IH]; intros [|r fs]; cbn; auto. Qed.

Lemma tprod_sample (Us : list (@matrix V)) : forall fs i j, length fs = length Us ->
  inb (map (@nrows V) (new_factors Us fs)) i = true ->
  tprod v0 v1 vmul (new_factors Us fs) i j = tprod v0 v1 vmul Us (sample_idx fs i) j.
Proof.
  induction Us as [|U Us IH]; intros [|r fs] [|x i] j HL Hi; cbn in *; try discriminate; auto.
  apply andb_true_iff in Hi as [Hx Hi]. apply Nat.ltb_lt in Hx.
  destruct j as [|y j]; [reflexivity|].
  rewrite (mget_sample_rows U r x y Hx). f_equal. apply IH; auto.
Qed.

Lemma inb_sample (Us : list (@matrix V)) : forall fs i, rows_ok Us fs ->
  inb (map (@nrows V) (new_factors Us fs)) i = true ->
  inb (map (@nrows V) Us) (sample_idx fs i) = true.
Proof.
  induction Us as [|U Us IH]; intros fs i HR Hi; inversion HR as [|U' r Us' fs' Hr HR']; subst; cbn in *.
  - destruct i; [reflexivity|discriminate].
  - destruct i as [|x i]; [discriminate|]. apply andb_true_iff in Hi as [Hx Hi]. apply Nat.ltb_lt in Hx.
    rewrite nrows_sample_rows in Hx. apply andb_true_iff. split; [|now apply IH].
    apply Nat.ltb_lt. destruct r as [|a r]; [exact Hx|].
    rewrite Forall_forall in Hr. apply Hr. now apply nth_In.
Qed.

Theorem impl_reconstruct_correct (T : ttensor V) (modes : list nat) (samples : list (list nat)) :
  wf_dense (tcore T) -> length (dshape (tcore T)) = length (tfactors T) ->
  let fs := full_samples (length (tfactors T)) modes samples in
  rows_ok (tfactors T) fs ->
  let Y := impl_reconstruct v0 vadd vmul T modes samples in
  dshape Y = map (@nrows V) (new_factors (tfactors T) fs) /\ wf_dense Y /\
  forall i, inb (dshape Y) i = true -> den_dense v0 Y i = den_t v0 v1 vadd vmul T (sample_idx fs i).
Proof.
  intros W L fs HR Y.
  set (T' := mkT (tcore T) (new_factors (tfactors T) fs)).
  destruct (impl_full_t_correct V v0 v1 vadd vmul vsub vopp Vring T') as (S1 & W1 & D1).
  - exact W.
  - cbn. now rewrite new_factors_length.
  - unfold Y, impl_reconstruct. fold fs. fold T'. split; [exact S1|]. split; [exact W1|].
    intros i Hi. rewrite S1 in Hi. rewrite (D1 i Hi). unfold den_t. unfold tshape in *. cbn [tfactors tcore T'] in *.
    rewrite Hi. rewrite (inb_sample _ fs i HR Hi).
    apply sum_over_ext. intros j _. f_equal. apply tprod_sample; auto.
    unfold fs. apply full_samples_length.
Qed.

(* ---- the request test ---- *)
Lemma nth_upd_neq {A} (l : list A) k v j d : j <> k -> nth j (upd l k v) d = nth j l d.
Proof. revert k j; induction l as [|x l IH]; intros [|k] [|j] H; cbn; auto; try lia; try (apply IH; lia). Qed.

Let step := (fun (fs : list (list nat)) (sm : list nat * nat) => upd fs (snd sm) (fst sm)).

Lemma fold_upd_length l : forall fs, length (fold_left step l fs) = length fs.
Proof. induction l as [|a l IH]; intros fs; cbn; auto. rewrite IH. apply upd_length. Qed.

Lemma fold_upd_notin l : forall fs k, ~ In k (map snd l) -> nth k (fold_left step l fs) [] = nth k fs [].
Proof.
  induction l as [|[s0 m0] l IH]; intros fs k H; cbn in *; auto.
  rewrite IH by tauto. unfold step; cbn. apply nth_upd_neq. intros E. apply H. now left.
Qed.

Lemma fold_upd_in l : forall fs, NoDup (map snd l) -> (forall m, In m (map snd l) -> m < length fs) ->
  forall s m, In (s, m) l -> nth m (fold_left step l fs) [] = s.
Proof.
  induction l as [|[s0 m0] l IH]; intros fs ND B s m HI; cbn in *; [contradiction|].
  apply NoDup_cons_iff in ND as [Hn ND]. destruct HI as [E|HI].
  - inversion E; subst. rewrite fold_upd_notin by exact Hn. unfold step; cbn.
    rewrite nth_upd by (apply B; now left). now rewrite Nat.eqb_refl.
  - apply IH; auto. intros m' Hm'. unfold step; cbn. rewrite upd_length. apply B. now right.
Qed.

Lemma map_snd_combine' {A B} (l : list A) : forall (l' : list B), length l = length l' -> map snd (combine l l') = l'.
Proof. induction l as [|a l IH]; intros [|b l'] H; cbn in *; try discriminate; auto. f_equal. apply IH. lia. Qed.

Lemma zdistinctb_spec l : zdistinctb l = true <-> NoDup l.
Proof.
  induction l as [|m r IH]; cbn; [split; [constructor|reflexivity]|].
  rewrite andb_true_iff, negb_true_iff, IH, NoDup_cons_iff. split; intros [H1 H2]; split; auto.
  - intros HI. assert (existsb (Z.eqb m) r = true) by (apply existsb_exists; exists m; split; [exact HI|apply Z.eqb_refl]). congruence.
  - destruct (existsb (Z.eqb m) r) eqn:E; auto. apply existsb_exists in E as (y & Hy & Ey). apply Z.eqb_eq in Ey. subst. contradiction.
Qed.

Lemma recon_modes_ok_spec N modes :
  recon_modes_ok N modes = true <-> (NoDup modes /\ forall m, In m modes -> (0 <= m < Z.of_nat N)%Z).
Proof.
  unfold recon_modes_ok. rewrite andb_true_iff, zdistinctb_spec, forallb_forall. split; intros [A B]; split; auto.
  - intros m Hm. apply A in Hm. apply andb_true_iff in Hm as [H1 H2]. apply Z.leb_le in H1. apply Z.ltb_lt in H2. lia.
  - intros m Hm. apply B in Hm. apply andb_true_iff. split; [apply Z.leb_le|apply Z.ltb_lt]; lia.
Qed.

Lemma nodup_tonat l : (forall m, In m l -> (0 <= m)%Z) -> NoDup l -> NoDup (map Z.to_nat l).
Proof.
  induction l as [|a l IH]; intros B ND; cbn; [constructor|].
  apply NoDup_cons_iff in ND as [Hn ND]. constructor.
  - rewrite in_map_iff. intros (y & E & Hy). apply Z2Nat.inj in E; [subst; contradiction| |]; apply B; cbn; auto.
  - apply IH; auto. intros m Hm. apply B. now right.
Qed.

(* distinct modes of [0, N), one sample per mode: full_samples is the table mode_j -> sample_j ... *)
Lemma full_samples_lookup N (modes : list Z) samples :
  length samples = length modes -> NoDup modes -> (forall m, In m modes -> (0 <= m < Z.of_nat N)%Z) ->
  forall j, j < length modes -> nth (Z.to_nat (nth j modes 0%Z)) (full_samples N (map Z.to_nat modes) samples) [] = nth j samples [].
Proof.
  intros HL ND B j Hj. unfold full_samples. fold step.
  assert (HL' : length samples = length (map Z.to_nat modes)) by now rewrite map_length.
  apply fold_upd_in.
  - rewrite (map_snd_combine' _ _ HL'). apply nodup_tonat; auto. intros m Hm. apply B in Hm. lia.
  - rewrite (map_snd_combine' _ _ HL'). intros m Hm. rewrite repeat_length. apply in_map_iff in Hm as (z & <- & Hz). apply B in Hz. lia.
  - replace (nth j samples [], Z.to_nat (nth j modes 0%Z)) with (nth j (combine samples (map Z.to_nat modes)) ([], Z.to_nat 0%Z)).
    + apply nth_In. rewrite combine_length, map_length. lia.
    + rewrite combine_nth by exact HL'. f_equal. apply (map_nth Z.to_nat).
Qed.

(* ... and empty at every mode that is not named *)
Lemma full_samples_other N (modes : list Z) samples :
  length samples = length modes -> (forall m, In m modes -> (0 <= m)%Z) ->
  forall k, ~ In (Z.of_nat k) modes -> nth k (full_samples N (map Z.to_nat modes) samples) [] = [].
Proof.
  intros HL B k Hk. unfold full_samples. fold step.
  assert (HL' : length samples = length (map Z.to_nat modes)) by now rewrite map_length.
  rewrite fold_upd_notin.
  - destruct (Nat.lt_ge_cases k N) as [H|H]; [|now rewrite nth_overflow by (now rewrite repeat_length)].
    apply (nth_repeat [] N k).
  - rewrite (map_snd_combine' _ _ HL'). rewrite in_map_iff. intros (z & E & Hz). apply Hk.
    replace (Z.of_nat k) with z; auto. apply B in Hz. lia.
Qed.

Theorem impl_reconstruct_req_correct (T : ttensor V) (modes : list Z) (samples : list (list nat)) (Y : dense V) :
  wf_dense (tcore T) -> length (dshape (tcore T)) = length (tfactors T) ->
  impl_reconstruct_req v0 vadd vmul T modes samples = Some Y ->
  let N := length (tfactors T) in
  let fs := full_samples N (map Z.to_nat modes) samples in
  rows_ok (tfactors T) fs ->
  (length samples = length modes /\ NoDup modes /\ forall m, In m modes -> (0 <= m < Z.of_nat N)%Z) /\
  (forall j, j < length modes -> nth (Z.to_nat (nth j modes 0%Z)) fs [] = nth j samples []) /\
  (forall k, ~ In (Z.of_nat k) modes -> nth k fs [] = []) /\
  dshape Y = map (@nrows V) (new_factors (tfactors T) fs) /\ wf_dense Y /\
  forall i, inb (dshape Y) i = true -> den_dense v0 Y i = den_t v0 v1 vadd vmul T (sample_idx fs i).
Proof.
  intros W L HS N fs HR. unfold impl_reconstruct_req in HS.
  destruct (Nat.eqb (length samples) (length modes)) eqn:EL; cbn in HS; [|discriminate].
  destruct (recon_modes_ok (length (tfactors T)) modes) eqn:EM; [|discriminate].
  apply Nat.eqb_eq in EL. apply recon_modes_ok_spec in EM as [ND B]. inversion HS as [HY]. clear HS.
  split; [auto|]. split; [exact (full_samples_lookup N modes samples EL ND B)|].
  split; [apply full_samples_other; auto; intros m Hm; apply B in Hm; lia|].
  exact (impl_reconstruct_correct T (map Z.to_nat modes) samples W L HR).
Qed.

Theorem impl_reconstruct_req_accepts (T : ttensor V) (modes : list Z) (samples : list (list nat)) :
  length samples = length modes -> NoDup modes -> (forall m, In m modes -> (0 <= m < Z.of_nat (length (tfactors T)))%Z) ->
  impl_reconstruct_req v0 vadd vmul T modes samples = Some (impl_reconstruct v0 vadd vmul T (map Z.to_nat modes) samples).
Proof.
  intros HL ND B. unfold impl_reconstruct_req. rewrite (proj2 (Nat.eqb_eq _ _) HL).
  now rewrite (proj2 (recon_modes_ok_spec _ _) (conj ND B)).
Qed.

Theorem impl_reconstruct_req_rejects (T : ttensor V) (modes : list Z) (samples : list (list nat)) :
  (length samples <> length modes \/ ~ NoDup modes \/ exists m, In m modes /\ ~ (0 <= m < Z.of_nat (length (tfactors T)))%Z) ->
  impl_reconstruct_req v0 vadd vmul T modes samples = None.
Proof.
  intros H. unfold impl_reconstruct_req.
  destruct (Nat.eqb (length samples) (length modes)) eqn:EL; cbn; [|reflexivity].
  destruct (recon_modes_ok (length (tfactors T)) modes) eqn:EM; [|reflexivity].
  apply Nat.eqb_eq in EL. apply recon_modes_ok_spec in EM as [ND B].
  destruct H as [H|[H|(m & Hm & H)]]; [contradiction|contradiction|]. elim H. now apply B.
Qed.
End P.
