(* Proofs/C07W5.v — sptensor.reshape as written after /repo b27c529 (Model/C07W5.v reshape_sp_code: mode-number test, size-sign
   test, then the transliteration over the GENERATED tt_sub2ind / tt_ind2sub) computes the request-level specification
   reshape_sp_req / reshape_sp_all_req of Model/C07Req.v; what is refused; boolean orders on the five holders. *)
From Coq Require Import List ZArith Arith Lia Bool.
From PV Require Import Base.Index Base.Perm Np.NpZ Np.NpZ2 Np.NpZ3 Np.NpZ3b Gen.GenUtils Gen.GenUtils3b Np.Array Model.Sparse
  Model.Repr Model.C07Ops Model.C07Ops2 Model.C07Gen Model.C07Req Model.C07W5 Proofs.C07Index Proofs.C07Proofs
  Proofs.C07Reshape Proofs.C07Gen Proofs.C07Req.
Import ListNotations.

Lemma nats_of_cases (l : list Z) :
  nats_of l = if existsb (fun z => (z <? 0)%Z) l then None else Some (map Z.to_nat l).
Proof.
  unfold nats_of. replace (forallb (fun z => (0 <=? z)%Z) l) with (negb (existsb (fun z => (z <? 0)%Z) l)).
  - now destruct (existsb _ l).
  - induction l as [|z l IH]; [reflexivity|]. cbn [existsb forallb]. rewrite negb_orb, IH. f_equal.
    destruct (Z.ltb_spec z 0), (Z.leb_spec 0 z); try reflexivity; lia.
Qed.

Lemma in_range_cases (N : nat) (l : list Z) : existsb (fun z => (z <? 0)%Z) l = false ->
  forallb (fun k => k <? N) (map Z.to_nat l) = negb (existsb (fun z => (Z.of_nat N <=? z)%Z) l).
Proof.
  induction l as [|z l IH]; [reflexivity|]. cbn [existsb forallb map]. intros H. apply orb_false_iff in H as [Hz Hl].
  rewrite negb_orb, (IH Hl). f_equal. apply Z.ltb_ge in Hz.
  destruct (Nat.ltb_spec (Z.to_nat z) N), (Z.leb_spec (Z.of_nat N) z); try reflexivity; lia.
Qed.

Lemma map_to_nat_nonnil (l : list Z) : l <> [] -> map Z.to_nat l <> [].
Proof. destruct l; [congruence|discriminate]. Qed.

Section W5.
Context {V : Type} (v0 : V).

(* stored subscripts inside the shape, one value per row: what the sptensor constructor guarantees *)
Definition ok_store (S : sparse V) : Prop :=
  Forall (fun j => inb (sshape S) j = true) (ssubs S) /\ length (svals S) = length (ssubs S).

(* the code path with explicit mode numbers = the specification of the request *)
Theorem reshape_sp_code_req (S : sparse V) (x : pyshp) (oldz : list Z) : ok_store S -> oldz <> [] ->
  res_opt (reshape_sp_code S x (Some oldz)) = reshape_sp_req S x oldz.
Proof.
  intros [Hin Hlen] Hne. unfold reshape_sp_code, reshape_sp_req, bad_modes. rewrite nats_of_cases.
  destruct (existsb (fun z => (z <? 0)%Z) oldz) eqn:Eneg; cbn [orb]; [reflexivity|].
  rewrite (in_range_cases _ _ Eneg).
  destruct (existsb (fun z => (Z.of_nat (length (sshape S)) <=? z)%Z) oldz) eqn:Ebig; cbn [negb]; [reflexivity|].
  unfold with_shape, shape_of. destruct (parse_shape x) as [nz|]; cbn [bind]; [|reflexivity].
  destruct nz as [|z0 nz]; [reflexivity|].
  rewrite nats_of_cases. destruct (existsb (fun d => (d <? 0)%Z) (z0 :: nz)); [reflexivity|].
  apply reshape_sp_gen_bridge; auto.
  - now apply map_to_nat_nonnil.
  - apply Forall_forall. intros k Hk.
    pose proof (in_range_cases (length (sshape S)) oldz Eneg) as F. rewrite Ebig in F. cbn [negb] in F.
    rewrite forallb_forall in F. now apply Nat.ltb_lt, F.
Qed.

(* the default old_modes = None: all modes in order *)
Theorem reshape_sp_code_all (S : sparse V) (x : pyshp) : ok_store S -> sshape S <> [] ->
  res_opt (reshape_sp_code S x None) = reshape_sp_all_req S x.
Proof.
  intros [Hin Hlen] Hne. unfold reshape_sp_code, reshape_sp_all_req, with_shape, shape_of.
  destruct (parse_shape x) as [nz|]; cbn [bind]; [|reflexivity].
  destruct nz as [|z0 nz]; [reflexivity|].
  rewrite nats_of_cases. destruct (existsb (fun d => (d <? 0)%Z) (z0 :: nz)); [reflexivity|].
  unfold reshape_sp_all. apply reshape_sp_gen_bridge; auto.
  - destruct (sshape S); [congruence|discriminate].
  - apply Forall_forall. intros k Hk. apply in_seq in Hk. lia.
Qed.

(* N-C07-3 (repaired): a mode number that is negative or >= ndims refuses the request, whatever else is asked *)
Theorem reshape_sp_code_bad_mode (S : sparse V) x oldz z : In z oldz ->
  (z < 0 \/ Z.of_nat (length (sshape S)) <= z)%Z -> reshape_sp_code S x (Some oldz) = Err.
Proof.
  intros Hin Hz. unfold reshape_sp_code.
  replace (bad_modes (length (sshape S)) oldz) with true; [reflexivity|].
  symmetry. unfold bad_modes. apply orb_true_iff. destruct Hz as [Hz|Hz]; [left|right]; apply existsb_exists; exists z;
    (split; [exact Hin|]); [now apply Z.ltb_lt|now apply Z.leb_le].
Qed.

(* N-C07-4 (repaired): a negative size in the target shape refuses the request — with or without stored entries *)
Theorem reshape_sp_code_negative_size (S : sparse V) x o nz d : parse_shape x = Ok nz -> In d nz -> (d < 0)%Z ->
  reshape_sp_code S x o = Err.
Proof.
  intros Hp Hin Hd. unfold reshape_sp_code.
  destruct (match o with None => _ | Some l => _ end); [|reflexivity].
  rewrite Hp. cbn [bind]. replace (existsb (fun d0 => (d0 <? 0)%Z) nz) with true; [reflexivity|].
  symmetry. apply existsb_exists. exists d. split; [exact Hin|now apply Z.ltb_lt].
Qed.

(* a target without modes ((), []) is refused by every reshape, whatever the holder stores *)
Theorem reshape_empty_target_refused (T : dense V) (S : sparse V) x oldz o : parse_shape x = Ok [] ->
  reshape_d_req v0 T x = None /\ reshape_sp_all_req S x = None /\ reshape_sp_req S x oldz = None /\
  reshape_sp_code S x o = Err.
Proof.
  intros H. unfold reshape_d_req, reshape_sp_all_req, reshape_sp_req, with_shape, shape_of, reshape_sp_code. rewrite H.
  split; [reflexivity|]. split; [reflexivity|]. split.
  - destruct (nats_of oldz); [|reflexivity]. now destruct (forallb _ l).
  - destruct (match o with None => _ | Some l => _ end); reflexivity.
Qed.

(* what an answered request has said: the listed modes are modes of the tensor, the sizes are sizes, and the result is the
   subset reshape of Model/C07Ops.v (index law: C07_reshape_sparse_subset_bijection) *)
Theorem reshape_sp_code_sound (S : sparse V) x oldz R : ok_store S -> oldz <> [] ->
  reshape_sp_code S x (Some oldz) = Ok R ->
  exists old s', oldz = map Z.of_nat old /\ Forall (fun k => k < length (sshape S)) old /\
    parse_shape x = Ok (map Z.of_nat s') /\ reshape_sp S s' old = Some R.
Proof.
  intros HS Hne E. pose proof (reshape_sp_code_req S x oldz HS Hne) as B. rewrite E in B. cbn [res_opt] in B.
  symmetry in B. now apply reshape_sp_req_modes in B.
Qed.

(* the index law for the code path: an answered request with distinct listed modes moves every entry to
   kept ++ ind2sub(new, sub2ind(shape[old], i[old])) — the mode listed FIRST varies fastest — changes no value, and every
   result index comes from exactly the source index unreshape_row gives *)
Theorem reshape_sp_code_law (isz : V -> bool) (S : sparse V) x oldz R : ok_store S -> oldz <> [] -> NoDup oldz ->
  reshape_sp_code S x (Some oldz) = Ok R ->
  exists old s', oldz = map Z.of_nat old /\ parse_shape x = Ok (map Z.of_nat s') /\
    let s := sshape S in
    sshape R = pick 0 (keep_modes (length s) old) s ++ s' /\ svals R = svals S /\ nnz R = nnz S /\
    (wf_sp isz S -> wf_sp isz R) /\
    (forall i, inb s i = true -> inb (sshape R) (reshape_row s s' old i) = true /\
                                 den_sp v0 R (reshape_row s s' old i) = den_sp v0 S i) /\
    (forall j, den_sp v0 R j = if inb (sshape R) j then den_sp v0 S (unreshape_row s s' old j) else v0) /\
    (forall i, inb s i = true -> unreshape_row s s' old (reshape_row s s' old i) = i).
Proof.
  intros HS Hne Hnd E. destruct (reshape_sp_code_sound S x oldz R HS Hne E) as (old & s' & -> & Hold & Hp & HR).
  exists old, s'. split; [reflexivity|]. split; [exact Hp|]. cbv zeta.
  assert (Hnd' : NoDup old) by (eapply NoDup_map_inv; exact Hnd).
  assert (Hsz : size s' = size (pick 0 old (sshape S))).
  { unfold reshape_sp in HR. destruct (Nat.eqb_spec (size s') (size (pick 0 old (sshape S)))); [assumption|discriminate]. }
  destruct HS as [Hin _].
  destruct (reshape_sparse_correct v0 isz S s' old Hold Hsz Hin) as (R1 & HR1 & Hsh & Hv & Hn & Hw & Hfw & _).
  destruct (reshape_sparse_subset_bijection v0 isz S s' old Hold Hnd' Hsz Hin) as (R2 & HR2 & _ & _ & Hleft & Hden & _).
  rewrite HR in HR1, HR2. injection HR1 as <-. injection HR2 as <-.
  split; [exact Hsh|]. split; [exact Hv|]. split; [exact Hn|]. split; [exact Hw|]. split; [exact Hfw|].
  split; [exact Hden|exact Hleft].
Qed.

(* ---------------- sparse squeeze on every shape (the demanded behaviour; N-C07-7) *)
Lemma sqn_nil_zero s i : sqn s s = [] -> inb s i = true -> i = repeat 0 (length s).
Proof.
  revert i; induction s as [|d s IH]; intros [|x i] E H; cbn [inb] in H; try discriminate; auto.
  apply andb_true_iff in H as [Hx Hi]. apply Nat.ltb_lt in Hx. cbn [sqn] in E.
  destruct (Nat.eqb_spec d 1) as [->|Hd]; [|discriminate].
  cbn [length repeat]. f_equal; [lia|]. now apply IH.
Qed.

Lemma sqn_inj s i j : inb s i = true -> inb s j = true -> sqn s i = sqn s j -> i = j.
Proof.
  intros Hi Hj E. apply (sub2ind_inj s); auto.
  destruct (sqn_index s i Hi) as (<- & _). destruct (sqn_index s j Hj) as (<- & _). now rewrite E.
Qed.

Lemma inb_zero_mode s i : In 0 s -> inb s i = false.
Proof.
  revert i; induction s as [|d s IH]; intros i H; [destruct H|]. destruct i as [|x i]; [reflexivity|]. cbn [inb].
  destruct H as [->|H]; [reflexivity|]. rewrite (IH i H). apply andb_false_r.
Qed.

Theorem squeeze_sparse_any (isz : V -> bool) (S : sparse V) :
  Forall (fun j => inb (sshape S) j = true) (ssubs S) ->
  match squeeze_sp_any v0 S with
  | SqT R => sshape R = sqn (sshape S) (sshape S) /\ svals R = svals S /\ nnz R = nnz S /\
             (wf_sp isz S -> wf_sp isz R) /\
             (forall i, inb (sshape S) i = true ->
                inb (sshape R) (sqn (sshape S) i) = true /\ den_sp v0 R (sqn (sshape S) i) = den_sp v0 S i)
  | SqScalar v => sqn (sshape S) (sshape S) = [] /\ (forall i, inb (sshape S) i = true -> v = den_sp v0 S i)
  end.
Proof.
  intros Hb. unfold squeeze_sp_any. destruct (forallb (fun d => negb (Nat.eqb d 1)) (sshape S)) eqn:Hall.
  - split; [now rewrite sqn_all|]. split; auto. split; auto. split; auto.
    intros i Hi. rewrite sqn_all by (auto; now apply inb_length). auto.
  - destruct (sqn (sshape S) (sshape S)) as [|d r] eqn:Es.
    + split; auto. intros i Hi. now rewrite (sqn_nil_zero _ _ Es Hi).
    + cbn [sshape ssubs svals]. split; [reflexivity|]. split; [reflexivity|].
      split; [unfold nnz; cbn; now rewrite map_length|]. rewrite <- Es. split.
      * intros W. apply (wf_sp_map isz (sqn (sshape S)) (fun j => inb (sshape S) j = true)); auto.
        -- intros a b. apply sqn_inj.
        -- intros a Ha. now destruct (sqn_index _ _ Ha) as (_ & E).
      * intros i Hi. split; [now destruct (sqn_index _ _ Hi) as (_ & E)|].
        apply (den_sp_map v0 (sqn (sshape S)) (fun j => inb (sshape S) j = true)); auto.
        intros a b. apply sqn_inj.
Qed.

(* on positive sizes: the squeeze model of Model/C07Ops.v (and so the code as written, C07_squeeze_sparse_code) *)
Theorem squeeze_sp_any_pos (S : sparse V) : forallb (Nat.ltb 0) (sshape S) = true -> squeeze_sp_any v0 S = squeeze_sp v0 S.
Proof.
  intros H. unfold squeeze_sp_any, squeeze_sp. rewrite (ne1_lt1 _ H), (sqn_sqz _ _ H).
  destruct (forallb (Nat.ltb 1) (sshape S)); [reflexivity|]. destruct (sqz (sshape S) (sshape S)); [reflexivity|].
  do 2 f_equal. apply map_ext. intros j. now apply sqn_sqz.
Qed.

(* with a size-0 mode: nothing can be stored, every size-0 mode is kept, the answer is a tensor *)
Theorem squeeze_sparse_zero_mode (S : sparse V) : Forall (fun j => inb (sshape S) j = true) (ssubs S) -> In 0 (sshape S) ->
  ssubs S = [] /\ exists R, squeeze_sp_any v0 S = SqT R /\ sshape R = sqn (sshape S) (sshape S) /\ In 0 (sshape R) /\ ssubs R = [].
Proof.
  intros Hb H0.
  assert (Hs : ssubs S = []).
  { destruct (ssubs S) as [|j l]; [reflexivity|]. inversion Hb as [|? ? Hj _]. now rewrite (inb_zero_mode _ j H0) in Hj. }
  split; [exact Hs|]. unfold squeeze_sp_any. destruct (forallb (fun d => negb (Nat.eqb d 1)) (sshape S)) eqn:Hall.
  - exists S. split; [reflexivity|]. rewrite sqn_all by auto. auto.
  - pose proof (sqn_has_zero _ H0) as Hz. destruct (sqn (sshape S) (sshape S)) as [|d r] eqn:Es; [destruct Hz|].
    eexists. split; [reflexivity|]. cbn [sshape ssubs]. rewrite Hs. auto.
Qed.

(* dense and sparse holders of the same data agree under squeeze on EVERY shape *)
Theorem squeeze_agree_any (T : dense V) (S : sparse V) : wf_dense T -> sshape S = dshape T ->
  Forall (fun j => inb (sshape S) j = true) (ssubs S) ->
  (forall i, inb (dshape T) i = true -> den_sp v0 S i = den_dense v0 T i) ->
  match squeeze_d v0 T, squeeze_sp_any v0 S with
  | SqT T', SqT S' => sshape S' = dshape T' /\
       forall i, inb (dshape T) i = true -> den_sp v0 S' (sqn (dshape T) i) = den_dense v0 T' (sqn (dshape T) i)
  | SqScalar a, SqScalar b => a = b
  | _, _ => False
  end.
Proof.
  intros W Hs Hb Hag.
  pose proof (squeeze_dense_any v0 T W) as HD. pose proof (squeeze_sparse_any (fun _ => false) S Hb) as HS.
  unfold squeeze_d, squeeze_sp_any in *. rewrite Hs in *.
  destruct (forallb (fun d => negb (Nat.eqb d 1)) (dshape T)).
  - destruct HD as (_ & _ & _ & HdT). destruct HS as (_ & _ & _ & _ & HdS). split; [exact Hs|].
    intros i Hi. destruct (HdS i Hi) as [_ ->]. destruct (HdT i Hi) as [_ ->]. auto.
  - destruct (sqn (dshape T) (dshape T)) as [|d r] eqn:Es.
    + destruct HD as (_ & HdT). destruct HS as (_ & HdS).
      assert (Hex : inb (dshape T) (repeat 0 (length (dshape T))) = true).
      { clear -Es. induction (dshape T) as [|d s IH]; [reflexivity|]. cbn [sqn] in Es.
        destruct (Nat.eqb_spec d 1) as [->|]; [|discriminate]. cbn [length repeat inb]. now rewrite (IH Es). }
      rewrite (HdT _ Hex). symmetry. now apply Hag.
    + destruct HD as (_ & _ & _ & HdT). destruct HS as (_ & _ & _ & _ & HdS). split; [reflexivity|].
      intros i Hi. destruct (HdS i Hi) as [_ ->]. destruct (HdT i Hi) as [_ ->]. auto.
Qed.

(* ---------------- boolean orders *)
Lemma bool_order_not_int x pz : bool_order_of x = Some pz -> order_of x = None.
Proof.
  unfold bool_order_of, order_of. destruct (parse_one_d x) as [a|]; [|discriminate].
  unfold nd_is_bool, nd_is_integer. destruct (nd_kind a); cbn [andb]; try discriminate. reflexivity.
Qed.

(* sptensor.permute (9c8fdd5), ttensor.permute with a dense or a sparse core: refused *)
Theorem bool_order_refused (S : sparse V) (T : ttensor V) (Ts : sttensor V) x pz : bool_order_of x = Some pz ->
  permute_sp_req S x = None /\ permute_t_req v0 T x = None /\ permute_st_req Ts x = None /\ permute_d_req v0 (tcore T) x = None.
Proof.
  intros H. apply bool_order_not_int in H. unfold permute_sp_req, permute_t_req, permute_st_req, permute_d_req, with_order.
  rewrite H. auto.
Qed.

(* tensor.permute: answered only on a one-mode tensor by order [True], with the tensor itself *)
Theorem bool_order_dense (T : dense V) x pz R : bool_order_of x = Some pz -> permute_d_req5 v0 T x = Some R ->
  R = T /\ length (dshape T) = 1 /\ pz = [1%Z].
Proof.
  intros H. unfold permute_d_req5. rewrite H.
  destruct (Nat.eqb_spec (length (dshape T)) 1) as [E1|]; cbn [andb]; [|discriminate].
  destruct (Nat.eqb_spec (length pz) 1) as [E2|]; cbn [andb]; [|discriminate].
  destruct pz as [|z [|]]; try discriminate. cbn [forallb]. destruct (Z.eqb_spec 1 z) as [<-|]; cbn [andb]; [|discriminate].
  intros E. injection E as <-. auto.
Qed.

(* ktensor.permute reads True / False as 1 / 0: an answered request is a permutation of the modes by those numbers *)
Theorem bool_order_kruskal (K : ktensor V) x pz R : bool_order_of x = Some pz -> permute_k_req5 K x = Some R ->
  exists p, pz = map Z.of_nat p /\ is_perm p (length (kfactors K)) /\ permute_k K p = Some R.
Proof.
  intros H. unfold permute_k_req5, order_of_k. rewrite H. unfold with_order_z.
  destruct (nats_of pz) as [p|] eqn:E; [|discriminate]. intros HR. exists p. split; [now apply nats_of_some|].
  split; [|exact HR]. unfold permute_k in HR. destruct (is_permb p (length (kfactors K))) eqn:Ep; [|discriminate].
  now apply is_permb_spec.
Qed.

(* on integer orders the fifth-wave request models are the fourth-wave ones *)
Theorem req5_integer (T : dense V) (K : ktensor V) x : bool_order_of x = None ->
  permute_d_req5 v0 T x = permute_d_req v0 T x /\ permute_k_req5 K x = permute_k_req K x.
Proof.
  intros H. unfold permute_d_req5, permute_k_req5, order_of_k, permute_k_req, with_order. rewrite H. split; [reflexivity|].
  destruct (order_of x); reflexivity.
Qed.

End W5.
