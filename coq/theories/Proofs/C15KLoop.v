(* Proofs/C15KLoop.v — wave 5: the statement-by-statement transliteration of ktensor.symmetrize (Model/C15KLoop.v: the
   in-place column flips and weight toggles of the alignment loop, V = V + fmi, V / N, the odd-order repair loop) EQUALS the
   closed form k15_core (Model/C15K.v) as a Kruskal tensor — weights and every stored entry — for every well-formed input
   (all factors m x R, R weights), every commutative ring, every oracle for "x < 0".  Hence all theorems proved for k15_core
   (identical factors, symmetric value, value kept on signed copies, end to end on identical factors) hold for the loops. *)
From Coq Require Import List Arith Lia Bool Permutation Ring.
From PV Require Import Base.Index Base.Perm Base.Sum Np.Array Model.Repr Model.C08Kruskal Model.C15Sym Model.C15K Model.C15KLoop
  Proofs.C15Proofs Proofs.C15K.
Import ListNotations.

(* ---- generic list facts ---- *)
Lemma l15_length_upd_nth {A} (f : A -> A) : forall l n, length (upd_nth n f l) = length l.
Proof. induction l as [|x l IH]; intros [|n]; cbn; auto. Qed.

Lemma l15_nth_upd_nth_other {A} (f : A -> A) (d : A) : forall l n k, k <> n -> nth k (upd_nth n f l) d = nth k l d.
Proof. induction l as [|x l IH]; intros [|n] [|k] H; cbn; auto; try lia; try (apply IH; lia). Qed.

Lemma l15_nth_upd_nth_same {A} (f : A -> A) (d : A) : forall l n, n < length l -> nth n (upd_nth n f l) d = f (nth n l d).
Proof. induction l as [|x l IH]; intros [|n] H; cbn in *; auto; try lia; try (apply IH; lia). Qed.

Lemma l15_zipw_length {A} (f : A -> A -> A) : forall a b, length a = length b -> length (zipw f a b) = length a.
Proof. induction a as [|x a IH]; intros [|y b] H; cbn in *; auto; try lia. Qed.

Lemma l15_zipw_nth {A} (f : A -> A -> A) (d da db : A) : forall a b k, length a = length b -> k < length a ->
  nth k (zipw f a b) d = f (nth k a da) (nth k b db).
Proof. induction a as [|x a IH]; intros [|y b] [|k] H Hk; cbn in *; auto; try lia; try (apply IH; lia). Qed.

Lemma l15_nth_map_nil {A} (g : list A -> list A) (l : list (list A)) x : g [] = [] -> nth x (map g l) [] = g (nth x l []).
Proof. intros H. transitivity (nth x (map g l) (g [])); [now rewrite H|apply map_nth]. Qed.

Lemma l15_upd_nth_nil {A} (f : A -> A) j : upd_nth j f (@nil A) = [].
Proof. destruct j; reflexivity. Qed.

Section LK15.
Variable V : Type.
Variables (v0 v1 : V) (vadd vmul vsub : V -> V -> V) (vopp vinv : V -> V) (neg : V -> bool).
Hypothesis Vring : ring_theory v0 v1 vadd vmul vsub vopp (@eq V).
Add Ring VrLK15 : Vring.
Notation "x + y" := (vadd x y).
Notation "x * y" := (vmul x y).
Notation mat := (list (list V)).
Notation mg := (mget v0).
Notation sg := (ksgn v1 vopp).
Notation ocol := (opp_col vopp).

(* an m x R matrix *)
Definition wfm (m R : nat) (A : mat) : Prop := length A = m /\ Forall (fun row => length row = R) A.
(* -a or a *)
Definition sgv (b : bool) (a : V) : V := if b then vopp a else a.

Lemma sgv_sg b a : sgv b a = sg b * a.
Proof. destruct b; unfold sgv, ksgn, km1; ring. Qed.
Lemma sgv_sg_r b a : sgv b a = a * sg b.
Proof. destruct b; unfold sgv, ksgn, km1; ring. Qed.

Lemma wfm_row m R A x : wfm m R A -> x < m -> length (nth x A []) = R.
Proof. intros [Hm HF] Hx. rewrite Forall_forall in HF. apply HF. apply nth_In. lia. Qed.

Lemma mat_ext m R (A B : mat) : wfm m R A -> wfm m R B -> (forall x k, x < m -> k < R -> mg A x k = mg B x k) -> A = B.
Proof.
  intros HA HB H. apply (nth_ext _ _ [] []); [destruct HA, HB; congruence|]. intros x Hx.
  assert (Hx' : x < m) by (destruct HA; congruence).
  apply (nth_ext _ _ v0 v0); [rewrite (wfm_row m R A x HA Hx'), (wfm_row m R B x HB Hx'); reflexivity|].
  intros k Hk. rewrite (wfm_row m R A x HA Hx') in Hk. exact (H x k Hx' Hk).
Qed.

Lemma wfm_ocol m R j A : wfm m R A -> wfm m R (ocol j A).
Proof.
  intros [Hm HF]. split; [unfold opp_col; now rewrite map_length|]. unfold opp_col. apply Forall_map.
  eapply Forall_impl; [|exact HF]. intros row Hr. now rewrite l15_length_upd_nth.
Qed.

Lemma mg_ocol_other j (A : mat) x k : k <> j -> mg (ocol j A) x k = mg A x k.
Proof.
  intros H. unfold mget, opp_col. rewrite l15_nth_map_nil by apply l15_upd_nth_nil.
  now apply l15_nth_upd_nth_other.
Qed.

Lemma mg_ocol_same m R j (A : mat) x : wfm m R A -> x < m -> j < R -> mg (ocol j A) x j = vopp (mg A x j).
Proof.
  intros HA Hx Hj. unfold mget, opp_col. rewrite l15_nth_map_nil by apply l15_upd_nth_nil.
  apply l15_nth_upd_nth_same. now rewrite (wfm_row m R A x HA Hx).
Qed.

Lemma wfm_madd m R A B : wfm m R A -> wfm m R B -> wfm m R (madd vadd A B).
Proof.
  intros [HmA HFA] [HmB HFB]. unfold madd. split; [rewrite l15_zipw_length; congruence|].
  apply Forall_forall. intros row Hin. destruct (In_nth _ _ [] Hin) as (x & Hx & <-).
  rewrite l15_zipw_length in Hx by congruence.
  rewrite (l15_zipw_nth (zipw vadd) [] [] [] A B x) by (congruence || lia).
  assert (Hx' : x < m) by lia.
  rewrite l15_zipw_length; [apply (wfm_row m R A x (conj HmA HFA) Hx')|].
  rewrite (wfm_row m R A x (conj HmA HFA) Hx'), (wfm_row m R B x (conj HmB HFB) Hx'). reflexivity.
Qed.

Lemma mg_madd m R A B x k : wfm m R A -> wfm m R B -> x < m -> k < R -> mg (madd vadd A B) x k = mg A x k + mg B x k.
Proof.
  intros HA HB Hx Hk. unfold mget, madd. destruct HA as [HmA HFA], HB as [HmB HFB].
  rewrite (l15_zipw_nth (zipw vadd) [] [] [] A B x) by (congruence || lia).
  pose proof (wfm_row m R A x (conj HmA HFA) Hx) as LA. pose proof (wfm_row m R B x (conj HmB HFB) Hx) as LB.
  apply l15_zipw_nth; [congruence|lia].
Qed.

Lemma wfm_mdiv m R N A : wfm m R A -> wfm m R (mdiv v0 v1 vadd vmul vinv N A).
Proof.
  intros [Hm HF]. unfold mdiv. split; [now rewrite map_length|]. apply Forall_map. eapply Forall_impl; [|exact HF].
  intros row Hr. now rewrite map_length.
Qed.

Lemma mg_mdiv m R N A x k : wfm m R A -> x < m -> k < R ->
  mg (mdiv v0 v1 vadd vmul vinv N A) x k = mg A x k * vinv (of_nat v0 v1 vadd N).
Proof.
  intros HA Hx Hk. unfold mget, mdiv. set (F := fun a : V => a * vinv (of_nat v0 v1 vadd N)).
  rewrite (l15_nth_map_nil (map F)) by reflexivity.
  rewrite (nth_indep _ v0 (F v0)) by (rewrite map_length, (wfm_row m R A x HA Hx); exact Hk).
  now rewrite (map_nth F).
Qed.

(* ---- the two inner loops have one shape: for j = 0 .. R-1, a test read from the current state; if it holds column j of the
        matrix and entry j of the weights are negated ---- *)
Definition gstep (test : mat * list V -> nat -> bool) (st : mat * list V) (j : nat) : mat * list V :=
  if test st j then (ocol j (fst st), upd_nth j vopp (snd st)) else st.

Section GLoop.
Variables (test : mat * list V -> nat -> bool) (b : nat -> bool) (F0 : mat) (W0 : list V) (m R : nat).
Hypothesis HF0 : wfm m R F0.
Hypothesis HW0 : length W0 = R.
(* the test on column j only looks at column j of the matrix and entry j of the weights *)
Hypothesis Htest : forall F W j, j < R -> (forall x, x < m -> mg F x j = mg F0 x j) -> nth j W v0 = nth j W0 v0 ->
  test (F, W) j = b j.

Definition ginv (n : nat) (st : mat * list V) : Prop :=
  wfm m R (fst st) /\ length (snd st) = R /\
  (forall x k, x < m -> k < R -> mg (fst st) x k = if k <? n then sgv (b k) (mg F0 x k) else mg F0 x k) /\
  (forall k, k < R -> nth k (snd st) v0 = if k <? n then sgv (b k) (nth k W0 v0) else nth k W0 v0).

Lemma gloop_inv n : n <= R -> ginv n (fold_left (gstep test) (seq 0 n) (F0, W0)).
Proof.
  unfold ginv. induction n as [|n IH]; intros Hn.
  - cbn. repeat split; auto; try (destruct HF0; assumption).
  - rewrite seq_S, fold_left_app. cbn [fold_left Nat.add]. specialize (IH ltac:(lia)).
    destruct (fold_left (gstep test) (seq 0 n) (F0, W0)) as [F W]. destruct IH as (HF & HW & HE & HWE). cbn [fst snd] in *.
    assert (Ht : test (F, W) n = b n).
    { apply Htest; [lia| |].
      - intros x Hx. rewrite (HE x n Hx ltac:(lia)). now rewrite Nat.ltb_irrefl.
      - rewrite (HWE n ltac:(lia)). now rewrite Nat.ltb_irrefl. }
    unfold gstep. rewrite Ht. destruct (b n) eqn:Eb; cbn [fst snd].
    + split; [now apply wfm_ocol|]. split; [now rewrite l15_length_upd_nth|]. split.
      * intros x k Hx Hk. destruct (Nat.eq_dec k n) as [->|Hne].
        -- rewrite (mg_ocol_same m R n F x HF Hx Hk), (HE x n Hx Hk), Nat.ltb_irrefl.
           replace (n <? S n) with true by (symmetry; apply Nat.ltb_lt; lia). now rewrite Eb.
        -- rewrite mg_ocol_other by exact Hne. rewrite (HE x k Hx Hk).
           destruct (Nat.ltb_spec k n), (Nat.ltb_spec k (S n)); auto; lia.
      * intros k Hk. destruct (Nat.eq_dec k n) as [->|Hne].
        -- rewrite l15_nth_upd_nth_same by lia. rewrite (HWE n Hk), Nat.ltb_irrefl.
           replace (n <? S n) with true by (symmetry; apply Nat.ltb_lt; lia). now rewrite Eb.
        -- rewrite l15_nth_upd_nth_other by exact Hne. rewrite (HWE k Hk).
           destruct (Nat.ltb_spec k n), (Nat.ltb_spec k (S n)); auto; lia.
    + split; [exact HF|]. split; [exact HW|]. split.
      * intros x k Hx Hk. rewrite (HE x k Hx Hk). destruct (Nat.eq_dec k n) as [->|Hne].
        -- rewrite Nat.ltb_irrefl. replace (n <? S n) with true by (symmetry; apply Nat.ltb_lt; lia). now rewrite Eb.
        -- destruct (Nat.ltb_spec k n), (Nat.ltb_spec k (S n)); auto; lia.
      * intros k Hk. rewrite (HWE k Hk). destruct (Nat.eq_dec k n) as [->|Hne].
        -- rewrite Nat.ltb_irrefl. replace (n <? S n) with true by (symmetry; apply Nat.ltb_lt; lia). now rewrite Eb.
        -- destruct (Nat.ltb_spec k n), (Nat.ltb_spec k (S n)); auto; lia.
Qed.

Lemma gloop_full : let r := fold_left (gstep test) (seq 0 R) (F0, W0) in
  wfm m R (fst r) /\ length (snd r) = R /\
  (forall x k, x < m -> k < R -> mg (fst r) x k = sgv (b k) (mg F0 x k)) /\
  (forall k, k < R -> nth k (snd r) v0 = sgv (b k) (nth k W0 v0)).
Proof.
  cbv zeta. destruct (gloop_inv R (le_n R)) as (H1 & H2 & H3 & H4). repeat split; auto; try (destruct H1; assumption).
  - intros x k Hx Hk. rewrite (H3 x k Hx Hk). now replace (k <? R) with true by (symmetry; apply Nat.ltb_lt; lia).
  - intros k Hk. rewrite (H4 k Hk). now replace (k <? R) with true by (symmetry; apply Nat.ltb_lt; lia).
Qed.
End GLoop.

Notation flip := (kflip v0 vadd vmul neg).
Notation cdot := (coldot v0 vadd vmul).
Notation acol := (align_col v0 vadd vmul vopp neg).
Notation amode := (align_mode v0 vadd vmul vopp neg).
Notation ocl := (odd_col v0 vopp neg).
Notation mdv := (mdiv v0 v1 vadd vmul vinv).

(* ---- the inner alignment loop on one factor Ai: column k and weight k are negated exactly when the column product of the
        ORIGINAL column k with factor 0 is negative (the flips of the columns before k do not touch column k) ---- *)
Lemma align_cols_spec m R (A0 Ai : mat) (W0 : list V) : nrows A0 = m -> wfm m R Ai -> length W0 = R ->
  let r := fold_left (acol A0) (seq 0 R) (Ai, W0) in
  wfm m R (fst r) /\ length (snd r) = R /\
  (forall x k, x < m -> k < R -> mg (fst r) x k = sg (flip A0 Ai k) * mg Ai x k) /\
  (forall k, k < R -> nth k (snd r) v0 = nth k W0 v0 * sg (flip A0 Ai k)).
Proof.
  intros Hm HA HW.
  change (acol A0) with (gstep (fun st j => neg (cdot A0 (fst st) j))).
  destruct (gloop_full (fun st j => neg (cdot A0 (fst st) j)) (fun k => flip A0 Ai k) Ai W0 m R HA HW) as (H1 & H2 & H3 & H4).
  { intros F W j Hj HF _. cbn [fst]. unfold kflip, coldot. rewrite Hm. f_equal. apply sum_n_ext. intros x Hx. now rewrite (HF x Hx). }
  cbv zeta. split; [exact H1|]. split; [exact H2|]. split.
  - intros x k Hx Hk. rewrite (H3 x k Hx Hk). apply sgv_sg.
  - intros k Hk. rewrite (H4 k Hk). apply sgv_sg_r.
Qed.

(* ---- the loop over the modes i >= 1 ---- *)
Lemma align_modes_spec m R (A0 : mat) : nrows A0 = m -> forall (rest : list mat) (Vm : mat) (ws : list V),
  (forall A, In A rest -> wfm m R A) -> wfm m R Vm -> length ws = R ->
  let r := fold_left (amode A0 R) rest (Vm, ws) in
  wfm m R (fst r) /\ length (snd r) = R /\
  (forall x k, x < m -> k < R ->
     mg (fst r) x k = fold_left (fun acc Ai => acc + sg (flip A0 Ai k) * mg Ai x k) rest (mg Vm x k)) /\
  (forall k, k < R -> nth k (snd r) v0 = fold_left (fun w Ai => w * sg (flip A0 Ai k)) rest (nth k ws v0)).
Proof.
  intros Hm. induction rest as [|Ai rest IH]; intros Vm ws Hr HV Hw; cbv zeta.
  - cbn. split; [exact HV|]. split; [exact Hw|]. split; auto.
  - cbn [fold_left].
    destruct (align_cols_spec m R A0 Ai ws Hm (Hr Ai (or_introl eq_refl)) Hw) as (C1 & C2 & C3 & C4). cbv zeta in C1, C2, C3, C4.
    set (r1 := fold_left (acol A0) (seq 0 R) (Ai, ws)) in *.
    change (amode A0 R (Vm, ws) Ai) with (madd vadd Vm (fst r1), snd r1).
    destruct (IH (madd vadd Vm (fst r1)) (snd r1) (fun A HA => Hr A (or_intror HA)) (wfm_madd m R Vm (fst r1) HV C1) C2)
      as (I1 & I2 & I3 & I4). cbv zeta in I1, I2, I3, I4.
    split; [exact I1|]. split; [exact I2|]. split.
    + intros x k Hx Hk. rewrite (I3 x k Hx Hk). rewrite (mg_madd m R Vm (fst r1) x k HV C1 Hx Hk), (C3 x k Hx Hk). reflexivity.
    + intros k Hk. rewrite (I4 k Hk), (C4 k Hk). reflexivity.
Qed.

Lemma wfm_tab (g : nat -> nat -> V) m R : wfm m R (map (fun x => map (fun j => g x j) (seq 0 R)) (seq 0 m)).
Proof.
  split; [now rewrite map_length, seq_length|]. apply Forall_map. apply Forall_forall. intros x _. now rewrite map_length, seq_length.
Qed.

(* ---- the body as written = the closed form ---- *)
Theorem k15_loop_is_core (K1 : ktensor V) m : (forall A, In A (kfactors K1) -> wfm m (krank K1) A) ->
  k15_loop v0 v1 vadd vmul vopp vinv neg K1 = k15_core v0 v1 vadd vmul vopp vinv neg K1.
Proof.
  intros Hwf. unfold k15_loop, k15_core. destruct (kfactors K1) as [|A0 rest] eqn:E; [reflexivity|].
  set (R := krank K1) in *. set (ws := kweights K1). set (N := S (length rest)).
  assert (H0 : wfm m R A0) by (apply Hwf; now left).
  assert (Hm : nrows A0 = m) by (destruct H0; assumption).
  assert (HR : length ws = R) by reflexivity.
  destruct (align_modes_spec m R A0 Hm rest A0 ws (fun A HA => Hwf A (or_intror HA)) H0 HR) as (M1 & M2 & M3 & M4).
  cbv zeta in M1, M2, M3, M4. set (a := fold_left (amode A0 R) rest (A0, ws)) in *.
  change (fold_left (amode A0 R) rest (A0, ws)) with a in M1, M2, M3, M4.
  set (Vd := mdv N (fst a)).
  pose proof (wfm_mdiv m R N (fst a) M1) as D1. fold Vd in D1.
  assert (D3 : forall x k, x < m -> k < R -> mg Vd x k = v_entry v0 v1 vadd vmul vopp vinv neg A0 rest x k).
  { intros x k Hx Hk. unfold Vd. rewrite (mg_mdiv m R N (fst a) x k M1 Hx Hk), (M3 x k Hx Hk). reflexivity. }
  assert (W : forall k, k < R -> nth k (snd a) v0 = w_aligned v0 v1 vadd vmul vopp neg A0 rest (nth k ws v0) k).
  { intros k Hk. rewrite (M4 k Hk). reflexivity. }
  set (o := if Nat.odd N then fold_left ocl (seq 0 R) (Vd, snd a) else (Vd, snd a)).
  assert (O : wfm m R (fst o) /\ length (snd o) = R /\
              (forall x k, x < m -> k < R -> mg (fst o) x k = sg (kfix neg N (nth k (snd a) v0)) * mg Vd x k) /\
              (forall k, k < R -> nth k (snd o) v0 = sg (kfix neg N (nth k (snd a) v0)) * nth k (snd a) v0)).
  { unfold o, kfix. destruct (Nat.odd N); cbn [andb].
    - change ocl with (gstep (fun st j => neg (nth j (snd st) v0))).
      destruct (gloop_full (fun st j => neg (nth j (snd st) v0)) (fun k => neg (nth k (snd a) v0)) Vd (snd a) m R D1 M2)
        as (G1 & G2 & G3 & G4).
      { intros F W' j _ _ HWj. cbn [snd]. now rewrite HWj. }
      split; [exact G1|]. split; [exact G2|]. split.
      + intros x k Hx Hk. rewrite (G3 x k Hx Hk). apply sgv_sg.
      + intros k Hk. rewrite (G4 k Hk). apply sgv_sg.
    - cbn [fst snd]. split; [exact D1|]. split; [exact M2|]. split; intros; unfold ksgn; ring. }
  destruct O as (O1 & O2 & O3 & O4).
  f_equal.
  - apply (nth_ext _ _ v0 v0); [rewrite O2, map_length, seq_length; reflexivity|]. intros k Hk. rewrite O2 in Hk.
    rewrite (nth_map_seq _ R k v0 Hk). unfold k15_weight. rewrite (O4 k Hk), (W k Hk). reflexivity.
  - f_equal. apply (mat_ext m R); [exact O1|unfold k15_factor; rewrite Hm; apply wfm_tab|].
    intros x k Hx Hk. unfold k15_factor. rewrite Hm. fold ws. rewrite HR.
    rewrite (mget_tab V v0 _ m R x k Hx Hk). rewrite (O3 x k Hx Hk), (W k Hk), (D3 x k Hx Hk). reflexivity.
Qed.
End LK15.

(* ==== the whole method: cubical assertion, K.normalize("all") (C08's model k_normalize and its loops py_normalize), body ==== *)
From PV Require Import Model.Harness Model.C15KSym Proofs.C08Proofs Proofs.C08Loop Proofs.C08Loop2 Proofs.C08NormalForm Proofs.C15KSym Proofs.C15KNorm.

Section EK15.
Variable V : Type.
Variables (v0 v1 : V) (vadd vmul vsub : V -> V -> V) (vopp vinv : V -> V).
Hypothesis Vring : ring_theory v0 v1 vadd vmul vsub vopp (@eq V).
Variables (nrm : list V -> V) (pos neg : V -> bool) (root : V -> V) (srt : list V -> list nat).
Notation mat := (list (list V)).
Notation den := (den_k v0 v1 vadd vmul).
Notation loop := (k15_loop v0 v1 vadd vmul vopp vinv neg).
Notation core := (k15_core v0 v1 vadd vmul vopp vinv neg).
Notation normalize_all := (k_normalize v0 v1 vmul vopp vinv nrm pos neg root srt WAll false None).
Notation py_normalize_all := (py_normalize V v0 v1 vmul vopp vinv nrm pos neg root srt WAll false None).
Notation symmetrize_code := (k_symmetrize_code v0 v1 vadd vmul vopp vinv neg).
Notation nmode := (k_normalize_mode v0 v1 vmul vinv nrm pos).

(* every factor m x R, R weights *)
Definition okK (m R : nat) (K : ktensor V) : Prop := krank K = R /\ forall A, In A (kfactors K) -> wfm V m R A.

Lemma kshape_normalize_fold l : forall K, kshape (fold_left (fun K n => nmode n K) l K) = kshape K.
Proof.
  induction l as [|n l IH]; intros K; cbn [fold_left]; [reflexivity|]. rewrite IH. apply kshape_normalize_mode.
Qed.

Lemma okK_of_wf m (K : ktensor V) : wf_k K -> (forall A, In A (kfactors K) -> nrows A = m) -> okK m (krank K) K.
Proof.
  intros Hwf Hm. split; [reflexivity|]. intros A HA. split; [exact (Hm A HA)|].
  unfold wf_k in Hwf. rewrite Forall_forall in Hwf. exact (Hwf A HA).
Qed.

(* normalize("all") keeps the format: all factors m x R, R weights *)
Lemma okK_normalize_all m (K : ktensor V) : wf_k K -> (forall A, In A (kfactors K) -> nrows A = m) ->
  okK m (krank K) (normalize_all K).
Proof.
  intros Hwf Hm. cbn [k_normalize]. set (R := krank K).
  (* the column normalisation *)
  set (Kc := k_normalize_cols v0 v1 vmul vinv nrm pos K).
  assert (Hc : okK m R Kc).
  { unfold Kc, k_normalize_cols.
    destruct (wf_normalize_fold V v0 v1 vmul vinv nrm pos (seq 0 (length (kfactors K))) K Hwf) as [W1 W2].
    pose proof (kshape_normalize_fold (seq 0 (length (kfactors K))) K) as W3.
    set (K' := fold_left (fun K n => nmode n K) (seq 0 (length (kfactors K))) K) in *.
    split; [exact W2|]. intros A HA. split.
    - assert (HI : In (nrows A) (kshape K')) by (unfold kshape; apply in_map; exact HA).
      rewrite W3 in HI. unfold kshape in HI. apply in_map_iff in HI as (B & HB & HBin). change (nrows A = m). rewrite <- HB. now apply Hm.
    - unfold wf_k in W1. rewrite Forall_forall in W1. unfold R. rewrite <- W2. exact (W1 A HA). }
  (* the sign of the weights into factor 0 *)
  set (Kf := k_fix_neg v1 vmul vopp neg Kc).
  assert (Hf : okK m R Kf).
  { unfold Kf, k_fix_neg. destruct Hc as [C1 C2]. destruct (kfactors Kc) as [|A0 As] eqn:E; [split; [exact C1|now rewrite E]|].
    split.
    - unfold krank. cbn [kweights]. rewrite (length_zipmul V vmul), map_length. unfold krank in C1. lia.
    - cbn [kfactors]. intros A [<-|HA]; [|apply C2; now right].
      destruct (C2 A0 (or_introl eq_refl)) as [Z1 Z2]. split; [unfold scale_cols; now rewrite map_length|].
      apply (rows_scale_cols V vmul R); [rewrite map_length; exact C1|exact Z2]. }
  (* the roots of the weights into every factor *)
  destruct Hf as [F1 F2]. unfold k_absorb. split.
  - unfold krank, ones. cbn [kweights]. now rewrite map_length.
  - cbn [kfactors]. intros A HA. apply in_map_iff in HA as (B & <- & HB). destruct (F2 B HB) as [Z1 Z2].
    split; [unfold scale_cols; now rewrite map_length|].
    apply (rows_scale_cols V vmul R); [rewrite map_length; exact F1|exact Z2].
Qed.

(* "not cubical": the request is refused whatever the values *)
Theorem ksym_code_refuses nz (K : ktensor V) : cubical_shape (kshape K) = false -> symmetrize_code nz K = KErr.
Proof. intros H. unfold k_symmetrize_code. now rewrite H. Qed.

Lemma cubical_nrows (K : ktensor V) : cubical_shape (kshape K) = true ->
  forall A, In A (kfactors K) -> nrows A = hd 0 (kshape K).
Proof.
  unfold cubical_shape. rewrite forallb_forall. intros H A HA. symmetry. apply Nat.eqb_eq. apply H. unfold kshape. now apply in_map.
Qed.

(* the method as written (loops of normalize, loops of the body) = closed-form body after C08's normalize model *)
Theorem ksym_code_is_model (K : ktensor V) : wf_k K -> cubical_shape (kshape K) = true ->
  symmetrize_code py_normalize_all K = KOk (core (normalize_all K)).
Proof.
  intros Hwf Hc. unfold k_symmetrize_code. rewrite Hc. f_equal.
  rewrite (py_normalize_is_model V v0 v1 vadd vmul vsub vopp vinv Vring nrm pos neg root srt WAll false None K Hwf) by discriminate.
  destruct (okK_normalize_all (hd 0 (kshape K)) K Hwf (cubical_nrows K Hc)) as [R1 R2].
  apply (k15_loop_is_core V v0 v1 vadd vmul vsub vopp vinv neg Vring (normalize_all K) (hd 0 (kshape K))).
  rewrite R1. exact R2.
Qed.

(* "returns a Kruskal tensor that is symmetric in all modes": whatever normalize returns, the body as written returns N copies
   of one factor matrix; the denoted array is invariant under every rearrangement of the subscripts *)
Theorem k15_loop_identical (K1 : ktensor V) A0 As : kfactors K1 = A0 :: As ->
  exists w M, loop K1 = mkK w (repeat M (S (length As))).
Proof. intros E. unfold k15_loop. rewrite E. eauto. Qed.

Theorem ksym_code_symmetric nz (K Sy : ktensor V) : kfactors (nz K) <> [] -> symmetrize_code nz K = KOk Sy ->
  (exists w M, Sy = mkK w (repeat M (length (kfactors (nz K))))) /\
  forall i i', Permutation i i' -> den Sy i = den Sy i'.
Proof.
  intros Hne. unfold k_symmetrize_code. destruct (cubical_shape (kshape K)); [|discriminate]. intros HS. injection HS as <-.
  destruct (kfactors (nz K)) as [|A0 As] eqn:E; [contradiction|].
  destruct (k15_loop_identical (nz K) A0 As E) as (w & M & ->). split; [exists w, M; reflexivity|].
  intros i i' P. now apply (den_identical_factors_symmetric V v0 v1 vadd vmul vsub vopp Vring).
Qed.

(* "the result passes the symmetry test" (ktensor.issymmetric, Model/C15KSym.v) *)
Theorem ksym_code_passes_test (veqb : V -> V -> bool) (veqb_spec : forall a b, veqb a b = true <-> a = b) nz (K Sy : ktensor V) :
  kfactors (nz K) <> [] -> symmetrize_code nz K = KOk Sy -> k_issym veqb Sy = true.
Proof.
  intros Hne HS. destruct (ksym_code_symmetric nz K Sy Hne HS) as [(w & M & ->) _].
  apply (k_issym_identical V veqb veqb_spec). exists M. cbn [kfactors]. now rewrite repeat_length.
Qed.

(* "an already symmetric tensor keeps its value", end to end ON THE CODE AS WRITTEN: identical factors A (m x R, R weights of
   either sign), any order N = S n: the method answers, and its result denotes the same array.  Oracles as in
   C15_ksym_identical_input_keeps *)
Hypothesis vinv_r : forall x, x <> v0 -> vmul x (vinv x) = v1.
Hypothesis vinv_l : forall x, x <> v0 -> vmul (vinv x) x = v1.
Hypothesis char0 : forall n, n <> 0 -> of_nat v0 v1 vadd n <> v0.
Hypothesis pos_nz : forall x, pos x = true -> x <> v0.
Hypothesis nrm_pos : forall l, pos (nrm l) = false -> Forall (fun y => y = v0) l.
Hypothesis srt_perm : forall l, is_perm (srt l) (length l).
Hypothesis neg_opp : forall x, neg x = true -> neg (vopp x) = false.
Hypothesis neg_sq : forall (h : nat -> V) n, neg (sum_n v0 vadd n (fun x => vmul (h x) (h x))) = false.
Hypothesis neg_opp_sq : forall (h : nat -> V) n, neg (vopp (sum_n v0 vadd n (fun x => vmul (h x) (h x)))) = false ->
  forall x, x < n -> h x = v0.

Theorem ksym_code_identical_input_keeps (w : list V) (A : mat) n :
  Forall (fun row => length row = length w) A ->
  (forall x, neg x = false -> vpow v1 vmul (root x) (S n) = x) ->
  exists Sy, symmetrize_code py_normalize_all (mkK w (repeat A (S n))) = KOk Sy /\
             forall i, den Sy i = den (mkK w (repeat A (S n))) i.
Proof.
  intros HA Hroot. set (K := mkK w (repeat A (S n))).
  assert (Hwf : wf_k K).
  { unfold wf_k, K. cbn [kfactors krank kweights]. apply Forall_forall. intros B HB. apply repeat_spec in HB. now subst B. }
  assert (Hc : cubical_shape (kshape K) = true).
  { unfold cubical_shape, K, kshape. cbn [kfactors]. apply forallb_forall. intros x Hx. apply in_map_iff in Hx as (B & <- & HB).
    apply repeat_spec in HB. subst B. cbn [repeat map hd]. apply Nat.eqb_refl. }
  exists (core (normalize_all K)). split; [now apply ksym_code_is_model|].
  exact (ksymmetrize_identical_keeps V v0 v1 vadd vmul vsub vopp vinv Vring nrm pos neg root srt vinv_r pos_nz nrm_pos srt_perm
           neg_opp neg_sq neg_opp_sq char0 vinv_l w A n Hroot).
Qed.
End EK15.

(* ---- non-vacuity: order 3, rank 2, factors with scrambled column signs (exK of Proofs/C15W4.v: not identical, weights 2, -3):
        the loops flip columns in two factors, toggle weights, repair the odd order; the result is the closed form entry by
        entry and denotes the same array; a 2 x 3 x 2 request is refused ---- *)
From Coq Require Import QArith Qcanon.
From PV Require Import Model.C08Inst Model.C15Inst Model.C15KLoopInst Proofs.C15W4.
Local Open Scope nat_scope.
Lemma s15_example_kloop :
  q_k15_loop_matches exK (q_k15_core exK) = true /\
  q_mats_identical (kfactors (q_k15_loop exK)) = true /\ qk_den_eqb [2; 2; 2] exK (q_k15_loop exK) = true /\
  k_code_refuses [2; 3; 2] = true /\ k_code_refuses [2; 2; 2] = false /\
  k_symmetrize_code q0 q1 Qcplus Qcmult Qcopp Qcinv q_neg15 (fun K => K) (mkK [q1] [[[q1]]; [[q1]; [q1]]]) = KErr.
Proof. vm_compute. repeat split; reflexivity. Qed.
