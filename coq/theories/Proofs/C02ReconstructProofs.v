(* Proofs/C02ReconstructProofs.v — ttensor.reconstruct with index-list samples (Model/C02Reconstruct.v): entry i of the result is the entry of
   the array the Tucker tensor denotes at the subscript whose k-th component is samples_k[i_k] (i_k itself where mode k is not sampled or its
   sample is empty); rows may repeat and come in any order; a mode named twice keeps the later sample. *)
From Coq Require Import List Arith Lia Bool Ring.
From PV Require Import Base.Index Base.Perm Base.Sum Np.Array Model.Sparse Model.Repr Model.C02Spec Model.C02Dense Model.C02Tucker Model.C02TuckerFull
                       Model.C02Reconstruct Proofs.C02TuckerFullProofs.
Import ListNotations.

Section P.
Variable V : Type.
Variables (v0 v1 : V) (vadd vmul vsub : V -> V -> V) (vopp : V -> V).
Hypothesis Vring : ring_theory v0 v1 vadd vmul vsub vopp (@eq V).

Lemma full_samples_length N modes samples : length (full_samples N modes samples) = N.
Proof.
  unfold full_samples. generalize (combine samples modes). intros l.
  assert (H : forall fs, length (fold_left (fun fs sm => upd fs (snd sm) (fst sm)) l fs) = length fs).
  { induction l as [|a l IH]; intros fs; cbn; auto. now rewrite IH, upd_length. }
  now rewrite H, repeat_length.
Qed.

Lemma nrows_sample_rows (U : @matrix V) r :
  nrows (sample_rows U r) = match r with [] => nrows U | _ :: _ => length r end.
Proof. destruct r; cbn; auto. unfold nrows. cbn. now rewrite map_length. Qed.

Lemma mget_sample_rows (U : @matrix V) r x y :
  x < nrows (sample_rows U r) ->
  mget v0 (sample_rows U r) x y = mget v0 U (match r with [] => x | _ :: _ => nth x r 0 end) y.
Proof.
  intros Hx. destruct r as [|a r]; [reflexivity|].
  rewrite nrows_sample_rows in Hx. unfold mget, sample_rows. f_equal.
  rewrite (nth_indep _ [] (nth 0 U [])) by (now rewrite map_length).
  now rewrite (map_nth (fun q => nth q U [])).
Qed.

Lemma new_factors_length (Us : list (@matrix V)) fs : length (new_factors Us fs) = length Us.
Proof. revert fs; induction Us as [|U Us IH]; intros [|r fs]; cbn; auto. Qed.

Lemma tprod_sample (Us : list (@matrix V)) : forall fs i j, length fs = length Us ->
  inb (map (@nrows V) (new_factors Us fs)) i = true ->
  tprod v0 v1 vmul (new_factors Us fs) i j = tprod v0 v1 vmul Us (sample_idx fs i) j.
Proof.
  induction Us as [|U Us IH]; intros [|r fs] [|x i] j HL Hi; cbn in *; try discriminate; auto.
  apply andb_true_iff in Hi as [Hx Hi]. apply Nat.ltb_lt in Hx.
  destruct j as [|y j]; [reflexivity|].
  rewrite (mget_sample_rows U r x y Hx). f_equal. apply IH; auto.
Qed.

Lemma inb_sample (Us : list (@matrix V)) : forall fs i, rows_ok Us fs ->
  inb (map (@nrows V) (new_factors Us fs)) i = true ->
  inb (map (@nrows V) Us) (sample_idx fs i) = true.
Proof.
  induction Us as [|U Us IH]; intros fs i HR Hi; inversion HR as [|U' r Us' fs' Hr HR']; subst; cbn in *.
  - destruct i; [reflexivity|discriminate].
  - destruct i as [|x i]; [discriminate|]. apply andb_true_iff in Hi as [Hx Hi]. apply Nat.ltb_lt in Hx.
    rewrite nrows_sample_rows in Hx. apply andb_true_iff. split; [|now apply IH].
    apply Nat.ltb_lt. destruct r as [|a r]; [exact Hx|].
    rewrite Forall_forall in Hr. apply Hr. now apply nth_In.
Qed.

Theorem impl_reconstruct_correct (T : ttensor V) (modes : list nat) (samples : list (list nat)) :
  wf_dense (tcore T) -> length (dshape (tcore T)) = length (tfactors T) ->
  let fs := full_samples (length (tfactors T)) modes samples in
  rows_ok (tfactors T) fs ->
  let Y := impl_reconstruct v0 vadd vmul T modes samples in
  dshape Y = map (@nrows V) (new_factors (tfactors T) fs) /\ wf_dense Y /\
  forall i, inb (dshape Y) i = true -> den_dense v0 Y i = den_t v0 v1 vadd vmul T (sample_idx fs i).
Proof.
  intros W L fs HR Y.
  set (T' := mkT (tcore T) (new_factors (tfactors T) fs)).
  destruct (impl_full_t_correct V v0 v1 vadd vmul vsub vopp Vring T') as (S1 & W1 & D1).
  - exact W.
  - cbn. now rewrite new_factors_length.
  - unfold Y, impl_reconstruct. fold fs. fold T'. split; [exact S1|]. split; [exact W1|].
    intros i Hi. rewrite S1 in Hi. rewrite (D1 i Hi). unfold den_t. unfold tshape in *. cbn [tfactors tcore T'] in *.
    rewrite Hi. rewrite (inb_sample _ fs i HR Hi).
    apply sum_over_ext. intros j _. f_equal. apply tprod_sample; auto.
    unfold fs. apply full_samples_length.
Qed.
End P.
