(* Proofs/C01W8Sptenmat.v — wave 8: C01's nat-valued guard models of sptenmat.__init__ (Model/C01Unique.v stm_ctor, copy=True;
   Model/C01W3.v stm_ctor_nocopy, copy=False) tied to the constructor the translator GENERATES from pyttb/sptenmat.py
   (Gen/GenSptenmat7.v sptenmat_init, through Proofs/W7Sptenmat.v sptenmat_init_bridge), on the embedded request and under the
   typing the models assume (subs an nnz x 2 array, vals nnz values).  Proof-only; nothing existing is changed. *)
From Coq Require Import List ZArith Arith Lia Bool Permutation.
From PV Require Import Base.Index Base.Perm Np.Array Np.NpZ Np.NpZ2 Np.NpZ3 Np.NpZ3b Np.NpZ7 Np.NpZ7b Proofs.NpZProofs
  Gen.GenUtils Gen.GenUtils2 Model.C01Conv Model.C01Unique Model.C01W3 Proofs.C01GenBridge
  Gen.GenSptenmat7 Model.W7Tenmat Model.W7Sptenmat Proofs.W7Sptenmat Proofs.C01W8Tenmat.
Import ListNotations.

Definition emb_stm (M : sptenmat Z) : stmz :=
  mk_stmz (zm (stm_subs M)) (stm_vals M) (zv (stm_r M)) (zv (stm_c M)) (zv (stm_tshape M)).

(* the request is typed as numpy delivers it (tools/props/c01.py ASSUMPTIONS) *)
Definition stm_typed (subs : option (list idx)) (vals : option (list Z)) : Prop :=
  Forall (fun rc => length rc = 2) (olist subs) /\ length (olist subs) = length (olist vals).

(* the three argument checks of the nat-valued models, as one function *)
Definition stm_guard (subs : list idx) (rd cd : option (list nat)) (ts : shape) : option (list nat * list nat) :=
  match C01Conv.gather_wrap_dims (length ts) rd cd None with
  | None => None
  | Some (r, c) =>
      if negb (Perm.is_permb (r ++ c) (length ts)) then None
      else if negb (forallb (fun rc => nth 0 rc 0 <? size (pick 0 r ts)) subs) then None
      else if negb (forallb (fun rc => nth 1 rc 0 <? size (pick 0 c ts)) subs) then None
      else Some (r, c)
  end.

Lemma stm_ctor_guard (vadd : Z -> Z -> Z) (isz : Z -> bool) subs (vals : option (list Z)) rd cd ts : is_some rd || is_some cd = true ->
  stm_ctor vadd isz subs vals rd cd ts
  = match stm_guard (olist subs) rd cd ts with
    | None => None
    | Some (r, c) => Some (stm_norm vadd isz (mkSTM (olist subs) (olist vals) r c ts))
    end.
Proof.
  intros H. unfold stm_guard.
  assert (E : stm_ctor vadd isz subs vals rd cd ts =
    match C01Conv.gather_wrap_dims (length ts) rd cd None with
      | None => None
      | Some (r, c) =>
          if negb (Perm.is_permb (r ++ c) (length ts)) then None
          else if negb (forallb (fun rc => nth 0 rc 0 <? size (pick 0 r ts)) (olist subs)) then None
          else if negb (forallb (fun rc => nth 1 rc 0 <? size (pick 0 c ts)) (olist subs)) then None
          else Some (stm_norm vadd isz (mkSTM (olist subs) (olist vals) r c ts))
      end) by (destruct rd, cd; try discriminate; reflexivity).
  rewrite E. destruct (C01Conv.gather_wrap_dims (length ts) rd cd None) as [[r c]|]; [|reflexivity].
  destruct (negb _); [reflexivity|]. destruct (negb _); [reflexivity|]. destruct (negb _); reflexivity.
Qed.

Lemma stm_ctor_nocopy_guard subs (vals : list Z) rd cd ts : is_some rd || is_some cd = true ->
  stm_ctor_nocopy subs vals rd cd ts
  = match stm_guard subs rd cd ts with
    | None => None
    | Some (r, c) => Some (match vals with [] => mkSTM [] [] r c ts | _ => mkSTM subs vals r c ts end)
    end.
Proof.
  intros H. unfold stm_guard.
  assert (E : stm_ctor_nocopy subs vals rd cd ts =
    match C01Conv.gather_wrap_dims (length ts) rd cd None with
      | None => None
      | Some (r, c) =>
          if negb (Perm.is_permb (r ++ c) (length ts)) then None
          else if negb (forallb (fun rc => nth 0 rc 0 <? size (pick 0 r ts)) subs) then None
          else if negb (forallb (fun rc => nth 1 rc 0 <? size (pick 0 c ts)) subs) then None
          else Some (match vals with [] => mkSTM [] [] r c ts | _ => mkSTM subs vals r c ts end)
      end) by (destruct rd, cd; try discriminate; reflexivity).
  rewrite E. destruct (C01Conv.gather_wrap_dims (length ts) rd cd None) as [[r c]|]; [|reflexivity].
  destruct (negb _); [reflexivity|]. destruct (negb _); [reflexivity|]. destruct (negb _); reflexivity.
Qed.

(* ------------------------------------------------------------------ plumbing *)
Lemma w8_max_lt {A} (f : A -> nat) b l : forall x0,
  (Z.of_nat b >? fold_left Z.max (map (fun a => Z.of_nat (f a)) l) (Z.of_nat x0))%Z = (x0 <? b) && forallb (fun a => f a <? b) l.
Proof.
  induction l as [|a l IH]; intros x0; cbn [map fold_left forallb].
  - rewrite andb_true_r, Z.gtb_ltb. destruct (Nat.ltb_spec x0 b); [apply Z.ltb_lt|apply Z.ltb_ge]; lia.
  - rewrite <- Nat2Z.inj_max, IH, andb_assoc. f_equal.
    destruct (Nat.ltb_spec x0 b), (Nat.ltb_spec (f a) b), (Nat.ltb_spec (Nat.max x0 (f a)) b); try reflexivity; lia.
Qed.

Lemma w8_col subs k : np7_col (zm subs) (Z.of_nat k) = map (fun rc => Z.of_nat (nth k rc 0)) subs.
Proof.
  unfold np7_col, zm. rewrite map_map. apply map_ext. intros rc. rewrite znth_nat. unfold zs.
  change 0%Z with (Z.of_nat 0). apply map_nth.
Qed.

Lemma w8_size2_nonneg (m : mat) : (0 <= np_size2 m)%Z.
Proof. unfold np_size2. induction m as [|r m IH]; cbn [map fold_right]; [lia|]. pose proof (Nat2Z.is_nonneg (length r)). unfold zlen at 1. lia. Qed.

Lemma w8_perm_take_ok r c ts : Perm.is_permb (r ++ c) (length ts) = true ->
  np_take_ok (zv ts) (zv r) = true /\ np_take_ok (zv ts) (zv c) = true.
Proof.
  intros P. apply Perm.is_permb_spec in P. rewrite !w8_take_ok.
  split; apply forallb_forall; intros k Hk; apply Nat.ltb_lt;
    assert (Hin : In k (seq 0 (length ts))) by (apply (Permutation_in _ P), in_or_app; auto); apply in_seq in Hin; lia.
Qed.

(* one side test: prod(tshape[dims]) > max(subs[:, k]), skipped when there are no entries *)
Lemma w8_side (subs : option (list idx)) ts d k : (k < 2) -> Forall (fun rc => length rc = 2) (olist subs) ->
  np_take_ok (zv ts) (zv d) = true ->
  H_side_ok (match option_map zm subs with None => [[]] | Some s => s end) (zv ts) (zv d) (Z.of_nat k)
  = forallb (fun rc => nth k rc 0 <? size (pick 0 d ts)) (olist subs).
Proof.
  intros Hk Hr Ht. destruct subs as [[|row rest]|]; [reflexivity| |reflexivity].
  cbn [option_map olist] in *. unfold H_side_ok. rewrite Ht.
  assert (E0 : (np_size2 (zm (row :: rest)) =? 0)%Z = false).
  { apply Z.eqb_neq. cbn [zm map]. unfold np_size2. cbn [map fold_right]. fold (np_size2 (map zs rest)).
    pose proof (w8_size2_nonneg (map zs rest)). inversion Hr as [|? ? H2 _]; subst. unfold zlen at 1. rewrite zs_length, H2. lia. }
  rewrite E0. cbn [orb andb].
  assert (E1 : np7_col_ok (zm (row :: rest)) (Z.of_nat k) = true).
  { unfold np7_col_ok, zm. apply forallb_forall. intros x Hx. apply in_map_iff in Hx as (rc & <- & Hrc).
    rewrite Forall_forall in Hr. specialize (Hr rc Hrc). unfold zlen, zs. rewrite map_length, Hr. apply Z.ltb_lt. lia. }
  rewrite E1, w8_col. cbn [andb map]. unfold zlen at 1. cbn [length].
  assert (E2 : forall n, (0 <? Z.of_nat (S n))%Z = true) by (intros; reflexivity).
  rewrite E2. cbn [andb]. rewrite w8_take_pick, w8_zprod_zv. unfold np7_max.
  rewrite (w8_max_lt (fun rc => nth k rc 0)). reflexivity.
Qed.

(* ------------------------------------------------------------------ the argument checks of the generated constructor *)
Lemma H_sptenmat_init_guards (subs : option (list idx)) vals rd cd ts copy :
  is_some rd || is_some cd = true -> Forall (fun rc => length rc = 2) (olist subs) ->
  H_sptenmat_init (option_map zm subs) vals (option_map zv rd) (option_map zv cd) (zv ts) copy
  = match stm_guard (olist subs) rd cd ts with
    | None => Err
    | Some (r, c) =>
        bind (H_dedup copy (match option_map zm subs with None => [[]] | Some s => s end) (olist vals)) (fun '(s1, v1) =>
        if copy then bind (H_dropzeros s1 v1) (fun '(s2, v2) => Ok (mk_stmz s2 v2 (zv r) (zv c) (zv ts)))
        else Ok (mk_stmz s1 v1 (zv r) (zv c) (zv ts)))
    end.
Proof.
  intros Hd Hr. unfold H_sptenmat_init, stm_guard.
  assert (E : negb (is_some (option_map zv rd)) && negb (is_some (option_map zv cd)) = false) by (destruct rd, cd; try discriminate; reflexivity).
  rewrite E. cbv zeta. rewrite w8_zlen_zv.
  pose proof (gather_wrap_dims_generated (length ts) rd cd None) as G. cbn [option_map] in G. rewrite G. clear G.
  destruct (C01Conv.gather_wrap_dims (length ts) rd cd None) as [[r c]|]; cbn [bind]; [|reflexivity].
  rewrite w8_dims_perm. destruct (Perm.is_permb (r ++ c) (length ts)) eqn:P; cbn [negb]; cbv iota; [|reflexivity].
  destruct (w8_perm_take_ok _ _ _ P) as [Tr Tc].
  change 0%Z with (Z.of_nat 0). change 1%Z with (Z.of_nat 1).
  rewrite (w8_side subs ts r 0), (w8_side subs ts c 1) by (auto; lia).
  destruct (negb (forallb (fun rc => nth 0 rc 0 <? size (pick 0 r ts)) (olist subs))); [reflexivity|].
  destruct (negb (forallb (fun rc => nth 1 rc 0 <? size (pick 0 c ts)) (olist subs))); [reflexivity|].
  assert (Ev : match vals with None => [] | Some v => v end = olist vals) by (destruct vals; reflexivity).
  rewrite Ev. reflexivity.
Qed.

(* ------------------------------------------------------------------ copy=False: the whole answer *)
Definition emb_stm_res (o : option (sptenmat Z)) : res stmz := match o with None => Err | Some M => Ok (emb_stm M) end.

Theorem sptenmat_init_nocopy_is_stm_ctor_nocopy (subs : list idx) vals rd cd ts :
  Forall (fun rc => length rc = 2) subs -> length subs = length vals ->
  sptenmat_init (Some (zm subs)) (Some vals) (option_map zv rd) (option_map zv cd) (zv ts) false
  = emb_stm_res (stm_ctor_nocopy subs vals rd cd ts).
Proof.
  intros Hr Hl. rewrite sptenmat_init_bridge.
  destruct (is_some rd || is_some cd) eqn:Hd.
  - pose proof (H_sptenmat_init_guards (Some subs) (Some vals) rd cd ts false Hd Hr) as G. cbn [option_map olist] in G.
    rewrite G, stm_ctor_nocopy_guard by exact Hd. clear G.
    destruct (stm_guard subs rd cd ts) as [[r c]|]; [|reflexivity].
    unfold H_dedup. destruct vals as [|x vals].
    + reflexivity.
    + assert (E : (zlen (x :: vals) =? 0)%Z = false) by (apply Z.eqb_neq; unfold zlen; cbn [length]; lia).
      rewrite E. reflexivity.
  - destruct rd, cd; try discriminate. reflexivity.
Qed.

(* ------------------------------------------------------------------ copy=True: rejected exactly when stm_ctor rejects on the
   argument checks; an accepted call stores the embedded mode split and tshape of the model's answer *)
Theorem sptenmat_init_rejects_as_stm_ctor (subs : option (list idx)) vals rd cd ts copy :
  is_some rd || is_some cd = true -> Forall (fun rc => length rc = 2) (olist subs) ->
  stm_ctor Z.add (Z.eqb 0) subs vals rd cd ts = None ->
  sptenmat_init (option_map zm subs) vals (option_map zv rd) (option_map zv cd) (zv ts) copy = Err.
Proof.
  intros Hd Hr. rewrite sptenmat_init_bridge, H_sptenmat_init_guards, stm_ctor_guard by assumption.
  destruct (stm_guard (olist subs) rd cd ts) as [[r c]|]; cbv beta iota; [intros X; discriminate X|reflexivity].
Qed.

Theorem sptenmat_init_accept_as_stm_ctor (subs : option (list idx)) vals rd cd ts copy Mz :
  is_some rd || is_some cd = true -> Forall (fun rc => length rc = 2) (olist subs) ->
  sptenmat_init (option_map zm subs) vals (option_map zv rd) (option_map zv cd) (zv ts) copy = Ok Mz ->
  exists M, stm_ctor Z.add (Z.eqb 0) subs vals rd cd ts = Some M /\
    stm7_rdims Mz = zv (stm_r M) /\ stm7_cdims Mz = zv (stm_c M) /\ stm7_tshape Mz = zv (stm_tshape M).
Proof.
  intros Hd Hr. rewrite sptenmat_init_bridge, H_sptenmat_init_guards, stm_ctor_guard by assumption.
  destruct (stm_guard (olist subs) rd cd ts) as [[r c]|]; cbv beta iota; [|intros X; discriminate X].
  intros H. eexists. split; [reflexivity|]. cbn [stm_norm stm_r stm_c stm_tshape].
  destruct copy.
  - destruct (H_dedup true _ (olist vals)) as [[s1 v1]|]; cbn [bind] in H; [|discriminate].
    destruct (H_dropzeros s1 v1) as [[s2 v2]|]; cbn [bind] in H; [|discriminate]. injection H as <-. repeat split.
  - destruct (H_dedup false _ (olist vals)) as [[s1 v1]|]; cbn [bind] in H; [|discriminate].
    injection H as <-. repeat split.
Qed.

(* the request without rdims and cdims: both sides demand subs = vals = None and answer the empty 0-way object *)
Theorem sptenmat_init_empty_as_stm_ctor (subs : option (list idx)) vals ts copy :
  sptenmat_init (option_map zm subs) vals None None (zv ts) copy
  = match stm_ctor Z.add (Z.eqb 0) subs vals None None ts with None => Err | Some _ => Ok H_stm_empty end.
Proof. rewrite sptenmat_init_bridge. destruct subs, vals; reflexivity. Qed.
