(* Props/C09.v — CP-ALS returns a model consistent with everything it reports (PARTIAL: exact-arithmetic theorems).
   Only statements, `exact`, Print Assumptions and non-vacuity examples. *)
From Coq Require Import List Arith Bool ZArith Ring Lia.
From PV Require Import Base.Index Base.Perm Base.Sum Np.Array Model.Sparse Model.Repr Model.C08Kruskal Model.C09Als Model.C09Loop
  Proofs.C09Identity Proofs.C09Monotone Proofs.C09Scaling Proofs.C09LoopProofs Proofs.C09Reported Proofs.C09Norm
  Proofs.C09NormalForm Proofs.C09NormalRun Proofs.C09FixSigns
  Model.C02Spec Model.C02Dense Model.C02Kruskal Model.C02SpKernels Model.C02Tucker Proofs.C02DenseProofs Proofs.C09Holders Model.C09Init Proofs.C09InitProofs Proofs.C09W4.
Import ListNotations.

Section C09.
Variable V : Type.
Variables (v0 v1 : V) (vadd vmul vsub : V -> V -> V) (vopp : V -> V).
Hypothesis Vring : ring_theory v0 v1 vadd vmul vsub vopp (@eq V).

(* (1) the reported residual.  For every data array X (the denotation of a dense / sparse / Tucker / sum tensor on shape s),
   every Kruskal model K of that shape (any rank, weights, factors) and EVERY mode n (cp_als uses the mode updated last):
   normX^2 + ||K||^2 - 2 * sum_r w_r sum_j A_n[j,r] * MTTKRP_n(X;A)[j,r]  =  ||X - K||^2 *)
Theorem C09_fit_identity : forall (s : shape) (X : idx -> V) (K : ktensor V) (n : nat),
  kshape K = s -> n < length s ->
  let iprod := iprod_saved v0 vadd vmul (krank K) (nth n s 0) (kweights K) (nth n (kfactors K) [])
                 (mttkrp_den v0 v1 vadd vmul s X (kfactors K) n) in
  vsub (vadd (normsq_den v0 vadd vmul s X) (normsq_den v0 vadd vmul s (den_k v0 v1 vadd vmul K))) (vadd iprod iprod)
  = resid_den v0 vadd vmul vsub s X (den_k v0 v1 vadd vmul K).
Proof. exact (fit_identity V v0 v1 vadd vmul vsub vopp Vring). Qed.

(* sum-tensor data (its norm is reported as 0): the reported value is ||K||^2 - 2 <X,K> *)
Theorem C09_fit_identity_sum : forall (s : shape) (X : idx -> V) (K : ktensor V) (n : nat),
  kshape K = s -> n < length s ->
  let iprod := iprod_saved v0 vadd vmul (krank K) (nth n s 0) (kweights K) (nth n (kfactors K) [])
                 (mttkrp_den v0 v1 vadd vmul s X (kfactors K) n) in
  vsub (normsq_den v0 vadd vmul s (den_k v0 v1 vadd vmul K)) (vadd iprod iprod)
  = vsub (normsq_den v0 vadd vmul s (den_k v0 v1 vadd vmul K))
         (vadd (innerprod_den v0 vadd vmul s X (den_k v0 v1 vadd vmul K)) (innerprod_den v0 vadd vmul s X (den_k v0 v1 vadd vmul K))).
Proof. exact (fit_identity_sum V v0 v1 vadd vmul vsub vopp Vring). Qed.

(* (1') the same identity INSIDE the executable sweep model: after the update of mode n, the value computed from the SAVED mttkrp
   (st_P, taken before mode n was overwritten), the new factor and the new weights is the residual of the new state's model —
   this is cp_als.py:237-250 with n = dimorder[-1] (als_sweep it (ds ++ [n]) st = als_update it (als_sweep it ds st) n) *)
Theorem C09_reported_residual : forall (solve : @matrix V -> @matrix V -> @matrix V) (scale : nat -> @matrix V -> list V * @matrix V)
    (R : nat) (X : idx -> V) (s : shape) (it : nat) (st : als_state V) (n : nat),
  let mkX := fun U m => mttkrp_mat v0 v1 vadd vmul s X U m R in
  st_wf V R s st -> n < length s ->
  length (st_w (als_update v0 v1 vadd vmul mkX solve scale R it st n)) = R ->
  nrows (nth n (st_U (als_update v0 v1 vadd vmul mkX solve scale R it st n)) []) = nth n s 0 ->
  let st' := als_update v0 v1 vadd vmul mkX solve scale R it st n in
  let ip := iprod_saved v0 vadd vmul R (nth n s 0) (st_w st') (nth n (st_U st') []) (fun j r => mget v0 (st_P st') j r) in
  vsub (vadd (normsq_den v0 vadd vmul s X) (normsq_den v0 vadd vmul s (st_den V v0 v1 vadd vmul st'))) (vadd ip ip)
  = resid_den v0 vadd vmul vsub s X (st_den V v0 v1 vadd vmul st').
Proof. exact (reported_residual V v0 v1 vadd vmul vsub vopp Vring). Qed.

(* (1'') ktensor.norm as coded (coefMatrix = w w^T; for f in factors: coefMatrix *= f.T @ f; sum) is the sum of squares of the
   denoted array, for every Kruskal tensor ... *)
Theorem C09_knorm_gram : forall (K : ktensor V),
  normsq_den v0 vadd vmul (kshape K) (den_k v0 v1 vadd vmul K) = knormsq_code V v0 vadd vmul K.
Proof. exact (knorm_gram V v0 v1 vadd vmul vsub vopp Vring). Qed.

(* ... so the reported residual is covered END TO END with the code's own formulas: normX^2 + M.norm()^2 (Gram/Hadamard form)
   - 2 * iprod (saved mttkrp of the mode updated last, new factor, new weights) = ||X - M||^2 of the new state's model *)
Theorem C09_reported_residual_code : forall (solve : @matrix V -> @matrix V -> @matrix V) (scale : nat -> @matrix V -> list V * @matrix V)
    (R : nat) (X : idx -> V) (s : shape) (it : nat) (st : als_state V) (n : nat),
  let mkX := fun U m => mttkrp_mat v0 v1 vadd vmul s X U m R in
  st_wf V R s st -> n < length s ->
  length (st_w (als_update v0 v1 vadd vmul mkX solve scale R it st n)) = R ->
  nrows (nth n (st_U (als_update v0 v1 vadd vmul mkX solve scale R it st n)) []) = nth n s 0 ->
  let st' := als_update v0 v1 vadd vmul mkX solve scale R it st n in
  let ip := iprod_saved v0 vadd vmul R (nth n s 0) (st_w st') (nth n (st_U st') []) (fun j r => mget v0 (st_P st') j r) in
  vsub (vadd (normsq_den v0 vadd vmul s X) (knormsq_code V v0 vadd vmul (st_model st'))) (vadd ip ip)
  = resid_den v0 vadd vmul vsub s X (st_den V v0 v1 vadd vmul st').
Proof. exact (reported_residual_code V v0 v1 vadd vmul vsub vopp Vring). Qed.

(* (2a) why Y = Hadamard product of the Grams: the mode-n MTTKRP of the Kruskal model itself is  a . Y *)
Theorem C09_mttkrp_of_model : forall (As : list (@matrix V)) (n R : nat) (a : nat -> nat -> V) (j t : nat),
  n < length As -> j < nth n (map (@nrows V) As) 0 ->
  mttkrp_den v0 v1 vadd vmul (map (@nrows V) As) (kmodel v0 v1 vadd vmul n As R a) As n j t
  = sum_n v0 vadd R (fun r => vmul (a j r) (gramhad v0 v1 vadd vmul n As r t)).
Proof. exact (mttkrp_of_model V v0 v1 vadd vmul vsub vopp Vring). Qed.

(* (2b) block-wise exact minimisation: if a' solves the normal equations  a' . Y = MTTKRP_n(X)  then for EVERY other factor a
   ||X - M(a)||^2 = ||X - M(a')||^2 + ||M(a - a')||^2 *)
Theorem C09_ls_step_identity : forall (X : idx -> V) (As : list (@matrix V)) (n R : nat) (a' a : nat -> nat -> V),
  n < length As ->
  normal_eq v0 v1 vadd vmul (map (@nrows V) As) X n As R a' ->
  resid_den v0 vadd vmul vsub (map (@nrows V) As) X (kmodel v0 v1 vadd vmul n As R a) =
  vadd (resid_den v0 vadd vmul vsub (map (@nrows V) As) X (kmodel v0 v1 vadd vmul n As R a'))
       (normsq_den v0 vadd vmul (map (@nrows V) As) (kmodel v0 v1 vadd vmul n As R (fun j r => vsub (a j r) (a' j r)))).
Proof. exact (ls_step_identity V v0 v1 vadd vmul vsub vopp Vring). Qed.

(* (2c) C09_normal_eq: in the executable sweep model, after the update of mode n (oracles meeting their contracts) the
   weight-absorbed factor of mode n satisfies its normal equations w.r.t. the state's own factors — in particular the factor
   updated LAST in the returned state *)
Theorem C09_normal_eq : forall (mk : list (@matrix V) -> nat -> @matrix V) (solve : @matrix V -> @matrix V -> @matrix V)
    (scale : nat -> @matrix V -> list V * @matrix V) (R : nat) (X : idx -> V) (s : shape) (it : nat) (st : als_state V) (n : nat),
  st_wf V R s st ->
  update_contract V v0 v1 vadd vmul mk solve scale R X s it st n ->
  normal_eq v0 v1 vadd vmul s X n (st_U (als_update v0 v1 vadd vmul mk solve scale R it st n)) R
    (fun j r => vmul (nth r (st_w (als_update v0 v1 vadd vmul mk solve scale R it st n)) v0)
                     (mget v0 (nth n (st_U (als_update v0 v1 vadd vmul mk solve scale R it st n)) []) j r)).
Proof. exact (last_update_normal_eq V v0 v1 vadd vmul). Qed.

(* (3) C09_scaling_indep: two runs on the same data from the same factor list that differ ONLY in the column-scaling oracle
   (2-norm / max-norm / anything with invertible weights) denote the same model after every sequence of k+1 sweeps
   (contracts of the oracles at every update; normal equations of run 1 uniquely solvable = the rank condition) *)
Theorem C09_scaling_indep : forall (R : nat) (X : idx -> V) (mk : list (@matrix V) -> nat -> @matrix V)
    (solve : @matrix V -> @matrix V -> @matrix V) (scale1 scale2 : nat -> @matrix V -> list V * @matrix V)
    (s : shape) (dims : list nat) (st1 st2 : als_state V) (k : nat),
  st_wf V R s st1 -> st_wf V R s st2 -> st_U st1 = st_U st2 -> dims <> [] ->
  iter_hyps V v0 v1 vadd vmul R X X mk mk solve solve scale1 scale2 s (S k) dims st1 st2 ->
  forall i, inb s i = true ->
    st_den V v0 v1 vadd vmul (als_iter v0 v1 vadd vmul mk solve scale2 R (S k) dims st2) i
    = st_den V v0 v1 vadd vmul (als_iter v0 v1 vadd vmul mk solve scale1 R (S k) dims st1) i.
Proof. exact (scaling_indep V v0 v1 vadd vmul vsub vopp Vring). Qed.
End C09.

(* ---- (2d) monotonicity over an ordered ring ---- *)
Section C09ord.
Variable V : Type.
Variables (v0 v1 : V) (vadd vmul vsub : V -> V -> V) (vopp : V -> V).
Hypothesis Vring : ring_theory v0 v1 vadd vmul vsub vopp (@eq V).
Variable vle : V -> V -> Prop.
Hypothesis le_refl : forall x, vle x x.
Hypothesis le_trans : forall x y z, vle x y -> vle y z -> vle x z.
Hypothesis le_add_nonneg : forall x y, vle v0 y -> vle x (vadd x y).
Hypothesis add_nonneg : forall x y, vle v0 x -> vle v0 y -> vle v0 (vadd x y).
Hypothesis sq_nonneg : forall x, vle v0 (vmul x x).

(* C09_monotone: consecutive iterations of the sweep model never increase ||X - M||^2 (so the fit 1 - ||X-M||/||X|| never
   decreases when ||X|| <> 0), for all data, starts, mode orders / subsets `dims`, ranks, and all oracles meeting their contracts *)
Theorem C09_monotone : forall (mk : list (@matrix V) -> nat -> @matrix V) (solve : @matrix V -> @matrix V -> @matrix V)
    (scale : nat -> @matrix V -> list V * @matrix V) (R : nat) (X : idx -> V) (s : shape) (dims : list nat)
    (st : als_state V) (k : nat),
  st_wf V R s st ->
  iter_contract V v0 v1 vadd vmul mk solve scale R X s (S k) dims st ->
  st_wf V R s (als_iter v0 v1 vadd vmul mk solve scale R (S k) dims st) /\
  vle (resid_den v0 vadd vmul vsub s X (st_den V v0 v1 vadd vmul (als_iter v0 v1 vadd vmul mk solve scale R (S k) dims st)))
      (resid_den v0 vadd vmul vsub s X (st_den V v0 v1 vadd vmul (als_iter v0 v1 vadd vmul mk solve scale R k dims st))).
Proof. exact (iter_monotone V v0 v1 vadd vmul vsub vopp Vring vle le_refl le_trans le_add_nonneg add_nonneg sq_nonneg). Qed.

(* a single mode update to any solution of the normal equations, whatever the previous factor a was *)
Theorem C09_ls_step_monotone : forall (X : idx -> V) (As : list (@matrix V)) (n R : nat) (a' a : nat -> nat -> V),
  n < length As ->
  normal_eq v0 v1 vadd vmul (map (@nrows V) As) X n As R a' ->
  vle (resid_den v0 vadd vmul vsub (map (@nrows V) As) X (kmodel v0 v1 vadd vmul n As R a'))
      (resid_den v0 vadd vmul vsub (map (@nrows V) As) X (kmodel v0 v1 vadd vmul n As R a)).
Proof. exact (ls_step_monotone V v0 v1 vadd vmul vsub vopp Vring vle le_refl le_add_nonneg add_nonneg sq_nonneg). Qed.
End C09ord.

(* ---- (3') normal form of the returned model: the final M.arrange() (executable Kruskal model of C08: k_arrange None =
   normalize columns mode by mode, flip negative weights into factor 0, gather by np.argsort(weights)[::-1]) ----
   Oracles: nrm (np.linalg.norm of a column), pos/neg (sign tests), vinv (1/x), srt (argsort descending), with the contracts below
   (the norm-oracle contract of C08 plus nrm_spec "the oracle returns the 2-norm" and the sort contract) *)
Section C09nf.
Variable V : Type.
Variables (v0 v1 : V) (vadd vmul vsub : V -> V -> V) (vopp vinv : V -> V).
Hypothesis Vring : ring_theory v0 v1 vadd vmul vsub vopp (@eq V).
Variables (nrm : list V -> V) (pos neg : V -> bool) (root : V -> V) (srt : list V -> list nat) (negcol : list V -> bool).
Variable vle : V -> V -> Prop.
Hypothesis vinv_r : forall x, x <> v0 -> vmul x (vinv x) = v1.
Hypothesis pos_nz : forall x, pos x = true -> x <> v0.
Hypothesis nrm_pos : forall l, pos (nrm l) = false -> Forall (fun y => y = v0) l.
Hypothesis nrm_spec : forall l, vmul (nrm l) (nrm l) = dot v0 vadd vmul l l.
Hypothesis neg_opp : forall x, neg x = true -> neg (vopp x) = false.
Hypothesis srt_perm : forall l, is_perm (srt l) (length l).
Hypothesis srt_desc : forall l r, S r < length l -> vle (nth (nth (S r) (srt l) 0) l v0) (nth (nth r (srt l) 0) l v0).

(* C09_normal_form: for EVERY ktensor with at least one factor matrix, arrange gives the same rank and shape, columns of squared
   2-norm 1 (or identically zero), no negative weight, weights in descending order *)
Theorem C09_normal_form : forall K : ktensor V, kfactors K <> [] ->
  let K' := k_arrange v0 v1 vmul vopp vinv nrm pos neg root srt None K in
  (krank K' = krank K /\ kshape K' = kshape K) /\
  (forall n r, n < length (kfactors K) -> r < krank K ->
     let c := col v0 (nth n (kfactors K') []) r in dot v0 vadd vmul c c = v1 \/ Forall (fun y => y = v0) c) /\
  (forall r, r < krank K -> neg (nth r (kweights K') v0) = false) /\
  (forall r, S r < krank K -> vle (nth (S r) (kweights K') v0) (nth r (kweights K') v0)).
Proof. exact (normal_form_arrange_nowf V v0 v1 vadd vmul vsub vopp vinv Vring nrm pos neg root srt vle
                vinv_r pos_nz nrm_pos nrm_spec neg_opp srt_perm srt_desc). Qed.

(* ... and for the model RETURNED by the cp_als loop model whose arrange / fixsigns are k_arrange None / k_fixsigns: every limit
   (0 included), printing interval, tolerance, start *)
Theorem C09_normal_form_run : forall (F : Type) (sweep : nat -> ktensor V -> ktensor V) (fit_mttkrp fit_innerprod : ktensor V -> F * F)
    (fchange_lt : F -> F -> F -> bool) (fit0 : F) tol p s0 m dofix (r : result (ktensor V) F),
  cpals_run sweep fit_mttkrp fit_innerprod fchange_lt fit0 (k_arrange v0 v1 vmul vopp vinv nrm pos neg root srt None)
            (k_fixsigns v0 v1 vmul vopp negcol) tol p s0 m dofix = Some r ->
  let last := iter_sweep sweep (length (r_trace r)) s0 in
  kfactors last <> [] ->
  (forall q, q < krank last -> neg (nth q (kweights (r_state r)) v0) = false) /\
  (forall q, S q < krank last -> vle (nth (S q) (kweights (r_state r)) v0) (nth q (kweights (r_state r)) v0)) /\
  (dofix = false ->
     (krank (r_state r) = krank last /\ kshape (r_state r) = kshape last) /\
     forall n q, n < length (kfactors last) -> q < krank last ->
       let c := col v0 (nth n (kfactors (r_state r)) []) q in dot v0 vadd vmul c c = v1 \/ Forall (fun y => y = v0) c).
Proof. exact (run_normal_form V v0 v1 vadd vmul vsub vopp vinv Vring nrm pos neg root srt negcol vle
                vinv_r pos_nz nrm_pos nrm_spec neg_opp srt_perm srt_desc). Qed.
End C09nf.

(* ---- (4) bookkeeping of the outer loop (Model/C09Loop.v: statement-by-statement transliteration of cp_als.py:199-298) ---- *)
Section C09book.
Variables (St F : Type) (sweep : nat -> St -> St) (fit_mttkrp fit_innerprod : St -> F * F)
          (fchange_lt : F -> F -> F -> bool) (fit0 : F) (arrange fixsigns : St -> St).
Local Notation RUN := (cpals_run sweep fit_mttkrp fit_innerprod fchange_lt fit0 arrange fixsigns).

(* iteration count within the limit; one fit per executed iteration *)
Theorem C09_bookkeeping_iters : forall tol p s0 m dofix (r : result St F), 0 < m ->
  RUN tol p s0 m dofix = Some r -> r_iters r < m /\ length (r_trace r) = S (r_iters r).
Proof. exact (@cpals_iters_bound St F sweep fit_mttkrp fit_innerprod fchange_lt fit0 arrange fixsigns). Qed.
(* ... every admissible limit, maxiters = 0 included: iters <= maxiters - 1 (0 when nothing ran), min(maxiters, iters+1) fits computed *)
Theorem C09_bookkeeping_iters_all : forall tol p s0 m dofix (r : result St F),
  RUN tol p s0 m dofix = Some r -> r_iters r <= m - 1 /\ length (r_trace r) = Nat.min m (S (r_iters r)).
Proof. exact (@cpals_iters_bound_all St F sweep fit_mttkrp fit_innerprod fchange_lt fit0 arrange fixsigns). Qed.

(* stop rule: early exit only at an iteration k >= 1 whose fit change is below stoptol, and never past such an iteration *)
Theorem C09_bookkeeping_stop : forall tol p s0 m dofix (r : result St F),
  RUN tol p s0 m dofix = Some r ->
  let t := r_trace r in
  (r_iters r < m - 1 -> r_iters r > 0 /\ fchange_lt (nth (r_iters r - 1) t fit0) (nth (r_iters r) t fit0) tol = true) /\
  (forall k, 0 < k < r_iters r -> fchange_lt (nth (k - 1) t fit0) (nth k t fit0) tol = false).
Proof. exact (@cpals_stop_rule St F sweep fit_mttkrp fit_innerprod fchange_lt fit0 arrange fixsigns). Qed.

(* the returned model is arrange/fixsigns of the state after exactly iters+1 sweeps FROM THE GIVEN START s0 (the guess that is
   returned is the one used), and the trace lists the fits of those sweeps *)
Theorem C09_bookkeeping_state : forall tol p s0 m dofix (r : result St F), 0 < m ->
  RUN tol p s0 m dofix = Some r ->
  (forall k, k <= r_iters r -> nth_error (r_trace r) k = Some (snd (fit_mttkrp (iter_sweep sweep (S k) s0)))) /\
  r_state r = cpals_finish arrange fixsigns dofix (iter_sweep sweep (S (r_iters r)) s0).
Proof. exact (@cpals_trace_sweeps St F sweep fit_mttkrp fit_innerprod fchange_lt fit0 arrange fixsigns). Qed.
(* ... every limit, 0 included: the model is arrange/fixsigns of the state after as many sweeps from s0 as fits were computed *)
Theorem C09_bookkeeping_state_all : forall tol p s0 m dofix (r : result St F),
  RUN tol p s0 m dofix = Some r ->
  r_state r = cpals_finish arrange fixsigns dofix (iter_sweep sweep (length (r_trace r)) s0) /\
  (forall k, k < length (r_trace r) -> nth_error (r_trace r) k = Some (fit_at sweep fit_mttkrp s0 k)).
Proof. exact (@cpals_state_all St F sweep fit_mttkrp fit_innerprod fchange_lt fit0 arrange fixsigns). Qed.

(* what is reported: the in-loop formula when silent (the innerprod formula on the start when no sweep ran), the innerprod
   formula on the final model when printing *)
Theorem C09_bookkeeping_report : forall tol p s0 m dofix (r : result St F),
  RUN tol p s0 m dofix = Some r ->
  (p = 0 -> 0 < m -> (r_normres r, r_fit r) = fit_mttkrp (iter_sweep sweep (S (r_iters r)) s0)) /\
  (p = 0 -> m = 0 -> (r_normres r, r_fit r) = fit_innerprod s0) /\
  (p > 0 -> (r_normres r, r_fit r) = fit_innerprod (r_state r)).
Proof. exact (@cpals_report_consistent St F sweep fit_mttkrp fit_innerprod fchange_lt fit0 arrange fixsigns). Qed.

(* truncated runs expose the per-iteration trace (this justifies the correspondence harness) *)
Theorem C09_bookkeeping_truncation : forall tol p1 p2 d1 d2 s0 m1 m2 (r1 r2 : result St F), m1 <= m2 ->
  RUN tol p1 s0 m1 d1 = Some r1 -> RUN tol p2 s0 m2 d2 = Some r2 ->
  r_trace r1 = firstn m1 (r_trace r2) /\ r_iters r1 = Nat.min (r_iters r2) (m1 - 1).
Proof. exact (@cpals_truncation St F sweep fit_mttkrp fit_innerprod fchange_lt fit0 arrange fixsigns). Qed.

(* maxiters = 0 (A-30, repaired in /repo: the loop model follows the repaired source): no sweep is executed, the start model is
   arranged / sign-fixed and reported with iters = 0; silent runs evaluate the innerprod formula on the start itself, printing
   runs on the arranged model.  With that block the run is TOTAL: every admissible limit yields a result *)
Theorem C09_maxiters0 : forall tol p s0 dofix,
  RUN tol p s0 0 dofix
  = let fin := cpals_finish arrange fixsigns dofix s0 in
    Some (if 0 <? p
          then mkResult fin 0 (fst (fit_innerprod fin)) (snd (fit_innerprod fin)) [EvHeader; EvFinal (snd (fit_innerprod fin))] []
          else mkResult fin 0 (fst (fit_innerprod s0)) (snd (fit_innerprod s0)) [] []).
Proof. exact (@cpals_run_zero St F sweep fit_mttkrp fit_innerprod fchange_lt fit0 arrange fixsigns). Qed.
Theorem C09_run_total : forall tol p s0 m dofix, exists r, RUN tol p s0 m dofix = Some r.
Proof. exact (@cpals_run_total St F sweep fit_mttkrp fit_innerprod fchange_lt fit0 arrange fixsigns). Qed.
End C09book.

(* ---- (5) wave 3: the sweep theorems over the PROVED mttkrp ALGORITHM models of C02 (Proofs/C09Holders.v) ----
   `mk` = what the data object's mttkrp method computes: tensor.mttkrp (reshape / Khatri-Rao / matmul, three branches),
   sptensor.mttkrp (accumulation over the stored entries), ktensor.mttkrp (Gram / Hadamard form), sumtensor.mttkrp (sum of the parts).
   Oracles left: LAPACK's solve (A . Y = P on the matrices it is given) and the column scaling. *)
Section C09code.
Variable V : Type.
Variables (v0 v1 : V) (vadd vmul vsub : V -> V -> V) (vopp : V -> V).
Hypothesis Vring : ring_theory v0 v1 vadd vmul vsub vopp (@eq V).
Variable isz : V -> bool.

(* bridge: C02's defining sum with unit weights IS the MTTKRP of the denotation used by all C09 statements *)
Theorem C09_mttkrp_bridge : forall (f : idx -> V) (s : shape) n (Us : list (@matrix V)) R x r,
  n < length s -> length Us = length s -> x < nth n s 0 -> r < R ->
  spec_mttkrp v0 v1 vadd vmul f s n (repeat v1 R) Us x r = mttkrp_den v0 v1 vadd vmul s f Us n x r.
Proof. exact (spec_mttkrp_den V v0 v1 vadd vmul vsub vopp Vring). Qed.

(* every holder class with a proved algorithm model: on every factor list of the right row counts (dense: the other factors have
   R columns) the matrix returned by the holder's mttkrp algorithm is the MTTKRP matrix of the holder's denotation *)
Theorem C09_holder_dense : forall R (X : dense V), wf_dense X -> 2 <= length (dshape X) ->
  holder_ok V v0 v1 vadd vmul R (dshape X) (den_dense v0 X) (mk_dense V v0 vadd vmul R X) (good_dense V R).
Proof. exact (holder_dense V v0 v1 vadd vmul vsub vopp Vring). Qed.
Theorem C09_holder_sparse : forall R (S : sparse V), wf_sp isz S ->
  holder_ok V v0 v1 vadd vmul R (sshape S) (den_sp v0 S) (mk_sparse V v0 v1 vadd vmul R S) (good_any V).
Proof. exact (fun R => holder_sparse V v0 v1 vadd vmul vsub vopp Vring R isz). Qed.
Theorem C09_holder_kruskal : forall R (K : ktensor V),
  holder_ok V v0 v1 vadd vmul R (kshape K) (den_k v0 v1 vadd vmul K) (mk_kruskal V v0 vadd vmul R K) (good_any V).
Proof. exact (holder_kruskal V v0 v1 vadd vmul vsub vopp Vring). Qed.
(* sum tensor of tied parts (denotation, mttkrp function, side condition) *)
Theorem C09_holder_sum : forall R (s : shape)
    (parts : list ((idx -> V) * (list (@matrix V) -> nat -> @matrix V) * (list (@matrix V) -> nat -> Prop))),
  Forall (fun p => holder_ok V v0 v1 vadd vmul R s (fst (fst p)) (snd (fst p)) (snd p)) parts ->
  holder_ok V v0 v1 vadd vmul R s (den_sum v0 vadd (map (fun p => fst (fst p)) parts))
            (mk_sum V v0 vadd R s (map (fun p => snd (fst p)) parts)) (fun U n => Forall (fun p => snd p U n) parts).
Proof. exact (holder_sum V v0 v1 vadd vmul vsub vopp Vring). Qed.

(* wave 4: the Tucker holder — ttensor.mttkrp's algorithm (W_i = U_i^T V_i, core.mttkrp(W, n) through tensor.mttkrp, U_n Y; C02's
   impl_mttkrp_t with theorem C02_mttkrp_tucker) returns the MTTKRP matrix of the Tucker tensor's denotation *)
Theorem C09_holder_tucker : forall R (T : ttensor V),
  wf_dense (tcore T) -> 2 <= length (tfactors T) -> length (dshape (tcore T)) = length (tfactors T) ->
  holder_ok V v0 v1 vadd vmul R (tshape T) (den_t v0 v1 vadd vmul T) (mk_tucker V v0 vadd vmul R T) (good_any V).
Proof. exact (holder_tucker V v0 v1 vadd vmul vsub vopp Vring). Qed.

(* the factor updated last satisfies its normal equations w.r.t. the DENOTATION of the data when the sweep calls the holder's own
   mttkrp algorithm, LAPACK returned A with A . Y = P for the Y, P it was given, and the scaling divided the columns *)
Theorem C09_code_normal_eq : forall R (solve : @matrix V -> @matrix V -> @matrix V) (scale : nat -> @matrix V -> list V * @matrix V)
    (s : shape) (X : idx -> V) mk good, holder_ok V v0 v1 vadd vmul R s X mk good ->
  forall it st n, st_wf V R s st -> update_code_contract V v0 v1 vadd vmul R solve scale s mk good it st n ->
  normal_eq v0 v1 vadd vmul s X n (st_U (als_update v0 v1 vadd vmul mk solve scale R it st n)) R
    (fun j r => vmul (nth r (st_w (als_update v0 v1 vadd vmul mk solve scale R it st n)) v0)
                     (mget v0 (nth n (st_U (als_update v0 v1 vadd vmul mk solve scale R it st n)) []) j r)).
Proof. exact (code_normal_eq V v0 v1 vadd vmul). Qed.

(* the reported residual from the matrix the holder's mttkrp RETURNED (saved in st_P), the new factor / weights and ktensor.norm's
   own formula = ||X - M||^2 of the new state's model *)
Theorem C09_code_reported_residual : forall R (solve : @matrix V -> @matrix V -> @matrix V) (scale : nat -> @matrix V -> list V * @matrix V)
    (s : shape) (X : idx -> V) mk good, holder_ok V v0 v1 vadd vmul R s X mk good ->
  forall it st n, st_wf V R s st -> n < length s -> good (st_U st) n ->
  length (st_w (als_update v0 v1 vadd vmul mk solve scale R it st n)) = R ->
  nrows (nth n (st_U (als_update v0 v1 vadd vmul mk solve scale R it st n)) []) = nth n s 0 ->
  let st' := als_update v0 v1 vadd vmul mk solve scale R it st n in
  let ip := iprod_saved v0 vadd vmul R (nth n s 0) (st_w st') (nth n (st_U st') []) (fun j r => mget v0 (st_P st') j r) in
  vsub (vadd (normsq_den v0 vadd vmul s X) (knormsq_code V v0 vadd vmul (st_model st'))) (vadd ip ip)
  = resid_den v0 vadd vmul vsub s X (st_den V v0 v1 vadd vmul st').
Proof. exact (code_reported_residual V v0 v1 vadd vmul vsub vopp Vring). Qed.

(* instances: dense data through tensor.mttkrp's algorithm, sparse data through sptensor.mttkrp's *)
Theorem C09_normal_eq_dense : forall R (solve : @matrix V -> @matrix V -> @matrix V) (scale : nat -> @matrix V -> list V * @matrix V)
    (X : dense V), wf_dense X -> 2 <= length (dshape X) ->
  let mk := mk_dense V v0 vadd vmul R X in
  forall it st n, st_wf V R (dshape X) st ->
  update_code_contract V v0 v1 vadd vmul R solve scale (dshape X) mk (good_dense V R) it st n ->
  normal_eq v0 v1 vadd vmul (dshape X) (den_dense v0 X) n (st_U (als_update v0 v1 vadd vmul mk solve scale R it st n)) R
    (fun j r => vmul (nth r (st_w (als_update v0 v1 vadd vmul mk solve scale R it st n)) v0)
                     (mget v0 (nth n (st_U (als_update v0 v1 vadd vmul mk solve scale R it st n)) []) j r)).
Proof. exact (normal_eq_dense V v0 v1 vadd vmul vsub vopp Vring). Qed.
Theorem C09_normal_eq_sparse : forall R (solve : @matrix V -> @matrix V -> @matrix V) (scale : nat -> @matrix V -> list V * @matrix V)
    (S : sparse V), wf_sp isz S ->
  let mk := mk_sparse V v0 v1 vadd vmul R S in
  forall it st n, st_wf V R (sshape S) st ->
  update_code_contract V v0 v1 vadd vmul R solve scale (sshape S) mk (good_any V) it st n ->
  normal_eq v0 v1 vadd vmul (sshape S) (den_sp v0 S) n (st_U (als_update v0 v1 vadd vmul mk solve scale R it st n)) R
    (fun j r => vmul (nth r (st_w (als_update v0 v1 vadd vmul mk solve scale R it st n)) v0)
                     (mget v0 (nth n (st_U (als_update v0 v1 vadd vmul mk solve scale R it st n)) []) j r)).
Proof. exact (normal_eq_sparse V v0 v1 vadd vmul vsub vopp Vring isz). Qed.
Theorem C09_normal_eq_tucker : forall R (solve : @matrix V -> @matrix V -> @matrix V) (scale : nat -> @matrix V -> list V * @matrix V)
    (T : ttensor V), wf_dense (tcore T) -> 2 <= length (tfactors T) -> length (dshape (tcore T)) = length (tfactors T) ->
  let mk := mk_tucker V v0 vadd vmul R T in
  forall it st n, st_wf V R (tshape T) st ->
  update_code_contract V v0 v1 vadd vmul R solve scale (tshape T) mk (good_any V) it st n ->
  normal_eq v0 v1 vadd vmul (tshape T) (den_t v0 v1 vadd vmul T) n (st_U (als_update v0 v1 vadd vmul mk solve scale R it st n)) R
    (fun j r => vmul (nth r (st_w (als_update v0 v1 vadd vmul mk solve scale R it st n)) v0)
                     (mget v0 (nth n (st_U (als_update v0 v1 vadd vmul mk solve scale R it st n)) []) j r)).
Proof. exact (normal_eq_tucker V v0 v1 vadd vmul vsub vopp Vring). Qed.

End C09code.

Section C09codeord.
Variable V : Type.
Variables (v0 v1 : V) (vadd vmul vsub : V -> V -> V) (vopp : V -> V).
Hypothesis Vring : ring_theory v0 v1 vadd vmul vsub vopp (@eq V).
Variable vle : V -> V -> Prop.
Hypothesis le_refl : forall x, vle x x.
Hypothesis le_trans : forall x y z, vle x y -> vle y z -> vle x z.
Hypothesis le_add_nonneg : forall x y, vle v0 y -> vle x (vadd x y).
Hypothesis add_nonneg : forall x y, vle v0 x -> vle v0 y -> vle v0 (vadd x y).
Hypothesis sq_nonneg : forall x, vle v0 (vmul x x).

(* the residual never increases from one iteration to the next with the holder's own mttkrp algorithm inside every sweep
   (code-level contract at every visited state: side condition of the holder, LAPACK's A . Y = P, column scaling) *)
Theorem C09_code_monotone : forall R (solve : @matrix V -> @matrix V -> @matrix V) (scale : nat -> @matrix V -> list V * @matrix V)
    (s : shape) (X : idx -> V) mk good, holder_ok V v0 v1 vadd vmul R s X mk good ->
  forall dims st k, st_wf V R s st -> iter_code_contract V v0 v1 vadd vmul R solve scale s mk good (S k) dims st ->
  st_wf V R s (als_iter v0 v1 vadd vmul mk solve scale R (S k) dims st) /\
  vle (resid_den v0 vadd vmul vsub s X (st_den V v0 v1 vadd vmul (als_iter v0 v1 vadd vmul mk solve scale R (S k) dims st)))
      (resid_den v0 vadd vmul vsub s X (st_den V v0 v1 vadd vmul (als_iter v0 v1 vadd vmul mk solve scale R k dims st))).
Proof.
  intros R solve scale s X mk good Hok.
  exact (code_monotone V v0 v1 vadd vmul vsub vopp Vring R solve scale s X mk good Hok vle le_refl le_trans le_add_nonneg add_nonneg sq_nonneg).
Qed.
End C09codeord.

(* ---- (6) wave 3: sign fixing keeps the normal form (Proofs/C09FixSigns.v) ---- *)
Section C09fix.
Variable V : Type.
Variables (v0 v1 : V) (vadd vmul vsub : V -> V -> V) (vopp vinv : V -> V).
Hypothesis Vring : ring_theory v0 v1 vadd vmul vsub vopp (@eq V).
Variables (nrm : list V -> V) (pos neg : V -> bool) (root : V -> V) (srt : list V -> list nat) (negcol : list V -> bool).
Variable vle : V -> V -> Prop.
Hypothesis vinv_r : forall x, x <> v0 -> vmul x (vinv x) = v1.
Hypothesis pos_nz : forall x, pos x = true -> x <> v0.
Hypothesis nrm_pos : forall l, pos (nrm l) = false -> Forall (fun y => y = v0) l.
Hypothesis nrm_spec : forall l, vmul (nrm l) (nrm l) = dot v0 vadd vmul l l.
Hypothesis neg_opp : forall x, neg x = true -> neg (vopp x) = false.
Hypothesis srt_perm : forall l, is_perm (srt l) (length l).
Hypothesis srt_desc : forall l r, S r < length l -> vle (nth (nth (S r) (srt l) 0) l v0) (nth (nth r (srt l) 0) l v0).

(* ktensor.fixsigns() for EVERY Kruskal tensor and sign oracle: rank, shape and weights untouched, every column keeps its squared
   2-norm, zero columns stay zero *)
Theorem C09_fixsigns_columns : forall K : ktensor V,
  let K' := k_fixsigns v0 v1 vmul vopp negcol K in
  krank K' = krank K /\ kshape K' = kshape K /\ kweights K' = kweights K /\
  forall n r, n < length (kfactors K) -> r < krank K ->
    let c := col v0 (nth n (kfactors K) []) r in
    let c' := col v0 (nth n (kfactors K') []) r in
    dot v0 vadd vmul c' c' = dot v0 vadd vmul c c /\ (Forall (fun y => y = v0) c -> Forall (fun y => y = v0) c').
Proof. exact (fixsigns_columns V v0 v1 vadd vmul vsub vopp Vring negcol). Qed.

(* the model RETURNED by the loop machine is in normal form with sign fixing ON or OFF: rank and shape of the last iterate, unit-or-zero
   columns, non-negative weights in descending order; every limit (0 included), printing interval, tolerance, start *)
Theorem C09_normal_form_run_fix : forall (F : Type) (sweep : nat -> ktensor V -> ktensor V) (fit_mttkrp fit_innerprod : ktensor V -> F * F)
    (fchange_lt : F -> F -> F -> bool) (fit0 : F) tol p s0 m dofix (r : result (ktensor V) F),
  cpals_run sweep fit_mttkrp fit_innerprod fchange_lt fit0 (k_arrange v0 v1 vmul vopp vinv nrm pos neg root srt None)
            (k_fixsigns v0 v1 vmul vopp negcol) tol p s0 m dofix = Some r ->
  let last := iter_sweep sweep (length (r_trace r)) s0 in
  kfactors last <> [] ->
  (krank (r_state r) = krank last /\ kshape (r_state r) = kshape last) /\
  (forall n q, n < length (kfactors last) -> q < krank last ->
     let c := col v0 (nth n (kfactors (r_state r)) []) q in dot v0 vadd vmul c c = v1 \/ Forall (fun y => y = v0) c) /\
  (forall q, q < krank last -> neg (nth q (kweights (r_state r)) v0) = false) /\
  (forall q, S q < krank last -> vle (nth (S q) (kweights (r_state r)) v0) (nth q (kweights (r_state r)) v0)).
Proof. exact (run_normal_form_fix V v0 v1 vadd vmul vsub vopp Vring negcol vinv nrm pos neg root srt vle
                vinv_r pos_nz nrm_pos nrm_spec neg_opp srt_perm srt_desc). Qed.
End C09fix.

(* ---- (7) wave 3: init='random' over a captured random stream (Model/C09Init.v: the loop `for n in range(N): np.random.uniform(0, 1,
   (shape[n], rank))` followed by ttb.ktensor(factor_matrices)) — every shape, rank and stream ---- *)
Section C09init.
Variable V : Type.
Variables (v0 v1 : V).
(* closed form of the start: entry (j, r) of the mode-n factor is number  R*(I_0+...+I_{n-1}) + j*R + r  of the stream (modes drawn in
   the order 0..N-1 whatever dimorder / optdims are, row-major inside a factor) *)
Theorem C09_init_random_entry : forall R (s : shape) (stream : list V) n j r, n < length s -> j < nth n s 0 -> r < R ->
  mget v0 (nth n (kfactors (init_random v1 s R stream)) []) j r = nth (list_sum (firstn n s) * R + j * R + r) stream v0.
Proof. exact (draw_entry V v0). Qed.
(* rank, shape, unit weights, rows of R entries *)
Theorem C09_init_random_shape : forall R (s : shape) (stream : list V), list_sum s * R <= length stream ->
  (krank (init_random v1 s R stream) = R /\ kshape (init_random v1 s R stream) = s /\ kweights (init_random v1 s R stream) = repeat v1 R) /\
  Forall (fun A => Forall (fun row => length row = R) A) (kfactors (init_random v1 s R stream)).
Proof. exact (init_random_shape_rows V v1). Qed.
(* exact consumption: the flattened factors are the first R * sum(shape) numbers, the generator is left at the next one *)
Theorem C09_init_random_consumes : forall R (s : shape) (stream : list V), list_sum s * R <= length stream ->
  concat (map (@concat V) (kfactors (init_random v1 s R stream))) = firstn (list_sum s * R) stream /\
  snd (draw_factors s R stream) = skipn (list_sum s * R) stream.
Proof. exact (draw_consumes V). Qed.
End C09init.

Print Assumptions C09_fit_identity.
Print Assumptions C09_fit_identity_sum.
Print Assumptions C09_reported_residual.
Print Assumptions C09_knorm_gram.
Print Assumptions C09_reported_residual_code.
Print Assumptions C09_normal_form.
Print Assumptions C09_normal_form_run.
Print Assumptions C09_mttkrp_of_model.
Print Assumptions C09_ls_step_identity.
Print Assumptions C09_normal_eq.
Print Assumptions C09_scaling_indep.
Print Assumptions C09_monotone.
Print Assumptions C09_ls_step_monotone.
Print Assumptions C09_bookkeeping_iters.
Print Assumptions C09_bookkeeping_stop.
Print Assumptions C09_bookkeeping_state.
Print Assumptions C09_bookkeeping_report.
Print Assumptions C09_bookkeeping_truncation.
Print Assumptions C09_maxiters0.
Print Assumptions C09_run_total.
Print Assumptions C09_bookkeeping_iters_all.
Print Assumptions C09_bookkeeping_state_all.
Print Assumptions C09_mttkrp_bridge.
Print Assumptions C09_holder_dense.
Print Assumptions C09_holder_sparse.
Print Assumptions C09_holder_kruskal.
Print Assumptions C09_holder_sum.
Print Assumptions C09_code_normal_eq.
Print Assumptions C09_code_reported_residual.
Print Assumptions C09_normal_eq_dense.
Print Assumptions C09_normal_eq_sparse.
Print Assumptions C09_holder_tucker.
Print Assumptions C09_normal_eq_tucker.
Print Assumptions C09_code_monotone.
Print Assumptions C09_fixsigns_columns.
Print Assumptions C09_normal_form_run_fix.
Print Assumptions C09_init_random_entry.
Print Assumptions C09_init_random_shape.
Print Assumptions C09_init_random_consumes.

(* non-vacuity: a concrete non-symmetric 3x2 rank-2 instance over Z, mode 1 *)
Example C09_fit_identity_example :
  let s := [3; 2] in
  let X := den_dense 0%Z (mkDense s [1; -2; 3; 0; 5; 4]%Z) in
  let K := mkK [2; -1]%Z [ [[1; 0]; [2; 1]; [0; 3]]; [[1; 2]; [-1; 1]] ]%Z in
  let iprod := iprod_saved 0%Z Z.add Z.mul 2 2 (kweights K) (nth 1 (kfactors K) [])
                 (mttkrp_den 0%Z 1%Z Z.add Z.mul s X (kfactors K) 1) in
  (iprod = -57 /\ innerprod_den 0%Z Z.add Z.mul s X (den_k 0%Z 1%Z Z.add Z.mul K) = -57 /\ resid_den 0%Z Z.add Z.mul Z.sub s X (den_k 0%Z 1%Z Z.add Z.mul K) = 251)%Z.
Proof. vm_compute. repeat split; reflexivity. Qed.

(* non-vacuity of (2): a concrete 2x2 least-squares step over Z (mode 0, rank 1): the normal equations hold for a' = (1,1)
   and the theorem gives  ||X - M(a')||^2 = 5  <=  ||X - M(a)||^2 = 30 for the competitor a = (3,0) *)
Example C09_ls_step_example :
  let As := [ [[7]; [7]]; [[1]; [2]] ]%Z in
  let X := den_dense 0%Z (mkDense [2; 2]%nat [1; 3; 2; 1]%Z) in
  let a' := fun (_ _ : nat) => 1%Z in
  let a := fun (j _ : nat) => match j with O => 3%Z | _ => 0%Z end in
  normal_eq 0%Z 1%Z Z.add Z.mul [2; 2]%nat X 0%nat As 1%nat a' /\
  (resid_den 0%Z Z.add Z.mul Z.sub [2; 2]%nat X (kmodel 0%Z 1%Z Z.add Z.mul 0%nat As 1%nat a') <=
   resid_den 0%Z Z.add Z.mul Z.sub [2; 2]%nat X (kmodel 0%Z 1%Z Z.add Z.mul 0%nat As 1%nat a))%Z /\
  resid_den 0%Z Z.add Z.mul Z.sub [2; 2]%nat X (kmodel 0%Z 1%Z Z.add Z.mul 0%nat As 1%nat a') = 5%Z /\
  resid_den 0%Z Z.add Z.mul Z.sub [2; 2]%nat X (kmodel 0%Z 1%Z Z.add Z.mul 0%nat As 1%nat a) = 30%Z.
Proof.
  intros As X a' a.
  assert (NE : normal_eq 0%Z 1%Z Z.add Z.mul [2; 2]%nat X 0%nat As 1%nat a').
  { intros j t Hj Ht. cbn in Hj. destruct t as [|t]; [|inversion Ht as [|? H]; inversion H].
    destruct j as [|[|j]]; [vm_compute; reflexivity | vm_compute; reflexivity |].
    exfalso. do 2 apply Nat.succ_lt_mono in Hj. inversion Hj. }
  split; [exact NE|]. split; [|split; vm_compute; reflexivity].
  apply (C09_ls_step_monotone Z 0%Z 1%Z Z.add Z.mul Z.sub Z.opp Zth Z.le Z.le_refl
           (fun x y H => ltac:(lia))
           (fun x y Hx Hy => Z.add_nonneg_nonneg x y Hx Hy) Z.square_nonneg X As 0%nat 1%nat a' a); [cbn; auto|exact NE].
Qed.

(* non-vacuity of (2c)/(2d)/(3): the contracts of the oracles are satisfiable — a concrete 2x2 rank-1 update of mode 0 over Z with an
   exact solve and two different column-scaling oracles (weights 1 and -1); the hypotheses of C09_monotone and C09_scaling_indep
   hold and both runs denote the same model *)
Example C09_contract_example :
  let s := [2; 2]%nat in
  let X := den_dense 0%Z (mkDense s [1; 3; 2; 1]%Z) in
  let mk := fun (U : list (@matrix Z)) (n : nat) => mttkrp_mat 0%Z 1%Z Z.add Z.mul s X U n 1%nat in
  let solve := fun (Y P : @matrix Z) => map (map (fun x => Z.div x (mget 0%Z Y 0%nat 0%nat))) P in
  let scale1 := fun (_ : nat) (A : @matrix Z) => ([1%Z], A) in
  let scale2 := fun (_ : nat) (A : @matrix Z) => ([(-1)%Z], map (map Z.opp) A) in
  let st := mkAls [1%Z] [ [[7]; [7]]; [[1]; [2]] ]%Z [] in
  st_wf Z 1%nat s st /\
  iter_contract Z 0%Z 1%Z Z.add Z.mul mk solve scale1 1%nat X s 1%nat [0%nat] st /\
  iter_hyps Z 0%Z 1%Z Z.add Z.mul 1%nat X X mk mk solve solve scale1 scale2 s 1%nat [0%nat] st st /\
  st_den Z 0%Z 1%Z Z.add Z.mul (als_iter 0%Z 1%Z Z.add Z.mul mk solve scale1 1%nat 1%nat [0%nat] st) [1; 1]%nat = 2%Z /\
  st_den Z 0%Z 1%Z Z.add Z.mul (als_iter 0%Z 1%Z Z.add Z.mul mk solve scale2 1%nat 1%nat [0%nat] st) [1; 1]%nat = 2%Z.
Proof.
  intros s X mk solve scale1 scale2 st.
  assert (NE : forall sc : nat -> @matrix Z -> list Z * @matrix Z,
             normal_eq 0%Z 1%Z Z.add Z.mul s X 0%nat (st_U st) 1%nat
               (fun j r => mget 0%Z (solve (ymat 0%Z 1%Z Z.add Z.mul 0%nat (st_U st) 1%nat) (mk (st_U st) 0%nat)) j r)).
  { intros _ j t Hj Ht. cbn in Hj. destruct t as [|t]; [|inversion Ht as [|? H]; inversion H].
    destruct j as [|[|j]]; [vm_compute; reflexivity | vm_compute; reflexivity |].
    exfalso. do 2 apply Nat.succ_lt_mono in Hj. inversion Hj. }
  assert (C1 : update_contract Z 0%Z 1%Z Z.add Z.mul mk solve scale1 1%nat X s 0%nat st 0%nat).
  { split; [cbn; lia|]. split; [exact (NE scale1)|]. split; [reflexivity|]. split; [reflexivity|].
    intros j r. cbn [fst snd scale1].
    destruct j as [|[|[|j]]]; destruct r as [|[|r]]; vm_compute; try reflexivity;
      repeat (match goal with |- context [match ?x with _ => _ end] => destruct x end); reflexivity. }
  assert (C2 : update_contract Z 0%Z 1%Z Z.add Z.mul mk solve scale2 1%nat X s 0%nat st 0%nat).
  { split; [cbn; lia|]. split; [exact (NE scale2)|]. split; [reflexivity|]. split; [reflexivity|].
    intros j r. cbn [fst snd scale2].
    destruct j as [|[|[|j]]]; destruct r as [|[|r]]; vm_compute; try reflexivity;
      repeat (match goal with |- context [match ?x with _ => _ end] => destruct x end); reflexivity. }
  split; [split; reflexivity|]. split; [exact (conj I (conj C1 I))|]. split.
  - split; [exact I|]. split; [exact C1|]. split; [exact C2|].
    split; [exists (fun _ => 1%Z); intros r Hr; destruct r as [|r]; [reflexivity|lia]|].
    split; [exists (fun _ => (-1)%Z); intros r Hr; destruct r as [|r]; [reflexivity|lia]|].
    split; [|exact I].
    intros b Hb r Hr. destruct r as [|r]; [|lia]. specialize (Hb 0%nat ltac:(lia)). vm_compute in Hb.
    destruct (b 0%nat); try discriminate; reflexivity.
  - split; vm_compute; reflexivity.
Qed.

(* non-vacuity of C09_knorm_gram: a non-symmetric 3x2 rank-2 model over Z: coefMatrix.sum() = sum of squares of the array *)
Example C09_knorm_example :
  let K := mkK [2; -1]%Z [ [[1; 0]; [2; 1]; [0; 3]]; [[1; 2]; [-1; 1]] ]%Z in
  (knormsq_code Z 0%Z Z.add Z.mul K = normsq_den 0%Z Z.add Z.mul [3; 2]%nat (den_k 0%Z 1%Z Z.add Z.mul K) /\
   knormsq_code Z 0%Z Z.add Z.mul K = 82)%Z.
Proof. vm_compute. split; reflexivity. Qed.

(* non-vacuity of (5): a concrete non-symmetric 2x3x2 array held dense, sparse (unsorted stored order) and as a sum of both halves;
   the three branches of tensor.mttkrp (n = 0, interior, last), rank 2: the algorithm models return the MTTKRP matrix of the denotation *)
Example C09_holder_example :
  let s := [2; 3; 2]%nat in
  let X := mkDense s [1; -2; 3; 0; 5; 4; -1; 2; 0; 7; -3; 1]%Z in
  let S := mkSp s [[1; 2; 1]; [0; 0; 0]; [1; 0; 1]; [0; 1; 0]]%nat [1; 1; 2; 3]%Z in
  let U := [ [[1; 0]; [2; 1]]; [[1; 2]; [-1; 1]; [0; 3]]; [[2; 1]; [1; -1]] ]%Z in
  (forall n, n < 3 -> mk_dense Z 0%Z Z.add Z.mul 2 X U n = mttkrp_mat 0%Z 1%Z Z.add Z.mul s (den_dense 0%Z X) U n 2) /\
  (forall n, n < 3 -> mk_sparse Z 0%Z 1%Z Z.add Z.mul 2 S U n = mttkrp_mat 0%Z 1%Z Z.add Z.mul s (den_sp 0%Z S) U n 2) /\
  mk_dense Z 0%Z Z.add Z.mul 2 X U 1 = [[-3; -4]; [20; -7]; [25; 3]]%Z /\
  mk_sum Z 0%Z Z.add 2 s [mk_dense Z 0%Z Z.add Z.mul 2 X; mk_sparse Z 0%Z 1%Z Z.add Z.mul 2 S] U 1
  = mttkrp_mat 0%Z 1%Z Z.add Z.mul s (den_sum 0%Z Z.add [den_dense 0%Z X; den_sp 0%Z S]) U 1 2.
Proof.
  intros s X S U. split; [|split; [|split]].
  - intros n Hn. destruct n as [|[|[|n]]]; try lia; vm_compute; reflexivity.
  - intros n Hn. destruct n as [|[|[|n]]]; try lia; vm_compute; reflexivity.
  - vm_compute. reflexivity.
  - vm_compute. reflexivity.
Qed.

(* ... and the code-level contract is satisfiable: the 2x2 rank-1 update of C09_contract_example with tensor.mttkrp's algorithm as mk *)
Example C09_code_contract_example :
  let s := [2; 2]%nat in
  let X := mkDense s [1; 3; 2; 1]%Z in
  let mk := mk_dense Z 0%Z Z.add Z.mul 1 X in
  let solve := fun (Y P : @matrix Z) => map (map (fun x => Z.div x (mget 0%Z Y 0%nat 0%nat))) P in
  let scale := fun (_ : nat) (A : @matrix Z) => ([1%Z], A) in
  let st := mkAls [1%Z] [ [[7]; [7]]; [[1]; [2]] ]%Z [] in
  wf_dense X /\ st_wf Z 1%nat s st /\
  iter_code_contract Z 0%Z 1%Z Z.add Z.mul 1 solve scale s mk (good_dense Z 1) 1 [0%nat] st /\
  st_den Z 0%Z 1%Z Z.add Z.mul (als_iter 0%Z 1%Z Z.add Z.mul mk solve scale 1%nat 1%nat [0%nat] st) [1; 1]%nat = 2%Z.
Proof.
  intros s X mk solve scale st.
  split; [reflexivity|]. split; [split; reflexivity|]. split; [|vm_compute; reflexivity].
  split; [exact I|]. split; [|exact I].
  split; [cbn; lia|]. split; [repeat constructor|].
  split.
  { intros j t Hj Ht. cbn in Hj. destruct t as [|t]; [|lia].
    destruct j as [|[|j]]; [vm_compute; reflexivity | vm_compute; reflexivity | lia]. }
  split; [reflexivity|]. split; [reflexivity|].
  intros j r. cbn [fst snd scale].
  destruct j as [|[|[|j]]]; destruct r as [|[|r]]; vm_compute; try reflexivity;
    repeat (match goal with |- context [match ?x with _ => _ end] => destruct x end); reflexivity.
Qed.

(* non-vacuity of (6): sign fixing on a 2x2 / 2x2 rank-2 model whose first component has two negative columns (both flipped) and whose
   second has one (left alone): squared column norms 5, 1 / 10, 13 before and after *)
Example C09_fixsigns_example :
  let negcol := fun l : list Z => Z.ltb (fold_right (fun x m => if Z.ltb (Z.abs m) (Z.abs x) then x else m) 0%Z l) 0 in
  let K := mkK [3; 2]%Z [ [[-2; 1]; [1; 0]]; [[-3; -3]; [1; 2]] ]%Z in
  let K' := k_fixsigns 0%Z 1%Z Z.mul Z.opp negcol K in
  kfactors K' = [ [[2; 1]; [-1; 0]]; [[3; -3]; [-1; 2]] ]%Z /\
  map (fun n => map (fun r => let c := col 0%Z (nth n (kfactors K') []) r in dot 0%Z Z.add Z.mul c c) [0; 1]%nat) [0; 1]%nat
  = [[5; 1]; [10; 13]]%Z.
Proof. vm_compute. split; reflexivity. Qed.

(* non-vacuity of (7): a 2x3 rank-2 start drawn from the stream 1, 2, 3, ...: mode 0 takes numbers 1-4, mode 1 numbers 5-10 *)
Example C09_init_random_example :
  init_random 1%Z [2; 3]%nat 2 [1; 2; 3; 4; 5; 6; 7; 8; 9; 10; 11; 12]%Z
  = mkK [1; 1]%Z [ [[1; 2]; [3; 4]]; [[5; 6]; [7; 8]; [9; 10]] ]%Z /\
  snd (draw_factors [2; 3]%nat 2 [1; 2; 3; 4; 5; 6; 7; 8; 9; 10; 11; 12]%Z) = [11; 12]%Z.
Proof. vm_compute. split; reflexivity. Qed.

(* wave 4 non-vacuity: the Tucker holder on a concrete non-symmetric instance (core 1 x 2, factors 2 x 1 and 3 x 2, rank-2 factor list) *)
Example C09_holder_tucker_example :
  let T := mkT (mkDense [1; 2]%nat [2; -1]%Z) [[[1]; [2]]; [[1; 0]; [0; 1]; [1; 1]]]%Z in
  let U := [[[1; 2]; [3; -1]]; [[2; 1]; [1; 0]; [-1; 3]]]%Z in
  mk_tucker Z 0%Z Z.add Z.mul 2 T U 0 = mttkrp_mat 0%Z 1%Z Z.add Z.mul (tshape T) (den_t 0%Z 1%Z Z.add Z.mul T) U 0 2 /\
  mk_tucker Z 0%Z Z.add Z.mul 2 T U 1 = mttkrp_mat 0%Z 1%Z Z.add Z.mul (tshape T) (den_t 0%Z 1%Z Z.add Z.mul T) U 1 2 /\
  mk_tucker Z 0%Z Z.add Z.mul 2 T U 0 = [[2; 5]; [4; 10]]%Z.
Proof. vm_compute. repeat split; reflexivity. Qed.
