(* Proofs/NpZProofs.v — characterising lemmas for the Np/NpZ primitives. *)
From Coq Require Import List ZArith Arith Bool Lia Permutation Sorted.
From PV Require Import Base.Index Np.NpZ.
Import ListNotations.
Local Open Scope Z_scope.

Definition zs (l : list nat) : vec := map Z.of_nat l.
Definition zm (m : list (list nat)) : mat := map zs m.

Lemma zs_length l : length (zs l) = length l.
Proof. apply map_length. Qed.

Lemma zprod_zs s : zprod (zs s) = Z.of_nat (size s).
Proof.
  induction s as [|d s IH]; [reflexivity|]. cbn [zs map zprod fold_right].
  change (fold_right Z.mul 1 (map Z.of_nat s)) with (zprod (zs s)). rewrite IH, size_cons. lia.
Qed.

(* ---- ravel / unravel against Base.Index ---- *)

Lemma ravelF_nat s i : inb s i = true -> ravelF (zs s) (zs i) = Ok (Z.of_nat (sub2ind s i)).
Proof.
  revert i; induction s as [|d s IH]; intros [|x i] H; cbn [inb] in H; try discriminate; [reflexivity|].
  apply andb_true_iff in H as [Hx Hi]. apply Nat.ltb_lt in Hx.
  cbn [zs map ravelF sub2ind]. fold (zs s) (zs i).
  destruct (Z.ltb_spec (Z.of_nat x) 0); [lia|]. destruct (Z.leb_spec (Z.of_nat d) (Z.of_nat x)); [lia|].
  cbn [orb]. rewrite (IH _ Hi). cbn [bind]. f_equal. lia.
Qed.

Lemma ravelF_out s i : inb s i = false -> ravelF (zs s) (zs i) = Err.
Proof.
  revert i; induction s as [|d s IH]; intros [|x i] H; cbn [inb] in H; try discriminate; try reflexivity.
  cbn [zs map ravelF]. fold (zs s) (zs i).
  destruct (Z.ltb_spec (Z.of_nat x) 0); [lia|]. destruct (Z.leb_spec (Z.of_nat d) (Z.of_nat x)); [reflexivity|].
  cbn [orb]. apply andb_false_iff in H as [H|H].
  - apply Nat.ltb_ge in H. lia.
  - now rewrite (IH _ H).
Qed.

Lemma unravelF_nat s k : unravelF (zs s) (Z.of_nat k) = zs (ind2sub s k).
Proof.
  revert k; induction s as [|d s IH]; intros k; [reflexivity|].
  cbn [zs map unravelF ind2sub]. fold (zs s).
  rewrite <- Nat2Z.inj_mod, <- Nat2Z.inj_div, IH. reflexivity.
Qed.

Lemma mapM_ok {A B} (f : A -> res B) (g : A -> B) l :
  (forall a, In a l -> f a = Ok (g a)) -> mapM f l = Ok (map g l).
Proof.
  induction l as [|a l IH]; intros H; [reflexivity|]. cbn [mapM map].
  rewrite (H a) by (cbn; auto). cbn [bind]. rewrite IH by (intros; apply H; cbn; auto). reflexivity.
Qed.

Lemma mapM_err {A B} (f : A -> res B) l : (exists a, In a l /\ f a = Err) -> mapM f l = Err.
Proof.
  induction l as [|a l IH]; intros (b & Hb & E); [contradiction|]. cbn [mapM].
  destruct Hb as [->|Hb]; [now rewrite E|].
  destruct (f a); [|reflexivity]. cbn [bind]. rewrite IH by eauto. reflexivity.
Qed.

(* ---- sorting ---- *)

Definition le1 (p q : Z * Z) : Prop := fst p <= fst q.

Lemma ins_pair_perm p l : Permutation (ins_pair p l) (p :: l).
Proof.
  induction l as [|q r IH]; cbn; [apply Permutation_refl|].
  destruct (fst p <=? fst q); [apply Permutation_refl|].
  eapply perm_trans; [apply perm_skip, IH|apply perm_swap].
Qed.

Lemma isort_pairs_perm l : Permutation (isort_pairs l) l.
Proof.
  induction l as [|p l IH]; cbn; [constructor|].
  eapply perm_trans; [apply ins_pair_perm|]. now apply perm_skip.
Qed.

Lemma ins_pair_sorted p l : Sorted le1 l -> Sorted le1 (ins_pair p l).
Proof.
  induction l as [|q r IH]; intros Hs; cbn; [repeat constructor|].
  destruct (Z.leb_spec (fst p) (fst q)) as [Hlt|Hge].
  - constructor; [exact Hs|constructor; unfold le1; lia].
  - inversion Hs as [|? ? Hr Hhd]; subst. constructor; [auto|].
    destruct r as [|q' r']; cbn.
    + constructor. unfold le1. lia.
    + destruct (Z.leb_spec (fst p) (fst q')); constructor; unfold le1; try lia.
      inversion Hhd; subst. auto.
Qed.

Lemma isort_pairs_sorted l : Sorted le1 (isort_pairs l).
Proof. induction l as [|p l IH]; cbn; [constructor|]. now apply ins_pair_sorted. Qed.

Lemma tagged_length l : length (tagged l) = length l.
Proof. unfold tagged. rewrite combine_length, map_length, seq_length. lia. Qed.

Lemma in_tagged l p : In p (tagged l) -> exists k, (k < length l)%nat /\ snd p = Z.of_nat k /\ fst p = nth k l 0.
Proof.
  unfold tagged. intros H. destruct p as [x t].
  apply (In_nth _ _ (0, 0)) in H as (k & Hk & E).
  rewrite combine_length, map_length, seq_length in Hk.
  rewrite combine_nth in E by (now rewrite map_length, seq_length).
  inversion E; subst. exists k. split; [lia|]. cbn. split; auto.
  rewrite (nth_indep _ 0 (Z.of_nat 0)) by (rewrite map_length, seq_length; lia).
  rewrite map_nth, seq_nth by lia. reflexivity.
Qed.

Lemma np_argsort_length l : length (np_argsort l) = length l.
Proof.
  unfold np_argsort. rewrite map_length.
  rewrite (Permutation_length (isort_pairs_perm (tagged l))). apply tagged_length.
Qed.

Lemma znth_nat {A} (d : A) l k : znth d l (Z.of_nat k) = nth k l d.
Proof.
  unfold znth. destruct (Z.ltb_spec (Z.of_nat k) 0); [lia|].
  destruct (Z.ltb_spec (Z.of_nat k) 0); [lia|]. now rewrite Nat2Z.id.
Qed.

(* a[np.argsort(a)] = sorted a *)
Lemma take_argsort l : np_take 0 l (np_argsort l) = np_sort l.
Proof.
  unfold np_take, np_argsort, np_sort. rewrite map_map. apply map_ext_in.
  intros p Hp. eapply Permutation_in in Hp; [|apply isort_pairs_perm].
  apply in_tagged in Hp as (k & Hk & Hs & Hf). rewrite Hs, znth_nat. now symmetry.
Qed.

Lemma map_fst_combine {A B} (l : list A) (l' : list B) : length l = length l' -> map fst (combine l l') = l.
Proof. revert l'; induction l as [|a l IH]; intros [|b l'] H; cbn in *; try discriminate; auto. f_equal; auto. Qed.
Lemma map_snd_combine {A B} (l : list A) (l' : list B) : length l = length l' -> map snd (combine l l') = l'.
Proof. revert l'; induction l as [|a l IH]; intros [|b l'] H; cbn in *; try discriminate; auto. f_equal; auto. Qed.

Lemma fst_tagged l : map fst (tagged l) = l.
Proof.
  unfold tagged. rewrite map_fst_combine; auto. now rewrite map_length, seq_length.
Qed.

Lemma np_sort_perm l : Permutation (np_sort l) l.
Proof.
  unfold np_sort. rewrite <- (fst_tagged l) at 2. apply Permutation_map, isort_pairs_perm.
Qed.

Lemma np_sort_sorted l : Sorted Z.le (np_sort l).
Proof.
  unfold np_sort. generalize (isort_pairs_sorted (tagged l)). generalize (isort_pairs (tagged l)).
  induction l0 as [|p r IH]; intros Hs; cbn; [constructor|].
  inversion Hs as [|? ? Hr Hhd]; subst. constructor; auto.
  destruct r as [|q r']; cbn; constructor. inversion Hhd; subst. auto.
Qed.

(* np.argsort returns a permutation of 0..n-1 *)
Lemma np_argsort_perm l : Permutation (np_argsort l) (map Z.of_nat (seq 0 (length l))).
Proof.
  unfold np_argsort. eapply perm_trans; [apply Permutation_map, isort_pairs_perm|].
  unfold tagged. rewrite map_snd_combine; [apply Permutation_refl|]. now rewrite map_length, seq_length.
Qed.

(* ---- unique / setdiff ---- *)

Lemma ins_uniq_lt x l : (forall y, In y l -> x < y) -> ins_uniq x l = x :: l.
Proof.
  destruct l as [|y r]; intros H; [reflexivity|]. cbn.
  destruct (Z.ltb_spec x y); [reflexivity|]. specialize (H y (or_introl eq_refl)). lia.
Qed.

Lemma np_unique_sorted l : StronglySorted Z.lt l -> np_unique l = l.
Proof.
  induction 1 as [|x l Hs IH Hall]; [reflexivity|]. cbn [np_unique fold_right].
  change (fold_right ins_uniq [] l) with (np_unique l). rewrite IH.
  apply ins_uniq_lt. intros y Hy. rewrite Forall_forall in Hall. auto.
Qed.

Lemma np_arange_sorted a b : StronglySorted Z.lt (np_arange a b).
Proof.
  unfold np_arange. generalize (Z.to_nat (b - a)) as n. intros n.
  assert (G : forall n s, StronglySorted Z.lt (map (fun k => a + Z.of_nat k) (seq s n))).
  { induction n0 as [|m IH]; intros s; cbn; constructor; auto.
    rewrite Forall_forall. intros y Hy. apply in_map_iff in Hy as (k & <- & Hk). apply in_seq in Hk. lia. }
  apply G.
Qed.

Lemma in_np_arange a b x : In x (np_arange a b) <-> a <= x < b.
Proof.
  unfold np_arange. rewrite in_map_iff. split.
  - intros (k & <- & Hk). apply in_seq in Hk. lia.
  - intros H. exists (Z.to_nat (x - a)). split; [lia|]. apply in_seq. lia.
Qed.

Lemma zmem_spec x l : zmem x l = true <-> In x l.
Proof.
  unfold zmem. rewrite existsb_exists. split.
  - intros (y & Hy & E). apply Z.eqb_eq in E. now subst.
  - intros H. exists x. split; auto. apply Z.eqb_refl.
Qed.

(* np.setdiff1d(np.arange(0,N), e) = the increasing list of modes not excluded *)
Lemma setdiff_arange N e :
  np_setdiff1d (np_arange 0 N) e = filter (fun x => negb (zmem x e)) (np_arange 0 N).
Proof. unfold np_setdiff1d. now rewrite np_unique_sorted by apply np_arange_sorted. Qed.

Lemma np_all_isin e l : np_all (np_isin e l) = true <-> (forall x, In x e -> In x l).
Proof.
  unfold np_all, np_isin. rewrite forallb_forall. split.
  - intros H x Hx. apply zmem_spec. apply (H (zmem x l)). apply in_map_iff. eauto.
  - intros H b Hb. apply in_map_iff in Hb as (x & <- & Hx). apply zmem_spec. auto.
Qed.

Lemma np_any_lt d c : np_any (np_lt_s d c) = true <-> exists x, In x d /\ x < c.
Proof.
  unfold np_any, np_lt_s. rewrite existsb_exists. split.
  - intros (b & Hb & ->). apply in_map_iff in Hb as (x & E & Hx). apply Z.ltb_lt in E. eauto.
  - intros (x & Hx & Hlt). exists true. split; auto. apply in_map_iff. exists x. split; auto. now apply Z.ltb_lt.
Qed.

(* ---- np.unique: strictly increasing, same members, and it keeps the length exactly for duplicate-free input ---- *)

Lemma ins_uniq_in x y l : In y (ins_uniq x l) <-> y = x \/ In y l.
Proof.
  induction l as [|z l IH]; cbn; [intuition|].
  destruct (Z.ltb_spec x z); [cbn; intuition|].
  destruct (Z.eqb_spec x z) as [->|Hne]; [cbn; intuition|].
  cbn. rewrite IH. intuition.
Qed.

Lemma ins_uniq_sorted x l : StronglySorted Z.lt l -> StronglySorted Z.lt (ins_uniq x l).
Proof.
  induction 1 as [|z l Hs IH Hall]; cbn; [repeat constructor|].
  destruct (Z.ltb_spec x z).
  - constructor; [constructor; auto|]. constructor; auto.
    rewrite Forall_forall in *. intros y Hy. specialize (Hall y Hy). lia.
  - destruct (Z.eqb_spec x z) as [->|Hne]; [constructor; auto|].
    constructor; auto. rewrite Forall_forall in *. intros y Hy. apply ins_uniq_in in Hy as [->|Hy]; [lia|auto].
Qed.

Lemma np_unique_strict l : StronglySorted Z.lt (np_unique l).
Proof. induction l as [|x l IH]; cbn; [constructor|]. now apply ins_uniq_sorted. Qed.

Lemma np_unique_in x l : In x (np_unique l) <-> In x l.
Proof.
  induction l as [|y l IH]; cbn; [tauto|]. change (fold_right ins_uniq [] l) with (np_unique l).
  rewrite ins_uniq_in, IH. intuition.
Qed.

Lemma ins_uniq_length x l : StronglySorted Z.lt l ->
  length (ins_uniq x l) = if zmem x l then length l else S (length l).
Proof.
  induction 1 as [|z l Hs IH Hall]; cbn [ins_uniq zmem existsb length]; [reflexivity|].
  fold (zmem x l). rewrite Forall_forall in Hall.
  destruct (Z.ltb_spec x z).
  - destruct (Z.eqb_spec x z); [lia|]. cbn [orb length].
    destruct (zmem x l) eqn:E; [|reflexivity]. apply zmem_spec in E. specialize (Hall x E). lia.
  - destruct (Z.eqb_spec x z) as [->|Hne]; [reflexivity|]. cbn [orb length]. rewrite IH.
    destruct (zmem x l); reflexivity.
Qed.

Lemma np_unique_length_le l : (length (np_unique l) <= length l)%nat.
Proof.
  induction l as [|x l IH]; cbn [np_unique fold_right length]; [lia|].
  change (fold_right ins_uniq [] l) with (np_unique l).
  rewrite ins_uniq_length by apply np_unique_strict. destruct (zmem x (np_unique l)); lia.
Qed.

Lemma np_unique_length_nodup l : length (np_unique l) = length l <-> NoDup l.
Proof.
  induction l as [|x l IH]; cbn [np_unique fold_right length]; [split; [constructor|reflexivity]|].
  change (fold_right ins_uniq [] l) with (np_unique l).
  rewrite ins_uniq_length by apply np_unique_strict.
  pose proof (np_unique_length_le l) as Hle.
  destruct (zmem x (np_unique l)) eqn:E.
  - split; [lia|]. intros Hn. inversion Hn as [|? ? Hx _]; subst.
    apply zmem_spec in E. apply (proj1 (np_unique_in x l)) in E. contradiction.
  - split.
    + intros H. constructor; [|apply IH; lia]. intros Hin. apply (proj2 (np_unique_in x l)) in Hin. apply zmem_spec in Hin. congruence.
    + intros Hn. inversion Hn; subst. f_equal. now apply IH.
Qed.

Lemma strict_sorted_nodup l : StronglySorted Z.lt l -> NoDup l.
Proof.
  induction 1 as [|x l Hs IH Hall]; constructor; auto.
  rewrite Forall_forall in Hall. intros Hin. specialize (Hall x Hin). lia.
Qed.
