(* Model/W4Ktensor.v — hand references for the ktensor methods that the translator generates into Gen/GenKtensor4.v
   (permute, extract, arrange, tovec, update), written directly against the Python source as closed expressions
   (no loops, no running state), on the record ktz of Np/NpZ3.v.  Proofs/W4Ktensor.v proves Gen.f = H_f; the laws of
   Props/W4C08.v are then statements about the generated text.  The conversion to the shared record [ktensor Z] of
   Model/Repr.v (on which Model/C08Kruskal.v defines k_permute / k_gather / k_arrange ...) is at the end. *)
From Coq Require Import List ZArith Arith Bool Lia.
From PV Require Import Np.NpZ Np.NpZ2 Np.NpZ3 Np.NpZ3c Np.NpZ3d Np.NpZ3e Np.NpZ4 Model.Repr.
Import ListNotations.
Local Open Scope Z_scope.

(* weights[p], A[:, p] for every factor *)
Definition H_gather_ok (k : ktz) (p : vec) : bool :=
  np_take_ok (kt_weights k) p && forallb (fun f => np_cols_ok f p) (kt_factors k).
Definition H_gather (k : ktz) (p : vec) : ktz :=
  mkkt (np_take 0 (kt_weights k) p) (map (fun f => np_cols f p) (kt_factors k)).

(* ktensor.permute(order): order must be a permutation of range(ndims); the factors are picked in that order *)
Definition H_permute (self : ktz) (order : vec) : res ktz :=
  if zlist_eqb (np_arange 0 (zlen (kt_factors self))) (np_sort order) then
    let fs := np_take [] (kt_factors self) order in
    if kt_make_ok fs (kt_weights self) then Ok (mkkt (kt_weights self) fs) else Err
  else Err.

(* ktensor.extract(idx): None -> copy; int -> that component; list / array -> those components (1 <= count <= R, every
   index in range(R): no negative wrap); anything else rejected *)
Definition H_components (idx : pyidx) : option vec :=
  match idx with IxInt k => Some [k] | IxSeq l | IxArr l => Some l | _ => None end.
Definition H_extract (self : ktz) (idx : pyidx) : res ktz :=
  match idx with
  | IxNone => Ok self
  | _ =>
    match H_components idx with
    | None => Err
    | Some c =>
      let R := zlen (kt_weights self) in
      if (zlen c =? 0) || (zlen c >? R) then Err
      else if negb (forallb (fun x => (0 <=? x) && (x <? R)) c) then Err
      else if negb (H_gather_ok self c) then Err
      else if kt_make_ok (kt_factors (H_gather self c)) (kt_weights (H_gather self c)) then Ok (H_gather self c) else Err
    end
  end.

(* ktensor.arrange(weight_factor, permutation); `normalize_` stands for self.normalize() (updates self, returns it) *)
Definition H_absorb (k : ktz) (n : Z) : res ktz :=
  if idx_ok (kt_factors k) n && np_mul_cols_ok (znth [] (kt_factors k) n) (kt_weights k)
  then Ok (mkkt (map (fun _ => 1) (kt_weights k)) (np_set (kt_factors k) n (np_mul_cols (znth [] (kt_factors k) n) (kt_weights k))))
  else Err.
Definition H_arrange (normalize_ : ktz -> res ktz) (self : ktz) (weight_factor : option Z) (permutation : pyidx) : res ktz :=
  if negb (ix_is_none permutation) && is_some weight_factor then Err
  else if ix_is_list permutation || ix_is_arr permutation then
    let p := ix_seq permutation in
    if zlen p =? zlen (kt_weights self) then
      if zlist_eqb (np_sort p) (np_arange 0 (zlen (kt_weights self))) then
        if H_gather_ok self p then Ok (H_gather self p) else Err
      else Err
    else Err
  else
    bind (normalize_ self) (fun k1 =>
      let p := rev (np_argsort (kt_weights k1)) in
      if H_gather_ok k1 p then
        match weight_factor with
        | None => Ok (H_gather k1 p)
        | Some n => H_absorb (H_gather k1 p) n
        end
      else Err).

(* ---- conversion to the shared Kruskal record of Model/Repr.v (nat-indexed; Model/C08Kruskal.v works there) ---- *)
Definition to_K (k : ktz) : ktensor Z := mkK (kt_weights k) (kt_factors k).
Definition nats (l : vec) : list nat := map Z.to_nat l.
