(* Proofs/C10Kernel.v — the kernel contracts of Props/C10W5.v (excl, Z x_n U_n^T) are the real instance of the value-generic model
   Model/C10KernelCheck.v that the correspondence op `tals_kernels` evaluates in Qc against pyttb's tensor.ttm as tucker_als calls it. *)
From Coq Require Import List Arith Bool Reals.
From PV Require Import Base.Index Np.Array Np.NpR Model.Sparse Model.Repr Model.C10Tucker Model.C10KernelCheck Proofs.C10GenT.
Import ListNotations.

Lemma ttm_skip_is_model Ms : forall (Z : dense R) m n, ttm_skip Z m Ms n = ttm_skip_g 0%R Rplus Rmult Z m Ms n.
Proof. induction Ms as [|M Ms IH]; intros Z m n; cbn [ttm_skip ttm_skip_g]; [reflexivity|]. apply IH. Qed.

Theorem excl_is_model (X : dense R) (Us : list (@matrix R)) (n : nat) : excl X Us n = excl_g 0%R Rplus Rmult X Us n.
Proof. unfold excl, excl_g. apply ttm_skip_is_model. Qed.

Theorem core_is_model (Z : dense R) (Us : list (@matrix R)) (n : nat) :
  ttm 0%R Rplus Rmult Z n (mtrans 0%R (nth n Us []) (nrows (nth n Us [])) (ncols (nth n Us []))) = core_g 0%R Rplus Rmult Z Us n.
Proof. reflexivity. Qed.

(* non-vacuity on a non-symmetric instance over Z-valued rationals is the correspondence itself; over R: [[3,0,0],[0,1,0]] x_0 [1 0] *)
Example excl_example : dshape (excl Proofs.C10Rayleigh.exX Proofs.C10Rayleigh.exUs 1) = [1; 3].
Proof. reflexivity. Qed.
