(* Props/C14.v — leading mode-n vectors (nvecs). Only statements, `exact`, Print Assumptions.
   Partial by design (DESIGN §C14): the eigen solvers are certificate-checked oracles in the correspondence. *)
From Coq Require Import List Arith Bool Reals Ring Permutation Sorted.
From PV Require Import Base.Index Base.Sum Np.Array Model.Sparse Model.Repr Np.NpR Model.C14Nvecs Model.C14Gram Proofs.C14Sums
                       Proofs.C14Split Proofs.C14GramSp Proofs.C14GramT Proofs.C14Post.
Import ListNotations.

Section C14_ring.
Variable V : Type.
Variables (v0 v1 : V) (vadd vmul vsub : V -> V -> V) (vopp : V -> V).
Hypothesis Vring : ring_theory v0 v1 vadd vmul vsub vopp (@eq V).

(* dense: (Xn Xn^T)[a,b] = sum_{i : rest} X(a,i) X(b,i)  — for every shape, mode and ring *)
Theorem C14_gram_dense : forall (X : dense V) (n a b : nat),
  a < nth n (dshape X) 0 -> b < nth n (dshape X) 0 ->
  mget v0 (gram_dense_impl v0 vadd vmul X n) a b = gram_spec v0 vadd vmul (dshape X) (den_dense v0 X) n a b.
Proof. exact (gram_dense V v0 vadd vmul). Qed.

(* Kruskal: (A_n (l l^T o o_{m<>n} A_m^T A_m) A_n^T)[a,b] = the same function of the denotation den_k *)
Theorem C14_gram_kruskal : forall (K : ktensor V) (n a b : nat),
  n < length (kfactors K) -> a < nrows (nth n (kfactors K) []) -> b < nrows (nth n (kfactors K) []) ->
  mget v0 (gram_k_impl v0 vadd vmul K n) a b = gram_spec v0 vadd vmul (kshape K) (den_k v0 v1 vadd vmul K) n a b.
Proof. exact (gram_kruskal V v0 v1 vadd vmul vsub vopp Vring). Qed.

(* sparse: the COO product sptensor.nvecs forms from the stored nonzeros (row key = F-order linear index of the other modes'
   subscripts, column = mode-n subscript) = the same function of the denotation den_sp — any stored order *)
Variable isz : V -> bool.
Theorem C14_gram_sparse : forall (S : sparse V) (n a b : nat),
  wf_sp isz S -> n < length (sshape S) -> a < nth n (sshape S) 0 -> b < nth n (sshape S) 0 ->
  mget v0 (gram_sp_impl v0 vadd vmul S n) a b = gram_spec v0 vadd vmul (sshape S) (den_sp v0 S) n a b.
Proof. exact (gram_sparse V v0 v1 vadd vmul vsub vopp Vring isz). Qed.

(* Tucker: Y = H_(n) (U_n G_(n))^T with H = core x_m (U_m^T U_m) (m <> n) x_n U_n = the same function of the denotation den_t,
   for every core shape (factor m has as many columns as the core's mode m) *)
Theorem C14_gram_tucker : forall (T : ttensor V) (n a b : nat),
  wf_tucker V T -> n < length (tfactors T) ->
  a < nrows (nth n (tfactors T) []) -> b < nrows (nth n (tfactors T) []) ->
  mget v0 (gram_t_impl v0 v1 vadd vmul T n) a b = gram_spec v0 vadd vmul (tshape T) (den_t v0 v1 vadd vmul T) n a b.
Proof. exact (gram_tucker V v0 v1 vadd vmul vsub vopp Vring). Qed.
End C14_ring.
Print Assumptions C14_gram_dense.
Print Assumptions C14_gram_kruskal.
Print Assumptions C14_gram_sparse.
Print Assumptions C14_gram_tucker.

Example C14_example_gram_sparse :
  let S := mkSp [2; 3; 2] [[1; 2; 0]; [0; 0; 1]; [1; 0; 0]; [0; 2; 0]] [5; 2; 3; 4] in
  gram_sp_impl 0 Nat.add Nat.mul S 1 = [[13; 0; 15]; [0; 0; 0]; [15; 0; 41]] /\
  gram_sp_impl 0 Nat.add Nat.mul S 0 = [[20; 20]; [20; 34]] /\
  gram_matrix 0 Nat.add Nat.mul [2; 3; 2] (den_sp 0 S) 0 = [[20; 20]; [20; 34]] /\
  gram_matrix 0 Nat.add Nat.mul [2; 3; 2] (den_sp 0 S) 1 = [[13; 0; 15]; [0; 0; 0]; [15; 0; 41]].
Proof. exact gram_sparse_example. Qed.
Example C14_example_gram_tucker :
  let T := mkT (mkDense [2; 1; 2] [1; 2; 0; 3]) [[[1; 0]; [2; 1]; [0; 1]]; [[2]; [1]]; [[1; 1]; [0; 2]]] in
  gram_t_impl 0 1 Nat.add Nat.mul T 0 = gram_matrix 0 Nat.add Nat.mul (tshape T) (den_t 0 1 Nat.add Nat.mul T) 0 /\
  gram_t_impl 0 1 Nat.add Nat.mul T 1 = gram_matrix 0 Nat.add Nat.mul (tshape T) (den_t 0 1 Nat.add Nat.mul T) 1 /\
  gram_t_impl 0 1 Nat.add Nat.mul T 2 = gram_matrix 0 Nat.add Nat.mul (tshape T) (den_t 0 1 Nat.add Nat.mul T) 2 /\
  gram_t_impl 0 1 Nat.add Nat.mul T 1 = [[588; 294]; [294; 147]].
Proof. exact gram_tucker_example. Qed.

Example C14_example_gram :
  gram_k_impl 0%nat Nat.add Nat.mul (mkK [2; 1] [[[1; 0]; [1; 2]]; [[3; 1]; [0; 1]; [1; 0]]]) 0 = [[40; 52]; [52; 72]]
  /\ gram_dense_impl 0%nat Nat.add Nat.mul (mkDense [2; 3] [6; 8; 0; 2; 2; 2]) 0 = [[40; 52]; [52; 72]].
Proof. split; reflexivity. Qed.

Local Open Scope R_scope.
(* selection: for ANY solver output (w, columns) the code returns the columns of the r largest |w| in decreasing order *)
Theorem C14_postprocess : forall (w : list R) (cols : list (list R)) (r : nat),
  let p := argsort_desc_abs Rabs Rltb w in
  Permutation p (seq 0 (length w)) /\
  StronglySorted (desc_abs w) p /\
  (forall k k', In k (firstn r p) -> In k' (skipn r p) -> Rabs (nth k' w 0) <= Rabs (nth k w 0)) /\
  postprocess 0 Rabs Ropp Rltb w cols r false = map (fun k => nth k cols []) (firstn r p) /\
  postprocess 0 Rabs Ropp Rltb w cols r true = map (fun k => flip_col 0 Rabs Ropp Rltb (nth k cols [])) (firstn r p) /\
  length (postprocess 0 Rabs Ropp Rltb w cols r true) = Nat.min r (length w).
Proof. exact postprocess_spec. Qed.
Print Assumptions C14_postprocess.

(* sign rule: the entry of largest magnitude of a flipped column is non-negative and dominates all entries *)
Theorem C14_sign_rule : forall c : list R,
  let c' := flip_col 0 Rabs Ropp Rltb c in
  let i := argmax_abs Rabs Rltb c in
  (c' = c \/ c' = map Ropp c) /\ 0 <= nth i c' 0 /\ forall j, Rabs (nth j c' 0) <= nth i c' 0.
Proof. exact flip_col_spec. Qed.
Print Assumptions C14_sign_rule.

Example C14_example :
  argsort_desc_abs Rabs Rltb [1; -5; 3] = [1; 2; 0]%nat /\ flip_col 0 Rabs Ropp Rltb [1; -2] = [-1; 2].
Proof. exact postprocess_example. Qed.
