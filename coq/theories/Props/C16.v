(* Props/C16.v — export followed by import reproduces the object exactly.
   Only statements, `exact`, Print Assumptions, and concrete Examples (non-vacuity).
   Number texts are abstract: D = doubles, T = number texts, print = what "%.16e" writes, parse = what the
   reader returns; the ONE assumption about them is [parse (print v) = v] (tested bit-for-bit on every double the
   correspondence stream writes through real files). *)
From Coq Require Import String.
From Coq Require Import List Arith ZArith Bool.
From PV Require Import Base.Index Np.Array Model.Sparse Model.Repr Model.C16IO Model.C16Harness Proofs.C16Proofs.
Import ListNotations.

Section C16.
Variables (D T : Type) (d0 : D) (print : D -> T) (parse : T -> D).
Hypothesis parse_print : forall v : D, parse (print v) = v.

(* dense: every shape (any order N, singleton modes), every value list *)
Theorem C16_roundtrip_tensor : forall (b : Z) (X : dense D), wf_dense X ->
  import D T d0 parse b (export D T d0 print b (OTensor X)) = Some (OTensor X).
Proof. exact (roundtrip_tensor D T d0 print parse parse_print). Qed.

(* the value lines of a dense file are the first-index-fastest listing of the tensor: C-order output of the
   fully transposed array (what the code writes) = the F-order data list *)
Theorem C16_dense_layout : forall X : dense D, wf_dense X -> ravelC D d0 (transpose_all D d0 X) = ddata X.
Proof. exact (ravelC_transpose D d0). Qed.

(* sparse: shape, subscripts AND their stored order, values; for every index base b written and read *)
Theorem C16_roundtrip_sptensor : forall (b : Z) (S : sparse D),
  length (ssubs S) = length (svals S) -> Forall (fun i => inb (sshape S) i = true) (ssubs S) ->
  import D T d0 parse b (export D T d0 print b (OSptensor S)) = Some (OSptensor S).
Proof. exact (roundtrip_sptensor D T d0 print parse parse_print). Qed.

(* Kruskal: weights and every factor matrix (I_n x R, non-square included), all ranks, all orders *)
Theorem C16_roundtrip_ktensor : forall (b : Z) (K : ktensor D),
  Forall (fun A => Forall (fun r => length r = krank K) A) (kfactors K) ->
  import D T d0 parse b (export D T d0 print b (OKtensor K)) = Some (OKtensor K).
Proof. exact (roundtrip_ktensor D T d0 print parse parse_print). Qed.

(* matrix (m x n, rows listed): written and re-read in C order *)
Theorem C16_roundtrip_matrix : forall (b : Z) (m n : nat) (A : list (list D)),
  length A = m -> Forall (fun r => length r = n) A ->
  import D T d0 parse b (export D T d0 print b (OMatrix m n A)) = Some (OMatrix m n A).
Proof. exact (roundtrip_matrix D T d0 print parse parse_print). Qed.

(* an np.ndarray that is not 2-way (a vector, a 3-way array, ...): shape and C-order listing *)
Theorem C16_roundtrip_array : forall (b : Z) (s : shape) (c : list D), length c = size s -> length s <> 2 ->
  import D T d0 parse b (export D T d0 print b (OArray s c)) = Some (OArray s c).
Proof. exact (roundtrip_array D T d0 print parse parse_print). Qed.

(* all kinds at once; pyttb's export_data is [export 1] and import_data's default is [import 1] *)
Theorem C16_roundtrip : forall (b : Z) (o : obj D), wf_obj D o ->
  import D T d0 parse b (export D T d0 print b o) = Some o.
Proof. exact (roundtrip D T d0 print parse parse_print). Qed.

(* the file determines the object (no two admissible objects share a file) *)
Theorem C16_export_injective : forall (b : Z) (o1 o2 : obj D), wf_obj D o1 -> wf_obj D o2 ->
  export D T d0 print b o1 = export D T d0 print b o2 -> o1 = o2.
Proof. exact (export_injective D T d0 print parse parse_print). Qed.

(* a file written with base b is read correctly with index_base = b *)
Theorem C16_index_base : forall (b : Z) (S : sparse D), wf_obj D (OSptensor S) ->
  import D T d0 parse b (export D T d0 print b (OSptensor S)) = Some (OSptensor S).
Proof. exact (fun b S => roundtrip D T d0 print parse parse_print b (OSptensor S)). Qed.

(* files carry 1-based subscripts: line 4+k of what export_data writes holds the k-th STORED subscript plus one,
   then the k-th stored value *)
Theorem C16_one_based : forall (S : sparse D) (k : nat),
  length (ssubs S) = length (svals S) -> k < length (ssubs S) ->
  nth (4 + k) (export_lines D T d0 print 1%Z (OSptensor S)) [] =
  map (fun x => Int (Z.of_nat x + 1)) (nth k (ssubs S) []) ++ [Num (print (nth k (svals S) d0))].
Proof. exact (sptensor_line D T d0 print 1%Z). Qed.
End C16.

Print Assumptions C16_roundtrip_tensor.
Print Assumptions C16_dense_layout.
Print Assumptions C16_roundtrip_sptensor.
Print Assumptions C16_roundtrip_ktensor.
Print Assumptions C16_roundtrip_matrix.
Print Assumptions C16_roundtrip_array.
Print Assumptions C16_roundtrip.
Print Assumptions C16_export_injective.
Print Assumptions C16_index_base.
Print Assumptions C16_one_based.

(* ---- non-vacuity: concrete, non-symmetric instances (numbers stand for themselves) ---- *)
Example C16_example_tensor :
  let X := mkDense [2; 3] [10; 11; 12; 13; 14; 15]%Z in
  zexport_lines 1 (OTensor X) =
    [[Word "tensor"]; [Int 2]; [Int 2; Int 3]; [Num 10]; [Num 11]; [Num 12]; [Num 13]; [Num 14]; [Num 15]]%Z
  /\ zimport 1 (zexport 1 (OTensor X)) = Some (OTensor X).
Proof. split; reflexivity. Qed.

Example C16_example_sptensor :
  let S := mkSp [2; 3; 4] [[1; 2; 0]; [0; 0; 3]] [7; 9]%Z in
  zexport_lines 1 (OSptensor S) =
    [[Word "sptensor"]; [Int 3]; [Int 2; Int 3; Int 4]; [Int 2]; [Int 2; Int 3; Int 1; Num 7]; [Int 1; Int 1; Int 4; Num 9]]%Z
  /\ zimport 1 (zexport 1 (OSptensor S)) = Some (OSptensor S)
  /\ zimport 0 (zexport 0 (OSptensor S)) = Some (OSptensor S)
  /\ zimport 0 (zexport 1 (OSptensor S)) = None   (* wrong base: subscripts [2;3;1] do not fit the shape *)
  /\ zimport 2 (zexport 2 (OSptensor S)) = Some (OSptensor S).
Proof. repeat split; reflexivity. Qed.

Example C16_example_ktensor :
  let K := mkK [2; 3]%Z [[[1; 2]; [3; 4]; [5; 6]]; [[7; 8]]]%Z in
  zexport_lines 1 (OKtensor K) =
    [[Word "ktensor"]; [Int 2]; [Int 3; Int 1]; [Int 2]; [Num 2; Num 3];
     [Word "matrix"]; [Int 2]; [Int 3; Int 2]; [Num 1; Num 2]; [Num 3; Num 4]; [Num 5; Num 6];
     [Word "matrix"]; [Int 2]; [Int 1; Int 2]; [Num 7; Num 8]]%Z
  /\ zimport 1 (zexport 1 (OKtensor K)) = Some (OKtensor K).
Proof. split; reflexivity. Qed.

Example C16_example_matrix :
  let A := [[1; 2; 3]; [4; 5; 6]]%Z in
  zexport_lines 1 (OMatrix 2 3 A) =
    [[Word "matrix"]; [Int 2]; [Int 2; Int 3]; [Num 1]; [Num 2]; [Num 3]; [Num 4]; [Num 5]; [Num 6]]%Z
  /\ zimport 1 (zexport 1 (OMatrix 2 3 A)) = Some (OMatrix 2 3 A).
Proof. split; reflexivity. Qed.
