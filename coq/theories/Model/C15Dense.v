(* Model/C15Dense.v — wave 4: the dense symmetrisation algorithms of Model/C15Impl.v executed on the stored CONTAINER
   (shape + F-ordered data list), group after group through a materialised array, exactly as pyttb does
   (data = np.reshape(newdata, self.shape) after every group; Y += ..., Y.data[:] = np.maximum(...) round after round).
   These are the functions the generated correspondence cases evaluate (Model/C15Inst.v instantiates them over Qc);
   Proofs/C15Dense.v proves that the tabulate / den round trip between the steps loses nothing.
   Definitions only. *)
From Coq Require Import List Arith Lia Bool.
From PV Require Import Base.Index Base.Perm Base.Sum Np.Array Model.Repr Model.C15Sym Model.C15Impl.
Import ListNotations.

Section D15.
Context {V : Type} (v0 v1 : V) (vadd vmul : V -> V -> V) (vinv : V -> V) (veqb : V -> V -> bool) (vmax : V -> V -> V).

(* NEW symmetrize: one group on the container; all groups *)
Definition sym_new_step (T : dense V) (g : list nat) : dense V :=
  tabulate (dshape T) (sym_new_group v0 v1 vadd vmul vinv veqb (dshape T) (den_dense v0 T) g).
Definition sym_new_d (T : dense V) (G : list (list nat)) : dense V := fold_left sym_new_step G T.

(* OLD symmetrize: the explicit average, then one materialised array per max-fix round *)
Definition sym_old_d (T : dense V) (G : list (list nat)) : dense V :=
  let s := dshape T in let N := length s in
  fold_left (fun Y p => tabulate s (maxfix_step vmax (den_dense v0 Y) p)) (sym_perms N G)
            (tabulate s (sym_old_avg v0 v1 vadd vmul vinv N (den_dense v0 T) G)).

(* the symmetry tests on the container *)
Definition issym_new_d (T : dense V) (G : list (list nat)) : bool := impl_issym_new veqb (dshape T) (den_dense v0 T) G.
Definition issym_old_d (T : dense V) (G : list (list nat)) : bool := impl_issym_old veqb (dshape T) (den_dense v0 T) G.
End D15.
