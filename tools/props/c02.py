"""C02 — multilinear products equal their definition in every representation (DESIGN §C02).

Every operation of every class is run on generated inputs and its raw result is compared, inside Coq, with the
executable spec of Model/C02Spec.v applied to the denotation of the operand literal (den_dense / den_sp / den_k /
den_t / den_sum).  For the kernels with an algorithm model (Model/C02Dense.v, Model/C02Sparse.v) the model's output is
compared too (raw data / raw weights and factors).  Mode designations (dims / exclude_dims, any order, |dims| or N multiplicands) are resolved
on the harness side by `designate`, independently of tt_dimscheck, for the spec; in addition the raw request is handed to
impl_ttv_req / impl_ttm_req (Model/C02Modes.v), which call the GENERATED tt_dimscheck, and their result is compared with pyttb's."""
import itertools
import math
import random
from fractions import Fraction

from vcheck import Case, gz, gzlist, gnlist, gnmat, gq, gopt
import tgen
from props.c02_util import (X_dense, X_sparse, X_k, X_t, X_sum, shape_of, pdense, pfun, all_subs, mk_obj, mat_np,
                            obs_any, obs_ints, obs_pdense, gden, gobs, gmatch, gvecs, gmat, designate,
                            rand_matrix, rand_vec, rand_k, rand_t, family, rand_sum, degenerate_sparse, relayout, rand_t_struct,
                            sparse_colliding)

PROP = "C02"
LEVEL = "proof"
GEN_UNITS = ["GenUtils", "GenUtils2", "GenUtils3", "GenKernels", "GenKernels3", "GenMethods3"]   # Props/C02.v states C02_dimscheck_align / C02_ttv_dense_req / C02_ttm_dense_req over the generated tt_dimscheck,
                                        # C02_ttt_dense_req / C02_to_tenmat_req_* over the generated gather_wrap_dims
COQ_TARGETS = ["Props/C02.vo", "Props/C02w4.vo", "Props/C02w4b.vo", "Props/C02w5.vo", "Props/C02w5b.vo", "Props/C02w5c.vo", "Props/C02w5d.vo", "Props/C02w5e.vo", "Model/C02Harness.vo", "Model/C02HarnessW4.vo", "Model/C02HarnessW5.vo", "Model/Harness.vo", "Props/W3C02.vo", "Props/W3C02b.vo", "Props/W3Methods3.vo"]
THEOREM_FILES = ["Props/C02.v", "Props/C02w4.v", "Props/C02w4b.v", "Props/C02w5.v", "Props/C02w5b.v", "Props/C02w5c.v", "Props/C02w5d.v", "Props/C02w5e.v", "Props/W3C02.v", "Props/W3C02b.v", "Props/W3Methods3.v"]
COQ_IMPORTS = ("From Coq Require Import List ZArith Bool Arith QArith Qcanon.\n"
               "From PV Require Import Base.Index Base.Perm Base.Sum Np.Array Model.Sparse Model.Repr Model.Harness "
               "Np.NpZ Np.NpZ2 Gen.GenUtils Gen.GenUtils2 Model.C02TenmatReq Model.C02DimsReq Model.C02Spec Model.C02Dense Model.C02Sparse Model.C02Modes Model.C02Kruskal Model.C02SpKernels Model.C02Absorb Model.C02Tenmat Model.C02SpMore Model.C02KruskalMore Model.C02Tucker Model.C02TuckerFull Model.C02Harness Model.C02HarnessW4 Model.C02SpReq Model.C02SumParts Model.C02Reconstruct Model.C02Switch Model.C02MttkrpGen Model.C02Layout Model.C02HarnessW5.\n")
RULE = ("mttkrp/mttkrps additionally on 4-, 5- and 6-way tensors (<= ~200 entries) with skewed and balanced shapes so that every "
        "split index of min_split and Khatri-Rao products of >= 2 matrices occur in each helper; dims orders include cyclic "
        "(non-involutive) ones; otherwise shapes with <= 4 modes / <= 72 entries incl. distinct sizes (2,3,4), singleton modes and 1-way; every non-empty mode "
        "subset under dims (ascending, descending, random order) and exclude_dims, multiplicand lists of length |dims| and N; "
        "operands in dense / sparse / Kruskal / Tucker / sum form built from one random integer array; fill levels on both "
        "sides of the 50% switch; Kruskal MTTKRP operands with non-unit weights; sparse operands with no / exactly one stored entry of several "
        "origins (empty arrays, shape only, exact cancellation (S+T)-T) in every sparse product; multiplicands and Kruskal / Tucker factor matrices "
        "in C / F / strided / transposed-view layouts; factor lists of mixed dtype (int64, float32, float64 with dyadic entries); structured Tucker "
        "operands (repeated / orthonormal unit-length selection columns) on both sides of ttensor.norm's size switch; result containers pinned; "
        "dense operands ENLARGED by assignment (C-ordered data) in every dense kernel and on both sides of innerprod / ttt / mask, Tucker cores grown and kept "
        "by reference; very sparse long-mode operands whose stored entries collide in the result (vector-valued ttv named five ways, mttkrp of every mode, "
        "collapse, ttm); masks without any nonzero (sparse from empty arrays / shape only, dense all-zero) for Kruskal / dense / sparse holders. "
        "Wave 5: ttt FULL and partial contractions of equally shaped operands with REPEATED mode sizes (3x3, 2x2x2, 2x3x2; thorough 3x3x3, 2x2x3) under "
        "EVERY pairing selfdims[k] <-> otherdims[k] (different permutations on the two sides), exhaustively; reconstruct with an empty sample, repeated rows, distinct modes in any order, and (wave 6) the request class of C19-N29 "
        "(negative / out-of-range / repeated modes: rejection demanded once the finding is repaired - status in findings.d/C19.jsonl or the pending patch present in the "
        "tree under test -, the unrepaired code's answer pinned while it is open); a REJECTION stream (contract with negative / out-of-range / equal / unequally sized modes on dense and sparse holders, "
        "sptensor.scale with an ill-shaped tensor / sptensor factor on receivers with and without stored entries and an ill-sized ndarray factor, "
        "collapse / scale with negative / out-of-range / repeated mode lists; mttkrp of every holder class with a non-skipped factor of wrong row count "
        "or different column count, a short / long factor list, a mode outside [0, N), a Kruskal operand of another shape): pyttb must raise and the "
        "request-level model must say Err; wave 6: an ill-sized ndarray scaling factor on receivers WITHOUT stored entry (98f7017), a 1-d ndarray for two listed modes, "
        "ttsv (default algorithm) on non-cubical tensors incl. shapes with shape[0]**ndims entries (2x4x1, 4x2x8) and skip_dim >= ndims (0478ea5), ttsv with skip_dim = ndims - 1; "
        "mttkrp with an ARBITRARY skipped factor (wrong rows / columns: never looked at) as an ordinary request. "
        "non-trivial = more than one cell and a nonzero entry; distinct = distinct (op, arguments)")
EXPLANATION = ("Correspondence compares pyttb's raw result with spec_op applied to the denotation of the operand literal "
               "(exact integers in Z; the norm in Qc) and, for every kernel with an algorithm model, with impl_op as well. Theorems in "
               "Props/C02.v state impl_op = spec_op for all shapes and all values of a commutative ring: dense ttv / ttm (single and list form, "
               "request resolved by the GENERATED tt_dimscheck, also in the caller's own order), dense mttkrp (all branches), Kruskal-operand weight absorption, "
               "dense ttt / collapse (any reducer) / contract / scale / mask via to_tenmat, dense / sparse / Kruskal innerprod and norm, sparse ttv (any mode set), "
               "ttm, collapse, contract, scale, mask and mttkrp, Kruskal ttv (any mode set) and mttkrp, Tucker ttm / ttv / mttkrp, linearity over sums. "
               "Props/C02w4.v / C02w4b.v (wave 4): mttkrp AS CALLED with a Kruskal operand over the GENERATED get_mttkrp_factors for all four holders, ttv AS CALLED "
               "for sparse / Kruskal / Tucker holders and ttm AS CALLED for sparse / Tucker holders over the GENERATED tt_dimscheck in the caller's order, ttsv, Tucker x sparse innerprod, collapse in the "
               "caller's order, mttkrps (C12's byte-level algorithm) in C02's terms. "
               "Props/C02w5.v / C02w5b.v / C02w5c.v (wave 5): sptensor.collapse / scale / contract and tensor.contract AS CALLED (argument checks in front of "
               "the kernels: GENERATED tt_dimscheck, the factor's shape test before the 'nothing stored' return, range / size / distinctness tests) with "
               "acceptance and rejection theorems; sumtensor.innerprod / mttkrp / ttv executed PART BY PART with every part's own algorithm model; "
               "ktensor.innerprod(tensor | sptensor | ttensor) as the component loop over the operand's own ttv; ttensor.reconstruct as called (request test of 9d2314a and row "
               "selection in the model: C02_reconstruct_tucker / _accepts / _rejects); the 50% container switch of sptensor.ttv / contract as a function of the denoted array; dense mttkrp over the GENERATED "
               "pyttb.khatrirao (Props/C02w5d.v). A case flagged 'rej' "
               "passes iff pyttb raised and the request-level model returns Err.")
CORRESPONDENCE_ONLY = [
    "reconstruct with a 2-d sample MATRIX (sample.dot(factor) branch; index-list samples are proved: C02_reconstruct_tucker); sumtensor operations are proved part "
    "by part (C02_sum_innerprod_parts_dense / _sparse / _kruskal / _tucker, C02_sum_mttkrp_parts, C02_sum_ttv_parts) up to the association order of the additions",
    "the KIND of the result container (scalar / ndarray / tensor / sptensor / sumtensor / ktensor / ttensor) is pinned by generated cases only; the 50% switch of "
    "sptensor.ttv / contract is proved to depend on the denoted array alone (C02_switch_ttv_sparse, C02_switch_contract_sparse, C02_switch_repr_indep) and both sides "
    "denote the same array (C02_sparse_switch); sptensor.collapse with a reducer other than sum (reduces the STORED values only: outside the claim, DESIGN §C02)",
    "Kruskal mask: proved by C08 (Props/C08b.v C08_mask: ktensor.mask's accumulation loop = the denoted array at every listed subscript), not duplicated here",
    "the row-count tests of the four mttkrp methods (hand-written in Model/C02HarnessW5.v zmttkrp_accepts on top of the GENERATED get_mttkrp_factors; compared with "
    "pyttb on every mttkrp case and on the rejection stream, no theorem)",
    "ttsv 'version 1' (= tensor.ttv with N copies of the vector: covered by C02_ttv_dense_req) is not restated; the request test of ttsv 'version 2' (0478ea5: cubical, "
    "skip_dim < ndims = the hypotheses of C02_ttsv_dense) is the hand-written bool zttsv_accepts of Model/C02HarnessW5.v, compared with pyttb on every ttsv case, no theorem",
    "mixed-dtype factor lists (int64 / float32 / float64), memory layouts and construction histories of operands (C-ordered data of a tensor grown by assignment, "
    "strided / transposed views, re-assigned factor matrices, cores kept by reference): the theorems speak about values; dtype promotion, layout and history are "
    "covered by generated inputs only",
]
ASSUMPTIONS = [
    "numpy transpose / F-order reshape / matmul / fancy indexing behave as the tabulate-style definitions of Np/Array.v and Model/C02Dense.v",
    "floating point: all generated values are small integers, so float64 results are exact; the norm is compared to 1e-9 relative in Qc",
    "sptensor operands fed to the proved sparse kernels are well formed (distinct in-bounds subscripts), as produced by the generator",
    "accumarray / sptensor.from_aggregator with the sum reducer return, for each output subscript, the sum of the values with that subscript "
    "(contract proved for C03's model: from_aggregator_correct); the sparse ttv / mttkrp models are written against that contract",
    "tt_dimscheck / gather_wrap_dims / get_mttkrp_factors are the texts translated into Gen/GenUtils.v / Gen/GenUtils2.v / Gen/GenUtils3.v on this run (translator "
    "trusted; re-checked by the C17 correspondence stream); every mttkrp case also evaluates the generated get_mttkrp_factors in Coq and compares it with the hand model",
    "C02_mttkrps_dense imports C12's byte-level theorem (Proofs/C12Reshape.v C12_mttkrps_bytes_py) and C09's bridge lemma (Proofs/C09Holders.v spec_mttkrp_den)",
    "C02_mttkrp_dense_genkr (Props/C02w5d.v) imports C12's bridge between the GENERATED khatrirao and kr_rev (Proofs/C12KrTie.v khatrirao_generated_kr_rev); "
    "the argument checks of Model/C02SpReq.v (shape test of sptensor.scale, range / size / distinctness tests of contract) are hand transliterations compared with "
    "pyttb on every case and on the rejection stream; sumtensor's additions are modelled up to association order",
]

def _finding_fixed(prop, fid, patch=None):
    """True when the finding is flipped to "fixed" in findings.d/<prop>.jsonl, or (finding still open) when the tree under test ($PYTTB_SRC) already carries its
    pending repair fixes/<patch> (the patch reverse-applies cleanly).  Decides which SINGLE behaviour the request class of the finding must show (like C12's
    W1 switch): open => the behaviour the finding describes is pinned, fixed => the repaired behaviour is demanded.  VERIF_ASSUME_FIXED=id,id overrides."""
    import json
    import os
    import subprocess
    if fid in os.environ.get("VERIF_ASSUME_FIXED", "").split(","):
        return True
    root = os.path.join(os.path.dirname(os.path.abspath(__file__)), "..", "..")
    status = None
    try:
        for line in open(os.path.join(root, "findings.d", prop + ".jsonl")):
            if line.strip():
                j = json.loads(line)
                if j.get("finding_id") == fid:
                    status = j.get("status", "open")
    except OSError:
        pass
    if status is not None and status != "open":
        return True
    if patch:
        fn = os.path.abspath(os.path.join(root, "fixes", patch))
        src = os.environ.get("PYTTB_SRC", "/repo")
        try:
            if os.path.exists(fn):
                r = subprocess.run(["git", "apply", "--reverse", "--check", "--include=pyttb/*", fn], cwd=src, capture_output=True)
                return r.returncode == 0
        except OSError:
            pass
    return False


# C19-N29 (ttensor.reconstruct: negative / out-of-range / REPEATED modes; repair 9d2314a = fixes/C19-N29.diff): fixed => such a request must be REJECTED
# (pyttb raises and impl_reconstruct_req says None); while the finding is open the code's behaviour for that request class only is pinned (modes used as
# Python list indices: a negative mode wraps around, a mode named twice keeps the later sample, a mode outside [-N, N) raises).  ONE behaviour at any time.
N29_FIXED = _finding_fixed("C19", "C19-N29", "C19-N29.diff")

SHAPES_Q = [[3], [1], [2, 3], [3, 2], [1, 3], [3, 3], [2, 3, 4], [4, 3, 2], [2, 1, 3], [2, 2, 2], [3, 2, 1, 4], [2, 3, 2, 2]]
SHAPES_T = SHAPES_Q + [[4], [4, 2], [3, 1], [3, 4, 2], [3, 3, 3], [1, 1, 2], [2, 3, 4, 3], [4, 3, 3, 2], [2, 2, 2, 2], [1, 2, 3, 4]]
# mttkrp / mttkrps only (<= ~200 entries): min_split = 0 with two matrices in the middle product (large leading mode), min_split = N-2
# (large trailing mode), balanced 4-way, 5-way (every 5-way tensor has a middle product of >= 2 matrices)
MTT_SHAPES_Q = [[6, 2, 2, 3], [2, 2, 3, 8], [3, 2, 2, 3], [2, 3, 2, 2, 2], [3, 2, 2, 2, 3], [2, 2, 2, 3, 6]]
MTT_SHAPES_T = MTT_SHAPES_Q + [[8, 3, 2, 2], [2, 3, 2, 12], [4, 3, 3, 4], [2, 2, 2, 2, 2], [6, 2, 2, 2, 3], [12, 2, 2, 2, 2], [2, 2, 2, 2, 12], [2, 1, 3, 2, 4], [3, 2, 2, 2, 2, 2]]

REGRESSION_N1 = ([2, 3], [4, -8, 0, 0, -3, 6])      # witness of the repaired C02-N1 (F-ordered data of [[4, 0, -3], [-8, 0, 6]])

# ---------------------------------------------------------------- generators
def mode_requests(rng, N, big):
    """every non-empty mode subset under dims (asc/desc/random) and exclude_dims, with M in {|dims|, N}"""
    out = []
    for r in range(1, N + 1):
        for comb in itertools.combinations(range(N), r):
            asc = list(comb)
            orders = [asc]
            if r > 1:
                orders.append(asc[::-1])
                sh = asc[:]
                rng.shuffle(sh)
                if sh not in orders:
                    orders.append(sh)
            if r > 2:                 # cyclic orders: the sorting permutation is not its own inverse
                for rot in (asc[1:] + asc[:1], asc[-1:] + asc[:-1]):
                    if rot not in orders:
                        orders.append(rot)
            for d in orders:
                for M in sorted({r, N}):
                    out.append((d, None, M))
            excl = [m for m in range(N) if m not in comb]
            if rng.random() < 0.5:
                rng.shuffle(excl)
            for M in sorted({r, N}):
                out.append((None, excl, M))
    return out


def multiplicands(rng, shp, dims, excl, M, mk):
    """a list of M multiplicands: position j holds the one for the mode the caller attaches to it (mk(mode));
    positions not used (M == N, mode not selected) hold a multiplicand of that mode's size as well"""
    N = len(shp)
    out = [None] * M
    for m, j in designate(N, dims, excl, M):
        out[j] = mk(m)
    for j in range(M):
        if out[j] is None:
            out[j] = mk(j)
    return out


def nontriv(x):
    d = pdense(x)
    return len(d) > 1 and any(d)


def pick_reps(rng, fam, allowed, k):
    reps = [r for r in allowed if r in fam]
    rng.shuffle(reps)
    return reps[:k]


def mixed_dtypes(rng, U, shp):
    """factor-list operand with MIXED dtypes: factor m is handed to pyttb as H_m / 2**e_m in dtype d_m, H_m = the integer matrix kept in
    U['factors'] (what the Coq side multiplies); d_m in int64 (e = 0), float32 (e = 0), float64 (e = 0 | 1 | at most one factor with
    e = 30: entries k + b / 2**30, exact in float64, not in float32).  pyttb's result times 2**(sum of the e_m used) is an exact integer."""
    dt = []
    big_used = False
    N = len(shp)
    forced = {}
    if N >= 2:                      # always at least one integer-typed and one non-integer float64 factor
        a_, b_ = rng.sample(range(N), 2)
        forced = {a_: rng.choice(["int", "int", "f32"]), b_: rng.choice(["f64_1", "f64_1", "f64_30"])}
    for m in range(N):
        ch = forced.get(m) or rng.choice(["int", "int", "f32", "f64_0", "f64_1", "f64_1", "f64_30"])
        if ch == "f64_30" and big_used:
            ch = "f64_1"
        if ch == "f64_30":
            big_used = True
            U["factors"][m] = [[x * 2 ** 30 + rng.choice([-1, 0, 1]) for x in row] for row in U["factors"][m]]
        dt.append({"int": ["int", 0], "f32": ["f32", 0], "f64_0": ["f64", 0], "f64_1": ["f64", 1], "f64_30": ["f64", 30]}[ch])
    U["dt"] = dt
    return U


def gen_cases(rng, tier):
    big = tier == "thorough"
    cases = []
    shapes = SHAPES_T if big else SHAPES_Q
    nrep = 4 if big else 1

    def fam_for(shp):
        f = family(rng, shp, rng.choice([0.2, 0.45, 0.7, 1.0]))
        if rng.random() < 0.3:
            f["sum"] = rand_sum(rng, shp)
        return f

    for shp in shapes:
        N = len(shp)
        # ---- ttv: all designations
        treqs = mode_requests(rng, N, big)
        if not big and N >= 3:
            treqs = [q for q in treqs if rng.random() < 0.6]
        for (dims, excl, M) in treqs:
            fam = fam_for(shp)
            if "sum" not in fam and rng.random() < 0.25:
                fam["sum"] = rand_sum(rng, shp)
            for rep in pick_reps(rng, fam, ["dense", "sparse", "k", "t", "sum"], 5 if big else 2):
                vecs = multiplicands(rng, shp, dims, excl, M, lambda m: rand_vec(rng, shp[m]))
                single = (M == 1 and dims is not None and rng.random() < 0.3 and rep in ("dense", "sparse"))
                cases.append(Case("ttv", {"X": fam[rep], "dims": dims, "excl": excl, "vecs": vecs, "single": single, "mlay": rng.choice([0, 0, 1, 2])}, nontriv(fam[rep])))
        # sparse ttv on both sides of the 50% switch, incl. empty and single nonzero
        for fill in (0.0, 0.15, 0.5, 0.9):
            for (dims, excl, M) in rng.sample(mode_requests(rng, N, big), min(3 if not big else 8, len(mode_requests(rng, N, big)))):
                data = tgen.rand_dense(rng, shp, fill)
                if fill == 0.15 and rng.random() < 0.5:
                    data = [0] * len(data)
                    data[rng.randrange(len(data))] = rng.choice([-2, 3])
                subs, vals = tgen.dense_to_sparse(shp, data, rng, rng.choice(["sorted", "reversed", "random"]))
                vecs = multiplicands(rng, shp, dims, excl, M, lambda m: rand_vec(rng, shp[m], 1, 3))
                cases.append(Case("ttv", {"X": X_sparse(shp, subs, vals), "dims": dims, "excl": excl, "vecs": vecs, "single": False}, any(data) and len(data) > 1))
        # ---- ttm
        reqs = mode_requests(rng, N, big)
        if not big:
            reqs = [q for q in reqs if rng.random() < (1.0 if N <= 2 else 0.45)]
        for (dims, excl, M) in reqs:
            fam = fam_for(shp)
            for rep in pick_reps(rng, fam, ["dense", "sparse", "t"], 3 if big else 1):
                tr = rng.random() < 0.5
                def one_mat(m):
                    J = rng.choice([1, 2, 3])
                    return rand_matrix(rng, shp[m], J) if tr else rand_matrix(rng, J, shp[m])
                mats = multiplicands(rng, shp, dims, excl, M, one_mat)
                single = (M == 1 and dims is not None and rng.random() < 0.4)
                cases.append(Case("ttm", {"X": fam[rep], "dims": dims, "excl": excl, "mats": mats, "tr": tr, "single": single, "mlay": rng.choice([0, 0, 1, 2, 3])}, nontriv(fam[rep])))
        # ---- mttkrp / mttkrps
        if N >= 2:
            for n in range(N):
                for _ in range(2 if big else 1):
                    fam = fam_for(shp)
                    if "sum" not in fam:
                        fam["sum"] = rand_sum(rng, shp)
                    R = rng.randint(1, 3)
                    for rep in pick_reps(rng, fam, ["dense", "sparse", "k", "t", "sum"], 5 if big else 3):
                        for kr in (False, True):
                            U = {"factors": [rand_matrix(rng, d, R) for d in shp],
                                 "weights": ([rng.choice([-1, 2, 3]) for _ in range(R)] if rng.random() < 0.75 else [1] * R) if kr else None}
                            if not kr and rng.random() < 0.5:
                                U = mixed_dtypes(rng, U, shp)
                            cases.append(Case("mttkrp", {"X": fam[rep], "n": n, "U": U, "mlay": rng.choice([0, 0, 1, 2, 3])}, nontriv(fam[rep])))
            for _ in range(4 if big else 2):
                fam = fam_for(shp)
                R = rng.randint(1, 3)
                for kr in (False, True):
                    U = {"factors": [rand_matrix(rng, d, R) for d in shp],
                         "weights": ([rng.choice([-1, 2, 3]) for _ in range(R)] if rng.random() < 0.7 else [1] * R) if kr else None}
                    if not kr and rng.random() < 0.5:
                        U = mixed_dtypes(rng, U, shp)
                    cases.append(Case("mttkrps", {"X": fam["dense"], "U": U}, nontriv(fam["dense"])))
        # ---- innerprod (all representation pairs incl. sum), norm
        for _ in range(3 if big else 1):
            fa, fb = fam_for(shp), fam_for(shp)
            fa.setdefault("k", rand_k(rng, shp)); fa.setdefault("t", rand_t(rng, shp)); fa.setdefault("sum", rand_sum(rng, shp))
            fb.setdefault("k", rand_k(rng, shp)); fb.setdefault("t", rand_t(rng, shp))
            for ra in ("dense", "sparse", "k", "t", "sum"):
                for rb in ("dense", "sparse", "k", "t"):
                    if not big and rng.random() < 0.35:
                        continue
                    cases.append(Case("innerprod", {"X": fa[ra], "Y": fb[rb]}, nontriv(fa[ra]) and nontriv(fb[rb])))
            for ra in ("dense", "sparse", "k", "t"):
                cases.append(Case("norm", {"X": fa[ra]}, nontriv(fa[ra])))
        # sparse innerprod: both nnz orderings, single nonzero, empty
        for (f1, f2) in ((0.2, 0.8), (0.8, 0.2), (0.0, 0.5), (0.5, 0.0), ("one", 0.6), (0.6, "one")):
            ops = []
            for f in (f1, f2):
                if f == "one":
                    data = [0] * math.prod(shp)
                    data[rng.randrange(len(data))] = rng.choice([-2, 3])
                else:
                    data = tgen.rand_dense(rng, shp, f)
                ops.append(data)
            sa = X_sparse(shp, *tgen.dense_to_sparse(shp, ops[0], rng, "random"))
            sb = X_sparse(shp, *tgen.dense_to_sparse(shp, ops[1], rng, "random"))
            cases.append(Case("innerprod", {"X": sa, "Y": sb}, any(ops[0]) and any(ops[1])))
            cases.append(Case("innerprod", {"X": sa, "Y": X_dense(shp, ops[1])}, any(ops[0]) and any(ops[1])))
            cases.append(Case("innerprod", {"X": X_dense(shp, ops[0]), "Y": sb}, any(ops[0]) and any(ops[1])))
        # ---- collapse (sum) over every mode subset, dense and sparse
        for r in range(1, N + 1):
            for comb in itertools.combinations(range(N), r):
                if not big and N >= 3 and rng.random() < 0.4:
                    continue
                d = list(comb)
                if rng.random() < 0.4:
                    rng.shuffle(d)
                fam = fam_for(shp)
                for rep in ("dense", "sparse"):
                    cases.append(Case("collapse", {"X": fam[rep], "dims": d}, nontriv(fam[rep])))
        fam = fam_for(shp)
        for rep in ("dense", "sparse"):
            cases.append(Case("collapse", {"X": fam[rep], "dims": None}, nontriv(fam[rep])))
        # ---- contract: every ordered pair of equally sized modes
        for i1 in range(N):
            for i2 in range(N):
                if i1 != i2 and shp[i1] == shp[i2]:
                    for fill in (0.3, 1.0):
                        fam = family(rng, shp, fill)
                        for rep in ("dense", "sparse"):
                            cases.append(Case("contract", {"X": fam[rep], "i1": i1, "i2": i2}, nontriv(fam[rep])))
        # ---- scale along every mode subset
        for r in range(1, N + 1):
            for comb in itertools.combinations(range(N), r):
                if not big and N >= 3 and rng.random() < 0.5:
                    continue
                d = list(comb)
                if rng.random() < 0.4:
                    rng.shuffle(d)
                fshape = [shp[m] for m in sorted(d)]
                fdata = tgen.rand_dense(rng, fshape, rng.choice([0.6, 1.0]), -2, 3)
                fam = fam_for(shp)
                if rng.random() < 0.3:        # single stored nonzero
                    data = [0] * math.prod(shp)
                    data[rng.randrange(len(data))] = 2
                    fam["sparse"] = X_sparse(shp, *tgen.dense_to_sparse(shp, data))
                kinds = [("dense", "tensor"), ("sparse", "tensor"), ("sparse", "sptensor")]
                if r == 1:
                    kinds += [("dense", "ndarray"), ("sparse", "ndarray")]
                for rep, fk in kinds:
                    cases.append(Case("scale", {"X": fam[rep], "dims": d, "fshape": fshape, "fdata": fdata, "fkind": fk}, nontriv(fam[rep])))
        # ---- mask
        for _ in range(3 if big else 2):
            fam = fam_for(shp)
            fam.setdefault("k", rand_k(rng, shp))
            wdata = [1 if rng.random() < 0.5 else 0 for _ in range(math.prod(shp))]
            if not any(wdata):               # an all-zero mask is not generated (mask is outside the C02 statement; empty-sptensor layout is C06/C01 matter)
                wdata[rng.randrange(len(wdata))] = 1
            wsubs, wvals = tgen.dense_to_sparse(shp, wdata, rng, rng.choice(["sorted", "reversed", "random"]))
            for rep, wk in (("dense", "dense"), ("sparse", "sparse"), ("k", "dense"), ("k", "sparse")):
                W = X_dense(shp, wdata) if wk == "dense" else X_sparse(shp, wsubs, wvals)
                cases.append(Case("mask", {"X": fam[rep], "W": W}, nontriv(fam[rep]) and any(wdata)))
        # a mask WITHOUT any nonzero (sparse: built from empty arrays / from the shape alone; dense: all zero): no value is selected
        fam = fam_for(shp)
        fam.setdefault("k", rand_k(rng, shp))
        for rep in ("k", "dense", "sparse"):
            W = X_sparse(shp, [], [])
            if rng.random() < 0.5:
                W["origin"] = "shape_only"
            cases.append(Case("mask", {"X": fam[rep], "W": W}, nontriv(fam[rep])))
            if big or rng.random() < 0.4:
                cases.append(Case("mask", {"X": fam[rep], "W": X_dense(shp, [0] * math.prod(shp))}, nontriv(fam[rep])))
        # ---- reconstruct (Tucker, index-list samples)
        for _ in range(2 if big else 1):
            T = rand_t(rng, shp)
            modes = [m for m in range(N) if rng.random() < 0.6] or [0]
            if rng.random() < 0.5:
                rng.shuffle(modes)
            samples = [[rng.randrange(shp[m]) for _ in range(rng.randint(1, 3))] for m in modes]
            cases.append(Case("reconstruct", {"X": T, "modes": modes, "samples": samples}, nontriv(T)))
            # an EMPTY sample (the mode is kept whole), repeated rows; when m2 is already listed: a mode named TWICE (request class of C19-N29)
            m2 = rng.randrange(N)
            modes2 = modes + [m2]
            samples2 = [list(s_) for s_ in samples] + [[rng.randrange(shp[m2]) for _ in range(rng.randint(1, 4))]]
            if rng.random() < 0.6:
                samples2[rng.randrange(len(samples2))] = []
            cases.append(Case("reconstruct", {"X": T, "modes": modes2, "samples": samples2}, nontriv(T)))
            # wave 6 (own Random: the shared stream is untouched): an ADMISSIBLE request with an empty sample and repeated rows, distinct modes in any
            # order; and the request class of C19-N29 (negative / out-of-range / repeated modes: rejected once the finding is repaired, see N29_FIXED)
            r6 = random.Random(f"C02-w6-reconstruct-{shp}-{_}")
            modes3 = list(range(N))
            r6.shuffle(modes3)
            modes3 = modes3[:r6.randint(1, N)]
            samples3 = [[r6.randrange(shp[m]) for _q in range(r6.randint(2, 4))] for m in modes3]
            samples3[r6.randrange(len(samples3))] = []
            cases.append(Case("reconstruct", {"X": T, "modes": modes3, "samples": samples3}, nontriv(T)))
            badm = [[-1], [-N], [N], [0, 0], [N - 1, -1], [-N - 1], [N + 1, 0], modes3 + [modes3[0]]]
            for bm in (badm if big else [badm[3]] + r6.sample(badm[:3] + badm[4:], 2)):
                cases.append(Case("reconstruct", {"X": T, "modes": bm, "samples": [[r6.randrange(shp[m % N])] if -N <= m < N else [0] for m in bm]}, nontriv(T)))
    # ---- regression inputs of repaired findings (ordinary cases: no attribution).  C02-N1 (5f8b038): dense / sparse holder, sparse mask without entry
    for rep_, org_ in (("dense", None), ("dense", "shape_only"), ("sparse", None), ("sparse", "shape_only")):
        Xr = X_dense(*REGRESSION_N1) if rep_ == "dense" else X_sparse(REGRESSION_N1[0], *tgen.dense_to_sparse(*REGRESSION_N1))
        Wr = X_sparse(REGRESSION_N1[0], [], [])
        if org_:
            Wr["origin"] = org_
        cases.append(Case("mask", {"X": Xr, "W": Wr}, True))
    # ---- rejection stream (wave 5): requests OUTSIDE the domain of contract / sptensor.scale / sptensor.collapse must be rejected, by pyttb and by
    #      the request-level models of Model/C02SpReq.v alike: negative / out-of-range / equal / unequally sized contraction modes (dense and
    #      sparse holders; db95721), an ill-shaped tensor / sptensor scaling factor for receivers WITH and WITHOUT stored entries (d89c921), an
    #      ill-sized ndarray factor (receiver with entries), negative / out-of-range / repeated mode lists
    for shp in shapes:
        N = len(shp)
        fam = family(rng, shp, 0.5)
        if not fam["sparse"]["subs"]:
            fam = family(rng, shp, 1.0)
        degs = degenerate_sparse(rng, shp)
        holders = [fam["dense"], fam["sparse"], degs[rng.randrange(3)]]
        bad = [(-1, 0), (0, -1), (N, 0), (0, N), (-N, N - 1), (0, 0), (N - 1, N - 1), (-2, 0), (N - 1, -N)]
        bad += [(i, j) for i in range(N) for j in range(N) if i != j and shp[i] != shp[j]]
        bad = sorted(set(bad))
        for Xh in holders:
            for (i1, i2) in (bad if big else rng.sample(bad, min(4, len(bad)))):
                cases.append(Case("contract", {"X": Xh, "i1": i1, "i2": i2, "rej": True}, True))
        bad_dims = [[-1], [N], [0, 0], [0, N], [-N]] + ([[1, 0, 1]] if N >= 2 else [])
        for Xh in holders[1:]:
            has = bool(Xh["subs"])
            for d in (bad_dims if big else rng.sample(bad_dims, 2)):
                cases.append(Case("collapse", {"X": Xh, "dims": d, "rej": True}, True))
                fshape = [2] * len(d)
                cases.append(Case("scale", {"X": Xh, "dims": d, "fshape": fshape, "fdata": tgen.rand_dense(rng, fshape, 1.0, 1, 3),
                                            "fkind": rng.choice(["tensor", "sptensor"]), "rej": True}, True))
            subsets = [list(cmb) for r in range(1, N + 1) for cmb in itertools.combinations(range(N), r)]
            for d in rng.sample(subsets, min(len(subsets), 6 if big else 3)):
                if rng.random() < 0.4:
                    rng.shuffle(d)
                want = [shp[m] for m in sorted(d)]
                wrong = [want[:j] + [want[j] + 1] + want[j + 1:] for j in range(len(want))] + [want + [1], want + [2]]
                if len(want) >= 2:
                    wrong += [want[::-1], want[1:]]
                if want[0] > 1:
                    wrong.append([want[0] - 1] + want[1:])
                wrong = [w for w in wrong if w != want]
                for fshape in rng.sample(wrong, min(4 if big else 2, len(wrong))):
                    fdata = tgen.rand_dense(rng, fshape, 1.0, 1, 3)
                    for fk in (("tensor", "sptensor") if big else (rng.choice(["tensor", "sptensor"]),)):
                        cases.append(Case("scale", {"X": Xh, "dims": d, "fshape": fshape, "fdata": fdata, "fkind": fk, "rej": True}, True))
                if has and len(d) == 1:
                    fshape = [want[0] + rng.choice([1, 2])]
                    cases.append(Case("scale", {"X": Xh, "dims": d, "fshape": fshape, "fdata": tgen.rand_dense(rng, fshape, 1.0, 1, 3),
                                                "fkind": "ndarray", "rej": True}, True))
                if not has and len(d) == 1:      # 98f7017 (C19-N27): an ill-sized ndarray factor is rejected by a receiver WITHOUT stored entry too
                    for fshape in ([want[0] + 1], [max(want[0] - 1, 0)]):
                        cases.append(Case("scale", {"X": Xh, "dims": d, "fshape": fshape, "fdata": [1 + (q % 3) for q in range(fshape[0])],
                                                    "fkind": "ndarray", "rej": True}, True))
                if len(d) == 2:                  # a 1-d ndarray for TWO listed modes: rejected with and without stored entries
                    cases.append(Case("scale", {"X": Xh, "dims": d, "fshape": [want[0]], "fdata": [1 + (q % 3) for q in range(want[0])],
                                                "fkind": "ndarray", "rej": True}, True))
        # mttkrp: the SKIPPED factor is never looked at (any row / column count: an ordinary, accepted request); a non-skipped factor with a wrong row
        # count or a different column count, a short list, a mode outside [0, N) must be rejected by every holder class
        if N >= 2:
            hs = [fam["dense"], fam["sparse"], rand_k(rng, shp), rand_t(rng, shp), rand_sum(rng, shp)]
            for Xh in hs:
                n = rng.randrange(N)
                R = 2
                good = [rand_matrix(rng, d, R) for d in shp]
                U = [list(map(list, f)) for f in good]
                U[n] = rand_matrix(rng, shp[n] + rng.choice([1, 2]), R if n == 0 else R + 1)
                cases.append(Case("mttkrp", {"X": Xh, "n": n, "U": {"factors": U, "weights": None}}, nontriv(Xh)))
                m = rng.choice([q for q in range(N) if q != n])
                bads = []
                for rows, cols in ((shp[m] + 1, R), (shp[m] - 1, R), (shp[m], R + 1)):
                    if rows >= 1 and (cols == R or N >= 3):      # a "different" column count needs a second non-skipped factor
                        B = [list(map(list, f)) for f in good]
                        B[m] = rand_matrix(rng, rows, cols)
                        bads.append((B, n))
                # ZERO-column matrices with one wrong row count: the component loops never run, only the explicit row test can reject (dc71f18)
                Z0 = [[[] for _ in range(d)] for d in shp]
                Z0[m] = [[] for _ in range(shp[m] + 1)]
                bads.insert(1, (Z0, n))
                bads += [(good[:-1], min(n, N - 2)), (good, N), (good, -1), (good + [rand_matrix(rng, 2, R)], n)]
                # the factor with one row TOO MANY is always generated (the kernels never touch the extra row: only the explicit test rejects it)
                for B, nn in (bads if big else bads[:2] + rng.sample(bads[2:], 2)):
                    cases.append(Case("mttkrp", {"X": Xh, "n": nn, "U": {"factors": B, "weights": None}, "rej": True}, True))
                if N >= 2 and Xh["rep"] in ("dense", "sparse"):      # Kruskal operand of another shape
                    Kbad = rand_k(rng, [d + (1 if q == m else 0) for q, d in enumerate(shp)])
                    cases.append(Case("mttkrp", {"X": Xh, "n": n, "U": {"factors": Kbad["factors"], "weights": Kbad["weights"]}, "rej": True}, True))
    # ---- degenerate sparse operands in EVERY sparse product stream: no stored entry (three origins) / exactly one stored entry
    #      (two origins); multiplicands in varying memory layouts
    for shp in shapes:
        N = len(shp)
        degs = degenerate_sparse(rng, shp)
        if not big:
            degs = [degs[rng.randrange(3)], degs[3 + rng.randrange(2)]] + ([rng.choice(degs)] if rng.random() < 0.5 else [])
        for Xs in degs:
            nt = bool(Xs["vals"]) and math.prod(shp) > 1
            reqs = mode_requests(rng, N, big)
            for (dims, excl, M) in rng.sample(reqs, min(len(reqs), 4 if big else 2)):
                vecs = multiplicands(rng, shp, dims, excl, M, lambda m: rand_vec(rng, shp[m], 1, 3))
                cases.append(Case("ttv", {"X": Xs, "dims": dims, "excl": excl, "vecs": vecs, "single": False, "mlay": rng.randrange(3)}, nt))
            cases.append(Case("ttv", {"X": Xs, "dims": None, "excl": None, "vecs": [rand_vec(rng, d, 1, 3) for d in shp], "single": False}, nt))
            for (dims, excl, M) in rng.sample(reqs, min(len(reqs), 3 if big else 1)):
                tr = rng.random() < 0.5
                def one_mat(m):
                    J = rng.choice([1, 2, 3])
                    return rand_matrix(rng, shp[m], J) if tr else rand_matrix(rng, J, shp[m])
                mats = multiplicands(rng, shp, dims, excl, M, one_mat)
                cases.append(Case("ttm", {"X": Xs, "dims": dims, "excl": excl, "mats": mats, "tr": tr, "single": False, "mlay": rng.randrange(4)}, nt))
            if N >= 2:
                for n in (range(N) if big else [rng.randrange(N)]):
                    R = rng.randint(1, 2)
                    kr = rng.random() < 0.5
                    U = {"factors": [rand_matrix(rng, d, R) for d in shp],
                         "weights": [rng.choice([-1, 2, 3]) for _ in range(R)] if kr else None}
                    cases.append(Case("mttkrp", {"X": Xs, "n": n, "U": U, "mlay": rng.randrange(4)}, nt))
            cases.append(Case("norm", {"X": Xs}, nt))
            fb = family(rng, shp, 0.7)
            fb.setdefault("k", rand_k(rng, shp)); fb.setdefault("t", rand_t(rng, shp))
            for rb in (("dense", "sparse", "k", "t") if big else rng.sample(["dense", "sparse", "k", "t"], 2)):
                cases.append(Case("innerprod", {"X": Xs, "Y": fb[rb]}, nt and nontriv(fb[rb])))
                cases.append(Case("innerprod", {"X": fb[rb], "Y": Xs}, nt and nontriv(fb[rb])))
            subsets = [list(cmb) for r in range(1, N + 1) for cmb in itertools.combinations(range(N), r)]
            for d in rng.sample(subsets, min(len(subsets), 4 if big else 2)):
                cases.append(Case("collapse", {"X": Xs, "dims": d}, nt))
                fshape = [shp[m] for m in sorted(d)]
                fdata = tgen.rand_dense(rng, fshape, rng.choice([0.6, 1.0]), -2, 3)
                for fk in ["tensor", "sptensor"] + (["ndarray"] if len(d) == 1 else []):
                    cases.append(Case("scale", {"X": Xs, "dims": d, "fshape": fshape, "fdata": fdata, "fkind": fk}, nt))
            cases.append(Case("collapse", {"X": Xs, "dims": None}, nt))
            prs = [(i1, i2) for i1 in range(N) for i2 in range(N) if i1 != i2 and shp[i1] == shp[i2]]
            for (i1, i2) in (prs if big else prs[:1]):
                cases.append(Case("contract", {"X": Xs, "i1": i1, "i2": i2}, nt))
            wdata = [1 if rng.random() < 0.5 else 0 for _ in range(math.prod(shp))]
            if Xs["subs"]:
                wdata[tgen.all_subs(shp).index(list(Xs["subs"][0]))] = 1      # the mask selects the stored entry
            if not any(wdata):
                wdata[rng.randrange(len(wdata))] = 1
            wsubs, wvals = tgen.dense_to_sparse(shp, wdata, rng, rng.choice(["sorted", "reversed", "random"]))
            cases.append(Case("mask", {"X": Xs, "W": X_sparse(shp, wsubs, wvals)}, nt))
    # ---- dense operands reached through a HISTORY (enlarged by an assignment past their bounds: tensor.data is then C-ordered, not
    #      Fortran-ordered) in EVERY dense kernel, on either side of the two-operand products; Tucker operands holding such a core by reference
    for shp in [s_ for s_ in shapes if len(s_) >= 2 and max(s_) >= 2]:
        N = len(shp)
        for hist in (("entry", "block") if big else (rng.choice(["entry", "block"]),)):
            other_h = "block" if hist == "entry" else "entry"
            Xg = X_dense(shp, tgen.rand_dense(rng, shp, 0.9)); Xg["hist"] = hist
            Yg = X_dense(shp, tgen.rand_dense(rng, shp, 0.9)); Yg["hist"] = other_h
            fb = family(rng, shp, 0.7)
            fb["dense"].pop("hist", None)
            fb.setdefault("k", rand_k(rng, shp)); fb.setdefault("t", rand_t(rng, shp))
            Tg = rand_t(rng, shp); Tg.pop("lay", None); Tg["corehist"] = hist
            cases.append(Case("innerprod", {"X": Xg, "Y": fb["dense"]}, True))
            cases.append(Case("innerprod", {"X": fb["dense"], "Y": Xg}, True))
            cases.append(Case("innerprod", {"X": Xg, "Y": Yg}, True))
            cases.append(Case("innerprod", {"X": Xg, "Y": Xg}, True))
            for rb in (("sparse", "k", "t") if big else rng.sample(["sparse", "k", "t"], 2)):
                cases.append(Case("innerprod", {"X": Xg, "Y": fb[rb]}, nontriv(fb[rb])))
                cases.append(Case("innerprod", {"X": fb[rb], "Y": Xg}, nontriv(fb[rb])))
            cases.append(Case("innerprod", {"X": Tg, "Y": Tg}, nontriv(Tg)))
            cases.append(Case("innerprod", {"X": Tg, "Y": fb["dense"]}, nontriv(Tg)))
            cases.append(Case("innerprod", {"X": Xg, "Y": Tg}, nontriv(Tg)))
            cases.append(Case("norm", {"X": Xg}, True))
            cases.append(Case("norm", {"X": Tg}, nontriv(Tg)))
            reqs = mode_requests(rng, N, big)
            for (dims, excl, M) in rng.sample(reqs, min(len(reqs), 4 if big else 2)):
                vecs = multiplicands(rng, shp, dims, excl, M, lambda m: rand_vec(rng, shp[m]))
                cases.append(Case("ttv", {"X": Xg, "dims": dims, "excl": excl, "vecs": vecs, "single": False}, True))
                if rng.random() < 0.5:
                    cases.append(Case("ttv", {"X": Tg, "dims": dims, "excl": excl, "vecs": vecs, "single": False}, nontriv(Tg)))
            for (dims, excl, M) in rng.sample(reqs, min(len(reqs), 3 if big else 1)):
                tr = rng.random() < 0.5
                def one_mat(m):
                    J = rng.choice([1, 2, 3])
                    return rand_matrix(rng, shp[m], J) if tr else rand_matrix(rng, J, shp[m])
                mats = multiplicands(rng, shp, dims, excl, M, one_mat)
                cases.append(Case("ttm", {"X": Xg, "dims": dims, "excl": excl, "mats": mats, "tr": tr, "single": False}, True))
            for n in (range(N) if big else [rng.randrange(N)]):
                R = rng.randint(1, 2)
                U = {"factors": [rand_matrix(rng, d, R) for d in shp], "weights": [rng.choice([-1, 2, 3]) for _ in range(R)] if rng.random() < 0.4 else None}
                cases.append(Case("mttkrp", {"X": Xg, "n": n, "U": U}, True))
                cases.append(Case("mttkrp", {"X": Tg, "n": n, "U": U}, nontriv(Tg)))
            U = {"factors": [rand_matrix(rng, d, 2) for d in shp], "weights": None}
            cases.append(Case("mttkrps", {"X": Xg, "U": U}, True))
            subsets = [list(cmb) for r in range(1, N + 1) for cmb in itertools.combinations(range(N), r)]
            for d in rng.sample(subsets, min(len(subsets), 4 if big else 2)):
                cases.append(Case("collapse", {"X": Xg, "dims": d}, True))
                fshape = [shp[m] for m in sorted(d)]
                fdata = tgen.rand_dense(rng, fshape, 1.0, -2, 3)
                cases.append(Case("scale", {"X": Xg, "dims": d, "fshape": fshape, "fdata": fdata, "fkind": "tensor"}, True))
            cases.append(Case("collapse", {"X": Xg, "dims": None}, True))
            prs = [(i1, i2) for i1 in range(N) for i2 in range(N) if i1 != i2 and shp[i1] == shp[i2]]
            for (i1, i2) in (prs if big else prs[:1]):
                cases.append(Case("contract", {"X": Xg, "i1": i1, "i2": i2}, True))
            wdata = [1 if rng.random() < 0.5 else 0 for _ in range(math.prod(shp))]
            if not any(wdata):
                wdata[rng.randrange(len(wdata))] = 1
            Wg = X_dense(shp, wdata); Wg["hist"] = other_h
            cases.append(Case("mask", {"X": Xg, "W": Wg}, True))
            cases.append(Case("mask", {"X": fb["k"], "W": Wg}, nontriv(fb["k"])))
    # ---- very sparse operands with a LONG mode whose stored entries collide in the result: at most half as many stored entries as the
    #      long mode has indices, two or three of them in the same slice of that mode.  Every product whose result keeps the long mode
    #      (vector-valued ttv named in every way, mttkrp of every mode, collapse, ttm) must ADD the colliding terms and stay sparse.
    long_shapes = [[8, 2], [2, 9], [7, 2, 2], [2, 8, 3], [2, 2, 10], [2, 3, 2, 6]] + ([[12, 3], [3, 12], [9, 3, 2], [3, 2, 11], [6, 2, 2, 2], [10], [2, 6, 2]] if big else [])
    for shp in long_shapes:
        N = len(shp)
        keep = max(range(N), key=lambda m: shp[m])
        for _ in range(3 if big else 2):
            Xs = sparse_colliding(rng, shp, keep)
            if Xs is None:
                continue
            others = [m for m in range(N) if m != keep]
            ways = [(others, None, len(others)), (others[::-1], None, len(others)), (None, [keep], len(others)), (others, None, N), (None, [keep], N)]
            reqs = mode_requests(rng, N, big)
            ways += rng.sample(reqs, min(len(reqs), 3))
            for (dims, excl, M) in ways:
                vecs = multiplicands(rng, shp, dims, excl, M, lambda m: rand_vec(rng, shp[m], 1, 3))
                cases.append(Case("ttv", {"X": Xs, "dims": dims, "excl": excl, "vecs": vecs, "single": False, "mlay": rng.randrange(3)}, True))
            for n in range(N):
                R = rng.randint(1, 2)
                kr = rng.random() < 0.4
                U = {"factors": [rand_matrix(rng, d, R, 1, 3) for d in shp], "weights": [rng.choice([-1, 2, 3]) for _ in range(R)] if kr else None}
                cases.append(Case("mttkrp", {"X": Xs, "n": n, "U": U}, True))
            cases.append(Case("collapse", {"X": Xs, "dims": others}, True))
            cases.append(Case("collapse", {"X": Xs, "dims": [rng.choice(others)]}, True))
            m0 = rng.choice(others)
            tr = rng.random() < 0.5
            J = rng.choice([1, 2])
            cases.append(Case("ttm", {"X": Xs, "dims": [m0], "excl": None, "mats": [rand_matrix(rng, shp[m0], J) if tr else rand_matrix(rng, J, shp[m0])],
                                      "tr": tr, "single": False}, True))
            cases.append(Case("norm", {"X": Xs}, True))
            cases.append(Case("innerprod", {"X": Xs, "Y": X_dense(shp, tgen.rand_dense(rng, shp, 0.9))}, True))
            fshape = [shp[keep]]
            cases.append(Case("scale", {"X": Xs, "dims": [keep], "fshape": fshape, "fdata": tgen.rand_dense(rng, fshape, 0.8, -2, 3), "fkind": "tensor"}, True))
    # ---- structured Tucker operands (unit-length factor columns: repeated / orthonormal selection columns coupled by the core), on both
    #      sides of ttensor.norm's size switch prod(shape) > prod(core.shape): norm, innerprod with every representation, ttv, mttkrp
    for shp in shapes:
        N = len(shp)
        for kind, wide in (("selection", False), ("orthonormal", False), ("selection", True)) + ((("orthonormal", True), ("selection", False)) if big else ()):
            T = rand_t_struct(rng, shp, kind, wide)
            nt = nontriv(T)
            cases.append(Case("norm", {"X": T}, nt))
            fb = family(rng, shp, 0.7)
            fb.setdefault("k", rand_k(rng, shp)); fb["t"] = rand_t_struct(rng, shp, rng.choice(["selection", "orthonormal"]), rng.random() < 0.3)
            for rb in (("dense", "sparse", "k", "t") if big else rng.sample(["dense", "sparse", "k", "t"], 2)):
                cases.append(Case("innerprod", {"X": T, "Y": fb[rb]}, nt and nontriv(fb[rb])))
                if big or rng.random() < 0.5:
                    cases.append(Case("innerprod", {"X": fb[rb], "Y": T}, nt and nontriv(fb[rb])))
            cases.append(Case("innerprod", {"X": T, "Y": T}, nt))
            reqs = mode_requests(rng, N, big)
            (dims, excl, M) = rng.choice(reqs)
            vecs = multiplicands(rng, shp, dims, excl, M, lambda m: rand_vec(rng, shp[m]))
            cases.append(Case("ttv", {"X": T, "dims": dims, "excl": excl, "vecs": vecs, "single": False}, nt))
            if N >= 2:
                R = rng.randint(1, 2)
                U = {"factors": [rand_matrix(rng, d, R) for d in shp], "weights": None}
                cases.append(Case("mttkrp", {"X": T, "n": rng.randrange(N), "U": U}, nt))
    # ---- mttkrp / mttkrps on 4-way and 5-way tensors, skewed and balanced: every value of min_split (0 .. N-2) and hence
    #      Khatri-Rao products of two or more matrices in each helper of mttkrps (right / left start, mttv_mid, mttv_left)
    for shp in (MTT_SHAPES_T if big else MTT_SHAPES_Q):
        N = len(shp)
        for rep_i in range(2 if big else 1):
            data = tgen.rand_dense(rng, shp, rng.choice([0.7, 1.0]))
            Xd = X_dense(shp, data)
            R = rng.randint(1, 2) if math.prod(shp) > 100 else rng.randint(2, 3)
            for kr in (False, True):
                U = {"factors": [rand_matrix(rng, d, R) for d in shp],
                     "weights": [rng.choice([-1, 2, 3]) for _ in range(R)] if kr else None}
                cases.append(Case("mttkrps", {"X": Xd, "U": U}, True))
            fdata = tgen.rand_dense(rng, shp, 0.3)
            Xs = X_sparse(shp, *tgen.dense_to_sparse(shp, fdata, rng, "random"))
            for n in range(N):
                kr = rng.random() < 0.4
                U = {"factors": [rand_matrix(rng, d, R) for d in shp],
                     "weights": [rng.choice([-1, 2, 3]) for _ in range(R)] if kr else None}
                if not kr and rng.random() < 0.5:
                    U = mixed_dtypes(rng, U, shp)
                cases.append(Case("mttkrp", {"X": Xd, "n": n, "U": U}, True))
                if big or rng.random() < 0.5:
                    cases.append(Case("mttkrp", {"X": Xs, "n": n, "U": U}, any(fdata)))
    # ---- mixed dtypes, dedicated: a dense operand of order 3 / 4, every mode n, the INTEGER-typed factor at the lowest resp. highest
    #      position among the factors that enter the Khatri-Rao product, all other factors float64 with half-integer entries
    for shp in ([2, 3, 2], [3, 2, 2, 2]):
        N = len(shp)
        Xd = X_dense(shp, tgen.rand_dense(rng, shp, 0.9))
        for n in range(N):
            others = [m for m in range(N) if m != n]
            for ipos in (others[0], others[-1]):
                R = 2
                U = {"factors": [[[2 * x + 1 for x in row] for row in rand_matrix(rng, d, R)] for d in shp], "weights": None}
                U["factors"][ipos] = rand_matrix(rng, shp[ipos], R, 1, 3)
                U["dt"] = [["int", 0] if m == ipos else ["f64", 1] for m in range(N)]
                cases.append(Case("mttkrp", {"X": Xd, "n": n, "U": U}, True))
        U = {"factors": [[[2 * x + 1 for x in row] for row in rand_matrix(rng, d, 2)] for d in shp], "weights": None}
        U["factors"][0] = rand_matrix(rng, shp[0], 2, 1, 3)
        U["dt"] = [["int", 0]] + [["f64", 1]] * (N - 1)
        cases.append(Case("mttkrps", {"X": Xd, "U": U}, True))
    # ---- ttt: outer and contracted products of two dense tensors
    pairs = [([2, 3], [3, 2]), ([2], [3]), ([3, 2], [2, 3, 2]), ([2, 3, 2], [2, 2, 3]), ([2, 3], [2, 3]), ([3], [3]), ([2, 1], [1, 3])]
    # FULL contractions of two EQUALLY SHAPED tensors with repeated mode sizes (square / cubical / partly repeated): every pairing
    # selfdims[k] <-> otherdims[k] of equally sized modes, i.e. different permutations on the two sides (A.ttt(B, [0,1], [1,0]) = trace(A B),
    # not <A, B>); the full contractions of these pairs are generated exhaustively, never sampled
    pairs += [([3, 3], [3, 3]), ([2, 2, 2], [2, 2, 2]), ([2, 3, 2], [2, 3, 2])]
    if big:
        pairs += [([2, 3, 4], [4, 3]), ([3, 2, 2], [2, 3]), ([2, 2], [2, 2]), ([4, 2], [2, 4, 1]), ([3, 3, 3], [3, 3, 3]), ([2, 2, 3], [2, 2, 3]), ([1, 2, 2], [2, 1, 2])]
    for s1, s2 in pairs:
        a = X_dense(s1, tgen.rand_dense(rng, s1, 0.8))
        b = X_dense(s2, tgen.rand_dense(rng, s2, 0.8))
        hsel = rng.randrange(4)                  # either / both operands enlarged by assignment before (C-ordered data)
        if hsel & 1 and len(s1) >= 2:
            a["hist"] = rng.choice(["entry", "block"])
        if hsel & 2 and len(s2) >= 2:
            b["hist"] = rng.choice(["entry", "block"])
        if math.prod(s1) * math.prod(s2) <= 72:
            cases.append(Case("ttt", {"X": a, "Y": b, "sd": None, "od": None}, True))
        # all matchings of equally sized mode lists (equally shaped operands with repeated mode sizes: partial contractions with permuted
        # pairings exhaustively too)
        rep_sizes = s1 == s2 and len(set(s1)) < len(s1)
        for r in range(1, min(len(s1), len(s2)) + 1):
            for sd in itertools.permutations(range(len(s1)), r):
                for od in itertools.permutations(range(len(s2)), r):
                    if all(s1[x] == s2[y] for x, y in zip(sd, od)) and (big or r == len(s1) == len(s2) or rep_sizes or rng.random() < 0.6):
                        cases.append(Case("ttt", {"X": a, "Y": b, "sd": list(sd), "od": list(od)}, True))
    # ---- ttsv: cubical tensors, same vector in all modes after skip_dim
    for shp in ([2, 2], [3, 3], [2, 2, 2], [3, 3, 3], [2, 2, 2, 2]):
        N = len(shp)
        X = X_dense(shp, tgen.rand_dense(rng, shp, 0.9))
        if rng.random() < 0.5:
            X["hist"] = rng.choice(["entry", "block"])
        v = rand_vec(rng, shp[0])
        for skip in [None] + list(range(0, N - 1)):
            for ver in (None, 1, 2):
                cases.append(Case("ttsv", {"X": X, "v": v, "skip": skip, "ver": ver}, True))
        # wave 6: skip_dim = N - 1 (dnew = N: nothing is multiplied out, C02_ttsv_dense with dnew = d) for the default algorithm
        for ver in (None, 2):
            cases.append(Case("ttsv", {"X": X, "v": v, "skip": N - 1, "ver": ver}, True))
    # ---- ttsv rejection (0478ea5, C19-N28): the default algorithm ("version 2") must reject a tensor that is NOT cubical — also when it has shape[0] ** ndims
    #      entries, so that the reshape would go through — and skip_dim >= ndims: exactly the complement of the hypotheses of C02_ttsv_dense
    r6 = random.Random("C02-w6-ttsv")
    for shp in ([2, 4, 1], [4, 2, 8], [2, 3], [3, 2, 2], [2, 2, 3]) + (([3, 9, 1], [2, 1, 4], [1, 2]) if big else ()):
        shp = list(shp)
        X = X_dense(shp, tgen.rand_dense(r6, shp, 0.9))
        v = rand_vec(r6, shp[0])
        for skip in ([None, 0] if not big else [None] + list(range(len(shp) - 1))):
            for ver in (None, 2):
                cases.append(Case("ttsv", {"X": X, "v": v, "skip": skip, "ver": ver, "rej": True}, True))
    for shp in ([2, 2], [2, 2, 2]):
        X = X_dense(shp, tgen.rand_dense(r6, shp, 0.9))
        for skip in (len(shp), len(shp) + 1):
            cases.append(Case("ttsv", {"X": X, "v": rand_vec(r6, 2), "skip": skip, "ver": r6.choice([None, 2]), "rej": True}, True))
    return cases


# ---------------------------------------------------------------- running pyttb
def _arr(np, l):
    return None if l is None else np.array(l, dtype=int)


def run_impl(c):
    import numpy as np
    import pyttb as ttb
    a = c.args
    try:
        X = mk_obj(ttb, np, a["X"])
        if c.op == "ttv":
            vecs = [relayout(np, np.array(v, dtype=float), a.get("mlay", 0)) for v in a["vecs"]]
            if a["single"]:
                r = X.ttv(vecs[0], int(a["dims"][0]))
            else:
                r = X.ttv(vecs, dims=_arr(np, a["dims"]), exclude_dims=_arr(np, a["excl"]))
            return {"ok": obs_any(np, ttb, r)}
        if c.op == "ttm":
            mats = [relayout(np, mat_np(np, m), a.get("mlay", 0)) for m in a["mats"]]
            if a["single"]:
                r = X.ttm(mats[0], int(a["dims"][0]), transpose=a["tr"])
            else:
                r = X.ttm(mats, dims=_arr(np, a["dims"]), exclude_dims=_arr(np, a["excl"]), transpose=a["tr"])
            return {"ok": obs_any(np, ttb, r)}
        if c.op in ("mttkrp", "mttkrps"):
            R = len(a["U"]["factors"][0][0])
            fs = [relayout(np, mat_np(np, f, R), a.get("mlay", 0)) for f in a["U"]["factors"]]
            dt = a["U"].get("dt")
            if dt:            # mixed dtypes: int64 / float32 / float64 factors, values H / 2**e (exact)
                tps = {"int": np.int64, "f32": np.float32, "f64": np.float64}
                fs = [(f / 2.0 ** e).astype(tps[d]) if e else f.astype(tps[d]) for f, (d, e) in zip(fs, dt)]
            if a["U"]["weights"] is None:
                U = fs
            else:
                U = ttb.ktensor([np.array(f) for f in fs], np.array(a["U"]["weights"], dtype=float), copy=True)
                if a.get("mlay"):                         # factor matrices re-assigned by the user in another memory layout
                    for n_, f in enumerate(fs):
                        U.factor_matrices[n_] = f
            r = X.mttkrp(U, a["n"]) if c.op == "mttkrp" else X.mttkrps(U)
            if dt:            # scale back to the exact integers the Coq side computes with H
                esum = lambda n_: sum(e for m_, (_, e) in enumerate(dt) if m_ != n_)
                r = np.asarray(r, dtype=float) * 2.0 ** esum(a["n"]) if c.op == "mttkrp" else [np.asarray(x, dtype=float) * 2.0 ** esum(n_) for n_, x in enumerate(r)]
            return {"ok": obs_any(np, ttb, r)}
        if c.op == "innerprod":
            Y = mk_obj(ttb, np, a["Y"])
            out = {"ok": obs_any(np, ttb, X.innerprod(Y))}
            if isinstance(X, ttb.tensor) and isinstance(Y, ttb.tensor):
                # the operands' RAW data arrays: memory order + buffer in memory order (a tensor grown by assignment is C-ordered)
                lay = []
                for T_ in (X, Y):
                    d_ = T_.data
                    lo = "F" if d_.flags.f_contiguous else ("C" if d_.flags.c_contiguous else None)
                    lay.append([lo, [tgen.exact(v_) for v_ in d_.ravel(order="K")] if lo else None])
                if all(l_[0] for l_ in lay):
                    out["lay"] = lay
            return out
        if c.op == "norm":
            return {"ok": {"k": "float", "v": str(Fraction(float(X.norm())))}}
        if c.op == "collapse":
            r = X.collapse(_arr(np, a["dims"])) if a["X"]["rep"] == "dense" else X.collapse(_arr(np, a["dims"]))
            return {"ok": obs_any(np, ttb, r)}
        if c.op == "contract":
            return {"ok": obs_any(np, ttb, X.contract(a["i1"], a["i2"]))}
        if c.op == "scale":
            F = tgen.mk_tensor(ttb, np, a["fshape"], a["fdata"])
            if a["fkind"] == "sptensor":
                F = mk_obj(ttb, np, X_sparse(a["fshape"], *tgen.dense_to_sparse(a["fshape"], a["fdata"])))
            elif a["fkind"] == "ndarray":
                F = np.array(a["fdata"], dtype=float)
            return {"ok": obs_any(np, ttb, X.scale(F, np.array(a["dims"], dtype=int)))}
        if c.op == "mask":
            W = mk_obj(ttb, np, a["W"])
            wsubs = np.asarray(W.find()[0])
            r = np.asarray(X.mask(W))
            return {"ok": {"k": "mask", "wsubs": [[int(x) for x in row] for row in wsubs.reshape((-1, len(shape_of(a["X"]))))],
                           "vals": [tgen.exact(x) for x in r.ravel()], "vshape": [int(d) for d in r.shape]}}
        if c.op == "reconstruct":
            r = X.reconstruct([np.array(s, dtype=int) for s in a["samples"]], list(a["modes"]))
            return {"ok": obs_any(np, ttb, r)}
        if c.op == "ttt":
            Y = mk_obj(ttb, np, a["Y"])
            r = X.ttt(Y) if a["sd"] is None else X.ttt(Y, np.array(a["sd"], dtype=int), np.array(a["od"], dtype=int))
            return {"ok": obs_any(np, ttb, r)}
        if c.op == "ttsv":
            r = X.ttsv(np.array(a["v"], dtype=float), skip_dim=a["skip"], version=a["ver"])
            return {"ok": obs_any(np, ttb, r)}
    except Exception as ex:
        return {"exc": type(ex).__name__, "msg": str(ex)[:200]}
    raise ValueError(c.op)


# ---------------------------------------------------------------- the expected value, as a Gallina expression
def _ttv_pairs(a):
    N = len(shape_of(a["X"]))
    prs = designate(N, a["dims"], a["excl"], len(a["vecs"]))
    return [m for m, _ in prs], [a["vecs"][j] for _, j in prs]


def _ttm_pairs(a):
    N = len(shape_of(a["X"]))
    prs = designate(N, a["dims"], a["excl"], len(a["mats"]))
    return [(m, a["mats"][j]) for m, j in prs]



# ---------------------------------------------------------------- result container (both sides of every data-dependent switch)
def kind_rule(c):
    """what container pyttb's code prescribes for the result of a dense / sparse operand: a fixed kind, 'switch' (sparse result kept
    sparse iff at most half of its entries are nonzero, else densified) or None (not pinned)"""
    a = c.args
    X = a["X"]
    rep = X["rep"]
    if rep not in ("dense", "sparse"):
        return None
    shp = shape_of(X)
    N = len(shp)
    if c.op == "ttv":
        dims, _ = _ttv_pairs(a)
        if len(set(dims)) == N:
            return "scalar"
        return "dense" if rep == "dense" else "switch"
    if c.op == "collapse":
        dims = list(range(N)) if a["dims"] is None else a["dims"]
        rem = N - len(set(dims))
        if rem == 0:
            return "scalar"
        if rep == "dense":
            return "dense"
        return "array" if rem == 1 else "sparse"
    if c.op == "contract":
        if N == 2:
            return "scalar"
        return "dense" if rep == "dense" else "switch"
    if c.op == "scale":
        return rep
    if c.op == "mttkrp":
        return "array"
    if c.op == "ttm" and rep == "dense":
        return "dense"
    if c.op == "ttt":
        return "scalar" if len(a["sd"] or []) == N and len(a["od"] or []) == len(shape_of(a["Y"])) else "dense"
    return None


def gkind(c, ob, rs, f):
    """Gallina conjunct: the observed container is the prescribed one (the 50% rule is evaluated in Coq on the expected array)"""
    k = kind_rule(c)
    if k is None:
        return ""
    if k == "switch":
        if ob["k"] not in ("dense", "sparse"):
            return " && false"
        return f" && zswitch_ok {gnlist(rs)} {f} {'true' if ob['k'] == 'dense' else 'false'}"
    return "" if ob["k"] == k else " && false"


def kind_oracle(c, ob, want):
    k = kind_rule(c)
    if k is None:
        return None
    if k == "switch":
        vals = want[1]
        k = "dense" if 2 * sum(1 for v in vals if v != 0) > len(vals) else "sparse"
    if ob["k"] != k:
        return f"result container is {ob['k']} but the operation prescribes {k} for this input (scalar / 50%-fill switch)"
    return None


def _dlit(ob):
    """dense literal of a tensor / ndarray / scalar observation (a scalar is the 0-way array)"""
    return tgen.gdense(ob["shape"], ob["data"]) if ob["k"] in ("dense", "array") else tgen.gdense([], [ob["v"]])


def _recon_bad(a):
    """the request class of C19-N29: a mode outside [0, N) or a mode named twice"""
    N = len(shape_of(a["X"]))
    ms = list(a["modes"])
    return any(not 0 <= m < N for m in ms) or len(set(ms)) != len(ms)


def _recon_asis_modes(a):
    """C19-N29 open: the modes as the unrepaired code uses them (Python list indices: [-N, N) wraps around); None = IndexError"""
    N = len(shape_of(a["X"]))
    if any(not -N <= m < N for m in a["modes"]):
        return None
    return [m % N for m in a["modes"]]


def _recon_look(a):
    """mode -> rows actually used by reconstruct (an empty sample keeps the mode whole).  Admissible requests name every mode once; for the request class
    of C19-N29 while that finding is open: wrapped modes, the later (sample, mode) pair overrides an earlier one"""
    look = {}
    for m, s_ in zip(_recon_asis_modes(a), a["samples"]):
        look[m] = list(s_)
    return {m: s_ for m, s_ in look.items() if s_}


def _recon_rejected(a):
    """the single behaviour demanded of this reconstruct request is an exception"""
    return _recon_bad(a) and (N29_FIXED or _recon_asis_modes(a) is None)


def _glit(x):
    """operand literal in its own class (dense / sparse / Kruskal / Tucker)"""
    r = x["rep"]
    if r == "dense":
        return tgen.gdense(x["shape"], x["data"])
    if r == "sparse":
        return tgen.gsparse(x["shape"], x["subs"], x["vals"])
    if r == "k":
        return tgen.gktensor(x["weights"], x["factors"])
    if r == "t":
        return tgen.gttensor(x["core_shape"], x["core_data"], x["factors"])
    raise ValueError(r)


def _gparts(x):
    """the parts of a sumtensor literal as a list of Model/C02SumParts.v `part`s"""
    con = {"dense": "PD", "sparse": "PS", "k": "PK", "t": "PT"}
    return "[" + "; ".join(f"({con[p['rep']]} {_glit(p)})" for p in x["parts"]) + "]"


def _mttkrp_accepts(c):
    """Gallina bool: mttkrp AS CALLED accepts the operand (GENERATED get_mttkrp_factors + the row-count test of the non-skipped factors)"""
    a = c.args
    U = a["U"]
    lamo = "None" if U["weights"] is None else f"(Some {gzlist(U['weights'])})"
    Us = "[" + "; ".join(gmat(f) for f in U["factors"]) + "]"
    return f"(zmttkrp_accepts {gnlist(shape_of(a['X']))} {lamo} {Us} {gz(a['n'])})"


def _req_expr(c):
    """Gallina expression: the request-level model (Model/C02SpReq.v / C02HarnessW5.v) applied to the caller's raw arguments"""
    a = c.args
    X = a["X"]
    if c.op == "collapse" and X["rep"] == "sparse":
        return f"(zcollapse_req_sp {tgen.gsparse(X['shape'], X['subs'], X['vals'])} {gopt(a['dims'], gzlist)})"
    if c.op == "contract" and X["rep"] == "sparse":
        return f"(zcontract_req_sp {tgen.gsparse(X['shape'], X['subs'], X['vals'])} {gz(a['i1'])} {gz(a['i2'])})"
    if c.op == "contract" and X["rep"] == "dense":
        return f"(zcontract_req_dense {tgen.gdense(X['shape'], X['data'])} {gz(a['i1'])} {gz(a['i2'])})"
    if c.op == "scale" and X["rep"] == "sparse":
        nd = "true" if a["fkind"] == "ndarray" else "false"
        return (f"(zscale_req_sp {tgen.gsparse(X['shape'], X['subs'], X['vals'])} {gzlist(a['dims'])} {nd} {gnlist(a['fshape'])} "
                f"(zden {tgen.gdense(a['fshape'], a['fdata'])}))")
    raise ValueError((c.op, X["rep"]))


def coq_check(c, o):
    a = c.args
    if c.op == "reconstruct" and _recon_bad(a):          # request class of C19-N29 (see N29_FIXED): ONE behaviour per finding status
        X = a["X"]
        tl = tgen.gttensor(X['core_shape'], X['core_data'], X['factors'])
        smp = "[" + "; ".join(gnlist(s_) for s_ in a["samples"]) + "]"
        none = f"zopt_none (zimpl_reconstruct_req {tl} {gzlist(a['modes'])} {smp})"      # the model (9d2314a) rejects this class whatever the status
        if _recon_rejected(a):
            return none if "exc" in o else "false"
        if "exc" in o or not (o["ok"]["k"] == "dense" and obs_ints(o["ok"])):
            return "false"
        ob = o["ok"]
        shp = shape_of(X)
        sel = ["None"] * len(shp)
        rs = list(shp)
        for m, s_ in _recon_look(a).items():
            sel[m] = f"(Some {gnlist(s_)})"
            rs[m] = len(s_)
        return (none + " && " + gmatch(rs, f"(zsample [{'; '.join(sel)}] {gden(X)})", ob) +
                f" && dense_eqb (zimpl_reconstruct {tl} {gnlist(_recon_asis_modes(a))} {smp}) {tgen.gdense(ob['shape'], ob['data'])}")
    if a.get("rej"):            # rejection stream: the request is outside the operation's domain: pyttb must raise AND the request-level model must say Err
        if "exc" not in o:
            return "false"
        if c.op == "mttkrp":
            return f"negb {_mttkrp_accepts(c)}"
        if c.op == "ttsv":
            return f"negb (zttsv_accepts {gnlist(shape_of(a['X']))} {0 if a['skip'] is None else a['skip'] + 1})"
        return f"zres_err {_req_expr(c)}"
    if "exc" in o:
        return "false"          # every other request generated here is admissible
    ob = o["ok"]
    X = a["X"]
    shp = shape_of(X)
    N = len(shp)
    dX = gden(X)
    if c.op == "ttv":
        dims, vs = _ttv_pairs(a)
        rs = [shp[m] for m in range(N) if m not in dims]
        f = f"(zsp_ttv {dX} {gnlist(shp)} {gnlist(dims)} {gvecs(vs)})"
        e = gmatch(rs, f, ob) + gkind(c, ob, rs, f)
        if X["rep"] == "dense" and ob["k"] in ("dense", "scalar") and obs_ints(ob):
            order = sorted(range(len(dims)), key=lambda j: dims[j])
            sd, sv = [dims[j] for j in order], [vs[j] for j in order]
            lit = tgen.gdense(ob["shape"], ob["data"]) if ob["k"] == "dense" else tgen.gdense([], [ob["v"]])
            e += f" && dense_eqb (zimpl_ttv_dense {tgen.gdense(X['shape'], X['data'])} {gnlist(sd)} {gvecs(sv)}) {lit}"
            # the raw request as written by the caller, resolved by the GENERATED tt_dimscheck (Model/C02Modes.v)
            e += (f" && zres_is (zimpl_ttv_req {tgen.gdense(X['shape'], X['data'])} {gopt(a['dims'], gzlist)} "
                  f"{gopt(a['excl'], gzlist)} {gvecs(a['vecs'])}) {lit}")
        if X["rep"] == "sparse" and len(dims) == 1:          # coordinate-list model of sptensor.ttv (one mode), either side of the 50% switch
            e += " && " + gmatch(rs, f"(zimpl_ttv_sp1 {tgen.gsparse(X['shape'], X['subs'], X['vals'])} {dims[0]} {gzlist(vs[0])})", ob)
        if X["rep"] == "sparse":          # coordinate-list model of sptensor.ttv over all selected modes at once (sorted as tt_dimscheck does)
            order = sorted(range(len(dims)), key=lambda j: dims[j])
            sd, sv = [dims[j] for j in order], [vs[j] for j in order]
            e += " && " + gmatch(rs, f"(zimpl_ttv_sp {tgen.gsparse(X['shape'], X['subs'], X['vals'])} {gnlist(sd)} {gvecs(sv)})", ob)
            if rs and ob["k"] in ("dense", "sparse"):     # the 50% switch on the KERNEL's own result (Model/C02Switch.v, C02_switch_ttv_sparse)
                e += (f" && Bool.eqb (zdensify {gnlist(rs)} (zimpl_ttv_sp {tgen.gsparse(X['shape'], X['subs'], X['vals'])} {gnlist(sd)} {gvecs(sv)})) "
                      f"{'true' if ob['k'] == 'dense' else 'false'}")
            # the raw request as written by the caller, resolved by the GENERATED tt_dimscheck (Proofs/C02ReqGen.v, C02_ttv_sparse_req_caller)
            rq = (f"(zttv_req_sp {tgen.gsparse(X['shape'], X['subs'], X['vals'])} {gopt(a['dims'], gzlist)} "
                  f"{gopt(a['excl'], gzlist)} {gvecs(a['vecs'])})")
            e += f" && zres_ok {rq} && " + gmatch(rs, f"(zmemo {gnlist(rs)} (zres_get (fun _ => 0%Z) {rq}))", ob)
        if X["rep"] == "t" and obs_ints(ob) and (ob["k"] == "scalar" or (ob["k"] == "ttensor" and ob["core"]["k"] == "dense")):
            # ttensor.ttv (Model/C02Tucker.v): raw new core and remaining factors; no mode left: float(newcore)
            order = sorted(range(len(dims)), key=lambda j: dims[j])
            sd, sv = [dims[j] for j in order], [vs[j] for j in order]
            mdl = f"(zimpl_ttv_t {tgen.gttensor(X['core_shape'], X['core_data'], X['factors'])} {gnlist(sd)} {gvecs(sv)})"
            # ... and the raw request resolved by the GENERATED tt_dimscheck (C02_ttv_tucker_req_caller): the same Tucker tensor
            rq = (f"(zttv_req_t {tgen.gttensor(X['core_shape'], X['core_data'], X['factors'])} {gopt(a['dims'], gzlist)} "
                  f"{gopt(a['excl'], gzlist)} {gvecs(a['vecs'])})")
            e += f" && zres_ok {rq} && t_eqb (zres_get {mdl} {rq}) {mdl}"
            if ob["k"] == "ttensor":
                e += (f" && t_eqb {mdl} (mkT {tgen.gdense(ob['core']['shape'], ob['core']['data'])} "
                      f"[{'; '.join(gmat(f_) for f_ in ob['factors'])}])")
            else:
                e += f" && dense_eqb (tcore {mdl}) {tgen.gdense([], [ob['v']])}"
        if X["rep"] == "k" and obs_ints(ob) and ob["k"] in ("ktensor", "scalar"):
            # ktensor.ttv over all selected modes (Model/C02KruskalMore.v): raw weights and remaining factors; no mode left: sum(new_weights)
            order = sorted(range(len(dims)), key=lambda j: dims[j])
            sd, sv = [dims[j] for j in order], [vs[j] for j in order]
            mdl = f"(zimpl_ttv_k {tgen.gktensor(X['weights'], X['factors'])} {gnlist(sd)} {gvecs(sv)})"
            # ... and the raw request resolved by the GENERATED tt_dimscheck (C02_ttv_kruskal_req_caller): the same Kruskal tensor
            rq = (f"(zttv_req_k {tgen.gktensor(X['weights'], X['factors'])} {gopt(a['dims'], gzlist)} "
                  f"{gopt(a['excl'], gzlist)} {gvecs(a['vecs'])})")
            e += f" && zres_ok {rq} && k_eqb (zres_get {mdl} {rq}) {mdl}"
            if ob["k"] == "ktensor":
                e += f" && k_eqb {mdl} {tgen.gktensor(ob['weights'], ob['factors'])}"
            else:
                e += f" && (zsumw {mdl} =? {gz(ob['v'])})%Z"
        if X["rep"] == "sum":          # sumtensor.ttv part by part, every part by its own ttv model (C02_sum_ttv_parts)
            order = sorted(range(len(dims)), key=lambda j: dims[j])
            sd, sv = [dims[j] for j in order], [vs[j] for j in order]
            e += " && " + gmatch(rs, f"(zttv_sum {_gparts(X)} {gnlist(sd)} {gvecs(sv)})", ob)
        if X["rep"] == "k" and len(dims) == 1 and ob["k"] == "ktensor" and obs_ints(ob):
            e += (f" && k_eqb (zimpl_ttv_k1 {tgen.gktensor(X['weights'], X['factors'])} {dims[0]} {gzlist(vs[0])}) "
                  f"{tgen.gktensor(ob['weights'], ob['factors'])}")
        return e
    if c.op == "ttm":
        prs = _ttm_pairs(a)
        rs = list(shp)
        items = []
        for m, U in prs:
            J = len(U[0]) if a["tr"] else len(U)
            rs[m] = J
            items.append(f"({m}%nat, ({J}%nat, {gmat(U)}))")
        trb = 'true' if a['tr'] else 'false'
        f = f"(zsp_ttm_list {dX} {gnlist(shp)} [{'; '.join(items)}] {trb})"
        e = gmatch(rs, f, ob) + gkind(c, ob, rs, f)
        if X["rep"] == "dense" and ob["k"] == "dense" and obs_ints(ob):
            m = tgen.gdense(X["shape"], X["data"])
            for n_, U in sorted(prs, key=lambda p: p[0]):        # pyttb multiplies mode by mode in ascending mode order
                m = f"(zimpl_ttm_dense {m} {n_} {gmat(U)} {len(U[0]) if a['tr'] else len(U)} {trb})"
            e += f" && dense_eqb {m} {tgen.gdense(ob['shape'], ob['data'])}"
            ms = "[" + "; ".join(f"({len(U[0]) if a['tr'] else len(U)}%nat, {gmat(U)})" for U in a["mats"]) + "]"
            e += (f" && zres_is (zimpl_ttm_req {tgen.gdense(X['shape'], X['data'])} {gopt(a['dims'], gzlist)} "
                  f"{gopt(a['excl'], gzlist)} {ms} {trb}) {tgen.gdense(ob['shape'], ob['data'])}")
        if X["rep"] == "t" and ob["k"] == "ttensor" and obs_ints(ob) and ob["core"]["k"] == "dense":
            # ttensor.ttm (Model/C02Tucker.v): every selected factor replaced by M U_n / M^T U_n, core kept: raw core and factors
            items_s = "; ".join(f"({m_}%nat, ({len(U[0]) if a['tr'] else len(U)}%nat, {gmat(U)}))" for m_, U in sorted(prs, key=lambda p: p[0]))
            e += (f" && t_eqb (zimpl_ttm_t {tgen.gttensor(X['core_shape'], X['core_data'], X['factors'])} [{items_s}] {trb}) "
                  f"(mkT {tgen.gdense(ob['core']['shape'], ob['core']['data'])} [{'; '.join(gmat(f_) for f_ in ob['factors'])}])")
            # the raw request resolved by the GENERATED tt_dimscheck (Proofs/C02ReqGenTtm.v, C02_ttm_tucker_req_caller)
            ms = "[" + "; ".join(f"({len(U[0]) if a['tr'] else len(U)}%nat, {gmat(U)})" for U in a["mats"]) + "]"
            rq = (f"(zttm_req_t {tgen.gttensor(X['core_shape'], X['core_data'], X['factors'])} {gopt(a['dims'], gzlist)} "
                  f"{gopt(a['excl'], gzlist)} {ms} {trb})")
            obsT = f"(mkT {tgen.gdense(ob['core']['shape'], ob['core']['data'])} [{'; '.join(gmat(f_) for f_ in ob['factors'])}])"
            e += f" && zres_ok {rq} && t_eqb (zres_get {obsT} {rq}) {obsT}"
        if X["rep"] == "sparse":
            # sptensor.ttm: the first sorted mode on the coordinate list (Model/C02SpMore.v), its (dense) result through tensor.ttm for the others
            sp = sorted(prs, key=lambda p: p[0])
            n0, U0 = sp[0]
            s1 = list(shp)
            s1[n0] = len(U0[0]) if a["tr"] else len(U0)
            m = f"(ztab {gnlist(s1)} (zimpl_ttm_sp {tgen.gsparse(X['shape'], X['subs'], X['vals'])} {n0} {gmat(U0)} {trb}))"
            for n_, U in sp[1:]:
                m = f"(zimpl_ttm_dense {m} {n_} {gmat(U)} {len(U[0]) if a['tr'] else len(U)} {trb})"
            e += " && " + gmatch(rs, f"(zden {m})", ob)
            # the raw request resolved by the GENERATED tt_dimscheck (C02_ttm_sparse_req_caller)
            ms = "[" + "; ".join(f"({len(U[0]) if a['tr'] else len(U)}%nat, {gmat(U)})" for U in a["mats"]) + "]"
            rq = (f"(zttm_req_sp {tgen.gsparse(X['shape'], X['subs'], X['vals'])} {gopt(a['dims'], gzlist)} "
                  f"{gopt(a['excl'], gzlist)} {ms} {trb})")
            e += f" && zres_ok {rq} && " + gmatch(rs, f"(zden (zres_get (mkDense (@nil nat) (@nil Z)) {rq}))", ob)
        return e
    if c.op in ("mttkrp", "mttkrps"):
        U = a["U"]
        R = len(U["factors"][0][0])
        lam = gzlist(U["weights"]) if U["weights"] is not None else f"(ones {R})"
        Us = "[" + "; ".join(gmat(f) for f in U["factors"]) + "]"

        def one(n, obn):
            f = f"(fun i_ => zsp_mttkrp {dX} {gnlist(shp)} {n} {lam} {Us} (nth 0 i_ 0%nat) (nth 1 i_ 0%nat))"
            return gmatch([shp[n], R], f, obn)
        if c.op == "mttkrp":
            e = one(a["n"], ob) + gkind(c, ob, None, None)
            # the factor list the kernels receive: get_mttkrp_factors absorbs a Kruskal operand's weights (Model/C02Absorb.v)
            # ... and what the translator-GENERATED get_mttkrp_factors (Gen/GenUtils3.v, Model/C02HarnessW4.v) returns for this operand: it must
            # accept, agree with the hand model, and ITS list is what the kernel models below receive
            UsH = Us if U["weights"] is None else f"(zget_mttkrp_factors_k {lam} {Us} {a['n']})"
            lamo = "None" if U["weights"] is None else f"(Some {lam})"
            UsK = f"(zgen_mttkrp_factors {lamo} {Us} {a['n']})"
            e += f" && zgen_mttkrp_accepts {lamo} {Us} {a['n']} && zfactors_eqb {UsK} {UsH} && {_mttkrp_accepts(c)}"
            if X["rep"] == "dense" and ob["k"] == "array" and obs_ints(ob):
                e += (f" && dense_eqb (zimpl_mttkrp_dense {tgen.gdense(X['shape'], X['data'])} "
                      f"{UsK} {a['n']} {R}) {tgen.gdense(ob['shape'], ob['data'])}")
                # the same kernel with its Khatri-Rao products computed by the GENERATED pyttb.khatrirao (Model/C02MttkrpGen.v, C02_mttkrp_dense_genkr)
                e += (f" && zres_is (zmttkrp_dense_genkr {tgen.gdense(X['shape'], X['data'])} {UsK} {a['n']} {R}) "
                      f"{tgen.gdense(ob['shape'], ob['data'])}")
            if X["rep"] in ("sparse", "k"):
                lit = (f"zimpl_mttkrp_sp {tgen.gsparse(X['shape'], X['subs'], X['vals'])}" if X["rep"] == "sparse"
                       else f"zimpl_mttkrp_k {tgen.gktensor(X['weights'], X['factors'])}")
                e += " && " + gmatch([shp[a["n"]], R], f"(fun i_ => {lit} {UsK} {a['n']} (nth 0 i_ 0%nat) (nth 1 i_ 0%nat))", ob)
            if X["rep"] == "sum":    # sumtensor.mttkrp part by part, every part by its own mttkrp model (C02_sum_mttkrp_parts)
                e += " && " + gmatch([shp[a["n"]], R], f"(fun i_ => zmttkrp_sum {_gparts(X)} {UsK} {a['n']} {R} (nth 0 i_ 0%nat) (nth 1 i_ 0%nat))", ob)
            if X["rep"] == "t":      # ttensor.mttkrp (Model/C02Tucker.v): U_n (core.mttkrp(U_i^T V_i, n))
                lit = f"zimpl_mttkrp_t {tgen.gttensor(X['core_shape'], X['core_data'], X['factors'])}"
                e += " && " + gmatch([shp[a["n"]], R], f"(fun i_ => {lit} {UsK} {a['n']} {R} (nth 0 i_ 0%nat) (nth 1 i_ 0%nat))", ob)
            return e
        if ob["k"] != "list" or len(ob["items"]) != N:
            return "false"
        e = " && ".join(one(n, ob["items"][n]) for n in range(N))
        if (X["rep"] == "dense" and N >= 2 and all(d >= 1 for d in shp) and all(it["k"] == "array" for it in ob["items"]) and obs_ints(ob)):
            # the byte-level algorithm (min_split, both sweeps, mttv_left / mttv_mid: C12's mttkrps_b, C02_mttkrps_dense) at the split index
            # the code computes; a Kruskal operand's weights scale the columns of every result
            lits = "[" + "; ".join(tgen.gdense(it["shape"], it["data"]) for it in ob["items"]) + "]"
            e += f" && zmttkrps_ok {tgen.gdense(X['shape'], X['data'])} {Us} {lam} {R} {lits}"
        return e
    if c.op == "innerprod":
        if ob["k"] != "scalar" or not isinstance(ob["v"], int):
            return "false"
        e = f"(zsp_innerprod {dX} {gden(a['Y'])} {gnlist(shp)} =? {gz(ob['v'])})%Z"
        Y = a["Y"]
        reps = (X["rep"], Y["rep"])
        if reps == ("sparse", "sparse"):
            e += f" && (zimpl_innerprod_sp_sp {tgen.gsparse(X['shape'], X['subs'], X['vals'])} {tgen.gsparse(Y['shape'], Y['subs'], Y['vals'])} =? {gz(ob['v'])})%Z"
        if reps in (("sparse", "dense"), ("dense", "sparse")):
            S, T = (X, Y) if reps[0] == "sparse" else (Y, X)
            e += f" && (zimpl_innerprod_sp_dense {tgen.gsparse(S['shape'], S['subs'], S['vals'])} {tgen.gdense(T['shape'], T['data'])} =? {gz(ob['v'])})%Z"
        if reps in (("t", "dense"), ("dense", "t")):       # ttensor.innerprod(tensor), both sides of its size switch (Model/C02TuckerFull.v)
            Tt, Xd = (X, Y) if reps[0] == "t" else (Y, X)
            e += (f" && (zimpl_innerprod_t_dense {tgen.gttensor(Tt['core_shape'], Tt['core_data'], Tt['factors'])} "
                  f"{tgen.gdense(Xd['shape'], Xd['data'])} =? {gz(ob['v'])})%Z")
        if reps in (("t", "sparse"), ("sparse", "t")):     # ttensor.innerprod(sptensor), both sides of its size switch (C02_innerprod_tucker_sparse)
            Tt, Ss = (X, Y) if reps[0] == "t" else (Y, X)
            if len(shape_of(Tt)) >= 1:
                e += (f" && (zimpl_innerprod_t_sp {tgen.gttensor(Tt['core_shape'], Tt['core_data'], Tt['factors'])} "
                      f"{tgen.gsparse(Ss['shape'], Ss['subs'], Ss['vals'])} =? {gz(ob['v'])})%Z")
        if reps == ("t", "t"):                             # ttensor.innerprod(ttensor): smaller core first
            e += (f" && (zimpl_innerprod_tt {tgen.gttensor(X['core_shape'], X['core_data'], X['factors'])} "
                  f"{tgen.gttensor(Y['core_shape'], Y['core_data'], Y['factors'])} =? {gz(ob['v'])})%Z")
        if "k" in reps and ("dense" in reps or "sparse" in reps):
            # ktensor.innerprod(tensor | sptensor) = sum_r w_r * other.ttv(columns r) with the operand's own ttv model (C02_innerprod_kruskal_any)
            Kk, Oo = (X, Y) if reps[0] == "k" else (Y, X)
            if Oo["rep"] == "dense":
                e += f" && (zimpl_innerprod_k_dense {tgen.gktensor(Kk['weights'], Kk['factors'])} {tgen.gdense(Oo['shape'], Oo['data'])} =? {gz(ob['v'])})%Z"
            else:
                e += f" && (zimpl_innerprod_k_sp {tgen.gktensor(Kk['weights'], Kk['factors'])} {tgen.gsparse(Oo['shape'], Oo['subs'], Oo['vals'])} =? {gz(ob['v'])})%Z"
        if reps[0] == "sum":     # sumtensor.innerprod part by part (C02_sum_innerprod_parts_dense / _sparse / _kruskal / _tucker)
            fn = {"dense": "zinnerprod_sum_dense", "sparse": "zinnerprod_sum_sp", "k": "zinnerprod_sum_k", "t": "zinnerprod_sum_t"}[reps[1]]
            e += f" && ({fn} {_gparts(X)} {_glit(Y)} =? {gz(ob['v'])})%Z"
        if "k" in reps and reps != ("k", "k") and "sum" not in reps:
            # ktensor.innerprod(tensor | sptensor | ttensor), ring-generic loop model (C02_innerprod_kruskal_dense / _sparse / _tucker)
            Kk, Oo = (X, Y) if reps[0] == "k" else (Y, X)
            fn = {"dense": "zinnerprod_k_dense_r", "sparse": "zinnerprod_k_sp_r", "t": "zinnerprod_k_t_r"}[Oo["rep"]]
            e += f" && ({fn} {_glit(Kk)} {_glit(Oo)} =? {gz(ob['v'])})%Z"
        if reps == ("k", "k"):
            e += f" && (zimpl_innerprod_kk {tgen.gktensor(X['weights'], X['factors'])} {tgen.gktensor(Y['weights'], Y['factors'])} =? {gz(ob['v'])})%Z"
        if X["rep"] == "dense" and a["Y"]["rep"] == "dense":
            e += (f" && (zimpl_innerprod_dense {tgen.gdense(X['shape'], X['data'])} "
                  f"{tgen.gdense(a['Y']['shape'], a['Y']['data'])} =? {gz(ob['v'])})%Z")
            if o.get("lay") and all(tgen.all_int(l_[1]) for l_ in o["lay"]):
                # the raw arrays (memory order, buffer) of the constructed operands: they denote the operand literals, and the logical F-order
                # flattening + dot of Model/C02Layout.v (C02_innerprod_dense_layout) gives pyttb's number
                (lx, bx), (ly, by) = o["lay"]
                LX = f"(zmkL {gnlist(shp)} L{lx} {gzlist(bx)})"
                LY = f"(zmkL {gnlist(shp)} L{ly} {gzlist(by)})"
                e += (f" && fun_matches {gnlist(shp)} (den_l 0%Z {LX}) {dX} && fun_matches {gnlist(shp)} (den_l 0%Z {LY}) {gden(a['Y'])}"
                      f" && (zinnerprod_l {LX} {LY} =? {gz(ob['v'])})%Z")
        return e
    if c.op == "norm":
        q = gq(Fraction(ob["v"]))
        e = f"qclose tol9 (Qcmult {q} {q}) (Q2Qc (inject_Z (zsp_normsq {dX} {gnlist(shp)})))"
        if X["rep"] == "sparse":
            e += f" && qclose tol9 (Qcmult {q} {q}) (Q2Qc (inject_Z (zimpl_normsq_sp {tgen.gsparse(X['shape'], X['subs'], X['vals'])})))"
        if X["rep"] == "k":
            e += f" && qclose tol9 (Qcmult {q} {q}) (Q2Qc (inject_Z (zimpl_normsq_k {tgen.gktensor(X['weights'], X['factors'])})))"
        if X["rep"] == "t":
            e += f" && qclose tol9 (Qcmult {q} {q}) (Q2Qc (inject_Z (zimpl_normsq_t {tgen.gttensor(X['core_shape'], X['core_data'], X['factors'])})))"
        if X["rep"] == "dense":
            e += f" && qclose tol9 (Qcmult {q} {q}) (Q2Qc (inject_Z (zimpl_normsq_dense {tgen.gdense(X['shape'], X['data'])})))"
        return e
    if c.op == "collapse":
        dims = list(range(N)) if a["dims"] is None else a["dims"]
        rs = [shp[m] for m in range(N) if m not in dims]
        f = f"(zsp_collapse {dX} {gnlist(shp)} {gnlist(sorted(dims))})"
        e = gmatch(rs, f, ob) + gkind(c, ob, rs, f)
        if X["rep"] == "dense" and ob["k"] in ("dense", "scalar") and obs_ints(ob):     # transliteration of tensor.collapse (Model/C02Tenmat.v)
            e += f" && dense_eqb (zimpl_collapse_dense {tgen.gdense(X['shape'], X['data'])} {gnlist(sorted(dims))}) {_dlit(ob)}"
            # the call as written (dims in the caller's order, or None), resolved by the GENERATED tt_dimscheck (Model/C02DimsReq.v)
            e += f" && zres_is (zimpl_collapse_req {tgen.gdense(X['shape'], X['data'])} {gopt(a['dims'], gzlist)}) {_dlit(ob)}"
        if X["rep"] == "sparse":
            e += " && " + gmatch(rs, f"(zimpl_collapse_sp {tgen.gsparse(X['shape'], X['subs'], X['vals'])} {gnlist(sorted(dims))})", ob)
            # the call as written (dims in the caller's order, or None), resolved by the GENERATED tt_dimscheck (Model/C02SpReq.v, C02_collapse_sparse_req_caller / _all)
            rq = _req_expr(c)
            e += f" && zres_accepts {rq} && " + gmatch(rs, f"(zmemo {gnlist(rs)} (zres_fun {rq}))", ob)
        return e
    if c.op == "contract":
        rs = [shp[m] for m in range(N) if m not in (a["i1"], a["i2"])]
        f = f"(zsp_contract {dX} {gnlist(shp)} {a['i1']} {a['i2']})"
        e = gmatch(rs, f, ob) + gkind(c, ob, rs, f)
        if X["rep"] == "dense" and ob["k"] in ("dense", "scalar") and obs_ints(ob):
            e += f" && dense_eqb (zimpl_contract_dense {tgen.gdense(X['shape'], X['data'])} {a['i1']} {a['i2']}) {_dlit(ob)}"
            # the call as written: range / size / distinctness tests in front of the kernel (Model/C02SpReq.v, C02_contract_dense_req)
            e += f" && zres_is {_req_expr(c)} {_dlit(ob)}"
        if X["rep"] == "sparse":
            e += " && " + gmatch(rs, f"(zimpl_contract_sp {tgen.gsparse(X['shape'], X['subs'], X['vals'])} {a['i1']} {a['i2']})", ob)
            if rs and ob["k"] in ("dense", "sparse"):     # the 50% switch on the kernel's own result (C02_switch_contract_sparse)
                e += (f" && Bool.eqb (zdensify {gnlist(rs)} (zimpl_contract_sp {tgen.gsparse(X['shape'], X['subs'], X['vals'])} {a['i1']} {a['i2']})) "
                      f"{'true' if ob['k'] == 'dense' else 'false'}")
            rq = _req_expr(c)                                # C02_contract_sparse_req
            e += f" && zres_accepts {rq} && " + gmatch(rs, f"(zmemo {gnlist(rs)} (zres_fun {rq}))", ob)
        return e
    if c.op == "scale":
        sd = sorted(a["dims"])
        g = f"(zden {tgen.gdense(a['fshape'], a['fdata'])})"
        e = gmatch(shp, f"(zsp_scale {dX} {gnlist(sd)} {g})", ob) + gkind(c, ob, None, None)
        if X["rep"] == "dense" and ob["k"] == "dense" and obs_ints(ob):
            e += (f" && dense_eqb (zimpl_scale_dense {tgen.gdense(X['shape'], X['data'])} {gnlist(sd)} "
                  f"{tgen.gdense(a['fshape'], a['fdata'])}) {_dlit(ob)}")
            e += (f" && zres_is (zimpl_scale_req {tgen.gdense(X['shape'], X['data'])} {gzlist(a['dims'])} "
                  f"{tgen.gdense(a['fshape'], a['fdata'])}) {_dlit(ob)}")
        if X["rep"] == "sparse" and ob["k"] == "sparse" and obs_ints(ob):
            # stored lists of the result: the operand's stored order, annihilated entries dropped (raw comparison unless the operand
            # arose from a computation, whose stored order is pyttb's own)
            mdl = f"(zimpl_scale_sp {tgen.gsparse(X['shape'], X['subs'], X['vals'])} {gnlist(sd)} {g})"
            lit = tgen.gsparse(ob["shape"], ob["subs"], ob["vals"])
            if X.get("origin") is None and X["subs"]:
                e += f" && sp_raw_eqb {mdl} {lit}"
            e += f" && wf_spb zisz {lit} && fun_matches {gnlist(shp)} (zden_sp {mdl}) (zden_sp {lit})"
            # the call as written: tt_dimscheck (GENERATED), the factor's shape test (before the "nothing stored" return: d89c921), the kernel
            # (Model/C02SpReq.v, C02_scale_sparse_req); raw stored lists when the operand's stored order is the literal's
            rq = _req_expr(c)
            e += f" && zres_accepts {rq} && fun_matches {gnlist(shp)} (zden_sp (zres_sp {rq})) (zden_sp {lit})"
            if X.get("origin") is None and X["subs"]:
                e += f" && sp_raw_eqb (zres_sp {rq}) {lit}"
        return e
    if c.op == "mask":
        if not tgen.all_int(ob["vals"]):
            return "false"
        W = a["W"]
        wnz = sum(1 for v in pdense(W) if v != 0)
        dW = gden(W)
        ws = gnmat(ob["wsubs"])
        extra = ""
        if X["rep"] == "dense":
            extra = f" && vec_eqb (zimpl_mask_dense {tgen.gdense(X['shape'], X['data'])} {ws}) {gzlist(ob['vals'])}"
        if X["rep"] == "sparse":
            extra = f" && vec_eqb (zimpl_mask_sp {tgen.gsparse(X['shape'], X['subs'], X['vals'])} {ws}) {gzlist(ob['vals'])}"
        return (f"(Nat.eqb (length {ws}) {wnz} && nodupb {ws} && forallb (fun i_ => negb ({dW} i_ =? 0)%Z && inb {gnlist(shp)} i_) {ws} "
                f"&& vec_eqb (map {dX} {ws}) {gzlist(ob['vals'])})") + extra
    if c.op == "reconstruct":
        sel = ["None"] * N
        rs = list(shp)
        look = _recon_look(a)
        for m, s in look.items():
            sel[m] = f"(Some {gnlist(s)})"
            rs[m] = len(s)
        e = gmatch(rs, f"(zsample [{'; '.join(sel)}] {dX})", ob)
        if X["rep"] == "t" and ob["k"] == "dense" and obs_ints(ob):
            # ttensor.reconstruct AS CALLED (Model/C02Reconstruct.v, C02_reconstruct_tucker): the caller's (samples, modes) lists (integer modes); the
            # model applies the request test, fills full_samples, selects the rows and runs full()
            smp = "[" + "; ".join(gnlist(s_) for s_ in a["samples"]) + "]"
            e += (f" && zopt_is (zimpl_reconstruct_req {tgen.gttensor(X['core_shape'], X['core_data'], X['factors'])} {gzlist(a['modes'])} {smp}) "
                  f"{tgen.gdense(ob['shape'], ob['data'])}")
        return e
    if c.op == "ttt":
        Y = a["Y"]
        s2 = shape_of(Y)
        sd, od = (a["sd"] or []), (a["od"] or [])
        rs = [shp[m] for m in range(N) if m not in sd] + [s2[m] for m in range(len(s2)) if m not in od]
        e = gmatch(rs, f"(zsp_ttt {dX} {gnlist(shp)} {gden(Y)} {gnlist(s2)} {gnlist(sd)} {gnlist(od)})", ob) + gkind(c, ob, None, None)
        if ob["k"] in ("dense", "scalar") and obs_ints(ob):
            e += (f" && dense_eqb (zimpl_ttt_dense {tgen.gdense(X['shape'], X['data'])} {tgen.gdense(Y['shape'], Y['data'])} "
                  f"{gnlist(sd)} {gnlist(od)}) {_dlit(ob)}")
            # the same call with both matricisations resolved by the GENERATED gather_wrap_dims (Model/C02TenmatReq.v)
            e += (f" && zres_is (zimpl_ttt_req {tgen.gdense(X['shape'], X['data'])} {tgen.gdense(Y['shape'], Y['data'])} "
                  f"{gzlist(sd)} {gzlist(od)}) {_dlit(ob)}")
        return e
    if c.op == "ttsv":
        first = 0 if a["skip"] is None else a["skip"] + 1
        dims = list(range(first, N))
        rs = shp[:first]
        f = f"(zsp_ttv {dX} {gnlist(shp)} {gnlist(dims)} {gvecs([a['v']] * len(dims))})"
        e = gmatch(rs, f, ob)
        if a["ver"] in (None, 2) and ob["k"] in ("dense", "array", "scalar") and obs_ints(ob):
            # the "version 2" loop (Model/C02Ttsv.v, C02_ttsv_dense): raw result
            e += f" && dense_eqb (zimpl_ttsv {tgen.gdense(X['shape'], X['data'])} {gzlist(a['v'])} {first}) {_dlit(ob)}"
            e += f" && zttsv_accepts {gnlist(shp)} {first}"
        return e
    raise ValueError(c.op)


# ---------------------------------------------------------------- independent brute-force oracle (pure Python loops)
def expected(c, o=None):
    """(shape, F-order values) the property demands, computed from the dense expansion of the operands"""
    a = c.args
    X = a["X"]
    shp = shape_of(X)
    N = len(shp)
    F = pfun(X)

    def collect(rs, contrib):
        acc = {tuple(i): 0 for i in all_subs(rs)}
        for key, val in contrib:
            acc[key] += val
        return rs, [acc[tuple(i)] for i in all_subs(rs)]
    if c.op in ("ttv", "ttsv"):
        if c.op == "ttv":
            dims, vs = _ttv_pairs(a)
        else:
            dims = list(range(0 if a["skip"] is None else a["skip"] + 1, N))
            vs = [a["v"]] * len(dims)
        rem = [m for m in range(N) if m not in dims]

        def gen():
            for i, x in F.items():
                p = x
                for m, v in zip(dims, vs):
                    p *= v[i[m]]
                yield tuple(i[m] for m in rem), p
        return collect([shp[m] for m in rem], gen())
    if c.op == "ttm":
        cur, cs = F, list(shp)
        for m, U in _ttm_pairs(a):
            J = len(U[0]) if a["tr"] else len(U)
            ns = list(cs)
            ns[m] = J
            new = {tuple(i): 0 for i in all_subs(ns)}
            for i, x in cur.items():
                for j in range(J):
                    u = U[i[m]][j] if a["tr"] else U[j][i[m]]
                    new[i[:m] + (j,) + i[m + 1:]] += u * x
            cur, cs = new, ns
        return cs, [cur[tuple(i)] for i in all_subs(cs)]
    if c.op in ("mttkrp", "mttkrps"):
        U = a["U"]
        R = len(U["factors"][0][0])
        lam = U["weights"] if U["weights"] is not None else [1] * R

        def one(n):
            def gen():
                for i, x in F.items():
                    for r in range(R):
                        p = x * lam[r]
                        for m in range(N):
                            if m != n:
                                p *= U["factors"][m][i[m]][r]
                        yield (i[n], r), p
            return collect([shp[n], R], gen())
        return one(a["n"]) if c.op == "mttkrp" else [one(n) for n in range(N)]
    if c.op == "innerprod":
        G = pfun(a["Y"])
        return [], [sum(F[i] * G[i] for i in F)]
    if c.op == "norm":
        return [], [sum(x * x for x in F.values())]
    if c.op == "collapse":
        dims = list(range(N)) if a["dims"] is None else a["dims"]
        rem = [m for m in range(N) if m not in dims]
        return collect([shp[m] for m in rem], ((tuple(i[m] for m in rem), x) for i, x in F.items()))
    if c.op == "contract":
        rem = [m for m in range(N) if m not in (a["i1"], a["i2"])]
        return collect([shp[m] for m in rem], ((tuple(i[m] for m in rem), x) for i, x in F.items() if i[a["i1"]] == i[a["i2"]]))
    if c.op == "scale":
        sd = sorted(a["dims"])
        G = dict(zip(map(tuple, all_subs(a["fshape"])), a["fdata"]))
        return shp, [F[tuple(i)] * G[tuple(i[m] for m in sd)] for i in all_subs(shp)]
    if c.op == "mask":
        return None, [F[tuple(s)] for s in o["ok"]["wsubs"]]
    if c.op == "reconstruct":
        rs = list(shp)
        look = _recon_look(a)
        for m, s in look.items():
            rs[m] = len(s)
        return rs, [F[tuple(look[m][x] if m in look else x for m, x in enumerate(i))] for i in all_subs(rs)]
    if c.op == "ttt":
        G = pfun(a["Y"])
        s2 = shape_of(a["Y"])
        sd, od = (a["sd"] or []), (a["od"] or [])
        r1 = [m for m in range(N) if m not in sd]
        r2 = [m for m in range(len(s2)) if m not in od]

        def gen():
            for i, x in F.items():
                for j, y in G.items():
                    if all(i[p] == j[q] for p, q in zip(sd, od)):
                        yield tuple(i[m] for m in r1) + tuple(j[m] for m in r2), x * y
        return collect([shp[m] for m in r1] + [s2[m] for m in r2], gen())
    raise ValueError(c.op)


def oracle(c, o):
    if c.op == "reconstruct" and _recon_bad(c.args):
        if _recon_rejected(c.args):
            return None if "exc" in o else ("reconstruct answered a request with a negative / out-of-range / repeated mode"
                                            + (" (C19-N29 is repaired: rejection demanded)" if N29_FIXED else ""))
        if "exc" in o:
            return f"C19-N29 is open (modes used as list indices) but the request raised {o['exc']}: {o.get('msg')}"
    if c.args.get("rej"):
        return None if "exc" in o else ("a request outside the operation's domain (mode negative / out of range / repeated, unequally sized modes, ill-shaped "
                                        "scaling factor) was answered: no sum over indices is defined for it")
    if "exc" in o:
        return f"admissible request raised {o['exc']}: {o.get('msg')}"
    ob = o["ok"]
    if c.op == "norm":
        n = float(Fraction(ob["v"]))
        want = expected(c)[1][0]
        return None if abs(n * n - want) <= 1e-9 * max(1, want) else f"norm()^2 = {n * n} but the sum of squares is {want}"
    if c.op == "mask":
        want = expected(c, o)[1]
        W = pfun(c.args["W"])
        nz = sorted(i for i, v in W.items() if v != 0)
        if sorted(map(tuple, ob["wsubs"])) != nz:
            return None          # find() itself is not under test here
        return None if ob["vals"] == want else f"mask returned {ob['vals']} but the values at the mask's nonzeros are {want}"
    if c.op == "mttkrps":
        want = expected(c)
        if ob["k"] != "list" or len(ob["items"]) != len(want):
            return "mttkrps did not return one matrix per mode"
        for n, (w, g) in enumerate(zip(want, ob["items"])):
            got = obs_pdense(g)
            if [list(got[0]), list(got[1])] != [list(w[0]), list(w[1])]:
                return f"mode-{n} result {got} differs from the defining sum {w}"
        return None
    want = expected(c)
    got = obs_pdense(ob)
    if list(got[0]) != list(want[0]) or list(got[1]) != list(want[1]):
        return f"result {got} differs from the defining sum over indices {want}"
    if ob["k"] == "sparse" and not (ob["nnz"] == len(ob["subs"]) == len(ob["vals"])):
        return f"sparse result reports nnz={ob['nnz']} but stores {len(ob['subs'])} subscripts / {len(ob['vals'])} values"
    return kind_oracle(c, ob, want)


# ---------------------------------------------------------------- known findings
# A-02, A-03, A-04, A-05, A-49, A-50, A-51 are repaired in /repo (findings.d/C02.jsonl: "fixed"): no attribution, every disagreement is reported.
# C02-N1 (wave 4: tensor.mask / sptensor.mask with a sparse mask that stores no entry) is repaired too (5f8b038): empty masks are an ordinary input
# class (stream "a mask WITHOUT any nonzero"), the former witness is the regression input REGRESSION_N1 of gen_cases.  No open finding.
TRIGGERS = {}
WITNESSES = {}
