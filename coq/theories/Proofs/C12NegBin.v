(* Proofs/C12NegBin.v — the POSITIVE theorem for negative_binomial: compiles only against a source in
   which negative_binomial_grad has been repaired (fixes/C12-A-34.diff).  On the unrepaired source this
   file is expected to FAIL; it is therefore not listed in coq/project.d/C12.list until the fix is applied
   (then: replace C12NegBinRefuted.v by C12NegBin.v in the list and switch the marked block in Props/C12.v). *)
From Coq Require Import Reals Lra.
From Coquelicot Require Import Coquelicot.
From PV Require Import Np.NpR Gen.GenHandles Proofs.C12Handles.
Local Open Scope R_scope.

Lemma negative_binomial_deriv x m r : 0 <= m ->
  is_derive (fun m => negative_binomial x m r) m (negative_binomial_grad x m r).
Proof. intros Hm. unfold negative_binomial, negative_binomial_grad. deriv. Qed.
