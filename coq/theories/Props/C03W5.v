(* Props/C03W5.v — wave 5.  Only statements, `exact`, Print Assumptions.
   (a) sparse * Kruskal as the REPAIRED code is (/repo d4293a0, findings C03-K1 / C03-K2 fixed): pyttb's double loop followed by
       `keep = cvals[:, 0] != 0` (Model/C03Kr.v impl_mul_k_filtered) and the early return for an operand that stores nothing.
       THE claimed theorem for S * K is C03_mul_kruskal_filtered (Props/C03Kr.v: fully well-formed, the element-wise product at every
       position, any commutative ring, any rank, any stored order); here: the same code list for list, the Z instance the tie
       `mulmodel` runs, and the early returns.
   (b) sparse / dense as the code is (open finding C03-N5), list for list (tie `divmodel`) and the exact class of the finding. *)
From Coq Require Import List Arith Bool ZArith Ring.
From PV Require Import Base.Index Base.Sum Np.Array Model.Sparse Model.Repr Model.Harness Model.C03Ops Model.C03Gen Model.C03More Model.C03Chk
                       Model.C03Kr Model.C03W5 Proofs.C03Lemmas Proofs.C03Kr Proofs.C03W5.
From PV Require Import Np.NpZ Gen.GenUtils Model.C03Gen2 Model.C03Src Model.C03Ord0 Proofs.C03Ord0 Proofs.C03Ord0b.
Import ListNotations.

Section C03W5.
Variable V : Type.
Variables (v0 v1 : V) (vadd vmul vsub : V -> V -> V) (vopp : V -> V) (isz : V -> bool).
Hypothesis Vring : ring_theory v0 v1 vadd vmul vsub vopp (@eq V).
Hypothesis isz_spec : forall v, isz v = true <-> v = v0.
Notation denk := (den_k v0 v1 vadd vmul).

(* S * K list for list: the stored rows of S, in their stored order, whose product x * K[s] is not zero, each with that product *)
Theorem C03_mul_kruskal_filtered_rows : forall (A : sparse V) (K : ktensor V), wf_struct A -> kshape K = sshape A ->
  impl_mul_k_filtered v0 vadd vmul isz A K =
  of_entries (sshape A) (drop_zeros isz (map (fun e => (fst e, vmul (snd e) (denk K (fst e)))) (entries A))).
Proof. exact (impl_mul_k_filtered_rows V v0 v1 vadd vmul vsub vopp isz Vring). Qed.

(* the early returns of d4293a0 (`if self.nnz == 0: return self.copy()` in __mul__ and __truediv__) agree with the loops: an operand
   that stores nothing gives the tensor that stores nothing, for every Kruskal operand (no shape hypothesis) *)
Theorem C03_kruskal_empty_operand : forall (X : Type) (dv : V -> V -> X) (s : shape) (K : ktensor V),
  impl_mul_k_filtered v0 vadd vmul isz (mkSp s [] []) K = mkSp s [] [] /\
  impl_div_k v0 v1 vadd vmul dv (mkSp s [] []) K = mkSp s [] [].
Proof. exact (@kruskal_empty_operand V v0 v1 vadd vmul isz). Qed.
End C03W5.

Local Open Scope Z_scope.

(* integer operands (what the tie runs): fully well-formed (no duplicate, no explicit zero), the element-wise product everywhere *)
Theorem C03_mul_kruskal_filtered_Z : forall (A : sparse Z) (K : ktensor Z), wf_struct A -> kshape K = sshape A ->
  wf_sp zisz (zmul_kf A K) /\ sshape (zmul_kf A K) = sshape A /\
  forall i, zden_sp (zmul_kf A K) i = zden_sp A i * zden_k K i.
Proof. exact zmul_kf_correct. Qed.

(* ... and the rows kept are exactly the stored rows, in stored order, at which the Kruskal tensor does not vanish *)
Theorem C03_mul_kruskal_filtered_Z_rows : forall (A : sparse Z) (K : ktensor Z), wf_sp zisz A -> kshape K = sshape A ->
  ssubs (zmul_kf A K) = filter (fun s => negb (zden_k K s =? 0)) (ssubs A).
Proof. exact zmul_kf_rows. Qed.

(* sparse / dense as the code is: the stored rows of S in stored order, each with the IEEE quotient x / T[s]; nothing else stored *)
Theorem C03_div_dense_rows : forall (A : sparse Z) (T : dense Z), wf_struct A ->
  zdiv_dense A T = mkSp (sshape A) (ssubs A) (zipw (fun x s => xdivz x (zden T s)) (svals A) (ssubs A)) /\
  forall i, xden_sp (zdiv_dense A T) i = if mem i (ssubs A) then xdivz (zden_sp A i) (zden T i) else x0.
Proof. exact zdiv_dense_rows. Qed.

(* the exact class of the open finding C03-N5, position by position: right at i iff the operands are not both 0 there
   (the trigger div_dense_common_zero is this predicate) *)
Theorem C03_div_dense_exact_iff : forall (A : sparse Z) (T : dense Z), wf_sp zisz A ->
  forall i, (xden_sp (zdiv_dense A T) i = xdivz (zden_sp A i) (zden T i) <-> ~ (zden_sp A i = 0 /\ zden T i = 0)).
Proof. exact zdiv_dense_exact_iff. Qed.

(* (c) more order-0 paths (pyttb's shape () = the empty tensor; E0 its only sparse value, D0 = tensor()): the paths that ENUMERATE the
   shape through the generated tt_setdiff_rows — S != c, S == c (c = 0 goes through logical_not), S / c with the NaN fill at c = 0 — and
   the gather paths with the dense operand (S * T, logical_and) return the empty container, for every scalar c; the generated helper
   selects nothing from numpy's one zero-width row and from pyttb's empty enumeration alike.  Still not claimed for order 0: the dense
   RESULTS (S + c, S - T, ... go through full(), one cell in numpy's reading) and == / < <= > >= with the dense operand (raise: C03-Z0) *)
Theorem C03_order0_enumerating :
  gen_diff (allsubs []) [] = Ok [] /\ gen_diff (allsubsP []) [] = Ok [] /\
  (forall c, impl_ne_scalar_gen 1 Z.eqb zisz E0 c = Ok E0) /\
  (forall c, impl_eq_scalar_src zisz 1 Z.eqb E0 c = Ok E0) /\
  (forall c, impl_div_scalar_gen zisz xdivz XNaN E0 c = Ok EX0) /\
  impl_mul_dense 0 zisz Z.mul E0 D0 = E0 /\ impl_and_dense 0 zisz 1 E0 D0 = E0.
Proof. exact order0_enumerating. Qed.

Print Assumptions C03_order0_enumerating.
Print Assumptions C03_mul_kruskal_filtered_rows.
Print Assumptions C03_kruskal_empty_operand.
Print Assumptions C03_mul_kruskal_filtered_Z.
Print Assumptions C03_mul_kruskal_filtered_Z_rows.
Print Assumptions C03_div_dense_rows.
Print Assumptions C03_div_dense_exact_iff.

(* non-vacuity: the witness of the repaired C03-K2 (K = [[2,0],[5,3]] vanishes at the stored [0;1]): the row is dropped; the witness of
   C03-N5 (both operands 0 at [1;0]): 0 instead of NaN there, the stored rows divided *)
Example C03_example_w5 :
  zmul_kf wkA wkK = mkSp [2; 2]%nat [[1; 1]; [0; 0]]%nat [9; 4] /\
  zmul_kf (mkSp [2; 2]%nat [] []) wkK = mkSp [2; 2]%nat [] [] /\
  ssubs (zdiv_dense (mkSp [2; 2]%nat [[1; 1]; [0; 0]]%nat [3; 2]) (mkDense [2; 2]%nat [1; 0; 2; 3])) = [[1; 1]; [0; 0]]%nat /\
  xden_sp (zdiv_dense (mkSp [2; 2]%nat [[1; 1]; [0; 0]]%nat [3; 2]) (mkDense [2; 2]%nat [1; 0; 2; 3])) [1; 0]%nat = x0 /\
  xdivz 0 0 = XNaN.
Proof. repeat split; vm_compute; reflexivity. Qed.
