(* Proofs/C09GenSaved.v — wave 5: the generated inner loop of cp_als (Gen/GenCpAls.v cp_als_main_loop3) SAVES the right MTTKRP.
   `if n == dimorder[-1]: U_mttkrp = Unew` keeps the matrix the holder's mttkrp returned for the mode updated LAST (before that mode
   was overwritten) — in the hand model's words: after a sweep over the whole mode order, U_mttkrp = st_P of als_sweep.  This
   strengthens Proofs/C09GenSweep.v gen_sweep_bridge / Proofs/C09GenLoop.v gen_hsweep_bridge (there U_mttkrp is existential) and lets
   the reported-residual theorem C09_code_reported_residual speak about the value the GENERATED loop body computes
   (gen_sweep_residual: with iprod := sum(sum(U_mttkrp * U[dimorder[-1]], 0) * weights) and the value under the square root
   normX^2 + M.norm()^2 - 2 iprod, the pair (M, iprod) stored by one pass of the generated outer-loop body satisfies
   value = ||X - M||^2 — no LAPACK / scaling contract needed, only the shapes). *)
From Coq Require Import List Arith Lia Bool Ring.
From PV Require Import Base.Index Base.Sum Np.Array Model.Sparse Model.Repr Model.C09Als Model.W4SPrelude Gen.GenCpAls
  Proofs.W4SCpAls Proofs.C09GenSweep Proofs.C09Identity Proofs.C09Monotone Proofs.C09Norm Proofs.C09Reported Proofs.C09Holders
  Proofs.C09Inner Proofs.C09GenReport.
Import ListNotations.

Lemma sk_last_cons {A} (x y : A) (l : list A) : sk_last (x :: y :: l) = sk_last (y :: l).
Proof.
  unfold sk_last. cbn [rev]. destruct (rev l ++ [y]) as [|z r] eqn:E.
  - destruct (rev l); discriminate.
  - reflexivity.
Qed.

Lemma sk_last_app {A} (l : list A) (x : A) : sk_last (l ++ [x]) = Some x.
Proof. unfold sk_last. now rewrite rev_app_distr. Qed.

Lemma sk_last_split {A} (l : list A) (t : A) : sk_last l = Some t -> l = removelast l ++ [t].
Proof.
  intros H. destruct l as [|a l]; [discriminate|].
  rewrite (app_removelast_last a) at 1 by discriminate.
  f_equal. f_equal. unfold sk_last in H.
  rewrite (app_removelast_last a (l := a :: l)) in H by discriminate.
  rewrite rev_app_distr in H. cbn in H. now injection H.
Qed.

Section GenSaved.
Variable V : Type.
Variables (v0 v1 : V) (vadd vmul : V -> V -> V).
Local Notation mx := (@matrix V).
Variable T_X : Type.
Variable R : nat.
Variable mk : T_X -> list mx -> nat -> mx.
Variable all_zero_mat : mx -> bool.
Variable zeros_like : mx -> mx.
Variable lapack : mx -> mx -> mx.
Variable norm2_cols normmax_cols : mx -> list V.
Variable all_zero_wt : list V -> bool.
Variable scale_cols : mx -> list V -> mx.

Local Notation gloop3 := (GenCpAls.cp_als_main_loop3 mx (list mx) (list V) T_X (g_set_gram V) mk (g_hadamard_others V v0 v1 vadd vmul R)
  all_zero_mat zeros_like lapack norm2_cols normmax_cols all_zero_wt scale_cols).
Local Notation csolve := (code_solve V all_zero_mat zeros_like lapack).
Local Notation cscale := (code_scale V norm2_cols normmax_cols all_zero_wt scale_cols).

(* the loop over a mode list that ENDS with dimorder[-1]: factors, weights AND the saved MTTKRP are those of the model's sweep *)
Theorem gen_sweep_saved (X : T_X) (N : nat) (dimorder : list nat) (it : nat) (t : nat) : sk_last dimorder = Some t ->
  forall (xs : list nat) (U : list mx) (Um : mx) (n0 : option nat) (w0 : option (list V)) (w : list V) (P : mx),
  (forall x, In x xs -> x < length U) -> sk_last xs = Some t ->
  let st' := als_sweep v0 v1 vadd vmul (mk X) csolve cscale R it xs (mkAls w U P) in
  gloop3 N dimorder X it xs (U, Um, U, n0, w0) = Some (st_U st', st_P st', st_U st', Some t, Some (st_w st')).
Proof.
  intros HL.
  induction xs as [|x xs IH]; intros U Um n0 w0 w P Hin Hlast st'; [discriminate|].
  assert (Hx : x < length U) by (apply Hin; now left).
  cbn [GenCpAls.cp_als_main_loop3]. rewrite HL.
  set (Pn := mk X U x).
  set (A := if all_zero_mat (g_hadamard_others V v0 v1 vadd vmul R U x N) then zeros_like Pn
            else lapack (g_hadamard_others V v0 v1 vadd vmul R U x N) Pn).
  set (wn := if it =? 0 then norm2_cols A else normmax_cols A).
  set (An := if negb (all_zero_wt wn) then scale_cols A wn else A).
  rewrite (sk_set_upd U x An Hx).
  change (g_set_gram V U x (upd U x An)) with (upd U x (nth x (upd U x An) [])). rewrite (upd_nth_upd V U x An Hx).
  assert (E1 : als_update v0 v1 vadd vmul (mk X) csolve cscale R it (mkAls w U P) x = mkAls wn (upd U x An) Pn).
  { unfold als_update, code_solve, code_scale. cbn [st_U fst snd]. reflexivity. }
  subst st'. cbn [als_sweep fold_left]. rewrite E1.
  destruct xs as [|y ys].
  - (* x is the last mode: x = t, the MTTKRP is saved here *)
    unfold sk_last in Hlast. cbn in Hlast. injection Hlast as ->.
    cbn [GenCpAls.cp_als_main_loop3 fold_left st_U st_P st_w]. now rewrite Nat.eqb_refl.
  - rewrite sk_last_cons in Hlast.
    specialize (IH (upd U x An) (if x =? t then Pn else Um) (Some x) (Some wn) wn Pn).
    unfold als_sweep in IH. apply IH; [|exact Hlast].
    intros z Hz. rewrite upd_length. apply Hin. now right.
Qed.

Variables T_F T_K : Type.
Variable k_ktensor : list mx -> list V -> T_K.
Variable k_iprod : T_K -> list nat -> mx -> list V -> T_F.

Local Notation hsweep := (h_sweep T_F mx (list mx) (list V) T_K T_X (g_set_gram V) mk (g_hadamard_others V v0 v1 vadd vmul R)
  all_zero_mat zeros_like lapack norm2_cols normmax_cols all_zero_wt scale_cols k_ktensor k_iprod).

(* one pass of the generated outer-loop body (w4-skel's h_sweep): the iprod kernel is called with the SAVED MTTKRP of the model's sweep *)
Theorem gen_hsweep_saved (X : T_X) (N : nat) (dimorder : list nat) (k : nat) (U : list mx) (Um : mx) (n0 : option nat)
    (mi : option (T_K * T_F)) (w : list V) (P : mx) (t : nat) :
  sk_last dimorder = Some t -> (forall x, In x dimorder -> x < length U) ->
  let st' := als_sweep v0 v1 vadd vmul (mk X) csolve cscale R k dimorder (mkAls w U P) in
  hsweep N dimorder X k ((U, Um, U, n0), mi)
  = ((st_U st', st_P st', st_U st', Some t),
     Some (k_ktensor (st_U st') (st_w st'), k_iprod (k_ktensor (st_U st') (st_w st')) dimorder (st_P st') (st_w st'))).
Proof.
  intros HL Hin st'. unfold h_sweep.
  rewrite (gen_sweep_saved X N dimorder k t HL dimorder U Um n0 None w P Hin HL). reflexivity.
Qed.

End GenSaved.

(* ---------------------------------------------------------------- the value one pass of the generated loop body computes *)
Section GenSweepResidual.
Variable V : Type.
Variables (v0 v1 : V) (vadd vmul vsub : V -> V -> V) (vopp : V -> V).
Hypothesis Vring : ring_theory v0 v1 vadd vmul vsub vopp (@eq V).
Local Notation mx := (@matrix V).
Variable T_X : Type.
Variable R : nat.
Variable mk : T_X -> list mx -> nat -> mx.
Variable all_zero_mat : mx -> bool.
Variable zeros_like : mx -> mx.
Variable lapack : mx -> mx -> mx.
Variable norm2_cols normmax_cols : mx -> list V.
Variable all_zero_wt : list V -> bool.
Variable scale_cols : mx -> list V -> mx.

(* M = ttb.ktensor(U, weights) *)
Definition kq_ktensor (U : list mx) (w : list V) : ktensor V := mkK w U.
(* iprod = np.sum(np.sum(U_mttkrp * U[dimorder[-1]], 0) * weights) *)
Definition kq_iprod (M : ktensor V) (dims : list nat) (Um : mx) (w : list V) : V :=
  match sk_last dims with
  | Some n => let A := nth n (kfactors M) [] in
              iprod_saved v0 vadd vmul (length w) (nrows A) w A (fun j r => mget v0 Um j r)
  | None => v0
  end.

Local Notation hsweepq := (h_sweep V mx (list mx) (list V) (ktensor V) T_X (g_set_gram V) mk (g_hadamard_others V v0 v1 vadd vmul R)
  all_zero_mat zeros_like lapack norm2_cols normmax_cols all_zero_wt scale_cols kq_ktensor kq_iprod).
Local Notation csolve := (code_solve V all_zero_mat zeros_like lapack).
Local Notation cscale := (code_scale V norm2_cols normmax_cols all_zero_wt scale_cols).
Local Notation sweep := (als_sweep v0 v1 vadd vmul).

Theorem gen_sweep_residual (X : T_X) (s : shape) (Xd : idx -> V) (good : list mx -> nat -> Prop)
    (N : nat) (dimorder : list nat) (k : nat) (U : list mx) (Um : mx) (n0 : option nat) (mi : option (ktensor V * V))
    (w : list V) (P : mx) (n : nat) (normX2 : V) :
  holder_ok V v0 v1 vadd vmul R s Xd (mk X) good ->
  sk_last dimorder = Some n -> (forall x, In x dimorder -> x < length U) ->
  let stb := sweep (mk X) csolve cscale R k (removelast dimorder) (mkAls w U P) in
  st_wf V R s stb -> n < length s -> good (st_U stb) n ->
  let st' := sweep (mk X) csolve cscale R k dimorder (mkAls w U P) in
  length (st_w st') = R -> nrows (nth n (st_U st') []) = nth n s 0 ->
  normX2 = normsq_den v0 vadd vmul s Xd ->
  exists l ip,
    hsweepq N dimorder X k ((U, Um, U, n0), mi) = (l, Some (st_model st', ip)) /\
    kq_resid V v0 vadd vmul vsub normX2 (st_model st') ip = resid_den v0 vadd vmul vsub s Xd (den_k v0 v1 vadd vmul (st_model st')).
Proof.
  intros Hok HL Hin stb Hwf Hn Hgood st' HwR Hrows HN.
  rewrite (gen_hsweep_saved V v0 v1 vadd vmul T_X R mk all_zero_mat zeros_like lapack norm2_cols normmax_cols all_zero_wt scale_cols
             V (ktensor V) kq_ktensor kq_iprod X N dimorder k U Um n0 mi w P n HL Hin).
  fold st'. eexists. eexists. split; [reflexivity|].
  unfold kq_resid, kq_iprod. rewrite HL. unfold kq_ktensor. cbn [kfactors].
  assert (Est : st' = als_update v0 v1 vadd vmul (mk X) csolve cscale R k stb n).
  { subst st' stb. unfold als_sweep. rewrite (sk_last_split dimorder n HL) at 1. now rewrite fold_left_app. }
  rewrite HwR, Hrows, HN.
  change (mkK (st_w st') (st_U st')) with (st_model st').
  pose proof (code_reported_residual V v0 v1 vadd vmul vsub vopp Vring R csolve cscale s Xd (mk X) good Hok k stb n Hwf Hn Hgood) as H.
  rewrite <- Est in H. specialize (H HwR Hrows). cbv zeta in H. exact H.
Qed.

End GenSweepResidual.
