(* Proofs/C10SeqCore.v — wave 5: the CORE RELATION of sequentially truncated hosvd for ANY mode order.
   hosvd(sequential=True) returns as core the tensor Y left over by the mode loop: X shrunk by factor_matrices[k]^T in the order of dimorder.
   ttm_order_perm:   mode products along distinct modes may be taken in any order (dense arrays of changing shape, every commutative ring);
   seq_core:         for a dimorder without repetition that covers all modes, that tensor IS X x_0 U_0^T x_1 U_1^T ... (natural order);
   gen_hosvd_seq_core: ... stated for what the translator-GENERATED mode loop (Gen/GenHosvd.v) returns. *)
From Coq Require Import String List Arith Lia Bool ZArith Reals Lra Permutation.
From PV Require Import Base.Index Base.Sum Np.Array Np.NpR Model.Sparse Model.Repr Model.W4SPrelude Gen.GenHosvd Model.C10Tucker Model.C10Loop
                       Proofs.C10Ttm Proofs.C10Proofs Proofs.C10LoopProofs Proofs.C10Recon Proofs.C10Seq Proofs.W4SHosvd Proofs.W4SHosvdR
                       Proofs.C10ProjR Proofs.C10Rayleigh Proofs.C10Gen Proofs.C10GenR.
Import ListNotations.

Section OrderPerm.
Variable V : Type.
Variables (v0 v1 : V) (vadd vmul vsub : V -> V -> V) (vopp : V -> V).
Hypothesis Vring : ring_theory v0 v1 vadd vmul vsub vopp (@eq V).
Notation ttm := (ttm v0 vadd vmul).
Notation ttm_order := (ttm_order v0 vadd vmul).
Notation ttm_from := (ttm_from v0 vadd vmul).

Lemma ndims_ttm_order Ms : forall order (X : dense V), (forall k, In k order -> k < length (dshape X)) ->
  length (dshape (ttm_order X order Ms)) = length (dshape X).
Proof.
  induction order as [|k order IH]; intros X H; cbn [C10Tucker.ttm_order]; [reflexivity|].
  assert (Hk : k < length (dshape X)) by (apply H; now left).
  rewrite IH; [apply (ndims_ttm V v0 vadd vmul); exact Hk|].
  intros j Hj. rewrite (ndims_ttm V v0 vadd vmul) by exact Hk. apply H. now right.
Qed.

(* products along distinct modes in any order *)
Theorem ttm_order_perm Ms : forall o1 o2, Permutation o1 o2 -> forall X : dense V, NoDup o1 ->
  (forall k, In k o1 -> k < length (dshape X)) -> ttm_order X o1 Ms = ttm_order X o2 Ms.
Proof.
  induction 1 as [|k o1 o2 Hp IH|a b o|o1 o2 o3 Hp1 IH1 Hp2 IH2]; intros X Hnd Hin.
  - reflexivity.
  - cbn [C10Tucker.ttm_order]. apply NoDup_cons_iff in Hnd. destruct Hnd as (_ & Hnd).
    assert (Hk : k < length (dshape X)) by (apply Hin; now left).
    apply IH; [exact Hnd|]. intros j Hj. rewrite (ndims_ttm V v0 vadd vmul) by exact Hk. apply Hin. now right.
  - cbn [C10Tucker.ttm_order]. f_equal.
    apply NoDup_cons_iff in Hnd. destruct Hnd as (Hb & _).
    apply (ttm_comm_dense V v0 v1 vadd vmul vsub vopp Vring).
    + intros E. apply Hb. left. symmetry. exact E.
    + apply Hin. now left.
    + apply Hin. right. now left.
  - rewrite IH1 by assumption. apply IH2.
    + eapply Permutation_NoDup; eassumption.
    + intros k Hk. apply Hin. eapply Permutation_in; [apply Permutation_sym; exact Hp1|exact Hk].
Qed.

(* the natural order is the chain ttm_from *)
Lemma ttm_order_seq : forall (Ms' pre : list (@matrix V)) (X : dense V),
  ttm_order X (seq (length pre) (length Ms')) (pre ++ Ms') = ttm_from X (length pre) Ms'.
Proof.
  induction Ms' as [|M Ms' IH]; intros pre X; [reflexivity|].
  cbn [length seq C10Tucker.ttm_order C10Tucker.ttm_from]. rewrite nth_middle.
  replace (pre ++ M :: Ms') with ((pre ++ [M]) ++ Ms') by (now rewrite <- app_assoc).
  replace (S (length pre)) with (length (pre ++ [M])) by (rewrite app_length; cbn; lia).
  apply IH.
Qed.

Theorem ttm_order_all Ms (X : dense V) order : Permutation order (seq 0 (length Ms)) -> length Ms = length (dshape X) ->
  ttm_order X order Ms = ttm_all v0 vadd vmul X Ms.
Proof.
  intros Hp HL. rewrite (ttm_order_perm Ms order (seq 0 (length Ms)) Hp).
  - apply (ttm_order_seq Ms [] X).
  - eapply Permutation_NoDup; [apply Permutation_sym; exact Hp|apply seq_NoDup].
  - intros k Hk. apply (Permutation_in _ Hp) in Hk. apply in_seq in Hk. lia.
Qed.
End OrderPerm.

(* ---------------------------------------------------------------------------------------- *)
(* over R: the sequential shrink of hosvd                                                      *)
(* ---------------------------------------------------------------------------------------- *)
Local Open Scope R_scope.

Lemma nth_transposedR (Us : list (@matrix R)) q :
  nth q (transposed 0 Us) [] = mtrans 0 (nth q Us []) (nrows (nth q Us [])) (ncols (nth q Us [])).
Proof.
  unfold transposed. change (@nil (list R)) with ((fun U : @matrix R => mtrans 0 U (nrows U) (ncols U)) []) at 1. apply map_nth.
Qed.

Lemma shrink_fold_order (fm : list (@matrix R)) : forall order (Y X : dense R), NoDup order ->
  length (dshape Y) = length (dshape X) ->
  (forall k, In k order -> (k < length (dshape X))%nat /\ nth k (dshape Y) 0%nat = nth k (dshape X) 0%nat /\
                           nrows (nth k fm []) = nth k (dshape X) 0%nat) ->
  fold_left (fun Z j => shrink1R Z (nth j fm []) j) order Y = ttm_order 0 Rplus Rmult Y order (transposed 0 fm).
Proof.
  induction order as [|k order IH]; intros Y X Hnd HL H; [reflexivity|].
  cbn [fold_left C10Tucker.ttm_order]. apply NoDup_cons_iff in Hnd. destruct Hnd as (Hk & Hnd).
  destruct (H k ltac:(now left)) as (H1 & H2 & H3).
  assert (E : shrink1R Y (nth k fm []) k = ttm 0 Rplus Rmult Y k (nth k (transposed 0 fm) [])).
  { unfold shrink1R. f_equal. rewrite nth_transposedR. now rewrite H2, H3. }
  rewrite E. apply (IH _ X Hnd).
  - rewrite (ndims_ttm R 0 Rplus Rmult) by lia. exact HL.
  - intros j Hj. destruct (H j ltac:(now right)) as (J1 & J2 & J3). split; [exact J1|]. split; [|exact J3].
    rewrite (nth_dshape_ttm_other R 0 Rplus Rmult) by (try lia; intros ->; contradiction). exact J2.
Qed.

(* the tensor left over by the sequential shrinks, in ANY mode order, is X x_n U_n^T over all modes in the natural order *)
Theorem seq_core (X : dense R) (fm : list (@matrix R)) (dimorder : list nat) :
  let d := length (dshape X) in
  Permutation dimorder (seq 0 d) -> length fm = d -> (forall k, (k < d)%nat -> nrows (nth k fm []) = nth k (dshape X) 0%nat) ->
  fold_left (fun Z j => shrink1R Z (nth j fm []) j) dimorder X = ttm_all 0 Rplus Rmult X (transposed 0 fm).
Proof.
  intros d Hp HL Hrows. destruct (perm_range d dimorder Hp) as (Hnd & Hin & _).
  rewrite (shrink_fold_order fm dimorder X X Hnd eq_refl).
  - apply (ttm_order_all R 0 1 Rplus Rmult Rminus Ropp RTheory).
    + unfold transposed. rewrite map_length, HL. exact Hp.
    + unfold transposed. rewrite map_length. exact HL.
  - intros k Hk. apply Hin in Hk. split; [exact Hk|]. split; [reflexivity|now apply Hrows].
Qed.

(* ... for what the GENERATED mode loop returns when sequential = True: the third component Y (hosvd's core) satisfies the core relation *)
Section GenSeqCore.
Variable k_unfold : dense R -> nat -> @matrix R.
Variable k_gram : @matrix R -> @matrix R.
Variable k_eigh : @matrix R -> list R * @matrix R.
Variable k_argsort_desc : list R -> list nat.
Variable k_take : list R -> list nat -> list R.
Variable k_select_cols : @matrix R -> list nat -> @matrix R.
Variable k_shrink : dense R -> list (@matrix R) -> nat -> dense R.
Hypothesis shrink_reads_k : forall Y fm k U, nth_error fm k = Some U -> k_shrink Y fm k = shrink1R Y U k.

Theorem gen_hosvd_seq_core (X : dense R) (dimorder ranks : list nat) (t : R) (fm0 fm : list (@matrix R)) (ranks' : list nat) (Y' : dense R) :
  let d := length (dshape X) in
  Permutation dimorder (seq 0 d) -> length ranks = d -> length fm0 = d ->
  GenHosvd.hosvd_modes R (dense R) (@matrix R) Rleb 0 Rplus k_unfold k_gram k_eigh k_argsort_desc k_take k_select_cols k_shrink
    dimorder ranks t X fm0 true = Some (fm, ranks', Y') ->
  (forall k, (k < d)%nat -> nrows (nth k fm []) = nth k (dshape X) 0%nat) ->
  Y' = ttm_all 0 Rplus Rmult X (transposed 0 fm).
Proof.
  intros d Hp Hr Hf H Hrows.
  destruct (gen_hosvd_bookkeeping R (dense R) (@matrix R) Rleb 0 Rplus k_unfold k_gram k_eigh k_argsort_desc k_take k_select_cols k_shrink
              shrink1R shrink_reads_k [] t true d dimorder ranks fm0 X fm ranks' Y' Hp Hr Hf H) as (L & _ & _ & HY).
  rewrite HY. unfold seen. apply (seq_core X fm dimorder Hp L Hrows).
Qed.
End GenSeqCore.

(* non-vacuity: the sequential run of Proofs/C10GenR.v gen_hosvd_example (2 x 3 array [[3,0,0],[0,1,0]], dimorder (1,0)) *)
Example gen_hosvd_seq_core_example :
  let s := [2; 3]%nat in
  exists ranks' Y',
  GenHosvd.hosvd_modes R (dense R) (@matrix R) Rleb 0%R Rplus exk_unfold exk_gram exk_eigh exk_argsort exk_take exk_select exk_shrink
    [1; 0]%nat (repeat 0%nat 2) (1 / 2 * nrm2 (dense R) (C10ProjR.innerR s) exX / INR 2)%R exX [[]; []] true = Some (exUs, ranks', Y') /\
  Y' = ttm_all 0 Rplus Rmult exX (transposed 0 exUs).
Proof.
  intros s. destruct gen_hosvd_example as (ranks' & Y' & Hg & _). exists ranks', Y'. split; [exact Hg|].
  apply (gen_hosvd_seq_core exk_unfold exk_gram exk_eigh exk_argsort exk_take exk_select exk_shrink exk_shrink_reads_k
           exX [1; 0]%nat (repeat 0%nat 2) (1 / 2 * nrm2 (dense R) (C10ProjR.innerR s) exX / INR 2)%R [[]; []] exUs ranks' Y');
    [apply perm_swap|reflexivity|reflexivity|exact Hg|].
  intros k Hk. destruct k as [|[|k]]; [reflexivity|reflexivity|cbn in Hk; lia].
Qed.
