(* Props/C10W5.v — wave 5: the Tucker-ALS clauses of C10 ("orthonormal factors of the requested ranks with the same core relation, reports a
   fit equal to the recomputed 1 - ||X - T|| / ||X||, and its fit never decreases over iterations") stated over the translator-GENERATED
   main part of pyttb/tucker_als.py (Gen/GenTuckerAls.v; tools/pyx2v_skel.py regenerates it from `U = Uinit.copy()` ..
   `return solution, Uinit, output` of /repo/pyttb/tucker_als.py on every run) instantiated with real tensors: T_X := dense R,
   T_Mat := matrix R, T_F := R, T_TT := ttensor R.  The numeric kernels are arbitrary functions under their contracts (Proofs/C10GenT.v):
   ttm with one mode left out / one mode, the residual and fit formulas, the ttensor constructor; nvecs under the PER-RUN contract
   `sweeps_ok`: every Utilde.nvecs(n, rank[n]) call performed during the run returns an I_n x rank[n] matrix with orthonormal columns
   (step_ortho) that captures at least as much of ||Utilde x_n .^T||^2 as the factor it replaces (step_opt; Ky-Fan maximality of leading
   eigenvectors — a hypothesis).  Only statements, `exact`, Print Assumptions. *)
From Coq Require Import String List Arith Bool Permutation Reals.
From PV Require Import Base.Sum Model.Sparse Model.W4SPrelude Gen.GenTuckerAls Model.C10Tucker Model.C10Loop Proofs.C10LoopProofs Proofs.W4SHosvdR Proofs.W4STucker
                       Np.Array Np.NpR Model.Repr Proofs.C10Proofs Proofs.C10ProjR Proofs.C10Rayleigh Proofs.C10Concrete Proofs.C10Fit Proofs.C10GenT Proofs.C10KyFan Gen.GenHosvd Proofs.C10GenR Proofs.C10SeqCore Proofs.C10GenStruct.
Import ListNotations.
Local Open Scope nat_scope.

(* for ALL kernels and carrier types: the generated function returns (raises no Python exception) for every request with a non-empty
   dimorder of valid modes and maxiters > 0, and it returns the caller's Uinit (maxiters = 0 raises: finding C10-N01) *)
Theorem C10_gen_tals_total : forall (T_F T_Mat T_X T_TT : Type) (c_leF : T_F -> T_F -> bool) (c_zeroF : T_F)
    (k_ttm_excl : T_X -> list T_Mat -> nat -> bool -> T_X) (k_nvecs : T_X -> nat -> nat -> T_Mat)
    (k_ttm_core : T_X -> list T_Mat -> nat -> bool -> T_X) (k_resid : T_F -> T_X -> T_F) (k_fit k_absdiff : T_F -> T_F -> T_F)
    (k_ttensor : T_X -> list T_Mat -> bool -> T_TT)
    (X : T_X) (Uinit : list T_Mat) (normX : T_F) (rank dimorder : list nat) (maxiters : nat) (stoptol : T_F) (printitn : nat),
  dimorder <> [] -> 0 < maxiters -> (forall x, In x dimorder -> x < length rank /\ x < length Uinit) ->
  exists sol iters nr fit,
    GenTuckerAls.tucker_als_main T_F T_Mat T_X T_TT c_leF c_zeroF k_ttm_excl k_nvecs k_ttm_core k_resid k_fit k_absdiff k_ttensor
      X Uinit normX rank dimorder maxiters stoptol printitn = Some (sol, Uinit, (iters, nr, fit)).
Proof. exact gen_tals_total. Qed.
Print Assumptions C10_gen_tals_total.

Section C10_gen_tals.
Variable k_ttm_excl : dense R -> list (@matrix R) -> nat -> bool -> dense R.
Variable k_nvecs : dense R -> nat -> nat -> @matrix R.
Variable k_ttm_core : dense R -> list (@matrix R) -> nat -> bool -> dense R.
Variable k_resid : R -> dense R -> R.
Variable k_fit : R -> R -> R.
Variable k_absdiff : R -> R -> R.
Variable k_ttensor : dense R -> list (@matrix R) -> bool -> ttensor R.
(* input_tensor.ttm(U, exclude_dims=n, transpose=True) = X x_m U_m^T over all modes m <> n *)
Hypothesis excl_spec : forall X U n, k_ttm_excl X U n true = excl X U n.
(* Utilde.ttm(U, n, transpose=True) = Utilde x_n U_n^T *)
Hypothesis core_spec : forall Z U n, k_ttm_core Z U n true =
  ttm 0%R Rplus Rmult Z n (mtrans 0%R (nth n U []) (nrows (nth n U [])) (ncols (nth n U []))).
(* normresidual = np.sqrt(abs(normX**2 - core.norm()**2));  fit = 1 - normresidual / normX;  ttb.ttensor(core, U, copy=False) *)
Hypothesis resid_spec : forall nX c, k_resid nX c = sqrt (Rabs (nX * nX - normsqR c)).
Hypothesis fit_spec : forall nr nX, k_fit nr nX = (1 - nr / nX)%R.
Hypothesis ttensor_spec : forall c U, k_ttensor c U false = mkT c U.

Notation gmain := (GenTuckerAls.tucker_als_main R (@matrix R) (dense R) (ttensor R) Rleb 0%R k_ttm_excl k_nvecs k_ttm_core k_resid
                     k_fit k_absdiff k_ttensor).

(* RESULT CLAUSES: if the generated tucker_als_main, for a dimorder that is a permutation of range(d), any starting list of d entries and
   normX = ||X||, returns (solution, Uinit', {iters, normresidual, fit}) and every nvecs call of the iters+1 sweeps performed returned an
   I_n x rank[n] matrix with orthonormal columns, then: solution = ttensor(X x_n U_n^T over ALL modes, U) for the (iters+1)-th iterate U,
   whose factors are I_n x rank[n] with orthonormal columns; Uinit' is the caller's list; iters < maxiters; and the reported
   normresidual / fit ARE ||X - full(solution)|| and 1 - ||X - full(solution)|| / ||X|| *)
Theorem C10_gen_tals_result :
  forall (X : dense R) (normX : R) (rank dimorder : list nat) (Uinit : list (@matrix R)) (maxiters : nat) (stoptol : R) (printitn : nat)
    (sol : ttensor R) (Uret : list (@matrix R)) (iters : nat) (nr fit : R),
  let s := dshape X in let d := length s in
  Permutation dimorder (seq 0 d) -> 0 < d -> length Uinit = d -> normX = sqrt (nrm2 (dense R) (innerR s) X) ->
  gmain X Uinit normX rank dimorder maxiters stoptol printitn = Some (sol, Uret, (iters, nr, fit)) ->
  sweeps_ok _ _ (t_project (@matrix R) (dense R) k_ttm_excl X) k_nvecs rank dimorder (step_ortho k_nvecs X rank) (S iters) Uinit ->
  exists U,
    sol = mkT (ttm_all 0%R Rplus Rmult X (transposed 0%R U)) U /\ of_r X rank U /\ orthofactors s U /\
    U = iter_sweep (@matrix R) (dense R) (t_project (@matrix R) (dense R) k_ttm_excl X) k_nvecs rank dimorder (S iters) Uinit /\
    Uret = Uinit /\ iters < maxiters /\
    let res := nrm2 (dense R) (innerR s) (subR s X (tfull_ttm 0%R Rplus Rmult sol)) in
    nr = sqrt res /\ fit = (1 - sqrt res / sqrt (nrm2 (dense R) (innerR s) X))%R.
Proof. exact (gen_tals_result k_ttm_excl k_nvecs k_ttm_core k_resid k_fit k_absdiff k_ttensor excl_spec core_spec resid_spec fit_spec ttensor_spec). Qed.

(* MONOTONICITY CLAUSE: under the full per-run contract (orthonormal answers that capture at least the energy of the factor they replace)
   the fits computed in the iterations 0 .. iters of that run never decrease, and the reported fit is the last of them; non-zero data *)
Theorem C10_gen_tals_monotone :
  forall (X : dense R) (normX : R) (rank dimorder : list nat) (Uinit : list (@matrix R)) (maxiters : nat) (stoptol : R) (printitn : nat)
    (sol : ttensor R) (Uret : list (@matrix R)) (iters : nat) (nr fit : R),
  let s := dshape X in let d := length s in
  Permutation dimorder (seq 0 d) -> 0 < d -> length Uinit = d -> normX = sqrt (nrm2 (dense R) (innerR s) X) ->
  (0 < nrm2 (dense R) (innerR s) X)%R ->
  gmain X Uinit normX rank dimorder maxiters stoptol printitn = Some (sol, Uret, (iters, nr, fit)) ->
  sweeps_ok _ _ (t_project (@matrix R) (dense R) k_ttm_excl X) k_nvecs rank dimorder (step_both k_nvecs X rank) (S iters) Uinit ->
  let fat := fit_at (@matrix R) (dense R) (dense R) R (t_project (@matrix R) (dense R) k_ttm_excl X) k_nvecs
               (t_core_of (@matrix R) (dense R) k_ttm_core) (t_normres_of R (dense R) k_resid normX) (t_fit_of R k_fit normX) rank dimorder in
  fat Uinit iters = Some fit /\
  forall i j, i <= j -> j <= iters -> exists fi fj, fat Uinit i = Some fi /\ fat Uinit j = Some fj /\ (fi <= fj)%R.
Proof. exact (gen_tals_monotone k_ttm_excl k_nvecs k_ttm_core k_resid k_fit k_absdiff k_ttensor excl_spec core_spec resid_spec fit_spec). Qed.
End C10_gen_tals.
Print Assumptions C10_gen_tals_result.
Print Assumptions C10_gen_tals_monotone.

(* non-vacuity: concrete kernels meeting every contract (exk_*: the real mode products and formulas; nvecs = the leading mode vectors of
   the data), the generated function run on the 2 x 3 array [[3,0,0],[0,1,0]], ranks (1,1), dimorder (1,0), limit 3, stoptol 1/100 *)
Example C10_example_gen_tals :
  let s := [2; 3] in
  let N := nrm2 (dense R) (innerR s) exX in
  exists sol iters nr fit,
    GenTuckerAls.tucker_als_main R (@matrix R) (dense R) (ttensor R) Rleb 0%R exk_excl exk_nvecs exk_core exk_resid exk_fit exk_absdiff
      exk_ttensor exX exUs (sqrt N) [1; 1] [1; 0] 3 (1 / 100)%R 0 = Some (sol, exUs, (iters, nr, fit)) /\
    sol = mkT (ttm_all 0%R Rplus Rmult exX (transposed 0%R exUs)) exUs /\ orthofactors s exUs /\
    sweeps_ok _ _ (t_project (@matrix R) (dense R) exk_excl exX) exk_nvecs [1; 1] [1; 0] (step_both exk_nvecs exX [1; 1]) (S iters) exUs /\
    N = 10%R /\ nr = sqrt (10 - 9) /\ fit = (1 - sqrt (10 - 9) / sqrt 10)%R.
Proof. exact gen_tals_example. Qed.
Print Assumptions C10_example_gen_tals.

(* ---------------------------------------------------------------------------------------- *)
(* KY-FAN MAXIMALITY (Proofs/C10KyFan.v): no optimality hypothesis is left in the Tucker-ALS monotonicity clause                          *)
(* ---------------------------------------------------------------------------------------- *)
Local Open Scope R_scope.

(* weights in [0,1] that sum to r, against a descending sequence: at most the sum of the r leading values *)
Theorem C10_kyfan_weights : forall (I r : nat) (mu kappa : nat -> R), (r <= I)%nat ->
  (forall c c', (c <= c')%nat -> (c' < I)%nat -> mu c' <= mu c) ->
  (forall c, (c < I)%nat -> 0 <= kappa c <= 1) -> sum_n 0 Rplus I kappa = INR r ->
  sum_n 0 Rplus I (fun c => mu c * kappa c) <= sum_n 0 Rplus r mu.
Proof. exact kyfan_weights. Qed.

(* ||Z x_n M^T||^2 = sum_j m_j^T G m_j  for the mode-n Gram matrix G of Z (every shape, every I x r matrix M) *)
Theorem C10_energy_gram : forall (Z : dense R) (n I r : nat) (M : @matrix R),
  let s := dshape Z in
  (n < length s)%nat -> I = nth n s 0%nat ->
  normsqR (ttm 0 Rplus Rmult Z n (mtrans 0 M I r)) =
  sum_n 0 Rplus r (fun j => sum_n 0 Rplus I (fun a => sum_n 0 Rplus I (fun b => mget 0 M a j * mget 0 M b j * gramR s Z n a b))).
Proof. exact energy_gram. Qed.

(* for W orthogonal (I x I) with G W = W diag(mu), mu descending: the leading r columns of W capture at least as much of ||Z x_n M^T||^2 as
   ANY I x r matrix M with orthonormal columns — all shapes, modes, r <= I *)
Theorem C10_kyfan_energy : forall (Z : dense R) (n r : nat) (W M : @matrix R) (mu : list R),
  let s := dshape Z in let I := nth n s 0%nat in
  (n < length s)%nat -> (r <= I)%nat ->
  orthocolsR I I W -> orthorowsR I W -> eigen_eq s n Z W mu ->
  (forall c c', (c <= c')%nat -> (c' < I)%nat -> nth c' mu 0 <= nth c mu 0) ->
  orthocolsR I r M ->
  normsqR (ttm 0 Rplus Rmult Z n (mtrans 0 M I r)) <= normsqR (ttm 0 Rplus Rmult Z n (mtrans 0 (leading R r W) I r)).
Proof. exact kyfan_energy. Qed.

(* the per-call contract of the generated-loop theorems (orthonormal answer + no loss of captured energy) FOLLOWS from the eigen-solver
   contract of that call: answer = W[:, 0:rank[n]] for an orthogonal W, descending mu with G W = W diag(mu), G the mode-n Gram matrix of Utilde *)
Theorem C10_nvecs_eigen_step_both : forall (k_nvecs : dense R -> nat -> nat -> @matrix R) (X : dense R) (rank : list nat)
    (U : list (@matrix R)) (n : nat),
  (n < length (dshape X))%nat -> length U = length (dshape X) -> nvecs_eigen k_nvecs X rank U n -> step_both k_nvecs X rank U n.
Proof. exact nvecs_eigen_step_both. Qed.

(* ALL Tucker-ALS clauses over the generated function under the eigen-solver contract of every nvecs call performed during the run *)
Theorem C10_gen_tals_eigen :
  forall (k_ttm_excl : dense R -> list (@matrix R) -> nat -> bool -> dense R) (k_nvecs : dense R -> nat -> nat -> @matrix R)
    (k_ttm_core : dense R -> list (@matrix R) -> nat -> bool -> dense R) (k_resid : R -> dense R -> R) (k_fit k_absdiff : R -> R -> R)
    (k_ttensor : dense R -> list (@matrix R) -> bool -> ttensor R),
  (forall X U n, k_ttm_excl X U n true = excl X U n) ->
  (forall Z U n, k_ttm_core Z U n true = ttm 0 Rplus Rmult Z n (mtrans 0 (nth n U []) (nrows (nth n U [])) (ncols (nth n U [])))) ->
  (forall nX c, k_resid nX c = sqrt (Rabs (nX * nX - normsqR c))) ->
  (forall nr nX, k_fit nr nX = 1 - nr / nX) ->
  (forall c U, k_ttensor c U false = mkT c U) ->
  forall (X : dense R) (normX : R) (rank dimorder : list nat) (Uinit : list (@matrix R)) (maxiters : nat) (stoptol : R)
    (printitn : nat) (sol : ttensor R) (Uret : list (@matrix R)) (iters : nat) (nr fit : R),
  let s := dshape X in let d := length s in
  let project := t_project (@matrix R) (dense R) k_ttm_excl X in
  Permutation dimorder (seq 0 d) -> (0 < d)%nat -> length Uinit = d -> normX = sqrt (nrm2 (dense R) (innerR s) X) ->
  0 < nrm2 (dense R) (innerR s) X ->
  GenTuckerAls.tucker_als_main R (@matrix R) (dense R) (ttensor R) Rleb 0 k_ttm_excl k_nvecs k_ttm_core k_resid k_fit k_absdiff k_ttensor
    X Uinit normX rank dimorder maxiters stoptol printitn = Some (sol, Uret, (iters, nr, fit)) ->
  sweeps_ok _ _ project k_nvecs rank dimorder (nvecs_eigen k_nvecs X rank) (S iters) Uinit ->
  let fat := fit_at (@matrix R) (dense R) (dense R) R project k_nvecs (t_core_of (@matrix R) (dense R) k_ttm_core)
               (t_normres_of R (dense R) k_resid normX) (t_fit_of R k_fit normX) rank dimorder in
  (exists U,
    sol = mkT (ttm_all 0 Rplus Rmult X (transposed 0 U)) U /\ of_r X rank U /\ orthofactors s U /\ Uret = Uinit /\ (iters < maxiters)%nat /\
    let res := nrm2 (dense R) (innerR s) (subR s X (tfull_ttm 0 Rplus Rmult sol)) in
    nr = sqrt res /\ fit = 1 - sqrt res / sqrt (nrm2 (dense R) (innerR s) X)) /\
  fat Uinit iters = Some fit /\
  (forall i j, (i <= j)%nat -> (j <= iters)%nat -> exists fi fj, fat Uinit i = Some fi /\ fat Uinit j = Some fj /\ fi <= fj).
Proof. exact gen_tals_eigen. Qed.
Print Assumptions C10_kyfan_weights.
Print Assumptions C10_energy_gram.
Print Assumptions C10_kyfan_energy.
Print Assumptions C10_nvecs_eigen_step_both.
Print Assumptions C10_gen_tals_eigen.

(* non-vacuity of the eigen contract: the example kernels of C10_example_gen_tals meet it at every call of every sweep *)
Example C10_example_nvecs_eigen : forall j,
  sweeps_ok _ _ (t_project (@matrix R) (dense R) exk_excl exX) exk_nvecs [1; 1]%nat [1; 0]%nat (nvecs_eigen exk_nvecs exX [1; 1]%nat) j exUs.
Proof. exact nvecs_eigen_example. Qed.
Print Assumptions C10_example_nvecs_eigen.

(* the stop rule of the generated function over the reals (`if fitchange < stoptol: break`, fitchange = |fitold - fit|, fitold = 0 in iteration
   0): iteration limit respected, no earlier iteration met the test, an exit before the limit means the test fired at the reported iteration *)
Theorem C10_gen_tals_stop_rule :
  forall (k_ttm_excl : dense R -> list (@matrix R) -> nat -> bool -> dense R) (k_nvecs : dense R -> nat -> nat -> @matrix R)
    (k_ttm_core : dense R -> list (@matrix R) -> nat -> bool -> dense R) (k_resid : R -> dense R -> R) (k_fit k_absdiff : R -> R -> R)
    (k_ttensor : dense R -> list (@matrix R) -> bool -> ttensor R),
  (forall a b, k_absdiff a b = Rabs (a - b)) ->
  forall (X : dense R) (normX : R) (rank dimorder : list nat) (Uinit : list (@matrix R)) (maxiters : nat) (stoptol : R)
    (printitn : nat) (sol : ttensor R) (Uret : list (@matrix R)) (iters : nat) (nr fit : R),
  dimorder <> [] ->
  GenTuckerAls.tucker_als_main R (@matrix R) (dense R) (ttensor R) Rleb 0 k_ttm_excl k_nvecs k_ttm_core k_resid k_fit k_absdiff k_ttensor
    X Uinit normX rank dimorder maxiters stoptol printitn = Some (sol, Uret, (iters, nr, fit)) ->
  let project := t_project (@matrix R) (dense R) k_ttm_excl X in
  let fat := fit_at (@matrix R) (dense R) (dense R) R project k_nvecs (t_core_of (@matrix R) (dense R) k_ttm_core)
               (t_normres_of R (dense R) k_resid normX) (t_fit_of R k_fit normX) rank dimorder Uinit in
  let fbefore := fit_before (@matrix R) (dense R) (dense R) R project k_nvecs (t_core_of (@matrix R) (dense R) k_ttm_core)
               (t_normres_of R (dense R) k_resid normX) (t_fit_of R k_fit normX) 0 rank dimorder Uinit in
  (0 < maxiters)%nat /\ (iters < maxiters)%nat /\ fat iters = Some fit /\
  (forall i, (i < iters)%nat -> exists fo fi, fbefore i = Some fo /\ fat i = Some fi /\ ~ Rabs (fo - fi) < stoptol) /\
  ((iters < maxiters - 1)%nat -> exists fo, fbefore iters = Some fo /\ Rabs (fo - fit) < stoptol).
Proof. exact gen_tals_stop_rule. Qed.
Print Assumptions C10_gen_tals_stop_rule.

(* ---------------------------------------------------------------------------------------- *)
(* hosvd, sequential truncation, ANY mode order: the returned core satisfies the core relation (Proofs/C10SeqCore.v)                        *)
(* ---------------------------------------------------------------------------------------- *)
(* mode products along distinct modes may be taken in any order — dense arrays whose shape changes with every product, every commutative ring *)
Theorem C10_ttm_order_perm : forall (V : Type) (v0 v1 : V) (vadd vmul vsub : V -> V -> V) (vopp : V -> V),
  ring_theory v0 v1 vadd vmul vsub vopp (@eq V) ->
  forall (Ms : list (@matrix V)) (o1 o2 : list nat), Permutation o1 o2 -> forall X : dense V, NoDup o1 ->
  (forall k, In k o1 -> (k < length (dshape X))%nat) ->
  ttm_order v0 vadd vmul X o1 Ms = ttm_order v0 vadd vmul X o2 Ms.
Proof. exact ttm_order_perm. Qed.

(* X shrunk by U_k^T along the modes in the order of ANY permutation dimorder = X x_0 U_0^T x_1 U_1^T ... (what hosvd(sequential=True) returns as core) *)
Theorem C10_seq_core : forall (X : dense R) (fm : list (@matrix R)) (dimorder : list nat),
  let d := length (dshape X) in
  Permutation dimorder (seq 0 d) -> length fm = d -> (forall k, (k < d)%nat -> nrows (nth k fm []) = nth k (dshape X) 0%nat) ->
  fold_left (fun Z j => shrink1R Z (nth j fm []) j) dimorder X = ttm_all 0 Rplus Rmult X (transposed 0 fm).
Proof. exact seq_core. Qed.

(* ... for what the translator-GENERATED mode loop (Gen/GenHosvd.v) returns with sequential = True: its third component (hosvd's core) is the
   data multiplied in every mode by the transposed factor; kernels arbitrary, k_shrink Y fm k = Y x_k fm[k]^T; given or automatic ranks *)
Theorem C10_gen_hosvd_seq_core :
  forall (k_unfold : dense R -> nat -> @matrix R) (k_gram : @matrix R -> @matrix R) (k_eigh : @matrix R -> list R * @matrix R)
    (k_argsort_desc : list R -> list nat) (k_take : list R -> list nat -> list R) (k_select_cols : @matrix R -> list nat -> @matrix R)
    (k_shrink : dense R -> list (@matrix R) -> nat -> dense R),
  (forall Y fm k U, nth_error fm k = Some U -> k_shrink Y fm k = shrink1R Y U k) ->
  forall (X : dense R) (dimorder ranks : list nat) (t : R) (fm0 fm : list (@matrix R)) (ranks' : list nat) (Y' : dense R),
  let d := length (dshape X) in
  Permutation dimorder (seq 0 d) -> length ranks = d -> length fm0 = d ->
  GenHosvd.hosvd_modes R (dense R) (@matrix R) Rleb 0 Rplus k_unfold k_gram k_eigh k_argsort_desc k_take k_select_cols k_shrink
    dimorder ranks t X fm0 true = Some (fm, ranks', Y') ->
  (forall k, (k < d)%nat -> nrows (nth k fm []) = nth k (dshape X) 0%nat) ->
  Y' = ttm_all 0 Rplus Rmult X (transposed 0 fm).
Proof. exact gen_hosvd_seq_core. Qed.
Print Assumptions C10_ttm_order_perm.
Print Assumptions C10_seq_core.
Print Assumptions C10_gen_hosvd_seq_core.

Example C10_example_gen_hosvd_seq_core :
  let s := [2; 3]%nat in
  exists ranks' Y',
  GenHosvd.hosvd_modes R (dense R) (@matrix R) Rleb 0%R Rplus exk_unfold exk_gram exk_eigh exk_argsort exk_take exk_select exk_shrink
    [1; 0]%nat (repeat 0%nat 2) (1 / 2 * nrm2 (dense R) (innerR s) exX / INR 2)%R exX [[]; []] true = Some (exUs, ranks', Y') /\
  Y' = ttm_all 0 Rplus Rmult exX (transposed 0 exUs).
Proof. exact gen_hosvd_seq_core_example. Qed.
Print Assumptions C10_example_gen_hosvd_seq_core.

(* ---------------------------------------------------------------------------------------- *)
(* THE STRUCTURAL CONTRACT of hosvd over the generated mode loop (Proofs/C10GenStruct.v): requested rank vectors within the mode sizes          *)
(* (0 = automatic), both truncation strategies, every mode order, under the per-run eigen-solver contract run_ok: factor k is I_k x ranks'[k] with     *)
(* orthonormal columns, ranks'[k] is EXACTLY the requested rank when one was given (in 1..I_k otherwise); sequential: core = X x_n U_n^T               *)
(* ---------------------------------------------------------------------------------------- *)
Theorem C10_auto_rank_range : forall (V : Type) (v0 : V) (vadd : V -> V -> V) (vltb : V -> V -> bool) (eig : list V) (t : V) (r : nat),
  auto_rank v0 vadd vltb eig t = Some r -> (0 < r <= length eig)%nat.
Proof. exact (@auto_rank_range). Qed.

Theorem C10_gen_hosvd_structure :
  forall (k_unfold : dense R -> nat -> @matrix R) (k_gram : @matrix R -> @matrix R) (k_eigh : @matrix R -> list R * @matrix R)
    (k_argsort_desc : list R -> list nat) (k_take : list R -> list nat -> list R) (k_select_cols : @matrix R -> list nat -> @matrix R)
    (k_shrink : dense R -> list (@matrix R) -> nat -> dense R),
  (forall Y fm k U, nth_error fm k = Some U -> k_shrink Y fm k = shrink1R Y U k) ->
  forall (sq : bool) (X : dense R) (dimorder ranks : list nat) (t : R) (fm0 fm : list (@matrix R)) (ranks' : list nat) (Y' : dense R),
  let s := dshape X in let d := length s in
  Permutation dimorder (seq 0 d) -> length ranks = d -> length fm0 = d ->
  (forall k, (k < d)%nat -> (nth k ranks 0 <= nth k s 0)%nat) ->
  GenHosvd.hosvd_modes R (dense R) (@matrix R) Rleb 0%R Rplus k_unfold k_gram k_eigh k_argsort_desc k_take k_select_cols k_shrink
    dimorder ranks t X fm0 sq = Some (fm, ranks', Y') ->
  run_ok k_unfold k_gram k_eigh k_argsort_desc k_take k_select_cols sq fm dimorder X ->
  length fm = d /\
  (forall k, (k < d)%nat ->
     let U := nth k fm [] in let r := nth k ranks' 0%nat in
     (nth k ranks 0%nat <> 0%nat -> r = nth k ranks 0%nat) /\ (0 < r <= nth k s 0)%nat /\
     nrows U = nth k s 0%nat /\ ncols U = r /\ orthocolsR (nth k s 0%nat) r U) /\
  (sq = true -> Y' = ttm_all 0%R Rplus Rmult X (transposed 0%R fm)).
Proof. exact gen_hosvd_structure. Qed.
Print Assumptions C10_auto_rank_range.
Print Assumptions C10_gen_hosvd_structure.

Example C10_example_gen_hosvd_structure :
  exists Y',
  GenHosvd.hosvd_modes R (dense R) (@matrix R) Rleb 0%R Rplus exk_unfold exk_gram exk_eigh exk_argsort exk_take exk_select exk_shrink
    [1; 0]%nat [1; 1]%nat 0%R exX [[]; []] true = Some (exUs, [1; 1]%nat, Y') /\
  run_ok exk_unfold exk_gram exk_eigh exk_argsort exk_take exk_select true exUs [1; 0]%nat exX /\
  (forall k, (k < 2)%nat -> nrows (nth k exUs []) = nth k [2; 3]%nat 0%nat /\ ncols (nth k exUs []) = nth k [1; 1]%nat 0%nat /\
                      orthocolsR (nth k [2; 3]%nat 0%nat) (nth k [1; 1]%nat 0%nat) (nth k exUs [])) /\
  Y' = ttm_all 0%R Rplus Rmult exX (transposed 0%R exUs).
Proof. exact gen_hosvd_structure_example. Qed.
Print Assumptions C10_example_gen_hosvd_structure.
