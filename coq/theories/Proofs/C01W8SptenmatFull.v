(* Proofs/C01W8SptenmatFull.v — wave 8: sptenmat.__init__(copy=True) END TO END: on typed requests the GENERATED constructor
   (np.unique(axis=0, return_inverse) + accumarray(sum) + np.nonzero of Np/NpZ7b.v) stores exactly the embedded triples of
   C01's stm_ctor (Model/C01Unique.v: sorted accumulator, zero sums dropped), with the same mode split and tshape. *)
From Coq Require Import List ZArith Arith Lia Bool Permutation Sorted ZArithRing.
From PV Require Import Base.Index Base.Perm Base.Sum Np.Array Np.NpZ Np.NpZ2 Np.NpZ3 Np.NpZ3b Np.NpZ7 Np.NpZ7b Proofs.NpZProofs
  Gen.GenUtils Gen.GenUtils2 Model.Sparse Model.C01Conv Model.C01Unique Proofs.C01GenBridge
  Gen.GenSptenmat7 Model.W7Tenmat Model.W7Sptenmat Proofs.W7Sptenmat Proofs.W7SptenmatNZ
  Proofs.C01W8Tenmat Proofs.C01W8Sptenmat Proofs.C01W8SptenmatOk Proofs.C01W8SptenmatKeys.
From PV Require Proofs.C01Unique.
Import ListNotations.

Lemma w8_row_eqb_zs j : forall a, row_eqb (zs j) (zs a) = idx_eqb j a.
Proof.
  induction j as [|x j IH]; intros [|y a]; cbn [zs map row_eqb idx_eqb]; try reflexivity. now rewrite IH, w8_of_nat_eqb.
Qed.

Lemma w8_index_nonneg r u : (0 <= np7_index_of r u)%Z.
Proof. induction u as [|a u IH]; cbn [np7_index_of]; [lia|]. destruct (row_eqb r a); lia. Qed.

Lemma w8_idx_eqb_false_sym i j : idx_eqb i j = false -> idx_eqb j i = false.
Proof.
  intros E. apply not_true_iff_false. intros H. apply idx_eqb_spec in H. subst. rewrite idx_eqb_refl in E. discriminate.
Qed.

Lemma w8_idx_char (K : list idx) : NoDup K -> forall n (j : idx), n < length K -> In j K ->
  (np7_index_of (zs j) (map zs K) =? Z.of_nat n)%Z = idx_eqb (@nth idx n K []) j.
Proof.
  induction K as [|a K IH]; intros Hn n j Hlt Hj; [destruct Hj|]. inversion Hn as [|? ? Ha Hn']; subst.
  cbn [map np7_index_of]. rewrite w8_row_eqb_zs. cbn [length] in Hlt.
  destruct (idx_eqb j a) eqn:E.
  - apply idx_eqb_spec in E. subst j. destruct n as [|n]; cbn [nth].
    + now rewrite idx_eqb_refl.
    + transitivity false; [apply Z.eqb_neq; lia|]. symmetry. apply not_true_iff_false. intros H. apply idx_eqb_spec in H.
      apply Ha. rewrite <- H. apply nth_In. lia.
  - destruct Hj as [->|Hj]; [rewrite idx_eqb_refl in E; discriminate|].
    destruct n as [|n]; cbn [nth].
    + pose proof (w8_index_nonneg (zs j) (map zs K)). transitivity false; [apply Z.eqb_neq; lia|]. symmetry.
      now apply w8_idx_eqb_false_sym.
    + rewrite <- (IH Hn' n j) by (auto; lia). rewrite Nat2Z.inj_succ.
      destruct (Z.eqb_spec (np7_index_of (zs j) (map zs K)) (Z.of_nat n)); [apply Z.eqb_eq|apply Z.eqb_neq]; lia.
Qed.

Lemma w8_sumv l : sumv 0%Z Z.add l = fold_right Z.add 0%Z l.
Proof. induction l as [|x l IH]; cbn; congruence. Qed.

Lemma w8_group (K : list idx) n : NoDup K -> n < length K -> forall (subs : list idx) (vals : list Z), (forall j, In j subs -> In j K) ->
  map snd (filter (fun p : Z * Z => (fst p =? Z.of_nat n)%Z) (combine (map (fun r => np7_index_of r (map zs K)) (zm subs)) vals))
  = map snd (filter (fun e : idx * Z => idx_eqb (@nth idx n K []) (fst e)) (combine subs vals)).
Proof.
  intros Hn Hlt. induction subs as [|j subs IH]; intros [|x vals] Hin; cbn [zm map combine filter]; try reflexivity.
  cbn [fst]. rewrite w8_idx_char by (auto; apply Hin; now left).
  destruct (idx_eqb (@nth idx n K []) j); cbn [map snd]; [f_equal|]; apply IH; intros k Hk; apply Hin; now right.
Qed.

Lemma w8_map_seq {A} (l : list A) d : l = map (fun n => nth n l d) (seq 0 (length l)).
Proof. induction l as [|a l IH]; cbn [length seq map nth]; [reflexivity|]. f_equal. rewrite <- seq_shift, map_map. exact IH. Qed.

(* accumarray(loc, vals, func=sum) = the values of the sorted accumulator *)
Theorem w8_accum_vals (subs : list idx) (vals : list Z) :
  Forall (fun rc => length rc = 2) subs -> length subs = length vals ->
  let U := uniq_acc Z.add (combine subs vals) in
  let u := fst (np_unique_rows (zm subs)) in
  np7_accum_sum (map (fun r => np7_index_of r u) (zm subs)) vals (zlen u) = map snd U.
Proof.
  intros Hr Hl U u. set (K := map fst U).
  assert (Eu : u = map zs K) by (apply (w8_unique_rows_keys subs vals Hr Hl)).
  assert (HK : NoDup K).
  { apply PV.Proofs.C01Unique.ssorted_NoDup. apply (PV.Proofs.C01Unique.uniq_acc_sorted Z Z.add 2).
    now rewrite PV.Proofs.C01Unique.keys_combine. }
  assert (Hin : forall j, In j subs -> In j K).
  { intros j Hj. apply PV.Proofs.C01Unique.uniq_acc_keys. now rewrite PV.Proofs.C01Unique.keys_combine. }
  unfold np7_accum_sum, np_arange. rewrite Eu.
  unfold zlen. replace (@length (list Z) (@map (list nat) vec zs K)) with (length K) by (symmetry; apply map_length).
  rewrite Z.sub_0_r, Nat2Z.id.
  rewrite map_map. rewrite (w8_map_seq (map snd U) 0%Z) at 1.
  replace (length (map snd U)) with (length K) by (unfold K; now rewrite !map_length).
  symmetry. apply map_ext_in. intros n Hn. apply in_seq in Hn. cbn [Z.add].
  rewrite (w8_group K n HK) by (auto; lia). rewrite <- w8_sumv.
  change (sumv 0%Z Z.add (map snd (filter (fun e : idx * Z => idx_eqb (@nth idx n K []) (fst e)) (combine subs vals))))
    with (vsum_at 0%Z Z.add (@nth idx n K []) (combine subs vals)).
  rewrite <- (PV.Proofs.C01Unique.uniq_acc_vsum Z 0%Z 1%Z Z.add Z.mul Z.sub Z.opp Zth). fold U.
  symmetry. apply (PV.Proofs.C01Unique.vsum_in Z 0%Z 1%Z Z.add Z.mul Z.sub Z.opp Zth); [exact HK|].
  assert (HlU : n < length U) by (unfold K in Hn; rewrite map_length in Hn; lia).
  assert (E1 : @nth idx n K [] = fst (nth n U (@nil nat, 0%Z))) by (exact (map_nth fst U (@nil nat, 0%Z) n)).
  assert (E2 : nth n (map snd U) 0%Z = snd (nth n U (@nil nat, 0%Z))) by (exact (map_nth snd U (@nil nat, 0%Z) n)).
  rewrite E1, E2, <- surjective_pairing. now apply nth_In.
Qed.

(* np.nonzero + gather on two parallel arrays = filter on the pairs *)
Lemma w8_take_nz_gen {A} (d : A) (v : vec) : forall (a pre : list A), length a = length v ->
  map (fun p : Z * Z => znth d (pre ++ a) (snd p))
      (filter (fun p : Z * Z => negb (fst p =? 0)%Z)
              (combine v (map (fun k => Z.of_nat (length pre + k)) (seq 0 (length v)))))
  = map fst (filter (fun p : A * Z => w7_nz (snd p)) (combine a v)).
Proof.
  induction v as [|x v IH]; intros [|y a] pre Hl; try discriminate Hl; [reflexivity|].
  cbn [length seq map combine filter fst snd].
  rewrite <- seq_shift, (map_map S (fun k => Z.of_nat (length pre + k))).
  assert (E : map (fun k => Z.of_nat (length pre + S k)) (seq 0 (length v))
            = map (fun k => Z.of_nat (length (pre ++ [y]) + k)) (seq 0 (length v))).
  { apply map_ext. intro k. rewrite app_length. cbn [length]. f_equal. lia. }
  rewrite E. replace (pre ++ y :: a) with ((pre ++ [y]) ++ a) by (rewrite <- app_assoc; reflexivity).
  assert (Hl' : length a = length v) by (cbn [length] in Hl; lia).
  unfold w7_nz at 1. destruct (negb (x =? 0)%Z); cbn [map fst snd].
  - rewrite (IH a (pre ++ [y]) Hl'). f_equal. rewrite Nat.add_0_r, znth_nat. rewrite <- app_assoc. cbn [app]. apply nth_middle.
  - apply (IH a (pre ++ [y]) Hl').
Qed.

Lemma w8_take_nz {A} (d : A) (a : list A) (v : vec) : length a = length v ->
  np_take d a (np7_nonzero v) = map fst (filter (fun p : A * Z => w7_nz (snd p)) (combine a v)).
Proof.
  intros Hl. unfold np_take, np7_nonzero, np_arange.
  replace (Z.to_nat (zlen v - 0)) with (length v) by (unfold zlen; lia).
  rewrite map_map. rewrite <- (w8_take_nz_gen d v a [] Hl). cbn [app length]. do 3 f_equal.
Qed.

Lemma w8_filter_snd {A} (f : Z -> bool) (a : list A) : forall v, length a = length v ->
  filter f v = map snd (filter (fun p : A * Z => f (snd p)) (combine a v)).
Proof.
  induction a as [|y a IH]; intros [|x v] Hl; try discriminate Hl; [reflexivity|]. cbn [combine filter snd].
  assert (Hl' : length a = length v) by (cbn [length] in Hl; lia).
  destruct (f x); cbn [map snd]; [f_equal|]; now apply IH.
Qed.

Lemma w8_combine_U (U : list (idx * Z)) :
  combine (map zs (map fst U)) (map snd U) = map (fun e => (zs (fst e), snd e)) U.
Proof. induction U as [|e U IH]; [reflexivity|]. cbn [map combine]. now rewrite IH. Qed.

(* the two steps after the argument checks, copy=True: the embedded triples of stm_norm *)
Lemma w8_dedup_dropzeros (subs : option (list idx)) (vals : option (list Z)) (F : mat -> vec -> stmz) :
  stm_typed subs vals ->
  let es := norm_triples Z.add (Z.eqb 0) (olist subs) (olist vals) in
  bind (H_dedup true (match option_map zm subs with None => [[]] | Some s => s end) (olist vals)) (fun '(s1, v1) =>
    bind (H_dropzeros s1 v1) (fun '(s2, v2) => Ok (F s2 v2)))
  = Ok (F (zm (map fst es)) (map snd es)).
Proof.
  intros [Hr Hl] es. unfold H_dedup. destruct (zlen (olist vals) =? 0)%Z eqn:Ez; cbn [bind].
  - assert (Ev : olist vals = []) by (destruct (olist vals); [reflexivity|discriminate Ez]).
    unfold es, norm_triples. rewrite Ev. rewrite Ev in Hl. destruct (olist subs); [|discriminate Hl]. reflexivity.
  - assert (Es : match option_map zm subs with None => [[]] | Some s => s end = zm (olist subs)).
    { destruct subs as [s|]; [reflexivity|]. cbn [olist length] in Hl. destruct (olist vals); [discriminate Ez|discriminate Hl]. }
    rewrite Es, (w8_rect _ Hr).
    pose proof (w8_inv_in_range (zm (olist subs))) as R.
    pose proof (w8_accum_vals (olist subs) (olist vals) Hr Hl) as EA. cbv zeta in EA.
    pose proof (w8_unique_rows_keys (olist subs) (olist vals) Hr Hl) as EK.
    unfold np7_unique_rows_inv in *. cbn [fst snd] in R. cbv zeta.
    set (u := fst (np_unique_rows (zm (olist subs)))) in *.
    set (loc := map (fun r => np7_index_of r u) (zm (olist subs))) in *.
    assert (Eloc : zlen loc = zlen (olist vals)).
    { unfold loc, zlen, zm. rewrite !map_length. f_equal. exact Hl. }
    unfold np7_accum_ok. rewrite Eloc, Z.eqb_refl, R. cbn [andb bind].
    unfold H_dropzeros. cbv zeta. rewrite EA.
    set (U := uniq_acc Z.add (combine (olist subs) (olist vals))) in *.
    assert (Ea : length u = length (map snd U)) by (rewrite EK; unfold zm; now rewrite !map_length).
    assert (Ea' : zlen u = zlen (map snd U)) by (unfold zlen; now rewrite Ea).
    rewrite (w8_nonzero_take_ok u (map snd U) Ea'), (w8_nonzero_take_ok (map snd U) (map snd U) eq_refl). cbn [andb bind].
    rewrite (w8_take_nz [] u (map snd U) Ea), w7_take_nonzero, (w8_filter_snd w7_nz u (map snd U) Ea).
    rewrite EK. unfold zm at 1 2. rewrite w8_combine_U, filter_map_comm. cbn [snd].
    rewrite !map_map. cbn [fst snd].
    assert (Ef : filter (fun x : list nat * Z => w7_nz (snd x)) U = es).
    { unfold es, norm_triples. fold U. apply filter_ext. intros e. unfold w7_nz. now rewrite Z.eqb_sym. }
    rewrite Ef. unfold zm. rewrite map_map. reflexivity.
Qed.

Definition emb_stm_ctor_res (o : option (sptenmat Z)) : res stmz := match o with None => Err | Some M => Ok (emb_stm M) end.

(* END TO END, copy=True: the generated constructor answers the embedded answer of stm_ctor *)
Theorem sptenmat_init_is_stm_ctor (subs : option (list idx)) vals rd cd ts :
  is_some rd || is_some cd = true -> stm_typed subs vals ->
  sptenmat_init (option_map zm subs) vals (option_map zv rd) (option_map zv cd) (zv ts) true
  = emb_stm_ctor_res (stm_ctor Z.add (Z.eqb 0) subs vals rd cd ts).
Proof.
  intros Hd Ht. rewrite sptenmat_init_bridge, H_sptenmat_init_guards, stm_ctor_guard by (try assumption; apply Ht).
  destruct (stm_guard (olist subs) rd cd ts) as [[r c]|]; cbv beta iota; [|reflexivity].
  rewrite (w8_dedup_dropzeros subs vals (fun s2 v2 => mk_stmz s2 v2 (zv r) (zv c) (zv ts)) Ht). reflexivity.
Qed.
