(* Props/C03.v — sparse element-wise arithmetic, logic and comparison match dense semantics.
   Only statements, `exact`, Print Assumptions.  V is ANY value type with a decidable zero; the operations are
   section variables constrained only by the laws each theorem needs (identity of +, annihilation of *, ...), so the
   statements hold for Z, Qc, R, floats-as-a-set...  Operands are arbitrary well-formed coordinate lists: NO hypothesis
   on the stored order.  den_sp = value at a subscript (implicit zeros included), wf_sp = C06 well-formedness. *)
From Coq Require Import List Arith Bool ZArith.
From PV Require Import Base.Index Np.NpZ Np.Array Gen.GenUtils Model.Sparse Model.Harness Model.C03Ops Model.C03Gen Model.C03More
                       Proofs.C03Lemmas Proofs.C03Proofs Proofs.C03Rows Proofs.C03GenProofs Proofs.C03More.
Import ListNotations.

Section C03.
Context {V : Type} (v0 : V) (isz : V -> bool).
Hypothesis isz_spec : forall v, isz v = true <-> v = v0.
Notation den := (den_sp v0).
Notation wf := (wf_sp isz).
Notation nz x := (negb (isz x)).

(* ---- unary ---- *)
Theorem C03_neg : forall (vopp : V -> V), (forall v, v <> v0 -> vopp v <> v0) -> vopp v0 = v0 ->
  forall A : sparse V, wf A ->
  wf (impl_neg vopp A) /\ sshape (impl_neg vopp A) = sshape A /\ forall i, den (impl_neg vopp A) i = vopp (den A i).
Proof. exact (impl_neg_correct v0 isz isz_spec). Qed.

Theorem C03_ones : forall (one : V) (A : sparse V), one <> v0 -> wf A ->
  wf (impl_ones one A) /\ sshape (impl_ones one A) = sshape A /\
  forall i, den (impl_ones one A) i = bval v0 one (nz (den A i)).
Proof. exact (impl_ones_correct v0 isz isz_spec). Qed.

Theorem C03_not : forall (one : V) (A : sparse V), one <> v0 -> wf A ->
  wf (impl_not one A) /\ sshape (impl_not one A) = sshape A /\
  forall i, inb (sshape A) i = true -> den (impl_not one A) i = bval v0 one (isz (den A i)).
Proof. exact (impl_not_correct v0 isz isz_spec). Qed.

Theorem C03_elemfun : forall (g : V -> V) (A : sparse V), wf A ->
  wf (impl_elemfun isz g A) /\ sshape (impl_elemfun isz g A) = sshape A /\
  forall i, den (impl_elemfun isz g A) i = if isz (den A i) then v0 else g (den A i).
Proof. exact (impl_elemfun_correct v0 isz isz_spec). Qed.

(* ---- the aggregating constructor all sparse (+ - and or xor) go through ---- *)
Theorem C03_from_aggregator : forall (func : list V -> V) s subs vals,
  (forall i, In i subs -> inb s i = true) ->
  wf (from_aggregator isz func s subs vals) /\ sshape (from_aggregator isz func s subs vals) = s /\
  forall i, den (from_aggregator isz func s subs vals) i =
            if mem i subs then func (collect i (combine subs vals)) else v0.
Proof. exact (from_aggregator_correct v0 isz isz_spec). Qed.

(* ---- + and - (sparse, sparse) ---- *)
Theorem C03_add_sparse : forall (vadd : V -> V -> V), (forall x, vadd v0 x = x) -> (forall x, vadd x v0 = x) ->
  forall A B : sparse V, wf A -> wf B -> sshape B = sshape A ->
  wf (impl_add v0 isz vadd A B) /\ sshape (impl_add v0 isz vadd A B) = sshape A /\
  forall i, den (impl_add v0 isz vadd A B) i = vadd (den A i) (den B i).
Proof. exact (impl_add_correct v0 isz isz_spec). Qed.

Theorem C03_sub_sparse : forall (vadd : V -> V -> V) (vopp : V -> V),
  (forall x, vadd v0 x = x) -> (forall x, vadd x v0 = x) -> (forall v, v <> v0 -> vopp v <> v0) -> vopp v0 = v0 ->
  forall A B : sparse V, wf A -> wf B -> sshape B = sshape A ->
  wf (impl_sub v0 isz vadd vopp A B) /\ sshape (impl_sub v0 isz vadd vopp A B) = sshape A /\
  forall i, den (impl_sub v0 isz vadd vopp A B) i = vadd (den A i) (vopp (den B i)).
Proof. exact (impl_sub_correct v0 isz isz_spec). Qed.

(* ---- * (scalar, dense, sparse) ---- *)
Theorem C03_mul_scalar : forall (vmul : V -> V -> V), (forall x, vmul v0 x = v0) -> (forall x, vmul x v0 = v0) ->
  forall (A : sparse V) (c : V), wf A ->
  wf (impl_mul_scalar isz vmul A c) /\ sshape (impl_mul_scalar isz vmul A c) = sshape A /\
  forall i, den (impl_mul_scalar isz vmul A c) i = vmul (den A i) c.
Proof. intros vmul H1 _. exact (impl_mul_scalar_correct v0 isz isz_spec vmul H1). Qed.

Theorem C03_mul_dense : forall (vmul : V -> V -> V), (forall x, vmul v0 x = v0) -> (forall x, vmul x v0 = v0) ->
  forall (A : sparse V) (T : dense V), wf A ->
  wf (impl_mul_dense v0 isz vmul A T) /\ sshape (impl_mul_dense v0 isz vmul A T) = sshape A /\
  forall i, den (impl_mul_dense v0 isz vmul A T) i = vmul (den A i) (den_dense v0 T i).
Proof. intros vmul H1 _. exact (impl_mul_dense_correct v0 isz isz_spec vmul H1). Qed.

Theorem C03_mul_sparse : forall (vmul : V -> V -> V), (forall x, vmul v0 x = v0) -> (forall x, vmul x v0 = v0) ->
  forall A B : sparse V, wf A -> wf B -> sshape B = sshape A ->
  wf (impl_mul v0 isz vmul A B) /\ sshape (impl_mul v0 isz vmul A B) = sshape A /\
  forall i, den (impl_mul v0 isz vmul A B) i = vmul (den A i) (den B i).
Proof. exact (impl_mul_correct v0 isz isz_spec). Qed.

(* ---- logical and / or / xor ---- *)
Theorem C03_and_sparse : forall (one : V), one <> v0 -> forall A B : sparse V, wf A -> wf B -> sshape B = sshape A ->
  wf (impl_and v0 isz one A B) /\ sshape (impl_and v0 isz one A B) = sshape A /\
  forall i, den (impl_and v0 isz one A B) i = bval v0 one (nz (den A i) && nz (den B i)).
Proof. intros one _. exact (impl_and_correct v0 isz isz_spec one). Qed.

Theorem C03_or_sparse : forall (one : V), one <> v0 -> forall A B : sparse V, wf A -> wf B -> sshape B = sshape A ->
  wf (impl_or v0 isz one A B) /\ sshape (impl_or v0 isz one A B) = sshape A /\
  forall i, den (impl_or v0 isz one A B) i = bval v0 one (nz (den A i) || nz (den B i)).
Proof. intros one _. exact (impl_or_correct v0 isz isz_spec one). Qed.

Theorem C03_xor_sparse : forall (one : V), one <> v0 -> forall A B : sparse V, wf A -> wf B -> sshape B = sshape A ->
  wf (impl_xor v0 isz one A B) /\ sshape (impl_xor v0 isz one A B) = sshape A /\
  forall i, den (impl_xor v0 isz one A B) i = bval v0 one (xorb (nz (den A i)) (nz (den B i))).
Proof. intros one _. exact (impl_xor_correct v0 isz isz_spec one). Qed.

Theorem C03_and_scalar : forall (one : V), one <> v0 -> forall (A : sparse V) (c : V), wf A ->
  wf (impl_and_scalar isz one A c) /\ sshape (impl_and_scalar isz one A c) = sshape A /\
  forall i, den (impl_and_scalar isz one A c) i = bval v0 one (nz (den A i) && nz c).
Proof. exact (impl_and_scalar_correct v0 isz isz_spec). Qed.

(* ---- comparisons: ANY decidable relation cmp (so == != < <= > >= are all instances); a comparison that holds
        for zero marks every implicit-zero position of the shape ---- *)
Theorem C03_cmp_scalar : forall (one : V), one <> v0 -> forall (cmp : V -> V -> bool) (A : sparse V) (c : V), wf A ->
  wf (impl_cmp_scalar v0 one cmp A c) /\ sshape (impl_cmp_scalar v0 one cmp A c) = sshape A /\
  forall i, inb (sshape A) i = true -> den (impl_cmp_scalar v0 one cmp A c) i = bval v0 one (cmp (den A i) c).
Proof. exact (impl_cmp_scalar_correct v0 isz isz_spec). Qed.

Theorem C03_cmp_sparse : forall (one : V), one <> v0 -> forall (cmp : V -> V -> bool) (A B : sparse V),
  wf A -> wf B -> sshape B = sshape A ->
  wf (impl_cmp v0 one cmp A B) /\ sshape (impl_cmp v0 one cmp A B) = sshape A /\
  forall i, inb (sshape A) i = true -> den (impl_cmp v0 one cmp A B) i = bval v0 one (cmp (den A i) (den B i)).
Proof. exact (impl_cmp_correct v0 isz isz_spec). Qed.

Theorem C03_cmp_dense : forall (one : V), one <> v0 -> forall (cmp : V -> V -> bool) (A : sparse V) (T : dense V), wf A ->
  wf (impl_cmp_dense v0 one cmp A T) /\ sshape (impl_cmp_dense v0 one cmp A T) = sshape A /\
  forall i, inb (sshape A) i = true ->
            den (impl_cmp_dense v0 one cmp A T) i = bval v0 one (cmp (den A i) (den_dense v0 T i)).
Proof. exact (impl_cmp_dense_correct v0 isz isz_spec). Qed.

(* ---- operators answered with a dense tensor (sparse + - or xor / with scalar or dense, scalar / sparse): for ANY
        element function f into ANY result type W (so IEEE division into xval is an instance) ---- *)
Theorem C03_dense_result_scalar : forall (W : Type) (w0 : W) (f : V -> V -> W) (A : sparse V) (c : V), wf_struct A ->
  wf_dense (impl_dense_scalar v0 f A c) /\ dshape (impl_dense_scalar v0 f A c) = sshape A /\
  forall i, inb (sshape A) i = true -> den_dense w0 (impl_dense_scalar v0 f A c) i = f (den A i) c.
Proof. intros W. exact (@impl_dense_scalar_correct V v0 W). Qed.

Theorem C03_dense_result_dense : forall (W : Type) (w0 : W) (f : V -> V -> W) (A : sparse V) (T : dense V),
  wf_struct A -> wf_dense T -> dshape T = sshape A ->
  wf_dense (impl_dense_dense v0 f A T) /\ dshape (impl_dense_dense v0 f A T) = sshape A /\
  forall i, inb (sshape A) i = true -> den_dense w0 (impl_dense_dense v0 f A T) i = f (den A i) (den_dense v0 T i).
Proof. intros W. exact (@impl_dense_dense_correct V v0 W). Qed.

(* ---- tie A: the algorithms that go through the row-set helpers, transliterated over the helpers GENERATED from
        pyttb_utils.py (Model/C03Gen.v).  Operands of order >= 1 (sshape <> []). ---- *)
(* the repaired sparse * sparse (tt_intersect_rows, then tt_ismember_rows to locate each common row in the other operand) *)
Theorem C03_mul_sparse_gen : forall (vmul : V -> V -> V), (forall x, vmul v0 x = v0) -> (forall x, vmul x v0 = v0) ->
  forall A B : sparse V, wf A -> wf B -> sshape B = sshape A -> sshape A <> [] ->
  exists R, impl_mul_gen v0 vmul A B = Ok R /\ wf_struct R /\ sshape R = sshape A /\
            (forall i, den R i = vmul (den A i) (den B i)) /\
            ((forall x y, x <> v0 -> y <> v0 -> vmul x y <> v0) -> wf R).
Proof. exact (impl_mul_gen_correct v0 isz isz_spec). Qed.

(* the repaired sparse == sparse *)
Theorem C03_eq_sparse_gen : forall (one : V), one <> v0 ->
  forall (veqb : V -> V -> bool), (forall a b, veqb a b = true <-> a = b) ->
  forall A B : sparse V, wf A -> wf B -> sshape B = sshape A -> sshape A <> [] ->
  exists R, impl_eq_gen v0 one veqb A B = Ok R /\ wf R /\ sshape R = sshape A /\
            forall i, inb (sshape A) i = true -> den R i = bval v0 one (veqb (den A i) (den B i)).
Proof. exact (impl_eq_gen_correct v0 isz isz_spec). Qed.

(* S != c *)
Theorem C03_ne_scalar_gen : forall (one : V), one <> v0 ->
  forall (veqb : V -> V -> bool), (forall a b, veqb a b = true <-> a = b) ->
  forall (A : sparse V) (c : V), wf A -> sshape A <> [] ->
  exists R, impl_ne_scalar_gen one veqb isz A c = Ok R /\ wf R /\ sshape R = sshape A /\
            forall i, inb (sshape A) i = true -> den R i = bval v0 one (negb (veqb (den A i) c)).
Proof. exact (impl_ne_scalar_gen_correct v0 isz isz_spec). Qed.

(* logical_not, the scalar comparisons and the sparse/sparse comparisons over the generated helpers compute, list for
   list, the algorithms of C03_not / C03_cmp_scalar / C03_cmp_sparse *)
Theorem C03_not_gen : forall (one : V) (A : sparse V), wf_struct A -> sshape A <> [] ->
  impl_not_gen one A = Ok (impl_not one A).
Proof. exact (@impl_not_gen_eq V). Qed.

Theorem C03_cmp_scalar_gen : forall (one : V) (cmp : V -> V -> bool) (A : sparse V) (c : V), wf_struct A -> sshape A <> [] ->
  impl_cmp_scalar_gen v0 one cmp A c = Ok (impl_cmp_scalar v0 one cmp A c).
Proof. exact (impl_cmp_scalar_gen_eq v0). Qed.

Theorem C03_cmp_sparse_gen : forall (one : V) (cmp : V -> V -> bool) (A B : sparse V),
  wf_struct A -> wf_struct B -> sshape B = sshape A -> sshape A <> [] ->
  impl_cmp_gen v0 one cmp A B = Ok (impl_cmp v0 one cmp A B).
Proof. exact (impl_cmp_gen_eq v0). Qed.

(* ---- the remaining code paths: logical_and with a dense tensor (via to_sptensor); logical_or / logical_xor with a scalar
        or a dense tensor (full() then the dense operator: instances of the dense-result theorems); ==, != own paths ---- *)
Theorem C03_and_dense : forall (one : V), one <> v0 -> forall (A : sparse V) (T : dense V),
  wf A -> wf_dense T -> dshape T = sshape A ->
  wf (impl_and_dense v0 isz one A T) /\ sshape (impl_and_dense v0 isz one A T) = sshape A /\
  forall i, den (impl_and_dense v0 isz one A T) i = bval v0 one (nz (den A i) && nz (den_dense v0 T i)).
Proof. intros one _. exact (impl_and_dense_correct v0 isz isz_spec one). Qed.

Theorem C03_or_xor_scalar : forall (one : V) (A : sparse V) (c : V), wf_struct A ->
  let f_or := fun a b => bval v0 one (nz a || nz b) in let f_xor := fun a b => bval v0 one (xorb (nz a) (nz b)) in
  (forall i, inb (sshape A) i = true -> den_dense v0 (impl_dense_scalar v0 f_or A c) i = f_or (den A i) c) /\
  (forall i, inb (sshape A) i = true -> den_dense v0 (impl_dense_scalar v0 f_xor A c) i = f_xor (den A i) c).
Proof.
  intros one A c W. exact (conj (proj2 (proj2 (impl_dense_scalar_correct v0 v0 _ A c W))) (proj2 (proj2 (impl_dense_scalar_correct v0 v0 _ A c W)))).
Qed.

Theorem C03_or_xor_dense : forall (one : V) (A : sparse V) (T : dense V), wf_struct A -> wf_dense T -> dshape T = sshape A ->
  let f_or := fun a b => bval v0 one (nz a || nz b) in let f_xor := fun a b => bval v0 one (xorb (nz a) (nz b)) in
  (forall i, inb (sshape A) i = true -> den_dense v0 (impl_dense_dense v0 f_or A T) i = f_or (den A i) (den_dense v0 T i)) /\
  (forall i, inb (sshape A) i = true -> den_dense v0 (impl_dense_dense v0 f_xor A T) i = f_xor (den A i) (den_dense v0 T i)).
Proof.
  intros one A T W WT Hs. exact (conj (proj2 (proj2 (impl_dense_dense_correct v0 v0 _ A T W WT Hs))) (proj2 (proj2 (impl_dense_dense_correct v0 v0 _ A T W WT Hs)))).
Qed.

Theorem C03_eq_scalar : forall (one : V), one <> v0 -> forall (veqb : V -> V -> bool), (forall a b, veqb a b = true <-> a = b) ->
  forall (A : sparse V) (c : V), wf A ->
  wf (impl_eq_scalar isz one veqb A c) /\ sshape (impl_eq_scalar isz one veqb A c) = sshape A /\
  forall i, inb (sshape A) i = true -> den (impl_eq_scalar isz one veqb A c) i = bval v0 one (veqb (den A i) c).
Proof. exact (impl_eq_scalar_correct v0 isz isz_spec). Qed.

Theorem C03_eq_dense : forall (one : V), one <> v0 -> forall (veqb : V -> V -> bool), (forall a b, veqb a b = true <-> a = b) ->
  forall (A : sparse V) (T : dense V), wf A ->
  wf (impl_eq_dense v0 isz one veqb A T) /\ sshape (impl_eq_dense v0 isz one veqb A T) = sshape A /\
  forall i, inb (sshape A) i = true -> den (impl_eq_dense v0 isz one veqb A T) i = bval v0 one (veqb (den A i) (den_dense v0 T i)).
Proof. exact (impl_eq_dense_correct v0 isz isz_spec). Qed.

Theorem C03_ne_sparse : forall (one : V), one <> v0 -> forall (veqb : V -> V -> bool), (forall a b, veqb a b = true <-> a = b) ->
  forall A B : sparse V, wf A -> wf B -> sshape B = sshape A ->
  wf (impl_ne_sparse v0 one veqb A B) /\ sshape (impl_ne_sparse v0 one veqb A B) = sshape A /\
  forall i, inb (sshape A) i = true -> den (impl_ne_sparse v0 one veqb A B) i = bval v0 one (negb (veqb (den A i) (den B i))).
Proof. exact (impl_ne_sparse_correct v0 isz isz_spec). Qed.

Theorem C03_ne_dense : forall (one : V), one <> v0 -> forall (veqb : V -> V -> bool), (forall a b, veqb a b = true <-> a = b) ->
  forall (A : sparse V) (T : dense V), wf A ->
  wf (impl_ne_dense v0 isz one veqb A T) /\ sshape (impl_ne_dense v0 isz one veqb A T) = sshape A /\
  forall i, inb (sshape A) i = true -> den (impl_ne_dense v0 isz one veqb A T) i = bval v0 one (negb (veqb (den A i) (den_dense v0 T i))).
Proof. exact (impl_ne_dense_correct v0 isz isz_spec). Qed.

(* ---- division by a scalar (0 included; NaN positions through the generated tt_setdiff_rows), for ANY quotient function dv
        into ANY result type X whose zero x0 is 0/c (c <> 0) and whose fill value xnan is 0/0 ---- *)
Theorem C03_div_scalar : forall (X : Type) (x0 : X) (dv : V -> V -> X) (xnan : X) (A : sparse V) (c : V),
  wf A -> sshape A <> [] -> (c <> v0 -> dv v0 c = x0) -> (c = v0 -> dv v0 c = xnan) ->
  exists R, impl_div_scalar_gen isz dv xnan A c = Ok R /\ wf_struct R /\ sshape R = sshape A /\
            forall i, inb (sshape A) i = true -> den_sp x0 R i = dv (den A i) c.
Proof. intros X. exact (@impl_div_scalar_gen_correct V v0 isz isz_spec X). Qed.
End C03.

(* ---- exact index contracts of the GENERATED row-set helpers on duplicate-free subscript lists of N >= 1 columns ---- *)
Theorem C03_rows_intersect : forall N, (0 < N)%nat -> forall l1 l2 : list idx,
  NoDup l1 -> NoDup l2 -> width N l1 -> width N l2 ->
  tt_intersect_rows (zrows l1) (zrows l2) = Ok (map (fun i => Z.of_nat (pos i l1)) (filter (fun i => mem i l1) l2)).
Proof. exact intersect_rows_idx. Qed.

Theorem C03_rows_setdiff : forall N, (0 < N)%nat -> forall l1 l2 : list idx,
  NoDup l1 -> NoDup l2 -> width N l1 -> width N l2 ->
  tt_setdiff_rows (zrows l1) (zrows l2) = Ok (map Z.of_nat (filter (fun k => negb (mem (nth k l1 []) l2)) (seq 0 (length l1)))).
Proof. exact setdiff_rows_idx. Qed.

Theorem C03_rows_ismember : forall N, (0 < N)%nat -> forall C l2 : list idx,
  NoDup l2 -> width N C -> width N l2 -> (forall i, In i C -> In i l2) ->
  exists matched, tt_ismember_rows (zrows C) (zrows l2) = Ok (matched, map (fun i => Z.of_nat (pos i l2)) C).
Proof. exact ismember_rows_idx. Qed.

(* a[tt_setdiff_rows(a, b)] = the rows of a not in b, in the order of a;
   a[tt_intersect_rows(a, b)] = the rows of b that are in a, in the order of b *)
Theorem C03_rows_select : forall N, (0 < N)%nat -> forall l1 l2 : list idx,
  NoDup l1 -> NoDup l2 -> width N l1 -> width N l2 ->
  gen_diff l1 l2 = Ok (filter (fun i => negb (mem i l2)) l1) /\ gen_inter l1 l2 = Ok (filter (fun i => mem i l1) l2).
Proof. intros N HN l1 l2 H1 H2 W1 W2. exact (conj (gen_diff_spec N HN l1 l2 H1 H2 W1 W2) (gen_inter_spec N HN l1 l2 H1 H2 W1 W2)). Qed.

(* general form on integer matrices with duplicate-free rows (Proofs/C03Rows.v) *)
Theorem C03_rows_intersect_mat : forall A B : mat, NoDup A -> NoDup B -> okw A -> okw B ->
  exists idx, tt_intersect_rows A B = Ok idx /\ np_take [] A idx = filter (inrows A) B /\
              length idx = length (filter (inrows A) B) /\ (forall x, In x idx -> (0 <= x < zlen A)%Z).
Proof. exact intersect_rows_select. Qed.

Theorem C03_rows_setdiff_mat : forall A B : mat, NoDup A -> NoDup B -> okw A -> okw B ->
  tt_setdiff_rows A B = Ok (map Z.of_nat (filter (fun k => negb (existsb (row_eqb (nth k A [])) B)) (seq 0 (length A)))).
Proof. exact setdiff_rows_positions. Qed.


(* ---- IEEE division (Z operands, results in xval = Qc + {+inf, -inf, NaN}): x/0 = +-inf by the sign of x, 0/0 = NaN ---- *)
Theorem C03_div_scalar_ieee : forall (A : sparse Z) (c : Z), wf_sp zisz A -> sshape A <> [] ->
  exists R, impl_div_scalar_gen zisz xdivz XNaN A c = Ok R /\ wf_struct R /\ sshape R = sshape A /\
            forall i, inb (sshape A) i = true -> den_sp x0 R i = xdivz (zden_sp A i) c.
Proof. exact div_scalar_ieee. Qed.

(* finding C03-N5 (open): sparse / dense divides the stored entries only *)
Theorem C03_div_dense_refuted : ~ div_dense_stmt.
Proof. exact div_dense_refuted. Qed.
(* ... and is the element-wise quotient everywhere except where both operands are 0 *)
Theorem C03_div_dense_partial : forall (A : sparse Z) (T : dense Z), wf_sp zisz A ->
  wf_struct (impl_div_dense 0%Z xdivz A T) /\ sshape (impl_div_dense 0%Z xdivz A T) = sshape A /\
  forall i, ~ (zden_sp A i = 0%Z /\ zden T i = 0%Z) ->
            den_sp x0 (impl_div_dense 0%Z xdivz A T) i = xdivz (zden_sp A i) (zden T i).
Proof. exact div_dense_ieee_partial. Qed.

(* ---- sparse / sparse EXACTLY as pyttb computes it (repaired tree, e2beb21: finding A-07 fixed), transliterated over the
        GENERATED tt_setdiff_rows / tt_intersect_rows / tt_ismember_rows (Model/C03Gen.v impl_div_sparse_gen).  What is still
        open is finding C03-N7: x/0 is filled with NaN instead of +-inf and 0/x is stored as an explicit 0. ---- *)
(* the full statement is refuted (4/0 at [1,0] is NaN, not +inf) ... *)
Theorem C03_div_sparse_refuted : ~ div_sparse_stmt.
Proof. exact div_sparse_refuted. Qed.

(* ... the code, position by position, for ANY stored orders and supports, any quotient function dv and fill values, any
   duplicate-free enumeration `alls` of the shape: structurally well-formed, EVERY position of the shape is stored, and the
   stored value is div_fill = dv a b where both operands store the subscript (paired correctly), xnan where only self stores
   it, xzero where only other stores it, xnan where neither does *)
Theorem C03_div_sparse_gen_char : forall (V X : Type) (v0 : V) (x0 : X) (dv : V -> V -> X) (xnan xzero : X)
  (alls : list idx) (A B : sparse V),
  wf_struct A -> wf_struct B -> sshape B = sshape A -> sshape A <> [] ->
  NoDup alls -> (forall i, In i alls <-> inb (sshape A) i = true) ->
  exists R, impl_div_sparse_gen v0 dv xnan xzero alls A B = Ok R /\ wf_struct R /\ sshape R = sshape A /\
            (forall i, In i (ssubs R) <-> inb (sshape A) i = true) /\
            forall i, inb (sshape A) i = true -> den_sp x0 R i = div_fill v0 dv xnan xzero A B i.
Proof. exact @impl_div_sparse_gen_char. Qed.

(* ... in terms of the operands' values: the element-wise quotient at EVERY position where the dividend is zero or the divisor
   is nonzero; xnan (= 0/0) where a nonzero is divided by an implicit zero (C03-N7); nnz = number of cells (C03-N7, stored 0) *)
Theorem C03_div_sparse_partial : forall (V X : Type) (v0 : V) (isz : V -> bool) (x0 : X), (forall v, isz v = true <-> v = v0) ->
  forall (dv : V -> V -> X) (xnan xzero : X) (alls : list idx) (A B : sparse V),
  wf_sp isz A -> wf_sp isz B -> sshape B = sshape A -> sshape A <> [] ->
  NoDup alls -> (forall i, In i alls <-> inb (sshape A) i = true) ->
  xnan = dv v0 v0 -> (forall y, y <> v0 -> dv v0 y = xzero) ->
  exists R, impl_div_sparse_gen v0 dv xnan xzero alls A B = Ok R /\ wf_struct R /\ sshape R = sshape A /\
            length (ssubs R) = length alls /\
            (forall i, inb (sshape A) i = true -> den_sp v0 A i = v0 \/ den_sp v0 B i <> v0 ->
                       den_sp x0 R i = dv (den_sp v0 A i) (den_sp v0 B i)) /\
            (forall i, inb (sshape A) i = true -> den_sp v0 A i <> v0 -> den_sp v0 B i = v0 -> den_sp x0 R i = xnan).
Proof. exact @impl_div_sparse_gen_partial. Qed.

(* ... hence the element-wise quotient EVERYWHERE when the operands have the same support, in any two stored orders (the
   class on which finding A-07 produced wrong quotients) *)
Theorem C03_div_sparse_same_support : forall (V X : Type) (v0 : V) (isz : V -> bool) (x0 : X), (forall v, isz v = true <-> v = v0) ->
  forall (dv : V -> V -> X) (xnan xzero : X) (alls : list idx) (A B : sparse V),
  wf_sp isz A -> wf_sp isz B -> sshape B = sshape A -> sshape A <> [] ->
  (forall i, In i (ssubs A) <-> In i (ssubs B)) ->
  NoDup alls -> (forall i, In i alls <-> inb (sshape A) i = true) ->
  xnan = dv v0 v0 -> (forall y, y <> v0 -> dv v0 y = xzero) ->
  exists R, impl_div_sparse_gen v0 dv xnan xzero alls A B = Ok R /\ wf_struct R /\ sshape R = sshape A /\
            forall i, inb (sshape A) i = true -> den_sp x0 R i = dv (den_sp v0 A i) (den_sp v0 B i).
Proof. exact @impl_div_sparse_gen_same_support. Qed.

(* the IEEE instance over pyttb's own enumeration of the shape (first mode slowest) *)
Theorem C03_div_sparse_ieee : forall (A B : sparse Z), wf_sp zisz A -> wf_sp zisz B -> sshape B = sshape A -> sshape A <> [] ->
  exists R, impl_div_sparse_gen 0%Z xdivz XNaN x0 (allsubsC (sshape A)) A B = Ok R /\ wf_struct R /\ sshape R = sshape A /\
            length (ssubs R) = size (sshape A) /\
            (forall i, inb (sshape A) i = true -> zden_sp A i = 0%Z \/ zden_sp B i <> 0%Z ->
                       den_sp x0 R i = xdivz (zden_sp A i) (zden_sp B i)) /\
            (forall i, inb (sshape A) i = true -> zden_sp A i <> 0%Z -> zden_sp B i = 0%Z -> den_sp x0 R i = XNaN).
Proof. exact div_sparse_ieee_partial. Qed.

Print Assumptions C03_neg.
Print Assumptions C03_ones.
Print Assumptions C03_not.
Print Assumptions C03_elemfun.
Print Assumptions C03_from_aggregator.
Print Assumptions C03_add_sparse.
Print Assumptions C03_sub_sparse.
Print Assumptions C03_mul_scalar.
Print Assumptions C03_mul_dense.
Print Assumptions C03_mul_sparse.
Print Assumptions C03_and_sparse.
Print Assumptions C03_or_sparse.
Print Assumptions C03_xor_sparse.
Print Assumptions C03_and_scalar.
Print Assumptions C03_cmp_scalar.
Print Assumptions C03_cmp_sparse.
Print Assumptions C03_cmp_dense.
Print Assumptions C03_dense_result_scalar.
Print Assumptions C03_dense_result_dense.
Print Assumptions C03_mul_sparse_gen.
Print Assumptions C03_eq_sparse_gen.
Print Assumptions C03_ne_scalar_gen.
Print Assumptions C03_not_gen.
Print Assumptions C03_cmp_scalar_gen.
Print Assumptions C03_cmp_sparse_gen.
Print Assumptions C03_rows_intersect.
Print Assumptions C03_rows_setdiff.
Print Assumptions C03_rows_ismember.
Print Assumptions C03_rows_select.
Print Assumptions C03_rows_intersect_mat.
Print Assumptions C03_rows_setdiff_mat.
Print Assumptions C03_and_dense.
Print Assumptions C03_or_xor_scalar.
Print Assumptions C03_or_xor_dense.
Print Assumptions C03_eq_scalar.
Print Assumptions C03_eq_dense.
Print Assumptions C03_ne_sparse.
Print Assumptions C03_ne_dense.
Print Assumptions C03_div_scalar.
Print Assumptions C03_div_scalar_ieee.
Print Assumptions C03_div_dense_refuted.
Print Assumptions C03_div_dense_partial.
Print Assumptions C03_div_sparse_refuted.
Print Assumptions C03_div_sparse_gen_char.
Print Assumptions C03_div_sparse_partial.
Print Assumptions C03_div_sparse_same_support.
Print Assumptions C03_div_sparse_ieee.

(* non-vacuity on concrete, non-symmetric 2x3 operands stored in different (unsorted) orders *)
Local Open Scope Z_scope.
Definition exA : sparse Z := mkSp [2; 3]%nat [[1; 2]; [0; 1]; [1; 0]]%nat [9; -7; 5].
Definition exB : sparse Z := mkSp [2; 3]%nat [[1; 0]; [0; 0]; [1; 2]]%nat [5; 4; -2].
Example C03_example_wf : wf_spb zisz exA = true /\ wf_spb zisz exB = true.
Proof. split; reflexivity. Qed.
Example C03_example_unary :
  full 0 (impl_neg Z.opp exA) = mkDense [2; 3]%nat [0; -5; 7; 0; 0; -9] /\
  full 0 (impl_not 1 exA) = mkDense [2; 3]%nat [1; 0; 0; 1; 1; 0] /\
  full 0 (impl_elemfun zisz (fun v => v - 5) exA) = mkDense [2; 3]%nat [0; 0; -12; 0; 0; 4].
Proof. repeat split; reflexivity. Qed.
Example C03_example_arith :
  full 0 (impl_add 0 zisz Z.add exA exB) = mkDense [2; 3]%nat [4; 10; -7; 0; 0; 7] /\
  full 0 (impl_sub 0 zisz Z.add Z.opp exA exB) = mkDense [2; 3]%nat [-4; 0; -7; 0; 0; 11] /\
  full 0 (impl_mul 0 zisz Z.mul exA exB) = mkDense [2; 3]%nat [0; 25; 0; 0; 0; -18] /\
  full 0 (impl_mul_scalar zisz Z.mul exA 0) = mkDense [2; 3]%nat [0; 0; 0; 0; 0; 0] /\
  nnz (impl_mul_scalar zisz Z.mul exA 0) = 0%nat.
Proof. repeat split; reflexivity. Qed.
Example C03_example_logic_cmp :
  full 0 (impl_and 0 zisz 1 exA exB) = mkDense [2; 3]%nat [0; 1; 0; 0; 0; 1] /\
  full 0 (impl_xor 0 zisz 1 exA exB) = mkDense [2; 3]%nat [1; 0; 1; 0; 0; 0] /\
  full 0 (impl_cmp 0 1 Z.leb exA exB) = mkDense [2; 3]%nat [1; 1; 1; 1; 1; 0] /\
  full 0 (impl_cmp 0 1 Z.eqb exA exB) = mkDense [2; 3]%nat [0; 1; 0; 1; 1; 0] /\
  full 0 (impl_cmp_scalar 0 1 Z.gtb exA (-1)) = mkDense [2; 3]%nat [1; 1; 0; 1; 1; 1].
Proof. repeat split; reflexivity. Qed.

(* the transliterations over the generated helpers and the extra code paths on the same operands *)
Example C03_example_generated :
  (exists R, impl_mul_gen 0 Z.mul exA exB = Ok R /\ full 0 R = mkDense [2; 3]%nat [0; 25; 0; 0; 0; -18]) /\
  (exists R, impl_eq_gen 0 1 Z.eqb exA exB = Ok R /\ full 0 R = mkDense [2; 3]%nat [0; 1; 0; 1; 1; 0]) /\
  impl_cmp_gen 0 1 Z.leb exA exB = Ok (impl_cmp 0 1 Z.leb exA exB) /\
  GenUtils.tt_intersect_rows (zrows (ssubs exA)) (zrows (ssubs exB)) = Ok [2; 0] /\
  GenUtils.tt_setdiff_rows (zrows (ssubs exA)) (zrows (ssubs exB)) = Ok [1].
Proof. repeat split; try (eexists; split; reflexivity); reflexivity. Qed.
Example C03_example_more :
  full 0 (impl_ne_sparse 0 1 Z.eqb exA exB) = mkDense [2; 3]%nat [1; 0; 1; 0; 0; 1] /\
  full 0 (impl_eq_scalar zisz 1 Z.eqb exA 5) = mkDense [2; 3]%nat [0; 1; 0; 0; 0; 0] /\
  full 0 (impl_and_dense 0 zisz 1 exA (mkDense [2; 3]%nat [1; 0; 2; 0; 0; 3])) = mkDense [2; 3]%nat [0; 0; 1; 0; 0; 1] /\
  (exists R, impl_div_scalar_gen zisz xdivz XNaN exA 0 = Ok R /\
             map (den_sp x0 R) [[0; 0]; [1; 0]; [0; 1]]%nat = [XNaN; XPInf; XNInf]) /\
  map (den_sp x0 (impl_div_dense 0 xdivz exA (mkDense [2; 3]%nat [1; 0; 2; 0; 0; 3]))) [[1; 0]; [1; 1]; [0; 0]]%nat = [XPInf; x0; x0].
Proof. repeat split; try (eexists; split; reflexivity); reflexivity. Qed.

(* sparse / sparse on the witness of the (fixed) finding A-07 — same support, opposite stored orders — and on the witness of the
   open finding C03-N7 *)
Example C03_example_div_sparse :
  (exists R, impl_div_sparse_gen 0 xdivz XNaN x0 (allsubsC [2; 2]%nat)
               (mkSp [2; 2]%nat [[1; 1]; [0; 0]]%nat [3; 2]) (mkSp [2; 2]%nat [[0; 0]; [1; 1]]%nat [5; 7]) = Ok R /\
             map (den_sp x0 R) [[0; 0]; [1; 0]; [0; 1]; [1; 1]]%nat = [xdivz 2 5; XNaN; XNaN; xdivz 3 7]) /\
  (exists R, impl_div_sparse_gen 0 xdivz XNaN x0 (allsubsC [2; 2]%nat) wdA wdB = Ok R /\
             ssubs R = [[1; 0]; [0; 0]; [1; 1]; [0; 1]]%nat /\ svals R = [XNaN; x0; x0; XNaN]).
Proof. split; eexists; split; try reflexivity; split; reflexivity. Qed.
