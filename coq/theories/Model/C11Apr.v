(* Model/C11Apr.v — executable, value-generic model of the multiplicative-update CP-APR loop (pyttb/cp_apr.py:245-350,
   calculate_pi / calculate_phi dense branch, ktensor.redistribute / normalize(normtype=1, mode=n)) and of the projected
   line-search step of PDNR/PQNR (tt_linesearch_prowsubprob).  Division, |.|, max and comparisons are parameters. *)
From Coq Require Import List Arith Lia Bool.
From PV Require Import Base.Index Base.Sum Np.Array Model.Sparse Model.Repr Model.C14Nvecs.
Import ListNotations.

Section MU.
Context {V : Type} (v0 v1 : V) (vadd vmul vsub : V -> V -> V).
(* oracles *)
Variable vdivmax : V -> V -> V.    (* x / np.maximum(v, epsDivZero) *)
Variable vscale : V -> V -> V.     (* (1.0 / tmp) * a  when tmp > 0, else a   (ktensor.normalize) *)
Variable vabs : V -> V.
Variable vmin vmax : V -> V -> V.
Variable vgt0 : V -> bool.         (* Phi > 0 *)
Variable vltb : V -> V -> bool.
Variables (kappa kappatol stoptol : V).
Variables (maxinner : nat).
Notation matrix := (list (list V)).
Notation mg := (mget v0).

Record state := mkSt { sw : list V; sA : list matrix; sPhi : list matrix; skkt : list V; sconv : bool }.

Definition rankof (st : state) : nat := length (sw st).
Definition fac (st : state) (n : nat) : matrix := nth n (sA st) [].
Definition set_fac (st : state) (n : nat) (A : matrix) : state :=
  mkSt (sw st) (upd (sA st) n A) (sPhi st) (skkt st) (sconv st).

(* M.redistribute(mode=n) *)
Definition redistribute (n : nat) (st : state) : state :=
  let A := fac st n in
  mkSt (repeat v1 (rankof st))
       (upd (sA st) n (mtab (length A) (rankof st) (fun a r => vmul (mg A a r) (nth r (sw st) v0))))
       (sPhi st) (skkt st) (sconv st).

(* M.normalize(normtype=1, mode=n) *)
Definition colnorm1 (A : matrix) (r : nat) : V := sum_over v0 vadd A (fun row => vabs (nth r row v0)).
Definition normalize_mode (n : nat) (st : state) : state :=
  let A := fac st n in
  mkSt (map (fun r => vmul (nth r (sw st) v0) (colnorm1 A r)) (seq 0 (rankof st)))
       (upd (sA st) n (mtab (length A) (rankof st) (fun a r => vscale (colnorm1 A r) (mg A a r))))
       (sPhi st) (skkt st) (sconv st).

(* Pi (dense branch): Khatri-Rao of the other factors, row index = subscripts of the remaining modes *)
Definition pi_entry (st : state) (n : nat) (i : idx) (r : nat) : V := kprod v0 v1 vmul (remove_nth n (sA st)) i r.
(* Phi = (Xn / max(A Pi^T, eps)) Pi *)
Definition calc_phi (X : dense V) (n : nat) (st : state) : matrix :=
  let A := fac st n in
  let R := rankof st in
  mtab (length A) R (fun a r =>
    sum_over v0 vadd (allsubs (remove_nth n (dshape X))) (fun i =>
      vmul (vdivmax (den_dense v0 X (insert_at n a i)) (sum_n v0 vadd R (fun s => vmul (mg A a s) (pi_entry st n i s))))
           (pi_entry st n i r))).
Definition maxlist (l : list V) : V := fold_right vmax v0 l.
(* np.max(np.abs(np.minimum(A, 1 - Phi)))  (maximum of non-negative terms) *)
Definition kkt_mode (A Phi : matrix) (R : nat) : V :=
  maxlist (concat (mtab (length A) R (fun a r => vabs (vmin (mg A a r) (vsub v1 (mg Phi a r)))))).

(* V = (Phi[n] > 0) & (A < kappatol);  A[V] += kappa *)
Definition kappa_fix (n : nat) (st : state) : state :=
  let A := fac st n in
  let Phi := nth n (sPhi st) [] in
  set_fac st n (mtab (length A) (rankof st) (fun a r =>
     if vgt0 (mg Phi a r) && vltb (mg A a r) kappatol then vadd (mg A a r) kappa else mg A a r)).

Fixpoint inner (fuel : nat) (X : dense V) (n : nat) (st : state) : state :=
  match fuel with
  | O => st
  | S f =>
      let A := fac st n in
      let Phi := calc_phi X n st in
      let kkt := kkt_mode A Phi (rankof st) in
      let st1 := mkSt (sw st) (sA st) (upd (sPhi st) n Phi) (upd (skkt st) n kkt) (sconv st) in
      if vltb kkt stoptol then st1
      else inner f X n (mkSt (sw st1) (upd (sA st1) n (mtab (length A) (rankof st) (fun a r => vmul (mg A a r) (mg Phi a r))))
                             (sPhi st1) (skkt st1) false)
  end.

Definition mode_step (X : dense V) (iter n : nat) (st : state) : state :=
  let st1 := match iter with O => st | _ => kappa_fix n st end in
  normalize_mode n (inner maxinner X n (redistribute n st1)).

Definition sweep (X : dense V) (iter : nat) (st : state) : state :=
  fold_left (fun s n => mode_step X iter n s) (seq 0 (length (sA st)))
            (mkSt (sw st) (sA st) (sPhi st) (skkt st) true).

(* outer loop: one KKT entry per iteration performed; stops when converged or after [fuel] iterations *)
Fixpoint outer (fuel : nat) (X : dense V) (iter : nat) (st : state) (kkts : list V) : state * list V :=
  match fuel with
  | O => (st, kkts)
  | S f =>
      let st' := sweep X iter st in
      let kkts' := kkts ++ [maxlist (skkt st')] in
      if sconv st' then (st', kkts') else outer f X (S iter) st' kkts'
  end.

(* M = init.copy(); M.normalize(normtype=1)  — every mode *)
Definition init_state (K : ktensor V) : state :=
  fold_left (fun s n => normalize_mode n s) (seq 0 (length (kfactors K)))
    (mkSt (kweights K) (kfactors K) (map (fun A => mtab (length A) (length (kweights K)) (fun _ _ => v0)) (kfactors K))
          (repeat v0 (length (kfactors K))) true).

Definition cp_apr_mu (X : dense V) (K : ktensor V) (maxiters : nat) : state * list V :=
  outer maxiters X 0 (init_state K) [].
End MU.

(* projected line search of PDNR / PQNR: m_new = m + alpha d;  m_new *= (m_new > 0) *)
Section Proj.
Context {V : Type} (v0 : V) (vadd vmul : V -> V -> V) (vgt0 : V -> bool).
Definition project (x : V) : V := if vgt0 x then x else v0.
Definition projected_step (m d : list V) (alpha : V) : list V :=
  map (fun p => project (vadd (fst p) (vmul alpha (snd p)))) (combine m d).
End Proj.
