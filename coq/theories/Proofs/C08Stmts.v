(* Proofs/C08Stmts.v — wave 4: the statements of Props/C08.v with their (short) proof scripts, so that Props/C08.v closes every
   theorem by a bare `exact` (audit B2: 28 of 35 theorems there were closed by `intros; eapply X; eauto`). Same Section
   structure as Props/C08.v; after discharge each lemma depends exactly on the section variables / hypotheses it uses. *)
From Coq Require Import List Arith Bool ZArith QArith Permutation Ring Sorted.
From PV Require Import Base.Index Base.Perm Base.Sum Model.Repr Model.C08Kruskal Proofs.C08Proofs Proofs.C08NormalForm Proofs.C08Vec Proofs.C08Signs.
Import ListNotations.
Local Open Scope nat_scope.

Section C08.
Variable V : Type.
Variables (v0 v1 : V) (vadd vmul vsub : V -> V -> V) (vopp vinv : V -> V).
Hypothesis Vring : ring_theory v0 v1 vadd vmul vsub vopp (@eq V).
Notation den := (den_k v0 v1 vadd vmul).

(* redistribute(mode): same array, weights all one *)
Lemma C08_invariant_redistribute_pf : forall n K, n < length (kfactors K) ->
  (forall i, den (k_redistribute v1 vmul n K) i = den K i) /\
  kweights (k_redistribute v1 vmul n K) = map (fun _ => v1) (kweights K).
Proof. intros n K H. exact (conj (den_redistribute V v0 v1 vadd vmul vsub vopp Vring n K H) eq_refl). Qed.

(* arrange(permutation=p): same array for every permutation p of the components *)
Lemma C08_invariant_arrange_perm_pf : forall p K, is_perm p (krank K) ->
  forall i, den (k_arrange_perm v0 p K) i = den K i.
Proof. intros; eapply den_gather_perm; eauto. Qed.

(* extract(idx): the sum of the selected components *)
Lemma C08_extract_pf : forall idx K i,
  den (k_extract v0 idx K) i =
  if inb (kshape K) i then sum_over v0 vadd idx (comp V v0 v1 vmul K i) else v0.
Proof. apply den_gather. Qed.

(* K + L, K - L, -K, c * K *)
Lemma C08_add_pf : forall K L i, wf_k K -> kshape K = kshape L -> den (k_add K L) i = vadd (den K i) (den L i).
Proof. intros; eapply den_add; eauto. Qed.
Lemma C08_sub_pf : forall K L i, wf_k K -> kshape K = kshape L -> den (k_sub vopp K L) i = vsub (den K i) (den L i).
Proof. intros; eapply den_sub; eauto. Qed.
Lemma C08_neg_pf : forall K i, den (k_neg vopp K) i = vopp (den K i).
Proof. intros; eapply den_neg; eauto. Qed.
Lemma C08_mul_pf : forall c K i, den (k_scale vmul c K) i = vmul c (den K i).
Proof. intros; eapply den_scale; eauto. Qed.

(* vector round trip, exactly (list equality): from_vector(tovec(K), shape, contains_weights=True) = K *)
Lemma C08_vec_roundtrip_pf : forall K, wf_k K -> k_from_vector v0 v1 (k_tovec v0 true K) (kshape K) true = K.
Proof. intros; eapply from_vector_tovec; eauto. Qed.

(* fixsigns(): same array, and an even number of factors is negated in every component (any sign oracle) *)
Lemma C08_invariant_fixsigns_pf : forall (negcol : list V -> bool) K i,
  den (k_fixsigns v0 v1 vmul vopp negcol K) i = den K i.
Proof. intros; eapply den_fixsigns; eauto. Qed.
Lemma C08_sign_parity_pf : forall (negcol : list V -> bool) K r,
  Nat.even (length (flips_of (fun n r => memb n (fs_modes v0 negcol K r)) (length (kfactors K)) r)) = true.
Proof. intros negcol K r. exact (fixsigns_parity V v0 vinv negcol K r). Qed.
(* fixsigns(other), pairing rule of the repaired pyttb code (= the MATLAB original; A-29 fixed): even number of flips
   for every score comparison / sign oracle *)
Lemma C08_sign_parity_other_pf : forall (neg : V -> bool) (leb : V -> V -> bool) A B r,
  Nat.even (length (flips_of (fun n r => memb n (fso_modes v0 vadd vmul vopp neg leb A B r)) (length (kfactors A)) r)) = true.
Proof. intros neg leb A B r. exact (fixsigns_other_parity V v0 vadd vmul vopp vinv neg leb A B r). Qed.


(* fixsigns(other) of the repaired code, SIGN-AGREEMENT NORMAL FORM (per component r of the reference, both operands already
   normalised): in the order idx = argsort(scores) the new scores <A'_n[:,r], B_n[:,r]> are the old ones with the first
   endpt negated; at most ONE mode still correlates negatively with the reference, NONE when the number of negative
   scores was even.  For every total comparison and every sign test that is monotone and has neg(-x) = false when neg x. *)
Lemma C08_fixsigns_other_normal_form_pf : forall (neg : V -> bool) (leb : V -> V -> bool),
  (forall a b, leb a b = false -> leb b a = true) ->
  (forall a b, leb a b = true -> neg b = true -> neg a = true) ->
  (forall x, neg x = true -> neg (vopp x) = false) ->
  forall A B r, r < krank B -> r < krank A ->
  let s := fso_scores v0 vadd vmul A B r in let idx := argsort leb s in let ss := pick v0 idx s in
  let A' := k_fixsigns_other_core v0 v1 vadd vmul vopp neg leb A B in
  Sorted (fun a b => leb a b = true) ss /\
  (forall q, q < length (kfactors A) ->
     nth (nth q idx 0) (fso_scores v0 vadd vmul A' B r) v0 = flipped_sorted V v0 vopp neg leb ss q) /\
  let cnt := length (filter (fun q => neg (nth (nth q idx 0) (fso_scores v0 vadd vmul A' B r) v0)) (seq 0 (length (kfactors A)))) in
  cnt <= 1 /\ (Nat.even (length (filter neg ss)) = true -> cnt = 0).
Proof. intros neg leb H1 H2 H3 A B r HB HA. exact (fixsigns_other_scores V v0 v1 vadd vmul vsub vopp Vring neg leb H1 H2 H3 A B r HB HA). Qed.

(* the insertion argsort used by the executable instances is a permutation for every comparison function *)
Lemma C08_argsort_perm_pf : forall (leb : V -> V -> bool) l, is_perm (argsort_desc leb l) (length l).
Proof. intros. apply argsort_desc_perm. Qed.


(* ---- wave 2: permute over modes, vector / list conversions, update ---- *)
(* permute(order): weights kept, shape permuted, entry i of the result = entry (i o order^-1) of K *)
Lemma C08_permute_pf : forall K p, is_perm p (length (kfactors K)) ->
  kweights (k_permute p K) = kweights K /\ kshape (k_permute p K) = pick 0 p (kshape K) /\
  forall i, length i = length (kfactors K) -> den (k_permute p K) i = den K (pick 0 (invperm p) i).
Proof. intros; eapply den_permute; eauto. Qed.

(* from_vector(tovec(K, include_weights=False), shape, contains_weights=False): the factors exactly, unit weights *)
Lemma C08_vec_roundtrip_noweights_pf : forall K, wf_k K -> sum_nat (kshape K) <> 0 ->
  k_from_vector v0 v1 (k_tovec v0 false K) (kshape K) false = mkK (repeat v1 (krank K)) (kfactors K).
Proof. intros; eapply from_vector_tovec_noweights; eauto. Qed.

(* update with all modes (weights first) = from_vector, exactly *)
Lemma C08_update_all_modes_pf : forall K data, length data = krank K * (sum_nat (kshape K) + 1) ->
  k_update v0 (None :: map Some (seq 0 (length (kfactors K)))) data K = k_from_vector v0 v1 data (kshape K) true.
Proof. intros; eapply update_all_modes; eauto. Qed.

(* update with a subset of the modes leaves the weights / factors that are not named untouched *)
Lemma C08_update_frame_pf : forall ms data K,
  (~ In None ms -> kweights (k_update v0 ms data K) = kweights K) /\
  (forall k, ~ In (Some k) ms -> nth k (kfactors (k_update v0 ms data K)) [] = nth k (kfactors K) []).
Proof. intros; eapply update_frame; eauto. Qed.

(* tolist(): the unit-weight tensor of the returned factors denotes K — for EVERY order (the sign of a weight goes into
   factor 0 only, the N-th root of its modulus into every factor); the oracles must satisfy sgn(w) * root(|w|)^N = w *)
Lemma C08_tolist_pf : forall (root vsgn vabs : V -> V) (is_one : V -> bool),
  (forall x, is_one x = true -> x = v1) -> forall K, kfactors K <> [] ->
  (forall w, In w (kweights K) -> vmul (vsgn w) (vpow v1 vmul (root (vabs w)) (length (kfactors K))) = w) ->
  forall i, den (mkK (map (fun _ => v1) (kweights K)) (k_tolist vmul root vsgn vabs is_one K)) i = den K i.
Proof. intros; eapply den_tolist; eauto. Qed.

(* normalize / arrange / fixsigns(other): for EVERY norm oracle that is positive on non-zero columns, every sort oracle
   that returns a permutation, every sign test; 'all' needs an N-th root on the non-negative values *)
Section Oracles.
Variables (nrm : list V -> V) (pos neg : V -> bool) (root : V -> V) (srt : list V -> list nat).
Hypothesis vinv_r : forall x, x <> v0 -> vmul x (vinv x) = v1.
Hypothesis pos_nz : forall x, pos x = true -> x <> v0.
Hypothesis nrm_pos : forall l, pos (nrm l) = false -> Forall (fun y => y = v0) l.
Hypothesis srt_perm : forall l, is_perm (srt l) (length l).
Notation normalize := (k_normalize v0 v1 vmul vopp vinv nrm pos neg root srt).

Lemma C08_invariant_normalize_mode_pf : forall n K, n < length (kfactors K) ->
  forall i, den (k_normalize_mode v0 v1 vmul vinv nrm pos n K) i = den K i.
Proof. intros; eapply den_normalize_mode; eauto. Qed.

Lemma C08_invariant_normalize_pf : forall wf sort mode K,
  (forall n, mode = Some n -> n < length (kfactors K)) ->
  (mode = None -> wf = WAll -> kfactors K <> [] /\
     (forall x, neg x = false -> vpow v1 vmul (root x) (length (kfactors K)) = x) /\
     (forall x, neg x = true -> neg (vopp x) = false)) ->
  forall i, den (normalize wf sort mode K) i = den K i.
Proof. intros; eapply den_normalize_any; eauto. Qed.

Lemma C08_invariant_arrange_pf : forall wf K, (forall n, wf = Some n -> n < length (kfactors K)) ->
  forall i, den (k_arrange v0 v1 vmul vopp vinv nrm pos neg root srt wf K) i = den K i.
Proof. intros; eapply den_arrange; eauto. Qed.

Lemma C08_invariant_fixsigns_other_pf : forall (leb : V -> V -> bool) A B i,
  den (k_fixsigns_other V v0 v1 vadd vmul vopp vinv nrm pos neg root srt leb A B) i = den A i.
Proof. intros; eapply den_fixsigns_other; eauto. Qed.

(* normal form, sign of the weights: after the sign step no weight is negative *)
Lemma C08_normal_form_nonneg_pf : forall K r, (forall x, neg x = true -> neg (vopp x) = false) ->
  kfactors K <> [] -> r < krank K -> neg (nth r (kweights (k_fix_neg v1 vmul vopp neg K)) v0) = false.
Proof. intros; eapply fix_neg_nonneg; eauto. Qed.

(* tolist(mode): normalize(weight_factor=mode) then the factor list *)
Lemma C08_tolist_mode_pf : forall n K, n < length (kfactors K) ->
  forall i, den (mkK (map (fun _ => v1) (kweights K)) (k_tolist_mode v0 v1 vmul vopp vinv nrm pos neg root srt n K)) i = den K i.
Proof. intros; eapply den_tolist_mode; eauto. Qed.

(* score: the final A.arrange(permutation=best_perm) on the normalised copy denotes the receiver *)
Lemma C08_invariant_score_arrange_pf : forall p K, is_perm p (krank K) ->
  forall i, den (k_gather v0 p (normalize WNone false None K)) i = den K i.
Proof. intros; eapply den_score_arrange; eauto. Qed.

(* ---- normal form under nrm_spec: the oracle is a norm (positively homogeneous, even, zero on zero columns) ---- *)
Hypothesis nrm_scale : forall c l, pos c = true -> nrm (map (fun x => vmul x c) l) = vmul (nrm l) c.
Hypothesis pos_inv : forall t, pos t = true -> pos (vinv t) = true.
Hypothesis nrm_flip : forall l, nrm (map (fun x => vmul x (vm1 v1 vopp)) l) = nrm l.
Hypothesis nrm_zero : forall l, Forall (fun y => y = v0) l -> nrm l = v0.

(* unit (or zero) columns in the requested norm after normalize(), sorted or not, and after arrange() *)
Lemma C08_normal_form_unit_columns_pf : forall sort K n r, n < length (kfactors K) -> r < krank K ->
  unit_or_zero V v0 v1 nrm (nth n (kfactors (normalize WNone sort None K)) []) r.
Proof. intros; eapply normal_form_unit_columns; eauto. Qed.
Lemma C08_normal_form_unit_columns_mode_pf : forall n K r, n < length (kfactors K) -> r < krank K ->
  unit_or_zero V v0 v1 nrm (nth n (kfactors (k_normalize_mode v0 v1 vmul vinv nrm pos n K)) []) r.
Proof. intros; eapply normalize_mode_unit; eauto. Qed.
Lemma C08_normal_form_arrange_unit_columns_pf : forall K n r, n < length (kfactors K) -> r < krank K ->
  unit_or_zero V v0 v1 nrm (nth n (kfactors (k_arrange v0 v1 vmul vopp vinv nrm pos neg root srt None K)) []) r.
Proof. intros; eapply normal_form_arrange_unit_columns; eauto. Qed.

(* a component with a zero column carries weight 0 *)
Lemma C08_normal_form_zero_weight_pf : forall K n r, n < length (kfactors K) -> r < krank K ->
  Forall (fun y => y = v0) (col v0 (nth n (kfactors K) []) r) ->
  nth r (kweights (normalize WNone false None K)) v0 = v0.
Proof. intros; eapply normal_form_zero_weight; eauto. Qed.
Lemma C08_normal_form_zero_weight_mode_pf : forall n K r, r < krank K ->
  Forall (fun y => y = v0) (col v0 (nth n (kfactors K) []) r) ->
  nth r (kweights (k_normalize_mode v0 v1 vmul vinv nrm pos n K)) v0 = v0.
Proof. intros; eapply normalize_mode_zero_weight; eauto. Qed.

(* absorbed weights are all one (normalize with weight_factor = a mode or 'all', sorted or not; arrange(weight_factor)) *)
Lemma C08_normal_form_all_one_pf : forall wf sort K, absorbs wf (length (kfactors K)) ->
  krank (normalize wf sort None K) = krank K /\
  forall r, r < krank K -> nth r (kweights (normalize wf sort None K)) v0 = v1.
Proof. intros; eapply normal_form_all_one; eauto. Qed.
Lemma C08_normal_form_arrange_all_one_pf : forall n K,
  krank (k_arrange v0 v1 vmul vopp vinv nrm pos neg root srt (Some n) K) = krank K /\
  forall r, r < krank K -> nth r (kweights (k_arrange v0 v1 vmul vopp vinv nrm pos neg root srt (Some n) K)) v0 = v1.
Proof. intros; eapply normal_form_arrange_all_one; eauto. Qed.

(* descending weights when sorting is requested: the argsort-based permutation sorts (any total comparison) *)
Lemma C08_normal_form_sorted_desc_pf : forall (leb : V -> V -> bool), (forall a b, leb a b = false -> leb b a = true) ->
  forall wf K, Sorted (fun a b => leb b a = true)
    (kweights (k_normalize v0 v1 vmul vopp vinv nrm pos neg root (argsort_desc leb) wf true None K)) /\
  Sorted (fun a b => leb b a = true)
    (kweights (k_arrange v0 v1 vmul vopp vinv nrm pos neg root (argsort_desc leb) None K)).
Proof.
  intros leb Ht wf K.
  exact (conj (normal_form_sorted_desc V v0 v1 vmul vopp vinv leb Ht nrm pos neg root wf K)
              (normal_form_arrange_sorted_desc V v0 v1 vmul vopp vinv leb Ht nrm pos neg root K)).
Qed.
End Oracles.
End C08.
