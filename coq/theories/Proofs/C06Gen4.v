(* Proofs/C06Gen4.v — wave 4: C06 statements over the WHOLE METHODS the translator generates from pyttb/sptensor.py
   (Gen/GenSptensor4.v: sptensor_permute, sptensor_ones; bridges to the hand models in Proofs/W4Sptensor.v): whatever the generated
   method returns for two stored orders of one tensor is well-formed and the same result.  An edit of sptensor.permute / ones in /repo
   changes the generated text and breaks these proofs (or the bridges they rest on). *)
From Coq Require Import List ZArith Arith Bool Lia Permutation.
From PV Require Import Base.Index Base.Perm Np.NpZ Np.NpZ2 Np.NpZ3 Np.NpZ3c Np.NpZ3d Np.NpZ3e Np.NpZ4 Np.NpZ4b Np.Array
                       Model.Sparse Model.Harness Model.C03Ops Model.C06Ops Model.C07Ops Model.W4Ktensor Model.W4Sptensor Gen.GenSptensor4
                       Proofs.C03Lemmas Proofs.C03Proofs Proofs.C03More Proofs.C06Proofs Proofs.C06Other Proofs.W4Sptensor.
Import ListNotations.

Notation wfz := (wf_sp zisz).
Definition nonneg_spt (t : sptz) : Prop :=
  (forall row, In row (spt_subs t) -> forall s, In s row -> (0 <= s)%Z) /\ (forall d, In d (spt_shape t) -> (0 <= d)%Z).

(* since /repo 9c8fdd5 the generated method carries the dtype of `order` as a tag (order.dtype == bool): a boolean order is refused *)
Lemma gen_permute_bool_rejected (self : sptz) (order : vec) : sptensor_permute self order true = Err.
Proof. reflexivity. Qed.

(* sptensor.permute, generated: two stored orders of one tensor (with stored entries), the same admissible order of the modes (of either
   dtype tag: an accepted request has an integer order) *)
Theorem gen_permute_indep (self self' t t' : sptz) (order : vec) (isbool : bool) :
  nonneg_spt self -> nonneg_spt self' -> np_size2 (spt_subs self) <> 0%Z -> np_size2 (spt_subs self') <> 0%Z ->
  wfz (to_Sp self) -> wfz (to_Sp self') -> sshape (to_Sp self') = sshape (to_Sp self) ->
  Permutation (entries (to_Sp self)) (entries (to_Sp self')) ->
  sptensor_permute self order isbool = Ok t -> sptensor_permute self' order isbool = Ok t' ->
  same_result 0%Z zisz (to_Sp t) (to_Sp t').
Proof.
  intros (N1 & N2) (N1' & N2') Hz Hz' W W' Hs P E E'.
  destruct isbool; [rewrite gen_permute_bool_rejected in E; discriminate|].
  destruct (gen_sp_permute_model self t order N1 N2 Hz E) as (Hp & M).
  destruct (gen_sp_permute_model self' t' order N1' N2' Hz' E') as (_ & M').
  assert (HL : length (sshape (to_Sp self)) = length (spt_shape self)) by (unfold to_Sp, nats; cbn [sshape]; apply map_length).
  destruct (indep_permute 0%Z zisz zisz_spec (to_Sp self) (to_Sp self') (nats order) W W' Hs P ltac:(now rewrite HL))
    as (R & R' & ER & ER' & Hsame).
  rewrite M in ER. rewrite M' in ER'. injection ER as <-. injection ER' as <-. exact Hsame.
Qed.

Lemma map_const_len {A B C} (c : C) (l : list A) (l' : list B) : length l = length l' -> map (fun _ => c) l = map (fun _ => c) l'.
Proof. revert l'. induction l as [|x l IH]; intros [|y l'] H; cbn in *; try discriminate; auto. f_equal. apply IH. lia. Qed.

(* sptensor.ones, generated: the hand model of C03 (impl_ones) on the shared record, hence well-formed and order independent *)
Theorem gen_ones_model (self t : sptz) : wfz (to_Sp self) -> sptensor_ones self = Ok t -> to_Sp t = impl_ones 1%Z (to_Sp self).
Proof.
  intros (HL & _) E. rewrite sp_ones_bridge in E. unfold H_sp_ones in E. cbv zeta in E.
  destruct (spt_make_ok _ _ _); [|discriminate]. injection E as <-.
  unfold to_Sp, impl_ones, sp_const. cbn [spt_shape spt_subs spt_vals sshape ssubs svals]. f_equal.
  cbn [ssubs svals to_Sp] in HL. symmetry. apply map_const_len. exact HL.
Qed.

Theorem gen_ones_indep (self self' t t' : sptz) :
  wfz (to_Sp self) -> wfz (to_Sp self') -> sshape (to_Sp self') = sshape (to_Sp self) ->
  Permutation (entries (to_Sp self)) (entries (to_Sp self')) ->
  sptensor_ones self = Ok t -> sptensor_ones self' = Ok t' ->
  same_result 0%Z zisz (to_Sp t) (to_Sp t').
Proof.
  intros W W' Hs P E E'. rewrite (gen_ones_model self t W E), (gen_ones_model self' t' W' E').
  assert (H1 : (1 <> 0)%Z) by discriminate.
  destruct (indep_ones 0%Z zisz zisz_spec 1%Z H1 (to_Sp self) (to_Sp self') W W' Hs P) as (W1 & C1 & P1).
  assert (P' : Permutation (entries (to_Sp self')) (entries (to_Sp self))) by (now symmetry).
  destruct (indep_ones 0%Z zisz zisz_spec 1%Z H1 (to_Sp self') (to_Sp self) W' W (eq_sym Hs) P') as (W2 & _ & _).
  split; [exact W1|]. split; [exact W2|]. split; [exact C1|exact P1].
Qed.
