(* Proofs/C10Fit.v — the fit tucker_als REPORTS is the recomputed one, for the returned object (wave 4).
   tucker_als.py:  normresidual = sqrt(abs(normX**2 - core.norm()**2));  fit = 1 - normresidual / normX.
   For ANY factors with orthonormal columns (no optimality, no eigen-assumption) and core = X x_n U_n^T (the core relation):
     ||core x_n U_n||^2 = ||core||^2              (mode products with isometries preserve the Frobenius norm: norm_isometry, norm_ttm_from)
     ||X - full(T)||^2 = ||X||^2 - ||core||^2      (concrete_tals_residual)
     1 - sqrt(|normX^2 - ||core||^2|) / normX = 1 - ||X - full(T)|| / ||X||      (concrete_tals_fit) *)
From Coq Require Import List Arith Lia Bool ZArith Reals Lra RealField Ring.
From PV Require Import Base.Index Base.Sum Np.Array Np.NpR Model.Sparse Model.Repr Model.C10Tucker Model.C14Nvecs
                       Proofs.C14Sums Proofs.C14Split Proofs.C14GramSp Proofs.C10Ttm Proofs.C10Proofs Proofs.C10Spectral Proofs.C10Proj
                       Proofs.C10ProjR Proofs.C10Recon Proofs.C10Concrete Proofs.C10Rayleigh Proofs.C10Isometry Proofs.C10Seq.
Import ListNotations.

Section NormIso.
Variable V : Type.
Variables (v0 v1 : V) (vadd vmul vsub : V -> V -> V) (vopp : V -> V).
Hypothesis Vring : ring_theory v0 v1 vadd vmul vsub vopp (@eq V).
Add Ring Vr10f : Vring.
Notation SO := (sum_over v0 vadd).
Notation SN := (sum_n v0 vadd).
Notation den := (den_dense v0).
Notation mg := (mget v0).
Notation ttm := (ttm v0 vadd vmul).
Notation ttm_from := (ttm_from v0 vadd vmul).
Notation dinner := (dinner V v0 vadd vmul).
Notation orthocols := (orthocols V v0 v1 vadd vmul).
Local Notation "x * y" := (vmul x y).

(* ||Z x_k U||^2 = ||Z||^2 for U (I x r_k) with orthonormal columns *)
Theorem norm_isometry (Z : dense V) (k I : nat) (U : @matrix V) :
  let sZ := dshape Z in
  k < length sZ -> nrows U = I -> orthocols I (nth k sZ 0) U ->
  dinner (set_nth k I sZ) (ttm Z k U) (ttm Z k U) = dinner sZ Z Z.
Proof.
  intros sZ Hk HU Ho. set (r := nth k sZ 0) in *. set (s := set_nth k I sZ).
  assert (Ls : length s = length sZ) by (unfold s; now apply length_set_nth).
  assert (Hks : nth k s 0 = I) by (unfold s; now apply nth_set_nth_same).
  assert (Hrest : remove_nth k s = remove_nth k sZ) by (unfold s; now apply remove_set_nth_same).
  unfold C10Proj.dinner.
  rewrite (sum_allsubs_split V v0 v1 vadd vmul vsub vopp Vring s k _ ltac:(lia)).
  rewrite (sum_allsubs_split V v0 v1 vadd vmul vsub vopp Vring sZ k _ Hk).
  rewrite Hks, Hrest. fold r. set (rest := remove_nth k sZ).
  unfold sum_n at 1. rewrite (sum_over_swap V v0 v1 vadd vmul vsub vopp Vring).
  unfold sum_n at 1. rewrite (sum_over_swap V v0 v1 vadd vmul vsub vopp Vring (seq 0 r) (allsubs rest)).
  apply sum_over_ext. intros i Hi. apply in_allsubs in Hi. pose proof (inb_length _ _ Hi) as L.
  unfold rest in L. rewrite remove_nth_length in L by exact Hk.
  fold (sum_n v0 vadd I (fun x => den (ttm Z k U) (insert_at k x i) * den (ttm Z k U) (insert_at k x i))).
  fold (sum_n v0 vadd r (fun p => den Z (insert_at k p i) * den Z (insert_at k p i))).
  rewrite <- (iso_dot V v0 v1 vadd vmul vsub vopp Vring I r U (fun p => den Z (insert_at k p i)) (fun p => den Z (insert_at k p i)) Ho).
  apply sum_n_ext. intros x Hx.
  assert (Hin : inb s (insert_at k x i) = true).
  { apply inb_insert; [lia|now rewrite Hks|now rewrite Hrest]. }
  assert (E : den (ttm Z k U) (insert_at k x i) = SN r (fun p => mg U x p * den Z (insert_at k p i))).
  { rewrite (den_ttm V v0 vadd vmul) by (rewrite HU; exact Hin). unfold ttm_den. fold sZ. fold r.
    apply sum_n_ext. intros p Hp. rewrite nth_insert_at by lia. rewrite set_nth_insert by lia. reflexivity. }
  now rewrite E.
Qed.

(* a chain of isometries along the modes n, n+1, ... preserves the norm *)
Theorem norm_ttm_from (Us : list (@matrix V)) : forall (Z : dense V) n, n + length Us <= length (dshape Z) ->
  (forall q U, nth_error Us q = Some U -> orthocols (nrows U) (nth (n + q) (dshape Z) 0) U) ->
  dinner (dshape (ttm_from Z n Us)) (ttm_from Z n Us) (ttm_from Z n Us) = dinner (dshape Z) Z Z.
Proof.
  induction Us as [|U Us IH]; intros Z n H HU; [reflexivity|]. cbn [length] in H. cbn [C10Tucker.ttm_from].
  assert (Hn : n < length (dshape Z)) by lia.
  rewrite IH.
  - rewrite (dshape_ttm V v0 vadd vmul). apply norm_isometry; auto.
    specialize (HU 0 U eq_refl). now rewrite Nat.add_0_r in HU.
  - rewrite (ndims_ttm V v0 vadd vmul) by exact Hn. lia.
  - intros q U' Hq. rewrite (nth_dshape_ttm_other V v0 vadd vmul) by (auto; lia).
    specialize (HU (S q) U' Hq). now rewrite Nat.add_succ_r in HU.
Qed.

(* mode sizes of the core X x_0 U_0^T x_1 U_1^T ... : mode n+q has size ncols U_q, the others are those of X *)
Lemma dshape_core_from (Us : list (@matrix V)) : forall (Z : dense V) n m, n + length Us <= length (dshape Z) ->
  nth m (dshape (ttm_from Z n (transposed v0 Us))) 0 =
  if (n <=? m) && (m <? n + length Us) then ncols (nth (m - n) Us []) else nth m (dshape Z) 0.
Proof.
  induction Us as [|U Us IH]; intros Z n m H.
  - cbn [transposed map C10Tucker.ttm_from length]. rewrite Nat.add_0_r.
    destruct (n <=? m) eqn:E1, (m <? n) eqn:E2; cbn; try reflexivity. apply Nat.leb_le in E1. apply Nat.ltb_lt in E2. lia.
  - cbn [length] in H. cbn [transposed map C10Tucker.ttm_from]. fold (transposed v0 Us).
    assert (Hn : n < length (dshape Z)) by lia.
    rewrite IH by (rewrite (ndims_ttm V v0 vadd vmul); lia).
    cbn [length].
    destruct (Nat.eq_dec m n) as [->|Hne].
    + replace ((S n <=? n) && (n <? S n + length Us)) with false by (symmetry; apply andb_false_iff; left; apply Nat.leb_gt; lia).
      replace ((n <=? n) && (n <? n + S (length Us))) with true
        by (symmetry; apply andb_true_iff; split; [apply Nat.leb_le|apply Nat.ltb_lt]; lia).
      rewrite Nat.sub_diag. cbn [nth]. rewrite (dshape_ttm V v0 vadd vmul), nth_set_nth_same by exact Hn.
      unfold nrows, mtrans. now rewrite map_length, seq_length.
    + rewrite (nth_dshape_ttm_other V v0 vadd vmul) by auto.
      destruct (le_lt_dec (S n) m) as [Hge|Hlt].
      * replace (S n <=? m) with true by (symmetry; apply Nat.leb_le; lia).
        replace (n <=? m) with true by (symmetry; apply Nat.leb_le; lia).
        replace (m <? S n + length Us) with (m <? n + S (length Us)) by (f_equal; lia).
        destruct (m <? n + S (length Us)); cbn [andb]; [|reflexivity].
        replace (m - n) with (S (m - S n)) by lia. reflexivity.
      * replace (S n <=? m) with false by (symmetry; apply Nat.leb_gt; lia).
        replace (n <=? m) with false by (symmetry; apply Nat.leb_gt; lia). reflexivity.
Qed.

Lemma dshape_proj_from s (Us : list (@matrix V)) : forall n (Y : dense V), dshape Y = s ->
  dshape (proj_from V v0 vadd vmul s n Us Y) = s.
Proof.
  induction Us as [|U Us IH]; intros n Y H; [exact H|]. cbn [proj_from]. apply IH. apply (dshape_mproj V v0 vadd vmul).
Qed.
End NormIso.

(* ---------------------------------------------------------------------------------------- *)
(* over R                                                                                     *)
(* ---------------------------------------------------------------------------------------- *)
Local Open Scope R_scope.

Definition normsqR (Z : dense R) : R := innerR (dshape Z) Z Z.

(* what tucker_als (and hosvd) return: factors with orthonormal columns, core = X x_n U_n^T *)
Definition orthofactors (s : shape) (Us : list (@matrix R)) : Prop :=
  length Us = length s /\
  forall n U, nth_error Us n = Some U -> nrows U = nth n s 0%nat /\ orthocolsR (nth n s 0%nat) (ncols U) U.

Theorem concrete_tals_residual (X : dense R) (Us : list (@matrix R)) :
  let s := dshape X in
  orthofactors s Us ->
  let core := ttm_all 0 Rplus Rmult X (transposed 0 Us) in
  let T := mkT core Us in
  nrm2 (dense R) (innerR s) (subR s X (tfull_ttm 0 Rplus Rmult T)) = nrm2 (dense R) (innerR s) X - normsqR core /\
  dshape (tfull_ttm 0 Rplus Rmult T) = s /\
  normsqR (tfull_ttm 0 Rplus Rmult T) = normsqR core.
Proof.
  intros s (HL & HU) core T.
  assert (Hrows : forall q U, nth_error Us q = Some U -> nrows U = nth q (dshape X) 0%nat) by (intros q U Hq; apply (HU q U Hq)).
  (* full(T) as a product of projectors *)
  assert (ET : tfull_ttm 0 Rplus Rmult T = applyPs (dense R) (map (gproj s Us) (seq 0 (length Us))) X).
  { unfold T, core. rewrite (recon_is_projection R 0 1 Rplus Rmult Rminus Ropp RTheory X Us HL Hrows). fold s.
    now rewrite (proj_from_applyPs s Us [] X : proj_from R 0 Rplus Rmult s 0%nat Us X = _). }
  set (mMs := map (fun n => (n, uutR (nth n s 0%nat) (ncols (nth n Us [])) (nth n Us []))) (seq 0 (length Us))).
  assert (Hps : map (gproj s Us) (seq 0 (length Us)) = projs s mMs).
  { unfold mMs, projs. rewrite map_map. reflexivity. }
  assert (Hg : Forall (good_mode s) mMs).
  { unfold mMs. apply Forall_forall. intros p Hp. apply in_map_iff in Hp. destruct Hp as (n & <- & Hn). apply in_seq in Hn.
    assert (Hq : nth_error Us n = Some (nth n Us [])) by (apply nth_error_nth'; lia).
    destruct (HU n _ Hq) as (_ & Ho). unfold good_mode. cbn [fst snd]. split; [lia|]. split.
    - apply (uut_sym R 0 1 Rplus Rmult Rminus Ropp RTheory).
    - apply (uut_idem R 0 1 Rplus Rmult Rminus Ropp RTheory). exact Ho. }
  assert (Hnd : NoDup (map fst mMs)).
  { unfold mMs. rewrite map_map. cbn [fst]. rewrite map_id. apply seq_NoDup. }
  assert (Hsh : dshape (tfull_ttm 0 Rplus Rmult T) = s).
  { unfold T, core. rewrite (recon_is_projection R 0 1 Rplus Rmult Rminus Ropp RTheory X Us HL Hrows). fold s.
    now apply (dshape_proj_from R 0 Rplus Rmult). }
  assert (Hcore_nd : length (dshape core) = length s).
  { unfold core, ttm_all. apply (ndims_ttm_from R 0 Rplus Rmult). unfold transposed. rewrite map_length. fold s. lia. }
  assert (Hnorm : normsqR (tfull_ttm 0 Rplus Rmult T) = normsqR core).
  { unfold normsqR, innerR, tfull_ttm, T, ttm_all. cbn [tcore tfactors].
    apply (norm_ttm_from R 0 1 Rplus Rmult Rminus Ropp RTheory Us core 0); [lia|].
    intros q U Hq. cbn [Nat.add].
    assert (Hlt : (q < length Us)%nat) by (apply nth_error_Some; congruence).
    unfold core, ttm_all. rewrite (dshape_core_from R 0 Rplus Rmult Us X 0 q) by (fold s; lia).
    replace ((0 <=? q) && (q <? 0 + length Us))%nat with true
      by (symmetry; apply andb_true_iff; split; [apply Nat.leb_le|apply Nat.ltb_lt]; lia).
    rewrite Nat.sub_0_r. assert (Enth : nth q Us [] = U) by (now apply nth_error_nth). rewrite Enth.
    destruct (HU q U Hq) as (E1 & E2). rewrite E1. exact E2. }
  split; [|split; [exact Hsh|exact Hnorm]].
  rewrite <- Hnorm. unfold normsqR. rewrite Hsh. rewrite ET, Hps.
  apply (concrete_pythagoras s mMs X Hg Hnd).
Qed.

(* the fit tucker_als reports = the recomputed one *)
Theorem concrete_tals_fit (X : dense R) (Us : list (@matrix R)) :
  let s := dshape X in
  orthofactors s Us ->
  let core := ttm_all 0 Rplus Rmult X (transposed 0 Us) in
  let T := mkT core Us in
  let normXsq := nrm2 (dense R) (innerR s) X in
  1 - sqrt (Rabs (normXsq - normsqR core)) / sqrt normXsq =
  1 - sqrt (nrm2 (dense R) (innerR s) (subR s X (tfull_ttm 0 Rplus Rmult T))) / sqrt normXsq.
Proof.
  intros s Ho core T normXsq. destruct (concrete_tals_residual X Us Ho) as (E & _ & _). fold s core T normXsq in E.
  rewrite <- E. rewrite Rabs_right; [reflexivity|]. apply Rle_ge. apply innerR_pos.
Qed.

(* non-vacuity: X = [[3,0,0],[0,1,0]] with the orthonormal factors [[1],[0]], [[1],[0],[0]] (ranks 1,1): core = [[3]], ||X - T||^2 = 10 - 9 *)
Example concrete_tals_fit_example :
  let s := [2; 3]%nat in
  let Us : list (@matrix R) := [[[1]; [0]]; [[1]; [0]; [0]]] in
  let core := ttm_all 0 Rplus Rmult exX (transposed 0 Us) in
  orthofactors s Us /\ dshape core = [1; 1]%nat /\ normsqR core = 9 /\
  nrm2 (dense R) (innerR s) (subR s exX (tfull_ttm 0 Rplus Rmult (mkT core Us))) = 10 - 9.
Proof.
  intros s Us core.
  assert (Ho : orthofactors s Us).
  { split; [reflexivity|]. intros n U Hn. destruct n as [|[|n]]; cbn in Hn; [injection Hn as <-|injection Hn as <-|destruct n; discriminate]; (split; [reflexivity|]).
    - intros j l Hj Hl. cbn in Hj, Hl. assert (j = 0)%nat as -> by lia. assert (l = 0)%nat as -> by lia. cbn. lra.
    - intros j l Hj Hl. cbn in Hj, Hl. assert (j = 0)%nat as -> by lia. assert (l = 0)%nat as -> by lia. cbn. lra. }
  assert (Hc : normsqR core = 9) by (unfold normsqR, innerR, dinner; cbn; lra).
  split; [exact Ho|]. split; [reflexivity|]. split; [exact Hc|].
  destruct (concrete_tals_residual exX Us Ho) as (E & _ & _). change (dshape exX) with s in E. fold core in E. rewrite E, Hc.
  f_equal. unfold nrm2, innerR, dinner; cbn; lra.
Qed.

(* HOOI on concrete tensors: any sequence of single-mode updates, each capturing at least as much energy of the tensor projected on the other
   factors (the eigen-oracle contract of nvecs), keeps ||X x_n U_n U_n^T|| (= ||core||, concrete_tals_residual) and the fit from decreasing;
   the space / projector hypotheses of C10_hooi_fit_monotone are discharged *)
Theorem concrete_hooi_fit_monotone (s : shape) (mMs mMs' : list (nat * @matrix R)) (X : dense R) :
  Forall (good_mode s) mMs -> NoDup (map fst mMs) -> Forall (good_mode s) mMs' -> NoDup (map fst mMs') ->
  hooi_steps (dense R) (innerR s) X (projs s mMs) (projs s mMs') ->
  0 < nrm2 (dense R) (innerR s) X ->
  nrm2 (dense R) (innerR s) (applyPs (dense R) (projs s mMs) X) <= nrm2 (dense R) (innerR s) (applyPs (dense R) (projs s mMs') X) /\
  1 - sqrt (nrm2 (dense R) (innerR s) (subR s X (applyPs (dense R) (projs s mMs) X))) / sqrt (nrm2 (dense R) (innerR s) X) <=
  1 - sqrt (nrm2 (dense R) (innerR s) (subR s X (applyPs (dense R) (projs s mMs') X))) / sqrt (nrm2 (dense R) (innerR s) X).
Proof.
  intros Hg Hnd Hg' Hnd' Hst Hpos.
  apply (hooi_core_and_fit_monotone (dense R) (subR s) (innerR s) (innerR_sym s) (innerR_sub s)); auto.
  - now apply projs_oproj.
  - now apply modes_commute.
  - now apply projs_oproj.
  - now apply modes_commute.
Qed.
